(* C07, fairness of the turn-based manager over ROUNDS (several steps), for an arbitrary
   simulation with stable done flags: iterating the one-search order (turn_order) along
   in-protocol histories with the invariant of Managers_hist.v.

   An agent "has the turn" in an entry of the trace when the response is an output with
   __all__ = false that reports it with done = false (exactly one agent per such output).
   "Live" = not in the manager's done set (m_done).  *)
From Coq Require Import ZArith List Bool Arith Lia.
From Abm Require Import Ctl.Managers Proofs.Managers_proofs Proofs.Managers_hist.
Import ListNotations.

(* ---------------- arithmetic on cycle positions ---------------- *)
Lemma mod_once L y : L <> 0 -> L <= y < 2 * L -> y mod L = y - L.
Proof.
  intros HL Hy. replace y with ((y - L) + 1 * L) at 1 by lia.
  rewrite Nat.mod_add by exact HL. apply Nat.mod_small. lia.
Qed.

(* a walk that starts right behind position pa and comes back to pa passes every other
   position on the way *)
Lemma round_cover L pa D pb : L <> 0 -> pa < L -> pb < L -> pb <> pa ->
  ((pa + 1) mod L + D) mod L = pa ->
  exists x, x < D /\ ((pa + 1) mod L + x) mod L = pb.
Proof.
  intros HL Ha Hb Hne HD. rewrite Nat.add_mod_idemp_l in HD by exact HL.
  assert (HDge : L - 1 <= D).
  { destruct (le_lt_dec (L - 1) D) as [H|H]; [exact H|]. exfalso.
    destruct (le_lt_dec L (pa + 1 + D)) as [H1|H1].
    - rewrite mod_once in HD by lia. lia.
    - rewrite Nat.mod_small in HD by lia. lia. }
  destruct (le_lt_dec pb pa) as [H|H].
  - exists (pb + L - pa - 1). split; [lia|]. rewrite Nat.add_mod_idemp_l by exact HL.
    replace (pa + 1 + (pb + L - pa - 1)) with (pb + L) by lia.
    rewrite mod_once by lia. lia.
  - exists (pb - pa - 1). split; [lia|]. rewrite Nat.add_mod_idemp_l by exact HL.
    replace (pa + 1 + (pb - pa - 1)) with pb by lia. apply Nat.mod_small, Hb.
Qed.

Section F.
  Context {St Obs Info Act : Type}.
  Variable Sim : simulation St Obs Info Act.
  Hypothesis St0 : done_stable Sim.
  Notation order := (order Sim).
  Notation L := (length order).
  Notation tr := (trace Sim MTurn).
  Notation hinvT := (hinv Sim MTurn).

  Let Hk : MTurn <> MTurnPrefix.
  Proof. discriminate. Qed.

  (* the agent that is given the turn by the response of a trace entry *)
  Definition has_turn (e : @tentry St Obs Info Act) (a : nat) : Prop :=
    exists o, te_resp e = ROut o /\ o_all o = false /\ In (a, false) (o_done o).

  (* no successful reset among the entries strictly between positions i and j *)
  Definition same_episode (t : list (@tentry St Obs Info Act)) (i j : nat) : Prop :=
    forall l e obs, i < l < j -> nth_error t l = Some e -> te_resp e <> RObs obs.

  Definition no_reset_before (t : list (@tentry St Obs Info Act)) (l : nat) : Prop :=
    forall x e obs, x < l -> nth_error t x = Some e -> te_resp e <> RObs obs.

  Lemma NoDup_order : NoDup order.
  Proof. unfold Managers.order. apply NoDup_filter, seq_NoDup. Qed.

  Lemma order_pos_inj p q : p < L -> q < L -> nth p order 0 = nth q order 0 -> p = q.
  Proof. intros Hp Hq E. apply (proj1 (NoDup_nth order 0) NoDup_order p q Hp Hq E). Qed.

  (* ---------------- one accepted step that does not end the episode ---------------- *)
  Lemma turn_step_live m acts o m' :
    tinv Sim m -> turn_step Sim m acts = (ROut o, m') -> o_all o = false ->
    exists k, 1 <= k /\ m_ptr m' = (m_ptr m + k) mod L /\
      (forall i, i < k - 1 -> In (nth ((m_ptr m + i) mod L) order 0) (m_done m')) /\
      ~ In (nth ((m_ptr m + (k - 1)) mod L) order 0) (m_done m) /\
      ~ In (nth ((m_ptr m + (k - 1)) mod L) order 0) (m_done m') /\
      In (nth ((m_ptr m + (k - 1)) mod L) order 0, false) (o_done o) /\
      (forall c, In (c, false) (o_done o) -> c = nth ((m_ptr m + (k - 1)) mod L) order 0) /\
      incl (m_done m) (m_done m').
  Proof.
    intros Hi H Ho.
    destruct (turn_all_flag Sim m acts o m' Hi H) as (Al & _).
    assert (Ea : sim_all Sim (sim_step Sim (m_sim m) acts) = false).
    { rewrite Ho in Al. symmetry in Al. apply orb_false_iff in Al. tauto. }
    destruct (turn_order Sim m acts o m' St0 Hi H Ea)
      as (k & front & b & Hk1 & Ep & Hv & Hn & _ & D & B1 & B2).
    destruct (turn_bookkeeping Sim m acts o m' St0 Hi H) as (Inc & _).
    destruct b; [rewrite (B1 eq_refl) in Ho; discriminate|]. destruct (B2 eq_refl) as (_ & Hn').
    exists k. split; [lia|]. split; [exact Ep|]. split; [exact Hv|]. split; [exact Hn|].
    split; [exact Hn'|]. split; [|split; [|exact Inc]].
    - rewrite D. apply in_or_app. right. left. reflexivity.
    - intros c Hc. rewrite D in Hc. apply in_app_or in Hc as [Hc|[Hc|[]]].
      + apply in_map_iff in Hc as (x & E & _). discriminate.
      + injection Hc as <-. reflexivity.
  Qed.

  (* ---------------- the first entry of a trace ---------------- *)
  Inductive first_case (m : mstate St) (ph : phase) (c : call Act) (r : resp Obs Info)
            (m1 : mstate St) : Prop :=
  | fc_reset obs : r = RObs obs -> first_case m ph c r m1
  | fc_same : m1 = m -> next_phase ph r = ph -> (forall o, r <> ROut o) ->
              (forall obs, r <> RObs obs) -> first_case m ph c r m1
  | fc_out acts sh o : c = CStep acts sh -> ph = Live -> r = ROut o -> tinv Sim m ->
                       turn_step Sim m acts = (ROut o, m1) -> first_case m ph c r m1.

  Lemma first_entry m ph c r m1 :
    hinvT ph m -> match c with CStep _ _ => ph = Live | CReset => True end ->
    do_call Sim MTurn m c = (r, m1) -> first_case m ph c r m1.
  Proof.
    intros Hi Hc E. pose proof (do_call_shape Sim MTurn m c r m1 Hk E) as Sh.
    destruct c as [|acts sh]; destruct r as [obs|o| | |]; try contradiction;
      try (apply fc_same; [exact Sh|reflexivity|discriminate|discriminate]).
    - apply (fc_reset _ _ _ _ _ obs). reflexivity.
    - subst ph. apply (fc_out _ _ _ _ _ acts sh o); try reflexivity; [apply hinv_tinv, Hi|exact E].
  Qed.

  Lemma first_hyp m ph c cs : in_protocol (tr m ph (c :: cs)) ->
    match c with CStep _ _ => ph = Live | CReset => True end.
  Proof.
    intros Hp. cbn [trace] in Hp. destruct (do_call Sim MTurn m c) as [r m1].
    specialize (Hp _ (or_introl eq_refl)). cbn in Hp. destruct c; [exact I|exact Hp].
  Qed.

  Lemma tail_protocol m ph c cs r m1 : do_call Sim MTurn m c = (r, m1) ->
    in_protocol (tr m ph (c :: cs)) -> in_protocol (tr m1 (next_phase ph r) cs).
  Proof. intros E Hp. cbn [trace] in Hp. rewrite E in Hp. apply (in_protocol_tail _ _ Hp). Qed.

  (* ---------------- outside an episode nothing is output ---------------- *)
  Lemma dead_phase cs : forall m ph l el,
    ph <> Live -> in_protocol (tr m ph cs) ->
    nth_error (tr m ph cs) l = Some el -> no_reset_before (tr m ph cs) l ->
    forall o, te_resp el <> ROut o.
  Proof.
    induction cs as [|c cs IH]; intros m ph l el Hph Hp Hl Hno o; [destruct l; discriminate|].
    pose proof (first_hyp _ _ _ _ Hp) as Hc.
    cbn [trace] in *. destruct (do_call Sim MTurn m c) as [r m1] eqn:E.
    pose proof (do_call_shape Sim MTurn m c r m1 Hk E) as Sh.
    destruct c as [|acts sh]; [|contradiction].
    destruct l as [|l].
    - injection Hl as <-. cbn. destruct r; try discriminate; contradiction.
    - cbn [nth_error] in Hl. destruct r as [obs|o'| | |]; try contradiction.
      + exfalso. apply (Hno 0 _ obs (Nat.lt_0_succ l) eq_refl). reflexivity.
      + subst m1. apply (IH m ph l el Hph (in_protocol_tail _ _ Hp) Hl).
        intros x e obs Hx He. apply (Hno (S x) e obs); [lia|exact He].
  Qed.

  (* ---------------- one sweep of the cycle ----------------
     From a state of a running episode (pointer P) up to the entry l in which agent c gets the
     turn: c sits D positions behind P, the pointer ends right behind c, and each of the D
     positions passed holds an agent that is in the done set afterwards or had a turn before l. *)
  Lemma sweep cs : forall m l el c,
    hinvT Live m -> in_protocol (tr m Live cs) ->
    nth_error (tr m Live cs) l = Some el -> no_reset_before (tr m Live cs) l ->
    has_turn el c ->
    exists D, c = nth ((m_ptr m + D) mod L) order 0 /\
      m_ptr (te_post el) = (m_ptr m + D + 1) mod L /\
      incl (m_done m) (m_done (te_post el)) /\
      ~ In c (m_done (te_post el)) /\
      forall x, x < D ->
        In (nth ((m_ptr m + x) mod L) order 0) (m_done (te_post el)) \/
        exists l' e', l' < l /\ nth_error (tr m Live cs) l' = Some e' /\
                      has_turn e' (nth ((m_ptr m + x) mod L) order 0).
  Proof.
    induction cs as [|c0 cs IH]; intros m l el c Hi Hp Hl Hno Ht; [destruct l; discriminate|].
    pose proof (first_hyp _ _ _ _ Hp) as Hc.
    pose proof (tinv_L Sim m (hinv_tinv Sim m Hi)) as HL.
    cbn [trace] in Hl, Hno |- *. destruct (do_call Sim MTurn m c0) as [r m1] eqn:E.
    pose proof (tail_protocol _ _ _ cs _ _ E Hp) as Hp1.
    pose proof (hinv_step Sim MTurn Live m c0 r m1 I Hi Hc E) as Hi1.
    destruct (first_entry _ _ _ _ _ Hi Hc E) as [obs Er|Em Eph Nout Nobs|acts sh o Ec _ Er Htinv Ets].
    - (* a reset: excluded *)
      exfalso. destruct l as [|l].
      + injection Hl as <-. destruct Ht as (o & Eo & _). cbn in Eo. congruence.
      + apply (Hno 0 _ obs (Nat.lt_0_succ l) eq_refl). cbn. exact Er.
    - (* rejected or failing call: nothing moves *)
      subst m1. rewrite Eph in *. destruct l as [|l].
      + exfalso. injection Hl as <-. destruct Ht as (o & Eo & _). cbn in Eo. apply (Nout o Eo).
      + cbn [nth_error] in Hl.
        destruct (IH m l el c Hi1 Hp1 Hl) as (D & A1 & A2 & A3 & A4 & A5).
        { intros x e obs Hx He. apply (Hno (S x) e obs); [lia|exact He]. }
        { exact Ht. }
        exists D. split; [exact A1|]. split; [exact A2|]. split; [exact A3|]. split; [exact A4|].
        intros x Hx. destruct (A5 x Hx) as [A|(l' & e' & B1 & B2 & B3)]; [left; exact A|].
        right. exists (S l'), e'. split; [lia|]. split; [exact B2|exact B3].
    - (* an accepted step *)
      subst c0 r. destruct (o_all o) eqn:Eo.
      + (* it ends the episode: no later turn without a reset *)
        exfalso. destruct l as [|l].
        * injection Hl as <-. destruct Ht as (o' & Eo' & Eo'' & _). cbn in Eo'.
          injection Eo' as <-. congruence.
        * cbn [nth_error next_phase] in Hl, Hp1. rewrite Eo in Hl, Hp1.
          destruct Ht as (o' & Eo' & _).
          apply (dead_phase cs m1 Ended l el ltac:(discriminate) Hp1 Hl) with (o := o'); [|exact Eo'].
          intros x e obs Hx He. cbn [next_phase] in Hno. rewrite Eo in Hno.
          apply (Hno (S x) e obs); [lia|exact He].
      + cbn [next_phase] in Hl, Hno, Hp1, Hi1 |- *. rewrite Eo in Hl, Hno, Hp1, Hi1 |- *.
        destruct (turn_step_live m acts o m1 Htinv Ets Eo)
          as (k & Hk1 & Ep & Hv & Hn & Hn' & Hin & Huniq & Inc).
        set (s := nth ((m_ptr m + (k - 1)) mod L) order 0) in *.
        assert (Ht0 : has_turn {| te_pre := m; te_ph := Live; te_call := CStep acts sh;
                                  te_resp := ROut o; te_post := m1 |} s).
        { exists o. cbn. tauto. }
        destruct l as [|l].
        * (* this very step gives the turn to c *)
          injection Hl as <-. cbn [te_post]. destruct Ht as (o' & Eo' & _ & Hc').
          cbn in Eo'. injection Eo' as <-. rewrite (Huniq c Hc').
          exists (k - 1). split; [reflexivity|].
          split; [rewrite Ep; f_equal; lia|]. split; [exact Inc|]. split; [exact Hn'|].
          intros x Hx. left. apply Hv, Hx.
        * cbn [nth_error] in Hl.
          destruct (IH m1 l el c Hi1 Hp1 Hl) as (D & A1 & A2 & A3 & A4 & A5).
          { intros x e obs Hx He. apply (Hno (S x) e obs); [lia|exact He]. }
          { exact Ht. }
          rewrite Ep in A1, A2, A5. rewrite Nat.add_mod_idemp_l in A1 by exact HL.
          exists (k + D). split; [rewrite A1; f_equal; f_equal; lia|].
          split.
          { rewrite A2. replace ((m_ptr m + k) mod L + D + 1) with ((m_ptr m + k) mod L + (D + 1)) by lia.
            rewrite Nat.add_mod_idemp_l by exact HL. f_equal. lia. }
          split; [eapply incl_tran; eassumption|]. split; [exact A4|].
          intros x Hx.
          destruct (lt_eq_lt_dec x (k - 1)) as [[Hlt|Heq]|Hgt].
          -- left. apply A3, Hv, Hlt.
          -- right. exists 0. eexists. split; [lia|]. split; [reflexivity|]. subst x. exact Ht0.
          -- replace x with (k + (x - k)) by lia.
             destruct (A5 (x - k) ltac:(lia)) as [A|(l' & e' & B1 & B2 & B3)];
               rewrite Nat.add_mod_idemp_l in * by exact HL;
               replace (m_ptr m + k + (x - k)) with (m_ptr m + (k + (x - k))) in * by lia.
             ++ left. exact A.
             ++ right. exists (S l'), e'. split; [lia|]. split; [exact B2|exact B3].
  Qed.

  (* ---------------- between two turns, anywhere in a history ---------------- *)
  Lemma sweep_between cs : forall m ph,
    hinvT ph m -> in_protocol (tr m ph cs) ->
    forall i j ei ej a c, i < j ->
    nth_error (tr m ph cs) i = Some ei -> nth_error (tr m ph cs) j = Some ej ->
    has_turn ei a -> has_turn ej c -> same_episode (tr m ph cs) i j ->
    exists pa D, pa < L /\ a = nth pa order 0 /\
      c = nth (((pa + 1) mod L + D) mod L) order 0 /\
      incl (m_done (te_post ei)) (m_done (te_post ej)) /\
      ~ In a (m_done (te_post ei)) /\ ~ In c (m_done (te_post ej)) /\
      forall x, x < D ->
        In (nth (((pa + 1) mod L + x) mod L) order 0) (m_done (te_post ej)) \/
        exists l e, i < l < j /\ nth_error (tr m ph cs) l = Some e /\
                    has_turn e (nth (((pa + 1) mod L + x) mod L) order 0).
  Proof.
    induction cs as [|c0 cs IH]; intros m ph Hi Hp i j ei ej a c Hij Hei Hej Ha Hcj Hse;
      [destruct i; discriminate|].
    pose proof (first_hyp _ _ _ _ Hp) as Hc.
    cbn [trace] in Hei, Hej, Hse |- *. destruct (do_call Sim MTurn m c0) as [r m1] eqn:E.
    pose proof (tail_protocol _ _ _ cs _ _ E Hp) as Hp1.
    pose proof (hinv_step Sim MTurn ph m c0 r m1 I Hi Hc E) as Hi1.
    destruct j as [|j]; [lia|]. cbn [nth_error] in Hej.
    destruct i as [|i].
    - (* the first entry gives the turn to a *)
      injection Hei as <-. destruct Ha as (o & Eo & Eall & Hin). cbn in Eo. subst r.
      destruct (first_entry _ _ _ _ _ Hi Hc E) as [obs Er|_ _ Nout _|acts sh o' Ec Eph Er Htinv Ets];
        [discriminate|exfalso; apply (Nout o eq_refl)|].
      injection Er as <-. subst c0 ph.
      pose proof (tinv_L Sim m Htinv) as HL.
      destruct (turn_step_live m acts o m1 Htinv Ets Eall)
        as (k & Hk1 & Ep & _ & _ & Hn' & _ & Huniq & _).
      cbn [next_phase] in Hej, Hse, Hp1, Hi1 |- *. rewrite Eall in Hej, Hse, Hp1, Hi1 |- *.
      destruct (sweep cs m1 j ej c Hi1 Hp1 Hej) as (D & A1 & _ & A3 & A4 & A5).
      { intros x e obs Hx He. apply (Hse (S x) e obs); [lia|exact He]. }
      { exact Hcj. }
      exists ((m_ptr m + (k - 1)) mod L), D. cbn [te_post].
      assert (Eptr : m_ptr m1 = ((m_ptr m + (k - 1)) mod L + 1) mod L).
      { rewrite Ep, Nat.add_mod_idemp_l by exact HL. f_equal. lia. }
      rewrite <- Eptr.
      split; [apply Nat.mod_upper_bound, HL|]. split; [apply Huniq, Hin|].
      split; [exact A1|]. split; [exact A3|]. split; [rewrite (Huniq a Hin); exact Hn'|].
      split; [exact A4|].
      intros x Hx. destruct (A5 x Hx) as [A|(l' & e' & B1 & B2 & B3)]; [left; exact A|].
      right. exists (S l'), e'. split; [lia|]. split; [exact B2|exact B3].
    - cbn [nth_error] in Hei.
      destruct (IH m1 _ Hi1 Hp1 i j ei ej a c ltac:(lia) Hei Hej Ha Hcj)
        as (pa & D & A1 & A2 & A3 & A4 & A5 & A6 & A7).
      { intros l e obs Hl He. apply (Hse (S l) e obs); [lia|exact He]. }
      exists pa, D. repeat (split; [assumption|]).
      intros x Hx. destruct (A7 x Hx) as [A|(l' & e' & B1 & B2 & B3)]; [left; exact A|].
      right. exists (S l'), e'. split; [lia|]. split; [exact B2|exact B3].
  Qed.

  (* ---- at least once: between two turns of a, every other learning agent that is still
          live after the second one had a turn ---- *)
  Lemma at_least_once cs m ph :
    hinvT ph m -> in_protocol (tr m ph cs) ->
    forall i j ei ej a, i < j ->
    nth_error (tr m ph cs) i = Some ei -> nth_error (tr m ph cs) j = Some ej ->
    has_turn ei a -> has_turn ej a -> same_episode (tr m ph cs) i j ->
    forall b, In b order -> b <> a -> ~ In b (m_done (te_post ej)) ->
    exists l e, i < l < j /\ nth_error (tr m ph cs) l = Some e /\ has_turn e b.
  Proof.
    intros Hi Hp i j ei ej a Hij Hei Hej Ha Haj Hse b Hb Hne Hlive.
    destruct (sweep_between cs m ph Hi Hp i j ei ej a a Hij Hei Hej Ha Haj Hse)
      as (pa & D & Hpa & Ea & Ea' & _ & _ & _ & Cov).
    assert (HL : L <> 0) by lia.
    destruct (In_nth order b 0 Hb) as (pb & Hpb & Eb).
    assert (Hpne : pb <> pa) by (intros ->; apply Hne; rewrite <- Eb, Ea; reflexivity).
    assert (Eback : ((pa + 1) mod L + D) mod L = pa).
    { apply order_pos_inj; [apply Nat.mod_upper_bound, HL|exact Hpa|]. rewrite <- Ea', <- Ea. reflexivity. }
    destruct (round_cover L pa D pb HL Hpa Hpb Hpne Eback) as (x & Hx & Ex).
    destruct (Cov x Hx) as [A|A]; rewrite Ex, Eb in A; [contradiction|exact A].
  Qed.

  (* ---------------- the done set only grows inside an episode ---------------- *)
  Lemma pre_mono cs : forall m ph j ej,
    hinvT ph m -> in_protocol (tr m ph cs) ->
    nth_error (tr m ph cs) j = Some ej -> no_reset_before (tr m ph cs) j ->
    incl (m_done m) (m_done (te_pre ej)).
  Proof.
    induction cs as [|c0 cs IH]; intros m ph j ej Hi Hp Hj Hno; [destruct j; discriminate|].
    pose proof (first_hyp _ _ _ _ Hp) as Hc.
    cbn [trace] in Hj, Hno. destruct (do_call Sim MTurn m c0) as [r m1] eqn:E.
    pose proof (tail_protocol _ _ _ cs _ _ E Hp) as Hp1.
    pose proof (hinv_step Sim MTurn ph m c0 r m1 I Hi Hc E) as Hi1.
    destruct j as [|j]; [injection Hj as <-; apply incl_refl|]. cbn [nth_error] in Hj.
    assert (Hm : incl (m_done m) (m_done m1)).
    { destruct (first_entry _ _ _ _ _ Hi Hc E) as [obs Er|Em _ _ _|acts sh o Ec Eph Er Htinv Ets].
      - exfalso. apply (Hno 0 _ obs (Nat.lt_0_succ j) eq_refl). cbn. exact Er.
      - subst m1. apply incl_refl.
      - destruct (turn_bookkeeping Sim m acts o m1 St0 Htinv Ets) as (Inc & _). exact Inc. }
    eapply incl_tran; [exact Hm|]. apply (IH m1 _ j ej Hi1 Hp1 Hj).
    intros x e obs Hx He. apply (Hno (S x) e obs); [lia|exact He].
  Qed.

  Lemma post_pre_mono cs : forall m ph,
    hinvT ph m -> in_protocol (tr m ph cs) ->
    forall l j el ej, l < j ->
    nth_error (tr m ph cs) l = Some el -> nth_error (tr m ph cs) j = Some ej ->
    same_episode (tr m ph cs) l j ->
    incl (m_done (te_post el)) (m_done (te_pre ej)).
  Proof.
    induction cs as [|c0 cs IH]; intros m ph Hi Hp l j el ej Hlj Hl Hj Hse; [destruct l; discriminate|].
    pose proof (first_hyp _ _ _ _ Hp) as Hc.
    cbn [trace] in Hl, Hj, Hse. destruct (do_call Sim MTurn m c0) as [r m1] eqn:E.
    pose proof (tail_protocol _ _ _ cs _ _ E Hp) as Hp1.
    pose proof (hinv_step Sim MTurn ph m c0 r m1 I Hi Hc E) as Hi1.
    destruct j as [|j]; [lia|]. cbn [nth_error] in Hj. destruct l as [|l].
    - injection Hl as <-. cbn [te_post]. apply (pre_mono cs m1 _ j ej Hi1 Hp1 Hj).
      intros x e obs Hx He. apply (Hse (S x) e obs); [lia|exact He].
    - cbn [nth_error] in Hl. apply (IH m1 _ Hi1 Hp1 l j el ej ltac:(lia) Hl Hj).
      intros x e obs Hx He. apply (Hse (S x) e obs); [lia|exact He].
  Qed.

  (* the agent that gets the turn was live before the call *)
  Lemma has_turn_pre cs : forall m ph,
    hinvT ph m -> in_protocol (tr m ph cs) ->
    forall j ej a, nth_error (tr m ph cs) j = Some ej -> has_turn ej a ->
    ~ In a (m_done (te_pre ej)) /\ ~ In a (m_done (te_post ej)) /\ In a order /\
    forall a', has_turn ej a' -> a' = a.
  Proof.
    intros m ph Hi Hp j ej a Hj (o & Eo & Eall & Hin).
    pose proof (nth_error_In _ _ Hj) as Hin'.
    destruct (trace_inv Sim MTurn I cs m ph Hi Hp ej Hin') as (Hie & Ee & _).
    pose proof (Hp ej Hin') as Hph. rewrite Eo in Ee.
    pose proof (do_call_shape Sim MTurn _ _ _ _ Hk Ee) as Sh.
    destruct (te_call ej) as [|acts sh]; [contradiction|]. rewrite Hph in Hie.
    pose proof (hinv_tinv Sim _ Hie) as Htinv. cbn [do_call] in Ee.
    pose proof (tinv_L Sim _ Htinv) as HL.
    destruct (turn_step_live _ acts o _ Htinv Ee Eall)
      as (k & _ & _ & _ & Hn & Hn' & _ & Huniq & _).
    rewrite (Huniq a Hin). split; [exact Hn|]. split; [exact Hn'|].
    split; [apply nth_In, Nat.mod_upper_bound, HL|].
    intros a' (o' & Eo' & _ & Hin2). rewrite Eo in Eo'. injection Eo' as <-. apply Huniq, Hin2.
  Qed.

  (* ---- exactly once: if moreover a has no turn in between (consecutive turns of a) ---- *)
  Lemma at_most_once cs m ph :
    hinvT ph m -> in_protocol (tr m ph cs) ->
    forall i j ei ej a, i < j ->
    nth_error (tr m ph cs) i = Some ei -> nth_error (tr m ph cs) j = Some ej ->
    has_turn ei a -> has_turn ej a -> same_episode (tr m ph cs) i j ->
    (forall l e, i < l < j -> nth_error (tr m ph cs) l = Some e -> ~ has_turn e a) ->
    forall b l1 l2 e1 e2, b <> a -> i < l1 < j -> i < l2 < j ->
    nth_error (tr m ph cs) l1 = Some e1 -> nth_error (tr m ph cs) l2 = Some e2 ->
    has_turn e1 b -> has_turn e2 b -> l1 = l2.
  Proof.
    intros Hi Hp i j ei ej a Hij Hei Hej Ha Haj Hse Hcons b l1 l2 e1 e2 Hne H1 H2 E1 E2 T1 T2.
    assert (W : forall x y ex ey, i < x < j -> i < y < j -> x < y ->
                nth_error (tr m ph cs) x = Some ex -> nth_error (tr m ph cs) y = Some ey ->
                has_turn ex b -> has_turn ey b -> False).
    { intros x y ex ey Hx Hy Hxy Ex Ey Tx Ty.
      destruct (has_turn_pre cs m ph Hi Hp j ej a Hej Haj) as (Hpre & _ & Hao & _).
      assert (Hse' : same_episode (tr m ph cs) x y)
        by (intros l e obs Hl He; apply (Hse l e obs); [lia|exact He]).
      assert (Hlive : ~ In a (m_done (te_post ey))).
      { intros C. apply Hpre. apply (post_pre_mono cs m ph Hi Hp y j ey ej ltac:(lia) Ey Hej); [|exact C].
        intros l e obs Hl He. apply (Hse l e obs); [lia|exact He]. }
      destruct (at_least_once cs m ph Hi Hp x y ex ey b Hxy Ex Ey Tx Ty Hse' a Hao
                  (fun C => Hne (eq_sym C)) Hlive) as (l & e & Hl & He & Hta).
      apply (Hcons l e ltac:(lia) He Hta). }
    destruct (lt_eq_lt_dec l1 l2) as [[Hlt|Heq]|Hgt]; [|exact Heq|].
    - exfalso. apply (W l1 l2 e1 e2 H1 H2 Hlt E1 E2 T1 T2).
    - exfalso. apply (W l2 l1 e2 e1 H2 H1 Hgt E2 E1 T2 T1).
  Qed.

  (* ================= from the initial state ================= *)
  Theorem fair_round s0 cs :
    let t := tr (init s0) Fresh cs in
    in_protocol t ->
    forall i j ei ej a, i < j -> nth_error t i = Some ei -> nth_error t j = Some ej ->
    has_turn ei a -> has_turn ej a -> same_episode t i j ->
    forall b, In b order -> b <> a -> ~ In b (m_done (te_post ej)) ->
    (exists l e, i < l < j /\ nth_error t l = Some e /\ has_turn e b) /\
    ((forall l e, i < l < j -> nth_error t l = Some e -> ~ has_turn e a) ->
     forall l1 l2 e1 e2, i < l1 < j -> i < l2 < j ->
       nth_error t l1 = Some e1 -> nth_error t l2 = Some e2 ->
       has_turn e1 b -> has_turn e2 b -> l1 = l2).
  Proof.
    cbv zeta. intros Hp i j ei ej a Hij Hei Hej Ha Haj Hse b Hb Hne Hlive.
    pose proof (hinv_init Sim MTurn s0) as Hi. split.
    - apply (at_least_once cs _ _ Hi Hp i j ei ej a Hij Hei Hej Ha Haj Hse b Hb Hne Hlive).
    - intros Hcons l1 l2 e1 e2.
      apply (at_most_once cs _ _ Hi Hp i j ei ej a Hij Hei Hej Ha Haj Hse Hcons b l1 l2 e1 e2 Hne).
  Qed.

  (* the next turn goes to the first agent behind the previous holder, in cyclic listing order,
     that is not in the done set: every position passed over holds an agent in the done set *)
  Theorem next_in_cycle s0 cs :
    let t := tr (init s0) Fresh cs in
    in_protocol t ->
    forall i j ei ej a c, i < j -> nth_error t i = Some ei -> nth_error t j = Some ej ->
    has_turn ei a -> has_turn ej c -> same_episode t i j ->
    (forall l e b, i < l < j -> nth_error t l = Some e -> ~ has_turn e b) ->
    exists pa D, pa < L /\ a = nth pa order 0 /\ c = nth ((pa + 1 + D) mod L) order 0 /\
      ~ In a (m_done (te_post ei)) /\ ~ In c (m_done (te_post ej)) /\
      forall x, x < D -> In (nth ((pa + 1 + x) mod L) order 0) (m_done (te_post ej)).
  Proof.
    cbv zeta. intros Hp i j ei ej a c Hij Hei Hej Ha Hcj Hse Hnone.
    destruct (sweep_between cs _ _ (hinv_init Sim MTurn s0) Hp i j ei ej a c Hij Hei Hej Ha Hcj Hse)
      as (pa & D & Hpa & Ea & Ec & _ & Na & Nc & Cov).
    assert (HL : L <> 0) by lia.
    exists pa, D. split; [exact Hpa|]. split; [exact Ea|].
    split; [rewrite Ec, Nat.add_mod_idemp_l by exact HL; reflexivity|].
    split; [exact Na|]. split; [exact Nc|].
    intros x Hx. destruct (Cov x Hx) as [A|(l & e & Hl & He & Hte)].
    - rewrite Nat.add_mod_idemp_l in A by exact HL. exact A.
    - exfalso. apply (Hnone l e _ Hl He Hte).
  Qed.

  Theorem one_turn_per_output s0 cs :
    let t := tr (init s0) Fresh cs in
    in_protocol t ->
    forall j ej a, nth_error t j = Some ej -> has_turn ej a ->
    In a order /\ ~ In a (m_done (te_pre ej)) /\ ~ In a (m_done (te_post ej)) /\
    forall a', has_turn ej a' -> a' = a.
  Proof.
    cbv zeta. intros Hp j ej a Hj Ht.
    destruct (has_turn_pre cs _ _ (hinv_init Sim MTurn s0) Hp j ej a Hj Ht) as (A & B & C & D).
    tauto.
  Qed.

  (* executable mirror, for the example *)
  Definition turn_of (e : @tentry St Obs Info Act) : list nat :=
    match te_resp e with
    | ROut o => if o_all o then [] else map fst (filter (fun kb => negb (snd kb)) (o_done o))
    | _ => []
    end.

  Lemma turn_of_ok e a : In a (turn_of e) -> has_turn e a.
  Proof.
    unfold turn_of, has_turn. destruct (te_resp e) as [|o| | |]; try (intros []).
    destruct (o_all o) eqn:Eo; [intros []|]. intros H. exists o. split; [reflexivity|].
    split; [exact Eo|]. apply in_map_iff in H as ([x b] & E & Hx). cbn in E. subst x.
    apply filter_In in Hx as (Hx & Hb). cbn in Hb. destruct b; [discriminate|exact Hx].
  Qed.
  Definition no_resetb (t : list (@tentry St Obs Info Act)) (i j : nat) : bool :=
    forallb (fun e => match te_resp e with RObs _ => false | _ => true end)
            (firstn (j - i - 1) (skipn (S i) t)).

  Lemma nth_error_skipn' {A} (l : list A) : forall i x, nth_error (skipn i l) x = nth_error l (i + x).
  Proof.
    induction l as [|y l IH]; intros [|i] x; try reflexivity; [destruct x; reflexivity|].
    cbn. apply IH.
  Qed.

  Lemma nth_error_firstn' {A} (l : list A) : forall n x, x < n -> nth_error (firstn n l) x = nth_error l x.
  Proof.
    induction l as [|y l IH]; intros [|n] x Hx; try reflexivity; [lia|].
    destruct x as [|x]; [reflexivity|]. cbn. apply IH. lia.
  Qed.

  Lemma no_resetb_ok t i j : no_resetb t i j = true -> same_episode t i j.
  Proof.
    unfold no_resetb. rewrite forallb_forall. intros H l e obs Hl He C.
    assert (Hin : In e (firstn (j - i - 1) (skipn (S i) t))).
    { apply (nth_error_In _ (l - S i)). rewrite nth_error_firstn' by lia.
      rewrite nth_error_skipn'. replace (S i + (l - S i)) with l by lia. exact He. }
    specialize (H e Hin). rewrite C in H. discriminate.
  Qed.
End F.

(* ---------------- non-vacuity ----------------
   Five learning agents.  After a full round a0 has the turn at entry 5 (t = 5); during the
   next round a1 finishes (t = 6) and a3 finishes (t = 7): each is reported done on the way
   and passed over; a2 and a4, the live ones, get exactly one turn each (entries 6 and 7)
   before a0 is served again at entry 8. *)
From Abm Require Import Base.Sx Ctl.ScriptSim Ctl.MgrCheck Proofs.MgrCheck_proofs.
Open Scope nat_scope.

Definition fr_row (d : list bool) : row := mkrow d false [0] [0%Z; 0%Z; 0%Z; 0%Z; 0%Z].
Definition fr_sc : script :=
  {| sc_n := 5; sc_learn := [true; true; true; true; true];
     sc_rows := [fr_row [false; false; false; false; false]; fr_row [false; false; false; false; false];
                 fr_row [false; false; false; false; false]; fr_row [false; false; false; false; false];
                 fr_row [false; false; false; false; false]; fr_row [false; false; false; false; false];
                 fr_row [false; true; false; false; false]; fr_row [false; true; false; true; false]] |}.
Definition fr_cs : list (call Z) :=
  [CReset; st1 0 1; st1 1 1; st1 2 1; st1 3 1; st1 4 1; st1 0 1; st1 2 1; st1 4 1].

Lemma fr_nonvacuous :
  let SS := script_sim fr_sc in
  let t := trace SS MTurn (init (ss_init fr_sc)) Fresh fr_cs in
  done_stable SS /\ in_protocol t /\
  map turn_of t = [[]; [1]; [2]; [3]; [4]; [0]; [2]; [4]; [0]] /\
  map (fun e => m_done (te_post e)) t = [[]; []; []; []; []; []; [1]; [1; 3]; [1; 3]] /\
  order SS = [0; 1; 2; 3; 4] /\
  same_episode t 5 8 /\
  exists ei ej, nth_error t 5 = Some ei /\ nth_error t 8 = Some ej /\
    has_turn ei 0 /\ has_turn ej 0 /\
    ~ In 2 (m_done (te_post ej)) /\ ~ In 4 (m_done (te_post ej)) /\
    In 1 (m_done (te_post ej)) /\ In 3 (m_done (te_post ej)).
Proof.
  cbv zeta. split; [apply ss_done_stable|].
  split; [apply in_protocolb_ok; vm_compute; reflexivity|].
  split; [vm_compute; reflexivity|]. split; [vm_compute; reflexivity|].
  split; [vm_compute; reflexivity|].
  split; [apply no_resetb_ok; vm_compute; reflexivity|].
  eexists. eexists. split; [vm_compute; reflexivity|]. split; [vm_compute; reflexivity|].
  split; [apply turn_of_ok; vm_compute; left; reflexivity|].
  split; [apply turn_of_ok; vm_compute; left; reflexivity|].
  split; [vm_compute; intros [C|[C|[]]]; discriminate|].
  split; [vm_compute; intros [C|[C|[]]]; discriminate|].
  split; [vm_compute; left; reflexivity|vm_compute; right; left; reflexivity].
Qed.
