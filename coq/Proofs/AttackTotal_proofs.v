(* C02, attack actors: no error arm of Grid/Attack.v is reachable for a placed attacker.
   PErr never arises; and whatever the uniform draws are, every np.random.choice request the four
   actors (and the ammunition filter) make is satisfiable: there are admissible answers with which
   process_attack returns POk.  `runs F N` says: given at least N uniform draws of arbitrary value,
   F consumes at most N of them and a finite list cs of admissible choice answers, and succeeds. *)
From Coq Require Import ZArith List Bool Arith Lia.
From Abm Require Import Base.Sx Spaces.Space Grid.Overlap Grid.Grid Grid.Move Grid.Attack Grid.ActSpace
  Proofs.Ravel_proofs Proofs.Grid_proofs Proofs.Move_proofs Proofs.Attack_proofs.
Import ListNotations.
Open Scope Z_scope.

Definition mko (us : list Z) (cs : list (list nat)) : oracle := {| o_unif := us; o_choice := cs |}.

Definition runs {X} (F : oracle -> ares X) (N : nat) (P : X -> Prop) : Prop :=
  forall us, (N <= length us)%nat ->
    exists cs x k, (k <= N)%nat /\ P x /\
      forall cs', F (mko us (cs ++ cs')) = AOk x (mko (skipn k us) cs').

Lemma skipn_skipn' {X} (a b : nat) (l : list X) : skipn b (skipn a l) = skipn (a + b) l.
Proof.
  revert l; induction a as [|a IH]; intros l; cbn [Nat.add]; [reflexivity|].
  destruct l as [|x l]; [rewrite !skipn_nil; reflexivity|]. cbn [skipn]. apply IH.
Qed.

Lemma runs_weaken {X} (F : oracle -> ares X) N N' (P Q : X -> Prop) :
  runs F N P -> (N <= N')%nat -> (forall x, P x -> Q x) -> runs F N' Q.
Proof.
  intros H Hle HPQ us Hus. destruct (H us ltac:(lia)) as (cs & x & k & Hk & Px & E).
  exists cs, x, k. split; [lia|]. split; [apply HPQ, Px|exact E].
Qed.

Lemma NoDup_app_intro {X} (l m : list X) :
  NoDup l -> NoDup m -> (forall x, In x l -> ~ In x m) -> NoDup (l ++ m).
Proof.
  induction l as [|a l IH]; intros Hl Hm Hd; cbn; [exact Hm|].
  inversion Hl as [|? ? Ha Hl']; subst. constructor.
  - rewrite in_app_iff. intros [C|C]; [contradiction|]. apply (Hd a); [left; reflexivity|exact C].
  - apply IH; [exact Hl'|exact Hm|]. intros x Hx. apply Hd. right. exact Hx.
Qed.

(* ---- _basic_criteria ---------------------------------------------------------------------------- *)
Lemma basic_criteria_runs s cf att v :
  runs (fun o => basic_criteria s cf att o v) 1 (fun _ => True).
Proof.
  intros us Hus. unfold basic_criteria.
  destruct (Nat.eqb v att); [exists [], false, O; split; [lia|]; split; [exact I|]; intros cs'; reflexivity|].
  destruct (agent s v) as [b|]; [|exists [], false, O; split; [lia|]; split; [exact I|]; intros cs'; reflexivity].
  destruct (negb (a_active b)); [exists [], false, O; split; [lia|]; split; [exact I|]; intros cs'; reflexivity|].
  destruct (negb (memZ (a_enc b) (c_mapping cf)));
    [exists [], false, O; split; [lia|]; split; [exact I|]; intros cs'; reflexivity|].
  destruct us as [|u us]; [cbn in Hus; lia|].
  exists [], (negb (c_accuracy cf <? u)), 1%nat. split; [lia|]. split; [exact I|].
  intros cs'. reflexivity.
Qed.

(* ---- filtering one cell's candidates ------------------------------------------------------------ *)
Lemma filter_criteria_runs s cf att cands :
  runs (fun o => filter_criteria s cf att o cands) (length cands)
       (fun l => (forall v, In v l -> In v cands) /\ (NoDup cands -> NoDup l)).
Proof.
  induction cands as [|v r IH]; intros us Hus.
  - exists [], [], O. split; [lia|]. split; [split; [intros v []|intros _; constructor]|].
    intros cs'. reflexivity.
  - cbn [length] in Hus.
    destruct (basic_criteria_runs s cf att v us ltac:(lia)) as (cs1 & b & k1 & Hk1 & _ & E1).
    destruct (IH (skipn k1 us) ltac:(rewrite skipn_length; lia)) as (cs2 & l & k2 & Hk2 & [Pl Nl] & E2).
    exists (cs1 ++ cs2), (if b then v :: l else l), (k1 + k2)%nat.
    split; [cbn [length]; lia|]. split.
    + split.
      * intros w Hw. destruct b; [destruct Hw as [<-|Hw]; [left; reflexivity|right; apply Pl, Hw]|
                                   right; apply Pl, Hw].
      * intros Hnd. inversion Hnd as [|? ? Hv Hr]; subst. destruct b; [|apply Nl, Hr].
        constructor; [intros C; apply Hv, Pl, C|apply Nl, Hr].
    + intros cs'. cbn [filter_criteria]. rewrite <- app_assoc, E1, E2, skipn_skipn'. reflexivity.
Qed.

Lemma criteria_all_runs s cf att cands :
  runs (fun o => criteria_all s cf att o cands) (length cands) (fun _ => True).
Proof.
  induction cands as [|v r IH]; intros us Hus.
  - exists [], [], O. split; [lia|]. split; [exact I|]. intros cs'. reflexivity.
  - cbn [length] in Hus.
    destruct (basic_criteria_runs s cf att v us ltac:(lia)) as (cs1 & b & k1 & Hk1 & _ & E1).
    destruct (IH (skipn k1 us) ltac:(rewrite skipn_length; lia)) as (cs2 & l & k2 & Hk2 & _ & E2).
    exists (cs1 ++ cs2), ((v, b) :: l), (k1 + k2)%nat.
    split; [cbn [length]; lia|]. split; [exact I|].
    intros cs'. cbn [criteria_all]. rewrite <- app_assoc, E1, E2, skipn_skipn'. reflexivity.
Qed.

(* ---- np.random.choice requests are satisfiable --------------------------------------------------- *)
Lemma nodupb_NoDup l : NoDup l -> nodupb l = true.
Proof.
  induction 1 as [|a l Ha Hl IH]; cbn; [reflexivity|]. rewrite IH, andb_true_r.
  apply negb_true_iff, memn_false, Ha.
Qed.

Lemma NoDup_firstn {X} n (l : list X) : NoDup l -> NoDup (firstn n l).
Proof.
  revert l; induction n as [|n IH]; intros l H; cbn; [constructor|].
  destruct l as [|a l]; [constructor|]. inversion H as [|? ? Ha Hl]; subst. constructor.
  - intros C. apply Ha. rewrite <- (firstn_skipn n l). apply in_or_app. left. exact C.
  - apply IH, Hl.
Qed.

Lemma firstn_In {X} n (l : list X) x : In x (firstn n l) -> In x l.
Proof. intros H. rewrite <- (firstn_skipn n l). apply in_or_app. left. exact H. Qed.

Lemma choice_satisfiable l n replace :
  l <> [] -> 0 <= n -> (replace = false -> NoDup l /\ n <= Z.of_nat (length l)) ->
  exists ch, choice_ok l n replace ch = true.
Proof.
  intros Hl Hn Hr. destruct replace.
  - destruct l as [|a l]; [congruence|]. exists (repeat a (Z.to_nat n)). unfold choice_ok.
    rewrite repeat_length, Z2Nat.id, Z.eqb_refl by exact Hn. cbn [andb orb]. rewrite andb_true_r.
    apply forallb_forall. intros x Hx. apply repeat_spec in Hx. subst x. apply memn_In. left. reflexivity.
  - destruct (Hr eq_refl) as [Hnd Hle]. exists (firstn (Z.to_nat n) l). unfold choice_ok.
    rewrite firstn_length_le by lia. rewrite Z2Nat.id, Z.eqb_refl by exact Hn. cbn [andb orb].
    apply andb_true_iff. split.
    + apply forallb_forall. intros x Hx. apply memn_In. apply (firstn_In _ _ _ Hx).
    + apply nodupb_NoDup, NoDup_firstn, Hnd.
Qed.

Lemma subset_runs cf l n :
  l <> [] -> 0 <= n -> (c_stacked cf = false -> NoDup l) ->
  runs (fun o => subset_attackables cf o l n) 0 (fun _ => True).
Proof.
  intros Hl Hn Hnd us _. unfold subset_attackables.
  destruct (negb (c_stacked cf) && (Z.of_nat (length l) <? n)) eqn:E.
  - exists [], l, O. split; [lia|]. split; [exact I|]. intros cs'. reflexivity.
  - destruct (choice_satisfiable l n (c_stacked cf) Hl Hn) as (ch & Hch).
    { intros Es. split; [apply Hnd, Es|]. rewrite Es in E. cbn [negb andb] in E.
      apply Z.ltb_ge in E. exact E. }
    exists [ch], ch, O. split; [lia|]. split; [exact I|]. intros cs'. cbn [app mko o_choice].
    rewrite Hch. reflexivity.
Qed.

(* ---- scanning the window -------------------------------------------------------------------------- *)
Fixpoint scan_budget (vis : vis_fn) (s : gstate) (cf : acfg) (att : nat) (p : cell) (ds : list cell) : nat :=
  match ds with
  | [] => O
  | d :: r => (length (cands_at vis s cf att p d) + scan_budget vis s cf att p r)%nat
  end.

Lemma cands_at_NoDup vis s cf att p d : ginv s -> NoDup (cands_at vis s cf att p d).
Proof.
  intros G. unfold cands_at. destruct (vis s att (c_range cf) d && inside s _); [|constructor].
  apply (gi_nodup _ _ G).
Qed.

Lemma cands_at_cell vis s cf att p d v : ginv s -> In v (cands_at vis s cf att p d) ->
  exists b, agent s v = Some b /\ a_pos b = Some (fst p + fst d, snd p + snd d).
Proof.
  intros G Hv. apply cands_at_In in Hv as (_ & _ & Hc).
  destruct (gi_cell_agent _ _ G _ _ Hc) as (b & Hb & _ & Hp). exists b. auto.
Qed.

Lemma scan_all_runs vis s cf att p ds :
  ginv s -> NoDup ds ->
  runs (fun o => scan_all vis s cf att p o ds) (scan_budget vis s cf att p ds)
       (fun l => NoDup l /\ forall v, In v l -> exists d, In d ds /\ In v (cands_at vis s cf att p d)).
Proof.
  intros G. induction ds as [|d r IH]; intros Hnd us Hus.
  - exists [], [], O. split; [lia|]. split; [split; [constructor|intros v []]|]. intros cs'. reflexivity.
  - inversion Hnd as [|? ? Hd Hr]; subst. cbn [scan_budget] in Hus.
    destruct (filter_criteria_runs s cf att (cands_at vis s cf att p d) us ltac:(lia))
      as (cs1 & l1 & k1 & Hk1 & [P1 N1] & E1).
    destruct (IH Hr (skipn k1 us) ltac:(rewrite skipn_length; lia)) as (cs2 & l2 & k2 & Hk2 & [N2 P2] & E2).
    exists (cs1 ++ cs2), (l1 ++ l2), (k1 + k2)%nat.
    split; [cbn [scan_budget]; lia|]. split.
    + split.
      * apply NoDup_app_intro; [apply N1, cands_at_NoDup, G|exact N2|].
        intros v H1 H2. apply P1 in H1. destruct (P2 v H2) as (d' & Hd' & H2').
        destruct (cands_at_cell _ _ _ _ _ _ _ G H1) as (b & Hb & Hp1).
        destruct (cands_at_cell _ _ _ _ _ _ _ G H2') as (b' & Hb' & Hp2).
        rewrite Hb in Hb'. injection Hb' as <-. rewrite Hp1 in Hp2. injection Hp2 as A B.
        apply Hd. replace d with d'; [exact Hd'|]. destruct d, d'; cbn [fst snd] in *. f_equal; lia.
      * intros v Hv. apply in_app_or in Hv as [Hv|Hv].
        -- exists d. split; [left; reflexivity|apply P1, Hv].
        -- destruct (P2 v Hv) as (d' & Hd' & Hc). exists d'. split; [right; exact Hd'|exact Hc].
    + intros cs'. cbn [scan_all]. rewrite <- app_assoc, E1, E2, skipn_skipn'. reflexivity.
Qed.

(* the window's offsets are pairwise different *)
Lemma zrange_from_NoDup lo n : NoDup (zrange_from lo n).
Proof.
  revert lo; induction n as [|n IH]; intros lo; cbn [zrange_from]; constructor; [|apply IH].
  rewrite zrange_from_In. lia.
Qed.

Lemma NoDup_map_inj {X Y} (f : X -> Y) (l : list X) :
  (forall x y, f x = f y -> x = y) -> NoDup l -> NoDup (map f l).
Proof.
  intros Hf. induction 1 as [|a l Ha Hl IH]; cbn; constructor; [|exact IH].
  intros C. apply in_map_iff in C as (b & E & Hb). apply Hf in E. subst b. contradiction.
Qed.

Lemma rect_NoDup (colsl : list Z) lo n :
  NoDup colsl -> NoDup (flat_map (fun dr => map (fun dc => (dr, dc)) colsl) (zrange_from lo n)).
Proof.
  intros Hc. revert lo. induction n as [|n IH]; intros lo; cbn [zrange_from flat_map]; [constructor|].
  apply NoDup_app_intro.
  - apply NoDup_map_inj; [intros x y E; injection E; auto|exact Hc].
  - apply IH.
  - intros [a b] H1 H2. apply in_map_iff in H1 as (c & E & _). injection E as <- _.
    apply in_flat_map in H2 as (r & Hr & H2). apply in_map_iff in H2 as (c' & E' & _).
    injection E' as -> _. apply zrange_from_In in Hr. lia.
Qed.

Lemma window_NoDup R : NoDup (window R).
Proof. unfold window, zrange. apply rect_NoDup, zrange_from_NoDup. Qed.

(* ---- the four _determine_attack bodies ----------------------------------------------------------- *)
Lemma det_binary_runs vis s cf att p n :
  ginv s -> 0 <= n ->
  runs (fun o => det_binary vis s cf att p o n) (scan_budget vis s cf att p (window (c_range cf)))
       (fun _ => True).
Proof.
  intros G Hn us Hus. unfold det_binary. destruct (n =? 0).
  { exists [], (false, []), O. split; [lia|]. split; [exact I|]. intros cs'. reflexivity. }
  destruct (scan_all_runs vis s cf att p _ G (window_NoDup (c_range cf)) us Hus)
    as (cs1 & l & k1 & Hk1 & [Nl _] & E1).
  destruct l as [|x l].
  { exists cs1, (true, []), k1. split; [exact Hk1|]. split; [exact I|]. intros cs'. rewrite E1. reflexivity. }
  destruct (subset_runs cf (x :: l) n ltac:(discriminate) Hn (fun _ => Nl) (skipn k1 us) ltac:(lia))
    as (cs2 & h & k2 & Hk2 & _ & E2).
  exists (cs1 ++ cs2), (true, h), (k1 + k2)%nat. split; [lia|]. split; [exact I|].
  intros cs'. rewrite <- app_assoc, E1, E2, skipn_skipn'. reflexivity.
Qed.

Lemma enc_loop_runs s cf attackable attack :
  NoDup attackable -> Forall (fun kv => 0 <= snd kv) attack ->
  runs (fun o => enc_loop s cf o attackable attack) 0 (fun _ => True).
Proof.
  intros Hnd. induction attack as [|[e num] r IH]; intros Hall us Hus.
  - exists [], [], O. split; [lia|]. split; [exact I|]. intros cs'. reflexivity.
  - inversion Hall as [|? ? Hnum Hr]; subst. cbn [snd] in Hnum. cbn [enc_loop].
    destruct (filter (fun v => enc_of s v =? e) attackable) as [|b0 bs] eqn:Eb.
    + apply (IH Hr us Hus).
    + assert (Nb : NoDup (b0 :: bs)) by (rewrite <- Eb; apply NoDup_filter, Hnd).
      destruct (subset_runs cf (b0 :: bs) num ltac:(discriminate) Hnum (fun _ => Nb) us ltac:(lia))
        as (cs1 & h & k1 & Hk1 & _ & E1).
      destruct (IH Hr (skipn k1 us) ltac:(lia)) as (cs2 & h2 & k2 & Hk2 & _ & E2).
      exists (cs1 ++ cs2), (h ++ h2), (k1 + k2)%nat. split; [lia|]. split; [exact I|].
      intros cs'. rewrite <- app_assoc, E1, E2, skipn_skipn'. reflexivity.
Qed.

Lemma det_encoding_runs vis s cf att p attack :
  ginv s -> Forall (fun kv => 0 <= snd kv) attack ->
  runs (fun o => det_encoding vis s cf att p o attack)
       (scan_budget vis s cf att p (window (c_range cf))) (fun _ => True).
Proof.
  intros G Hall us Hus. unfold det_encoding. destruct (forallb _ attack).
  { exists [], (false, []), O. split; [lia|]. split; [exact I|]. intros cs'. reflexivity. }
  destruct (scan_all_runs vis s cf att p _ G (window_NoDup (c_range cf)) us Hus)
    as (cs1 & l & k1 & Hk1 & [Nl _] & E1).
  destruct (enc_loop_runs s cf l attack Nl Hall (skipn k1 us) ltac:(lia)) as (cs2 & h & k2 & Hk2 & _ & E2).
  exists (cs1 ++ cs2), (true, h), (k1 + k2)%nat. split; [lia|]. split; [exact I|].
  intros cs'. rewrite <- app_assoc, E1, E2, skipn_skipn'. reflexivity.
Qed.

Lemma sel_loop_runs vis s cf att p ds :
  ginv s -> forall attack, Forall (fun n => 0 <= n) attack ->
  runs (fun o => sel_loop vis s cf att p o ds attack) (scan_budget vis s cf att p ds) (fun _ => True).
Proof.
  intros G. induction ds as [|d r IH]; intros attack Hall us Hus.
  { exists [], [], O. split; [lia|]. split; [exact I|]. intros cs'. destruct attack; reflexivity. }
  destruct attack as [|n ns].
  { exists [], [], O. split; [lia|]. split; [exact I|]. intros cs'. reflexivity. }
  inversion Hall as [|? ? Hn Hns]; subst. cbn [scan_budget] in Hus. cbn [sel_loop].
  destruct (n =? 0).
  { apply (runs_weaken _ _ _ _ _ (IH ns Hns)); [cbn [scan_budget]; lia|auto|exact Hus]. }
  destruct (filter_criteria_runs s cf att (cands_at vis s cf att p d) us ltac:(lia))
    as (cs1 & l & k1 & Hk1 & [_ N1] & E1).
  assert (Nl : NoDup l) by (apply N1, cands_at_NoDup, G).
  destruct l as [|x l].
  { destruct (IH ns Hns (skipn k1 us) ltac:(rewrite skipn_length; lia)) as (cs2 & h & k2 & Hk2 & _ & E2).
    exists (cs1 ++ cs2), h, (k1 + k2)%nat. split; [cbn [scan_budget]; lia|]. split; [exact I|].
    intros cs'. rewrite <- app_assoc, E1, E2, skipn_skipn'. reflexivity. }
  destruct (subset_runs cf (x :: l) n ltac:(discriminate) Hn (fun _ => Nl) (skipn k1 us) ltac:(lia))
    as (cs2 & h & k2 & Hk2 & _ & E2).
  destruct (IH ns Hns (skipn k2 (skipn k1 us)) ltac:(rewrite !skipn_length; lia))
    as (cs3 & h3 & k3 & Hk3 & _ & E3).
  exists (cs1 ++ cs2 ++ cs3), (h ++ h3), (k1 + (k2 + k3))%nat.
  split; [cbn [scan_budget]; lia|]. split; [exact I|].
  intros cs'. rewrite <- !app_assoc, E1, E2, E3, !skipn_skipn'. reflexivity.
Qed.

Lemma det_selective_runs vis s cf att p attack :
  ginv s -> Forall (fun n => 0 <= n) attack ->
  runs (fun o => det_selective vis s cf att p o attack)
       (scan_budget vis s cf att p (window (c_range cf))) (fun _ => True).
Proof.
  intros G Hall us Hus. unfold det_selective. destruct (forallb _ attack).
  { exists [], (false, []), O. split; [lia|]. split; [exact I|]. intros cs'. reflexivity. }
  destruct (sel_loop_runs vis s cf att p _ G attack Hall us Hus) as (cs1 & h & k1 & Hk1 & _ & E1).
  exists cs1, (true, h), k1. split; [exact Hk1|]. split; [exact I|]. intros cs'. rewrite E1. reflexivity.
Qed.

Fixpoint res_budget (vis : vis_fn) (cm : bool) (s : gstate) (cf : acfg) (att : nat) (p : cell)
         (attack : list Z) : nat :=
  match attack with
  | [] => O
  | k :: ks => (length (cands_at vis s cf att p (cell_of_id (c_range cf) cm k))
                + res_budget vis cm s cf att p ks)%nat
  end.

Lemma res_loop_runs vis cm s cf att p attack : forall hits,
  runs (fun o => res_loop vis cm s cf att p o hits attack) (res_budget vis cm s cf att p attack)
       (fun _ => True).
Proof.
  induction attack as [|k ks IH]; intros hits us Hus.
  { exists [], hits, O. split; [lia|]. split; [exact I|]. intros cs'. reflexivity. }
  cbn [res_budget] in Hus. cbn [res_loop]. destruct (k =? 0).
  { apply (runs_weaken _ _ _ _ _ (IH hits)); [cbn [res_budget]; lia|auto|exact Hus]. }
  destruct (criteria_all_runs s cf att (cands_at vis s cf att p (cell_of_id (c_range cf) cm k)) us
              ltac:(lia)) as (cs1 & l & k1 & Hk1 & _ & E1).
  destruct (filter_fresh (c_stacked cf) hits l) as [|v vs] eqn:Ef.
  { destruct (IH hits (skipn k1 us) ltac:(rewrite skipn_length; lia)) as (cs2 & h & k2 & Hk2 & _ & E2).
    exists (cs1 ++ cs2), h, (k1 + k2)%nat. split; [cbn [res_budget]; lia|]. split; [exact I|].
    intros cs'. rewrite <- app_assoc, E1, Ef, E2, skipn_skipn'. reflexivity. }
  destruct (IH (hits ++ [v]) (skipn k1 us) ltac:(rewrite skipn_length; lia))
    as (cs2 & h & k2 & Hk2 & _ & E2).
  exists (cs1 ++ [v] :: cs2), h, (k1 + k2)%nat. split; [cbn [res_budget]; lia|]. split; [exact I|].
  intros cs'. rewrite <- app_assoc, E1, Ef. cbn [app mko o_choice o_unif].
  assert (Em : memn v (v :: vs) = true) by (apply memn_In; left; reflexivity). rewrite Em.
  change {| o_unif := skipn k1 us; o_choice := cs2 ++ cs' |} with (mko (skipn k1 us) (cs2 ++ cs')).
  rewrite E2, skipn_skipn'. reflexivity.
Qed.

Lemma det_restricted_runs vis cm s cf att p attack :
  runs (fun o => det_restricted vis cm s cf att p o attack) (res_budget vis cm s cf att p attack)
       (fun _ => True).
Proof.
  intros us Hus. unfold det_restricted. destruct (forallb _ attack).
  { exists [], (false, []), O. split; [lia|]. split; [exact I|]. intros cs'. reflexivity. }
  destruct (res_loop_runs vis cm s cf att p attack [] us Hus) as (cs1 & h & k1 & Hk1 & _ & E1).
  exists cs1, (true, h), k1. split; [exact Hk1|]. split; [exact I|]. intros cs'. rewrite E1. reflexivity.
Qed.

(* ---- process_action ------------------------------------------------------------------------------- *)
(* an action is well-formed for its actor when the counts it carries are not negative (this is what
   membership in the declared channel gives) *)
Definition act_ok (act : aaction) : Prop :=
  match act with
  | ABinary n => 0 <= n
  | AEncoding l => Forall (fun kv => 0 <= snd kv) l
  | ASelective l => Forall (fun n => 0 <= n) l
  | ARestricted _ _ => True
  end.

Lemma determine_runs vis s cf att p act :
  ginv s -> act_ok act -> exists N, runs (fun o => determine vis s cf att p o act) N (fun _ => True).
Proof.
  intros G Hok. destruct act as [n|l|l|cm l]; cbn [determine act_ok] in *.
  - eexists. apply det_binary_runs; assumption.
  - eexists. apply det_encoding_runs; assumption.
  - eexists. apply det_selective_runs; assumption.
  - eexists. apply det_restricted_runs.
Qed.

Lemma countn_firstn_le x n l : (countn x (firstn n l) <= countn x l)%nat.
Proof.
  revert l; induction n as [|n IH]; intros l; cbn; [lia|].
  destruct l as [|y l]; cbn; [lia|]. specialize (IH l). destruct (Nat.eqb x y); lia.
Qed.

Lemma submultiset_firstn n l : submultiset (firstn n l) l = true.
Proof.
  unfold submultiset. apply forallb_forall. intros x _. apply Nat.leb_le, countn_firstn_le.
Qed.

(* completes: whatever the uniform draws are (at least N of them), admissible choice answers exist
   with which the whole process_action succeeds, and the resulting state satisfies the invariant *)
Definition attack_completes (vis : vis_fn) (s : gstate) (cf : acfg) (att : nat) (act : aaction) : Prop :=
  exists N, forall us, (N <= length us)%nat ->
    exists cs st hits s' o',
      process_attack vis s cf att (mko us cs) act = POk st hits s' o' /\ ginv s'.

Theorem process_attack_completes vis s cf att a p act :
  ginv s -> agent s att = Some a -> a_pos a = Some p -> act_ok act ->
  attack_completes vis s cf att act.
Proof.
  intros G Ha Hp Hok. destruct (determine_runs vis s cf att p act G Hok) as (N & HR).
  exists N. intros us Hus.
  destruct (HR us Hus) as (cs1 & [st hits] & k1 & Hk1 & _ & E1).
  assert (Fin : forall cs r, process_attack vis s cf att (mko us cs) act = r ->
                forall st' hits' s' o', r = POk st' hits' s' o' -> ginv s').
  { intros cs r Er st' hits' s' o' ->. pose proof (process_attack_inv vis s cf att (mko us cs) act G) as Inv.
    rewrite Er in Inv. exact Inv. }
  destruct (a_ammo a) as [am|] eqn:Eam.
  - assert (Ham : 0 <= am).
    { destruct (gi_vitals _ _ G att a Ha) as (_ & _ & V & _). apply V, Eam. }
    destruct (am <? Z.of_nat (length hits)) eqn:Elt.
    + apply Z.ltb_lt in Elt. set (ch := firstn (Z.to_nat am) hits).
      assert (Er : exists s' o', process_attack vis s cf att (mko us (cs1 ++ [ch])) act
                                 = POk st ch s' o').
      { unfold process_attack. rewrite Ha, Hp, E1, Eam.
        apply Z.ltb_lt in Elt as Elt'. rewrite Elt'. cbn [mko o_choice].
        unfold ch. rewrite firstn_length_le by lia. rewrite Z2Nat.id, Z.eqb_refl by exact Ham.
        rewrite submultiset_firstn. cbn [andb]. eexists _, _. reflexivity. }
      destruct Er as (s' & o' & Er). exists (cs1 ++ [ch]), st, ch, s', o'.
      split; [exact Er|]. apply (Fin _ _ Er _ _ _ _ eq_refl).
    + assert (Er : exists s' o', process_attack vis s cf att (mko us (cs1 ++ [])) act
                                 = POk st hits s' o').
      { unfold process_attack. rewrite Ha, Hp, E1, Eam, Elt. eexists _, _. reflexivity. }
      destruct Er as (s' & o' & Er). exists (cs1 ++ []), st, hits, s', o'.
      split; [exact Er|]. apply (Fin _ _ Er _ _ _ _ eq_refl).
  - assert (Er : exists s' o', process_attack vis s cf att (mko us (cs1 ++ [])) act
                               = POk st hits s' o').
    { unfold process_attack. rewrite Ha, Hp, E1, Eam. eexists _, _. reflexivity. }
    destruct Er as (s' & o' & Er). exists (cs1 ++ []), st, hits, s', o'.
    split; [exact Er|]. apply (Fin _ _ Er _ _ _ _ eq_refl).
Qed.

(* PErr (KeyError / TypeError of the code) is unreachable for a placed attacker, with any oracle
   and any action, member of the channel or not *)
Theorem process_attack_no_error vis s cf att a p o act :
  agent s att = Some a -> a_pos a = Some p -> process_attack vis s cf att o act <> PErr.
Proof.
  intros Ha Hp. unfold process_attack. rewrite Ha, Hp.
  destruct (determine vis s cf att p o act) as [[st hits] o1|]; [|discriminate].
  destruct (a_ammo a) as [am|]; [|discriminate].
  destruct (am <? Z.of_nat (length hits)); [|discriminate].
  destruct (o_choice o1) as [|ch cs]; [discriminate|].
  destruct ((Z.of_nat (length ch) =? am) && submultiset ch hits); discriminate.
Qed.

(* ---- from membership in the declared channel to act_ok -------------------------------------------- *)
Lemma forall2b_repeat_l {X Y} (f : X -> Y -> bool) x n v :
  forall2b f (repeat x n) v = true -> Forall (fun y => f x y = true) v.
Proof.
  revert v; induction n as [|n IH]; intros [|y v]; cbn; try discriminate; [constructor|].
  intros H. apply andb_true_iff in H as [H1 H2]. constructor; [exact H1|apply IH, H2].
Qed.

Lemma enc_points_ok {X} (l : list X) k ps :
  member_list (map (fun _ => Discrete (k + 1)) l) ps = true ->
  exists vs, all_some (map pi_val ps) = Some vs /\ length vs = length l /\ Forall (fun v => 0 <= v <= k) vs.
Proof.
  revert ps; induction l as [|x l IH]; intros [|q ps]; cbn [map member_list]; try discriminate.
  - intros _. exists []. repeat split. constructor.
  - intros H. apply andb_true_iff in H as [H1 H2]. destruct (IH ps H2) as (vs & Ev & El & Hv).
    destruct q as [z|v|v|qs]; cbn [member] in H1; try discriminate. apply in_range_spec in H1.
    exists (z :: vs). cbn [map pi_val all_some]. rewrite Ev. split; [reflexivity|].
    split; [cbn; lia|]. constructor; [lia|exact Hv].
Qed.

Lemma combine_snd_Forall {X} (P : Z -> Prop) (l : list X) vs :
  Forall P vs -> Forall (fun kv : X * Z => P (snd kv)) (combine l vs).
Proof.
  revert vs; induction l as [|x l IH]; intros vs H; cbn; [constructor|].
  destruct vs as [|v vs]; [constructor|]. inversion H; subst. constructor; [assumption|apply IH; assumption].
Qed.

Lemma attack_member_ok k cf pt :
  member (attack_space k cf) pt = true ->
  exists act, attack_of_point k cf pt = Some act /\ act_ok act.
Proof.
  destruct k; unfold attack_space, attack_of_point.
  - destruct pt as [z|v|v|ps]; cbn [member]; try discriminate. intros H. apply in_range_spec in H.
    exists (ABinary z). split; [reflexivity|cbn; lia].
  - destruct pt as [z|v|v|ps]; try (cbn [member]; discriminate). rewrite member_Dict. intros H.
    destruct (enc_points_ok _ _ _ H) as (vs & Ev & _ & Hv). rewrite Ev.
    eexists. split; [reflexivity|]. cbn [act_ok]. apply combine_snd_Forall.
    eapply Forall_impl; [|exact Hv]. cbn. intros; lia.
  - destruct pt as [z|v|v|ps]; cbn [member]; try discriminate. intros H.
    exists (ASelective v). split; [reflexivity|]. cbn [act_ok].
    apply forall2b_repeat_l in H. eapply Forall_impl; [|exact H]. intros y Hy.
    apply in_closed_spec in Hy. cbn [fst snd] in Hy. lia.
  - destruct pt as [z|v|v|ps]; cbn [member]; try discriminate. intros _.
    exists (ARestricted false v). split; [reflexivity|exact I].
Qed.

Theorem attack_actions_total k vis s cf att a p pt :
  ginv s -> agent s att = Some a -> a_pos a = Some p ->
  member (attack_space k cf) pt = true ->
  exists act, attack_of_point k cf pt = Some act /\
    attack_completes vis s cf att act /\
    forall o, process_attack vis s cf att o act <> PErr.
Proof.
  intros G Ha Hp Hm. destruct (attack_member_ok k cf pt Hm) as (act & E & Hok).
  exists act. split; [exact E|]. split.
  - apply (process_attack_completes vis s cf att a p act G Ha Hp Hok).
  - intros o. apply (process_attack_no_error vis s cf att a p o act Ha Hp).
Qed.
