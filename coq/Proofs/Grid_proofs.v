(* Basic facts about Grid/Grid.v: list update, cell dictionaries, the consistency invariant
   ginv and its preservation by place / remove. *)
From Coq Require Import ZArith List Bool Arith Lia.
From Abm Require Import Base.Sx Grid.Overlap Grid.Grid.
Import ListNotations.
Open Scope Z_scope.

(* ---- cells ------------------------------------------------------------------------------- *)
Lemma cell_eqb_eq p q : cell_eqb p q = true <-> p = q.
Proof.
  destruct p as [a b], q as [c d]. unfold cell_eqb. cbn [fst snd].
  rewrite andb_true_iff, !Z.eqb_eq. split; [intros [-> ->]; reflexivity|intros E; inversion E; auto].
Qed.

Lemma cell_eqb_refl p : cell_eqb p p = true.
Proof. apply cell_eqb_eq. reflexivity. Qed.

Lemma cell_eqb_neq p q : cell_eqb p q = false <-> p <> q.
Proof. rewrite <- cell_eqb_eq. destruct (cell_eqb p q); split; congruence. Qed.

Lemma cell_get_set_same cs p l : cell_get (cell_set cs p l) p = l.
Proof. unfold cell_set. cbn. rewrite cell_eqb_refl. reflexivity. Qed.

Lemma cell_get_set_other cs p q l : q <> p -> cell_get (cell_set cs p l) q = cell_get cs q.
Proof. intros H. unfold cell_set. cbn. apply cell_eqb_neq in H. rewrite H. reflexivity. Qed.

Lemma memn_In a l : memn a l = true <-> In a l.
Proof.
  unfold memn. rewrite existsb_exists. split.
  - intros (x & Hx & E). apply Nat.eqb_eq in E. subst. exact Hx.
  - intros H. exists a. split; [exact H|apply Nat.eqb_refl].
Qed.

Lemma memn_false a l : memn a l = false <-> ~ In a l.
Proof. rewrite <- memn_In. destruct (memn a l); split; congruence. Qed.

Lemma dict_add_In l i j : In j (dict_add l i) <-> In j l \/ j = i.
Proof.
  unfold dict_add. destruct (memn i l) eqn:E.
  - apply memn_In in E. split; [auto|]. intros [H| ->]; assumption.
  - rewrite in_app_iff. cbn. intuition.
Qed.

Lemma NoDup_snoc {X} (l : list X) (x : X) : NoDup l -> ~ In x l -> NoDup (l ++ [x]).
Proof.
  induction l as [|y l IH]; intros H N; cbn.
  - constructor; [intros []|constructor].
  - inversion H as [|? ? Hy Hl]; subst. constructor.
    + rewrite in_app_iff. cbn. intros [C|[C|[]]]; [contradiction|subst; apply N; left; reflexivity].
    + apply IH; [exact Hl|]. intros C. apply N. right. exact C.
Qed.

Lemma dict_add_NoDup l i : NoDup l -> NoDup (dict_add l i).
Proof.
  intros H. unfold dict_add. destruct (memn i l) eqn:E; [exact H|].
  apply memn_false in E. apply NoDup_snoc; assumption.
Qed.

Lemma dict_del_In l i j : In j (dict_del l i) <-> In j l /\ j <> i.
Proof.
  unfold dict_del. rewrite filter_In. rewrite negb_true_iff, Nat.eqb_neq. reflexivity.
Qed.

Lemma dict_del_NoDup l i : NoDup l -> NoDup (dict_del l i).
Proof. intros H. unfold dict_del. apply NoDup_filter, H. Qed.

(* ---- list update ------------------------------------------------------------------------- *)
Lemma upd_nth_length {X} (l : list X) i x : length (upd_nth l i x) = length l.
Proof. revert i; induction l as [|y l IH]; intros [|i]; cbn; auto. Qed.

Lemma nth_error_upd_same {X} (l : list X) i x y :
  nth_error l i = Some y -> nth_error (upd_nth l i x) i = Some x.
Proof. revert i; induction l as [|z l IH]; intros [|i]; cbn; try discriminate; auto. Qed.

Lemma nth_error_upd_other {X} (l : list X) i j x :
  j <> i -> nth_error (upd_nth l i x) j = nth_error l j.
Proof.
  revert i j; induction l as [|z l IH]; intros [|i] [|j] H; cbn; auto; try congruence.
Qed.

Lemma agent_set_agent_same s i a b : agent s i = Some b -> agent (set_agent s i a) i = Some a.
Proof. unfold agent, set_agent. cbn. apply nth_error_upd_same. Qed.

Lemma agent_set_agent_other s i j a : j <> i -> agent (set_agent s i a) j = agent s j.
Proof. unfold agent, set_agent. cbn. apply nth_error_upd_other. Qed.

Lemma agent_set_cells s cs j : agent (set_cells s cs) j = agent s j.
Proof. reflexivity. Qed.

Lemma enc_of_set_cells s cs j : enc_of (set_cells s cs) j = enc_of s j.
Proof. reflexivity. Qed.

Lemma enc_of_set_agent s i a b j :
  agent s i = Some b -> a_enc a = a_enc b -> enc_of (set_agent s i a) j = enc_of s j.
Proof.
  intros Hb He. unfold enc_of. destruct (Nat.eq_dec j i) as [->|N].
  - rewrite (agent_set_agent_same _ _ _ _ Hb), Hb. exact He.
  - rewrite agent_set_agent_other by exact N. reflexivity.
Qed.

(* ---- the invariant ------------------------------------------------------------------------ *)
Definition ov_sym (t : otable) : Prop := forall a b, ov_allowed t a b = ov_allowed t b a.

Definition vitals_ok (a : arec) : Prop :=
  0 <= a_health a <= HD /\ a_active a = (0 <? a_health a) /\
  (forall m, a_ammo a = Some m -> 0 <= m) /\ (forall o, a_orient a = Some o -> 1 <= o <= 4).

(* x = Some i exempts agent i from the agent->cell direction (it is between remove and place) *)
Record ginv_x (x : option nat) (s : gstate) : Prop := {
  gi_sym : ov_sym (g_ov s);
  gi_cell_agent : forall p i, In i (cell_get (g_cells s) p) ->
      exists a, agent s i = Some a /\ a_active a = true /\ a_pos a = Some p;
  gi_nodup : forall p, NoDup (cell_get (g_cells s) p);
  gi_agent_cell : forall i a p, Some i <> x -> agent s i = Some a -> a_active a = true ->
      a_pos a = Some p -> In i (cell_get (g_cells s) p) /\ inside s p = true;
  gi_overlap : forall p i j, In i (cell_get (g_cells s) p) -> In j (cell_get (g_cells s) p) ->
      i <> j -> ov_allowed (g_ov s) (enc_of s i) (enc_of s j) = true;
  gi_vitals : forall i a, agent s i = Some a -> vitals_ok a
}.
Definition ginv := ginv_x None.

Lemma ginv_weaken x s : ginv s -> ginv_x x s.
Proof.
  intros [H1 H2 H3 H4 H5 H6]. constructor; auto. intros i a p _. apply H4. discriminate.
Qed.

Lemma ov_query_forallb t a occ : ov_query t a occ = forallb (ov_allowed t a) occ.
Proof. destruct occ; reflexivity. Qed.

Lemma query_spec s i p :
  query s i p = true <->
  forall j, In j (cell_get (g_cells s) p) -> ov_allowed (g_ov s) (enc_of s i) (enc_of s j) = true.
Proof.
  unfold query. rewrite ov_query_forallb, forallb_forall. split.
  - intros H j Hj. apply H, in_map, Hj.
  - intros H e He. apply in_map_iff in He as (j & <- & Hj). apply H, Hj.
Qed.

(* ---- remove --------------------------------------------------------------------------------- *)
Lemma remove_spec s i a from :
  ginv s -> agent s i = Some a -> a_active a = true -> a_pos a = Some from ->
  exists s1, remove s i from = Some s1 /\ ginv_x (Some i) s1 /\
    g_agents s1 = g_agents s /\ g_rows s1 = g_rows s /\ g_cols s1 = g_cols s /\ g_ov s1 = g_ov s /\
    (forall p, ~ In i (cell_get (g_cells s1) p)) /\
    (forall p, p <> from -> cell_get (g_cells s1) p = cell_get (g_cells s) p) /\
    cell_get (g_cells s1) from = dict_del (cell_get (g_cells s) from) i.
Proof.
  intros [H1 H2 H3 H4 H5 H6] Ha Hact Hpos.
  destruct (H4 i a from ltac:(discriminate) Ha Hact Hpos) as [Hin Hins].
  unfold remove. apply memn_In in Hin as Hm. rewrite Hm. eexists. split; [reflexivity|].
  set (s1 := set_cells s _).
  assert (G : forall p, cell_get (g_cells s1) p =
                        if cell_eqb p from then dict_del (cell_get (g_cells s) from) i
                        else cell_get (g_cells s) p).
  { intros p. unfold s1. cbn. destruct (cell_eqb p from); reflexivity. }
  assert (Sub : forall p j, In j (cell_get (g_cells s1) p) -> In j (cell_get (g_cells s) p) /\ j <> i \/
                            In j (cell_get (g_cells s) p) /\ p <> from).
  { intros p j. rewrite G. destruct (cell_eqb p from) eqn:E.
    - apply cell_eqb_eq in E. subst p. rewrite dict_del_In. auto.
    - apply cell_eqb_neq in E. auto. }
  assert (Sub' : forall p j, In j (cell_get (g_cells s1) p) -> In j (cell_get (g_cells s) p)).
  { intros p j Hj. destruct (Sub p j Hj) as [[? _]|[? _]]; assumption. }
  split; [|repeat split; try reflexivity].
  - constructor; try assumption.
    + intros p j Hj. apply H2, Sub', Hj.
    + intros p. rewrite G. destruct (cell_eqb p from); [apply dict_del_NoDup|]; apply H3.
    + intros j b p Nx Hb Hbact Hbpos. assert (j <> i) by congruence.
      destruct (H4 j b p ltac:(discriminate) Hb Hbact Hbpos) as [Hjin Hjins]. split; [|exact Hjins].
      rewrite G. destruct (cell_eqb p from) eqn:E; [|exact Hjin].
      apply cell_eqb_eq in E. subst p. apply dict_del_In. split; assumption.
    + intros p j k Hj Hk N. apply (H5 p); [apply Sub', Hj|apply Sub', Hk|exact N].
  - intros p Hin'. destruct (Sub p i Hin') as [[_ N]|[Hin'' N]]; [congruence|].
    destruct (H2 p i Hin'') as (a' & Ha' & _ & Hp'). congruence.
  - intros p N. rewrite G. apply cell_eqb_neq in N. rewrite N. reflexivity.
  - rewrite G, cell_eqb_refl. reflexivity.
Qed.

(* ---- place ---------------------------------------------------------------------------------- *)
Lemma place_spec s i a p :
  ginv_x (Some i) s -> agent s i = Some a -> a_active a = true ->
  (forall q, ~ In i (cell_get (g_cells s) q)) -> inside s p = true -> query s i p = true ->
  exists s2, place s i p = (true, s2) /\ ginv s2 /\
    g_agents s2 = upd_nth (g_agents s) i (with_pos a (Some p)) /\
    g_rows s2 = g_rows s /\ g_cols s2 = g_cols s /\ g_ov s2 = g_ov s /\
    (forall q, q <> p -> cell_get (g_cells s2) q = cell_get (g_cells s) q) /\
    cell_get (g_cells s2) p = cell_get (g_cells s) p ++ [i].
Proof.
  intros [H1 H2 H3 H4 H5 H6] Ha Hact Hno Hins Hq.
  unfold place. rewrite Ha, Hq. eexists. split; [reflexivity|].
  set (s2 := set_agent _ _ _).
  assert (Hadd : dict_add (cell_get (g_cells s) p) i = cell_get (g_cells s) p ++ [i]).
  { unfold dict_add. destruct (memn i _) eqn:E; [|reflexivity]. apply memn_In in E. destruct (Hno p E). }
  assert (G : forall q, cell_get (g_cells s2) q =
                        if cell_eqb q p then cell_get (g_cells s) p ++ [i] else cell_get (g_cells s) q).
  { intros q. unfold s2. cbn. rewrite Hadd. destruct (cell_eqb q p); reflexivity. }
  assert (Ag_i : agent s2 i = Some (with_pos a (Some p))).
  { unfold s2. apply agent_set_agent_same with a. exact Ha. }
  assert (Ag_o : forall j, j <> i -> agent s2 j = agent s j).
  { intros j N. unfold s2. rewrite agent_set_agent_other by exact N. reflexivity. }
  assert (En : forall j, enc_of s2 j = enc_of s j).
  { intros j. unfold s2. rewrite (enc_of_set_agent _ _ _ a); [reflexivity|exact Ha|reflexivity]. }
  assert (Cases : forall q j, In j (cell_get (g_cells s2) q) ->
                              In j (cell_get (g_cells s) q) /\ j <> i \/ (q = p /\ j = i)).
  { intros q j. rewrite G. destruct (cell_eqb q p) eqn:E.
    - apply cell_eqb_eq in E. subst q. rewrite in_app_iff. cbn. intros [Hj|[<-|[]]]; [left|right; auto].
      split; [exact Hj|]. intros ->. exact (Hno p Hj).
    - intros Hj. left. split; [exact Hj|]. intros ->. exact (Hno q Hj). }
  split; [|repeat split; try reflexivity].
  - constructor.
    + exact H1.
    + intros q j Hj. destruct (Cases q j Hj) as [[Hj' N]|[-> ->]].
      * rewrite Ag_o by exact N. apply H2, Hj'.
      * exists (with_pos a (Some p)). repeat split; assumption.
    + intros q. rewrite G. destruct (cell_eqb q p); [|apply H3].
      apply NoDup_snoc; [apply H3|apply Hno].
    + intros j b q _ Hb Hbact Hbpos. destruct (Nat.eq_dec j i) as [->|N].
      * rewrite Ag_i in Hb. injection Hb as <-. cbn in Hbpos. injection Hbpos as <-.
        split; [|exact Hins]. rewrite G, cell_eqb_refl. apply in_or_app. right. left. reflexivity.
      * rewrite Ag_o in Hb by exact N.
        destruct (H4 j b q ltac:(congruence) Hb Hbact Hbpos) as [Hjin Hjins]. split; [|exact Hjins].
        rewrite G. destruct (cell_eqb q p) eqn:E; [|exact Hjin].
        apply cell_eqb_eq in E. subst q. apply in_or_app. left. exact Hjin.
    + intros q j k Hj Hk N. rewrite !En.
      destruct (Cases q j Hj) as [[Hj' Nj]|[Eq1 Ej]], (Cases q k Hk) as [[Hk' Nk]|[Eq2 Ek]].
      * apply (H5 q); assumption.
      * subst q k. rewrite H1. apply (proj1 (query_spec s i p) Hq), Hj'.
      * subst q j. apply (proj1 (query_spec s i p) Hq), Hk'.
      * congruence.
    + intros j b Hb. destruct (Nat.eq_dec j i) as [->|N].
      * rewrite Ag_i in Hb. injection Hb as <-. apply (H6 i a Ha).
      * rewrite Ag_o in Hb by exact N. apply (H6 j b Hb).
  - intros q N. rewrite G. apply cell_eqb_neq in N. rewrite N. reflexivity.
  - rewrite G, cell_eqb_refl. reflexivity.
Qed.
