(* Proofs about Spaces/Flatten.v *)
From Coq Require Import ZArith List Bool Lia.
From Abm Require Import Base.Sx Spaces.Space Spaces.Ravel Spaces.Flatten
     Proofs.Sx_proofs Proofs.Ravel_proofs.
Import ListNotations.
Open Scope Z_scope.

(* ---------- named versions of the local fixpoints ------------------------ *)
Fixpoint flatdim_list (ss : list space) : nat :=
  match ss with [] => 0 | s :: ss' => flatdim s + flatdim_list ss' end%nat.
Fixpoint flatten_list (ss : list space) (ps : list point) : list (list Z * bool) :=
  match ss, ps with
  | s :: ss', p :: ps' => flatten s p :: flatten_list ss' ps'
  | _, _ => []
  end.
Section UL.
  Variable f : bool.
  Fixpoint unflatten_list (ss : list space) (v : list Z) : list upoint :=
    match ss with
    | [] => []
    | s :: ss' =>
        match ss' with
        | [] => [unflatten s v f]
        | _ => unflatten s (firstn (flatdim s) v) f :: unflatten_list ss' (skipn (flatdim s) v)
        end
    end.
End UL.
Fixpoint fspace_list (ss : list space) : list (list (Z * Z) * bool) :=
  match ss with [] => [] | s :: ss' => flatten_space s :: fspace_list ss' end.
Fixpoint hf_list (ss : list space) : bool :=
  match ss with [] => false | s :: ss' => has_float s || hf_list ss' end.
Fixpoint same_values_list (ps : list point) (us : list upoint) : bool :=
  match ps, us with
  | [], [] => true
  | p :: ps', u :: us' => same_values p u && same_values_list ps' us'
  | _, _ => false
  end.
Fixpoint to_point_list (ss : list space) (us : list upoint) : option (list point) :=
  match ss, us with
  | [], [] => Some []
  | s :: ss', u :: us' =>
      match to_point s u, to_point_list ss' us' with
      | Some p, Some ps => Some (p :: ps)
      | _, _ => None
      end
  | _, _ => None
  end.

Lemma flatdim_Tuple ss : flatdim (Tuple ss) = flatdim_list ss. Proof. reflexivity. Qed.
Lemma flatdim_Dict ss : flatdim (Dict ss) = flatdim_list ss. Proof. reflexivity. Qed.
Lemma flatten_Tuple ss ps : flatten (Tuple ss) (PT ps) = concat_parts (flatten_list ss ps).
Proof. reflexivity. Qed.
Lemma unflatten_Tuple ss v f : unflatten (Tuple ss) v f = UT (unflatten_list f ss v).
Proof. reflexivity. Qed.
Lemma fspace_Tuple ss : flatten_space (Tuple ss) = concat_bounds (fspace_list ss).
Proof. reflexivity. Qed.
Lemma hf_Tuple ss : has_float (Tuple ss) = hf_list ss. Proof. reflexivity. Qed.
Lemma same_values_PT ps us : same_values (PT ps) (UT us) = same_values_list ps us.
Proof. reflexivity. Qed.
Lemma to_point_Tuple ss us : to_point (Tuple ss) (UT us) = option_map PT (to_point_list ss us).
Proof. reflexivity. Qed.

(* ---------- small list facts ----------------------------------------------- *)
Lemma list_eqb_refl l : list_eqb l l = true.
Proof. induction l as [|a l IH]; simpl; [reflexivity|]. rewrite Z.eqb_refl, IH. reflexivity. Qed.

Lemma upcast_length v : length (upcast v) = length v.
Proof. apply map_length. Qed.

Lemma castv_length f k v : length (castv f k v) = length v.
Proof. unfold castv. destruct (f && negb k); [apply upcast_length|reflexivity]. Qed.

Lemma upcast_concat l : upcast (concat l) = concat (map upcast l).
Proof. unfold upcast. apply concat_map. Qed.

Lemma quot_upcast v : map (fun z => Z.quot z TICK) (upcast v) = v.
Proof.
  unfold upcast. rewrite map_map. induction v as [|a v IH]; simpl; [reflexivity|].
  rewrite IH. f_equal. apply Z.quot_mul. unfold TICK. lia.
Qed.

Lemma firstn_app_exact {X} (l m : list X) : firstn (length l) (l ++ m) = l.
Proof. rewrite firstn_app, Nat.sub_diag, firstn_all. simpl. apply app_nil_r. Qed.
Lemma skipn_app_exact {X} (l m : list X) : skipn (length l) (l ++ m) = m.
Proof. rewrite skipn_app, Nat.sub_diag, skipn_all. reflexivity. Qed.

Lemma forall2b_app {X Y} (f : X -> Y -> bool) l1 m1 l2 m2 :
  forall2b f l1 m1 = true -> forall2b f l2 m2 = true -> forall2b f (l1 ++ l2) (m1 ++ m2) = true.
Proof.
  revert m1; induction l1 as [|x l1 IH]; intros [|y m1]; simpl; intros H1 H2; try discriminate;
    [exact H2|].
  apply andb_true_iff in H1 as [Ha Hb]. rewrite Ha. simpl. apply IH; assumption.
Qed.

Lemma forall2b_length {X Y} (f : X -> Y -> bool) l m :
  forall2b f l m = true -> length l = length m.
Proof.
  revert m; induction l as [|x l IH]; intros [|y m]; simpl; intros H; try discriminate;
    [reflexivity|]. apply andb_true_iff in H as [_ H]. f_equal. apply IH, H.
Qed.

Lemma scale_in_closed bs v :
  forall2b in_closed bs v = true -> forall2b in_closed (scale_bounds bs) (upcast v) = true.
Proof.
  revert v; induction bs as [|b bs IH]; intros [|x v]; simpl; intros H; try discriminate;
    [reflexivity|].
  apply andb_true_iff in H as [Hx Hr]. rewrite (IH _ Hr), andb_true_r.
  apply in_closed_spec in Hx. apply in_closed_spec. simpl. unfold TICK. lia.
Qed.

(* ---------- the cast algebra ------------------------------------------------ *)
Definition castb (f : bool) (bk : list (Z * Z) * bool) : list (Z * Z) :=
  if f && negb (snd bk) then scale_bounds (fst bk) else fst bk.

Lemma existsb_false_all {X} (g : X -> bool) l :
  existsb g l = false -> forall x, In x l -> g x = false.
Proof.
  induction l as [|a l IH]; simpl; intros H x Hx; [contradiction|].
  apply orb_false_iff in H as [Ha Hl]. destruct Hx as [->|Hx]; [exact Ha|apply IH; assumption].
Qed.

Lemma map_ext_in' {X Y} (g h : X -> Y) l : (forall x, In x l -> g x = h x) -> map g l = map h l.
Proof. apply map_ext_in. Qed.

Lemma cast_concat f (parts : list (list Z * bool)) :
  (existsb snd parts = true -> f = true) ->
  castv f (existsb snd parts)
        (concat (map (fun vk => castv (existsb snd parts) (snd vk) (fst vk)) parts)) =
  concat (map (fun vk => castv f (snd vk) (fst vk)) parts).
Proof.
  intros Hf. destruct (existsb snd parts) eqn:E.
  - rewrite (Hf eq_refl). unfold castv at 1. simpl. reflexivity.
  - pose proof (existsb_false_all _ _ E) as Hall.
    assert (E1 : map (fun vk : list Z * bool => castv false (snd vk) (fst vk)) parts = map fst parts).
    { apply map_ext_in. intros x _. reflexivity. }
    rewrite E1. unfold castv at 1. rewrite andb_true_r.
    destruct f.
    + rewrite upcast_concat, map_map. f_equal. apply map_ext_in. intros x Hx.
      unfold castv. rewrite (Hall x Hx). reflexivity.
    + reflexivity.
Qed.

Lemma scale_concat l : scale_bounds (concat l) = concat (map scale_bounds l).
Proof. unfold scale_bounds. apply concat_map. Qed.

Lemma castb_concat f (parts : list (list (Z * Z) * bool)) :
  (existsb snd parts = true -> f = true) ->
  castb f (concat_bounds parts) = concat (map (castb f) parts).
Proof.
  intros Hf. unfold concat_bounds, castb at 1. cbn [fst snd].
  destruct (existsb snd parts) eqn:E.
  - rewrite (Hf eq_refl). simpl. reflexivity.
  - pose proof (existsb_false_all _ _ E) as Hall. rewrite andb_true_r.
    assert (E1 : map (fun bk : list (Z * Z) * bool =>
                        if false && negb (snd bk) then scale_bounds (fst bk) else fst bk) parts
                 = map fst parts).
    { apply map_ext_in. intros x _. reflexivity. }
    rewrite E1. destruct f.
    + rewrite scale_concat, map_map. f_equal. apply map_ext_in. intros x Hx.
      unfold castb. rewrite (Hall x Hx). reflexivity.
    + reflexivity.
Qed.

(* ---------- the main invariant ----------------------------------------------- *)
Definition goodF (s : space) : Prop :=
  wf s = true ->
  snd (flatten_space s) = has_float s /\
  length (fst (flatten_space s)) = flatdim s /\
  forall p, member s p = true ->
    length (fst (flatten s p)) = flatdim s /\
    snd (flatten s p) = has_float s /\
    (forall f, (has_float s = true -> f = true) ->
       same_values p (unflatten s (castv f (has_float s) (fst (flatten s p))) f) = true /\
       forall2b in_closed (castb f (flatten_space s))
                (castv f (has_float s) (fst (flatten s p))) = true) /\
    (has_float s = false -> to_point s (unflatten s (fst (flatten s p)) false) = Some p).

Lemma leaf_int_cast (f : bool) v : castv f false v = if f then upcast v else v.
Proof. unfold castv. rewrite andb_true_r. reflexivity. Qed.

Lemma castb_int (f : bool) bs : castb f (bs, false) = if f then scale_bounds bs else bs.
Proof. unfold castb. simpl. rewrite andb_true_r. reflexivity. Qed.

Lemma in_closed_cast (f : bool) bs v :
  forall2b in_closed bs v = true ->
  forall2b in_closed (if f then scale_bounds bs else bs) (if f then upcast v else v) = true.
Proof. destruct f; [apply scale_in_closed|trivial]. Qed.

Lemma list_eqb_cast (f : bool) v :
  list_eqb (if f then upcast v else v) (if f then upcast v else v) = true.
Proof. apply list_eqb_refl. Qed.

Lemma repeat_bounds_ok n v :
  forall2b (fun d x => in_range 0 d x) (repeat 2 n) v = true ->
  forall2b in_closed (repeat (0, 1) n) v = true.
Proof.
  revert v; induction n as [|n IH]; intros [|x v]; simpl; intros H; try discriminate;
    [reflexivity|].
  apply andb_true_iff in H as [Hx Hr]. rewrite (IH _ Hr), andb_true_r.
  apply in_range_spec in Hx. apply in_closed_spec. simpl. lia.
Qed.

Lemma md_bounds_ok nv v :
  forall2b (fun d x => in_range 0 d x) nv v = true ->
  forall2b in_closed (map (fun d => (0, d - 1)) nv) v = true.
Proof.
  revert v; induction nv as [|d nv IH]; intros [|x v]; simpl; intros H; try discriminate;
    [reflexivity|].
  apply andb_true_iff in H as [Hx Hr]. rewrite (IH _ Hr), andb_true_r.
  apply in_range_spec in Hx. apply in_closed_spec. simpl. lia.
Qed.

Lemma goodF_Discrete n : goodF (Discrete n).
Proof.
  intros _. split; [reflexivity|]. split; [reflexivity|].
  intros [z|v|v|ps] Hm; try discriminate. simpl in Hm. apply in_range_spec in Hm.
  cbn [flatten fst snd has_float flatdim length].
  split; [reflexivity|]. split; [reflexivity|]. split.
  - intros f _. rewrite leaf_int_cast. split.
    + destruct f; simpl; apply Z.eqb_refl.
    + cbn [flatten_space]. rewrite castb_int. apply in_closed_cast. simpl.
      rewrite andb_true_r. apply in_closed_spec. simpl. lia.
  - intros _. reflexivity.
Qed.

Lemma goodF_vec (s : space) (bs : list (Z * Z)) :
  has_float s = false -> flatten_space s = (bs, false) -> length bs = flatdim s ->
  (forall p, member s p = true ->
     exists v, p = PV v /\ flatten s p = (v, false) /\ forall2b in_closed bs v = true /\
               (forall w f, unflatten s w f = UV w f) /\ to_point s (UV v false) = Some (PV v)) ->
  goodF s.
Proof.
  intros Hhf Hfs Hlen Hp _. rewrite Hfs, Hhf. cbn [fst snd].
  split; [reflexivity|]. split; [exact Hlen|].
  intros p Hm. destruct (Hp p Hm) as (v & -> & Efl & Hin & Hun & Htp). rewrite Efl. cbn [fst snd].
  split; [rewrite <- Hlen; symmetry; apply (forall2b_length _ _ _ Hin)|].
  split; [reflexivity|]. split.
  - intros f _. rewrite Hun, leaf_int_cast. split.
    + simpl. apply list_eqb_refl.
    + rewrite castb_int. apply in_closed_cast, Hin.
  - intros _. rewrite Hun. exact Htp.
Qed.

Lemma goodF_MB n : goodF (MultiBinary n).
Proof.
  apply (goodF_vec _ (repeat (0, 1) n)); try reflexivity; [apply repeat_length|].
  intros [z|v|v|ps] Hm; try discriminate. exists v. simpl in Hm.
  repeat split; try reflexivity. apply repeat_bounds_ok, Hm.
Qed.

Lemma goodF_MD nv : goodF (MultiDiscrete nv).
Proof.
  apply (goodF_vec _ (map (fun d => (0, d - 1)) nv)); try reflexivity; [apply map_length|].
  intros [z|v|v|ps] Hm; try discriminate. exists v. simpl in Hm.
  repeat split; try reflexivity. apply md_bounds_ok, Hm.
Qed.

Lemma goodF_BoxI bs : goodF (BoxI bs).
Proof.
  intros _. cbn [flatten_space has_float fst snd flatdim].
  split; [reflexivity|]. split; [reflexivity|].
  intros [z|v|v|ps] Hm; try discriminate. simpl in Hm. cbn [flatten fst snd].
  split; [symmetry; apply (forall2b_length _ _ _ Hm)|]. split; [reflexivity|]. split.
  - intros f _. rewrite leaf_int_cast. split.
    + cbn [unflatten same_values]. destruct f.
      * rewrite quot_upcast. apply list_eqb_refl.
      * apply list_eqb_refl.
    + rewrite castb_int. apply in_closed_cast, Hm.
  - intros _. reflexivity.
Qed.

Lemma goodF_BoxF bs : goodF (BoxF bs).
Proof.
  intros _. cbn [flatten_space has_float fst snd flatdim].
  split; [reflexivity|]. split; [reflexivity|].
  intros [z|v|v|ps] Hm; try discriminate. simpl in Hm. cbn [flatten fst snd].
  split; [symmetry; apply (forall2b_length _ _ _ Hm)|]. split; [reflexivity|]. split.
  - intros f Hf. rewrite (Hf eq_refl). unfold castv, castb. simpl. split.
    + apply list_eqb_refl.
    + exact Hm.
  - intros Hc. discriminate.
Qed.

(* ---------- lists of children -------------------------------------------------- *)
Lemma hf_list_existsb ss ps :
  Forall goodF ss -> wf_list ss = true -> member_list ss ps = true ->
  existsb snd (flatten_list ss ps) = hf_list ss.
Proof.
  intros HF; revert ps; induction HF as [|s ss Hs _ IH]; intros [|p ps] Hwf Hm; simpl in *;
    try discriminate; [reflexivity|].
  apply andb_true_iff in Hwf as [Hw1 Hw2]. apply andb_true_iff in Hm as [Hm1 Hm2].
  destruct (Hs Hw1) as (_ & _ & Hp). destruct (Hp p Hm1) as (_ & Hk & _).
  rewrite Hk, (IH ps Hw2 Hm2). reflexivity.
Qed.

Lemma hf_list_existsb_space ss :
  Forall goodF ss -> wf_list ss = true -> existsb snd (fspace_list ss) = hf_list ss.
Proof.
  induction 1 as [|s ss Hs _ IH]; simpl; intros Hwf; [reflexivity|].
  apply andb_true_iff in Hwf as [Hw1 Hw2]. destruct (Hs Hw1) as (Hk & _).
  rewrite Hk, (IH Hw2). reflexivity.
Qed.

Lemma fspace_list_length f ss :
  Forall goodF ss -> wf_list ss = true ->
  length (concat (map (castb f) (fspace_list ss))) = flatdim_list ss.
Proof.
  induction 1 as [|s ss Hs _ IH]; simpl; intros Hwf; [reflexivity|].
  apply andb_true_iff in Hwf as [Hw1 Hw2]. destruct (Hs Hw1) as (_ & Hl & _).
  rewrite app_length, (IH Hw2). f_equal. unfold castb.
  destruct (f && negb (snd (flatten_space s))); [unfold scale_bounds; rewrite map_length|]; exact Hl.
Qed.

Lemma unflatten_list_cons f s ss v w :
  length v = flatdim s ->
  (ss = [] -> w = []) ->
  unflatten_list f (s :: ss) (v ++ w) = unflatten s v f :: unflatten_list f ss w.
Proof.
  intros Hl Hw. cbn [unflatten_list]. destruct ss as [|t ss].
  - rewrite (Hw eq_refl), app_nil_r. reflexivity.
  - rewrite <- Hl, firstn_app_exact, skipn_app_exact. reflexivity.
Qed.

Lemma children_ok f ss :
  Forall goodF ss -> wf_list ss = true ->
  (hf_list ss = true -> f = true) ->
  forall ps, member_list ss ps = true ->
    let v := concat (map (fun vk => castv f (snd vk) (fst vk)) (flatten_list ss ps)) in
    length v = flatdim_list ss /\
    same_values_list ps (unflatten_list f ss v) = true /\
    forall2b in_closed (concat (map (castb f) (fspace_list ss))) v = true /\
    (f = false -> hf_list ss = false -> to_point_list ss (unflatten_list f ss v) = Some ps).
Proof.
  intros HF; induction HF as [|s ss Hs _ IH]; intros Hwf Hf [|p ps] Hm; simpl in Hwf, Hf, Hm;
    try discriminate.
  - simpl. repeat split; reflexivity.
  - apply andb_true_iff in Hwf as [Hw1 Hw2]. apply andb_true_iff in Hm as [Hm1 Hm2].
    destruct (Hs Hw1) as (Hfk & Hfl & Hp). destruct (Hp p Hm1) as (Hlen & Hk & Hrt & Hint).
    assert (Hf1 : has_float s = true -> f = true) by (intros E; apply Hf; rewrite E; reflexivity).
    assert (Hf2 : hf_list ss = true -> f = true)
      by (intros E; apply Hf; rewrite E; apply orb_true_r).
    destruct (Hrt f Hf1) as (Hsv & Hbox).
    destruct (IH Hw2 Hf2 ps Hm2) as (Il & Isv & Ibox & Iint).
    cbn [flatten_list map concat fspace_list flatdim_list]. cbv zeta.
    rewrite Hk.
    set (v1 := castv f (has_float s) (fst (flatten s p))) in *.
    set (w := concat (map (fun vk => castv f (snd vk) (fst vk)) (flatten_list ss ps))) in *.
    assert (Hl1 : length v1 = flatdim s) by (unfold v1; rewrite castv_length; exact Hlen).
    assert (Hw : ss = [] -> w = []).
    { intros ->. destruct ps; reflexivity. }
    rewrite (unflatten_list_cons f s ss v1 w Hl1 Hw).
    repeat split.
    + rewrite app_length, Hl1, Il. reflexivity.
    + cbn [same_values_list]. rewrite Hsv, Isv. reflexivity.
    + apply forall2b_app; assumption.
    + intros Ef Eh. apply orb_false_iff in Eh as [Eh1 Eh2].
      cbn [to_point_list]. rewrite (Iint Ef Eh2).
      specialize (Hint Eh1). unfold v1. rewrite Ef, Eh1. unfold castv. simpl.
      rewrite Hint. reflexivity.
Qed.

Lemma concat_len_ext {X Y} (g h : X -> list Y) l :
  (forall x, length (g x) = length (h x)) ->
  length (concat (map g l)) = length (concat (map h l)).
Proof.
  intros E. induction l as [|a l IH]; simpl; [reflexivity|]. rewrite !app_length, E, IH. reflexivity.
Qed.

Lemma goodF_node ss : Forall goodF ss -> goodF (Tuple ss).
Proof.
  intros HF Hwf. rewrite wf_Tuple in Hwf. apply andb_true_iff in Hwf as [_ Hwf].
  rewrite fspace_Tuple, hf_Tuple, flatdim_Tuple.
  assert (Hfk : snd (concat_bounds (fspace_list ss)) = hf_list ss)
    by (apply hf_list_existsb_space; assumption).
  split; [exact Hfk|]. split.
  { rewrite <- (fspace_list_length false ss HF Hwf). unfold concat_bounds. cbn [fst].
    apply concat_len_ext. intros x. unfold castb, scale_bounds.
    destruct (existsb snd (fspace_list ss) && negb (snd x)), (false && negb (snd x));
      rewrite ?map_length; reflexivity. }
  intros [z|v|v|ps] Hm; try discriminate. rewrite member_Tuple in Hm.
  rewrite flatten_Tuple. unfold concat_parts. cbn [fst snd].
  pose proof (hf_list_existsb ss ps HF Hwf Hm) as Ek.
  split; [|split; [exact Ek|split]].
  - destruct (children_ok (hf_list ss) ss HF Hwf (fun e => e) ps Hm) as (Hl & _).
    rewrite Ek. exact Hl.
  - intros f Hf.
    assert (EC : castv f (hf_list ss)
                   (concat (map (fun vk => castv (existsb snd (flatten_list ss ps)) (snd vk) (fst vk))
                                (flatten_list ss ps)))
                 = concat (map (fun vk => castv f (snd vk) (fst vk)) (flatten_list ss ps))).
    { rewrite <- Ek. apply cast_concat. rewrite Ek. exact Hf. }
    rewrite EC.
    destruct (children_ok f ss HF Hwf Hf ps Hm) as (_ & Hsv & Hbox & _).
    rewrite unflatten_Tuple, same_values_PT. split; [exact Hsv|].
    rewrite castb_concat by (rewrite hf_list_existsb_space by assumption; exact Hf).
    exact Hbox.
  - intros Eh. rewrite Ek, Eh.
    assert (Hf0 : hf_list ss = true -> false = true) by (rewrite Eh; discriminate).
    destruct (children_ok false ss HF Hwf Hf0 ps Hm) as (_ & _ & _ & Hint).
    rewrite unflatten_Tuple, to_point_Tuple.
    assert (E0 : map (fun vk : list Z * bool => castv false (snd vk) (fst vk)) (flatten_list ss ps)
                 = map (fun vk => castv false (snd vk) (fst vk)) (flatten_list ss ps)) by reflexivity.
    rewrite (Hint eq_refl Eh). reflexivity.
Qed.

Lemma goodF_Dict ss : goodF (Tuple ss) -> goodF (Dict ss).
Proof.
  intros G Hwf. rewrite wf_Dict, <- wf_Tuple in Hwf. specialize (G Hwf).
  assert (EM : forall p, member (Dict ss) p = member (Tuple ss) p) by (intros []; reflexivity).
  assert (EF : forall p, flatten (Dict ss) p = flatten (Tuple ss) p) by (intros []; reflexivity).
  assert (ET : forall u, to_point (Dict ss) u = to_point (Tuple ss) u) by (intros []; reflexivity).
  change (flatten_space (Dict ss)) with (flatten_space (Tuple ss)).
  change (has_float (Dict ss)) with (has_float (Tuple ss)).
  change (flatdim (Dict ss)) with (flatdim (Tuple ss)).
  destruct G as (G1 & G2 & G3). split; [exact G1|]. split; [exact G2|].
  intros p Hm. rewrite EM in Hm. rewrite EF.
  change (unflatten (Dict ss)) with (unflatten (Tuple ss)).
  destruct (G3 p Hm) as (A1 & A2 & A3 & A4).
  split; [exact A1|]. split; [exact A2|]. split; [exact A3|].
  intros E. rewrite ET. exact (A4 E).
Qed.

Theorem all_goodF : forall s, goodF s.
Proof.
  induction s as [n|n|nv|bs|bs|ss IH|ss IH] using space_ind'.
  - apply goodF_Discrete.
  - apply goodF_MB.
  - apply goodF_MD.
  - apply goodF_BoxI.
  - apply goodF_BoxF.
  - apply goodF_node, IH.
  - apply goodF_Dict, goodF_node, IH.
Qed.

(* ---------- statements used by Props/P_C05.v -------------------------------------- *)
Lemma flatten_length s p :
  wf s = true -> member s p = true -> length (fst (flatten s p)) = flatdim s.
Proof. intros Hw Hm. destruct (all_goodF s Hw) as (_ & _ & G). apply (G p Hm). Qed.

Lemma flatten_kind s p :
  wf s = true -> member s p = true -> snd (flatten s p) = has_float s.
Proof. intros Hw Hm. destruct (all_goodF s Hw) as (_ & _ & G). apply (G p Hm). Qed.

Lemma fspace_kind s : wf s = true -> snd (flatten_space s) = has_float s.
Proof. intros Hw. apply (all_goodF s Hw). Qed.

Lemma fspace_length s : wf s = true -> length (fst (flatten_space s)) = flatdim s.
Proof. intros Hw. apply (all_goodF s Hw). Qed.

Lemma castv_same k v : castv k k v = v.
Proof. unfold castv. destruct k; reflexivity. Qed.

Lemma castb_same s : wf s = true -> castb (has_float s) (flatten_space s) = fst (flatten_space s).
Proof. intros Hw. unfold castb. rewrite (fspace_kind s Hw). destruct (has_float s); reflexivity. Qed.

Lemma flatten_in_box s p :
  wf s = true -> member s p = true -> box_member (flatten_space s) (flatten s p) = true.
Proof.
  intros Hw Hm. destruct (all_goodF s Hw) as (Hk & _ & G).
  destruct (G p Hm) as (_ & Hk' & Hrt & _). destruct (Hrt (has_float s) (fun e => e)) as (_ & Hb).
  unfold box_member. rewrite Hk, Hk', eqb_reflx. simpl.
  rewrite castv_same, castb_same in Hb by exact Hw. exact Hb.
Qed.

Lemma flatten_roundtrip s p :
  wf s = true -> member s p = true ->
  same_values p (unflatten s (fst (flatten s p)) (snd (flatten s p))) = true.
Proof.
  intros Hw Hm. destruct (all_goodF s Hw) as (_ & _ & G).
  destruct (G p Hm) as (_ & Hk' & Hrt & _). destruct (Hrt (has_float s) (fun e => e)) as (Hs & _).
  rewrite Hk'. rewrite castv_same in Hs. exact Hs.
Qed.

Lemma flatten_roundtrip_int s p :
  wf s = true -> member s p = true -> has_float s = false ->
  to_point s (unflatten s (fst (flatten s p)) (snd (flatten s p))) = Some p.
Proof.
  intros Hw Hm Hf. destruct (all_goodF s Hw) as (_ & _ & G).
  destruct (G p Hm) as (_ & Hk' & _ & Hint). rewrite Hk', Hf. exact (Hint Hf).
Qed.

(* the upcast of integer parts: a flattened vector handed to unflatten at float kind still
   round-trips (this is what happens to integer children of a mixed Dict/Tuple) *)
Lemma flatten_roundtrip_upcast s p :
  wf s = true -> member s p = true ->
  same_values p (unflatten s (castv true (has_float s) (fst (flatten s p))) true) = true.
Proof.
  intros Hw Hm. destruct (all_goodF s Hw) as (_ & _ & G).
  destruct (G p Hm) as (_ & _ & Hrt & _). apply (Hrt true). reflexivity.
Qed.

Lemma chk_C05_model s p :
  wf s = true -> member s p = true ->
  let fl := flatten s p in
  let fs := flatten_space s in
  let u := unflatten s (fst fl) (snd fl) in
  chk_C05 s p (flatdim s) (snd fl) (fst fl) (box_member fs fl) fs u
          (if has_float s then 2
           else match to_point s u with
                | Some q => if member s q then 1 else 0
                | None => 0
                end) = true.
Proof.
  intros Hw Hm. cbv zeta. unfold chk_C05.
  rewrite Nat.eqb_refl, (flatten_length s p Hw Hm), Nat.eqb_refl.
  rewrite <- surjective_pairing, (flatten_in_box s p Hw Hm).
  rewrite (fspace_length s Hw), Nat.eqb_refl, (fspace_kind s Hw), eqb_reflx.
  rewrite (flatten_roundtrip s p Hw Hm). simpl.
  destruct (has_float s) eqn:Hf; [reflexivity|].
  rewrite (flatten_roundtrip_int s p Hw Hm Hf), Hm, sx_eqb_refl. reflexivity.
Qed.
