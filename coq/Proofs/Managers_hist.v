(* C01 / C07 for an arbitrary simulation: the per-step statements of the three managers, then
   the history level (invariant of every reachable state, done at most once per episode). *)
From Coq Require Import ZArith List Bool Arith Lia.
From Abm Require Import Ctl.Managers Proofs.Managers_proofs.
Import ListNotations.

Section H.
  Context {St Obs Info Act : Type}.
  Variable Sim : simulation St Obs Info Act.
  Notation n := (sim_n Sim).
  Notation learning := (sim_learning Sim).
  Notation s_reset := (sim_reset Sim).
  Notation s_step := (sim_step Sim).
  Notation s_obs := (sim_obs Sim).
  Notation s_reward := (sim_reward Sim).
  Notation s_done := (sim_done Sim).
  Notation s_all := (sim_all Sim).
  Notation s_next := (sim_next Sim).
  Notation agents := (agents Sim).
  Notation order := (order Sim).
  Notation nonlearning := (nonlearning Sim).
  Notation all_in := (all_in Sim).
  Notation live := (live Sim).
  Notation greach := (greach Sim).
  Notation done_stable := (done_stable Sim).
  Notation L := (length order).

  (* some submitted key belongs to an agent already reported done *)
  Definition submits_done (d : list nat) (acts : list (nat * Act)) : Prop :=
    exists kv, In kv acts /\ In (fst kv) d.

  Lemma submits_done_spec d acts :
    existsb (fun kv => memb (fst kv) d) acts = true <-> submits_done d acts.
  Proof.
    rewrite existsb_exists. unfold submits_done.
    split; intros (kv & H1 & H2); exists kv; (split; [exact H1|apply memb_In, H2]).
  Qed.

  Lemma submits_done_false d acts :
    existsb (fun kv => memb (fst kv) d) acts = false <-> ~ submits_done d acts.
  Proof.
    rewrite <- submits_done_spec.
    destruct (existsb (fun kv => memb (fst kv) d) acts); split; congruence.
  Qed.

  (* ---------------- lists of agents ---------------- *)
  Lemma NoDup_agents : NoDup agents.
  Proof. apply seq_NoDup. Qed.

  Lemma NoDup_live d : NoDup (live d).
  Proof. apply NoDup_filter, NoDup_agents. Qed.

  Lemma live_In a d : In a (live d) <-> In a agents /\ ~ In a d.
  Proof.
    unfold Managers_proofs.live. rewrite filter_In, negb_true_iff, memb_false_In. tauto.
  Qed.

  Lemma order_In_iff a : In a order <-> In a agents /\ learning a = true.
  Proof. unfold Managers.order. apply filter_In. Qed.

  Lemma nonlearning_In a : In a nonlearning <-> In a agents /\ learning a = false.
  Proof. unfold Managers.nonlearning. rewrite filter_In, negb_true_iff. tauto. Qed.

  Lemma live_nonlearning : live nonlearning = order.
  Proof.
    unfold Managers_proofs.live, Managers.order. apply filter_ext_in. intros a Ha.
    destruct (learning a) eqn:El.
    - apply negb_true_iff, memb_false_In. rewrite nonlearning_In. intros [_ C]. congruence.
    - apply negb_false_iff, memb_In, nonlearning_In. split; assumption.
  Qed.

  Lemma all_in_false d : all_in d = false <-> exists a, In a agents /\ ~ In a d.
  Proof.
    split.
    - intros H. unfold Managers.all_in in H.
      assert (E : existsb (fun a => negb (memb a d)) agents = true).
      { clear -H. induction agents as [|x l IH]; [discriminate|]. simpl in *.
        destruct (memb x d); simpl in *; [apply IH, H|reflexivity]. }
      apply existsb_exists in E as (a & Ha & Hn). exists a. split; [exact Ha|].
      apply memb_false_In, negb_true_iff, Hn.
    - intros (a & Ha & Hn). destruct (all_in d) eqn:E; [|reflexivity].
      exfalso. apply Hn. apply (proj1 (all_in_spec Sim d) E), Ha.
  Qed.

  (* a live agent outside a set that contains the non-learning entities is a learning agent *)
  Lemma live_is_learning d a :
    incl nonlearning d -> In a agents -> ~ In a d -> In a order.
  Proof.
    intros Hnl Ha Hn. apply order_In_iff. split; [exact Ha|].
    destruct (learning a) eqn:El; [reflexivity|]. exfalso. apply Hn, Hnl, nonlearning_In. tauto.
  Qed.

  Lemma NoDup_app_intro (l m : list nat) :
    NoDup l -> NoDup m -> (forall a, In a m -> ~ In a l) -> NoDup (l ++ m).
  Proof.
    induction l as [|x l IH]; intros Hl Hm Hd; [exact Hm|]. simpl.
    inversion Hl as [|y l' Hx Hl']; subst. constructor.
    - intros C. apply in_app_or in C as [C|C]; [contradiction|]. apply (Hd x C). left. reflexivity.
    - apply IH; [exact Hl'|exact Hm|]. intros a Ha C. apply (Hd a Ha). right. exact C.
  Qed.

  Lemma In_done_entry (dl : list (nat * bool)) a : In a (map fst dl) -> exists b, In (a, b) dl.
  Proof.
    intros H. apply in_map_iff in H as ([x b] & E & Hx). cbn in E. subst. exists b. exact Hx.
  Qed.

  Lemma done_true_keys (dl : list (nat * bool)) a :
    In a (map fst (filter snd dl)) <-> In (a, true) dl.
  Proof.
    rewrite in_map_iff. split.
    - intros ([x b] & E & Hx). cbn in E. subst. apply filter_In in Hx as [Hx Hb]. cbn in Hb.
      subst. exact Hx.
    - intros H. exists (a, true). split; [reflexivity|]. apply filter_In. split; [exact H|reflexivity].
  Qed.

  Lemma NoDup_map_filter (dl : list (nat * bool)) :
    NoDup (map fst dl) -> NoDup (map fst (filter snd dl)).
  Proof.
    induction dl as [|[a b] dl IH]; intros H; [constructor|]. cbn in *.
    inversion H as [|x l Hn Hd]; subst. destruct b; cbn; [|apply IH, Hd].
    constructor; [|apply IH, Hd]. intros C. apply Hn.
    apply in_map_iff in C as (x & E & Hx). apply filter_In in Hx as [Hx _].
    apply in_map_iff. exists x. split; assumption.
  Qed.

  (* ================= all-step manager, one call ================= *)
  Definition ainv (m : mstate St) : Prop := incl nonlearning (m_done m).

  Lemma all_step_out m acts sh o m' :
    all_step Sim m acts sh = (ROut o, m') ->
    ~ submits_done (m_done m) acts /\
    keys o = live (m_done m) /\ wfo o /\
    greach (s_step (m_sim m) sh) (m_sim m') /\
    m_done m' = m_done m ++ map fst (filter snd (o_done o)) /\
    o_all o = s_all (m_sim m') || all_in (m_done m') /\
    o_done o = map (fun a => (a, s_done (m_sim m') a)) (live (m_done m)).
  Proof.
    intros H. destruct (existsb (fun kv => memb (fst kv) (m_done m)) acts) eqn:E.
    - rewrite (all_step_reject Sim m acts sh E) in H. discriminate.
    - destruct (all_step_accept Sim m acts sh E) as (o1 & m1 & E1 & R). rewrite E1 in H.
      injection H as <- <-. split; [apply submits_done_false, E|exact R].
  Qed.

  Theorem all_keys_agree m acts sh o m' :
    all_step Sim m acts sh = (ROut o, m') -> wfo o.
  Proof. intros H. apply all_step_out in H. tauto. Qed.

  Theorem all_never_reports_done m acts sh o m' :
    all_step Sim m acts sh = (ROut o, m') -> forall a, In a (keys o) -> ~ In a (m_done m).
  Proof.
    intros H a Ha. apply all_step_out in H as (_ & K & _). rewrite K in Ha.
    apply live_In in Ha. tauto.
  Qed.

  Theorem all_rejects_before_advance m acts sh :
    submits_done (m_done m) acts -> all_step Sim m acts sh = (RReject, m).
  Proof. intros H. apply all_step_reject, submits_done_spec, H. Qed.

  Theorem all_actions_unchanged m acts sh :
    ~ submits_done (m_done m) acts ->
    exists o m', all_step Sim m acts sh = (ROut o, m') /\
                 greach (s_step (m_sim m) sh) (m_sim m').
  Proof.
    intros H. apply submits_done_false in H.
    destruct (all_step_accept Sim m acts sh H) as (o & m' & E & _ & _ & G & _).
    exists o, m'. split; assumption.
  Qed.

  Theorem all_all_flag m acts sh o m' :
    all_step Sim m acts sh = (ROut o, m') ->
    o_all o = s_all (m_sim m') || all_in (m_done m').
  Proof. intros H. apply all_step_out in H. tauto. Qed.

  Theorem all_bookkeeping m acts sh o m' :
    all_step Sim m acts sh = (ROut o, m') ->
    incl (m_done m) (m_done m') /\
    forall a, (In (a, true) (o_done o) -> In a (m_done m')) /\
              (In (a, false) (o_done o) -> ~ In a (m_done m')).
  Proof.
    intros H. apply all_step_out in H as (_ & K & _ & _ & D & _ & Dn).
    split; [rewrite D; apply incl_appl, incl_refl|]. intros a. split; intros Ha.
    - rewrite D. apply in_or_app. right. apply done_true_keys, Ha.
    - rewrite D. intros C. apply in_app_or in C as [C|C].
      + rewrite Dn in Ha. apply in_map_iff in Ha as (x & E & Hx). injection E as -> _.
        apply live_In in Hx. tauto.
      + apply done_true_keys in C. rewrite Dn in Ha, C.
        apply in_map_iff in Ha as (x & E & _). apply in_map_iff in C as (y & E' & _).
        injection E as -> E. injection E' as -> E'. congruence.
  Qed.

  Theorem all_reports_all_live m acts sh o m' :
    all_step Sim m acts sh = (ROut o, m') ->
    keys o = filter (fun a => negb (memb a (m_done m))) agents.
  Proof. intros H. apply all_step_out in H. tauto. Qed.

  Theorem all_reset_reports_learning m :
    exists obs m', all_reset Sim m = (RObs obs, m') /\ map fst obs = order /\
                   m_done m' = nonlearning /\ m_ptr m' = m_ptr m /\
                   greach (s_reset (m_sim m)) (m_sim m').
  Proof.
    unfold all_reset. fold (live nonlearning). rewrite live_nonlearning.
    pose proof (thread_keys s_obs (s_reset (m_sim m)) order) as K.
    pose proof (thread_obs_greach Sim (s_reset (m_sim m)) order) as G.
    destruct (thread s_obs (s_reset (m_sim m)) order) as [obs s2]. cbn [fst snd] in *.
    exists obs. eexists. split; [reflexivity|]. cbn. repeat split; assumption.
  Qed.

  Theorem all_progress m acts sh o m' :
    all_step Sim m acts sh = (ROut o, m') -> o_all o = false ->
    exists a, In (a, false) (o_done o) /\ ~ In a (m_done m').
  Proof.
    intros H Hall. pose proof (all_bookkeeping _ _ _ _ _ H) as (Hi & Hb).
    apply all_step_out in H as (_ & K & _ & _ & D & Al & Dn).
    rewrite Al in Hall. apply orb_false_iff in Hall as [_ Hall].
    apply all_in_false in Hall as (a & Ha & Hn). exists a. split; [|exact Hn].
    assert (Hl : In a (live (m_done m))) by (apply live_In; split; [exact Ha|]; intros C; apply Hn, Hi, C).
    destruct (s_done (m_sim m') a) eqn:Ed.
    - exfalso. apply Hn, (proj1 (Hb a)). rewrite Dn. apply in_map_iff. exists a. rewrite Ed. tauto.
    - rewrite Dn. apply in_map_iff. exists a. rewrite Ed. tauto.
  Qed.

  (* ================= turn-based manager, one call ================= *)
  Definition tinv (m : mstate St) : Prop :=
    m_ptr m < L /\ incl nonlearning (m_done m) /\ exists a, In a order /\ ~ In a (m_done m).

  Lemma tinv_L m : tinv m -> L <> 0.
  Proof. intros (H & _). lia. Qed.

  Lemma tinv_not_all m : tinv m -> all_in (m_done m) = false.
  Proof.
    intros (_ & _ & a & Ha & Hn). apply all_in_false. exists a. split; [|exact Hn].
    apply order_In, Ha.
  Qed.

  (* the branches of turn_step / dyn_step after an accepted submission *)
  Inductive step_branch (pool : list nat) (m : mstate St) (s1 : St) (o : out Obs Info) (m' : mstate St) : Prop :=
  | sb_flush :
      s_all s1 = true -> o_all o = true -> keys o = live (m_done m) -> wfo o ->
      greach s1 (m_sim m') -> m_done m' = m_done m -> m_ptr m' = m_ptr m ->
      step_branch pool m s1 o m'
  | sb_search ks :
      s_all s1 = false ->
      search_post Sim pool s1 (m_done m) (empty_out false) o (m_sim m') (m_done m') ks ->
      step_branch pool m s1 o m'.

  Lemma flush_branch d s1 o s2 :
    flush Sim s1 d agents (empty_out true) = (o, s2) ->
    o_all o = true /\ keys o = live d /\ wfo o /\ greach s1 s2.
  Proof.
    intros E. pose proof (flush_spec Sim d agents s1 (empty_out true)) as F.
    cbv zeta in F. rewrite E in F. cbn [fst snd] in F. destruct F as (K & W & Al & G).
    repeat split; try assumption; apply (W (wfo_empty true)).
  Qed.

  Lemma turn_step_cases m acts : tinv m ->
    (acts = [] /\ turn_step Sim m acts = (RError, m)) \/
    (submits_done (m_done m) acts /\ turn_step Sim m acts = (RReject, m)) \/
    (acts <> [] /\ ~ submits_done (m_done m) acts /\
     exists o m', turn_step Sim m acts = (ROut o, m') /\
       step_branch order m (s_step (m_sim m) acts) o m' /\ m_ptr m' < L).
  Proof.
    intros Hinv. pose proof (tinv_L m Hinv) as HL. destruct Hinv as (Hp & Hnl & Hlive).
    unfold turn_step, turn_step_gen. destruct acts as [|[a0 v0] acts']; [left; tauto|]. right.
    set (acts := (a0, v0) :: acts') in *.
    destruct (existsb (fun kv => memb (fst kv) (m_done m)) acts) eqn:E.
    - left. split; [apply submits_done_spec, E|reflexivity].
    - right. split; [discriminate|]. split; [apply submits_done_false, E|].
      set (s1 := s_step (m_sim m) acts).
      destruct (s_all s1) eqn:Eall.
      + destruct (flush Sim s1 (m_done m) agents (empty_out true)) as [o s2] eqn:Ef.
        destruct (flush_branch (m_done m) s1 o s2 Ef) as (F1 & F2 & F3 & F4).
        eexists. eexists. split; [reflexivity|]. split; [|exact Hp].
        apply sb_flush; auto.
      + destruct (turn_search Sim (S L) s1 (m_done m) (m_ptr m) (empty_out false))
          as [o s2 d p|] eqn:Es.
        * destruct (turn_search_post Sim _ _ _ _ _ _ _ _ _ HL Hp Es) as (Hp' & ks & SP).
          eexists. eexists. split; [reflexivity|]. split; [|exact Hp'].
          apply sb_search with ks; [exact Eall|exact SP].
        * exfalso. exact (turn_search_terminates Sim s1 (m_done m) (m_ptr m) (empty_out false)
                            HL Hp Hnl Hlive Es).
  Qed.

  (* what both branches give, for the turn-based and the dynamic-order manager alike *)
  Lemma sb_wfo pool m s1 o m' : step_branch pool m s1 o m' -> wfo o.
  Proof.
    intros [? ? ? W ? ? ?|ks ? SP]; [exact W|]. apply (sp_wfo _ _ _ _ _ _ _ _ _ SP), wfo_empty.
  Qed.

  Lemma sb_greach pool m s1 o m' : step_branch pool m s1 o m' -> greach s1 (m_sim m').
  Proof. intros [? ? ? ? G ? ?|ks ? SP]; [exact G|]. apply (sp_greach _ _ _ _ _ _ _ _ _ SP). Qed.

  Lemma sb_keys_search pool s1 d o s' d' ks :
    search_post Sim pool s1 d (empty_out false) o s' d' ks -> keys o = ks.
  Proof. intros SP. rewrite (sp_keys _ _ _ _ _ _ _ _ _ SP). reflexivity. Qed.

  Lemma sb_fresh pool m s1 o m' :
    step_branch pool m s1 o m' -> forall a, In a (keys o) -> ~ In a (m_done m).
  Proof.
    intros [? ? K ? ? ? ?|ks ? SP] a Ha.
    - rewrite K in Ha. apply live_In in Ha. tauto.
    - rewrite (sb_keys_search _ _ _ _ _ _ _ SP) in Ha.
      apply (sp_fresh _ _ _ _ _ _ _ _ _ SP), Ha.
  Qed.

  Lemma sb_nodup pool m s1 o m' : step_branch pool m s1 o m' -> NoDup (keys o).
  Proof.
    intros [? ? K ? ? ? ?|ks ? SP].
    - rewrite K. apply NoDup_live.
    - rewrite (sb_keys_search _ _ _ _ _ _ _ SP). apply (sp_nodup _ _ _ _ _ _ _ _ _ SP).
  Qed.

  Lemma sb_incl pool m s1 o m' : step_branch pool m s1 o m' -> incl (m_done m) (m_done m').
  Proof.
    intros [? ? ? ? ? D ?|ks ? SP]; [rewrite D; apply incl_refl|].
    apply (search_post_incl _ _ _ _ _ _ _ _ _ SP).
  Qed.

  Lemma sb_all_flag pool m s1 o m' :
    all_in (m_done m) = false -> step_branch pool m s1 o m' ->
    o_all o = s_all s1 || all_in (m_done m').
  Proof.
    intros Hd [Ea Eo ? ? ? ? ?|ks Ea SP]; rewrite Ea; [exact Eo|].
    apply (sp_all _ _ _ _ _ _ _ _ _ SP); [reflexivity|exact Hd].
  Qed.

  (* the simulation finished: everybody not yet reported done is flushed, the episode ends *)
  Lemma sb_sim_finished pool m s1 o m' :
    step_branch pool m s1 o m' -> s_all s1 = true ->
    o_all o = true /\ keys o = filter (fun a => negb (memb a (m_done m))) agents /\
    m_done m' = m_done m.
  Proof. intros [? Eo K ? ? D ?|ks Ea ?] E; [auto|congruence]. Qed.

  Lemma sb_book pool m s1 o m' :
    done_stable -> step_branch pool m s1 o m' -> s_all s1 = false ->
    forall a, (In (a, true) (o_done o) -> In a (m_done m')) /\
              (In (a, false) (o_done o) -> ~ In a (m_done m')) /\
              (forall b, In (a, b) (o_done o) -> b = s_done s1 a).
  Proof.
    intros St0 [Ea ? ? ? ? ? ?|ks _ SP] E a; [congruence|].
    destruct (sp_entries _ _ _ _ _ _ _ _ _ SP) as (dl & E1 & _ & E3 & E4 & E5).
    cbn in E1. rewrite E1. split; [apply E4, St0|]. split; [apply E5, St0|]. intros b. apply E3, St0.
  Qed.

  Lemma sb_progress_entry pool m s1 o m' a :
    done_stable -> step_branch pool m s1 o m' -> o_all o = false ->
    In a (keys o) -> s_done s1 a = false ->
    In (a, false) (o_done o) /\ ~ In a (m_done m').
  Proof.
    intros St0 SB Ho Ha Hd. pose proof (sb_wfo _ _ _ _ _ SB) as (_ & W & _).
    assert (Es : s_all s1 = false).
    { destruct SB as [? Eo ? ? ? ? ?|ks E _]; [congruence|exact E]. }
    destruct (sb_book _ _ _ _ _ St0 SB Es a) as (_ & B2 & B3).
    rewrite <- W in Ha. apply In_done_entry in Ha as (b & Hb).
    pose proof (B3 b Hb) as Eb. rewrite Hd in Eb. subst b. split; [exact Hb|apply B2, Hb].
  Qed.

  Lemma turn_step_out m acts o m' : tinv m -> turn_step Sim m acts = (ROut o, m') ->
    acts <> [] /\ ~ submits_done (m_done m) acts /\
    step_branch order m (s_step (m_sim m) acts) o m' /\ m_ptr m' < L.
  Proof.
    intros Hinv H. destruct (turn_step_cases m acts Hinv) as [(_ & E)|[(_ & E)|(N1 & N2 & o1 & m1 & E & R)]];
      rewrite E in H; try discriminate. injection H as <- <-. tauto.
  Qed.

  Theorem turn_keys_agree m acts o m' :
    tinv m -> turn_step Sim m acts = (ROut o, m') -> wfo o.
  Proof. intros Hi H. eapply sb_wfo. apply (turn_step_out _ _ _ _ Hi H). Qed.

  Theorem turn_never_reports_done m acts o m' :
    tinv m -> turn_step Sim m acts = (ROut o, m') -> forall a, In a (keys o) -> ~ In a (m_done m).
  Proof. intros Hi H. eapply sb_fresh. apply (turn_step_out _ _ _ _ Hi H). Qed.

  (* needs no invariant: the assertion loop runs first *)
  Theorem turn_rejects_before_advance m acts :
    submits_done (m_done m) acts -> turn_step Sim m acts = (RReject, m).
  Proof.
    intros H. pose proof H as (kv & Hk & _). apply submits_done_spec in H.
    unfold turn_step, turn_step_gen. destruct acts as [|[a0 v0] acts']; [destruct Hk|].
    rewrite H. reflexivity.
  Qed.

  Theorem turn_actions_unchanged m acts :
    tinv m -> acts <> [] -> ~ submits_done (m_done m) acts ->
    exists o m', turn_step Sim m acts = (ROut o, m') /\
                 greach (s_step (m_sim m) acts) (m_sim m').
  Proof.
    intros Hi Hne Hn.
    destruct (turn_step_cases m acts Hi) as [(E & _)|[(E & _)|(_ & _ & o & m' & E & SB & _)]];
      [contradiction|contradiction|].
    exists o, m'. split; [exact E|]. eapply sb_greach, SB.
  Qed.

  Theorem turn_empty_submission m : turn_step Sim m [] = (RError, m).
  Proof. reflexivity. Qed.

  Theorem turn_all_flag m acts o m' :
    tinv m -> turn_step Sim m acts = (ROut o, m') ->
    o_all o = s_all (s_step (m_sim m) acts) || all_in (m_done m') /\
    (s_all (s_step (m_sim m) acts) = true ->
       keys o = filter (fun a => negb (memb a (m_done m))) agents /\ m_done m' = m_done m).
  Proof.
    intros Hi H. destruct (turn_step_out _ _ _ _ Hi H) as (_ & _ & SB & _). split.
    - apply (sb_all_flag _ _ _ _ _ (tinv_not_all m Hi) SB).
    - intros E. apply (sb_sim_finished _ _ _ _ _ SB E).
  Qed.

  Theorem turn_bookkeeping m acts o m' :
    done_stable -> tinv m -> turn_step Sim m acts = (ROut o, m') ->
    incl (m_done m) (m_done m') /\
    (s_all (s_step (m_sim m) acts) = false ->
     forall a, (In (a, true) (o_done o) -> In a (m_done m')) /\
               (In (a, false) (o_done o) -> ~ In a (m_done m'))).
  Proof.
    intros St0 Hi H. destruct (turn_step_out _ _ _ _ Hi H) as (_ & _ & SB & _).
    split; [apply (sb_incl _ _ _ _ _ SB)|]. intros E a.
    destruct (sb_book _ _ _ _ _ St0 SB E a) as (B1 & B2 & _). tauto.
  Qed.

  Theorem turn_search_no_fuel_error m acts : tinv m -> fst (turn_step Sim m acts) <> ROutOfFuel.
  Proof.
    intros Hi. destruct (turn_step_cases m acts Hi) as [(_ & E)|[(_ & E)|(_ & _ & o & m' & E & _)]];
      rewrite E; discriminate.
  Qed.

  (* the order in which turns are handed out *)
  Lemma turn_search_order fuel : done_stable -> forall s d p o o' s' d' p',
    L <> 0 -> p < L ->
    turn_search Sim fuel s d p o = SOk o' s' d' p' ->
    exists k front b, 1 <= k <= fuel /\ p' = (p + k) mod L /\
      (forall i, i < k - 1 -> In (nth ((p + i) mod L) order 0) d') /\
      ~ In (nth ((p + (k - 1)) mod L) order 0) d /\
      keys o' = keys o ++ front ++ [nth ((p + (k - 1)) mod L) order 0] /\
      o_done o' = o_done o ++ map (fun a => (a, true)) front
                           ++ [(nth ((p + (k - 1)) mod L) order 0, b)] /\
      (b = true -> o_all o' = true) /\
      (b = false -> o_all o' = o_all o /\ ~ In (nth ((p + (k - 1)) mod L) order 0) d').
  Proof.
    intros St0. induction fuel as [|f IH]; intros s d p o o' s' d' p' HL Hp H; [discriminate|].
    simpl in H. set (a := nth p order 0) in *.
    pose proof (next_ptr_lt Sim p HL) as Hp'.
    assert (Ea : nth ((p + 0) mod L) order 0 = a)
      by (rewrite Nat.add_0_r, Nat.mod_small by exact Hp; reflexivity).
    destruct (memb a d) eqn:Em.
    - destruct (IH _ _ _ _ _ _ _ _ HL Hp' H) as (k & front & b & Hk & Ep & Hv & Hn & K & D & B1 & B2).
      destruct (turn_search_post Sim _ _ _ _ _ _ _ _ _ HL Hp' H) as (_ & ks & SP).
      exists (S k), front, b. replace (S k - 1) with (S (k - 1)) by lia.
      rewrite <- (pos_shift Sim p (k - 1) HL). split; [lia|].
      split; [rewrite Ep; apply pos_shift, HL|]. split; [|tauto].
      intros [|i] Hi.
      + rewrite Ea. apply (search_post_incl _ _ _ _ _ _ _ _ _ SP). apply memb_In, Em.
      + rewrite <- (pos_shift Sim p i HL). apply Hv. lia.
    - apply memb_false_In in Em.
      destruct (add_report_spec Sim s a o) as (K & _ & Al & G & (b0 & Eb & Hb)).
      destruct (add_report Sim s a o) as [o1 s1]. cbn [fst snd] in *.
      rewrite (St0 _ _ a G) in Hb.
      destruct (s_done s a) eqn:Ed; [destruct (all_in (d ++ [a])) eqn:Eall|].
      + injection H as <- <- <- <-. exists 1, [], b0. cbn [Nat.sub]. rewrite Ea.
        split; [lia|]. split; [f_equal; lia|]. split; [intros i Hi; lia|]. split; [exact Em|].
        split; [exact K|]. split; [exact Eb|]. split; [reflexivity|]. intros C. congruence.
      + destruct (IH _ _ _ _ _ _ _ _ HL Hp' H) as (k & front & b & Hk & Ep & Hv & Hn & K' & D & B1 & B2).
        destruct (turn_search_post Sim _ _ _ _ _ _ _ _ _ HL Hp' H) as (_ & ks & SP).
        exists (S k), (a :: front), b. replace (S k - 1) with (S (k - 1)) by lia.
        rewrite <- (pos_shift Sim p (k - 1) HL). split; [lia|].
        split; [rewrite Ep; apply pos_shift, HL|]. split; [|split; [|split; [|split; [|split]]]].
        * intros [|i] Hi.
          -- rewrite Ea. apply (search_post_incl _ _ _ _ _ _ _ _ _ SP).
             apply in_or_app. right. left. reflexivity.
          -- rewrite <- (pos_shift Sim p i HL). apply Hv. lia.
        * intros C. apply Hn, in_or_app. left. exact C.
        * rewrite K', K, <- app_assoc. reflexivity.
        * rewrite D, Eb, Hb, <- app_assoc. reflexivity.
        * exact B1.
        * intros C. destruct (B2 C) as (B3 & B4). split; [congruence|exact B4].
      + injection H as <- <- <- <-. exists 1, [], b0. cbn [Nat.sub]. rewrite Ea.
        split; [lia|]. split; [f_equal; lia|]. split; [intros i Hi; lia|]. split; [exact Em|].
        split; [exact K|]. split; [exact Eb|]. split; [intros C; congruence|].
        intros _. split; [exact Al|exact Em].
  Qed.

  (* one or more entries done = true followed by exactly one done = false, or only done = true
     entries together with __all__ *)
  Theorem turn_shape m acts o m' :
    done_stable -> tinv m -> turn_step Sim m acts = (ROut o, m') ->
    s_all (s_step (m_sim m) acts) = false ->
    exists front last b,
      o_done o = map (fun a => (a, true)) front ++ [(last, b)] /\
      (b = true -> o_all o = true) /\ (b = false -> o_all o = false).
  Proof.
    intros St0 Hi H Ea. pose proof (tinv_L m Hi) as HL. pose proof Hi as (Hp & _).
    destruct (turn_step_out _ _ _ _ Hi H) as (_ & _ & _ & _).
    unfold turn_step, turn_step_gen in H. destruct acts as [|[a0 v0] acts']; [discriminate|].
    destruct (existsb _ _); [discriminate|]. rewrite Ea in H.
    destruct (turn_search Sim _ _ _ _ _) as [o1 s2 d p|] eqn:Es; [|discriminate].
    injection H as <- <-.
    destruct (turn_search_shape Sim _ St0 _ _ _ _ _ _ _ _ Es) as (front & last & b & E1 & E2 & E3).
    exists front, last, b. split; [exact E1|]. split; [exact E2|exact E3].
  Qed.

  Theorem turn_order m acts o m' :
    done_stable -> tinv m -> turn_step Sim m acts = (ROut o, m') ->
    s_all (s_step (m_sim m) acts) = false ->
    exists k front b, 1 <= k <= S L /\ m_ptr m' = (m_ptr m + k) mod L /\
      (forall i, i < k - 1 -> In (nth ((m_ptr m + i) mod L) order 0) (m_done m')) /\
      ~ In (nth ((m_ptr m + (k - 1)) mod L) order 0) (m_done m) /\
      keys o = front ++ [nth ((m_ptr m + (k - 1)) mod L) order 0] /\
      o_done o = map (fun a => (a, true)) front ++ [(nth ((m_ptr m + (k - 1)) mod L) order 0, b)] /\
      (b = true -> o_all o = true) /\
      (b = false -> o_all o = false /\ ~ In (nth ((m_ptr m + (k - 1)) mod L) order 0) (m_done m')).
  Proof.
    intros St0 Hi H Ea. pose proof (tinv_L m Hi) as HL. pose proof Hi as (Hp & _).
    unfold turn_step, turn_step_gen in H. destruct acts as [|[a0 v0] acts']; [discriminate|].
    destruct (existsb _ _); [discriminate|]. rewrite Ea in H.
    destruct (turn_search Sim _ _ _ _ _) as [o1 s2 d p|] eqn:Es; [|discriminate].
    injection H as <- <-. cbn [m_ptr m_done].
    destruct (turn_search_order _ St0 _ _ _ _ _ _ _ _ HL Hp Es)
      as (k & front & b & R). exists k, front, b. exact R.
  Qed.

  Theorem turn_reset_first_turn m :
    (order = [] /\ turn_reset Sim m = (RError, m)) \/
    (exists a0 rest ob m', order = a0 :: rest /\ turn_reset Sim m = (RObs [(a0, ob)], m') /\
       m_ptr m' = 1 mod L /\ m_done m' = nonlearning /\ greach (s_reset (m_sim m)) (m_sim m')).
  Proof.
    unfold turn_reset. destruct order as [|a0 rest] eqn:Eo; [left; tauto|]. right.
    cbn [nth]. destruct (s_obs (s_reset (m_sim m)) a0) as [ob s2] eqn:E.
    exists a0, rest, ob. eexists. split; [reflexivity|]. split; [reflexivity|]. cbn.
    repeat split. apply gr_obs with a0. rewrite E. constructor.
  Qed.

  Theorem turn_progress m acts o m' :
    done_stable -> tinv m -> turn_step Sim m acts = (ROut o, m') -> o_all o = false ->
    exists a, In (a, false) (o_done o) /\ ~ In a (m_done m').
  Proof.
    intros St0 Hi H Ho. destruct (turn_step_out _ _ _ _ Hi H) as (_ & _ & SB & _).
    assert (Ea : s_all (s_step (m_sim m) acts) = false).
    { destruct SB as [? Eo ? ? ? ? ?|ks E _]; [congruence|exact E]. }
    destruct (turn_order _ _ _ _ St0 Hi H Ea) as (k & front & b & _ & _ & _ & _ & _ & D & B1 & B2).
    destruct b; [rewrite (B1 eq_refl) in Ho; discriminate|]. destruct (B2 eq_refl) as (_ & Hn).
    eexists. split; [|exact Hn]. rewrite D. apply in_or_app. right. left. reflexivity.
  Qed.

  (* ================= dynamic-order manager, one call ================= *)
  Definition nom_ok (s : St) : Prop := NoDup (s_next s) /\ incl (s_next s) agents.

  Lemma dyn_step_cases m acts : nom_ok (s_step (m_sim m) acts) ->
    (submits_done (m_done m) acts /\ dyn_step Sim m acts = (RReject, m)) \/
    (~ submits_done (m_done m) acts /\
     exists o m', dyn_step Sim m acts = (ROut o, m') /\
       step_branch (s_next (s_step (m_sim m) acts)) m (s_step (m_sim m) acts) o m' /\
       m_ptr m' = m_ptr m /\
       (s_all (s_step (m_sim m) acts) = false ->
        keys o = filter (fun a => negb (memb a (m_done m))) (s_next (s_step (m_sim m) acts)))).
  Proof.
    intros (ND & Hin). unfold dyn_step.
    destruct (existsb (fun kv => memb (fst kv) (m_done m)) acts) eqn:E.
    - left. split; [apply submits_done_spec, E|reflexivity].
    - right. split; [apply submits_done_false, E|].
      set (s1 := s_step (m_sim m) acts) in *.
      destruct (s_all s1) eqn:Eall.
      + destruct (flush Sim s1 (m_done m) agents (empty_out true)) as [o s2] eqn:Ef.
        destruct (flush_branch (m_done m) s1 o s2 Ef) as (F1 & F2 & F3 & F4).
        eexists. eexists. split; [reflexivity|]. split; [apply sb_flush; auto|].
        split; [reflexivity|discriminate].
      + destruct (dyn_loop Sim s1 (m_done m) (s_next s1) (empty_out false)) as [[o s2] d] eqn:Ed.
        pose proof (dyn_loop_post Sim _ _ _ _ _ _ _ ND Hin Ed) as SP.
        eexists. eexists. split; [reflexivity|]. split; [|split; [reflexivity|]].
        * eapply sb_search; [exact Eall|exact SP].
        * intros _. apply (sb_keys_search _ _ _ _ _ _ _ SP).
  Qed.

  Lemma dyn_step_out m acts o m' :
    nom_ok (s_step (m_sim m) acts) -> dyn_step Sim m acts = (ROut o, m') ->
    ~ submits_done (m_done m) acts /\
    step_branch (s_next (s_step (m_sim m) acts)) m (s_step (m_sim m) acts) o m' /\
    m_ptr m' = m_ptr m /\
    (s_all (s_step (m_sim m) acts) = false ->
     keys o = filter (fun a => negb (memb a (m_done m))) (s_next (s_step (m_sim m) acts))).
  Proof.
    intros Hn H. destruct (dyn_step_cases m acts Hn) as [(_ & E)|(N & o1 & m1 & E & R)];
      rewrite E in H; [discriminate|]. injection H as <- <-. tauto.
  Qed.

  Theorem dyn_keys_agree m acts o m' :
    nom_ok (s_step (m_sim m) acts) -> dyn_step Sim m acts = (ROut o, m') -> wfo o.
  Proof. intros Hn H. eapply sb_wfo. apply (dyn_step_out _ _ _ _ Hn H). Qed.

  Theorem dyn_never_reports_done m acts o m' :
    nom_ok (s_step (m_sim m) acts) -> dyn_step Sim m acts = (ROut o, m') ->
    forall a, In a (keys o) -> ~ In a (m_done m).
  Proof. intros Hn H. eapply sb_fresh. apply (dyn_step_out _ _ _ _ Hn H). Qed.

  Theorem dyn_rejects_before_advance m acts :
    submits_done (m_done m) acts -> dyn_step Sim m acts = (RReject, m).
  Proof. intros H. apply submits_done_spec in H. unfold dyn_step. rewrite H. reflexivity. Qed.

  Theorem dyn_actions_unchanged m acts :
    nom_ok (s_step (m_sim m) acts) -> ~ submits_done (m_done m) acts ->
    exists o m', dyn_step Sim m acts = (ROut o, m') /\
                 greach (s_step (m_sim m) acts) (m_sim m').
  Proof.
    intros Hn Hs. destruct (dyn_step_cases m acts Hn) as [(E & _)|(_ & o & m' & E & SB & _)];
      [contradiction|]. exists o, m'. split; [exact E|]. eapply sb_greach, SB.
  Qed.

  Theorem dyn_all_flag m acts o m' :
    nom_ok (s_step (m_sim m) acts) -> all_in (m_done m) = false ->
    dyn_step Sim m acts = (ROut o, m') ->
    o_all o = s_all (s_step (m_sim m) acts) || all_in (m_done m') /\
    (s_all (s_step (m_sim m) acts) = true ->
       keys o = filter (fun a => negb (memb a (m_done m))) agents /\ m_done m' = m_done m).
  Proof.
    intros Hn Hd H. destruct (dyn_step_out _ _ _ _ Hn H) as (_ & SB & _). split.
    - apply (sb_all_flag _ _ _ _ _ Hd SB).
    - intros E. apply (sb_sim_finished _ _ _ _ _ SB E).
  Qed.

  Theorem dyn_bookkeeping m acts o m' :
    done_stable -> nom_ok (s_step (m_sim m) acts) -> dyn_step Sim m acts = (ROut o, m') ->
    incl (m_done m) (m_done m') /\
    (s_all (s_step (m_sim m) acts) = false ->
     forall a, (In (a, true) (o_done o) -> In a (m_done m')) /\
               (In (a, false) (o_done o) -> ~ In a (m_done m'))).
  Proof.
    intros St0 Hn H. destruct (dyn_step_out _ _ _ _ Hn H) as (_ & SB & _).
    split; [apply (sb_incl _ _ _ _ _ SB)|]. intros E a.
    destruct (sb_book _ _ _ _ _ St0 SB E a) as (B1 & B2 & _). tauto.
  Qed.

  Theorem dyn_reports_nominated m acts o m' :
    nom_ok (s_step (m_sim m) acts) -> dyn_step Sim m acts = (ROut o, m') ->
    s_all (s_step (m_sim m) acts) = false ->
    keys o = filter (fun a => negb (memb a (m_done m))) (s_next (s_step (m_sim m) acts)).
  Proof. intros Hn H. apply (dyn_step_out _ _ _ _ Hn H). Qed.

  Theorem dyn_reset_reports_nominated m :
    exists obs m', dyn_reset Sim m = (RObs obs, m') /\
                   map fst obs = s_next (s_reset (m_sim m)) /\ m_done m' = [] /\
                   greach (s_reset (m_sim m)) (m_sim m').
  Proof.
    unfold dyn_reset. set (s1 := s_reset (m_sim m)).
    pose proof (thread_keys s_obs s1 (s_next s1)) as K.
    pose proof (thread_obs_greach Sim s1 (s_next s1)) as G.
    destruct (thread s_obs s1 (s_next s1)) as [obs s2]. cbn [fst snd] in *.
    exists obs. eexists. split; [reflexivity|]. cbn. repeat split; assumption.
  Qed.

  (* progress under the hypothesis the manager's docstring puts on the simulation *)
  Theorem dyn_progress m acts o m' :
    done_stable -> nom_ok (s_step (m_sim m) acts) -> dyn_step Sim m acts = (ROut o, m') ->
    o_all o = false ->
    (exists a, In a (s_next (s_step (m_sim m) acts)) /\ ~ In a (m_done m) /\
               s_done (s_step (m_sim m) acts) a = false) ->
    exists a, In (a, false) (o_done o) /\ ~ In a (m_done m').
  Proof.
    intros St0 Hn H Ho (a & Ha & Hnd & Hd). destruct (dyn_step_out _ _ _ _ Hn H) as (_ & SB & _ & K).
    assert (Ea : s_all (s_step (m_sim m) acts) = false).
    { destruct SB as [? Eo ? ? ? ? ?|ks E _]; [congruence|exact E]. }
    exists a. apply (sb_progress_entry _ _ _ _ _ a St0 SB Ho); [|exact Hd].
    rewrite (K Ea). apply filter_In. split; [exact Ha|]. apply negb_true_iff, memb_false_In, Hnd.
  Qed.

  (* ================= histories ================= *)
  (* Fresh: no reset yet; Live: an episode is in progress; Ended: __all__ was reported *)
  Inductive phase := Fresh | Live | Ended.

  Definition next_phase (ph : phase) (r : resp Obs Info) : phase :=
    match r with
    | RObs _ => Live
    | ROut o => if o_all o then Ended else Live
    | _ => ph
    end.

  Record tentry := { te_pre : mstate St; te_ph : phase; te_call : call Act;
                     te_resp : resp Obs Info; te_post : mstate St }.

  Fixpoint trace (k : mgr) (m : mstate St) (ph : phase) (cs : list (call Act)) : list tentry :=
    match cs with
    | [] => []
    | c :: cs' =>
        let (r, m1) := do_call Sim k m c in
        {| te_pre := m; te_ph := ph; te_call := c; te_resp := r; te_post := m1 |}
          :: trace k m1 (next_phase ph r) cs'
    end.

  Lemma trace_run k cs : forall m ph, map te_resp (trace k m ph cs) = fst (run Sim k m cs).
  Proof.
    induction cs as [|c cs IH]; intros m ph; [reflexivity|]. simpl.
    destruct (do_call Sim k m c) as [r m1]. specialize (IH m1 (next_phase ph r)).
    destruct (run Sim k m1 cs) as [rs m2]. simpl in *. rewrite IH. reflexivity.
  Qed.

  (* the caller keeps the protocol: steps only while an episode is in progress *)
  Definition in_protocol (t : list tentry) : Prop :=
    forall e, In e t -> match te_call e with CStep _ _ => te_ph e = Live | CReset => True end.

  Definition hinv (k : mgr) (ph : phase) (m : mstate St) : Prop :=
    match k with
    | MAll => ph <> Fresh -> incl nonlearning (m_done m)
    | MTurn => (L <> 0 -> m_ptr m < L) /\ (ph <> Fresh -> incl nonlearning (m_done m)) /\
               (ph = Live -> exists a, In a order /\ ~ In a (m_done m))
    | MDyn => ph = Live -> all_in (m_done m) = false
    | MTurnPrefix => True
    end.

  (* what is assumed of the simulation *)
  Definition sim_ok (k : mgr) : Prop :=
    match k with
    | MDyn => n <> 0 /\ forall s, nom_ok s
    | MTurnPrefix => False
    | _ => True
    end.

  Definition stable_ok (k : mgr) : Prop := match k with MAll => True | _ => done_stable end.

  Lemma hinv_tinv m : hinv MTurn Live m -> tinv m.
  Proof.
    intros (H1 & H2 & H3). destruct (H3 eq_refl) as (a & Ha & Hn).
    assert (HL : L <> 0) by (destruct order; [destruct Ha|discriminate]).
    split; [apply H1, HL|]. split; [apply H2; discriminate|]. exists a. tauto.
  Qed.

  Lemma hinv_init k s0 : hinv k Fresh (init s0).
  Proof.
    destruct k; cbn; try tauto; try discriminate.
    split; [lia|]. split; [tauto|discriminate].
  Qed.

  Lemma do_call_shape k m c r m' : k <> MTurnPrefix -> do_call Sim k m c = (r, m') ->
    match c, r with
    | CReset, RObs _ => True
    | CReset, RError => m' = m
    | CReset, _ => False
    | CStep _ _, ROut _ => True
    | CStep _ _, RObs _ => False
    | CStep _ _, _ => m' = m
    end.
  Proof.
    intros Hk H. destruct k; [| | |contradiction]; destruct c as [|acts sh]; cbn in H.
    - destruct (all_reset_reports_learning m) as (obs & m1 & E & _). rewrite E in H.
      injection H as <- <-. exact I.
    - unfold all_step in H. destruct (existsb _ acts).
      + injection H as <- <-. reflexivity.
      + destruct (thread _ _ _) as [obs s2]. destruct (thread _ s2 _) as [rew s3].
        injection H as <- <-. exact I.
    - destruct (turn_reset_first_turn m) as [(_ & E)|(a0 & rest & ob & m1 & _ & E & _)];
        rewrite E in H; injection H as <- <-; [reflexivity|exact I].
    - unfold turn_step, turn_step_gen in H. destruct acts as [|[a0 v0] acts'].
      + injection H as <- <-. reflexivity.
      + destruct (existsb _ _); [injection H as <- <-; reflexivity|].
        destruct (s_all _).
        * destruct (flush _ _ _ _ _) as [o s2]. injection H as <- <-. exact I.
        * destruct (turn_search _ _ _ _ _ _); injection H as <- <-; [exact I|reflexivity].
    - destruct (dyn_reset_reports_nominated m) as (obs & m1 & E & _). rewrite E in H.
      injection H as <- <-. exact I.
    - unfold dyn_step in H. destruct (existsb _ acts); [injection H as <- <-; reflexivity|].
      destruct (s_all _).
      + destruct (flush _ _ _ _ _) as [o s2]. injection H as <- <-. exact I.
      + destruct (dyn_loop _ _ _ _ _) as [[o s2] d]. injection H as <- <-. exact I.
  Qed.

  (* one accepted step of any of the three managers, during an episode *)
  Lemma step_summary k m acts sh o m' :
    sim_ok k -> hinv k Live m -> do_call Sim k m (CStep acts sh) = (ROut o, m') ->
    wfo o /\ NoDup (keys o) /\ (forall a, In a (keys o) -> ~ In a (m_done m)) /\
    ~ submits_done (m_done m) acts /\ incl (m_done m) (m_done m') /\
    greach (s_step (m_sim m) (match k with MAll => sh | _ => acts end)) (m_sim m') /\
    o_all o = s_all (match k with MAll => m_sim m' | _ => s_step (m_sim m) acts end)
              || all_in (m_done m') /\
    (stable_ok k -> o_all o = false -> forall a, In (a, true) (o_done o) -> In a (m_done m')).
  Proof.
    intros Hs Hi H. destruct k; cbn in H; [| | |destruct Hs].
    - pose proof (all_bookkeeping _ _ _ _ _ H) as (Bi & Bb).
      destruct (all_step_out _ _ _ _ _ H) as (N & K & W & G & D & Al & Dn).
      split; [exact W|]. split; [rewrite K; apply NoDup_live|].
      split; [intros a Ha; rewrite K in Ha; apply live_In in Ha; tauto|].
      split; [exact N|]. split; [exact Bi|]. split; [exact G|]. split; [exact Al|].
      intros _ _ a. apply Bb.
    - apply hinv_tinv in Hi. destruct (turn_step_out _ _ _ _ Hi H) as (_ & N & SB & _).
      split; [eapply sb_wfo, SB|]. split; [eapply sb_nodup, SB|]. split; [eapply sb_fresh, SB|].
      split; [exact N|]. split; [eapply sb_incl, SB|]. split; [eapply sb_greach, SB|].
      split; [apply (sb_all_flag _ _ _ _ _ (tinv_not_all m Hi) SB)|].
      intros St0 Ho a. assert (Ea : s_all (s_step (m_sim m) acts) = false).
      { destruct SB as [? Eo ? ? ? ? ?|ks E _]; [congruence|exact E]. }
      apply (sb_book _ _ _ _ _ St0 SB Ea a).
    - destruct Hs as (Hn & Hnom). cbn in Hi. specialize (Hi eq_refl).
      destruct (dyn_step_out _ _ _ _ (Hnom _) H) as (N & SB & _).
      split; [eapply sb_wfo, SB|]. split; [eapply sb_nodup, SB|]. split; [eapply sb_fresh, SB|].
      split; [exact N|]. split; [eapply sb_incl, SB|]. split; [eapply sb_greach, SB|].
      split; [apply (sb_all_flag _ _ _ _ _ Hi SB)|].
      intros St0 Ho a. assert (Ea : s_all (s_step (m_sim m) acts) = false).
      { destruct SB as [? Eo ? ? ? ? ?|ks E _]; [congruence|exact E]. }
      apply (sb_book _ _ _ _ _ St0 SB Ea a).
  Qed.

  Lemma hinv_step k ph m c r m' :
    sim_ok k -> hinv k ph m ->
    match c with CStep _ _ => ph = Live | CReset => True end ->
    do_call Sim k m c = (r, m') -> hinv k (next_phase ph r) m'.
  Proof.
    intros Hs Hi Hc H.
    assert (Hk : k <> MTurnPrefix) by (intros ->; exact Hs).
    pose proof (do_call_shape _ _ _ _ _ Hk H) as Sh.
    destruct c as [|acts sh].
    - (* reset *)
      destruct r; try contradiction; [|subst m'; exact Hi].
      destruct k; cbn in H; [| | |contradiction]; cbn.
      + destruct (all_reset_reports_learning m) as (obs1 & m1 & E & _ & D & _). rewrite E in H.
        injection H as <- <-. intros _. rewrite D. apply incl_refl.
      + destruct (turn_reset_first_turn m) as [(_ & E)|(a0 & rest & ob & m1 & Eo & E & P & D & _)];
          rewrite E in H; [discriminate|]. injection H as <- <-.
        assert (HL : L <> 0) by (rewrite Eo; discriminate).
        split; [intros _; rewrite P; apply Nat.mod_upper_bound, HL|].
        split; [intros _; rewrite D; apply incl_refl|]. intros _. exists a0.
        assert (Ha : In a0 order) by (rewrite Eo; left; reflexivity).
        split; [exact Ha|]. rewrite D. intros C. apply nonlearning_In in C.
        apply order_In_iff in Ha. destruct C, Ha. congruence.
      + destruct (dyn_reset_reports_nominated m) as (obs1 & m1 & E & _ & D & _). rewrite E in H.
        injection H as <- <-. intros _. rewrite D. apply all_in_false. exists 0.
        split; [apply agents_In; destruct Hs; lia|intros []].
    - (* step *)
      subst ph. destruct r; try contradiction; try (subst m'; exact Hi).
      destruct (step_summary _ _ _ _ _ _ Hs Hi H) as (_ & _ & _ & _ & Inc & _ & Al & _).
      cbn [next_phase]. destruct k; cbn in *; [| | |contradiction].
      + intros _. eapply incl_tran; [apply Hi; discriminate|exact Inc].
      + destruct Hi as (H1 & H2 & H3).
        assert (Ht : tinv m) by (apply hinv_tinv; cbn; tauto).
        destruct (turn_step_out _ _ _ _ Ht H) as (_ & _ & _ & Hp).
        split; [intros _; exact Hp|].
        assert (Hnl : incl nonlearning (m_done m'))
          by (eapply incl_tran; [apply H2; discriminate|exact Inc]).
        split; [intros _; exact Hnl|].
        destruct (o_all o) eqn:Eo; [discriminate|]. intros _.
        symmetry in Al. apply orb_false_iff in Al as [_ Al].
        apply all_in_false in Al as (a & Ha & Hn). exists a. split; [|exact Hn].
        apply (live_is_learning _ _ Hnl Ha Hn).
      + destruct (o_all o) eqn:Eo; [discriminate|]. intros _.
        symmetry in Al. apply orb_false_iff in Al as [_ Al]. exact Al.
  Qed.

  (* a successful reset establishes the invariant whatever the state before *)
  Lemma hinv_after_reset k m obs m' :
    sim_ok k -> do_call Sim k m CReset = (RObs obs, m') -> hinv k Live m'.
  Proof.
    intros Hs H. destruct k; cbn in H; [| | |contradiction]; cbn.
    - destruct (all_reset_reports_learning m) as (obs1 & m1 & E & _ & D & _). rewrite E in H.
      injection H as <- <-. intros _. rewrite D. apply incl_refl.
    - destruct (turn_reset_first_turn m) as [(_ & E)|(a0 & rest & ob & m1 & Eo & E & P & D & _)];
        rewrite E in H; [discriminate|]. injection H as <- <-.
      assert (HL : L <> 0) by (rewrite Eo; discriminate).
      split; [intros _; rewrite P; apply Nat.mod_upper_bound, HL|].
      split; [intros _; rewrite D; apply incl_refl|]. intros _. exists a0.
      assert (Ha : In a0 order) by (rewrite Eo; left; reflexivity).
      split; [exact Ha|]. rewrite D. intros C. apply nonlearning_In in C.
      apply order_In_iff in Ha. destruct C, Ha. congruence.
    - destruct (dyn_reset_reports_nominated m) as (obs1 & m1 & E & _ & D & _). rewrite E in H.
      injection H as <- <-. intros _. rewrite D. apply all_in_false. exists 0.
      split; [apply agents_In; destruct Hs; lia|intros []].
  Qed.

  Lemma in_protocol_tail e t : in_protocol (e :: t) -> in_protocol t.
  Proof. intros H x Hx. apply H. right. exact Hx. Qed.

  (* every state reached by an in-protocol history satisfies the invariant, before and after
     every call, and every entry of the trace is a call of the manager made in such a state *)
  Lemma trace_inv k : sim_ok k -> forall cs m ph,
    hinv k ph m -> in_protocol (trace k m ph cs) ->
    forall e, In e (trace k m ph cs) ->
      hinv k (te_ph e) (te_pre e) /\
      do_call Sim k (te_pre e) (te_call e) = (te_resp e, te_post e) /\
      hinv k (next_phase (te_ph e) (te_resp e)) (te_post e).
  Proof.
    intros Hs. induction cs as [|c cs IH]; intros m ph Hi Hp e He; [destruct He|].
    simpl in *. destruct (do_call Sim k m c) as [r m1] eqn:E.
    assert (Hi1 : hinv k (next_phase ph r) m1).
    { apply (hinv_step k ph m c r m1 Hs Hi); [|exact E].
      specialize (Hp _ (or_introl eq_refl)). cbn in Hp. destruct c; [exact I|exact Hp]. }
    destruct He as [<-|He]; cbn; [tauto|].
    apply (IH m1 (next_phase ph r) Hi1 (in_protocol_tail _ _ Hp) e He).
  Qed.

  (* the agents reported with done = true since the last reset *)
  Fixpoint ep_dones (t : list tentry) (acc : list nat) : list nat :=
    match t with
    | [] => acc
    | e :: t' =>
        match te_resp e with
        | RObs _ => ep_dones t' []
        | ROut o => ep_dones t' (acc ++ map fst (filter snd (o_done o)))
        | _ => ep_dones t' acc
        end
    end.

  Lemma ep_dones_nodup k : sim_ok k -> stable_ok k -> forall cs m ph acc,
    hinv k ph m -> in_protocol (trace k m ph cs) ->
    NoDup acc -> (ph = Live -> incl acc (m_done m)) ->
    NoDup (ep_dones (trace k m ph cs) acc).
  Proof.
    intros Hs Hst. assert (Hk : k <> MTurnPrefix) by (intros ->; exact Hs).
    induction cs as [|c cs IH]; intros m ph acc Hi Hp Hnd Hacc; [exact Hnd|].
    simpl in *. destruct (do_call Sim k m c) as [r m1] eqn:E.
    assert (Hc : match c with CStep _ _ => ph = Live | CReset => True end).
    { specialize (Hp _ (or_introl eq_refl)). cbn in Hp. destruct c; [exact I|exact Hp]. }
    pose proof (hinv_step k ph m c r m1 Hs Hi Hc E) as Hi1.
    pose proof (in_protocol_tail _ _ Hp) as Hp1.
    pose proof (do_call_shape _ _ _ _ _ Hk E) as Sh.
    cbn [te_resp]. destruct r as [obs|o| | |].
    - apply (IH _ _ _ Hi1 Hp1); [constructor|intros _ x []].
    - destruct c as [|acts sh]; [contradiction|]. subst ph.
      destruct (step_summary _ _ _ _ _ _ Hs Hi E) as (W & ND & Fr & _ & Inc & _ & _ & Bk).
      destruct W as (_ & W & _).
      apply (IH _ _ _ Hi1 Hp1).
      + (* no agent twice *)
        specialize (Hacc eq_refl). apply NoDup_app_intro; [exact Hnd| |].
        * apply NoDup_map_filter. rewrite W. exact ND.
        * intros a Ha C. apply done_true_keys in Ha. apply (Fr a); [|apply Hacc, C].
          rewrite <- W. apply in_map_iff. exists (a, true). tauto.
      + cbn [next_phase]. destruct (o_all o) eqn:Eo; [discriminate|]. intros _ a Ha.
        apply in_app_or in Ha as [Ha|Ha]; [apply Inc, Hacc, Ha; reflexivity|].
        apply (Bk Hst eq_refl). apply done_true_keys, Ha.
    - destruct c; [contradiction|]. subst m1. apply (IH _ _ _ Hi1 Hp1 Hnd Hacc).
    - assert (m1 = m) by (destruct c; exact Sh). subst m1. apply (IH _ _ _ Hi1 Hp1 Hnd Hacc).
    - destruct c; [contradiction|]. subst m1. apply (IH _ _ _ Hi1 Hp1 Hnd Hacc).
  Qed.

  (* ---------------- from the initial state ---------------- *)
  Theorem hist_inv k s0 cs : sim_ok k -> in_protocol (trace k (init s0) Fresh cs) ->
    forall e, In e (trace k (init s0) Fresh cs) ->
      hinv k (te_ph e) (te_pre e) /\
      do_call Sim k (te_pre e) (te_call e) = (te_resp e, te_post e) /\
      hinv k (next_phase (te_ph e) (te_resp e)) (te_post e).
  Proof. intros Hs. apply (trace_inv k Hs), hinv_init. Qed.

  Theorem hist_steps_ok k s0 cs : sim_ok k -> in_protocol (trace k (init s0) Fresh cs) ->
    forall e acts sh, In e (trace k (init s0) Fresh cs) -> te_call e = CStep acts sh ->
      match te_resp e with
      | ROut o =>
          wfo o /\ NoDup (keys o) /\ (forall a, In a (keys o) -> ~ In a (m_done (te_pre e))) /\
          ~ submits_done (m_done (te_pre e)) acts /\ incl (m_done (te_pre e)) (m_done (te_post e)) /\
          greach (s_step (m_sim (te_pre e)) (match k with MAll => sh | _ => acts end))
                 (m_sim (te_post e)) /\
          o_all o = s_all (match k with MAll => m_sim (te_post e)
                                   | _ => s_step (m_sim (te_pre e)) acts end)
                    || all_in (m_done (te_post e)) /\
          (stable_ok k -> o_all o = false ->
           forall a, In (a, true) (o_done o) -> In a (m_done (te_post e)))
      | RObs _ => False
      | _ => te_post e = te_pre e
      end.
  Proof.
    intros Hs Hp e acts sh He Hc.
    assert (Hk : k <> MTurnPrefix) by (intros ->; exact Hs).
    destruct (hist_inv k s0 cs Hs Hp e He) as (Hi & E & _).
    pose proof (Hp e He) as Hl. rewrite Hc in Hl, E.
    pose proof (do_call_shape _ _ _ _ _ Hk E) as Sh.
    destruct (te_resp e) as [obs|o| | |]; try exact Sh.
    rewrite Hl in Hi. apply (step_summary k _ acts sh o _ Hs Hi E).
  Qed.

  Theorem done_at_most_once k s0 cs : sim_ok k -> stable_ok k ->
    in_protocol (trace k (init s0) Fresh cs) ->
    NoDup (ep_dones (trace k (init s0) Fresh cs) []).
  Proof.
    intros Hs Hst Hp. apply (ep_dones_nodup k Hs Hst cs _ _ [] (hinv_init k s0) Hp).
    - constructor.
    - discriminate.
  Qed.

  (* ---------------- facts that need no invariant ---------------- *)
  Lemma turn_search_greach fuel : forall s d p o o' s' d' p',
    turn_search Sim fuel s d p o = SOk o' s' d' p' -> greach s s'.
  Proof.
    induction fuel as [|f IH]; intros s d p o o' s' d' p' H; [discriminate|]. simpl in H.
    destruct (memb _ d); [apply (IH _ _ _ _ _ _ _ _ H)|].
    destruct (add_report_spec Sim s (nth p order 0) o) as (_ & _ & _ & G & _).
    destruct (add_report Sim s (nth p order 0) o) as [o1 s1]. cbn [fst snd] in *.
    destruct (s_done s _); [destruct (all_in _)|].
    - injection H as <- <- <- <-. exact G.
    - eapply greach_trans; [exact G|apply (IH _ _ _ _ _ _ _ _ H)].
    - injection H as <- <- <- <-. exact G.
  Qed.

  Lemma dyn_loop_greach l : forall s d o o' s' d',
    dyn_loop Sim s d l o = (o', s', d') -> greach s s'.
  Proof.
    induction l as [|a l IH]; intros s d o o' s' d' H; simpl in H.
    - injection H as <- <- <-. constructor.
    - destruct (memb a d); [apply (IH _ _ _ _ _ _ H)|].
      destruct (add_report_spec Sim s a o) as (_ & _ & _ & G & _).
      destruct (add_report Sim s a o) as [o1 s1]. cbn [fst snd] in *.
      destruct (s_done s a); [destruct (all_in _)|].
      + injection H as <- <- <-. exact G.
      + eapply greach_trans; [exact G|apply (IH _ _ _ _ _ _ H)].
      + eapply greach_trans; [exact G|apply (IH _ _ _ _ _ _ H)].
  Qed.

  (* whatever the state: a call leaves the simulation alone, or resets it once, or steps it
     once; after that only getters run *)
  Lemma do_call_sim_reach k m c r m' : do_call Sim k m c = (r, m') ->
    m_sim m' = m_sim m \/ greach (s_reset (m_sim m)) (m_sim m') \/
    exists l, greach (s_step (m_sim m) l) (m_sim m').
  Proof.
    assert (Hturn : forall b acts, turn_step_gen Sim b m acts = (r, m') ->
              m_sim m' = m_sim m \/ exists l, greach (s_step (m_sim m) l) (m_sim m')).
    { intros b acts H. unfold turn_step_gen in H. destruct acts as [|[a0 v0] acts'].
      - injection H as <- <-. left. reflexivity.
      - destruct (if b then _ else _); [injection H as <- <-; left; reflexivity|].
        destruct (s_all _).
        + destruct (flush _ _ _ _ _) as [o s2] eqn:Ef.
          destruct (flush_branch _ _ _ _ Ef) as (_ & _ & _ & G).
          injection H as <- <-. right. eexists. exact G.
        + destruct (turn_search _ _ _ _ _ _) as [o s2 d p|] eqn:Es; injection H as <- <-.
          * right. eexists. apply (turn_search_greach _ _ _ _ _ _ _ _ _ Es).
          * left. reflexivity. }
    assert (Hreset : forall b : bool, (if b then turn_reset Sim m else turn_reset_prefix Sim m) = (r, m') ->
              m_sim m' = m_sim m \/ greach (s_reset (m_sim m)) (m_sim m')).
    { intros b H. unfold turn_reset, turn_reset_prefix in H. destruct order as [|a0 rest].
      - destruct b; injection H as <- <-; left; reflexivity.
      - destruct b.
        + destruct (s_obs _ _) as [ob s2] eqn:E. injection H as <- <-. right.
          eapply gr_obs. rewrite E. constructor.
        + destruct (s_obs _ _) as [ob s2] eqn:E. injection H as <- <-. right.
          eapply gr_obs. rewrite E. constructor. }
    intros H. destruct k; destruct c as [|acts sh]; cbn in H.
    - destruct (all_reset_reports_learning m) as (obs & m1 & E & _ & _ & _ & G). rewrite E in H.
      injection H as <- <-. right. left. exact G.
    - destruct (existsb (fun kv => memb (fst kv) (m_done m)) acts) eqn:E.
      + rewrite (all_step_reject Sim m acts sh E) in H. injection H as <- <-. left. reflexivity.
      + destruct (all_step_accept Sim m acts sh E) as (o1 & m1 & E1 & _ & _ & G & _).
        rewrite E1 in H. injection H as <- <-. right. right. eexists. exact G.
    - destruct (Hreset true H) as [A|A]; tauto.
    - destruct (Hturn true acts H) as [A|A]; tauto.
    - destruct (dyn_reset_reports_nominated m) as (obs & m1 & E & _ & _ & G). rewrite E in H.
      injection H as <- <-. right. left. exact G.
    - unfold dyn_step in H. destruct (existsb _ acts); [injection H as <- <-; left; reflexivity|].
      destruct (s_all _).
      + destruct (flush _ _ _ _ _) as [o s2] eqn:Ef.
        destruct (flush_branch _ _ _ _ Ef) as (_ & _ & _ & G).
        injection H as <- <-. right. right. eexists. exact G.
      + destruct (dyn_loop _ _ _ _ _) as [[o s2] d] eqn:Ed. injection H as <- <-.
        right. right. eexists. apply (dyn_loop_greach _ _ _ _ _ _ _ Ed).
    - destruct (Hreset false H) as [A|A]; tauto.
    - destruct (Hturn false acts H) as [A|A]; tauto.
  Qed.

  Lemma sb_keys_agents pool m s1 o m' :
    step_branch pool m s1 o m' -> incl pool agents -> forall a, In a (keys o) -> In a agents.
  Proof.
    intros [? ? K ? ? ? ?|ks ? SP] Hin a Ha.
    - rewrite K in Ha. apply live_In in Ha. tauto.
    - rewrite (sb_keys_search _ _ _ _ _ _ _ SP) in Ha.
      apply Hin, (sp_fresh _ _ _ _ _ _ _ _ _ SP), Ha.
  Qed.

  Lemma step_keys_agents k m acts sh o m' :
    sim_ok k -> hinv k Live m -> do_call Sim k m (CStep acts sh) = (ROut o, m') ->
    forall a, In a (keys o) -> In a agents.
  Proof.
    intros Hs Hi H. destruct k; cbn in H; [| | |destruct Hs].
    - destruct (all_step_out _ _ _ _ _ H) as (_ & K & _). intros a Ha. rewrite K in Ha.
      apply live_In in Ha. tauto.
    - apply hinv_tinv in Hi. destruct (turn_step_out _ _ _ _ Hi H) as (_ & _ & SB & _).
      apply (sb_keys_agents _ _ _ _ _ SB). intros a. apply order_In.
    - destruct Hs as (Hn & Hnom). destruct (dyn_step_out _ _ _ _ (Hnom _) H) as (_ & SB & _).
      apply (sb_keys_agents _ _ _ _ _ SB). apply Hnom.
  Qed.

  (* progress, for whichever manager *)
  Lemma step_progress k m acts sh o m' :
    sim_ok k -> stable_ok k -> hinv k Live m -> do_call Sim k m (CStep acts sh) = (ROut o, m') ->
    o_all o = false ->
    (k = MDyn -> exists a, In a (s_next (s_step (m_sim m) acts)) /\ ~ In a (m_done m) /\
                           s_done (s_step (m_sim m) acts) a = false) ->
    exists a, In (a, false) (o_done o) /\ ~ In a (m_done m').
  Proof.
    intros Hs Hst Hi H Ho Hd. destruct k; cbn in H; [| | |destruct Hs].
    - apply (all_progress _ _ _ _ _ H Ho).
    - apply (turn_progress _ _ _ _ Hst (hinv_tinv _ Hi) H Ho).
    - destruct Hs as (Hn & Hnom). apply (dyn_progress _ _ _ _ Hst (Hnom _) H Ho (Hd eq_refl)).
  Qed.

  (* executable mirrors of the hypotheses, for the non-vacuity examples *)
  Definition in_protocolb (t : list tentry) : bool :=
    forallb (fun e => match te_call e with
                      | CStep _ _ => match te_ph e with Live => true | _ => false end
                      | CReset => true
                      end) t.

  Lemma in_protocolb_ok t : in_protocolb t = true -> in_protocol t.
  Proof.
    unfold in_protocolb. rewrite forallb_forall. intros H e He. specialize (H e He).
    destruct (te_call e); [exact I|]. destruct (te_ph e); [discriminate|reflexivity|discriminate].
  Qed.

  Definition tinvb (m : mstate St) : bool :=
    (m_ptr m <? L) && forallb (fun a => memb a (m_done m)) nonlearning
    && existsb (fun a => negb (memb a (m_done m))) order.

  Lemma tinvb_ok m : tinvb m = true -> tinv m.
  Proof.
    unfold tinvb. rewrite !andb_true_iff, Nat.ltb_lt, forallb_forall, existsb_exists.
    intros ((H1 & H2) & (a & Ha & Hn)). split; [exact H1|]. split.
    - intros x Hx. apply memb_In, H2, Hx.
    - exists a. split; [exact Ha|]. apply memb_false_In, negb_true_iff, Hn.
  Qed.
End H.

(* ---------------- the instances quoted by Props/P_C01.v and P_C07.v ---------------- *)
Section Inst.
  Context {St Obs Info Act : Type}.
  Variable Sim : simulation St Obs Info Act.

  Definition dyn_sim_ok : Prop :=
    sim_n Sim <> 0 /\ forall s, NoDup (sim_next Sim s) /\ incl (sim_next Sim s) (agents Sim).

  Lemma hist_inv_all s0 cs : in_protocol (trace Sim MAll (init s0) Fresh cs) ->
    forall e, In e (trace Sim MAll (init s0) Fresh cs) ->
      (te_ph e <> Fresh -> incl (nonlearning Sim) (m_done (te_pre e))) /\
      do_call Sim MAll (te_pre e) (te_call e) = (te_resp e, te_post e).
  Proof. intros Hp e He. destruct (hist_inv Sim MAll s0 cs I Hp e He) as (H1 & H2 & _). cbn in H1. tauto. Qed.

  Lemma hist_inv_turn s0 cs : in_protocol (trace Sim MTurn (init s0) Fresh cs) ->
    forall e, In e (trace Sim MTurn (init s0) Fresh cs) ->
      (length (order Sim) <> 0 -> m_ptr (te_pre e) < length (order Sim)) /\
      (te_ph e <> Fresh -> incl (nonlearning Sim) (m_done (te_pre e))) /\
      (te_ph e = Live -> tinv Sim (te_pre e)) /\
      do_call Sim MTurn (te_pre e) (te_call e) = (te_resp e, te_post e).
  Proof.
    intros Hp e He. destruct (hist_inv Sim MTurn s0 cs I Hp e He) as (H1 & H2 & _).
    pose proof H1 as (A & B & C). split; [exact A|]. split; [exact B|]. split; [|exact H2].
    intros El. rewrite El in H1. apply hinv_tinv, H1.
  Qed.

  Lemma hist_inv_dyn s0 cs : dyn_sim_ok -> in_protocol (trace Sim MDyn (init s0) Fresh cs) ->
    forall e, In e (trace Sim MDyn (init s0) Fresh cs) ->
      (te_ph e = Live -> all_in Sim (m_done (te_pre e)) = false) /\
      do_call Sim MDyn (te_pre e) (te_call e) = (te_resp e, te_post e).
  Proof. intros Hs Hp e He. destruct (hist_inv Sim MDyn s0 cs Hs Hp e He) as (H1 & H2 & _). cbn in H1. tauto. Qed.

  Lemma once_all s0 cs : in_protocol (trace Sim MAll (init s0) Fresh cs) ->
    NoDup (ep_dones (trace Sim MAll (init s0) Fresh cs) []).
  Proof. apply (done_at_most_once Sim MAll s0 cs I I). Qed.

  Lemma once_turn s0 cs : done_stable Sim -> in_protocol (trace Sim MTurn (init s0) Fresh cs) ->
    NoDup (ep_dones (trace Sim MTurn (init s0) Fresh cs) []).
  Proof. intros H. apply (done_at_most_once Sim MTurn s0 cs I H). Qed.

  Lemma once_dyn s0 cs : dyn_sim_ok -> done_stable Sim ->
    in_protocol (trace Sim MDyn (init s0) Fresh cs) ->
    NoDup (ep_dones (trace Sim MDyn (init s0) Fresh cs) []).
  Proof. intros Hs H. apply (done_at_most_once Sim MDyn s0 cs Hs H). Qed.

  Lemma steps_ok_all s0 cs : in_protocol (trace Sim MAll (init s0) Fresh cs) ->
    forall e acts sh, In e (trace Sim MAll (init s0) Fresh cs) -> te_call e = CStep acts sh ->
      match te_resp e with
      | ROut o =>
          wfo o /\ NoDup (keys o) /\ (forall a, In a (keys o) -> ~ In a (m_done (te_pre e))) /\
          ~ submits_done (m_done (te_pre e)) acts /\ incl (m_done (te_pre e)) (m_done (te_post e)) /\
          greach Sim (sim_step Sim (m_sim (te_pre e)) sh) (m_sim (te_post e)) /\
          o_all o = sim_all Sim (m_sim (te_post e)) || all_in Sim (m_done (te_post e)) /\
          (o_all o = false -> forall a, In (a, true) (o_done o) -> In a (m_done (te_post e)))
      | RObs _ => False
      | _ => te_post e = te_pre e
      end.
  Proof.
    intros Hp e acts sh He Hc. pose proof (hist_steps_ok Sim MAll s0 cs I Hp e acts sh He Hc) as H.
    destruct (te_resp e); try exact H. cbn in H. intuition.
  Qed.

  Lemma steps_ok_turn s0 cs : in_protocol (trace Sim MTurn (init s0) Fresh cs) ->
    forall e acts sh, In e (trace Sim MTurn (init s0) Fresh cs) -> te_call e = CStep acts sh ->
      match te_resp e with
      | ROut o =>
          wfo o /\ NoDup (keys o) /\ (forall a, In a (keys o) -> ~ In a (m_done (te_pre e))) /\
          ~ submits_done (m_done (te_pre e)) acts /\ incl (m_done (te_pre e)) (m_done (te_post e)) /\
          greach Sim (sim_step Sim (m_sim (te_pre e)) acts) (m_sim (te_post e)) /\
          o_all o = sim_all Sim (sim_step Sim (m_sim (te_pre e)) acts)
                    || all_in Sim (m_done (te_post e)) /\
          (done_stable Sim -> o_all o = false ->
           forall a, In (a, true) (o_done o) -> In a (m_done (te_post e)))
      | RObs _ => False
      | _ => te_post e = te_pre e
      end.
  Proof.
    intros Hp e acts sh He Hc. exact (hist_steps_ok Sim MTurn s0 cs I Hp e acts sh He Hc).
  Qed.

  Lemma steps_ok_dyn s0 cs : dyn_sim_ok -> in_protocol (trace Sim MDyn (init s0) Fresh cs) ->
    forall e acts sh, In e (trace Sim MDyn (init s0) Fresh cs) -> te_call e = CStep acts sh ->
      match te_resp e with
      | ROut o =>
          wfo o /\ NoDup (keys o) /\ (forall a, In a (keys o) -> ~ In a (m_done (te_pre e))) /\
          ~ submits_done (m_done (te_pre e)) acts /\ incl (m_done (te_pre e)) (m_done (te_post e)) /\
          greach Sim (sim_step Sim (m_sim (te_pre e)) acts) (m_sim (te_post e)) /\
          o_all o = sim_all Sim (sim_step Sim (m_sim (te_pre e)) acts)
                    || all_in Sim (m_done (te_post e)) /\
          (done_stable Sim -> o_all o = false ->
           forall a, In (a, true) (o_done o) -> In a (m_done (te_post e)))
      | RObs _ => False
      | _ => te_post e = te_pre e
      end.
  Proof.
    intros Hs Hp e acts sh He Hc. exact (hist_steps_ok Sim MDyn s0 cs Hs Hp e acts sh He Hc).
  Qed.
End Inst.
