(* Proofs about Grid/Maze.v : generate_maze terminates within its fuel, returns a rows x cols
   0/1 grid in which every passage is 4-connected to the start cell, for every size, start and
   choice sequence; the breadth-first checker maze_connected_b is sound and complete. *)
From Coq Require Import ZArith List Bool Lia Arith.
From Abm Require Import Grid.Maze.
Import ListNotations.
Open Scope Z_scope.

(* 4-connectedness through passages of a finished maze m, from s *)
Inductive conn (m : mgrid) (s : cell) : cell -> Prop :=
| conn_start : gget m s = 0 -> conn m s s
| conn_step : forall p q, conn m s p -> In q (nbrs p) -> gget m q = 0 -> conn m s q.

(* ------------------------------------------------------------------------------------ *)
(* 1. lists, cells, grids                                                                 *)

Lemma lset_length : forall T (l : list T) n v, length (lset l n v) = length l.
Proof.
  intros T l; induction l as [|x t IH]; intros n v; destruct n; simpl; auto.
Qed.

Lemma lset_nth_same : forall T (l : list T) n v d,
  (n < length l)%nat -> nth n (lset l n v) d = v.
Proof.
  intros T l; induction l as [|x t IH]; intros n v d Hn; simpl in Hn.
  - lia.
  - destruct n; simpl; auto. apply IH. lia.
Qed.

Lemma lset_nth_other : forall T (l : list T) n m v d,
  n <> m -> nth m (lset l n v) d = nth m l d.
Proof.
  intros T l; induction l as [|x t IH]; intros n m v d Hn.
  - destruct n; reflexivity.
  - destruct n; destruct m; simpl; auto; try congruence.
Qed.

Lemma lset_Forall : forall T (P : T -> Prop) (l : list T) n v,
  Forall P l -> ((n < length l)%nat -> P v) -> Forall P (lset l n v).
Proof.
  intros T P l; induction l as [|x t IH]; intros n v HF Hv.
  - destruct n; constructor.
  - inversion HF as [|x' t' Hx Ht]; subst. destruct n; simpl.
    + constructor; auto. apply Hv. simpl. lia.
    + constructor; auto. apply IH; auto. intros Hlt. apply Hv. simpl. lia.
Qed.

Lemma cell_eqb_eq : forall a b : cell, cell_eqb a b = true <-> a = b.
Proof.
  intros [a1 a2] [b1 b2]. unfold cell_eqb. simpl. split.
  - intros H. apply andb_true_iff in H. destruct H as [H1 H2].
    apply Z.eqb_eq in H1. apply Z.eqb_eq in H2. subst. reflexivity.
  - intros H. inversion H. subst. rewrite !Z.eqb_refl. reflexivity.
Qed.

Lemma cell_eqb_refl : forall a, cell_eqb a a = true.
Proof. intros a. apply cell_eqb_eq. reflexivity. Qed.

Lemma cmem_In : forall c l, cmem c l = true <-> In c l.
Proof.
  intros c l. unfold cmem. rewrite existsb_exists. split.
  - intros [x [Hx He]]. apply cell_eqb_eq in He. subst. exact Hx.
  - intros H. exists c. split; auto. apply cell_eqb_refl.
Qed.

Lemma cmem_false : forall c l, cmem c l = false <-> ~ In c l.
Proof.
  intros c l. rewrite <- cmem_In. destruct (cmem c l); split; congruence.
Qed.

Definition gshape (R C : Z) (g : mgrid) : Prop :=
  Z.of_nat (length g) = R /\ Forall (fun row => Z.of_nat (length row) = C) g.

Definition inb (R C : Z) (c : cell) : Prop :=
  0 <= fst c < R /\ 0 <= snd c < C.

(* a value different from -1 can only be read inside the lists *)
Lemma gget_inr : forall g c, gget g c <> -1 ->
  0 <= fst c /\ 0 <= snd c /\ (Z.to_nat (fst c) < length g)%nat
  /\ (Z.to_nat (snd c) < length (nth (Z.to_nat (fst c)) g []))%nat.
Proof.
  intros g c H. unfold gget in H.
  destruct (fst c <? 0) eqn:E1; simpl in H; try congruence.
  destruct (snd c <? 0) eqn:E2; simpl in H; try congruence.
  apply Z.ltb_ge in E1. apply Z.ltb_ge in E2.
  assert (Hj : (Z.to_nat (snd c) < length (nth (Z.to_nat (fst c)) g []))%nat).
  { destruct (lt_dec (Z.to_nat (snd c)) (length (nth (Z.to_nat (fst c)) g []))) as [Hl|Hl]; auto.
    exfalso. apply H. apply nth_overflow. lia. }
  repeat split; auto.
  destruct (lt_dec (Z.to_nat (fst c)) (length g)) as [Hl|Hl]; auto.
  exfalso. rewrite (nth_overflow g) in Hj by lia. simpl in Hj. lia.
Qed.

Lemma gshape_row : forall R C g i, gshape R C g -> (i < length g)%nat ->
  Z.of_nat (length (nth i g [])) = C.
Proof.
  intros R C g i [_ HF] Hi. rewrite Forall_forall in HF. apply HF. apply nth_In. exact Hi.
Qed.

Lemma gget_inb : forall R C g c, gshape R C g -> gget g c <> -1 -> inb R C c.
Proof.
  intros R C g c Hs H. pose proof (gget_inr g c H) as [H1 [H2 [H3 H4]]].
  pose proof (gshape_row R C g _ Hs H3) as Hr. destruct Hs as [HR _].
  unfold inb. lia.
Qed.

Lemma gset_shape : forall R C g c v, gshape R C g -> gshape R C (gset g c v).
Proof.
  intros R C g c v Hs. pose proof Hs as [HR HF]. unfold gset. split.
  - rewrite lset_length. exact HR.
  - apply lset_Forall; auto. intros Hlt. rewrite lset_length.
    apply (gshape_row R C g); auto.
Qed.

Lemma gget_gset_same : forall R C g c v, gshape R C g -> inb R C c ->
  gget (gset g c v) c = v.
Proof.
  intros R C g c v Hs [[H1 H2] [H3 H4]]. pose proof Hs as [HR HF].
  unfold gget, gset.
  replace (fst c <? 0) with false by (symmetry; apply Z.ltb_ge; lia).
  replace (snd c <? 0) with false by (symmetry; apply Z.ltb_ge; lia).
  simpl. rewrite lset_nth_same by lia. apply lset_nth_same.
  assert (Hi : (Z.to_nat (fst c) < length g)%nat) by lia.
  pose proof (gshape_row R C g _ Hs Hi). lia.
Qed.

Lemma gget_gset_other : forall g c c' v, 0 <= fst c -> 0 <= snd c -> c <> c' ->
  gget (gset g c v) c' = gget g c'.
Proof.
  intros g [i j] [i' j'] v Hi Hj Hne. simpl in Hi, Hj. unfold gget, gset. simpl.
  destruct (i' <? 0) eqn:E1; simpl; auto.
  destruct (j' <? 0) eqn:E2; simpl; auto.
  apply Z.ltb_ge in E1. apply Z.ltb_ge in E2.
  destruct (Nat.eq_dec (Z.to_nat i) (Z.to_nat i')) as [Ei|Ei].
  - rewrite <- Ei.
    destruct (lt_dec (Z.to_nat i) (length g)) as [Hl|Hl].
    + rewrite lset_nth_same by exact Hl. apply lset_nth_other.
      intros Ej. apply Hne. f_equal; lia.
    + rewrite (nth_overflow (lset _ _ _)) by (rewrite lset_length; lia).
      rewrite (nth_overflow g) by lia. reflexivity.
  - rewrite lset_nth_other by exact Ei. reflexivity.
Qed.

Lemma nth_Forall_or : forall T (P : T -> Prop) l n d,
  Forall P l -> nth n l d = d \/ P (nth n l d).
Proof.
  intros T P l n d HF. destruct (nth_in_or_default n l d) as [H|H]; auto.
  right. rewrite Forall_forall in HF. apply HF. exact H.
Qed.

Lemma gget_Forall : forall (P : Z -> Prop) g c,
  Forall (Forall P) g -> gget g c = -1 \/ P (gget g c).
Proof.
  intros P g c HF. unfold gget.
  destruct ((fst c <? 0) || (snd c <? 0)); auto.
  destruct (nth_Forall_or _ (Forall P) g (Z.to_nat (fst c)) [] HF) as [H|H].
  - left. rewrite H. destruct (Z.to_nat (snd c)); reflexivity.
  - apply nth_Forall_or. exact H.
Qed.

Definition okval (v : Z) : Prop := v = 0 \/ v = 1 \/ v = 2.
Definition vals (g : mgrid) : Prop := Forall (Forall okval) g.

Lemma gset_vals : forall g c v, vals g -> okval v -> vals (gset g c v).
Proof.
  intros g c v Hv Ho. unfold gset, vals. apply lset_Forall; auto.
  intros _. apply lset_Forall; auto.
  destruct (nth_Forall_or _ (Forall okval) g (Z.to_nat (fst c)) [] Hv) as [H|H].
  - rewrite H. constructor.
  - exact H.
Qed.

(* ------------------------------------------------------------------------------------ *)
(* 2. termination                                                                         *)

Fixpoint lsum {T} (f : T -> nat) (l : list T) : nat :=
  match l with
  | [] => O
  | x :: t => (f x + lsum f t)%nat
  end.

Definition is2 (v : Z) : nat := if v =? 2 then 1%nat else 0%nat.
Definition cnt2 (row : list Z) : nat := lsum is2 row.
Definition count2 (g : mgrid) : nat := lsum cnt2 g.

Lemma lsum_lset : forall T (f : T -> nat) l n v d, (n < length l)%nat ->
  (lsum f (lset l n v) + f (nth n l d) = lsum f l + f v)%nat.
Proof.
  intros T f l; induction l as [|x t IH]; intros n v d Hn; simpl in Hn.
  - lia.
  - destruct n; simpl.
    + lia.
    + assert (Hn' : (n < length t)%nat) by lia.
      pose proof (IH n v d Hn'). lia.
Qed.

Lemma lsum_lset_le : forall T (f : T -> nat) l n v d,
  (f v <= f (nth n l d))%nat -> (lsum f (lset l n v) <= lsum f l)%nat.
Proof.
  intros T f l; induction l as [|x t IH]; intros n v d Hle.
  - destruct n; simpl; lia.
  - destruct n; simpl in *.
    + lia.
    + pose proof (IH n v d Hle). lia.
Qed.

Lemma count2_gset_le : forall g c v, v <> 2 -> (count2 (gset g c v) <= count2 g)%nat.
Proof.
  intros g c v Hv. unfold count2, gset. apply lsum_lset_le with (d := []).
  unfold cnt2. apply lsum_lset_le with (d := -1).
  unfold is2 at 1. destruct (v =? 2) eqn:E.
  - apply Z.eqb_eq in E. congruence.
  - lia.
Qed.

Lemma count2_gset_2 : forall g c v, gget g c = 2 -> v <> 2 ->
  (count2 (gset g c v) + 1 = count2 g)%nat.
Proof.
  intros g c v Hg Hv.
  assert (Hne : gget g c <> -1) by lia.
  destruct (gget_inr g c Hne) as [H1 [H2 [H3 H4]]].
  unfold gget in Hg.
  replace (fst c <? 0) with false in Hg by (symmetry; apply Z.ltb_ge; lia).
  replace (snd c <? 0) with false in Hg by (symmetry; apply Z.ltb_ge; lia).
  simpl in Hg.
  unfold count2, gset.
  pose proof (lsum_lset _ cnt2 g (Z.to_nat (fst c))
     (lset (nth (Z.to_nat (fst c)) g []) (Z.to_nat (snd c)) v) [] H3) as E1.
  pose proof (lsum_lset _ is2 (nth (Z.to_nat (fst c)) g []) (Z.to_nat (snd c)) v (-1) H4) as E2.
  fold (cnt2 (lset (nth (Z.to_nat (fst c)) g []) (Z.to_nat (snd c)) v)) in E2.
  fold (cnt2 (nth (Z.to_nat (fst c)) g [])) in E2.
  rewrite Hg in E2. unfold is2 in E2 at 1 2.
  replace (v =? 2) with false in E2 by (symmetry; apply Z.eqb_neq; exact Hv).
  simpl in E2. lia.
Qed.

Lemma unvisited_go_count : forall R C ns g,
  (count2 (snd (unvisited_go R C ns g)) + length (fst (unvisited_go R C ns g)) = count2 g)%nat.
Proof.
  intros R C ns; induction ns as [|n ns IH]; intros g; simpl.
  - lia.
  - destruct (on_border R C n); auto.
    destruct (gget g n =? 2) eqn:E; auto.
    apply Z.eqb_eq in E. simpl.
    pose proof (IH (gset g n 1)) as H1.
    pose proof (count2_gset_2 g n 1 E) as H2. lia.
Qed.

Lemma cdedup_In : forall c l, In c (cdedup l) <-> In c l.
Proof.
  intros c l; induction l as [|x t IH]; simpl.
  - tauto.
  - destruct (cmem x t) eqn:E.
    + rewrite IH. apply cmem_In in E. split; auto.
      intros [H|H]; subst; auto.
    + simpl. rewrite IH. tauto.
Qed.

Lemma cdedup_length : forall l, (length (cdedup l) <= length l)%nat.
Proof.
  intros l; induction l as [|x t IH]; simpl; auto.
  destruct (cmem x t); simpl; lia.
Qed.

Lemma cremove_length : forall c l, In c l -> (length (cremove c l) + 1 = length l)%nat.
Proof.
  intros c l; induction l as [|x t IH]; intros H; simpl in *.
  - contradiction.
  - destruct (cell_eqb c x) eqn:E.
    + lia.
    + destruct H as [H|H].
      * subst. rewrite cell_eqb_refl in E. discriminate.
      * simpl. pose proof (IH H). lia.
Qed.

Lemma cremove_In : forall c x l, In x (cremove c l) -> In x l.
Proof.
  intros c x l; induction l as [|y t IH]; simpl; auto.
  destruct (cell_eqb c y); simpl; intros H; auto.
  destruct H; auto.
Qed.

Lemma maze_loop_nil : forall fuel R C g ch,
  maze_loop fuel R C g [] ch = match ch with [] => MOk g | _ => MBad end.
Proof. intros fuel; destruct fuel; reflexivity. Qed.

Lemma maze_loop_0 : forall R C g walls ch, walls <> [] ->
  maze_loop 0 R C g walls ch = MFuel.
Proof. intros R C g walls ch H. destruct walls; [congruence | reflexivity]. Qed.

Lemma maze_loop_S : forall f R C g walls ch, walls <> [] ->
  maze_loop (S f) R C g walls ch =
  match ch with
  | [] => MBad
  | cur :: ch' =>
      if negb (cmem cur walls) then MBad
      else if xor_test g cur && (sum_free g cur <? 2) then
        maze_loop f R C (snd (unvisited_nbrs R C cur (gset g cur 0)))
          (cremove cur (cdedup (walls ++ fst (unvisited_nbrs R C cur (gset g cur 0))))) ch'
      else maze_loop f R C g (cremove cur walls) ch'
  end.
Proof. intros f R C g walls ch H. destruct walls; [congruence | reflexivity]. Qed.

Lemma maze_loop_fuel : forall fuel R C g walls ch,
  (length walls + count2 g <= fuel)%nat -> maze_loop fuel R C g walls ch <> MFuel.
Proof.
  intros fuel; induction fuel as [|f IH]; intros R C g walls ch Hle.
  - destruct walls as [|w ws]; simpl in Hle; try lia.
    rewrite maze_loop_nil. destruct ch; discriminate.
  - destruct walls as [|w ws].
    + rewrite maze_loop_nil. destruct ch; discriminate.
    + remember (w :: ws) as walls eqn:Hw.
      rewrite maze_loop_S by (subst; discriminate).
      destruct ch as [|cur ch']; try discriminate.
      destruct (cmem cur walls) eqn:Hm; simpl; try discriminate.
      apply cmem_In in Hm.
      destruct (xor_test g cur && (sum_free g cur <? 2)).
      * apply IH.
        assert (H0 : (0:Z) <> 2) by lia.
        pose proof (count2_gset_le g cur 0 H0) as H1.
        unfold unvisited_nbrs.
        pose proof (unvisited_go_count R C (nbrs cur) (gset g cur 0)) as H2.
        set (r := unvisited_go R C (nbrs cur) (gset g cur 0)) in *.
        assert (Hin : In cur (cdedup (walls ++ fst r))).
        { apply cdedup_In. apply in_or_app. left. exact Hm. }
        pose proof (cremove_length cur _ Hin) as H3.
        pose proof (cdedup_length (walls ++ fst r)) as H4.
        rewrite app_length in H4. lia.
      * apply IH. pose proof (cremove_length cur walls Hm). lia.
Qed.

Lemma cnt2_repeat : forall n, cnt2 (repeat 2 n) = n.
Proof.
  intros n; induction n as [|n IH]; [reflexivity|].
  unfold cnt2 in *. cbn [repeat lsum]. rewrite IH. reflexivity.
Qed.

Lemma count2_repeat : forall row n, count2 (repeat row n) = (n * cnt2 row)%nat.
Proof.
  intros row n; induction n as [|n IH]; [reflexivity|].
  unfold count2 in *. cbn [repeat lsum]. rewrite IH. reflexivity.
Qed.

Theorem generate_maze_terminates :
  forall rows cols start ch, 0 < rows -> 0 < cols -> generate_maze rows cols start ch <> MFuel.
Proof.
  intros rows cols start ch Hr Hc. unfold generate_maze.
  assert (H : maze_loop (maze_fuel rows cols) (rows + 2) (cols + 2)
                (snd (maze_init rows cols start)) (fst (maze_init rows cols start)) ch <> MFuel).
  { apply maze_loop_fuel. unfold maze_init, unvisited_nbrs.
    set (g0 := repeat (repeat 2 (Z.to_nat (cols + 2))) (Z.to_nat (rows + 2))).
    set (s := (fst start + 1, snd start + 1)).
    pose proof (unvisited_go_count (rows + 2) (cols + 2) (nbrs s) (gset g0 s 0)) as H1.
    assert (H0 : (0:Z) <> 2) by lia.
    pose proof (count2_gset_le g0 s 0 H0) as H2.
    assert (H3 : count2 g0 = maze_fuel rows cols).
    { unfold g0. rewrite count2_repeat, cnt2_repeat. unfold maze_fuel.
      rewrite Z2Nat.inj_mul by lia. reflexivity. }
    lia. }
  destruct (maze_loop _ _ _ _ _ _); congruence.
Qed.

(* ------------------------------------------------------------------------------------ *)
(* 3. the loop invariant: every passage is interior and connected to the start           *)

Definition interior (R C : Z) (c : cell) : Prop :=
  1 <= fst c <= R - 2 /\ 1 <= snd c <= C - 2.

Lemma interior_inb : forall R C c, interior R C c -> inb R C c.
Proof. intros R C c [H1 H2]. unfold inb. lia. Qed.

Lemma border_interior : forall R C c, inb R C c -> on_border R C c = false -> interior R C c.
Proof.
  intros R C c [H1 H2] Hb. unfold on_border in Hb.
  apply orb_false_iff in Hb. destruct Hb as [Hb Hb4].
  apply orb_false_iff in Hb. destruct Hb as [Hb Hb3].
  apply orb_false_iff in Hb. destruct Hb as [Hb1 Hb2].
  apply Z.eqb_neq in Hb1, Hb2, Hb3, Hb4. unfold interior. lia.
Qed.

Lemma cell_dec : forall a b : cell, a = b \/ a <> b.
Proof.
  intros a b. destruct (cell_eqb a b) eqn:E.
  - left. apply cell_eqb_eq. exact E.
  - right. intros H. apply cell_eqb_eq in H. congruence.
Qed.

Lemma nbrs_sym : forall p q, In q (nbrs p) -> In p (nbrs q).
Proof.
  intros [pr pc] [qr qc]. unfold nbrs. simpl.
  intros [H|[H|[H|[H|[]]]]]; inversion H; subst.
  - right. left. f_equal. lia.
  - left. f_equal. lia.
  - right. right. right. left. f_equal. lia.
  - right. right. left. f_equal. lia.
Qed.

Lemma conn_mono : forall g g' s p,
  (forall q, gget g q = 0 -> gget g' q = 0) -> conn g s p -> conn g' s p.
Proof.
  intros g g' s p Hm H. induction H as [H0 | p q Hp IH Hq Hq0].
  - apply conn_start. auto.
  - apply conn_step with (p := p); auto.
Qed.

Record inv (R C : Z) (s : cell) (g : mgrid) (walls : list cell) : Prop := {
  inv_shape : gshape R C g;
  inv_vals : vals g;
  inv_s : gget g s = 0;
  inv_pass : forall c, gget g c = 0 -> interior R C c /\ conn g s c;
  inv_walls : forall w, In w walls -> interior R C w /\
      (gget g w = 0 \/ (gget g w = 1 /\ exists n, In n (nbrs w) /\ gget g n = 0))
}.

Lemma inv_sub : forall R C s g walls walls',
  inv R C s g walls -> (forall x, In x walls' -> In x walls) -> inv R C s g walls'.
Proof.
  intros R C s g walls walls' [H1 H2 H3 H4 H5] Hs. constructor; auto.
Qed.

Lemma inv_open : forall R C s g walls cur,
  inv R C s g walls -> In cur walls -> inv R C s (gset g cur 0) walls.
Proof.
  intros R C s g walls cur [H1 H2 H3 H4 H5] Hin.
  destruct (H5 cur Hin) as [Hci Hcw].
  pose proof (interior_inb _ _ _ Hci) as Hcb.
  assert (Hsame : gget (gset g cur 0) cur = 0) by (apply (gget_gset_same R C); auto).
  assert (Hoth : forall c, c <> cur -> gget (gset g cur 0) c = gget g c).
  { intros c Hc. apply gget_gset_other; try (destruct Hcb; lia). congruence. }
  assert (Hmono : forall q, gget g q = 0 -> gget (gset g cur 0) q = 0).
  { intros q Hq. destruct (cell_dec q cur) as [E|E]; [subst; auto | rewrite Hoth; auto]. }
  assert (Hcc : conn (gset g cur 0) s cur).
  { destruct Hcw as [H0 | [_ [n [Hn Hn0]]]].
    - apply (conn_mono g); auto. apply H4. exact H0.
    - apply conn_step with (p := n); auto.
      + apply (conn_mono g); auto. apply H4. exact Hn0.
      + apply nbrs_sym. exact Hn. }
  constructor.
  - apply gset_shape. exact H1.
  - apply gset_vals; auto. left. reflexivity.
  - auto.
  - intros c Hc. destruct (cell_dec c cur) as [E|E].
    + subst. auto.
    + rewrite Hoth in Hc by exact E. destruct (H4 c Hc) as [Hi Hcn]. split; auto.
      apply (conn_mono g); auto.
  - intros w Hw. destruct (H5 w Hw) as [Hi Hww]. split; auto.
    destruct (cell_dec w cur) as [E|E].
    + subst. left. exact Hsame.
    + rewrite Hoth by exact E. destruct Hww as [H0 | [Hw1 [n [Hn Hn0]]]]; auto.
      right. split; auto. exists n. auto.
Qed.

Definition ugo_post (R C : Z) (ns : list cell) (g : mgrid) (r : list cell * mgrid) : Prop :=
  gshape R C (snd r) /\ vals (snd r)
  /\ (forall c, gget (snd r) c = gget g c \/ (gget g c = 2 /\ gget (snd r) c = 1))
  /\ (forall n, In n (fst r) -> In n ns /\ interior R C n /\ gget (snd r) n = 1).

Lemma ugo_spec : forall R C ns g, gshape R C g -> vals g ->
  ugo_post R C ns g (unvisited_go R C ns g).
Proof.
  intros R C ns; induction ns as [|n ns IH]; intros g Hs Hv.
  - simpl. unfold ugo_post. simpl. split; [|split; [|split]]; auto.
    intros n [].
  - simpl. destruct (on_border R C n) eqn:Hb.
    { destruct (IH g Hs Hv) as [A1 [A2 [A3 A4]]]. unfold ugo_post.
      split; [|split; [|split]]; auto.
      intros n' Hn'. destruct (A4 n' Hn') as [B1 [B2 B3]]. simpl. auto. }
    destruct (gget g n =? 2) eqn:E.
    2:{ destruct (IH g Hs Hv) as [A1 [A2 [A3 A4]]]. unfold ugo_post.
      split; [|split; [|split]]; auto.
      intros n' Hn'. destruct (A4 n' Hn') as [B1 [B2 B3]]. simpl. auto. }
    apply Z.eqb_eq in E.
    assert (Hnb : inb R C n) by (apply (gget_inb R C g); auto; lia).
    assert (Hs1 : gshape R C (gset g n 1)) by (apply gset_shape; auto).
    assert (Hv1 : vals (gset g n 1)) by (apply gset_vals; auto; right; left; reflexivity).
    destruct (IH (gset g n 1) Hs1 Hv1) as [A1 [A2 [A3 A4]]].
    set (r := unvisited_go R C ns (gset g n 1)) in *.
    assert (Hn1 : gget (snd r) n = 1).
    { pose proof (gget_gset_same R C g n 1 Hs Hnb) as G.
      destruct (A3 n) as [B|[B _]]; lia. }
    unfold ugo_post. cbn [fst snd]. split; [|split; [|split]]; auto.
    + intros c. destruct (cell_dec c n) as [Ec|Ec].
      * subst. right. auto.
      * assert (G : gget (gset g n 1) c = gget g c).
        { apply gget_gset_other; try (destruct Hnb; lia). congruence. }
        rewrite <- G. apply A3.
    + intros n' [Hn'|Hn'].
      * subst n'. split; [left; reflexivity|]. split; auto. apply border_interior; auto.
      * destruct (A4 n' Hn') as [B1 [B2 B3]]. split; [right; auto|]. auto.
Qed.

Lemma inv_ugo : forall R C s g walls cur,
  inv R C s g walls -> gget g cur = 0 ->
  inv R C s (snd (unvisited_go R C (nbrs cur) g))
            (walls ++ fst (unvisited_go R C (nbrs cur) g)).
Proof.
  intros R C s g walls cur [H1 H2 H3 H4 H5] Hc.
  destruct (ugo_spec R C (nbrs cur) g H1 H2) as [A1 [A2 [A3 A4]]].
  set (r := unvisited_go R C (nbrs cur) g) in *.
  assert (Hmono : forall q, gget g q = 0 -> gget (snd r) q = 0).
  { intros q Hq. destruct (A3 q) as [B|[B _]]; lia. }
  assert (Hback : forall q, gget (snd r) q = 0 -> gget g q = 0).
  { intros q Hq. destruct (A3 q) as [B|[_ B]]; lia. }
  constructor; auto.
  - intros c Hc0. destruct (H4 c (Hback c Hc0)) as [Hi Hcn]. split; auto.
    apply (conn_mono g); auto.
  - intros w Hw. apply in_app_or in Hw. destruct Hw as [Hw|Hw].
    + destruct (H5 w Hw) as [Hi Hww]. split; auto.
      destruct Hww as [H0 | [Hw1 [n [Hn Hn0]]]]; auto.
      right. split.
      * destruct (A3 w) as [B|[B _]]; lia.
      * exists n. auto.
    + destruct (A4 w Hw) as [B1 [B2 B3]]. split; auto.
      right. split; auto. exists cur. split; auto. apply nbrs_sym. exact B1.
Qed.

Lemma maze_loop_inv : forall fuel R C s g walls ch g',
  inv R C s g walls -> maze_loop fuel R C g walls ch = MOk g' -> inv R C s g' [].
Proof.
  intros fuel; induction fuel as [|f IH]; intros R C s g walls ch g' Hi H.
  - destruct walls as [|w ws].
    + rewrite maze_loop_nil in H. destruct ch; inversion H; subst. exact Hi.
    + rewrite maze_loop_0 in H by discriminate. discriminate.
  - destruct walls as [|w ws].
    + rewrite maze_loop_nil in H. destruct ch; inversion H; subst. exact Hi.
    + remember (w :: ws) as walls eqn:Hw.
      rewrite maze_loop_S in H by (subst; discriminate).
      destruct ch as [|cur ch']; try discriminate.
      destruct (cmem cur walls) eqn:Hm; simpl in H; try discriminate.
      apply cmem_In in Hm.
      destruct (xor_test g cur && (sum_free g cur <? 2)).
      * apply IH with (s := s) in H; auto.
        pose proof (inv_open R C s g walls cur Hi Hm) as Hi1.
        assert (Hc0 : gget (gset g cur 0) cur = 0).
        { destruct Hi as [H1 H2 H3 H4 H5]. destruct (H5 cur Hm) as [Hci _].
          apply (gget_gset_same R C); auto. apply interior_inb. exact Hci. }
        pose proof (inv_ugo R C s _ walls cur Hi1 Hc0) as Hi2.
        unfold unvisited_nbrs. eapply inv_sub; [exact Hi2|].
        intros x Hx. apply cremove_In in Hx. apply (proj1 (cdedup_In _ _)) in Hx. exact Hx.
      * apply IH with (s := s) in H; auto.
        eapply inv_sub; [exact Hi|]. intros x Hx. apply cremove_In in Hx. exact Hx.
Qed.

Lemma repeat_Forall : forall T (P : T -> Prop) x n, P x -> Forall P (repeat x n).
Proof.
  intros T P x n Hx. apply Forall_forall. intros y Hy. apply repeat_spec in Hy. subst. exact Hx.
Qed.

Lemma inv_init : forall rows cols start, 0 < rows -> 0 < cols ->
  0 <= fst start < rows -> 0 <= snd start < cols ->
  inv (rows + 2) (cols + 2) (fst start + 1, snd start + 1)
      (snd (maze_init rows cols start)) (fst (maze_init rows cols start)).
Proof.
  intros rows cols start Hr Hc Hsr Hsc. unfold maze_init, unvisited_nbrs.
  set (g0 := repeat (repeat 2 (Z.to_nat (cols + 2))) (Z.to_nat (rows + 2))).
  set (s := (fst start + 1, snd start + 1)).
  assert (Hs0 : gshape (rows + 2) (cols + 2) g0).
  { split.
    - unfold g0. rewrite repeat_length. lia.
    - apply repeat_Forall. rewrite repeat_length. lia. }
  assert (Hv0 : vals g0).
  { apply repeat_Forall. apply repeat_Forall. right. right. reflexivity. }
  assert (H20 : Forall (Forall (fun v => v = 2)) g0).
  { apply repeat_Forall. apply repeat_Forall. reflexivity. }
  assert (Hsi : interior (rows + 2) (cols + 2) s).
  { unfold interior, s. simpl. lia. }
  pose proof (interior_inb _ _ _ Hsi) as Hsb.
  assert (Hss : gget (gset g0 s 0) s = 0) by (apply (gget_gset_same (rows + 2) (cols + 2)); auto).
  assert (Hi1 : inv (rows + 2) (cols + 2) s (gset g0 s 0) []).
  { constructor.
    - apply gset_shape. exact Hs0.
    - apply gset_vals; auto. left. reflexivity.
    - exact Hss.
    - intros c Hc0. destruct (cell_dec c s) as [E|E].
      + subst c. split; auto. apply conn_start. exact Hss.
      + exfalso. rewrite gget_gset_other in Hc0; try (destruct Hsb; lia); try congruence.
        destruct (gget_Forall (fun v => v = 2) g0 c H20); lia.
    - intros w []. }
  exact (inv_ugo _ _ s _ [] s Hi1 Hss).
Qed.

(* ------------------------------------------------------------------------------------ *)
(* 3b. finalize: lopping off the border and turning 2 into 1                             *)

Definition conv (v : Z) : Z := if v =? 2 then 1 else v.

Lemma nth_firstn_lt : forall T (l : list T) k n d,
  (n < k)%nat -> nth n (firstn k l) d = nth n l d.
Proof.
  intros T l; induction l as [|x t IH]; intros k n d Hlt.
  - rewrite firstn_nil. reflexivity.
  - destruct k; try lia. destruct n; simpl; auto. apply IH. lia.
Qed.

Lemma nth_skipn1 : forall T (l : list T) n d, nth n (skipn 1 l) d = nth (S n) l d.
Proof. intros T l n d. destruct l; destruct n; reflexivity. Qed.

Lemma map_nth_d : forall T U (f : T -> U) l d d' n,
  f d = d' -> nth n (map f l) d' = f (nth n l d).
Proof. intros T U f l d d' n H. subst. apply map_nth. Qed.

Lemma In_firstn : forall T (x : T) k l, In x (firstn k l) -> In x l.
Proof.
  intros T x k l H. rewrite <- (firstn_skipn k l). apply in_or_app. left. exact H.
Qed.

Lemma In_skipn : forall T (x : T) k l, In x (skipn k l) -> In x l.
Proof.
  intros T x k l H. rewrite <- (firstn_skipn k l). apply in_or_app. right. exact H.
Qed.

Lemma fin_get : forall rows cols g r c, 0 <= r < rows -> 0 <= c < cols ->
  gget (finalize rows cols g) (r, c) = conv (gget g (r + 1, c + 1)).
Proof.
  intros rows cols g r c Hr Hc. unfold finalize, gget. cbn [fst snd].
  replace (r <? 0) with false by (symmetry; apply Z.ltb_ge; lia).
  replace (c <? 0) with false by (symmetry; apply Z.ltb_ge; lia).
  replace (r + 1 <? 0) with false by (symmetry; apply Z.ltb_ge; lia).
  replace (c + 1 <? 0) with false by (symmetry; apply Z.ltb_ge; lia).
  cbn [orb].
  replace (Z.to_nat (r + 1)) with (S (Z.to_nat r)) by lia.
  replace (Z.to_nat (c + 1)) with (S (Z.to_nat c)) by lia.
  rewrite map_nth_d with (d := []) by (simpl; rewrite firstn_nil; reflexivity).
  rewrite map_nth_d with (d := -1) by reflexivity.
  rewrite !nth_firstn_lt by lia. rewrite !nth_skipn1. reflexivity.
Qed.

Lemma fin_shape : forall rows cols g, 0 <= rows -> 0 <= cols ->
  gshape (rows + 2) (cols + 2) g -> gshape rows cols (finalize rows cols g).
Proof.
  intros rows cols g Hr Hc [HR HF]. unfold finalize. split.
  - rewrite map_length, firstn_length, skipn_length. lia.
  - apply Forall_map. apply Forall_forall. intros row Hrow.
    apply In_firstn in Hrow. apply In_skipn in Hrow.
    rewrite Forall_forall in HF. pose proof (HF row Hrow) as Hl.
    rewrite map_length, firstn_length, skipn_length. lia.
Qed.

Definition v01 (v : Z) : Prop := v = 0 \/ v = 1.

Lemma fin_vals : forall rows cols g, vals g -> Forall (Forall v01) (finalize rows cols g).
Proof.
  intros rows cols g Hv. unfold finalize.
  apply Forall_map. apply Forall_forall. intros row Hrow.
  apply In_firstn in Hrow. apply In_skipn in Hrow.
  unfold vals in Hv. rewrite Forall_forall in Hv. pose proof (Hv row Hrow) as Hrv.
  apply Forall_map. apply Forall_forall. intros v Hin.
  apply In_firstn in Hin. apply In_skipn in Hin.
  rewrite Forall_forall in Hrv. destruct (Hrv v Hin) as [E|[E|E]]; subst; unfold v01; simpl; auto.
Qed.

Lemma shape_b_intro : forall m rows cols,
  gshape rows cols m -> Forall (Forall v01) m -> maze_shape_b m rows cols = true.
Proof.
  intros m rows cols [HR HF] Hv. unfold maze_shape_b. apply andb_true_iff. split.
  - apply Z.eqb_eq. exact HR.
  - apply forallb_forall. intros row Hrow.
    rewrite Forall_forall in HF, Hv. apply andb_true_iff. split.
    + apply Z.eqb_eq. apply HF. exact Hrow.
    + apply forallb_forall. intros v Hin. pose proof (Hv row Hrow) as Hrv.
      rewrite Forall_forall in Hrv. destruct (Hrv v Hin) as [E|E]; subst; reflexivity.
Qed.

Lemma shape_b_elim : forall m rows cols,
  maze_shape_b m rows cols = true -> gshape rows cols m.
Proof.
  intros m rows cols H. unfold maze_shape_b in H. apply andb_true_iff in H.
  destruct H as [H1 H2]. apply Z.eqb_eq in H1. split; auto.
  apply Forall_forall. intros row Hrow. rewrite forallb_forall in H2.
  pose proof (H2 row Hrow) as H3. apply andb_true_iff in H3. destruct H3 as [H3 _].
  apply Z.eqb_eq. exact H3.
Qed.

Lemma generate_maze_ok : forall rows cols start ch m,
  generate_maze rows cols start ch = MOk m ->
  exists g, maze_loop (maze_fuel rows cols) (rows + 2) (cols + 2)
              (snd (maze_init rows cols start)) (fst (maze_init rows cols start)) ch = MOk g
            /\ m = finalize rows cols g.
Proof.
  intros rows cols start ch m H. unfold generate_maze in H.
  destruct (maze_loop _ _ _ _ _ _) as [g| |] eqn:E; try discriminate.
  exists g. split; auto. inversion H. reflexivity.
Qed.

Lemma generate_maze_inv : forall rows cols start ch m, 0 < rows -> 0 < cols ->
  0 <= fst start < rows -> 0 <= snd start < cols ->
  generate_maze rows cols start ch = MOk m ->
  exists g, inv (rows + 2) (cols + 2) (fst start + 1, snd start + 1) g []
            /\ m = finalize rows cols g.
Proof.
  intros rows cols start ch m Hr Hc Hsr Hsc H.
  destruct (generate_maze_ok _ _ _ _ _ H) as [g [Hg Hm]].
  exists g. split; auto.
  eapply maze_loop_inv; [|exact Hg]. apply inv_init; auto.
Qed.

Theorem generate_maze_shape :
  forall rows cols start ch m, 0 < rows -> 0 < cols ->
    0 <= fst start < rows -> 0 <= snd start < cols ->
    generate_maze rows cols start ch = MOk m -> maze_shape_b m rows cols = true.
Proof.
  intros rows cols start ch m Hr Hc Hsr Hsc H.
  destruct (generate_maze_inv _ _ _ _ _ Hr Hc Hsr Hsc H) as [g [[H1 H2 H3 H4 H5] Hm]].
  subst m. apply shape_b_intro.
  - apply fin_shape; auto; lia.
  - apply fin_vals. exact H2.
Qed.

Lemma conv_0 : forall v, conv v = 0 -> v = 0.
Proof. intros v. unfold conv. destruct (v =? 2); lia. Qed.

Lemma nbrs_shift : forall p q, In q (nbrs p) ->
  In (fst q - 1, snd q - 1) (nbrs (fst p - 1, snd p - 1)).
Proof.
  intros [pr pc] [qr qc]. unfold nbrs. simpl.
  intros [H|[H|[H|[H|[]]]]]; inversion H; subst.
  - left. f_equal; lia.
  - right. left. f_equal; lia.
  - right. right. left. f_equal; lia.
  - right. right. right. left. f_equal; lia.
Qed.

Lemma fin_get_interior : forall rows cols g q,
  interior (rows + 2) (cols + 2) q ->
  gget (finalize rows cols g) (fst q - 1, snd q - 1) = conv (gget g q).
Proof.
  intros rows cols g [qr qc] [H1 H2]. cbn [fst snd] in *.
  rewrite fin_get by lia.
  replace (qr - 1 + 1) with qr by lia. replace (qc - 1 + 1) with qc by lia. reflexivity.
Qed.

Theorem generate_maze_connected :
  forall rows cols start ch m, 0 < rows -> 0 < cols ->
    0 <= fst start < rows -> 0 <= snd start < cols ->
    generate_maze rows cols start ch = MOk m ->
    gget m start = 0 /\ (forall p, gget m p = 0 -> conn m start p).
Proof.
  intros rows cols start ch m Hr Hc Hsr Hsc H.
  destruct (generate_maze_inv _ _ _ _ _ Hr Hc Hsr Hsc H) as [g [[H1 H2 H3 H4 H5] Hm]].
  set (s := (fst start + 1, snd start + 1)) in *.
  assert (Hst : gget m start = 0).
  { subst m. destruct start as [sr sc]. simpl in *. rewrite fin_get by lia.
    fold s. rewrite H3. reflexivity. }
  split; auto.
  assert (Htr : forall q, conn g s q -> conn m start (fst q - 1, snd q - 1)).
  { intros q Hq. induction Hq as [H0 | p q Hp IH Hq Hq0].
    - replace (fst s - 1, snd s - 1) with start.
      + apply conn_start. exact Hst.
      + destruct start as [sr sc]. unfold s. simpl. f_equal; lia.
    - apply conn_step with (p := (fst p - 1, snd p - 1)); auto.
      + apply nbrs_shift. exact Hq.
      + subst m. rewrite fin_get_interior by (apply H4; exact Hq0). rewrite Hq0. reflexivity. }
  intros p Hp.
  assert (Hms : gshape rows cols m) by (subst m; apply fin_shape; auto; lia).
  assert (Hpb : inb rows cols p) by (apply (gget_inb rows cols m); auto; lia).
  destruct p as [pr pc]. destruct Hpb as [Hp1 Hp2]. simpl in Hp1, Hp2.
  assert (Hg0 : gget g (pr + 1, pc + 1) = 0).
  { apply conv_0. rewrite <- fin_get with (rows := rows) (cols := cols) by lia.
    rewrite <- Hm. exact Hp. }
  destruct (H4 _ Hg0) as [_ Hcn]. apply Htr in Hcn. simpl in Hcn.
  replace (pr + 1 - 1) with pr in Hcn by lia. replace (pc + 1 - 1) with pc in Hcn by lia.
  exact Hcn.
Qed.

(* ------------------------------------------------------------------------------------ *)
(* 4. the breadth-first checker                                                           *)

Lemma all_cells_In : forall rows cols p,
  In p (all_cells rows cols) <-> 0 <= fst p < rows /\ 0 <= snd p < cols.
Proof.
  intros rows cols p. unfold all_cells. rewrite in_flat_map. split.
  - intros [r [Hr Hp]]. apply in_map_iff in Hp. destruct Hp as [c [Hpc Hc]].
    apply in_seq in Hr. apply in_seq in Hc. subst p. simpl. lia.
  - intros [H1 H2]. exists (Z.to_nat (fst p)). split.
    + apply in_seq. lia.
    + apply in_map_iff. exists (Z.to_nat (snd p)). split.
      * destruct p as [pr pc]. simpl in *. f_equal; lia.
      * apply in_seq. lia.
Qed.

Lemma NoDup_app_intro : forall T (l1 l2 : list T),
  NoDup l1 -> NoDup l2 -> (forall x, In x l1 -> ~ In x l2) -> NoDup (l1 ++ l2).
Proof.
  intros T l1; induction l1 as [|a t IH]; intros l2 H1 H2 Hd; simpl; auto.
  inversion H1 as [|a' t' Ha Ht]; subst. constructor.
  - intros Hin. apply in_app_or in Hin. destruct Hin as [Hin|Hin].
    + contradiction.
    + apply (Hd a); simpl; auto.
  - apply IH; auto. intros x Hx. apply Hd. simpl. auto.
Qed.

Lemma NoDup_map_inj : forall T U (f : T -> U) l,
  (forall x y, f x = f y -> x = y) -> NoDup l -> NoDup (map f l).
Proof.
  intros T U f l Hinj H. induction H as [|a t Ha Ht IH]; simpl; constructor; auto.
  intros Hin. apply in_map_iff in Hin. destruct Hin as [y [Hy Hyin]].
  apply Hinj in Hy. subst. contradiction.
Qed.

Lemma pairs_NoDup : forall l1 l2 : list nat, NoDup l1 -> NoDup l2 ->
  NoDup (flat_map (fun r => map (fun c => (Z.of_nat r, Z.of_nat c)) l2) l1).
Proof.
  intros l1 l2 H1 H2. induction H1 as [|a t Ha Ht IH]; simpl.
  - constructor.
  - apply NoDup_app_intro; auto.
    + apply NoDup_map_inj; auto. intros x y Hxy. inversion Hxy. lia.
    + intros x Hx Hx'. apply in_map_iff in Hx. destruct Hx as [c [Hc _]].
      apply in_flat_map in Hx'. destruct Hx' as [r [Hr Hx']].
      apply in_map_iff in Hx'. destruct Hx' as [c' [Hc' _]].
      subst x. inversion Hc' as [[Hra Hcc]].
      apply Nat2Z.inj in Hra. subst r. contradiction.
Qed.

Lemma all_cells_NoDup : forall rows cols, NoDup (all_cells rows cols).
Proof. intros rows cols. unfold all_cells. apply pairs_NoDup; apply seq_NoDup. Qed.

Lemma frontier_In : forall m all R p,
  In p (frontier m all R) <->
  In p all /\ passage m p = true /\ ~ In p R /\ exists q, In q (nbrs p) /\ In q R.
Proof.
  intros m all R p. unfold frontier. rewrite filter_In.
  rewrite !andb_true_iff, negb_true_iff, cmem_false, existsb_exists.
  split.
  - intros [H1 [[H2 H3] [q [Hq Hq']]]]. apply cmem_In in Hq'.
    split; auto. split; auto. split; auto. exists q. auto.
  - intros [H1 [H2 [H3 [q [Hq Hq']]]]]. apply cmem_In in Hq'.
    split; auto. split; auto. exists q. auto.
Qed.

Lemma saturate_sound : forall m all s n R,
  (forall x, In x R -> conn m s x) ->
  forall x, In x (saturate m all n R) -> conn m s x.
Proof.
  intros m all s n; induction n as [|n IH]; intros R HR x Hx; simpl in Hx; auto.
  destruct (frontier m all R) as [|c new] eqn:E; auto.
  rewrite <- E in Hx. apply IH in Hx; auto.
  intros y Hy. apply in_app_or in Hy. destruct Hy as [Hy|Hy]; auto.
  apply frontier_In in Hy. destruct Hy as [_ [Hp [_ [q [Hq HqR]]]]].
  apply conn_step with (p := q); auto.
  - apply nbrs_sym. exact Hq.
  - apply Z.eqb_eq. exact Hp.
Qed.

Theorem maze_connected_b_sound :
  forall m rows cols start, maze_shape_b m rows cols = true ->
    maze_connected_b m rows cols start = true ->
    gget m start = 0 /\ (forall p, gget m p = 0 -> conn m start p).
Proof.
  intros m rows cols start Hs H. apply shape_b_elim in Hs.
  unfold maze_connected_b in H. apply andb_true_iff in H. destruct H as [H0 Hall].
  unfold passage in H0. apply Z.eqb_eq in H0. split; auto.
  intros p Hp. rewrite forallb_forall in Hall.
  assert (Hpb : inb rows cols p) by (apply (gget_inb rows cols m); auto; lia).
  assert (Hin : In p (all_cells rows cols)) by (apply all_cells_In; exact Hpb).
  pose proof (Hall p Hin) as Hi. unfold passage in Hi.
  replace (gget m p =? 0) with true in Hi by (symmetry; apply Z.eqb_eq; exact Hp).
  simpl in Hi. apply cmem_In in Hi. unfold reach_set in Hi.
  eapply saturate_sound; [|exact Hi].
  intros x [Hx|[]]. subst x. apply conn_start. exact H0.
Qed.

Definition closed (m : mgrid) (all F : list cell) : Prop :=
  forall p, In p all -> passage m p = true ->
    (exists q, In q (nbrs p) /\ In q F) -> In p F.

Lemma saturate_complete : forall m all, NoDup all -> forall n R,
  NoDup R -> incl R all -> (length all <= length R + n)%nat ->
  incl R (saturate m all n R) /\ closed m all (saturate m all n R).
Proof.
  intros m all HNA n; induction n as [|n IH]; intros R HN Hincl Hlen; simpl.
  - split; [apply incl_refl|]. intros p Hp _ _.
    assert (Hle : (length all <= length R)%nat) by lia.
    exact (NoDup_length_incl HN Hle Hincl p Hp).
  - destruct (frontier m all R) as [|c new] eqn:E.
    + split; [apply incl_refl|]. intros p Hp Hpass Hq.
      destruct (cmem p R) eqn:Em.
      * apply cmem_In. exact Em.
      * exfalso. apply cmem_false in Em.
        assert (Hf : In p (frontier m all R)) by (apply frontier_In; auto).
        rewrite E in Hf. contradiction.
    + rewrite <- E.
      assert (Hl1 : (1 <= length (frontier m all R))%nat) by (rewrite E; simpl; lia).
      destruct (IH (R ++ frontier m all R)) as [I1 I2].
      * apply NoDup_app_intro; auto.
        -- unfold frontier. apply NoDup_filter. exact HNA.
        -- intros x Hx Hx'. apply frontier_In in Hx'. destruct Hx' as [_ [_ [Hn _]]]. contradiction.
      * apply incl_app; auto. intros x Hx. apply frontier_In in Hx. tauto.
      * rewrite app_length. lia.
      * split; auto. intros x Hx. apply I1. apply in_or_app. left. exact Hx.
Qed.

Theorem maze_connected_b_complete :
  forall m rows cols start, 0 < rows -> 0 < cols ->
    0 <= fst start < rows -> 0 <= snd start < cols ->
    maze_shape_b m rows cols = true -> gget m start = 0 ->
    (forall p, gget m p = 0 -> conn m start p) ->
    maze_connected_b m rows cols start = true.
Proof.
  intros m rows cols start Hr Hc Hsr Hsc Hs H0 Hall. apply shape_b_elim in Hs.
  unfold maze_connected_b. apply andb_true_iff. split.
  - unfold passage. apply Z.eqb_eq. exact H0.
  - unfold reach_set.
    assert (Hst : In start (all_cells rows cols)) by (apply all_cells_In; auto).
    destruct (saturate_complete m (all_cells rows cols) (all_cells_NoDup rows cols)
                (length (all_cells rows cols)) [start]) as [I1 I2].
    + constructor; [intros []|constructor].
    + intros x [Hx|[]]. subst. exact Hst.
    + simpl. lia.
    + apply forallb_forall. intros p Hp.
      destruct (passage m p) eqn:Hpass; [|reflexivity].
      simpl. apply cmem_In.
      unfold passage in Hpass. apply Z.eqb_eq in Hpass.
      pose proof (Hall p Hpass) as Hcn.
      clear Hp Hpass. induction Hcn as [_ | p q Hp IH Hq Hq0].
      * apply I1. simpl. auto.
      * apply I2.
        -- apply all_cells_In. apply (gget_inb rows cols m); auto. lia.
        -- unfold passage. apply Z.eqb_eq. exact Hq0.
        -- exists p. split; auto. apply nbrs_sym. exact Hq.
Qed.

Theorem generate_maze_chk :
  forall rows cols start ch m, 0 < rows -> 0 < cols ->
    0 <= fst start < rows -> 0 <= snd start < cols ->
    generate_maze rows cols start ch = MOk m ->
    maze_shape_b m rows cols = true /\ maze_connected_b m rows cols start = true.
Proof.
  intros rows cols start ch m Hr Hc Hsr Hsc H.
  pose proof (generate_maze_shape _ _ _ _ _ Hr Hc Hsr Hsc H) as Hs.
  destruct (generate_maze_connected _ _ _ _ _ Hr Hc Hsr Hsc H) as [H0 Hall].
  split; auto. apply maze_connected_b_complete; auto.
Qed.

Print Assumptions generate_maze_terminates.
Print Assumptions generate_maze_shape.
Print Assumptions generate_maze_connected.
Print Assumptions maze_connected_b_sound.
Print Assumptions maze_connected_b_complete.
Print Assumptions generate_maze_chk.
