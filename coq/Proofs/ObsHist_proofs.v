(* History facts behind the declared observation spaces (C02, observer half): along every sequence of
   the operations of Grid/Play.v (moves and attacks by any agents, with any oracle, any visibility
   function, well formed or not) the grid size, the number of agents and every agent's encoding stay
   what they were, no agent's ammunition increases (an agent without ammunition stays without), and a
   position either stays or becomes a cell inside the grid.  No invariant is needed for this. *)
From Coq Require Import ZArith List Bool Arith Lia.
From Abm Require Import Base.Sx Grid.Overlap Grid.Grid Grid.Move Grid.Attack Grid.Vis Grid.AttackRun
  Grid.Play Proofs.Grid_proofs Proofs.Move_proofs Proofs.Attack_proofs Proofs.AttackLim_proofs
  Proofs.Play_proofs.
Import ListNotations.
Open Scope Z_scope.

(* ammunition m' of a later state against m of an earlier one *)
Definition ammo_le (m' m : option Z) : Prop :=
  match m, m' with
  | Some x, Some y => y <= x
  | None, None => True
  | _, _ => False
  end.

Lemma ammo_le_refl m : ammo_le m m.
Proof. destruct m; cbn; [lia|exact I]. Qed.

Lemma ammo_le_trans m1 m2 m3 : ammo_le m2 m1 -> ammo_le m3 m2 -> ammo_le m3 m1.
Proof. destruct m1, m2, m3; cbn; try tauto; lia. Qed.

(* b in state s became b' *)
Definition arec_later (s : gstate) (b b' : arec) : Prop :=
  a_enc b' = a_enc b /\ ammo_le (a_ammo b') (a_ammo b) /\
  (a_pos b' = a_pos b \/ exists p, a_pos b' = Some p /\ inside s p = true).

Record later (s s' : gstate) : Prop := {
  lt_rows : g_rows s' = g_rows s;
  lt_cols : g_cols s' = g_cols s;
  lt_len : length (g_agents s') = length (g_agents s);
  lt_agent : forall j b, agent s j = Some b -> exists b', agent s' j = Some b' /\ arec_later s b b'
}.

Lemma arec_later_refl s b : arec_later s b b.
Proof. split; [reflexivity|]. split; [apply ammo_le_refl|left; reflexivity]. Qed.

Lemma later_refl s : later s s.
Proof.
  constructor; try reflexivity. intros j b Hb. exists b. split; [exact Hb|apply arec_later_refl].
Qed.

Lemma later_trans s1 s2 s3 : later s1 s2 -> later s2 s3 -> later s1 s3.
Proof.
  intros [R1 C1 L1 A1] [R2 C2 L2 A2]. constructor; try congruence.
  intros j b Hb. destruct (A1 j b Hb) as (b2 & Hb2 & E1 & M1 & P1).
  destruct (A2 j b2 Hb2) as (b3 & Hb3 & E2 & M2 & P2). exists b3. split; [exact Hb3|].
  split; [congruence|]. split; [apply (ammo_le_trans _ _ _ M1 M2)|].
  destruct P2 as [P2|(p & P2 & Hin)].
  - rewrite P2. exact P1.
  - right. exists p. split; [exact P2|]. rewrite <- (inside_same s1 s2 p R1 C1). exact Hin.
Qed.

Lemma later_set_cells s cs : later s (set_cells s cs).
Proof.
  constructor; try reflexivity. intros j b Hb. exists b. split; [exact Hb|apply arec_later_refl].
Qed.

Lemma later_set_agent s i a a' : agent s i = Some a -> arec_later s a a' -> later s (set_agent s i a').
Proof.
  intros Ha Hl. constructor; try reflexivity.
  - cbn. apply upd_nth_length.
  - intros j b Hb. destruct (Nat.eq_dec j i) as [->|N].
    + exists a'. split; [apply (agent_set_agent_same _ _ _ _ Ha)|]. assert (b = a) by congruence.
      subst b. exact Hl.
    + exists b. split; [rewrite agent_set_agent_other by exact N; exact Hb|apply arec_later_refl].
Qed.

Lemma later_remove s i p s1 : remove s i p = Some s1 -> later s s1.
Proof.
  unfold remove. destruct (memn i (cell_get (g_cells s) p)); [|discriminate].
  intros E. injection E as <-. apply later_set_cells.
Qed.

Lemma later_place s i p : inside s p = true -> later s (snd (place s i p)).
Proof.
  intros Hin. unfold place. destruct (agent s i) as [a|] eqn:Ha; [|apply later_refl].
  destruct (query s i p); [|apply later_refl]. cbn [snd].
  eapply later_trans; [apply later_set_cells|]. apply later_set_agent with a; [exact Ha|].
  split; [reflexivity|]. split; [apply ammo_le_refl|]. right. exists p. split; [reflexivity|exact Hin].
Qed.

(* ---- moves ------------------------------------------------------------------------------------------ *)
Lemma later_move_by s i d : match move_by s i d with MOk _ s' => later s s' | _ => True end.
Proof.
  unfold move_by. destruct (agent s i) as [a|]; [|exact I]. destruct (a_pos a) as [from|]; [|exact I].
  set (to := (fst from + fst d, snd from + snd d)).
  destruct (inside s to) eqn:Hin; [|apply later_refl].
  destruct (cell_eqb to from); [apply later_refl|].
  destruct (query s i to); [|apply later_refl].
  destruct (remove s i from) as [s1|] eqn:R; [|exact I].
  pose proof (later_remove _ _ _ _ R) as L1. eapply later_trans; [exact L1|].
  apply later_place. rewrite (inside_same s s1 to (lt_rows _ _ L1) (lt_cols _ _ L1)). exact Hin.
Qed.

Lemma later_move_cross s i ca : match move_cross s i ca with MOk _ s' => later s s' | _ => True end.
Proof. unfold move_cross. destruct (grid_action ca); [apply later_move_by|exact I]. Qed.

Lemma later_move_drift s i ca : match move_drift s i ca with MOk _ s' => later s s' | _ => True end.
Proof.
  unfold move_drift. destruct (agent s i) as [a0|]; [|exact I].
  destruct (a_orient a0) as [o0|]; [|exact I].
  destruct (ca =? 0); [apply later_move_cross|].
  pose proof (later_move_cross s i ca) as H1.
  destruct (move_cross s i ca) as [[|] s1| | |]; try exact I.
  - destruct (agent s1 i) as [a1|] eqn:Ha1; [|exact I].
    eapply later_trans; [exact H1|]. apply later_set_agent with a1; [exact Ha1|].
    split; [reflexivity|]. split; [apply ammo_le_refl|left; reflexivity].
  - pose proof (later_move_cross s1 i o0) as H2.
    destruct (move_cross s1 i o0); try exact I. eapply later_trans; [exact H1|exact H2].
Qed.

Lemma later_do_mop s o : match do_mop s o with MOk _ s' => later s s' | _ => True end.
Proof.
  destruct o as [i d|i ca|i ca]; cbn [do_mop].
  - apply later_move_by.
  - apply later_move_cross.
  - apply later_move_drift.
Qed.

(* ---- attacks ---------------------------------------------------------------------------------------- *)
Lemma later_hit s st v : later s (hit s st v).
Proof.
  unfold hit. destruct (agent s v) as [b|] eqn:Hb; [|apply later_refl].
  destruct (a_active b); cbn [negb]; [|apply later_refl].
  set (b' := with_health b (a_health b - st)).
  assert (L1 : later s (set_agent s v b')).
  { apply later_set_agent with b; [exact Hb|].
    split; [reflexivity|]. split; [apply ammo_le_refl|left; reflexivity]. }
  destruct (a_active b'); [exact L1|].
  destruct (a_pos b') as [q|]; [|exact L1].
  destruct (remove (set_agent s v b') v q) as [s2|] eqn:R; [|exact L1].
  eapply later_trans; [exact L1|apply (later_remove _ _ _ _ R)].
Qed.

Lemma later_apply_hits hits : forall s st, later s (apply_hits s st hits).
Proof.
  unfold apply_hits. induction hits as [|v r IH]; intros s st; cbn [fold_left]; [apply later_refl|].
  eapply later_trans; [apply later_hit|apply IH].
Qed.

Lemma later_process_attack vis s cf att o act :
  match process_attack vis s cf att o act with POk _ _ s' _ => later s s' | _ => True end.
Proof.
  destruct (process_attack vis s cf att o act) as [st hits s' o'| |] eqn:E; try exact I.
  destruct (agent s att) as [a|] eqn:Ha.
  2:{ unfold process_attack in E. rewrite Ha in E. discriminate. }
  destruct (a_pos a) as [p|] eqn:Hp.
  2:{ unfold process_attack in E. rewrite Ha, Hp in E. discriminate. }
  destruct (process_attack_spec vis s cf att o act st hits s' o' a p Ha Hp E) as (hits0 & o1 & _ & Sp).
  destruct (a_ammo a) as [am|] eqn:Ham.
  - destruct Sp as (Ham0 & Hlen & _ & ->).
    eapply later_trans; [|apply later_apply_hits]. apply later_set_agent with a; [exact Ha|].
    split; [reflexivity|]. split; [|left; reflexivity].
    cbn [with_ammo a_ammo]. rewrite Ham. cbn [ammo_le]. lia.
  - destruct Sp as (_ & ->). apply later_apply_hits.
Qed.

(* ---- play -------------------------------------------------------------------------------------------- *)
Theorem later_do_pop vis s o : later s (do_pop vis s o).
Proof.
  destruct o as [m|a]; cbn [do_pop].
  - pose proof (later_do_mop s m) as H. destruct (do_mop s m); try apply later_refl. exact H.
  - pose proof (later_process_attack vis s (op_cfg a) (op_att a) (op_orc a) (op_act a)) as H.
    destruct (process_attack vis s (op_cfg a) (op_att a) (op_orc a) (op_act a)); try apply later_refl.
    exact H.
Qed.

Theorem later_play vis ops : forall s, later s (play vis s ops).
Proof.
  unfold play. induction ops as [|o r IH]; intros s; cbn [fold_left]; [apply later_refl|].
  eapply later_trans; [apply later_do_pop|apply IH].
Qed.

(* ---- consequences ------------------------------------------------------------------------------------ *)
Lemma later_agent_back s s' j b' : later s s' -> agent s' j = Some b' ->
  exists b, agent s j = Some b /\ arec_later s b b'.
Proof.
  intros L Hb'. destruct (agent s j) as [b|] eqn:Hb.
  - destruct (lt_agent _ _ L j b Hb) as (b2 & Hb2 & Hl). exists b. split; [reflexivity|].
    assert (b2 = b') by congruence. subst b2. exact Hl.
  - unfold agent in Hb, Hb'. apply nth_error_None in Hb.
    assert (Hlt : (j < length (g_agents s'))%nat) by (apply nth_error_Some; congruence).
    rewrite (lt_len _ _ L) in Hlt. lia.
Qed.

Lemma list_eq_nth_error {X} (l : list X) : forall l',
  (forall j, nth_error l j = nth_error l' j) -> l = l'.
Proof.
  induction l as [|x l IH]; intros [|y l'] H.
  - reflexivity.
  - specialize (H O). discriminate H.
  - specialize (H O). discriminate H.
  - pose proof (H O) as H0. cbn in H0. injection H0 as ->. f_equal. apply IH.
    intros j. apply (H (S j)).
Qed.

Lemma later_encodings s s' : later s s' -> map a_enc (g_agents s') = map a_enc (g_agents s).
Proof.
  intros L. apply list_eq_nth_error. intros j. rewrite !nth_error_map.
  change (nth_error (g_agents s') j) with (agent s' j). change (nth_error (g_agents s) j) with (agent s j).
  destruct (agent s j) as [b|] eqn:Hb.
  - destruct (lt_agent _ _ L j b Hb) as (b' & Hb' & E & _). rewrite Hb'. cbn. f_equal. exact E.
  - destruct (agent s' j) as [b'|] eqn:Hb'; [|reflexivity].
    destruct (later_agent_back s s' j b' L Hb') as (b & Hb0 & _). congruence.
Qed.

(* every position is a cell of the grid *)
Definition pos_in (s : gstate) : Prop :=
  forall j b p, agent s j = Some b -> a_pos b = Some p -> inside s p = true.

Lemma later_pos_in s s' : later s s' -> pos_in s -> pos_in s'.
Proof.
  intros L H j b' p Hb' Hp. destruct (later_agent_back s s' j b' L Hb') as (b & Hb & _ & _ & P).
  rewrite (inside_same s s' p (lt_rows _ _ L) (lt_cols _ _ L)).
  destruct P as [P|(q & P & Hin)].
  - apply (H j b p Hb). congruence.
  - assert (q = p) by congruence. subst q. exact Hin.
Qed.

(* in a state in which everybody is alive (after reset) the invariant gives pos_in *)
Lemma ginv_alive_pos_in s : ginv s -> (forall j b, agent s j = Some b -> a_active b = true) -> pos_in s.
Proof.
  intros G Hall j b p Hb Hp.
  apply (gi_agent_cell _ _ G j b p ltac:(discriminate) Hb (Hall j b Hb) Hp).
Qed.
