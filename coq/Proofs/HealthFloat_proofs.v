From Coq Require Import ZArith List Bool SpecFloat.
From Abm Require Import Base.Sx.
From Abm Require Import Grid.HealthFloat.
Import ListNotations.
Open Scope Z_scope.

Lemma lt00 : SFltb f_zero f_zero = false. Proof. reflexivity. Qed.
Lemma lt10 : SFltb f_one f_zero = false. Proof. vm_compute. reflexivity. Qed.
Lemma lt11 : SFltb f_one f_one = false. Proof. vm_compute. reflexivity. Qed.

(* whatever is assigned (any double, infinities and NaN included), the stored health is never
   below 0 and never above 1 *)
Lemma set_health_unit : forall v,
    SFltb (set_health v) f_zero = false /\ SFltb f_one (set_health v) = false.
Proof.
  intros v. unfold set_health, py_max0, py_min1.
  destruct (SFltb v f_zero) eqn:E1.
  - rewrite lt10. split; [apply lt00 | apply lt10].
  - destruct (SFltb f_one v) eqn:E2.
    + split; [apply lt10 | apply lt11].
    + split; assumption.
Qed.

(* zero health is never active *)
Lemma zero_not_active : forall s, is_active (S754_zero s) = false.
Proof. intros s; reflexivity. Qed.

(* an inactive stored health that is a number is a zero: active = (health > 0) leaves no third case *)
Lemma inactive_is_zero : forall v h, h = set_health v -> h <> S754_nan ->
    is_active h = false -> exists s, h = S754_zero s.
Proof.
  intros v h Hh Hn Ha. destruct (set_health_unit v) as [Hlo _]. rewrite <- Hh in Hlo.
  destruct h as [s|s| |s m e].
  - exists s; reflexivity.
  - destruct s; [vm_compute in Hlo | vm_compute in Ha]; discriminate.
  - contradiction.
  - destruct s; [vm_compute in Hlo | vm_compute in Ha]; discriminate.
Qed.

(* the records of [hits]: active is exactly (health > 0), stored in the cell exactly when active,
   and from the first death on nothing changes *)
Lemma hits_records : forall n h s alive,
    Forall (fun r => let '(h', a, g) := r in g = a /\ (a = true -> is_active h' = true)) (hits h s alive n).
Proof.
  induction n as [|n IH]; intros h s alive; cbn [hits]; [constructor|].
  destruct alive.
  - constructor; [|apply IH]. split; [reflexivity|]. intros H; exact H.
  - constructor; [|apply IH]. split; [reflexivity|]. discriminate.
Qed.

Lemma hits_length : forall n h s alive, length (hits h s alive n) = n.
Proof. induction n as [|n IH]; intros; cbn [hits]; [reflexivity|]. destruct alive; cbn [length]; rewrite IH; reflexivity. Qed.

(* ---- the checker accepts the model ---- *)
Lemma sf_eqb_refl : forall f, sf_eqb f f = true.
Proof.
  destruct f as [s|s| |s m e]; cbn [sf_eqb]; try reflexivity.
  - apply Bool.eqb_reflx.
  - rewrite Bool.eqb_reflx, Pos.eqb_refl, Z.eqb_refl. reflexivity.
Qed.

Lemma chk_sem_model : forall n h s alive, chk_sem h s alive (hits h s alive n) = 0.
Proof.
  induction n as [|n IH]; intros h s alive; cbn [hits]; [reflexivity|].
  destruct alive; cbn [chk_sem].
  - rewrite sf_eqb_refl, !Bool.eqb_reflx. cbn [negb]. apply IH.
  - rewrite sf_eqb_refl. cbn [negb orb]. apply IH.
Qed.

(* the checker rejects a sequence in which a hit took anything but exactly the strength, a victim
   with positive health was declared dead, or a dead one stayed in its cell *)
Lemma chk_sem_sound_head : forall h s h' a g r,
    chk_sem h s true ((h', a, g) :: r) = 0 ->
    sf_eqb h' (hit h s) = true /\ a = is_active h' /\ g = a.
Proof.
  intros h s h' a g r H. cbn [chk_sem] in H.
  destruct (sf_eqb h' (hit h s)) eqn:E1; cbn [negb] in H; [|discriminate].
  destruct (Bool.eqb a (is_active h')) eqn:E2; cbn [negb] in H; [|discriminate].
  destruct (Bool.eqb g a) eqn:E3; cbn [negb] in H; [|discriminate].
  apply Bool.eqb_prop in E2. apply Bool.eqb_prop in E3. auto.
Qed.
