(* The initial state satisfies the invariant for every supplied overlap table (a Python dict:
   duplicate-free keys): symmetry of the stored table is C19's theorem. *)
From Coq Require Import ZArith List Bool Arith Lia.
From Abm Require Import Base.Sx Grid.Overlap Grid.Grid Grid.Move Proofs.Grid_proofs Proofs.Move_proofs
  Proofs.Overlap_proofs.
Import ListNotations.
Open Scope Z_scope.

Theorem init_state_inv_table rows cols ov ags :
  NoDup (map fst ov) -> Forall vitals_ok ags -> Forall (fun a => a_active a = true) ags ->
  Forall (fun a => match a_pos a with
                   | Some q => (0 <=? fst q) && (fst q <? rows) && (0 <=? snd q) && (snd q <? cols) = true
                   | None => True end) ags ->
  ginv (init_state rows cols ov ags).
Proof.
  intros Hnd. apply init_state_inv. intros a b. apply overlap_symmetric, Hnd.
Qed.
