(* Proofs about Ctl/Managers.v, for an arbitrary simulation. *)
From Coq Require Import ZArith List Bool Arith Lia.
From Abm Require Import Ctl.Managers.
Import ListNotations.

Lemma memb_In a l : memb a l = true <-> In a l.
Proof.
  unfold memb. rewrite existsb_exists. split.
  - intros (x & Hx & E). apply Nat.eqb_eq in E. subst. exact Hx.
  - intros H. exists a. split; [exact H|apply Nat.eqb_refl].
Qed.

Lemma memb_false_In a l : memb a l = false <-> ~ In a l.
Proof. rewrite <- memb_In. destruct (memb a l); split; congruence. Qed.

Lemma memb_app a l m : memb a (l ++ m) = memb a l || memb a m.
Proof. unfold memb. apply existsb_app. Qed.

Section P.
  Context {St Obs Info Act : Type}.
  Variable Sim : simulation St Obs Info Act.
  Notation n := (sim_n Sim).
  Notation s_step := (sim_step Sim).
  Notation s_obs := (sim_obs Sim).
  Notation s_reward := (sim_reward Sim).
  Notation s_done := (sim_done Sim).
  Notation s_all := (sim_all Sim).

  Notation agents := (agents Sim).
  Notation order := (order Sim).
  Notation nonlearning := (nonlearning Sim).
  Notation all_in := (all_in Sim).

  Definition keys (o : out Obs Info) : list nat := map fst (o_obs o).
  Definition wfo (o : out Obs Info) : Prop :=
    map fst (o_rew o) = keys o /\ map fst (o_done o) = keys o /\ map fst (o_info o) = keys o.

  (* states reachable from s by getter effects only (no reset, no step) *)
  Inductive greach : St -> St -> Prop :=
  | gr_refl s : greach s s
  | gr_obs s s' a : greach (snd (s_obs s a)) s' -> greach s s'
  | gr_rew s s' a : greach (snd (s_reward s a)) s' -> greach s s'.

  Lemma greach_trans s1 s2 s3 : greach s1 s2 -> greach s2 s3 -> greach s1 s3.
  Proof.
    induction 1 as [s|s s' a _ IH|s s' a _ IH]; intros H3; [exact H3| |].
    - apply gr_obs with a. apply IH, H3.
    - apply gr_rew with a. apply IH, H3.
  Qed.

  (* ---------------- thread ---------------- *)
  Lemma thread_keys {X} (g : St -> nat -> X * St) s l : map fst (fst (thread g s l)) = l.
  Proof.
    revert s; induction l as [|a l IH]; intros s; simpl; [reflexivity|].
    destruct (g s a) as [x s1]. specialize (IH s1). destruct (thread g s1 l) as [r s2].
    simpl in *. rewrite IH. reflexivity.
  Qed.

  Lemma thread_obs_greach s l : greach s (snd (thread s_obs s l)).
  Proof.
    revert s; induction l as [|a l IH]; intros s; simpl; [constructor|].
    destruct (s_obs s a) as [x s1] eqn:E. specialize (IH s1).
    destruct (thread s_obs s1 l) as [r s2]. simpl in *.
    apply gr_obs with a. rewrite E. exact IH.
  Qed.

  Lemma thread_rew_greach s l : greach s (snd (thread s_reward s l)).
  Proof.
    revert s; induction l as [|a l IH]; intros s; simpl; [constructor|].
    destruct (s_reward s a) as [x s1] eqn:E. specialize (IH s1).
    destruct (thread s_reward s1 l) as [r s2]. simpl in *.
    apply gr_rew with a. rewrite E. exact IH.
  Qed.

  (* ---------------- add_report ---------------- *)
  Lemma add_report_spec' s a o o' s' :
    add_report Sim s a o = (o', s') ->
    keys o' = keys o ++ [a] /\ (wfo o -> wfo o') /\ o_all o' = o_all o /\
    greach s s' /\
    (exists b, o_done o' = o_done o ++ [(a, b)] /\ b = s_done s' a).
  Proof.
    unfold add_report. destruct (s_obs s a) as [ob s1] eqn:E1.
    destruct (s_reward s1 a) as [r s2] eqn:E2. intros H. inversion H; subst; clear H.
    unfold keys, wfo. cbn. rewrite !map_app. cbn. repeat split.
    - destruct H as (H1 & _ & _). rewrite H1. reflexivity.
    - destruct H as (_ & H2 & _). rewrite H2. reflexivity.
    - destruct H as (_ & _ & H3). rewrite H3. reflexivity.
    - apply gr_obs with a. rewrite E1. cbn [snd]. apply gr_rew with a. rewrite E2. constructor.
    - eexists. split; reflexivity.
  Qed.

  Lemma add_report_spec s a o :
    keys (fst (add_report Sim s a o)) = keys o ++ [a] /\
    (wfo o -> wfo (fst (add_report Sim s a o))) /\
    o_all (fst (add_report Sim s a o)) = o_all o /\
    greach s (snd (add_report Sim s a o)) /\
    (exists b, o_done (fst (add_report Sim s a o)) = o_done o ++ [(a, b)] /\
               b = s_done (snd (add_report Sim s a o)) a).
  Proof.
    destruct (add_report Sim s a o) as [o' s'] eqn:E. exact (add_report_spec' _ _ _ _ _ E).
  Qed.

  (* ---------------- flush ---------------- *)
  Lemma flush_spec d l : forall s o,
    let r := flush Sim s d l o in
    keys (fst r) = keys o ++ filter (fun a => negb (memb a d)) l /\
    (wfo o -> wfo (fst r)) /\ o_all (fst r) = o_all o /\ greach s (snd r).
  Proof.
    induction l as [|a l IH]; intros s o; simpl.
    - rewrite app_nil_r. split; [reflexivity|]. split; [auto|]. split; [reflexivity|constructor].
    - destruct (memb a d) eqn:Em; simpl; [apply IH|].
      destruct (add_report_spec s a o) as (K & W & Al & G & _).
      destruct (add_report Sim s a o) as [o1 s1]. cbn [fst snd] in *.
      destruct (IH s1 o1) as (K' & W' & Al' & G').
      rewrite K', K, <- app_assoc. simpl. split; [reflexivity|]. split; [auto|].
      split; [congruence|]. eapply greach_trans; eauto.
  Qed.

  Definition wfo_empty b : wfo (empty_out b).
  Proof. repeat split. Qed.

  (* ---------------- all-step ---------------- *)
  Definition live (d : list nat) : list nat := filter (fun a => negb (memb a d)) agents.

  Lemma all_step_reject m acts sh :
    existsb (fun kv => memb (fst kv) (m_done m)) acts = true ->
    all_step Sim m acts sh = (RReject, m).
  Proof. intros H. unfold all_step. rewrite H. reflexivity. Qed.

  Lemma all_step_accept m acts sh :
    existsb (fun kv => memb (fst kv) (m_done m)) acts = false ->
    exists o m', all_step Sim m acts sh = (ROut o, m') /\
      keys o = live (m_done m) /\ wfo o /\
      greach (s_step (m_sim m) sh) (m_sim m') /\
      m_done m' = m_done m ++ map fst (filter snd (o_done o)) /\
      o_all o = s_all (m_sim m') || all_in (m_done m') /\
      o_done o = map (fun a => (a, s_done (m_sim m') a)) (live (m_done m)).
  Proof.
    intros H. unfold all_step. rewrite H. fold (live (m_done m)).
    pose proof (thread_keys s_obs (s_step (m_sim m) sh) (live (m_done m))) as K1.
    pose proof (thread_obs_greach (s_step (m_sim m) sh) (live (m_done m))) as G1.
    destruct (thread s_obs (s_step (m_sim m) sh) (live (m_done m))) as [obs s2].
    pose proof (thread_keys s_reward s2 (live (m_done m))) as K2.
    pose proof (thread_rew_greach s2 (live (m_done m))) as G2.
    destruct (thread s_reward s2 (live (m_done m))) as [rew s3]. cbn [fst snd] in *.
    eexists. eexists. split; [reflexivity|]. cbn.
    unfold keys, wfo. cbn. rewrite !map_map. cbn. rewrite !map_id, K1, K2.
    repeat split; auto. eapply greach_trans; eauto.
  Qed.

  (* ---------------- the turn search ---------------- *)
  Notation L := (length order).

  (* purity: getter effects do not change an agent's done status *)
  Definition done_stable : Prop := forall s s' a, greach s s' -> s_done s' a = s_done s a.

  Lemma agents_In a : In a agents <-> a < n.
  Proof. unfold Managers.agents. rewrite in_seq. lia. Qed.

  Lemma order_In a : In a order -> In a agents.
  Proof. unfold Managers.order. rewrite filter_In. tauto. Qed.

  Lemma all_in_spec d : all_in d = true <-> forall a, In a agents -> In a d.
  Proof.
    unfold Managers.all_in. rewrite forallb_forall. split; intros H a Ha.
    - apply memb_In, H, Ha.
    - apply memb_In, H, Ha.
  Qed.

  Lemma nth_order_In p : p < L -> In (nth p order 0) order.
  Proof. intros H. apply nth_In, H. Qed.

  Lemma next_ptr_lt p : L <> 0 -> S p mod L < L.
  Proof. intros H. apply Nat.mod_upper_bound, H. Qed.

  (* what one search establishes; dl = the done entries it appended *)
  Record search_post (pool : list nat) (s : St) (d : list nat) (o o' : out Obs Info) (s' : St) (d' : list nat)
         (ks : list nat) : Prop := {
    sp_keys : keys o' = keys o ++ ks;
    sp_wfo : wfo o -> wfo o';
    sp_greach : greach s s';
    sp_fresh : forall a, In a ks -> ~ In a d /\ In a pool;
    sp_nodup : NoDup ks;
    sp_done_grows : exists nd, d' = d ++ nd /\ incl nd ks;
    sp_entries : exists dl, o_done o' = o_done o ++ dl /\ map fst dl = ks /\
                   (done_stable -> forall a b, In (a, b) dl -> b = s_done s a) /\
                   (done_stable -> forall a, In (a, true) dl -> In a d') /\
                   (done_stable -> forall a, In (a, false) dl -> ~ In a d');
    sp_all : o_all o = false -> all_in d = false -> o_all o' = all_in d'
  }.

  Lemma turn_search_post fuel : forall s d p o o' s' d' p',
    L <> 0 -> p < L ->
    turn_search Sim fuel s d p o = SOk o' s' d' p' ->
    p' < L /\ exists ks, search_post order s d o o' s' d' ks.
  Proof.
    induction fuel as [|f IH]; intros s d p o o' s' d' p' HL Hp H; simpl in H; [discriminate|].
    set (a := nth p order 0) in *.
    assert (Ha : In a order) by (apply nth_order_In, Hp).
    pose proof (next_ptr_lt p HL) as Hp'.
    destruct (memb a d) eqn:Em.
    - (* skipped *) apply (IH _ _ _ _ _ _ _ _ HL Hp' H).
    - apply memb_false_In in Em.
      destruct (add_report_spec s a o) as (K & W & Al & G & (b & Eb & Hb)).
      destruct (add_report Sim s a o) as [o1 s1]. cbn [fst snd] in *.
      destruct (s_done s a) eqn:Ed.
      + destruct (all_in (d ++ [a])) eqn:Eall.
        * (* everybody is done *)
          injection H as <- <- <- <-. split; [exact Hp'|]. exists [a]. constructor.
          -- exact K.
          -- intros Hw. destruct (W Hw) as (W1 & W2 & W3). repeat split; assumption.
          -- exact G.
          -- intros x [<-|[]]. split; assumption.
          -- repeat constructor. intros [].
          -- exists [a]. split; [reflexivity|]. apply incl_refl.
          -- exists [(a, b)]. cbn. split; [exact Eb|]. split; [reflexivity|].
             split; [|split].
             ++ intros St0 x y [E|[]]. injection E as <- <-. rewrite Hb. apply St0, G.
             ++ intros _ x [E|[]]. injection E as <- Hbv. apply in_or_app. right. left. reflexivity.
             ++ intros St0 x [E|[]]. injection E as <- Hbv.
                rewrite Hb, (St0 _ _ a G) in *. congruence.
          -- intros _ _. cbn. symmetry. exact Eall.
        * destruct (IH _ _ _ _ _ _ _ _ HL Hp' H) as (Hlt & ks & [P1 P2 P3 P4 P5 P6 P7 P8]).
          split; [exact Hlt|]. exists (a :: ks). constructor.
          -- rewrite P1, K, <- app_assoc. reflexivity.
          -- intros Hw. apply P2, W, Hw.
          -- eapply greach_trans; eauto.
          -- intros x [<-|Hx]; [split; assumption|].
             destruct (P4 x Hx) as [N1 N2]. split; [|exact N2].
             intros C. apply N1, in_or_app. left. exact C.
          -- constructor; [|exact P5]. intros C. destruct (P4 a C) as [N1 _].
             apply N1, in_or_app. right. left. reflexivity.
          -- destruct P6 as (nd & E1 & E2). exists (a :: nd). split.
             ++ rewrite E1, <- app_assoc. reflexivity.
             ++ intros x [<-|Hx]; [left; reflexivity|right; apply E2, Hx].
          -- destruct P7 as (dl & E1 & E2 & E3 & E4 & E5). exists ((a, b) :: dl).
             split; [rewrite E1, Eb, <- app_assoc; reflexivity|].
             split; [cbn; rewrite E2; reflexivity|]. split; [|split].
             ++ intros St0 x y [E|Hx].
                ** injection E as <- <-. rewrite Hb. apply St0, G.
                ** rewrite (E3 St0 x y Hx). apply St0, G.
             ++ intros St0 x [E|Hx]; [|apply E4; assumption].
                injection E as <- Hbv. destruct P6 as (nd & -> & _).
                apply in_or_app. left. apply in_or_app. right. left. reflexivity.
             ++ intros St0 x [E|Hx]; [|apply E5; assumption].
                injection E as <- Hbv. rewrite Hb, (St0 _ _ a G) in *. congruence.
          -- intros Ho _. apply P8; [congruence|exact Eall].
      + (* a live agent: report it and stop *)
        injection H as <- <- <- <-. split; [exact Hp'|]. exists [a]. constructor.
        -- exact K.
        -- exact W.
        -- exact G.
        -- intros x [<-|[]]. split; assumption.
        -- repeat constructor. intros [].
        -- exists []. split; [symmetry; apply app_nil_r|]. intros x [].
        -- exists [(a, b)]. split; [exact Eb|]. split; [reflexivity|]. split; [|split].
           ++ intros St0 x y [E|[]]. injection E as <- <-. rewrite Hb. apply St0, G.
           ++ intros St0 x [E|[]]. injection E as <- Hbv. rewrite Hb, (St0 _ _ a G) in *. congruence.
           ++ intros _ x [E|[]]. injection E as <- Hbv. exact Em.
        -- intros Ho _. rewrite Al, Ho. symmetry.
           destruct (all_in d) eqn:E; [|reflexivity].
           exfalso. apply Em. apply (proj1 (all_in_spec d) E). apply order_In, Ha.
  Qed.

  Lemma search_post_incl pool s d o o' s' d' ks :
    search_post pool s d o o' s' d' ks -> incl d d'.
  Proof. intros [_ _ _ _ _ (nd & -> & _) _ _]. apply incl_appl, incl_refl. Qed.

  Lemma pos_shift p i : L <> 0 -> (S p mod L + i) mod L = (p + S i) mod L.
  Proof. intros HL. rewrite Nat.add_mod_idemp_l by exact HL. f_equal. lia. Qed.

  (* turns are handed out in cyclic listing order: the search passes over k consecutive cycle
     positions; every agent passed over before the last is done (already, or reported done in
     this very output); the last one is reported; the pointer ends right behind it. *)
  Lemma turn_search_visits fuel : forall s d p o o' s' d' p',
    L <> 0 -> p < L ->
    turn_search Sim fuel s d p o = SOk o' s' d' p' ->
    exists k, 1 <= k <= fuel /\ p' = (p + k) mod L /\
      (forall i, i < k - 1 -> In (nth ((p + i) mod L) order 0) d') /\
      In (nth ((p + (k - 1)) mod L) order 0) (keys o') /\
      ~ In (nth ((p + (k - 1)) mod L) order 0) d.
  Proof.
    induction fuel as [|f IH]; intros s d p o o' s' d' p' HL Hp H; [discriminate|].
    pose proof H as H0. simpl in H.
    set (a := nth p order 0) in *.
    pose proof (next_ptr_lt p HL) as Hp'.
    assert (Ea : nth ((p + 0) mod L) order 0 = a)
      by (rewrite Nat.add_0_r, Nat.mod_small by exact Hp; reflexivity).
    destruct (memb a d) eqn:Em.
    - destruct (IH _ _ _ _ _ _ _ _ HL Hp' H) as (k & Hk & Ep & Hv & Hl & Hn).
      destruct (turn_search_post _ _ _ _ _ _ _ _ _ HL Hp' H) as (_ & ks & SP).
      exists (S k). split; [lia|]. split; [rewrite Ep; apply pos_shift, HL|].
      replace (S k - 1) with (S (k - 1)) by lia.
      rewrite <- (pos_shift p (k - 1) HL). split; [|split; assumption].
      intros [|i] Hi.
      + rewrite Ea. apply (search_post_incl _ _ _ _ _ _ _ _ SP). apply memb_In, Em.
      + rewrite <- (pos_shift p i HL). apply Hv. lia.
    - apply memb_false_In in Em.
      destruct (add_report_spec s a o) as (K & _).
      destruct (add_report Sim s a o) as [o1 s1]. cbn [fst snd] in *.
      destruct (s_done s a) eqn:Ed; [destruct (all_in (d ++ [a])) eqn:Eall|].
      + injection H as <- <- <- <-. exists 1. split; [lia|]. split; [f_equal; lia|].
        split; [intros i Hi; lia|]. cbn [Nat.sub]. rewrite Ea. split; [|exact Em].
        unfold keys in *. cbn. rewrite K. apply in_or_app. right. left. reflexivity.
      + destruct (IH _ _ _ _ _ _ _ _ HL Hp' H) as (k & Hk & Ep & Hv & Hl & Hn).
        destruct (turn_search_post _ _ _ _ _ _ _ _ _ HL Hp' H) as (_ & ks & SP).
        exists (S k). split; [lia|]. split; [rewrite Ep; apply pos_shift, HL|].
        replace (S k - 1) with (S (k - 1)) by lia.
        rewrite <- (pos_shift p (k - 1) HL). split; [|split; [exact Hl|]].
        * intros [|i] Hi.
          -- rewrite Ea. apply (search_post_incl _ _ _ _ _ _ _ _ SP).
             apply in_or_app. right. left. reflexivity.
          -- rewrite <- (pos_shift p i HL). apply Hv. lia.
        * intros C. apply Hn. apply in_or_app. left. exact C.
      + injection H as <- <- <- <-. exists 1. split; [lia|]. split; [f_equal; lia|].
        split; [intros i Hi; lia|]. cbn [Nat.sub]. rewrite Ea. split; [|exact Em].
        rewrite K. apply in_or_app. right. left. reflexivity.
  Qed.

  (* shape: zero or more newly finished agents followed by exactly one live agent, or only
     finished agents together with __all__ *)
  Lemma turn_search_shape fuel : done_stable -> forall s d p o o' s' d' p',
    turn_search Sim fuel s d p o = SOk o' s' d' p' ->
    exists front last b,
      o_done o' = o_done o ++ map (fun a => (a, true)) front ++ [(last, b)] /\
      (b = true -> o_all o' = true) /\ (b = false -> o_all o' = o_all o).
  Proof.
    intros St0. induction fuel as [|f IH]; intros s d p o o' s' d' p' H; [discriminate|].
    simpl in H. set (a := nth p order 0) in *.
    destruct (memb a d) eqn:Em; [apply (IH _ _ _ _ _ _ _ _ H)|].
    destruct (add_report_spec s a o) as (_ & _ & Al & G & (b & Eb & Hb)).
    destruct (add_report Sim s a o) as [o1 s1]. cbn [fst snd] in *.
    rewrite (St0 _ _ a G) in Hb.
    destruct (s_done s a) eqn:Ed; [destruct (all_in (d ++ [a])) eqn:Eall|].
    - injection H as <- <- <- <-. exists [], a, b. cbn. split; [exact Eb|].
      split; [reflexivity|]. intros C. congruence.
    - destruct (IH _ _ _ _ _ _ _ _ H) as (front & last & b' & E1 & E2 & E3).
      exists (a :: front), last, b'. split; [|split; [exact E2|]].
      + rewrite E1, Eb, Hb, <- app_assoc. reflexivity.
      + intros C. rewrite (E3 C). exact Al.
    - injection H as <- <- <- <-. exists [], a, b. cbn. split; [exact Eb|].
      split; [intros C; congruence|]. intros _. exact Al.
  Qed.

  (* fuel adequacy: the search never runs out of fuel *)
  Lemma turn_search_fuel fuel : forall s d p o,
    L <> 0 -> p < L ->
    turn_search Sim fuel s d p o = SFuel ->
    exists d', (d' = d \/ all_in d' = false) /\ incl d d' /\
               forall i, i < fuel -> In (nth ((p + i) mod L) order 0) d'.
  Proof.
    induction fuel as [|f IH]; intros s d p o HL Hp H.
    - exists d. split; [left; reflexivity|]. split; [apply incl_refl|]. intros i Hi. lia.
    - simpl in H. set (a := nth p order 0) in *.
      pose proof (next_ptr_lt p HL) as Hp'.
      assert (Ea : nth ((p + 0) mod L) order 0 = a)
        by (rewrite Nat.add_0_r, Nat.mod_small by exact Hp; reflexivity).
      destruct (memb a d) eqn:Em.
      + destruct (IH _ _ _ _ HL Hp' H) as (d' & Hd & Hi & Hv).
        exists d'. split; [exact Hd|]. split; [exact Hi|].
        intros [|i] Hlt.
        * rewrite Ea. apply Hi, memb_In, Em.
        * rewrite <- (pos_shift p i HL). apply Hv. lia.
      + destruct (add_report Sim s a o) as [o1 s1].
        destruct (s_done s a); [|discriminate].
        destruct (all_in (d ++ [a])) eqn:Eall; [discriminate|].
        destruct (IH _ _ _ _ HL Hp' H) as (d' & Hd & Hi & Hv).
        exists d'. split; [|split].
        * right. destruct Hd as [->|Hd]; assumption.
        * intros x Hx. apply Hi, in_or_app. left. exact Hx.
        * intros [|i] Hlt.
          -- rewrite Ea. apply Hi, in_or_app. right. left. reflexivity.
          -- rewrite <- (pos_shift p i HL). apply Hv. lia.
  Qed.

  Lemma cover_positions p j : p < L -> j < L -> exists i, i < L /\ (p + i) mod L = j.
  Proof.
    intros Hp Hj. destruct (le_lt_dec p j) as [Hle|Hlt].
    - exists (j - p). split; [lia|]. replace (p + (j - p)) with j by lia.
      apply Nat.mod_small, Hj.
    - exists (j + L - p). split; [lia|]. replace (p + (j + L - p)) with (j + 1 * L) by lia.
      rewrite Nat.mod_add by lia. apply Nat.mod_small, Hj.
  Qed.

  Theorem turn_search_terminates s d p o :
    L <> 0 -> p < L -> incl nonlearning d ->
    (exists a, In a order /\ ~ In a d) ->
    turn_search Sim (S L) s d p o <> SFuel.
  Proof.
    intros HL Hp Hnl (a0 & Ha0 & Hn0) H.
    destruct (turn_search_fuel _ _ _ _ _ HL Hp H) as (d' & Hd & Hi & Hv).
    assert (Hord : forall a, In a order -> In a d').
    { intros a Ha. destruct (In_nth _ _ 0 Ha) as (j & Hj & <-).
      destruct (cover_positions p j Hp Hj) as (i & Hil & <-). apply Hv. lia. }
    destruct Hd as [->|Hd]; [apply Hn0, Hord, Ha0|].
    assert (all_in d' = true); [|congruence].
    apply all_in_spec. intros a Ha.
    destruct (sim_learning Sim a) eqn:El.
    - apply Hord. unfold Managers.order. apply filter_In. split; assumption.
    - apply Hi, Hnl. unfold Managers.nonlearning. apply filter_In. split; [exact Ha|].
      rewrite El. reflexivity.
  Qed.

  (* ---------------- the dynamic-order loop ---------------- *)
  Lemma filter_notin_snoc d a l :
    ~ In a l ->
    filter (fun x => negb (memb x (d ++ [a]))) l = filter (fun x => negb (memb x d)) l.
  Proof.
    intros Hn. apply filter_ext_in. intros x Hx. rewrite memb_app. cbn.
    destruct (Nat.eqb x a) eqn:E; [apply Nat.eqb_eq in E; subst; contradiction|].
    rewrite !orb_false_r. reflexivity.
  Qed.

  Lemma dyn_loop_post l : forall s d o o' s' d',
    NoDup l -> incl l agents ->
    dyn_loop Sim s d l o = (o', s', d') ->
    search_post l s d o o' s' d' (filter (fun a => negb (memb a d)) l).
  Proof.
    induction l as [|a l IH]; intros s d o o' s' d' ND Hin H; simpl in H.
    - injection H as <- <- <-. constructor.
      + symmetry. apply app_nil_r.
      + auto.
      + constructor.
      + intros x [].
      + constructor.
      + exists []. split; [symmetry; apply app_nil_r|]. intros x [].
      + exists []. split; [symmetry; apply app_nil_r|]. split; [reflexivity|].
        split; [intros _ x y []|split; intros _ x []].
      + intros Ho Hd. congruence.
    - inversion ND as [|x l' Hnin ND']; subst.
      assert (Hin' : incl l agents) by (intros x Hx; apply Hin; right; exact Hx).
      simpl. destruct (memb a d) eqn:Em; simpl.
      + destruct (IH _ _ _ _ _ _ ND' Hin' H) as [P1 P2 P3 P4 P5 P6 P7 P8].
        constructor; auto. intros x Hx. destruct (P4 x Hx). split; [assumption|right; assumption].
      + pose proof Em as Em'. apply memb_false_In in Em.
        destruct (add_report_spec s a o) as (K & W & Al & G & (b & Eb & Hb)).
        destruct (add_report Sim s a o) as [o1 s1]. cbn [fst snd] in *.
        destruct (s_done s a) eqn:Ed; [destruct (all_in (d ++ [a])) eqn:Eall|].
        * injection H as <- <- <-.
          assert (Erest : filter (fun x => negb (memb x d)) l = []).
          { rewrite <- (filter_notin_snoc d a l Hnin).
            pose proof (proj1 (all_in_spec (d ++ [a])) Eall) as Eall'. clear Eall. rename Eall' into Eall.
            clear -Eall Hin'. induction l as [|y l IHl]; [reflexivity|]. simpl.
            assert (Hy : In y (d ++ [a])) by (apply Eall, Hin'; left; reflexivity).
            apply memb_In in Hy. rewrite Hy. simpl. apply IHl.
            intros x Hx. apply Hin'. right. exact Hx. }
          rewrite Erest. constructor.
          -- exact K.
          -- intros Hw. destruct (W Hw) as (W1 & W2 & W3). repeat split; assumption.
          -- exact G.
          -- intros x [<-|[]]. split; [assumption|left; reflexivity].
          -- repeat constructor. intros [].
          -- exists [a]. split; [reflexivity|]. apply incl_refl.
          -- exists [(a, b)]. cbn. split; [exact Eb|]. split; [reflexivity|].
             split; [|split].
             ++ intros St0 x y [E|[]]. injection E as <- <-. rewrite Hb. apply St0, G.
             ++ intros _ x [E|[]]. injection E as <- Hbv. apply in_or_app. right. left. reflexivity.
             ++ intros St0 x [E|[]]. injection E as <- Hbv.
                rewrite Hb, (St0 _ _ a G) in *. congruence.
          -- intros _ _. cbn. symmetry. exact Eall.
        * destruct (IH _ _ _ _ _ _ ND' Hin' H) as [P1 P2 P3 P4 P5 P6 P7 P8].
          rewrite (filter_notin_snoc d a l Hnin) in *.
          set (ks := filter (fun x => negb (memb x d)) l) in *. constructor.
          -- rewrite P1, K, <- app_assoc. reflexivity.
          -- intros Hw. apply P2, W, Hw.
          -- eapply greach_trans; eauto.
          -- intros x [<-|Hx]; [split; [assumption|left; reflexivity]|].
             destruct (P4 x Hx) as [N1 N2]. split; [|right; exact N2].
             intros C. apply N1, in_or_app. left. exact C.
          -- constructor; [|exact P5]. intros C. destruct (P4 a C) as [N1 _].
             apply N1, in_or_app. right. left. reflexivity.
          -- destruct P6 as (nd & E1 & E2). exists (a :: nd). split.
             ++ rewrite E1, <- app_assoc. reflexivity.
             ++ intros x [<-|Hx]; [left; reflexivity|right; apply E2, Hx].
          -- destruct P7 as (dl & E1 & E2 & E3 & E4 & E5). exists ((a, b) :: dl).
             split; [rewrite E1, Eb, <- app_assoc; reflexivity|].
             split; [cbn; rewrite E2; reflexivity|]. split; [|split].
             ++ intros St0 x y [E|Hx].
                ** injection E as <- <-. rewrite Hb. apply St0, G.
                ** rewrite (E3 St0 x y Hx). apply St0, G.
             ++ intros St0 x [E|Hx]; [|apply E4; assumption].
                injection E as <- Hbv. destruct P6 as (nd & -> & _).
                apply in_or_app. left. apply in_or_app. right. left. reflexivity.
             ++ intros St0 x [E|Hx]; [|apply E5; assumption].
                injection E as <- Hbv. rewrite Hb, (St0 _ _ a G) in *. congruence.
          -- intros Ho _. apply P8; [congruence|exact Eall].
        * (* live: reported, the loop goes on *)
          destruct (IH _ _ _ _ _ _ ND' Hin' H) as [P1 P2 P3 P4 P5 P6 P7 P8].
          set (ks := filter (fun x => negb (memb x d)) l) in *. constructor.
          -- rewrite P1, K, <- app_assoc. reflexivity.
          -- intros Hw. apply P2, W, Hw.
          -- eapply greach_trans; eauto.
          -- intros x [<-|Hx]; [split; [assumption|left; reflexivity]|].
             destruct (P4 x Hx) as [N1 N2]. split; [exact N1|right; exact N2].
          -- constructor; [|exact P5]. intros C. destruct (P4 a C) as [_ N2]. contradiction.
          -- destruct P6 as (nd & E1 & E2). exists nd. split; [exact E1|].
             intros x Hx. right. apply E2, Hx.
          -- destruct P7 as (dl & E1 & E2 & E3 & E4 & E5). exists ((a, b) :: dl).
             split; [rewrite E1, Eb, <- app_assoc; reflexivity|].
             split; [cbn; rewrite E2; reflexivity|]. split; [|split].
             ++ intros St0 x y [E|Hx].
                ** injection E as <- <-. rewrite Hb. apply St0, G.
                ** rewrite (E3 St0 x y Hx). apply St0, G.
             ++ intros St0 x [E|Hx]; [|apply E4; assumption].
                injection E as <- Hbv. rewrite Hb, (St0 _ _ a G) in *. congruence.
             ++ intros St0 x [E|Hx]; [|apply E5; assumption].
                injection E as <- Hbv. destruct P6 as (nd & -> & Hnd).
                intros C. apply in_app_or in C as [C|C]; [contradiction|].
                apply Hnd in C. destruct (P4 a C) as [_ N2]. contradiction.
          -- intros Ho Hd. apply P8; [congruence|exact Hd].
  Qed.
End P.
