(* C02, observer half: every value the five observer models of Grid/Observe.v emit lies in the Box
   the observer's constructor declares (Grid/ObsSpace.v), with the declared shape, and the declared
   null observations are members.  Built on the per-cell specifications of C09
   (Observe_proofs.centered_cell / stacked_cell / absolute_cell) and on the history facts of
   ObsHist_proofs.v (ammunition never increases, sizes and encodings are constant). *)
From Coq Require Import ZArith List Bool Arith Lia.
From Abm Require Import Base.Sx Spaces.Space Grid.Overlap Grid.Grid Grid.Move Grid.Attack Grid.Vis
  Grid.AttackRun Grid.Play Grid.Observe Grid.ObsSpace
  Proofs.Ravel_proofs Proofs.Grid_proofs Proofs.Move_proofs Proofs.Play_proofs Proofs.Observe_proofs
  Proofs.ObsHist_proofs.
Import ListNotations.
Open Scope Z_scope.

(* ---- membership of a constant-bound Box ---------------------------------------------------------- *)
Lemma forall2b_const lo hi l : forall n, length l = n -> Forall (fun v => lo <= v <= hi) l ->
  forall2b in_closed (repeat (lo, hi) n) l = true.
Proof.
  induction l as [|v l IH]; intros n Hn Hf; subst n; cbn [length repeat forall2b]; [reflexivity|].
  inversion Hf as [|? ? Hv Hl]; subst. rewrite (IH (length l) eq_refl Hl), andb_true_r.
  apply in_closed_spec. cbn [fst snd]. exact Hv.
Qed.

Lemma member_box_const lo hi n l : length l = Z.to_nat n -> Forall (fun v => lo <= v <= hi) l ->
  member (box_const lo hi n) (PV l) = true.
Proof. intros Hl Hf. unfold box_const. cbn [member]. apply forall2b_const; assumption. Qed.

Lemma member_const_point lo hi v n : lo <= v <= hi ->
  member (box_const lo hi n) (const_point v n) = true.
Proof.
  intros H. unfold const_point. apply member_box_const; [apply repeat_length|].
  apply Forall_forall. intros x Hx. apply repeat_spec in Hx. subst x. exact H.
Qed.

(* ---- flattening ------------------------------------------------------------------------------------- *)
Lemma concat_length_shape {X} (m : list (list X)) h w : shape m h w -> 0 <= w ->
  length (concat m) = Z.to_nat (h * w).
Proof.
  intros [H1 H2] Hw. subst h. induction m as [|row m IH]; [reflexivity|].
  inversion H2 as [|? ? Hr Hm]; subst. cbn [concat length]. rewrite app_length, (IH Hm).
  replace (Z.of_nat (S (length m))) with (1 + Z.of_nat (length m)) by lia.
  rewrite Z.mul_add_distr_r, Z.mul_1_l, Z2Nat.inj_add by nia. lia.
Qed.

Lemma Forall_concat' {X} (P : X -> Prop) (m : list (list X)) :
  (forall row v, In row m -> In v row -> P v) -> Forall P (concat m).
Proof.
  intros H. induction m as [|row m IH]; cbn [concat]; [constructor|].
  apply Forall_app. split.
  - apply Forall_forall. intros v Hv. apply (H row v (or_introl eq_refl) Hv).
  - apply IH. intros r v Hr Hv. apply (H r v (or_intror Hr) Hv).
Qed.

(* every entry of an array of a given shape, from the entries at the indices *)
Lemma all_entries {X} (P : X -> Prop) (m : list (list X)) h w : shape m h w ->
  (forall i j x, 0 <= i < h -> 0 <= j < w -> get2 m i j = Some x -> P x) ->
  forall row v, In row m -> In v row -> P v.
Proof.
  intros Hs H row v Hr Hv. apply In_get in Hr as (i & Hi). apply In_get in Hv as (j & Hj).
  assert (Hg : get2 m i j = Some v) by (unfold get2; rewrite Hi; exact Hj).
  destruct (get2_Some _ _ _ _ _ _ Hs Hg) as [Bi Bj]. apply (H i j v Bi Bj Hg).
Qed.

Lemma member_flat2 lo hi (m : list (list Z)) h w : shape m h w -> 0 <= w ->
  (forall i j v, 0 <= i < h -> 0 <= j < w -> get2 m i j = Some v -> lo <= v <= hi) ->
  member (box_const lo hi (h * w)) (flat2 m) = true.
Proof.
  intros Hs Hw H. unfold flat2. apply member_box_const; [apply (concat_length_shape m h w Hs Hw)|].
  apply Forall_concat'. apply (all_entries _ m h w Hs H).
Qed.

(* a (h, w, k) array: every cell a list of k layers *)
Lemma member_flat3 lo hi (m : list (list (list Z))) h w k n : shape m h w -> 0 <= w -> 0 <= k ->
  Z.to_nat n = Z.to_nat (h * w * k) ->
  (forall i j l, 0 <= i < h -> 0 <= j < w -> get2 m i j = Some l ->
     Z.of_nat (length l) = k /\ forall v, In v l -> lo <= v <= hi) ->
  member (box_const lo hi n) (flat3 m) = true.
Proof.
  intros Hs Hw Hk Hn H. unfold flat3.
  pose proof (all_entries (fun l => Z.of_nat (length l) = k /\ forall v, In v l -> lo <= v <= hi)
                          m h w Hs H) as Hall.
  assert (Hs' : shape (map (@concat Z) m) h (w * k)).
  { destruct Hs as [H1 H2]. split; [rewrite map_length; exact H1|].
    apply Forall_forall. intros r Hr. apply in_map_iff in Hr as (row & <- & Hrow).
    rewrite Forall_forall in H2.
    assert (Hsr : shape row w k).
    { split; [apply H2, Hrow|]. apply Forall_forall. intros l Hl. apply (Hall row l Hrow Hl). }
    rewrite (concat_length_shape row w k Hsr Hk). apply Z2Nat.id. nia. }
  apply member_box_const.
  - rewrite (concat_length_shape _ h (w * k) Hs') by nia. rewrite Hn. f_equal. ring.
  - apply Forall_concat'. intros r v Hr Hv. apply in_map_iff in Hr as (row & <- & Hrow).
    apply in_concat in Hv as (l & Hl & Hv). apply (proj2 (Hall row l Hrow Hl) v Hv).
Qed.

(* ---- encodings ------------------------------------------------------------------------------------- *)
Lemma fold_max_ge es : forall e x, x <= e \/ In x es -> x <= fold_left Z.max es e.
Proof.
  induction es as [|y es IH]; intros e x H; cbn [fold_left].
  - destruct H as [H|[]]. exact H.
  - apply IH. destruct H as [H|[<-|H]]; [left; lia|left; lia|right; exact H].
Qed.

(* max_encoding is an upper bound of every agent's encoding *)
Lemma enc_le_max s j b : agent s j = Some b -> a_enc b <= max_encoding s.
Proof.
  intros Hb. unfold max_encoding, number_of_encodings.
  assert (Hin : In (a_enc b) (map a_enc (g_agents s))) by (apply in_map, (nth_error_In _ _ Hb)).
  destruct (map a_enc (g_agents s)) as [|e es]; [destruct Hin|].
  apply fold_max_ge. destruct Hin as [<-|Hin]; [left; lia|right; exact Hin].
Qed.

Lemma fold_max_in es : forall e, In (fold_left Z.max es e) (e :: es).
Proof.
  induction es as [|y es IH]; intros e; cbn [fold_left]; [left; reflexivity|].
  destruct (IH (Z.max e y)) as [H|H]; [|right; right; exact H].
  destruct (Z.max_spec e y) as [[_ E]|[_ E]]; rewrite E in *; [right; left; exact H|left; exact H].
Qed.

(* ... and, when there is an agent, it is the encoding of one of them: the maximum *)
Theorem max_encoding_is_max s :
  (forall j b, agent s j = Some b -> a_enc b <= max_encoding s) /\
  (g_agents s <> [] -> exists j b, agent s j = Some b /\ a_enc b = max_encoding s).
Proof.
  split; [apply enc_le_max|]. intros Hne. unfold max_encoding, number_of_encodings.
  destruct (g_agents s) as [|a0 ags] eqn:Eg; [destruct (Hne eq_refl)|]. cbn [map].
  pose proof (fold_max_in (map a_enc ags) (a_enc a0)) as Hin.
  change (a_enc a0 :: map a_enc ags) with (map a_enc (a0 :: ags)) in Hin.
  apply in_map_iff in Hin as (b & Eb & Hb). apply In_nth_error in Hb as (j & Hj).
  exists j, b. unfold agent. rewrite Eg. split; [exact Hj|exact Eb].
Qed.

(* The condition on the simulation's encodings under which the two encoding Boxes [-2, max_encoding]
   can hold what the observers emit: no encoding lies below the masked-cell code -2, and the largest
   one is not below the empty-cell code 0.  The encoding setter only refuses -2, -1 and 0 (encs_ok),
   so for the code this is an assumption about the inputs. *)
Definition encs_fit (s : gstate) : Prop :=
  (forall j b, agent s j = Some b -> -2 <= a_enc b) /\ 0 <= max_encoding s.

Definition encs_fitb (s : gstate) : bool :=
  forallb (fun a => -2 <=? a_enc a) (g_agents s) && (0 <=? max_encoding s).

Lemma encs_fitb_ok s : encs_fitb s = true -> encs_fit s.
Proof.
  unfold encs_fitb, encs_fit, agent. rewrite andb_true_iff, forallb_forall, Z.leb_le.
  intros [H1 H2]. split; [|exact H2]. intros j b Hb. apply Z.leb_le, H1, (nth_error_In _ _ Hb).
Qed.

(* it holds when every encoding is positive (what the package's documentation and examples use) and
   there is at least one agent *)
Lemma encs_positive_fit s i a : agent s i = Some a ->
  (forall j b, agent s j = Some b -> 1 <= a_enc b) -> encs_fit s.
Proof.
  intros Ha H. split.
  - intros j b Hb. specialize (H j b Hb). lia.
  - pose proof (enc_le_max s i a Ha). specialize (H i a Ha). lia.
Qed.

(* for encodings the setter accepts, it says exactly that every encoding is positive *)
Lemma encs_fit_positive s : encs_ok s -> encs_fit s -> forall j b, agent s j = Some b -> 1 <= a_enc b.
Proof.
  intros Hok [Hlow _] j b Hb. specialize (Hlow j b Hb). destruct (Hok j b Hb) as (N2 & N1 & N0). lia.
Qed.

Lemma occupant_enc_bounds s q j : encs_fit s -> In j (occupants s q) ->
  -2 <= enc_of s j <= max_encoding s.
Proof.
  intros [Hlow _] Hj. apply occupants_In in Hj as (b & Hb & _). rewrite (enc_of_agent _ _ _ Hb).
  split; [apply (Hlow j b Hb)|apply (enc_le_max s j b Hb)].
Qed.

Lemma one_of_bounds s occ v : encs_fit s ->
  (forall j, In j occ -> exists q, In j (occupants s q)) ->
  one_of s occ v = true -> -2 <= v <= max_encoding s.
Proof.
  intros Hf Hocc H. apply one_of_elim in H as [[_ ->]|(j & Hj & <-)].
  - destruct Hf as [_ H0]. lia.
  - destruct (Hocc j Hj) as (q & Hq). apply (occupant_enc_bounds s q j Hf Hq).
Qed.

Lemma cent_spec_bounds vis s i p R os d v : encs_fit s ->
  cent_spec vis s i p R os d v = true -> -2 <= v <= max_encoding s.
Proof.
  intros Hf. pose proof (proj2 Hf) as H0. unfold cent_spec. cbn zeta.
  set (q := (fst p + fst d, snd p + snd d)).
  destruct (negb (vis s i R d)); [intros H; apply Z.eqb_eq in H; lia|].
  destruct (negb (inside s q)); [intros H; apply Z.eqb_eq in H; lia|].
  apply one_of_bounds; [exact Hf|]. intros j Hj. exists q.
  destruct os; [exact Hj|]. apply occupants_but_In in Hj as [_ Hj]. apply occupants_In, Hj.
Qed.

Lemma abs_spec_bounds vis s i p R q v : encs_fit s ->
  abs_spec vis s i p R q v = true -> -2 <= v <= max_encoding s.
Proof.
  intros Hf. pose proof (proj2 Hf) as H0. unfold abs_spec. cbn zeta.
  set (d := (fst q - fst p, snd q - snd p)).
  destruct (negb (Observe.in_range R d)); [intros H; apply Z.eqb_eq in H; lia|].
  destruct (negb (vis s i R d)); [intros H; apply Z.eqb_eq in H; lia|].
  destruct (memn i (occupants s q)); [intros H; apply Z.eqb_eq in H; lia|].
  apply one_of_bounds; [exact Hf|]. intros j Hj. exists q. exact Hj.
Qed.

(* ---- counts ---------------------------------------------------------------------------------------- *)
Lemma filter_length_le' {X} (f : X -> bool) l : (length (filter f l) <= length l)%nat.
Proof. induction l as [|x l IH]; cbn; [lia|]. destruct (f x); cbn; lia. Qed.

(* a cell's occupants are distinct agent indices: no more of them than agents *)
Lemma occupants_length s q : Z.of_nat (length (occupants s q)) <= n_agents s.
Proof.
  unfold n_agents. apply inj_le. rewrite <- (seq_length (length (g_agents s)) 0).
  apply NoDup_incl_length; [apply at_cell_NoDup|]. intros j Hj. apply in_seq.
  apply occupants_In in Hj as (b & Hb & _). unfold agent in Hb.
  assert (j < length (g_agents s))%nat by (apply nth_error_Some; congruence). lia.
Qed.

Lemma stk_spec_bounds vis s i p R d e v :
  stk_spec vis s i p R d e v = true -> -2 <= v <= n_agents s.
Proof.
  assert (Hn : 0 <= n_agents s) by (unfold n_agents; lia).
  unfold stk_spec. cbn zeta. set (q := (fst p + fst d, snd p + snd d)).
  destruct (negb (vis s i R d)); [intros H; apply Z.eqb_eq in H; lia|].
  destruct (negb (inside s q)); [intros H; apply Z.eqb_eq in H; lia|].
  intros H. apply Z.eqb_eq in H. subst v. unfold count_enc.
  pose proof (occupants_length s q) as Ho.
  pose proof (filter_length_le' (fun j => enc_of s j =? e + 1) (occupants s q)) as Hle. lia.
Qed.

(* ================================================================================================ *)
(* the five observers                                                                               *)
(* ================================================================================================ *)
Theorem obs_member_centered vis s i a p R os o arr o' :
  ginv s -> encs_fit s -> agent s i = Some a -> a_pos a = Some p -> inside s p = true -> 0 <= R ->
  obs_centered vis s i R os o = OOk arr o' ->
  shape arr (2 * R + 1) (2 * R + 1) /\ member (cent_space s R) (flat2 arr) = true.
Proof.
  intros G Hf Ha Hp Hin HR H.
  destruct (centered_cell vis s i R os o arr o' p G (viewer_pos_intro _ _ _ _ _ Ha Hp Hin HR) H)
    as [Hsh Hcell].
  split; [exact Hsh|]. unfold cent_space. apply (member_flat2 _ _ arr _ _ Hsh); [lia|].
  intros r c v Hr Hc Hv. destruct (Hcell (r - R) (c - R) ltac:(lia) ltac:(lia)) as (v' & Hg & Hs).
  replace (r - R + R) with r in Hg by lia. replace (c - R + R) with c in Hg by lia.
  assert (v' = v) by congruence. subst v'. apply (cent_spec_bounds _ _ _ _ _ _ _ _ Hf Hs).
Qed.

Theorem obs_member_absolute vis s i a p R o arr o' :
  ginv s -> encs_fit s -> agent s i = Some a -> a_pos a = Some p -> inside s p = true -> 0 <= R ->
  obs_absolute vis s i R o = OOk arr o' ->
  shape arr (g_rows s) (g_cols s) /\ member (abs_space s) (flat2 arr) = true.
Proof.
  intros G Hf Ha Hp Hin HR H.
  destruct (absolute_cell vis s i R o arr o' p G (viewer_pos_intro _ _ _ _ _ Ha Hp Hin HR) H)
    as (Hsh & _ & Hcell).
  split; [exact Hsh|]. unfold abs_space.
  apply inside_iff in Hin. apply (member_flat2 _ _ arr _ _ Hsh); [lia|].
  intros r c v Hr Hc Hv. destruct (Hcell (r, c)) as (v' & Hg & Hs); [apply inside_iff; cbn [fst snd]; lia|].
  cbn [fst snd] in Hg. assert (v' = v) by congruence. subst v'.
  apply (abs_spec_bounds _ _ _ _ _ _ _ Hf Hs).
Qed.

Theorem obs_member_stacked vis s i a p R arr :
  ginv s -> agent s i = Some a -> a_pos a = Some p -> inside s p = true -> 0 <= R ->
  obs_stacked vis s i R = Some arr ->
  shape arr (2 * R + 1) (2 * R + 1) /\
  (forall r c l, get2 arr r c = Some l -> Z.of_nat (length l) = Z.max 0 (number_of_encodings s)) /\
  member (stk_space s R) (flat3 arr) = true.
Proof.
  intros G Ha Hp Hin HR H.
  destruct (stacked_cell vis s i R arr p G (viewer_pos_intro _ _ _ _ _ Ha Hp Hin HR) H) as [Hsh Hcell].
  assert (Hc : forall r c l, 0 <= r < 2 * R + 1 -> 0 <= c < 2 * R + 1 -> get2 arr r c = Some l ->
                 Z.of_nat (length l) = Z.max 0 (number_of_encodings s) /\
                 forall v, In v l -> -2 <= v <= n_agents s).
  { intros r c l Hr Hcc Hl. destruct (Hcell (r - R) (c - R) ltac:(lia) ltac:(lia)) as (l' & Hg & Hlen & Hs).
    replace (r - R + R) with r in Hg by lia. replace (c - R + R) with c in Hg by lia.
    assert (l' = l) by congruence. subst l'. split; [exact Hlen|].
    intros v Hv. apply In_get in Hv as (e & He). destruct (Hs e v He) as [_ Hspec].
    apply (stk_spec_bounds _ _ _ _ _ _ _ _ Hspec). }
  split; [exact Hsh|]. split.
  - intros r c l Hl. destruct (get2_Some _ _ _ _ _ _ Hsh Hl) as [Hr Hcc]. apply (Hc r c l Hr Hcc Hl).
  - unfold stk_space.
    apply (member_flat3 _ _ arr (2 * R + 1) (2 * R + 1) (Z.max 0 (number_of_encodings s)) _ Hsh);
      [lia|lia| |exact Hc].
    destruct (Z_le_dec 0 (number_of_encodings s)) as [Hn|Hn].
    + rewrite Z.max_r by lia. reflexivity.
    + rewrite Z.max_l by lia. rewrite Z.mul_0_r.
      assert ((2 * R + 1) * (2 * R + 1) * number_of_encodings s <= 0) by nia. lia.
Qed.

Theorem obs_member_position s i a p :
  ginv s -> agent s i = Some a -> a_active a = true -> obs_position s i = Some p ->
  member (pos_space s) (pos_point p) = true.
Proof.
  intros G Ha Hact Hp. destruct (position_true s i a G Ha) as [_ H].
  destruct (H Hact p Hp) as [_ Hin]. apply inside_iff in Hin.
  unfold pos_space, pos_point. cbn [member forall2b]. rewrite andb_true_r.
  apply andb_true_iff. split; apply in_closed_spec; cbn [fst snd]; lia.
Qed.

Lemma pos_in_member s i p : pos_in s -> obs_position s i = Some p ->
  member (pos_space s) (pos_point p) = true.
Proof.
  intros H Hp. unfold obs_position in Hp. destruct (agent s i) as [a|] eqn:Ha; [|discriminate].
  pose proof (H i a p Ha Hp) as Hin. apply inside_iff in Hin.
  unfold pos_space, pos_point. cbn [member forall2b]. rewrite andb_true_r.
  apply andb_true_iff. split; apply in_closed_spec; cbn [fst snd]; lia.
Qed.

(* also for an agent that has died since (it keeps its last position): in every state reached by
   play from a state in which everybody was alive *)
Theorem obs_member_position_reachable vis s0 ops i p :
  ginv s0 -> (forall j b, agent s0 j = Some b -> a_active b = true) ->
  obs_position (play vis s0 ops) i = Some p ->
  pos_space (play vis s0 ops) = pos_space s0 /\ member (pos_space s0) (pos_point p) = true.
Proof.
  intros G Hall Hp. pose proof (later_play vis ops s0) as L.
  assert (E : pos_space (play vis s0 ops) = pos_space s0).
  { unfold pos_space. rewrite (lt_rows _ _ L), (lt_cols _ _ L). reflexivity. }
  split; [exact E|]. rewrite <- E. apply (pos_in_member _ i p); [|exact Hp].
  apply (later_pos_in _ _ L), ginv_alive_pos_in; assumption.
Qed.

(* ---- ammunition: reachable-state form ------------------------------------------------------------ *)
(* history invariant: whatever is played, nobody's ammunition exceeds what it was *)
Theorem ammo_never_increases vis s0 ops j b :
  agent s0 j = Some b ->
  exists b', agent (play vis s0 ops) j = Some b' /\
    match a_ammo b with
    | Some m0 => exists m, a_ammo b' = Some m /\ m <= m0
    | None => a_ammo b' = None
    end.
Proof.
  intros Hb. destruct (lt_agent _ _ (later_play vis ops s0) j b Hb) as (b' & Hb' & _ & Hm & _).
  exists b'. split; [exact Hb'|]. unfold ammo_le in Hm.
  destruct (a_ammo b) as [m0|], (a_ammo b') as [m|]; try contradiction.
  - exists m. split; [reflexivity|exact Hm].
  - reflexivity.
Qed.

Theorem obs_member_ammo vis s0 ops i a0 initial_ammo :
  ginv s0 -> agent s0 i = Some a0 -> a_ammo a0 = Some initial_ammo ->
  exists m, obs_ammo (play vis s0 ops) i = Some m /\ 0 <= m <= initial_ammo /\
            member (ammo_space initial_ammo) (ammo_point m) = true.
Proof.
  intros G Ha Hm0. destruct (ammo_never_increases vis s0 ops i a0 Ha) as (b' & Hb' & Hle).
  rewrite Hm0 in Hle. destruct Hle as (m & Hm & Hle). exists m.
  pose proof (play_inv vis ops s0 G) as G'.
  destruct (ammo_true _ i b' G' Hb') as [E Hnn]. rewrite E. split; [exact Hm|].
  assert (0 <= m) by (apply Hnn; rewrite E; exact Hm). split; [lia|].
  unfold ammo_space, ammo_point. cbn [member forall2b]. rewrite andb_true_r.
  apply in_closed_spec. cbn [fst snd]. lia.
Qed.

(* an agent without ammunition never reports any: AmmoObserver returns {} for it, in every state *)
Theorem obs_ammo_none vis s0 ops i a0 :
  agent s0 i = Some a0 -> a_ammo a0 = None -> obs_ammo (play vis s0 ops) i = None.
Proof.
  intros Ha Hm0. destruct (ammo_never_increases vis s0 ops i a0 Ha) as (b' & Hb' & Hle).
  rewrite Hm0 in Hle. unfold obs_ammo. rewrite Hb'. exact Hle.
Qed.

(* ---- the declared spaces do not depend on the state reached --------------------------------------- *)
Theorem declared_spaces_stable vis s0 ops R :
  let s := play vis s0 ops in
  abs_space s = abs_space s0 /\ cent_space s R = cent_space s0 R /\ stk_space s R = stk_space s0 R /\
  pos_space s = pos_space s0 /\ (encs_fit s0 -> encs_fit s).
Proof.
  cbn zeta. pose proof (later_play vis ops s0) as L. set (s := play vis s0 ops) in *.
  pose proof (later_encodings _ _ L) as He.
  assert (En : number_of_encodings s = number_of_encodings s0)
    by (unfold number_of_encodings; rewrite He; reflexivity).
  unfold abs_space, cent_space, stk_space, pos_space, max_encoding, n_agents.
  rewrite En, (lt_rows _ _ L), (lt_cols _ _ L), (lt_len _ _ L).
  repeat split; try reflexivity.
  - intros j b' Hb'. destruct (later_agent_back _ _ j b' L Hb') as (b & Hb & E & _).
    rewrite E. apply (proj1 H j b Hb).
  - unfold max_encoding. rewrite En. apply (proj2 H).
Qed.

(* ---- null observations ---------------------------------------------------------------------------- *)
Theorem null_observations_member s R initial_ammo :
  (-2 <= max_encoding s ->
     member (abs_space s) (abs_null s) = true /\ member (cent_space s R) (cent_null R) = true) /\
  member (stk_space s R) (stk_null s R) = true /\
  (1 <= g_rows s -> 1 <= g_cols s -> member (pos_space s) pos_null = true) /\
  (0 <= initial_ammo -> member (ammo_space initial_ammo) ammo_null = true).
Proof.
  split; [|split; [|split]].
  - intros H. split; apply member_const_point; lia.
  - apply member_const_point. unfold n_agents. lia.
  - intros Hr Hc. unfold pos_space, pos_null. cbn [member forall2b]. rewrite andb_true_r.
    apply andb_true_iff. split; apply in_closed_spec; cbn [fst snd]; lia.
  - intros H. unfold ammo_space, ammo_null. cbn [member forall2b]. rewrite andb_true_r.
    apply in_closed_spec. cbn [fst snd]. lia.
Qed.

(* where the side conditions of the null observations come from *)
Lemma null_side_conditions s i a p : encs_fit s -> agent s i = Some a -> a_pos a = Some p ->
  inside s p = true -> -2 <= max_encoding s /\ 1 <= g_rows s /\ 1 <= g_cols s.
Proof.
  intros [_ H0] _ _ Hin. apply inside_iff in Hin. lia.
Qed.

(* ---- the condition on the encodings is needed ------------------------------------------------------ *)
(* 1x2 grid, the viewer (encoding 1) next to an agent of encoding -5, which the setter accepts *)
Definition neg_agent (e : Z) (p : cell) : arec :=
  {| a_enc := e; a_pos := Some p; a_health := HD; a_active := true; a_ammo := None;
     a_orient := None; a_blocking := false |}.
Definition neg_state : gstate := init_state 1 2 [] [neg_agent 1 (0, 0); neg_agent (-5) (0, 1)].

Lemma negative_encoding_escapes :
  encs_okb neg_state = true /\
  (exists arr, obs_centered vis_model neg_state 0 1 true [1; -5] = OOk arr [] /\
               member (cent_space neg_state 1) (flat2 arr) = false) /\
  (exists arr, obs_absolute vis_model neg_state 0 1 [-5] = OOk arr [] /\
               member (abs_space neg_state) (flat2 arr) = false).
Proof.
  split; [reflexivity|]. split; eexists; (split; [vm_compute; reflexivity|vm_compute; reflexivity]).
Qed.
