(* Proofs about Grid/Validate.v: every transcribed setter check accepts exactly the documented
   domain; the overlapping setter stores the either-direction closure of the supplied table;
   the executable checkers accept the model's behaviour. *)
From Coq Require Import ZArith QArith List Bool Lia.
From Abm Require Import Base.Sx Spaces.PyVal Spaces.BoxMem Grid.Overlap Grid.Validate
  Proofs.Overlap_proofs Proofs.BoxMem_proofs.
Import ListNotations.
Open Scope Z_scope.

Lemma accepted_assert : forall b, accepted (assert_ b) = b.
Proof. destruct b; reflexivity. Qed.

Lemma accepted_andthen : forall a b, accepted (a ;; b) = accepted a && accepted b.
Proof. destruct a; reflexivity. Qed.

Lemma accepted_true : forall o, accepted o = true <-> o = Accept.
Proof. destruct o; simpl; split; intro H; try reflexivity; discriminate. Qed.

Lemma code_zero : forall o, (outcome_code o =? 0) = accepted o.
Proof. destruct o; reflexivity. Qed.

Lemma forallb_ext' : forall {T} (f g : T -> bool) l,
  (forall x, f x = g x) -> forallb f l = forallb g l.
Proof. intros T f g l H. induction l as [|x l IH]; simpl; [reflexivity | rewrite H, IH; reflexivity]. Qed.

Lemma Qle0_inject : forall z, Qle_bool 0 (inject_Z z) = (0 <=? z).
Proof. intro z. change 0%Q with (inject_Z 0). apply Qle_bool_inject. Qed.
Lemma Qle_inject0 : forall z, Qle_bool (inject_Z z) 0 = (z <=? 0).
Proof. intro z. change 0%Q with (inject_Z 0). apply Qle_bool_inject. Qed.
Lemma Qle_inject1 : forall z, Qle_bool (inject_Z z) 1 = (z <=? 1).
Proof. intro z. change 1%Q with (inject_Z 1). apply Qle_bool_inject. Qed.

(* ---- scalar attributes ---------------------------------------------------------------- *)
Lemma id_ok : forall v, accepted (validate_id v) = dom_id v.
Proof. destruct v; reflexivity. Qed.
Lemma seed_ok : forall v, accepted (validate_seed v) = dom_seed v.
Proof. destruct v; reflexivity. Qed.
Lemma active_ok : forall v, accepted (validate_active v) = dom_bool v.
Proof. destruct v; reflexivity. Qed.
Lemma blocking_ok : forall v, accepted (validate_blocking v) = dom_bool v.
Proof. destruct v; reflexivity. Qed.
Lemma initial_ammo_ok : forall v, accepted (validate_initial_ammo v) = dom_int v.
Proof. destruct v; reflexivity. Qed.
Lemma ammo_ok : forall v, accepted (validate_ammo v) = dom_int v.
Proof. destruct v; reflexivity. Qed.
Lemma health_ok : forall v, accepted (validate_health v) = dom_number v.
Proof. destruct v; reflexivity. Qed.

Lemma encoding_ok : forall v, accepted (validate_encoding v) = dom_encoding v.
Proof.
  destruct v; try reflexivity.
  unfold validate_encoding, dom_encoding, py_eq_int. cbn [type_is_int num_of assert_ andthen].
  rewrite !Qeq_bool_inject, !memZ_cons.
  destruct (z =? -2), (z =? -1), (z =? 0); reflexivity.
Qed.

Lemma initial_position_ok : forall v,
  accepted (validate_initial_position v) = dom_initial_position v.
Proof.
  destruct v; try reflexivity.
  unfold validate_initial_position, dom_initial_position. cbn [is_none].
  rewrite accepted_andthen, !accepted_assert. reflexivity.
Qed.

Lemma render_shape_ok : forall v, accepted (validate_render_shape v) = dom_render_shape v.
Proof.
  destruct v; try reflexivity.
  - apply accepted_assert.
  - destruct vals as [|q [|q' vals]]; reflexivity.
Qed.

Lemma positive_int_ok : forall v,
  accepted (assert_ (type_is_int v && num_gt v 0)) = dom_positive_int v.
Proof.
  destruct v; try reflexivity.
  cbn [type_is_int num_gt dom_positive_int andb]. rewrite accepted_assert, Qle_inject0.
  rewrite Z.leb_antisym, negb_involutive. reflexivity.
Qed.

Lemma initial_health_ok : forall v,
  accepted (validate_initial_health v) = dom_initial_health v.
Proof.
  destruct v; try reflexivity.
  - unfold validate_initial_health. cbn [is_none type_in_int_float assert_ andthen num_gt num_le
      dom_initial_health].
    rewrite accepted_assert, Qle_inject0, Qle_inject1.
    destruct (Z.leb_spec z 0), (Z.leb_spec z 1), (Z.eqb_spec z 1); simpl; try reflexivity; lia.
  - unfold validate_initial_health. cbn [is_none type_in_int_float assert_ andthen num_gt num_le
      dom_initial_health]. apply accepted_assert.
  - destruct s; reflexivity.
Qed.

Lemma range_ok : forall v, accepted (range_rule v) = dom_range v.
Proof.
  destruct v; try reflexivity.
  - unfold range_rule. cbn [arr_ambiguous type_is_int num_ge orb andb dom_range].
    rewrite accepted_assert. apply Qle0_inject.
  - unfold range_rule, dom_range. cbn [arr_ambiguous type_is_int andb].
    rewrite accepted_assert, orb_false_r. destruct code as [|p|p]; reflexivity.
  - destruct vals as [|q [|q' vals]]; reflexivity.
Qed.

Lemma unit_ok : forall v, accepted (unit_rule v) = dom_unit v.
Proof.
  destruct v; try reflexivity.
  - unfold unit_rule. cbn [type_in_int_float assert_ andthen num_ge num_le dom_unit].
    rewrite accepted_assert, Qle0_inject, Qle_inject1.
    destruct (Z.leb_spec 0 z), (Z.leb_spec z 1), (Z.eqb_spec z 0), (Z.eqb_spec z 1);
      simpl; try reflexivity; lia.
  - unfold unit_rule. cbn [type_in_int_float assert_ andthen num_ge num_le dom_unit].
    apply accepted_assert.
  - destruct s; reflexivity.
Qed.

Lemma simultaneous_ok : forall v,
  accepted (validate_simultaneous_attacks v) = dom_nonneg_int v.
Proof.
  destruct v; try reflexivity.
  unfold validate_simultaneous_attacks. cbn [type_is_int assert_ andthen num_ge dom_nonneg_int].
  rewrite accepted_assert. apply Qle0_inject.
Qed.

Lemma orientation_ok : forall v, accepted (validate_orientation v) = dom_orientation v.
Proof.
  destruct v; try reflexivity;
    try (unfold validate_orientation, dom_orientation, py_eq_int;
         cbn [arr_ambiguous num_of one_value existsb];
         rewrite accepted_assert, orb_false_r, !orb_assoc; reflexivity).
  destruct dt; destruct vals as [|q [|q' vals]]; try reflexivity;
    (unfold validate_orientation, dom_orientation, py_eq_int;
     cbn [arr_ambiguous num_of one_value existsb];
     rewrite accepted_assert, orb_false_r, !orb_assoc; reflexivity).
Qed.

Lemma initial_orientation_ok : forall v,
  accepted (validate_initial_orientation v) = dom_initial_orientation v.
Proof. destruct v; try reflexivity; apply orientation_ok. Qed.

(* ---- agents dict ---------------------------------------------------------------------- *)
Lemma agents_loop_ok : forall l,
  accepted (agents_loop l) =
  forallb (fun kv => match kv with (PStr c, PAgent id) => c =? id | _ => false end) l.
Proof.
  induction l as [|[k a] l IH]; [reflexivity|].
  destruct a; try (destruct k; reflexivity).
  cbn [agents_loop forallb]. rewrite accepted_andthen, accepted_assert, IH.
  destruct k; reflexivity.
Qed.

Lemma agents_ok : forall v, accepted (validate_agents v) = dom_agents v.
Proof. destruct v; try reflexivity. apply agents_loop_ok. Qed.

(* ---- mappings ------------------------------------------------------------------------- *)
Lemma existsb_inject : forall z encs,
  existsb (fun e => Qeq_bool (inject_Z z) (inject_Z e)) encs = memZ z encs.
Proof.
  intros z encs. induction encs as [|e encs IH]; [reflexivity|].
  simpl. rewrite Qeq_bool_inject, IH. reflexivity.
Qed.

Lemma existsb_float : forall q encs,
  existsb (fun e => Qeq_bool q (inject_Z e)) encs = Qintegral q && memZ (Qtrunc q) encs.
Proof.
  intros q encs. induction encs as [|e encs IH].
  - simpl. rewrite andb_false_r. reflexivity.
  - simpl. rewrite Qeq_bool_int, IH. destruct (Qintegral q); reflexivity.
Qed.

Lemma enc_member_mentions : forall x encs, enc_member x encs = mentions_enc encs x.
Proof.
  intros x encs. destruct x; try reflexivity; unfold enc_member, mentions_enc; cbn [num_of].
  - destruct b; apply existsb_inject.
  - apply existsb_inject.
  - apply existsb_float.
  - apply existsb_inject.
  - apply existsb_float.
  - destruct b; apply existsb_inject.
Qed.

Lemma attack_loop_ok : forall encs l,
  accepted (attack_loop encs l) =
  forallb (fun kv => mentions_enc encs (fst kv) &&
                     match snd kv with
                     | PInt z => memZ z encs
                     | PSet s => forallb (mentions_enc encs) s
                     | _ => false
                     end) l.
Proof.
  intros encs. induction l as [|[k a] l IH]; [reflexivity|].
  cbn [attack_loop forallb fst snd]. rewrite !accepted_andthen, accepted_assert, IH.
  rewrite enc_member_mentions, andb_assoc. f_equal. f_equal.
  destruct a; cbn [accepted]; rewrite ?accepted_assert; try reflexivity.
  - apply enc_member_mentions.
  - apply forallb_ext'. intro x. apply enc_member_mentions.
Qed.

Lemma attack_mapping_ok : forall encs v,
  accepted (validate_attack_mapping encs v) = dom_attack_mapping encs v.
Proof. intros encs v. destruct v; try reflexivity. apply attack_loop_ok. Qed.

Lemma target_loop_ok : forall encs l,
  accepted (target_loop encs l) =
  forallb (fun kv => mentions_enc encs (fst kv) &&
                     match snd kv with
                     | PInt z => memZ z encs && negb (same_number (PInt z) (fst kv))
                     | PSet s => forallb (fun e => mentions_enc encs e &&
                                                   negb (same_number e (fst kv))) s
                     | _ => false
                     end) l.
Proof.
  intros encs. induction l as [|[k a] l IH]; [reflexivity|].
  cbn [target_loop forallb fst snd]. rewrite !accepted_andthen, accepted_assert, IH.
  rewrite enc_member_mentions, andb_assoc. f_equal. f_equal.
  destruct a; cbn [accepted]; rewrite ?accepted_andthen, ?accepted_assert; try reflexivity.
  - rewrite enc_member_mentions. reflexivity.
  - apply forallb_ext'. intro x. rewrite enc_member_mentions. reflexivity.
Qed.

Lemma target_mapping_ok : forall encs v,
  accepted (validate_target_mapping encs v) = dom_target_mapping encs v.
Proof. intros encs v. destruct v; try reflexivity. apply target_loop_ok. Qed.

Lemma encodings_opt_ok : forall encs v,
  accepted (encodings_opt_rule encs v) = dom_encodings_opt encs v.
Proof.
  intros encs v. destruct v; try reflexivity; cbn [encodings_opt_rule dom_encodings_opt];
    rewrite accepted_assert.
  - rewrite enc_member_mentions. reflexivity.
  - apply forallb_ext'. intro x. apply enc_member_mentions.
Qed.

(* ---- null points ---------------------------------------------------------------------- *)
Lemma convert_inl : forall isint ls o, convert isint ls = inl o -> accepted o = false.
Proof.
  induction ls as [|e ls IH]; intros o H; [discriminate|].
  destruct e; simpl in H.
  - destruct (convert isint ls) as [o'|] eqn:E; [|discriminate]. inversion H; subst.
    eapply IH; reflexivity.
  - destruct isint; [inversion H; reflexivity|].
    destruct (convert false ls) as [o'|] eqn:E; [|discriminate]. inversion H; subst.
    eapply IH; reflexivity.
  - destruct isint; [inversion H; reflexivity|].
    destruct (convert false ls) as [o'|] eqn:E; [|discriminate]. inversion H; subst.
    eapply IH; reflexivity.
  - destruct isint; [inversion H; reflexivity|].
    destruct (convert false ls) as [o'|] eqn:E; [|discriminate]. inversion H; subst.
    eapply IH; reflexivity.
  - inversion H; reflexivity.
  - inversion H; reflexivity.
Qed.

Lemma box_raise_rejects : forall B x o, box_contains B x = BRaise o -> accepted o = false.
Proof.
  intros B x o H. destruct (direct x) eqn:Hd.
  - destruct x; try discriminate.
  - rewrite (contains_other B x Hd) in H. unfold as_array in H.
    destruct (arr_shape x) as [sh|]; [|inversion H; reflexivity].
    destruct (convert (is_int_dtype (b_dt B)) (leaves x)) as [o'|ws] eqn:E.
    + inversion H; subst. apply (convert_inl _ _ _ E).
    + destruct (is_int_dtype (b_dt B) && negb (lossless (leaves x))); discriminate.
Qed.

Lemma null_point_ok : forall s v, accepted (validate_null_point s v) = dom_null_point s v.
Proof.
  intros s v. unfold validate_null_point, dom_null_point.
  destruct (truthy v) as [[|]|]; try reflexivity.
  destruct s as [n|B]; cbn [space_contains].
  - apply accepted_assert.
  - rewrite <- box_contains_spec. destruct (box_contains B v) as [b|o] eqn:E; cbn [accepted_b].
    + apply accepted_assert.
    + apply (box_raise_rejects B v o E).
Qed.

(* ---- all attributes --------------------------------------------------------------------- *)
Lemma validate_domain : forall a v, accepted (validate a v) = domain a v.
Proof.
  intros a v. destruct a; cbn [validate domain].
  - apply id_ok. - apply seed_ok. - apply active_ok. - apply encoding_ok.
  - apply initial_position_ok. - apply blocking_ok. - apply render_shape_ok.
  - apply positive_int_ok. - apply health_ok. - apply initial_health_ok.
  - apply range_ok. - apply range_ok. - apply range_ok.
  - apply unit_ok. - apply unit_ok. - apply simultaneous_ok.
  - apply initial_ammo_ok. - apply ammo_ok. - apply orientation_ok.
  - apply initial_orientation_ok. - apply agents_ok.
  - apply positive_int_ok. - apply positive_int_ok.
  - apply attack_mapping_ok. - apply target_mapping_ok.
  - apply encodings_opt_ok. - apply encodings_opt_ok.
  - apply null_point_ok. - apply null_point_ok.
  - apply agents_ok.
Qed.

Lemma validate_iff : forall a v, validate a v = Accept <-> domain a v = true.
Proof. intros. rewrite <- validate_domain. symmetry. apply accepted_true. Qed.

Lemma chk_validate_model : forall a v, chk_C19_validate a v (outcome_code (validate a v)) = true.
Proof.
  intros. unfold chk_C19_validate. rewrite code_zero, validate_domain. apply eqb_reflx.
Qed.

(* ---- the overlapping setter --------------------------------------------------------- *)
Definition dir (l : list (pyval * pyval)) (a b : Z) : bool :=
  existsb (fun kv => entry_says kv a b) l.

Lemma related_dir : forall l a b, related (PDict l) a b = dir l a b || dir l b a.
Proof.
  intros l a b. unfold related, dir. induction l as [|kv l IH]; [reflexivity|].
  simpl. rewrite IH.
  destruct (entry_says kv a b), (entry_says kv b a), (existsb (fun kv => entry_says kv a b) l);
    reflexivity.
Qed.

Lemma set_ints_mem : forall s zs b,
  set_ints s = Some zs ->
  memZ b zs = existsb (fun e => match e with PInt z => z =? b | _ => false end) s.
Proof.
  induction s as [|e s IH]; intros zs b H.
  - inversion H. reflexivity.
  - destruct e; try discriminate. simpl in H.
    destruct (set_ints s) as [zs'|] eqn:E; [|discriminate]. inversion H; subst.
    simpl. rewrite (IH zs' b eq_refl), (Z.eqb_sym b z). reflexivity.
Qed.

Lemma set_ints_some : forall s,
  (match set_ints s with Some _ => true | None => false end)
  = forallb (fun e => match e with PInt _ => true | _ => false end) s.
Proof.
  induction s as [|e s IH]; [reflexivity|].
  destruct e; try reflexivity. simpl. rewrite <- IH. destruct (set_ints s); reflexivity.
Qed.

Definition entry_ok (kv : pyval * pyval) : bool :=
  match fst kv with PInt _ => true | _ => false end &&
  match snd kv with
  | PInt _ => true
  | PSet s => forallb (fun e => match e with PInt _ => true | _ => false end) s
  | _ => false
  end.

Lemma overlap_loop_accepts : forall l,
  accepted (fst (overlap_loop l)) = forallb entry_ok l.
Proof.
  induction l as [|[k ov] l IH]; [reflexivity|].
  cbn [forallb]. unfold entry_ok at 1. cbn [fst snd].
  destruct k; try reflexivity.
  destruct ov; try reflexivity.
  - cbn [overlap_loop andb]. rewrite <- IH. destruct (overlap_loop l) as [[| | | |] t]; reflexivity.
  - cbn [overlap_loop andb]. rewrite <- set_ints_some.
    destruct (set_ints l0) as [zs|]; [|reflexivity].
    rewrite <- IH. destruct (overlap_loop l) as [[| | | |] t]; reflexivity.
Qed.

Lemma dir_notin : forall l a b,
  ~ In a (int_keys (PDict l)) -> dir l a b = false.
Proof.
  induction l as [|[k ov] l IH]; intros a b Hn; [reflexivity|].
  unfold dir. simpl. unfold entry_says at 1. cbn [fst snd].
  destruct k; try (apply IH; intro H; apply Hn; simpl; exact H).
  simpl in Hn. destruct (Z.eqb_spec z a) as [->|Hne].
  - exfalso. apply Hn. left. reflexivity.
  - simpl. apply IH. intro H. apply Hn. right. exact H.
Qed.

Lemma nodupZ_cons : forall x l, nodupZ (x :: l) = true -> ~ In x l /\ nodupZ l = true.
Proof.
  intros x l H. simpl in H. apply andb_prop in H. destruct H as [H1 H2]. split; [|exact H2].
  intro Hin. apply memZ_In in Hin. rewrite Hin in H1. discriminate.
Qed.

(* the table built by the first loop lists, for key a, exactly what a's entry says *)
Lemma overlap_loop_allowed : forall l t a b,
  nodupZ (int_keys (PDict l)) = true ->
  overlap_loop l = (Accept, t) ->
  ov_allowed t a b = dir l a b /\ map fst t = int_keys (PDict l).
Proof.
  induction l as [|[k ov] l IH]; intros t a b Hnd H.
  - inversion H. split; reflexivity.
  - cbn [overlap_loop] in H. destruct k; try discriminate.
    assert (Hk : int_keys (PDict ((PInt z, ov) :: l)) = z :: int_keys (PDict l)) by reflexivity.
    rewrite Hk in Hnd. apply nodupZ_cons in Hnd. destruct Hnd as [Hnin Hnd].
    destruct ov; try discriminate.
    + destruct (overlap_loop l) as [o t'] eqn:E. destruct o; try discriminate.
      inversion H; subst. destruct (IH t' a b Hnd eq_refl) as [IH1 IH2].
      split; [|simpl; rewrite IH2; reflexivity].
      unfold ov_allowed, dir. cbn [ov_lookup existsb]. unfold entry_says at 1. cbn [fst snd val_has].
      rewrite (Z.eqb_sym z a). destruct (Z.eqb_spec a z) as [->|Hne].
      * fold (dir l z b). rewrite (dir_notin l z b Hnin), orb_false_r.
        simpl. rewrite orb_false_r, (Z.eqb_sym b z0). reflexivity.
      * simpl. exact IH1.
    + destruct (set_ints l0) as [zs|] eqn:Es; [|discriminate].
      destruct (overlap_loop l) as [o t'] eqn:E. destruct o; try discriminate.
      inversion H; subst. destruct (IH t' a b Hnd eq_refl) as [IH1 IH2].
      split; [|simpl; rewrite IH2; reflexivity].
      unfold ov_allowed, dir. cbn [ov_lookup existsb]. unfold entry_says at 1. cbn [fst snd val_has].
      rewrite (Z.eqb_sym z a). destruct (Z.eqb_spec a z) as [->|Hne].
      * fold (dir l z b). rewrite (dir_notin l z b Hnin), orb_false_r.
        simpl. apply (set_ints_mem l0 zs b Es).
      * simpl. exact IH1.
Qed.

Lemma nodupZ_NoDup : forall l, nodupZ l = true -> NoDup l.
Proof.
  induction l as [|x l IH]; intro H; [constructor|].
  apply nodupZ_cons in H. destruct H as [H1 H2]. constructor; [exact H1 | apply IH; exact H2].
Qed.

(* what the setter stores: the either-direction closure of the supplied table *)
Lemma setter_related : forall v t a b,
  nodupZ (int_keys v) = true ->
  overlap_setter v = (Accept, t) ->
  ov_allowed t a b = related v a b.
Proof.
  intros v t a b Hnd H. destruct v; try discriminate.
  - inversion H. reflexivity.
  - cbn [overlap_setter] in H. destruct (overlap_loop l) as [o t0] eqn:E.
    destruct o; try discriminate. inversion H; subst.
    destruct (overlap_loop_allowed l t0 a b Hnd E) as [H1 Hk].
    destruct (overlap_loop_allowed l t0 b a Hnd E) as [H2 _].
    rewrite allowed_symmetrise.
    + rewrite H1, H2, related_dir. reflexivity.
    + rewrite Hk. apply nodupZ_NoDup. exact Hnd.
Qed.

Lemma setter_table_nodup : forall v t,
  nodupZ (int_keys v) = true -> overlap_setter v = (Accept, t) ->
  exists t0, t = ov_symmetrise t0 /\ NoDup (map fst t0).
Proof.
  intros v t Hnd H. destruct v; try discriminate.
  - inversion H. exists []. split; [reflexivity | constructor].
  - cbn [overlap_setter] in H. destruct (overlap_loop l) as [o t0] eqn:E.
    destruct o; try discriminate. inversion H; subst. exists t0. split; [reflexivity|].
    destruct (overlap_loop_allowed l t0 0 0 Hnd E) as [_ Hk]. rewrite Hk.
    apply nodupZ_NoDup. exact Hnd.
Qed.

Lemma setter_accepts : forall v, accepted (fst (overlap_setter v)) = dom_overlapping v.
Proof.
  destruct v; try reflexivity.
  change (dom_overlapping (PDict l)) with (forallb entry_ok l).
  cbn [overlap_setter]. rewrite <- (overlap_loop_accepts l).
  destruct (overlap_loop l) as [[| | | |] t]; reflexivity.
Qed.

Lemma related_sym : forall v a b, related v a b = related v b a.
Proof.
  intros v a b. destruct v; try reflexivity. rewrite !related_dir. apply orb_comm.
Qed.

(* ---- checker accepts the model ------------------------------------------------------- *)
Lemma bl_eqb_map : forall {T} (f g : T -> bool) l,
  (forall x, f x = g x) -> bl_eqb (map f l) (map g l) = true.
Proof.
  intros T f g l H. induction l as [|x l IH]; [reflexivity|].
  simpl. rewrite H, eqb_reflx, IH. reflexivity.
Qed.

Lemma bll_eqb_map : forall {T} (f g : T -> list bool) l,
  (forall x, bl_eqb (f x) (g x) = true) -> bll_eqb (map f l) (map g l) = true.
Proof.
  intros T f g l H. induction l as [|x l IH]; [reflexivity|].
  simpl. rewrite H, IH. reflexivity.
Qed.

Lemma nth_matrix : forall (f : Z -> Z -> bool) u i j,
  (i < length u)%nat -> (j < length u)%nat ->
  nth j (nth i (map (fun a => map (fun b => f a b) u) u) []) false = f (nth i u 0) (nth j u 0).
Proof.
  intros f u i j Hi Hj.
  rewrite (nth_indep _ [] (map (fun b => f 0 b) u)) by (rewrite map_length; exact Hi).
  rewrite (map_nth (fun a => map (fun b => f a b) u) u 0 i).
  rewrite (nth_indep _ false (f (nth i u 0) 0)) by (rewrite map_length; exact Hj).
  rewrite (map_nth (fun b => f (nth i u 0) b) u 0 j). reflexivity.
Qed.

Lemma transpose_model : forall (f : Z -> Z -> bool) u,
  (forall a b, f a b = f b a) ->
  transpose_ok u (map (fun a => map (fun b => f a b) u) u) = true.
Proof.
  intros f u Hs. unfold transpose_ok. apply forallb_forall. intros i Hi.
  apply forallb_forall. intros j Hj. apply in_seq in Hi. apply in_seq in Hj.
  rewrite !nth_matrix by lia. rewrite (Hs (nth i u 0) (nth j u 0)). apply eqb_reflx.
Qed.

Lemma combine_map_in : forall {S T} (Q : S -> T) qs q r,
  In (q, r) (combine qs (map Q qs)) -> r = Q q.
Proof.
  intros S T Q qs. induction qs as [|x qs IH]; intros q r H; [contradiction|].
  simpl in H. destruct H as [H|H]; [inversion H; reflexivity | apply IH; exact H].
Qed.

Lemma query_pairs_model : forall v qs,
  query_pairs_ok qs (map (fun q => forallb (related v (fst q)) (snd q)) qs) = true.
Proof.
  intros v qs. unfold query_pairs_ok. apply forallb_forall. intros [[a oa] ra] Hx.
  apply forallb_forall. intros [[b ob] rb] Hy. cbn [fst snd].
  apply (combine_map_in (fun q => forallb (related v (fst q)) (snd q))) in Hx.
  apply (combine_map_in (fun q => forallb (related v (fst q)) (snd q))) in Hy.
  cbn [fst snd] in Hx, Hy.
  destruct oa as [|x [|]]; try reflexivity. destruct ob as [|y [|]]; try reflexivity.
  destruct ((a =? y) && (b =? x)) eqn:E; [|reflexivity].
  apply andb_prop in E. destruct E as [E1 E2]. apply Z.eqb_eq in E1. apply Z.eqb_eq in E2. subst.
  simpl. rewrite (related_sym v y x). apply eqb_reflx.
Qed.

Lemma chk_overlap_model : forall v univ qs,
  nodupZ (int_keys v) = true ->
  forallb (fun z => memZ z univ) (mentioned v) = true ->
  chk_C19_overlap v univ qs (fst (overlap_behaviour v univ qs)) (snd (overlap_behaviour v univ qs))
  = 0.
Proof.
  intros v univ qs Hnd Hm. unfold chk_C19_overlap. rewrite Hm. cbn [negb].
  unfold overlap_behaviour. destruct (overlap_setter v) as [o t] eqn:E. cbn [fst snd].
  pose proof (setter_accepts v) as Ha. rewrite E in Ha. cbn [fst] in Ha.
  rewrite Ha, eqb_reflx. cbn [negb].
  destruct (dom_overlapping v) eqn:Hd; [|reflexivity]. cbn [negb].
  apply accepted_true in Ha. subst o.
  assert (R : forall a b, ov_allowed t a b = related v a b)
    by (intros a b; apply (setter_related v t a b Hnd E)).
  cbn [ob_matrix ob_results].
  rewrite (bll_eqb_map (fun a => map (fun b => ov_allowed t a b) univ)
                       (fun a => map (fun b => related v a b) univ)).
  2:{ intro a. apply bl_eqb_map. intro b. apply R. }
  cbn [negb].
  rewrite (transpose_model (fun a b => ov_allowed t a b) univ).
  2:{ intros a b. rewrite !R. apply related_sym. }
  cbn [negb].
  assert (Q : map (fun q => ov_query t (fst q) (snd q)) qs
              = map (fun q => forallb (related v (fst q)) (snd q)) qs).
  { apply map_ext. intro q. rewrite query_forallb. apply forallb_ext'. intro o. apply R. }
  rewrite Q.
  rewrite (bl_eqb_map (fun q => forallb (related v (fst q)) (snd q))
                      (fun q => forallb (related v (fst q)) (snd q))) by reflexivity.
  cbn [negb]. rewrite query_pairs_model. reflexivity.
Qed.

(* ---- readable statements of the domains ------------------------------------------------ *)
Lemma valid_id : forall v, validate_id v = Accept <-> exists c, v = PStr c.
Proof.
  intro v. rewrite <- accepted_true, id_ok.
  destruct v; cbn [dom_id]; split; intro H; try discriminate H;
    try (destruct H as [c H]; discriminate H); eauto.
Qed.

Lemma valid_encoding : forall v,
  validate_encoding v = Accept <-> exists z, v = PInt z /\ z <> -2 /\ z <> -1 /\ z <> 0.
Proof.
  intro v. rewrite <- accepted_true, encoding_ok.
  destruct v; cbn [dom_encoding]; split; intro H; try discriminate H;
    try (destruct H as (z' & H & _); discriminate H).
  - exists z. rewrite !memZ_cons in H. cbn [memZ existsb] in H.
    destruct (Z.eqb_spec z (-2)), (Z.eqb_spec z (-1)), (Z.eqb_spec z 0); try discriminate H.
    repeat split; assumption.
  - destruct H as (z' & E & H1 & H2 & H3). inversion E; subst z'.
    rewrite !memZ_cons. cbn [memZ existsb].
    destruct (Z.eqb_spec z (-2)), (Z.eqb_spec z (-1)), (Z.eqb_spec z 0); try contradiction.
    reflexivity.
Qed.

Lemma valid_unit : forall v,
  unit_rule v = Accept <->
  (exists z, v = PInt z /\ (z = 0 \/ z = 1)) \/
  (exists q, v = PFloat q /\ (0 <= q)%Q /\ (q <= 1)%Q).
Proof.
  intro v. rewrite <- accepted_true, unit_ok.
  destruct v; cbn [dom_unit]; split; intro H; try discriminate H;
    try (destruct H as [(z' & H & _)|(q' & H & _)]; discriminate H).
  - left. exists z. split; [reflexivity|]. apply orb_prop in H.
    destruct H as [H|H]; apply Z.eqb_eq in H; [left|right]; exact H.
  - destruct H as [(z' & E & H)|(q' & E & _)]; [|discriminate E]. inversion E; subst z'.
    destruct H as [->| ->]; reflexivity.
  - right. exists q. apply andb_prop in H. destruct H as [H1 H2].
    split; [reflexivity|]. split; apply Qle_bool_iff; assumption.
  - destruct H as [(z' & E & _)|(q' & E & H1 & H2)]; [discriminate E|]. inversion E; subst q'.
    rewrite (proj2 (Qle_bool_iff _ _) H1), (proj2 (Qle_bool_iff _ _) H2). reflexivity.
Qed.

Lemma valid_range : forall v,
  range_rule v = Accept <-> v = PStr 1 \/ exists z, v = PInt z /\ 0 <= z.
Proof.
  intro v. rewrite <- accepted_true, range_ok.
  destruct v; cbn [dom_range]; split; intro H; try discriminate H;
    try (destruct H as [H|(z' & H & _)]; discriminate H).
  - right. exists z. split; [reflexivity | apply Z.leb_le; exact H].
  - destruct H as [H|(z' & E & H)]; [discriminate H|]. inversion E; subst z'.
    apply Z.leb_le. exact H.
  - left. apply Z.eqb_eq in H. subst. reflexivity.
  - destruct H as [H|(z' & E & _)]; [|discriminate E]. inversion H. reflexivity.
Qed.

Lemma valid_initial_health : forall v,
  validate_initial_health v = Accept <->
  v = PNone \/ v = PInt 1 \/ exists q, v = PFloat q /\ (0 < q)%Q /\ (q <= 1)%Q.
Proof.
  intro v. rewrite <- accepted_true, initial_health_ok.
  destruct v; cbn [dom_initial_health]; split; intro H; try discriminate H;
    try (destruct H as [H|[H|(q' & H & _)]]; discriminate H).
  - left. reflexivity.
  - reflexivity.
  - right. left. apply Z.eqb_eq in H. subst. reflexivity.
  - destruct H as [H|[H|(q' & E & _)]]; try discriminate. inversion H. reflexivity.
  - right. right. exists q. apply andb_prop in H. destruct H as [H1 H2].
    split; [reflexivity|]. split.
    + apply Qnot_le_lt. intro Hle. apply Qle_bool_iff in Hle. rewrite Hle in H1. discriminate H1.
    + apply Qle_bool_iff. exact H2.
  - destruct H as [H|[H|(q' & E & H1 & H2)]]; try discriminate. inversion E; subst q'.
    rewrite (proj2 (Qle_bool_iff _ _) H2), andb_true_r. apply negb_true_iff.
    destruct (Qle_bool q 0) eqn:Hq; [|reflexivity].
    apply Qle_bool_iff in Hq. exfalso. apply (Qlt_not_le _ _ H1 Hq).
Qed.

Lemma valid_orientation : forall v,
  validate_orientation v = Accept <->
  exists q, one_value v = Some q /\ (q == 1 \/ q == 2 \/ q == 3 \/ q == 4)%Q.
Proof.
  intro v. rewrite <- accepted_true, orientation_ok. unfold dom_orientation.
  destruct (one_value v) as [q|]; split; intro H.
  - exists q. split; [reflexivity|].
    repeat (apply orb_prop in H; destruct H as [H|H]); apply Qeq_bool_iff in H; tauto.
  - destruct H as (q' & E & H). inversion E; subst q'.
    destruct H as [H|[H|[H|H]]]; apply Qeq_bool_iff in H; rewrite H;
      rewrite ?orb_true_r; reflexivity.
  - discriminate H.
  - destruct H as (q' & E & _). discriminate E.
Qed.

Lemma valid_agents : forall v,
  validate_agents v = Accept <->
  exists l, v = PDict l /\ forall k a, In (k, a) l -> exists c, k = PStr c /\ a = PAgent c.
Proof.
  intro v. rewrite <- accepted_true, agents_ok.
  destruct v; cbn [dom_agents]; split; intro H; try discriminate H;
    try (destruct H as (l' & H & _); discriminate H).
  - exists l. split; [reflexivity|]. intros k a Hin.
    rewrite forallb_forall in H. specialize (H (k, a) Hin).
    destruct k; try discriminate H. destruct a; try discriminate H.
    apply Z.eqb_eq in H. subst. eauto.
  - destruct H as (l' & E & H). inversion E; subst l'. apply forallb_forall.
    intros [k a] Hin. destruct (H k a Hin) as (c & -> & ->). apply Z.eqb_refl.
Qed.

Lemma valid_attack_mapping : forall encs v,
  validate_attack_mapping encs v = Accept <->
  exists l, v = PDict l /\
    forall k a, In (k, a) l ->
      mentions_enc encs k = true /\
      ((exists z, a = PInt z /\ In z encs) \/
       (exists s, a = PSet s /\ forall e, In e s -> mentions_enc encs e = true)).
Proof.
  intros encs v. rewrite <- accepted_true, attack_mapping_ok.
  destruct v; cbn [dom_attack_mapping]; split; intro H; try discriminate H;
    try (destruct H as (l' & H & _); discriminate H).
  - exists l. split; [reflexivity|]. intros k a Hin.
    rewrite forallb_forall in H. specialize (H (k, a) Hin). cbn [fst snd] in H.
    apply andb_prop in H. destruct H as [H1 H2]. split; [exact H1|].
    destruct a; try discriminate H2.
    + left. exists z. split; [reflexivity | apply memZ_In; exact H2].
    + right. exists l0. split; [reflexivity|]. apply forallb_forall. exact H2.
  - destruct H as (l' & E & H). inversion E; subst l'. apply forallb_forall.
    intros [k a] Hin. cbn [fst snd]. destruct (H k a Hin) as [H1 H2]. rewrite H1. simpl.
    destruct H2 as [(z & -> & Hz)|(s & -> & Hs)].
    + apply memZ_In. exact Hz.
    + apply forallb_forall. exact Hs.
Qed.

Lemma valid_null_point : forall s v,
  validate_null_point s v = Accept <->
  truthy v = Some false \/
  (truthy v = Some true /\
   match s with
   | NDiscrete n => discrete_contains n v = true
   | NBox B => box_spec B v = true
   end).
Proof.
  intros s v. rewrite <- accepted_true, null_point_ok. unfold dom_null_point.
  destruct (truthy v) as [[|]|]; split; intro H.
  - right. split; [reflexivity|]. destruct s; exact H.
  - destruct H as [H|[_ H]]; [discriminate H|]. destruct s; exact H.
  - left. reflexivity.
  - reflexivity.
  - discriminate H.
  - destruct H as [H|[H _]]; discriminate H.
Qed.
