From Coq Require Import List Arith Lia Permutation.
From Abm Require Import Grid.Shuffle.
Import ListNotations.

Ltac leb_prop := repeat match goal with
  | H : (_ <=? _) = true |- _ => apply Nat.leb_le in H
  | H : (_ <=? _) = false |- _ => apply Nat.leb_gt in H
  end.

Lemma insert_comm : forall a b l, insert a (insert b l) = insert b (insert a l).
Proof.
  intros a b l; induction l as [|c r IH]; cbn [insert].
  - destruct (a <=? b) eqn:Eab; destruct (b <=? a) eqn:Eba; try reflexivity.
    + leb_prop. assert (a = b) by lia. subst; reflexivity.
    + exfalso; leb_prop; lia.
  - destruct (b <=? c) eqn:Ebc; destruct (a <=? c) eqn:Eac;
      destruct (a <=? b) eqn:Eab; destruct (b <=? a) eqn:Eba;
      cbn [insert]; rewrite ?Ebc, ?Eac, ?Eab, ?Eba; cbn [insert]; rewrite ?Ebc, ?Eac, ?Eab, ?Eba;
      try reflexivity; try (rewrite IH; reflexivity);
      try (exfalso; leb_prop; lia);
      try (leb_prop; assert (a = b) by lia; subst; reflexivity).
Qed.

Lemma isort_perm_eq : forall l1 l2, Permutation l1 l2 -> isort l1 = isort l2.
Proof.
  intros l1 l2 H; induction H as [|x l l' _ IH|x y l|l l' l'' _ IH1 _ IH2]; cbn [isort].
  - reflexivity.
  - rewrite IH; reflexivity.
  - apply insert_comm.
  - congruence.
Qed.

Lemma insert_perm : forall a l, Permutation (insert a l) (a :: l).
Proof.
  intros a l; induction l as [|b r IH]; cbn [insert].
  - apply Permutation_refl.
  - destruct (a <=? b).
    + apply Permutation_refl.
    + eapply perm_trans; [apply perm_skip, IH | apply perm_swap].
Qed.

Lemma isort_perm : forall l, Permutation (isort l) l.
Proof.
  induction l as [|a r IH]; cbn [isort]; [constructor|].
  eapply perm_trans; [apply insert_perm | apply perm_skip, IH].
Qed.

Lemma map_nth_seq : forall (l : list nat) d, map (fun i => nth i l d) (seq 0 (length l)) = l.
Proof.
  induction l as [|a r IH]; intros d; [reflexivity|].
  cbn [length seq map nth]. f_equal.
  rewrite <- seq_shift, map_map. cbn [nth]. apply IH.
Qed.

Lemma apply_perm_perm : forall p l,
    Permutation p (seq 0 (length l)) -> Permutation (apply_perm p l) l.
Proof.
  intros p l H. unfold apply_perm.
  eapply perm_trans; [apply Permutation_map, H|]. rewrite map_nth_seq. apply Permutation_refl.
Qed.

(* ---- one reset ---- *)
Lemma order_fixed_indep : forall p cur1 cur2,
    Permutation cur1 cur2 -> order_fixed p cur1 = order_fixed p cur2.
Proof. intros p c1 c2 H; unfold order_fixed; rewrite (isort_perm_eq _ _ H); reflexivity. Qed.

Lemma order_fixed_perm : forall p cur,
    Permutation p (seq 0 (length cur)) -> Permutation (order_fixed p cur) cur.
Proof.
  intros p cur H. unfold order_fixed.
  eapply perm_trans; [apply apply_perm_perm | apply isort_perm].
  rewrite (Permutation_length (isort_perm cur)). exact H.
Qed.

(* ---- histories: every shuffle of the history is a permutation of the right length ---- *)
Definition good (n : nat) (ps : list (list nat)) : Prop := Forall (fun p => Permutation p (seq 0 n)) ps.

Lemma orders_fixed_perm : forall ps cur, good (length cur) ps -> Permutation (orders_fixed ps cur) cur.
Proof.
  induction ps as [|p ps IH]; intros cur G; cbn [orders_fixed fold_left]; [apply Permutation_refl|].
  inversion G as [|? ? Hp Hps]; subst.
  assert (P1 : Permutation (order_fixed p cur) cur) by (apply order_fixed_perm; exact Hp).
  eapply perm_trans; [|exact P1].
  apply IH. rewrite (Permutation_length P1). exact Hps.
Qed.

(* the order after a history followed by one more reset depends only on that last shuffle and on
   the SET of agents: a used state and a newly built one agree *)
Lemma orders_fixed_used_vs_fresh : forall ps p cur,
    good (length cur) ps ->
    orders_fixed (ps ++ [p]) cur = order_fixed p cur.
Proof.
  intros ps p cur G. unfold orders_fixed. rewrite fold_left_app. cbn [fold_left].
  apply order_fixed_indep. apply (orders_fixed_perm ps cur G).
Qed.

(* the code as found: one earlier episode is enough to tell a used state from a new one *)
Lemma order_prefix_refuted :
  exists p0 p cur, good (length cur) [p0; p] /\
    orders_prefix ([p0] ++ [p]) cur <> order_prefix p cur.
Proof.
  exists [1; 2; 0], [1; 2; 0], [0; 1; 2]. split.
  - repeat constructor.
    + change (Permutation [1; 2; 0] [0; 1; 2]).
      eapply perm_trans; [apply perm_skip, perm_swap | ].
      eapply perm_trans; [apply perm_swap | apply perm_skip, Permutation_refl].
    + change (Permutation [1; 2; 0] [0; 1; 2]).
      eapply perm_trans; [apply perm_skip, perm_swap | ].
      eapply perm_trans; [apply perm_swap | apply perm_skip, Permutation_refl].
  - vm_compute. discriminate.
Qed.
