(* C01, last clause, over whole histories: on the scripted accumulate-and-reset simulation,
   under any of the three managers, for ANY list of calls (resets and steps, accepted or
   rejected, in or out of protocol, any number of episodes) and any agent:

     delivered since the last reset + pending in the accumulator = accrued since the last reset

   and get_reward is read exactly for the keys of the reward dictionaries that are returned.
   Hence whenever an agent is reported, everything that accrued for it up to that simulation
   time has been delivered, each amount once; and after its final (done = true) report nothing
   more is delivered to it in that episode. *)
From Coq Require Import ZArith List Bool Arith Lia.
From Abm Require Import Base.Sx Ctl.Managers Ctl.ScriptSim Ctl.MgrCheck
     Proofs.Managers_proofs Proofs.Managers_hist Proofs.MgrCheck_proofs.
Import ListNotations.
Open Scope Z_scope.

(* ---------------- the vocabulary of the statements ---------------- *)

(* what one reward dictionary gives to agent a: the sum of a's entries *)
Fixpoint rew_sum (a : nat) (l : list (nat * Z)) : Z :=
  match l with
  | [] => 0
  | kv :: l' => (if Nat.eqb (fst kv) a then snd kv else 0) + rew_sum a l'
  end.

(* delivered to a since the last successful reset (response RObs), along a list of responses;
   [acc] is what was delivered before the list starts *)
Fixpoint ep_delivered (a : nat) (rs : list (resp Z Z)) (acc : Z) : Z :=
  match rs with
  | [] => acc
  | RObs _ :: rs' => ep_delivered a rs' 0
  | ROut o :: rs' => ep_delivered a rs' (acc + rew_sum a (o_rew o))
  | _ :: rs' => ep_delivered a rs' acc
  end.

(* the number of accepted steps (responses ROut) since the last successful reset *)
Fixpoint ep_time (rs : list (resp Z Z)) (acc : nat) : nat :=
  match rs with
  | [] => acc
  | RObs _ :: rs' => ep_time rs' O
  | ROut _ :: rs' => ep_time rs' (S acc)
  | _ :: rs' => ep_time rs' acc
  end.

(* what row t of the script accrues for agent a (agents are 0 .. sc_n - 1) *)
Definition acc_at (sc : script) (t a : nat) : Z :=
  if Nat.ltb a (sc_n sc) then nth a (r_acc (row_at sc t)) 0 else 0.

(* accrued for a by the rows 1 .. T: the simulation steps of an episode up to time T *)
Fixpoint accrued (sc : script) (a : nat) (T : nat) : Z :=
  match T with O => 0 | S T' => accrued sc a T' + acc_at sc T a end.

(* the simulation's accumulator for a: accrued and not yet read *)
Definition pending (s : sst) (a : nat) : Z := nth a (s_pend s) 0.

(* the keys of the reward dictionary of a response *)
Definition resp_keys (r : resp Z Z) : list nat :=
  match r with ROut o => map fst (o_rew o) | _ => [] end.

Definition resp_wfo (r : resp Z Z) : Prop :=
  match r with ROut o => wfo o | _ => True end.

(* ---------------- sums over the reads of one output ---------------- *)
Lemma nth_set_nth_zero l : forall i, nth i (set_nth l i 0) 0 = 0.
Proof. induction l as [|x l IH]; intros [|i]; simpl; try reflexivity. apply IH. Qed.

(* read-and-reset: whatever the order and multiplicity of the reads, the amounts returned for
   a plus what stays in a's accumulator is what was there before *)
Lemma rew_sum_rews a ks : forall p,
  rew_sum a (rews p ks) + nth a (zero_at p ks) 0 = nth a p 0.
Proof.
  induction ks as [|b ks IH]; intros p; [cbn; lia|].
  change (zero_at p (b :: ks)) with (zero_at (set_nth p b 0) ks).
  cbn [rews rew_sum fst snd]. specialize (IH (set_nth p b 0)).
  destruct (Nat.eqb b a) eqn:E.
  - apply Nat.eqb_eq in E. subst b. rewrite nth_set_nth_zero in IH. lia.
  - apply Nat.eqb_neq in E. rewrite nth_set_nth_other in IH by (intros C; apply E; symmetry; exact C).
    lia.
Qed.

Lemma map_fst_rews ks : forall p, map fst (rews p ks) = ks.
Proof. induction ks as [|b ks IH]; intros p; [reflexivity|]. cbn. rewrite IH. reflexivity. Qed.

Lemma rew_sum_notin a l : ~ In a (map fst l) -> rew_sum a l = 0.
Proof.
  induction l as [|[b v] l IH]; intros Hn; [reflexivity|]. cbn [rew_sum fst snd].
  destruct (Nat.eqb b a) eqn:E.
  - apply Nat.eqb_eq in E. subst b. exfalso. apply Hn. left. reflexivity.
  - rewrite IH; [lia|]. intros C. apply Hn. right. exact C.
Qed.

Lemma nth_zero_at_in_any a ks : forall q, In a ks -> nth a (zero_at q ks) 0 = 0.
Proof.
  intros q Ha. destruct (Nat.lt_ge_cases a (length q)) as [Hl|Hl].
  - apply nth_zero_at_in; assumption.
  - apply nth_overflow. rewrite length_zero_at. exact Hl.
Qed.

Lemma out_is_wfo sc t p ks o : out_is sc t p ks o -> wfo o /\ map fst (o_rew o) = ks.
Proof.
  intros (Oobs & Orew & Odn & Oinf). unfold wfo, keys.
  rewrite Oobs, Orew, Odn, Oinf, !map_map, map_fst_rews. cbn [fst]. rewrite !map_id. tauto.
Qed.

(* ---------------- one call ---------------- *)
Section OneScript.
  Variable sc : script.
  Variable k : mgr.
  Hypothesis Hk : k <> MTurnPrefix.
  Notation SS := (script_sim sc).
  Notation n := (sc_n sc).

  (* the state of the ledger of agent a: time, delivered, and the length of the accumulators *)
  Definition ledger (a : nat) (m : mstate sst) (T : nat) (D : Z) : Prop :=
    s_t (m_sim m) = T /\ length (s_pend (m_sim m)) = n /\
    D + pending (m_sim m) a = accrued sc a T.

  Lemma reset_sim m obs m' :
    do_call SS k m CReset = (RObs obs, m') -> m_sim m' = ss_reset sc (m_sim m).
  Proof.
    intros H. destruct k; [| | |contradiction]; cbn [do_call] in H.
    - unfold all_reset in H. rewrite ss_thread_obs in H. injection H as _ <-. reflexivity.
    - unfold turn_reset in H. destruct (order SS) as [|a0 rest]; [discriminate|].
      cbn in H. injection H as _ <-. reflexivity.
    - unfold dyn_reset in H. rewrite ss_thread_obs in H. injection H as _ <-. reflexivity.
  Qed.

  Lemma nth_add_acc a p t : length p = n ->
    nth a (add_lists p (r_acc (row_at sc t))) 0 = nth a p 0 + acc_at sc t a.
  Proof.
    intros Lp. unfold acc_at. destruct (Nat.ltb a n) eqn:E.
    - apply Nat.ltb_lt in E. apply nth_add_lists. lia.
    - apply Nat.ltb_ge in E. rewrite !nth_overflow; [lia|lia|rewrite length_add_lists; lia].
  Qed.

  (* an accepted step, for the ledger of a *)
  Lemma step_ledger a m acts sh o m' T D :
    do_call SS k m (CStep acts sh) = (ROut o, m') -> ledger a m T D ->
    ledger a m' (S T) (D + rew_sum a (o_rew o)) /\
    wfo o /\ s_reads (m_sim m') = s_reads (m_sim m) ++ map fst (o_rew o) /\
    (In a (map fst (o_rew o)) -> pending (m_sim m') a = 0).
  Proof.
    intros H (Lt & Lp & Ld).
    pose proof (model_step sc k m acts sh o m' Hk H) as MS. cbv zeta in MS.
    destruct MS as (_ & OI & (Tt & Tp & _ & Trd) & _).
    set (ks := exp_keys sc k (S (s_t (m_sim m))) (m_done m) (m_ptr m)) in *.
    destruct (out_is_wfo _ _ _ _ _ OI) as (W & Ek). destruct OI as (_ & Orew & _ & _).
    change (s_t (ss_step sc (m_sim m) match k with MAll => sh | _ => acts end))
      with (S (s_t (m_sim m))) in Tt.
    change (s_pend (ss_step sc (m_sim m) match k with MAll => sh | _ => acts end))
      with (add_lists (s_pend (m_sim m)) (r_acc (row_at sc (S (s_t (m_sim m)))))) in *.
    change (s_reads (ss_step sc (m_sim m) match k with MAll => sh | _ => acts end))
      with (s_reads (m_sim m)) in Trd.
    set (p1 := add_lists (s_pend (m_sim m)) (r_acc (row_at sc (S (s_t (m_sim m)))))) in *.
    split; [|split; [exact W|split; [rewrite Ek; exact Trd|]]].
    - split; [rewrite Tt, Lt; reflexivity|]. split.
      + rewrite Tp, length_zero_at. unfold p1. rewrite length_add_lists. exact Lp.
      + unfold pending in *. rewrite Tp, Orew. pose proof (rew_sum_rews a ks p1) as R.
        unfold p1 in R at 3. rewrite (nth_add_acc a _ _ Lp), Lt in R. cbn [accrued]. lia.
    - rewrite Ek. intros Ha. unfold pending. rewrite Tp. apply nth_zero_at_in_any, Ha.
  Qed.

  Lemma reset_ledger a m obs m' :
    do_call SS k m CReset = (RObs obs, m') ->
    ledger a m' O 0 /\ s_reads (m_sim m') = s_reads (m_sim m).
  Proof.
    intros H. unfold ledger. rewrite (reset_sim _ _ _ H). cbn. split; [|reflexivity].
    split; [reflexivity|]. split; [apply length_zeros|]. unfold pending. cbn.
    rewrite nth_zeros. reflexivity.
  Qed.

  (* ---------------- any list of calls, from any state whose ledger is balanced ---------------- *)
  Lemma run_ledger a cs : forall m T D,
    ledger a m T D ->
    let r := run SS k m cs in
    ledger a (snd r) (ep_time (fst r) T) (ep_delivered a (fst r) D) /\
    s_reads (m_sim (snd r)) = s_reads (m_sim m) ++ concat (map resp_keys (fst r)) /\
    Forall resp_wfo (fst r).
  Proof.
    induction cs as [|c cs IH]; intros m T D L; cbv zeta.
    - cbn. rewrite app_nil_r. split; [exact L|]. split; [reflexivity|constructor].
    - cbn [run]. destruct (do_call SS k m c) as [r m1] eqn:E.
      pose proof (do_call_shape SS k m c r m1 Hk E) as Sh.
      assert (Same : m1 = m -> resp_keys r = [] -> resp_wfo r ->
                     ep_time (r :: fst (run SS k m1 cs)) T = ep_time (fst (run SS k m1 cs)) T ->
                     ep_delivered a (r :: fst (run SS k m1 cs)) D
                     = ep_delivered a (fst (run SS k m1 cs)) D ->
                     ledger a (snd (run SS k m1 cs)) (ep_time (r :: fst (run SS k m1 cs)) T)
                            (ep_delivered a (r :: fst (run SS k m1 cs)) D) /\
                     s_reads (m_sim (snd (run SS k m1 cs)))
                     = s_reads (m_sim m) ++ concat (map resp_keys (r :: fst (run SS k m1 cs))) /\
                     Forall resp_wfo (r :: fst (run SS k m1 cs))).
      { intros -> Ek Ew E1 E2. specialize (IH m T D L). cbv zeta in IH.
        destruct IH as (I1 & I2 & I3). rewrite E1, E2. cbn [map concat]. rewrite Ek. cbn [app].
        split; [exact I1|]. split; [exact I2|]. constructor; assumption. }
      destruct (run SS k m1 cs) as [rs m2] eqn:Er. cbn [fst snd] in *.
      destruct c as [|acts sh]; destruct r as [obs|o| | |]; try contradiction;
        try (apply Same; [exact Sh|reflexivity|exact I|reflexivity|reflexivity]).
      + (* a successful reset *)
        destruct (reset_ledger a _ _ _ E) as (L1 & R1).
        specialize (IH m1 O 0 L1). cbv zeta in IH. rewrite Er in IH. cbn [fst snd] in IH.
        destruct IH as (I1 & I2 & I3). cbn [ep_time ep_delivered map concat resp_keys app].
        split; [exact I1|]. split; [rewrite I2, R1; reflexivity|]. constructor; [exact I|exact I3].
      + (* an accepted step *)
        destruct (step_ledger a _ _ _ _ _ T D E L) as (L1 & W & R1 & _).
        specialize (IH m1 (S T) (D + rew_sum a (o_rew o)) L1). cbv zeta in IH.
        rewrite Er in IH. cbn [fst snd] in IH. destruct IH as (I1 & I2 & I3).
        cbn [ep_time ep_delivered map concat resp_keys].
        split; [exact I1|]. split; [rewrite I2, R1, <- app_assoc; reflexivity|].
        constructor; [exact W|exact I3].
  Qed.

  Lemma ledger_init a : ledger a (init (ss_init sc)) O 0.
  Proof.
    split; [reflexivity|]. split; [apply length_zeros|]. unfold pending. cbn.
    rewrite nth_zeros. reflexivity.
  Qed.

  (* ---- A1: conservation at every point of every history ---- *)
  Theorem conservation_history cs a :
    let r := run SS k (init (ss_init sc)) cs in
    s_t (m_sim (snd r)) = ep_time (fst r) O /\
    ep_delivered a (fst r) 0 + pending (m_sim (snd r)) a = accrued sc a (ep_time (fst r) O) /\
    s_reads (m_sim (snd r)) = concat (map resp_keys (fst r)) /\
    Forall resp_wfo (fst r).
  Proof.
    cbv zeta. destruct (run_ledger a cs _ _ _ (ledger_init a)) as ((L1 & _ & L3) & R & W).
    cbn in R. tauto.
  Qed.

  (* ---------------- histories in pieces ---------------- *)
  Lemma run_app cs1 : forall m cs2,
    run SS k m (cs1 ++ cs2)
    = (fst (run SS k m cs1) ++ fst (run SS k (snd (run SS k m cs1)) cs2),
       snd (run SS k (snd (run SS k m cs1)) cs2)).
  Proof.
    induction cs1 as [|c cs1 IH]; intros m cs2.
    - cbn. destruct (run SS k m cs2); reflexivity.
    - cbn [app run]. destruct (do_call SS k m c) as [r m1]. rewrite IH.
      destruct (run SS k m1 cs1) as [rs1 m2]. cbn [fst snd]. reflexivity.
  Qed.

  Lemma ep_delivered_app a rs1 : forall rs2 D,
    ep_delivered a (rs1 ++ rs2) D = ep_delivered a rs2 (ep_delivered a rs1 D).
  Proof.
    induction rs1 as [|r rs1 IH]; intros rs2 D; [reflexivity|].
    destruct r; cbn [app ep_delivered]; apply IH.
  Qed.

  Lemma ep_time_app rs1 : forall rs2 T,
    ep_time (rs1 ++ rs2) T = ep_time rs2 (ep_time rs1 T).
  Proof.
    induction rs1 as [|r rs1 IH]; intros rs2 T; [reflexivity|].
    destruct r; cbn [app ep_time]; apply IH.
  Qed.

  (* ---- A2: whenever a is reported, all that accrued for it so far has been delivered ---- *)
  Theorem delivered_at_report cs c a o :
    let r := run SS k (init (ss_init sc)) cs in
    fst (do_call SS k (snd r) c) = ROut o -> In a (keys o) ->
    ep_delivered a (fst r ++ [ROut o]) 0 = accrued sc a (ep_time (fst r ++ [ROut o]) O) /\
    pending (m_sim (snd (do_call SS k (snd r) c))) a = 0.
  Proof.
    cbv zeta. intros Hr Ha.
    destruct (run_ledger a cs _ _ _ (ledger_init a)) as (L & _ & _). cbv zeta in L.
    destruct (run SS k (init (ss_init sc)) cs) as [rs m] eqn:Er. cbn [fst snd] in *.
    destruct (do_call SS k m c) as [r m1] eqn:E. cbn [fst snd] in *. subst r.
    pose proof (do_call_shape SS k m c _ m1 Hk E) as Sh.
    destruct c as [|acts sh]; [contradiction|].
    destruct (step_ledger a _ _ _ _ _ _ _ E L) as ((_ & _ & L3) & W & _ & Z0).
    destruct W as (W1 & _). rewrite W1 in Z0. specialize (Z0 Ha).
    rewrite ep_delivered_app, ep_time_app. cbn [ep_delivered ep_time].
    split; [rewrite Z0 in L3; lia|exact Z0].
  Qed.
End OneScript.

(* ---------------- A3: the final report ----------------
   In-protocol histories (steps only between a reset and __all__): once an agent has been
   reported with done = true, no later output of that episode contains it.  So the total
   delivered to it in the episode is what accrued up to the time of that report. *)
Section Final.
  Variable sc : script.
  Variable k : mgr.
  Hypothesis Hwf : wf_script k sc = true.
  Notation SS := (script_sim sc).

  Let Hk : k <> MTurnPrefix := wf_k sc k Hwf.
  Let Hs : sim_ok SS k := wf_sim_ok sc k Hwf.
  Let Hst : stable_ok SS k := wf_stable_ok sc k Hwf.

  (* a is out of the episode: the episode is over, or a is in done_agents *)
  Definition sealed (a : nat) (ph : phase) (m : mstate sst) : Prop :=
    ph = Ended \/ (ph = Live /\ In a (m_done m)).

  Lemma sealed_rest a cs : forall m ph D,
    hinv SS k ph m -> in_protocol (trace SS k m ph cs) -> sealed a ph m ->
    (forall obs, ~ In (RObs obs) (fst (run SS k m cs))) ->
    ep_delivered a (fst (run SS k m cs)) D = D.
  Proof.
    induction cs as [|c cs IH]; intros m ph D Hi Hp Hsl Hno; [reflexivity|].
    cbn [trace run] in *. destruct (do_call SS k m c) as [r m1] eqn:E.
    assert (Hc : match c with CStep _ _ => ph = Live | CReset => True end).
    { specialize (Hp _ (or_introl eq_refl)). cbn in Hp. destruct c; [exact I|exact Hp]. }
    pose proof (hinv_step SS k ph m c r m1 Hs Hi Hc E) as Hi1.
    pose proof (in_protocol_tail _ _ Hp) as Hp1.
    pose proof (do_call_shape SS k m c r m1 Hk E) as Sh.
    destruct (run SS k m1 cs) as [rs m2] eqn:Er. cbn [fst snd] in *.
    assert (Hno1 : forall obs, ~ In (RObs obs) rs) by (intros obs C; apply (Hno obs); right; exact C).
    assert (IH' : forall ph1 D1, hinv SS k ph1 m1 -> in_protocol (trace SS k m1 ph1 cs) ->
                    sealed a ph1 m1 -> ep_delivered a rs D1 = D1).
    { intros ph1 D1 A1 A2 A3. specialize (IH m1 ph1 D1 A1 A2 A3). rewrite Er in IH. apply IH, Hno1. }
    destruct c as [|acts sh].
    - destruct r as [obs|o| | |]; try contradiction.
      + exfalso. apply (Hno obs). left. reflexivity.
      + subst m1. cbn [ep_delivered]. apply (IH' _ _ Hi1 Hp1 Hsl).
    - subst ph. destruct Hsl as [C|(_ & Hd)]; [discriminate|].
      destruct r as [obs|o| | |]; try contradiction;
        try (subst m1; cbn [ep_delivered]; apply (IH' _ _ Hi1 Hp1); right; tauto).
      destruct (step_summary SS k _ _ _ _ _ Hs Hi E) as (W & _ & Fr & _ & Inc & _).
      destruct W as (W1 & _). cbn [ep_delivered].
      rewrite rew_sum_notin by (rewrite W1; intros C; apply (Fr a C), Hd).
      rewrite Z.add_0_r. apply (IH' _ _ Hi1 Hp1). cbn [next_phase].
      destruct (o_all o); [left; reflexivity|right; split; [reflexivity|apply Inc, Hd]].
  Qed.

  Lemma trace_app cs1 : forall m ph cs2,
    trace SS k m ph (cs1 ++ cs2)
    = trace SS k m ph cs1
      ++ trace SS k (snd (run SS k m cs1))
               (fold_left next_phase (fst (run SS k m cs1)) ph) cs2.
  Proof.
    induction cs1 as [|c cs1 IH]; intros m ph cs2; [reflexivity|].
    cbn [app trace run]. destruct (do_call SS k m c) as [r m1]. rewrite IH.
    destruct (run SS k m1 cs1) as [rs1 m2]. cbn [fst snd fold_left app]. reflexivity.
  Qed.

  Lemma in_protocol_app (t1 t2 : list (@tentry sst Z Z Z)) : in_protocol (t1 ++ t2) -> in_protocol t1 /\ in_protocol t2.
  Proof.
    intros H. split; intros e He; apply H, in_or_app; [left|right]; exact He.
  Qed.

  Lemma hinv_run cs : forall m ph,
    hinv SS k ph m -> in_protocol (trace SS k m ph cs) ->
    hinv SS k (fold_left next_phase (fst (run SS k m cs)) ph) (snd (run SS k m cs)).
  Proof.
    induction cs as [|c cs IH]; intros m ph Hi Hp; [exact Hi|].
    cbn [trace run] in *. destruct (do_call SS k m c) as [r m1] eqn:E.
    assert (Hc : match c with CStep _ _ => ph = Live | CReset => True end).
    { specialize (Hp _ (or_introl eq_refl)). cbn in Hp. destruct c; [exact I|exact Hp]. }
    pose proof (hinv_step SS k ph m c r m1 Hs Hi Hc E) as Hi1.
    specialize (IH m1 _ Hi1 (in_protocol_tail _ _ Hp)).
    destruct (run SS k m1 cs) as [rs m2]. cbn [fst snd fold_left] in *. exact IH.
  Qed.

  Theorem final_report cs1 c cs2 a o :
    in_protocol (trace SS k (init (ss_init sc)) Fresh (cs1 ++ c :: cs2)) ->
    let r1 := run SS k (init (ss_init sc)) cs1 in
    let r := do_call SS k (snd r1) c in
    let r2 := run SS k (snd r) cs2 in
    fst r = ROut o -> In (a, true) (o_done o) ->
    (forall obs, ~ In (RObs obs) (fst r2)) ->
    fst (run SS k (init (ss_init sc)) (cs1 ++ c :: cs2)) = fst r1 ++ ROut o :: fst r2 /\
    ep_delivered a (fst r1 ++ ROut o :: fst r2) 0
    = accrued sc a (ep_time (fst r1 ++ [ROut o]) O).
  Proof.
    cbv zeta. intros Hp Hr Ha Hno.
    assert (Hak : In a (keys o)).
    { pose proof Hp as Hp0. rewrite trace_app in Hp0. apply in_protocol_app in Hp0 as (_ & Hp2).
      cbn [trace] in Hp2. unfold keys. revert Hp2 Hr Ha.
      set (m1 := snd (run SS k (init (ss_init sc)) cs1)).
      set (ph1 := fold_left next_phase (fst (run SS k (init (ss_init sc)) cs1)) Fresh).
      intros Hp2 Hr Ha. destruct (do_call SS k m1 c) as [r m2] eqn:E. cbn [fst] in Hr. subst r.
      pose proof (do_call_shape SS k m1 c _ m2 Hk E) as Sh. destruct c as [|acts sh]; [contradiction|].
      pose proof (Hp2 _ (or_introl eq_refl)) as Hl. cbn in Hl.
      pose proof (hinv_run cs1 (init (ss_init sc)) Fresh (hinv_init SS k (ss_init sc))) as Hi1. fold m1 ph1 in Hi1.
      assert (Hp1 : in_protocol (trace SS k (init (ss_init sc)) Fresh cs1)).
      { rewrite trace_app in Hp. apply in_protocol_app in Hp as (Hp1 & _). exact Hp1. }
      specialize (Hi1 Hp1). rewrite Hl in Hi1.
      destruct (step_summary SS k _ _ _ _ _ Hs Hi1 E) as ((_ & W2 & _) & _).
      fold (keys o). rewrite <- W2. apply in_map_iff. exists (a, true). tauto. }
    destruct (delivered_at_report sc k Hk cs1 c a o Hr Hak) as (D1 & _).
    split.
    - rewrite (run_app sc k cs1). cbn [fst run].
      destruct (do_call SS k (snd (run SS k (init (ss_init sc)) cs1)) c) as [r m2].
      cbn [fst snd] in *. subst r. destruct (run SS k m2 cs2) as [rs2 m3]. reflexivity.
    - change (fst (run SS k (init (ss_init sc)) cs1) ++ ROut o
              :: fst (run SS k (snd (do_call SS k (snd (run SS k (init (ss_init sc)) cs1)) c)) cs2))
        with (fst (run SS k (init (ss_init sc)) cs1) ++ [ROut o]
              ++ fst (run SS k (snd (do_call SS k (snd (run SS k (init (ss_init sc)) cs1)) c)) cs2)).
      rewrite app_assoc, ep_delivered_app, D1.
      (* the rest of the episode delivers nothing to a *)
      rewrite trace_app in Hp. apply in_protocol_app in Hp as (Hp1 & Hp2).
      pose proof (hinv_run cs1 (init (ss_init sc)) Fresh (hinv_init SS k (ss_init sc)) Hp1) as Hi1.
      cbn [trace] in Hp2. revert Hp2 Hi1 Hr Hno.
      set (m1 := snd (run SS k (init (ss_init sc)) cs1)).
      set (ph1 := fold_left next_phase (fst (run SS k (init (ss_init sc)) cs1)) Fresh).
      intros Hp2 Hi1 Hr Hno. destruct (do_call SS k m1 c) as [r m2] eqn:E.
      cbn [fst snd] in *. subst r.
      pose proof (do_call_shape SS k m1 c _ m2 Hk E) as Sh. destruct c as [|acts sh]; [contradiction|].
      pose proof (Hp2 _ (or_introl eq_refl)) as Hl. cbn in Hl. rewrite Hl in *.
      pose proof (hinv_step SS k Live m1 (CStep acts sh) (ROut o) m2 Hs Hi1 eq_refl E) as Hi2.
      destruct (step_summary SS k _ _ _ _ _ Hs Hi1 E) as (_ & _ & _ & _ & _ & _ & _ & Bk).
      apply (sealed_rest a cs2 m2 _ _ Hi2 (in_protocol_tail _ _ Hp2)); [|exact Hno].
      cbn [next_phase]. destruct (o_all o) eqn:Eo; [left; reflexivity|].
      right. split; [reflexivity|]. apply (Bk Hst eq_refl a Ha).
  Qed.
End Final.

(* ---------------- non-vacuity ----------------
   Three learning agents under the turn-based manager, two episodes.  a1 finishes at t = 1
   (reported done on the way to a2), the simulation itself finishes at t = 3 and cuts a0 and a2
   (flush).  The script keeps accruing for a1 after its final report (20, 200): that is never
   delivered; everything else is, once. *)
Definition rh_sc : script :=
  {| sc_n := 3; sc_learn := [true; true; true];
     sc_rows := [mkrow [false; false; false] false [0%nat] [0; 0; 0];
                 mkrow [false; true; false] false [0%nat] [1; 2; 3];
                 mkrow [false; true; false] false [0%nat] [10; 20; 30];
                 mkrow [false; true; false] true [0%nat] [100; 200; 300]] |}.
Definition rh_ep : list (call Z) := [CReset; st1 0 1; st1 2 1; st1 0 1].
Definition rh_cs : list (call Z) := rh_ep ++ rh_ep.

Definition resp_rewards (r : resp Z Z) : list (nat * Z) :=
  match r with ROut o => o_rew o | _ => [] end.
Definition resp_dones (r : resp Z Z) : list (nat * bool) :=
  match r with ROut o => o_done o | _ => [] end.

Lemma rh_nonvacuous :
  let SS := script_sim rh_sc in
  let rs := fst (run SS MTurn (init (ss_init rh_sc)) rh_cs) in
  wf_script MTurn rh_sc = true /\
  in_protocol (trace SS MTurn (init (ss_init rh_sc)) Fresh rh_cs) /\
  map resp_rewards rs
  = [[]; [(1%nat, 2); (2%nat, 3)]; [(0%nat, 11)]; [(0%nat, 100); (2%nat, 330)];
     []; [(1%nat, 2); (2%nat, 3)]; [(0%nat, 11)]; [(0%nat, 100); (2%nat, 330)]] /\
  map resp_dones rs
  = [[]; [(1%nat, true); (2%nat, false)]; [(0%nat, false)]; [(0%nat, false); (2%nat, false)];
     []; [(1%nat, true); (2%nat, false)]; [(0%nat, false)]; [(0%nat, false); (2%nat, false)]] /\
  (* first episode, then the whole history (= second episode): a1 finished early, a2 and a0
     were cut by the simulation-level finish *)
  (ep_delivered 1 (firstn 4 rs) 0 = 2 /\ accrued rh_sc 1 1 = 2 /\ accrued rh_sc 1 3 = 222) /\
  (ep_delivered 2 (firstn 4 rs) 0 = 333 /\ accrued rh_sc 2 3 = 333) /\
  (ep_delivered 0 (firstn 4 rs) 0 = 111 /\ accrued rh_sc 0 3 = 111) /\
  (ep_delivered 1 rs 0 = 2 /\ ep_delivered 2 rs 0 = 333 /\ ep_delivered 0 rs 0 = 111 /\
   ep_time rs O = 3%nat) /\
  (* the hypotheses of the final-report theorem for a1 in the second episode *)
  (exists o, fst (do_call SS MTurn (snd (run SS MTurn (init (ss_init rh_sc)) (rh_ep ++ [CReset])))
                          (st1 0 1)) = ROut o /\ In (1%nat, true) (o_done o) /\
             forall obs, ~ In (RObs obs)
               (fst (run SS MTurn
                      (snd (do_call SS MTurn
                              (snd (run SS MTurn (init (ss_init rh_sc)) (rh_ep ++ [CReset])))
                              (st1 0 1)))
                      [st1 2 1; st1 0 1]))).
Proof.
  cbv zeta. split; [vm_compute; reflexivity|].
  split; [apply in_protocolb_ok; vm_compute; reflexivity|].
  split; [vm_compute; reflexivity|]. split; [vm_compute; reflexivity|].
  split; [split; [vm_compute; reflexivity|split; vm_compute; reflexivity]|].
  split; [split; vm_compute; reflexivity|]. split; [split; vm_compute; reflexivity|].
  split; [split; [vm_compute; reflexivity|split; [vm_compute; reflexivity|split; vm_compute; reflexivity]]|].
  exists (mkout [(1%nat, 101); (2%nat, 102)] [(1%nat, 2); (2%nat, 3)]
                [(1%nat, true); (2%nat, false)] [(1%nat, -101); (2%nat, -102)] false).
  split; [vm_compute; reflexivity|]. split; [left; reflexivity|].
  assert (E : forallb (fun r : resp Z Z => match r with RObs _ => false | _ => true end)
             (fst (run (script_sim rh_sc) MTurn
                    (snd (do_call (script_sim rh_sc) MTurn
                            (snd (run (script_sim rh_sc) MTurn (init (ss_init rh_sc)) (rh_ep ++ [CReset])))
                            (st1 0 1)))
                    [st1 2 1; st1 0 1])) = true) by (vm_compute; reflexivity).
  rewrite forallb_forall in E. intros obs C. specialize (E _ C). discriminate E.
Qed.
