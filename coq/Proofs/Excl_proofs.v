(* Proofs about Spaces/Excl.v: the exclusive-channel code is a bijection between [0, excl_size)
   and the value vectors / Dict points that use at most one channel. *)
From Coq Require Import ZArith List Bool Lia Arith.
From Abm Require Import Base.Sx Spaces.Space Spaces.Ravel Spaces.Excl Proofs.Ravel_proofs.
Import ListNotations.
Open Scope Z_scope.

Definition allpos (ns : list Z) : bool := forallb (fun d => 0 <? d) ns.
Definition tot (ns : list Z) : Z := zsum ns - Z.of_nat (length ns).

Lemma excl_size_tot ns : excl_size ns = tot ns + 1.
Proof. reflexivity. Qed.

Lemma tot_nil : tot [] = 0.
Proof. reflexivity. Qed.

Lemma tot_cons n ns : tot (n :: ns) = (n - 1) + tot ns.
Proof. unfold tot. cbn [zsum fold_right length]. rewrite Nat2Z.inj_succ. fold (zsum ns). lia. Qed.

Lemma tot_nonneg ns : allpos ns = true -> 0 <= tot ns.
Proof.
  induction ns as [|n ns IH]; intros H; [rewrite tot_nil; lia|].
  cbn in H. apply andb_true_iff in H as [Hn Hr]. apply Z.ltb_lt in Hn.
  rewrite tot_cons. specialize (IH Hr). lia.
Qed.

Lemma spec_size_tot ns : spec_size ns = tot ns + 1.
Proof.
  unfold spec_size. assert (G : forall a, fold_left (fun a n => a + (n - 1)) ns a = a + tot ns).
  { induction ns as [|n ns IH]; intros a; cbn [fold_left]; [rewrite tot_nil; lia|].
    rewrite IH, tot_cons. lia. }
  rewrite G. lia.
Qed.

(* ---------- a single-pass description of the two loops of wrap_point ------------------- *)
Fixpoint dg (ns : list Z) (k : Z) : list Z :=
  match ns with
  | [] => []
  | n :: ns' =>
      if k <? n then k :: repeat 0 (length ns')
      else match ns' with
           | [] => [k - n + 1]
           | _ => 0 :: dg ns' (k - n + 1)
           end
  end.

Lemma find_ge ns : forall j k, (j <= fst (excl_find ns j k))%nat.
Proof.
  induction ns as [|n ns IH]; intros j k; cbn [excl_find]; [simpl; lia|].
  destruct (k <? n); [simpl; lia|].
  destruct ns as [|m ns']; [simpl; lia|].
  specialize (IH (S j) (k - n + 1)). lia.
Qed.

Lemma fill_zero ns : forall j i k, (i < j)%nat -> excl_fill ns j i k = repeat 0 (length ns).
Proof.
  induction ns as [|n ns IH]; intros j i k H; cbn [excl_fill length repeat]; [reflexivity|].
  assert (E : Nat.eqb j i = false) by (apply Nat.eqb_neq; lia).
  rewrite E, IH by lia. reflexivity.
Qed.

Lemma fill_find ns : forall j k,
  excl_fill ns j (fst (excl_find ns j k)) (snd (excl_find ns j k)) = dg ns k.
Proof.
  induction ns as [|n ns IH]; intros j k; [reflexivity|].
  cbn [excl_find dg]. destruct (k <? n) eqn:Hk.
  - cbn [fst snd excl_fill]. rewrite Nat.eqb_refl, fill_zero by lia. reflexivity.
  - destruct ns as [|m ns'].
    + cbn [fst snd excl_fill]. rewrite Nat.eqb_refl. reflexivity.
    + cbn [excl_fill]. pose proof (find_ge (m :: ns') (S j) (k - n + 1)) as Hge.
      assert (E : Nat.eqb j (fst (excl_find (m :: ns') (S j) (k - n + 1))) = false)
        by (apply Nat.eqb_neq; lia).
      rewrite E. f_equal. apply IH.
Qed.

Lemma digits_dg ns k : excl_digits ns k = dg ns k.
Proof.
  unfold excl_digits. rewrite (surjective_pairing (excl_find ns 0 k)). apply fill_find.
Qed.

Lemma digits_ok_cons n ns r rs :
  digits_ok (n :: ns) (r :: rs) = in_range 0 n r && digits_ok ns rs.
Proof. reflexivity. Qed.

Lemma excl_acc_cons0 n ns r rs acc :
  excl_acc (n :: ns) (0 :: r :: rs) acc = excl_acc ns (r :: rs) (acc + n - 1).
Proof. reflexivity. Qed.

Lemma spec_code_cons n ns r rs :
  spec_code (n :: ns) (r :: rs) =
  if r =? 0 then (if spec_code ns rs =? 0 then 0 else (n - 1) + spec_code ns rs) else r.
Proof. reflexivity. Qed.

(* ---------- zero vectors ------------------------------------------------------------------ *)
Lemma zeros_ok ns : allpos ns = true -> digits_ok ns (repeat 0 (length ns)) = true.
Proof.
  unfold digits_ok. induction ns as [|n ns IH]; intros H; [reflexivity|].
  cbn in H. apply andb_true_iff in H as [Hn Hr]. apply Z.ltb_lt in Hn.
  cbn [length repeat forall2b]. rewrite (IH Hr), andb_true_r. apply in_range_spec. lia.
Qed.

Lemma nz_zeros m : nz_count (repeat 0 m) = 0%nat.
Proof. unfold nz_count. induction m as [|m IH]; [reflexivity|]. cbn. exact IH. Qed.

Lemma acc_zeros ns : forall acc, excl_acc ns (repeat 0 (length ns)) acc = (acc + tot ns, 0).
Proof.
  induction ns as [|n ns IH]; intros acc; [rewrite tot_nil, Z.add_0_r; reflexivity|].
  cbn [length repeat excl_acc]. cbn [Z.eqb negb].
  destruct ns as [|m ns'].
  - cbn [length repeat]. rewrite tot_cons, tot_nil. f_equal. lia.
  - rewrite IH, (tot_cons n). cbn [length repeat]. f_equal. lia.
Qed.

Lemma code_zeros ns : spec_code ns (repeat 0 (length ns)) = 0.
Proof.
  induction ns as [|n ns IH]; [reflexivity|].
  cbn [length repeat spec_code]. cbn [Z.eqb]. rewrite IH. reflexivity.
Qed.

Lemma nz_zero_all rs : nz_count rs = 0%nat -> rs = repeat 0 (length rs).
Proof.
  unfold nz_count. induction rs as [|r rs IH]; [reflexivity|].
  cbn [filter length repeat]. destruct (r =? 0) eqn:E; cbn [negb].
  - intros H. apply Z.eqb_eq in E. subst r. f_equal. exact (IH H).
  - cbn [length]. discriminate.
Qed.

Lemma nz_cons r rs :
  nz_count (r :: rs) = ((if (r =? 0)%Z then 0 else 1) + nz_count rs)%nat.
Proof. unfold nz_count. cbn [filter]. destruct (r =? 0); reflexivity. Qed.

(* ---------- decode, for the non-zero codes -------------------------------------------------- *)
Lemma dg_spec ns :
  allpos ns = true -> forall k acc, 1 <= k <= tot ns ->
  digits_ok ns (dg ns k) = true /\ nz_count (dg ns k) = 1%nat /\
  (exists v, v <> 0 /\ excl_acc ns (dg ns k) acc = (acc + k, v)) /\
  spec_code ns (dg ns k) = k.
Proof.
  induction ns as [|n ns IH]; intros Hpos k acc Hk; [rewrite tot_nil in Hk; lia|].
  cbn in Hpos. apply andb_true_iff in Hpos as [Hn Hr]. apply Z.ltb_lt in Hn.
  rewrite tot_cons in Hk. cbn [dg]. destruct (k <? n) eqn:Hlt.
  - apply Z.ltb_lt in Hlt. assert (Hk0 : (k =? 0) = false) by (apply Z.eqb_neq; lia).
    repeat split.
    + rewrite digits_ok_cons, (zeros_ok ns Hr), andb_true_r. apply in_range_spec. lia.
    + rewrite nz_cons, Hk0, nz_zeros. reflexivity.
    + exists k. split; [lia|]. cbn [excl_acc]. rewrite Hk0. reflexivity.
    + rewrite spec_code_cons, Hk0. reflexivity.
  - apply Z.ltb_ge in Hlt. destruct ns as [|m ns'].
    + rewrite tot_nil in Hk. lia.
    + assert (Hk' : 1 <= k - n + 1 <= tot (m :: ns')) by lia.
      destruct (IH Hr (k - n + 1) (acc + n - 1) Hk') as (I1 & I2 & (v & Hv & I3) & I4).
      repeat split.
      * rewrite digits_ok_cons, I1, andb_true_r. apply in_range_spec. lia.
      * rewrite nz_cons. cbn [Z.eqb]. exact I2.
      * exists v. split; [exact Hv|].
        destruct (dg (m :: ns') (k - n + 1)) as [|d ds] eqn:Ed.
        { unfold nz_count in I2. cbn in I2. discriminate. }
        rewrite excl_acc_cons0, I3. f_equal. lia.
      * rewrite spec_code_cons. cbn [Z.eqb]. rewrite I4.
        assert (E : (k - n + 1 =? 0) = false) by (apply Z.eqb_neq; lia). rewrite E. lia.
Qed.

Lemma dg_zero ns : allpos ns = true -> dg ns 0 = repeat 0 (length ns).
Proof.
  destruct ns as [|n ns]; intros H; [reflexivity|].
  cbn in H. apply andb_true_iff in H as [Hn _]. cbn [dg]. rewrite Hn. reflexivity.
Qed.

(* ---------- encode, for vectors with exactly one non-zero channel -------------------------- *)
Lemma acc_spec ns :
  forall rs acc, digits_ok ns rs = true -> nz_count rs = 1%nat ->
  exists c v, v <> 0 /\ excl_acc ns rs acc = (acc + c, v) /\ 1 <= c <= tot ns /\ dg ns c = rs.
Proof.
  induction ns as [|n ns IH]; intros [|r rs] acc Hd Hnz; try discriminate.
  pose proof (digits_ok_pos _ _ Hd) as Hpos.
  rewrite digits_ok_cons in Hd. apply andb_true_iff in Hd as [Hr Hd].
  apply in_range_spec in Hr.
  cbn in Hpos. apply andb_true_iff in Hpos as [Hn Hpos]. apply Z.ltb_lt in Hn.
  pose proof (tot_nonneg ns Hpos) as Htot.
  rewrite nz_cons in Hnz. rewrite tot_cons. destruct (r =? 0) eqn:Er.
  - apply Z.eqb_eq in Er. subst r. cbn [Nat.add] in Hnz.
    destruct (IH rs (acc + n - 1) Hd Hnz) as (c & v & Hv & Hacc & Hc & Hdg).
    exists (n - 1 + c), v. split; [exact Hv|]. split; [|split; [lia|]].
    + destruct rs as [|r' rs'].
      { unfold nz_count in Hnz. cbn in Hnz. discriminate. }
      rewrite excl_acc_cons0, Hacc. f_equal. lia.
    + cbn [dg]. assert (E : (n - 1 + c <? n) = false) by (apply Z.ltb_ge; lia). rewrite E.
      destruct ns as [|m ns'].
      { destruct rs; [|discriminate]. unfold nz_count in Hnz. cbn in Hnz. discriminate. }
      replace (n - 1 + c - n + 1) with c by lia. rewrite Hdg. reflexivity.
  - apply Z.eqb_neq in Er. assert (Hz : nz_count rs = 0%nat) by lia.
    apply nz_zero_all in Hz. pose proof (digits_ok_length _ _ Hd) as Hlen.
    exists r, r. split; [exact Er|]. split; [|split; [lia|]].
    + cbn [excl_acc]. assert (E : (r =? 0) = false) by (apply Z.eqb_neq; exact Er).
      rewrite E. reflexivity.
    + cbn [dg]. assert (E : (r <? n) = true) by (apply Z.ltb_lt; lia). rewrite E.
      rewrite <- Hlen, <- Hz. reflexivity.
Qed.

(* ---------- the bijection on value vectors --------------------------------------------------- *)
Theorem excl_digits_ok ns k :
  allpos ns = true -> 0 <= k < excl_size ns ->
  digits_ok ns (excl_digits ns k) = true /\ (nz_count (excl_digits ns k) <= 1)%nat /\
  excl_undigits ns (excl_digits ns k) = k /\ spec_code ns (excl_digits ns k) = k.
Proof.
  intros Hpos Hk. rewrite excl_size_tot in Hk. rewrite digits_dg.
  destruct (Z.eq_dec k 0) as [-> | Hnz].
  - rewrite (dg_zero ns Hpos). split; [apply zeros_ok, Hpos|]. split; [rewrite nz_zeros; lia|].
    split; [|apply code_zeros]. unfold excl_undigits. rewrite acc_zeros. reflexivity.
  - assert (Hk' : 1 <= k <= tot ns) by lia.
    destruct (dg_spec ns Hpos k 0 Hk') as (I1 & I2 & (v & Hv & I3) & I4).
    split; [exact I1|]. split; [lia|]. split; [|exact I4].
    unfold excl_undigits. rewrite I3. apply Z.eqb_neq in Hv. rewrite Hv. lia.
Qed.

Theorem excl_undigits_ok ns rs :
  digits_ok ns rs = true -> (nz_count rs <= 1)%nat ->
  0 <= excl_undigits ns rs < excl_size ns /\ excl_digits ns (excl_undigits ns rs) = rs /\
  spec_code ns rs = excl_undigits ns rs.
Proof.
  intros Hd Hnz. pose proof (digits_ok_pos _ _ Hd) as Hpos.
  pose proof (tot_nonneg ns Hpos) as Htot. rewrite excl_size_tot, digits_dg.
  destruct (nz_count rs) as [|[|c]] eqn:Ec; [| |lia].
  - apply nz_zero_all in Ec. pose proof (digits_ok_length _ _ Hd) as Hlen. rewrite Hlen in Ec.
    rewrite Ec. unfold excl_undigits. rewrite acc_zeros. cbn [Z.eqb].
    split; [lia|]. split; [apply dg_zero, Hpos|apply code_zeros].
  - destruct (acc_spec ns rs 0 Hd Ec) as (c & v & Hv & Hacc & Hc & Hdg).
    unfold excl_undigits. rewrite Hacc. apply Z.eqb_neq in Hv. rewrite Hv.
    split; [lia|]. split; [exact Hdg|].
    destruct (dg_spec ns Hpos c 0 Hc) as (_ & _ & _ & I4). rewrite Hdg in I4. lia.
Qed.

(* the zero vector has exactly one code ("no duplicate zero vectors") *)
Corollary excl_zero_unique ns k :
  allpos ns = true -> 0 <= k < excl_size ns ->
  (excl_digits ns k = repeat 0 (length ns) <-> k = 0).
Proof.
  intros Hpos Hk. destruct (excl_digits_ok ns k Hpos Hk) as (_ & _ & E & _). split.
  - intros Hz. rewrite Hz in E. unfold excl_undigits in E. rewrite acc_zeros in E.
    cbn [Z.eqb] in E. lia.
  - intros ->. rewrite digits_dg. apply dg_zero, Hpos.
Qed.

Corollary excl_digits_injective ns k1 k2 :
  allpos ns = true -> 0 <= k1 < excl_size ns -> 0 <= k2 < excl_size ns ->
  excl_digits ns k1 = excl_digits ns k2 -> k1 = k2.
Proof.
  intros Hpos H1 H2 E. destruct (excl_digits_ok ns k1 Hpos H1) as (_ & _ & E1 & _).
  destruct (excl_digits_ok ns k2 Hpos H2) as (_ & _ & E2 & _). congruence.
Qed.

(* ---------- the codes 0 .. size-1 decode, in this order, to the enumeration ------------------ *)
Lemma enum_shift ns : forall pre, excl_enum_from (S pre) ns = map (cons 0) (excl_enum_from pre ns).
Proof.
  induction ns as [|n ns IH]; intros pre; [reflexivity|].
  cbn [excl_enum_from]. rewrite map_app, map_map, IH. reflexivity.
Qed.

Lemma seq_add a : forall len s, seq (a + s) len = map (fun j => (a + j)%nat) (seq s len).
Proof.
  induction len as [|len IH]; intros s; [reflexivity|].
  cbn [seq map]. f_equal. rewrite <- IH. f_equal. lia.
Qed.

Lemma dg_enum ns :
  allpos ns = true ->
  map (dg ns) (map Z.of_nat (seq 1 (Z.to_nat (tot ns)))) = excl_enum_from 0 ns.
Proof.
  induction ns as [|n ns IH]; intros Hpos; [reflexivity|].
  cbn in Hpos. apply andb_true_iff in Hpos as [Hn Hr]. apply Z.ltb_lt in Hn.
  pose proof (tot_nonneg ns Hr) as Htot. rewrite tot_cons.
  replace (Z.to_nat (n - 1 + tot ns)) with ((Z.to_nat n - 1) + Z.to_nat (tot ns))%nat by lia.
  rewrite seq_app, !map_app. cbn [excl_enum_from]. f_equal.
  - unfold zrange1. rewrite !map_map. apply map_ext_in. intros v Hv. apply in_seq in Hv.
    cbn [dg]. assert (E : (Z.of_nat v <? n) = true) by (apply Z.ltb_lt; lia). rewrite E. reflexivity.
  - rewrite enum_shift, <- (IH Hr), !map_map.
    replace (1 + (Z.to_nat n - 1))%nat with (Z.to_nat n - 1 + 1)%nat by lia.
    rewrite seq_add.
    rewrite map_map. apply map_ext_in. intros j Hj. apply in_seq in Hj.
    cbn [dg]. assert (E : (Z.of_nat (Z.to_nat n - 1 + j) <? n) = false) by (apply Z.ltb_ge; lia).
    rewrite E. destruct ns as [|m ns'].
    + rewrite tot_nil in Hj. simpl in Hj. lia.
    + f_equal. f_equal. lia.
Qed.

Theorem excl_enumerates ns :
  allpos ns = true -> map (excl_digits ns) (zrange0 (excl_size ns)) = excl_enum ns.
Proof.
  intros Hpos. pose proof (tot_nonneg ns Hpos) as Htot. rewrite excl_size_tot.
  unfold zrange0, excl_enum. replace (Z.to_nat (tot ns + 1)) with (S (Z.to_nat (tot ns))) by lia.
  cbn [seq map]. rewrite digits_dg. change (Z.of_nat 0) with 0. rewrite (dg_zero ns Hpos). f_equal.
  rewrite <- (dg_enum ns Hpos). apply map_ext. intros k. apply digits_dg.
Qed.

Lemma excl_enum_length ns :
  allpos ns = true -> length (excl_enum ns) = Z.to_nat (excl_size ns).
Proof.
  intros Hpos. rewrite <- (excl_enumerates ns Hpos). unfold zrange0.
  rewrite !map_length, seq_length. reflexivity.
Qed.

(* ---------- lifted to Dict spaces and points ------------------------------------------------ *)
Lemma map2_unravel ss : forall ds, map2 unravel ss ds = unravel_list ss ds.
Proof. induction ss as [|s ss IH]; intros [|d ds]; cbn; try reflexivity. rewrite IH. reflexivity. Qed.

Lemma map2_ravel ss : forall ps, map2 ravel ss ps = map fst (ravel_list ss ps).
Proof. induction ss as [|s ss IH]; intros [|p ps]; cbn; try reflexivity. rewrite IH. reflexivity. Qed.

Definition one_channel (ss : list space) (p : point) : Prop :=
  (nz_count (map2 ravel ss (point_children p)) <= 1)%nat.

Lemma all_good_list ss : Forall good ss.
Proof. apply Forall_forall. intros s _. apply all_good. Qed.

Lemma dict_parts ss :
  wf (Dict ss) = true -> ravel_ok (Dict ss) = true -> wf_list ss = true /\ ok_list ss = true.
Proof.
  intros Hwf Hok. rewrite wf_Dict in Hwf. apply andb_true_iff in Hwf as [_ Hwf].
  rewrite ok_Dict in Hok. split; assumption.
Qed.

Theorem excl_decode_ok ss k :
  wf (Dict ss) = true -> ravel_ok (Dict ss) = true -> 0 <= k < excl_size (map size ss) ->
  member (Dict ss) (excl_decode ss k) = true /\ one_channel ss (excl_decode ss k) /\
  excl_encode ss (excl_decode ss k) = k /\
  spec_code (map size ss) (map2 ravel ss (point_children (excl_decode ss k))) = k.
Proof.
  intros Hwf Hok Hk. destruct (dict_parts ss Hwf Hok) as [Hw Ho].
  pose proof (good_list_pos ss (all_good_list ss) Hw Ho) as Hpos.
  destruct (excl_digits_ok _ k Hpos Hk) as (D1 & D2 & D3 & D4).
  destruct (good_list_bwd ss (all_good_list ss) Hw Ho _ D1) as (B1 & B2 & _).
  unfold excl_decode, one_channel, excl_encode. cbn [point_children].
  rewrite member_Dict, map2_unravel, map2_ravel, B2. repeat split; assumption.
Qed.

Theorem excl_encode_ok ss p :
  wf (Dict ss) = true -> ravel_ok (Dict ss) = true ->
  member (Dict ss) p = true -> one_channel ss p ->
  0 <= excl_encode ss p < excl_size (map size ss) /\ excl_decode ss (excl_encode ss p) = p.
Proof.
  intros Hwf Hok Hm H1. destruct (dict_parts ss Hwf Hok) as [Hw Ho].
  destruct p as [z|v|v|ps]; try discriminate. rewrite member_Dict in Hm.
  destruct (good_list_fwd ss (all_good_list ss) Hw Ho ps Hm) as (_ & F2 & F3).
  unfold one_channel in H1. cbn [point_children] in H1. rewrite map2_ravel in H1.
  destruct (excl_undigits_ok _ _ F2 H1) as (U1 & U2 & _).
  unfold excl_encode, excl_decode. rewrite map2_ravel. split; [exact U1|].
  rewrite U2, map2_unravel, F3. reflexivity.
Qed.

(* a channel that is "not used" holds the zero point of its space *)
Lemma ravel_zero_iff s p :
  wf s = true -> ravel_ok s = true -> member s p = true -> (ravel s p = 0 <-> p = unravel s 0).
Proof.
  intros Hw Ho Hm. destruct (all_good s Hw Ho) as (Hpos & Hf & Hb). split.
  - intros E. destruct (Hf p Hm) as (_ & _ & R). rewrite E in R. symmetry. exact R.
  - intros ->. apply (Hb 0). lia.
Qed.

Lemma excl_space_size ss :
  excl_space ss = Discrete (fold_left (fun a s => a + (size s - 1)) ss 1).
Proof.
  unfold excl_space. f_equal. rewrite excl_size_tot, <- spec_size_tot. unfold spec_size.
  assert (G : forall a, fold_left (fun a n => a + (n - 1)) (map size ss) a
                        = fold_left (fun a s => a + (size s - 1)) ss a).
  { induction ss as [|s ss IH]; intros a; [reflexivity|]. cbn [map fold_left]. apply IH. }
  apply G.
Qed.

(* ---------- the checker accepts the model ---------------------------------------------------- *)
Lemma forallb_map {X Y} (f : Y -> bool) (g : X -> Y) l : forallb f (map g l) = forallb (fun x => f (g x)) l.
Proof. induction l as [|x l IH]; [reflexivity|]. cbn. rewrite IH. reflexivity. Qed.

Lemma forall2b_map_r {X Y} (f : X -> Y -> bool) (g : X -> Y) l :
  forall2b f l (map g l) = forallb (fun x => f x (g x)) l.
Proof. induction l as [|x l IH]; [reflexivity|]. cbn. rewrite IH. reflexivity. Qed.

Lemma forallb_in {X} (f : X -> bool) l : (forall x, In x l -> f x = true) -> forallb f l = true.
Proof. intros H. apply forallb_forall. exact H. Qed.

Lemma zlist_eqb_refl l : zlist_eqb l l = true.
Proof. induction l as [|a l IH]; [reflexivity|]. cbn. rewrite Z.eqb_refl, IH. reflexivity. Qed.

Theorem chk_excl_model ss whole ks :
  wf (Dict ss) = true -> ravel_ok (Dict ss) = true ->
  (forall k, In k ks -> 0 <= k < excl_size (map size ss)) ->
  (whole = true -> ks = zrange0 (excl_size (map size ss))) ->
  chk_excl ss whole ks (fst (excl_behaviour ss ks)) (snd (excl_behaviour ss ks)) = 1.
Proof.
  intros Hwf Hok Hks Hwhole. unfold chk_excl, excl_behaviour. cbn [fst snd].
  rewrite spec_size_tot, excl_size_tot, Z.eqb_refl. cbn [negb].
  rewrite map_length, Nat.eqb_refl. cbn [negb].
  rewrite !forallb_map, !forall2b_map_r. cbn [fst snd].
  assert (A3 : forallb (fun k => member (Dict ss) (excl_decode ss k)) ks = true).
  { apply forallb_in. intros k Hk. apply (excl_decode_ok ss k Hwf Hok (Hks k Hk)). }
  assert (A4 : forallb (fun k => Nat.leb (nz_count (map2 ravel ss (point_children (excl_decode ss k)))) 1)
                       ks = true).
  { apply forallb_in. intros k Hk. apply Nat.leb_le.
    apply (excl_decode_ok ss k Hwf Hok (Hks k Hk)). }
  assert (A5 : forallb (fun k => spec_code (map size ss)
                                   (map2 ravel ss (point_children (excl_decode ss k))) =? k) ks = true).
  { apply forallb_in. intros k Hk. apply Z.eqb_eq.
    apply (excl_decode_ok ss k Hwf Hok (Hks k Hk)). }
  assert (A6 : forallb (fun k => excl_encode ss (excl_decode ss k) =? k) ks = true).
  { apply forallb_in. intros k Hk. apply Z.eqb_eq.
    apply (excl_decode_ok ss k Hwf Hok (Hks k Hk)). }
  rewrite A3, A4, A5, A6. cbn [negb].
  destruct whole; [|reflexivity]. rewrite (Hwhole eq_refl), <- excl_size_tot, zlist_eqb_refl. reflexivity.
Qed.
