(* Proofs about Grid/Move.v: a move succeeds exactly when the independent specification can_move
   says so, changes only the mover, and preserves the consistency invariant. *)
From Coq Require Import ZArith List Bool Arith Lia.
From Abm Require Import Base.Sx Grid.Overlap Grid.Grid Grid.Move Proofs.Grid_proofs.
Import ListNotations.
Open Scope Z_scope.

Lemma pos_eqb_eq p q : pos_eqb p q = true <-> p = Some q.
Proof.
  destruct p as [p'|]; cbn; [|split; discriminate].
  rewrite cell_eqb_eq. split; [intros ->; reflexivity|intros E; injection E; auto].
Qed.

Lemma others_at_In ags : forall k i q j,
  In j (others_at ags k i q) <->
  (k <= j)%nat /\ j <> i /\
  exists b, nth_error ags (j - k) = Some b /\ a_active b = true /\ a_pos b = Some q.
Proof.
  induction ags as [|a r IH]; intros k i q j; cbn [others_at].
  - split; [intros []|]. intros (_ & _ & b & Hb & _). destruct (j - k)%nat; discriminate.
  - rewrite in_app_iff, IH. split.
    + intros [H|(Hle & N & b & Hb & Hact & Hpos)].
      * destruct (a_active a && pos_eqb (a_pos a) q && negb (Nat.eqb k i)) eqn:E; [|destruct H].
        destruct H as [<-|[]]. apply andb_true_iff in E as [E E3]. apply andb_true_iff in E as [E1 E2].
        apply negb_true_iff, Nat.eqb_neq in E3. apply pos_eqb_eq in E2.
        split; [lia|]. split; [exact E3|]. exists a. rewrite Nat.sub_diag. auto.
      * split; [lia|]. split; [exact N|]. exists b.
        replace (j - k)%nat with (S (j - S k)) by lia. auto.
    + intros (Hle & N & b & Hb & Hact & Hpos).
      destruct (Nat.eq_dec j k) as [->|Nk].
      * left. rewrite Nat.sub_diag in Hb. cbn in Hb. injection Hb as ->.
        rewrite Hact. apply pos_eqb_eq in Hpos. rewrite Hpos.
        apply Nat.eqb_neq in N. rewrite N. cbn. left. reflexivity.
      * right. split; [lia|]. split; [exact N|]. exists b.
        replace (j - k)%nat with (S (j - S k)) in Hb by lia. auto.
Qed.

(* under the invariant the cell dictionary of q holds exactly the active agents positioned at q *)
Lemma cell_iff_others s i q : ginv s ->
  forall j, (In j (cell_get (g_cells s) q) /\ j <> i) <-> In j (others_at (g_agents s) O i q).
Proof.
  intros [H1 H2 H3 H4 H5 H6] j. rewrite others_at_In, Nat.sub_0_r. split.
  - intros [Hj N]. destruct (H2 q j Hj) as (b & Hb & Hact & Hpos).
    split; [lia|]. split; [exact N|]. exists b. auto.
  - intros (_ & N & b & Hb & Hact & Hpos). split; [|exact N].
    apply (H4 j b q ltac:(discriminate) Hb Hact Hpos).
Qed.

Lemma forallb_same_set {X} (f : X -> bool) (l m : list X) :
  (forall x, In x l <-> In x m) -> forallb f l = forallb f m.
Proof.
  intros H. destruct (forallb f l) eqn:E1, (forallb f m) eqn:E2; try reflexivity.
  - rewrite forallb_forall in E1. assert (forallb f m = true); [|congruence].
    apply forallb_forall. intros x Hx. apply E1, H, Hx.
  - rewrite forallb_forall in E2. assert (forallb f l = true); [|congruence].
    apply forallb_forall. intros x Hx. apply E2, H, Hx.
Qed.

Lemma forallb_map' {X Y} (f : Y -> bool) (g : X -> Y) l :
  forallb f (map g l) = forallb (fun x => f (g x)) l.
Proof. induction l as [|x l IH]; cbn; [reflexivity|rewrite IH; reflexivity]. Qed.

Lemma query_can s i a from to : ginv s -> agent s i = Some a -> a_active a = true ->
  a_pos a = Some from -> to <> from ->
  query s i to =
  forallb (fun j => ov_allowed (g_ov s) (a_enc a) (enc_of s j)) (others_at (g_agents s) O i to).
Proof.
  intros G Ha Hact Hpos N. unfold query. rewrite ov_query_forallb, forallb_map'.
  unfold enc_of at 1. rewrite Ha.
  apply forallb_same_set. intros j. rewrite <- (cell_iff_others s i to G j). split; [|tauto].
  intros Hj. split; [exact Hj|]. intros ->.
  destruct (gi_cell_agent _ _ G to i Hj) as (a' & Ha' & _ & Hp'). congruence.
Qed.

Definition dest (from d : cell) : cell := (fst from + fst d, snd from + snd d).

(* what a successful displacement looks like *)
Definition displaced (s s' : gstate) (i : nat) (a : arec) (from to : cell) : Prop :=
  g_agents s' = upd_nth (g_agents s) i (with_pos a (Some to)) /\
  agent s' i = Some (with_pos a (Some to)) /\
  (forall j, j <> i -> agent s' j = agent s j) /\
  g_rows s' = g_rows s /\ g_cols s' = g_cols s /\ g_ov s' = g_ov s /\
  (forall q, q <> from -> q <> to -> cell_get (g_cells s') q = cell_get (g_cells s) q) /\
  cell_get (g_cells s') from = dict_del (cell_get (g_cells s) from) i /\
  cell_get (g_cells s') to = cell_get (g_cells s) to ++ [i].

Lemma inside_same s s' p : g_rows s' = g_rows s -> g_cols s' = g_cols s -> inside s' p = inside s p.
Proof. intros E1 E2. unfold inside. rewrite E1, E2. reflexivity. Qed.

Theorem move_by_spec s i a from d :
  ginv s -> agent s i = Some a -> a_active a = true -> a_pos a = Some from ->
  exists s', move_by s i d = MOk (can_move s i d) s' /\ ginv s' /\
    (can_move s i d = false -> s' = s) /\
    (can_move s i d = true -> dest from d = from -> s' = s) /\
    (can_move s i d = true -> dest from d <> from -> displaced s s' i a from (dest from d)).
Proof.
  intros G Ha Hact Hpos. unfold move_by, can_move. rewrite Ha, Hpos. fold (dest from d).
  set (to := dest from d). destruct (inside s to) eqn:Hin; cbn [andb].
  2:{ exists s. split; [reflexivity|]. split; [exact G|]. split; [reflexivity|]. split; discriminate. }
  destruct (cell_eqb to from) eqn:Eq; cbn [orb].
  { exists s. split; [reflexivity|]. split; [exact G|]. split; [reflexivity|]. split; [reflexivity|].
    apply cell_eqb_eq in Eq. intros _ N. contradiction. }
  apply cell_eqb_neq in Eq.
  rewrite <- (query_can s i a from to G Ha Hact Hpos Eq).
  destruct (query s i to) eqn:Hq.
  2:{ exists s. split; [reflexivity|]. split; [exact G|]. split; [reflexivity|]. split; discriminate. }
  destruct (remove_spec s i a from G Ha Hact Hpos)
    as (s1 & R & G1 & Ag1 & Er & Ec & Eo & Hno & Hoth & Hfrom).
  rewrite R.
  assert (Ha1 : agent s1 i = Some a) by (unfold agent; rewrite Ag1; exact Ha).
  assert (Hin1 : inside s1 to = true) by (rewrite (inside_same s s1) by assumption; exact Hin).
  assert (Hq1 : query s1 i to = true).
  { apply query_spec. intros j Hj. rewrite Hoth in Hj by exact Eq.
    unfold enc_of, agent. rewrite Eo, Ag1. apply (proj1 (query_spec s i to) Hq), Hj. }
  destruct (place_spec s1 i a to G1 Ha1 Hact Hno Hin1 Hq1)
    as (s2 & P & G2 & Ag2 & Er2 & Ec2 & Eo2 & Hoth2 & Hto2).
  rewrite P. cbn [snd]. exists s2. split; [reflexivity|]. split; [exact G2|].
  split; [discriminate|]. split; [intros _ C; contradiction|]. intros _ _.
  unfold displaced. repeat split.
  - rewrite Ag2, Ag1. reflexivity.
  - unfold agent. rewrite Ag2. apply nth_error_upd_same with a. rewrite Ag1. exact Ha.
  - intros j N. unfold agent. rewrite Ag2, nth_error_upd_other by exact N. rewrite Ag1. reflexivity.
  - congruence.
  - congruence.
  - congruence.
  - intros q N1 N2. rewrite Hoth2 by exact N2. apply Hoth, N1.
  - rewrite Hoth2 by (intros C; apply Eq; symmetry; exact C). exact Hfrom.
  - rewrite Hto2, Hoth by exact Eq. reflexivity.
Qed.

(* any move operation whatsoever (also by an agent that is dead or not placed) keeps the
   invariant: such an operation fails with an error or returns the unchanged state *)
Lemma move_by_inv s i d : ginv s ->
  match move_by s i d with MOk _ s' => ginv s' | _ => True end.
Proof.
  intros G. destruct (agent s i) as [a|] eqn:Ha; [|unfold move_by; rewrite Ha; exact I].
  destruct (a_pos a) as [from|] eqn:Hpos; [|unfold move_by; rewrite Ha, Hpos; exact I].
  destruct (a_active a) eqn:Hact.
  - destruct (move_by_spec s i a from d G Ha Hact Hpos) as (s' & -> & G' & _). exact G'.
  - unfold move_by. rewrite Ha, Hpos.
    destruct (inside s _); [|exact G]. destruct (cell_eqb _ from); [exact G|].
    destruct (query s i _); [|exact G]. unfold remove.
    destruct (memn i (cell_get (g_cells s) from)) eqn:E; [|exact I].
    apply memn_In in E. destruct (gi_cell_agent _ _ G from i E) as (a' & Ha' & Hact' & _). congruence.
Qed.

Lemma move_cross_inv s i ca : ginv s ->
  match move_cross s i ca with MOk _ s' => ginv s' | _ => True end.
Proof. intros G. unfold move_cross. destruct (grid_action ca); [apply move_by_inv, G|exact I]. Qed.

Lemma set_orient_inv s i a o : ginv s -> agent s i = Some a -> 1 <= o <= 4 ->
  ginv (set_agent s i (with_orient a (Some o))).
Proof.
  intros [H1 H2 H3 H4 H5 H6] Ha Ho.
  assert (En : forall j, enc_of (set_agent s i (with_orient a (Some o))) j = enc_of s j)
    by (intros j; apply enc_of_set_agent with a; [exact Ha|reflexivity]).
  constructor; cbn [g_ov g_cells set_agent]; try assumption.
  - intros p j Hj. destruct (Nat.eq_dec j i) as [->|N].
    + rewrite (agent_set_agent_same _ _ _ _ Ha). destruct (H2 p i Hj) as (a' & Ha' & A & P).
      assert (a' = a) by congruence. subst a'. eexists. split; [reflexivity|]. split; assumption.
    + rewrite agent_set_agent_other by exact N. apply H2, Hj.
  - intros j b p Nx Hb. destruct (Nat.eq_dec j i) as [->|N].
    + rewrite (agent_set_agent_same _ _ _ _ Ha) in Hb. injection Hb as <-. cbn.
      intros A P. apply (H4 i a p Nx Ha A P).
    + rewrite agent_set_agent_other in Hb by exact N. apply (H4 j b p Nx Hb).
  - intros p j k Hj Hk N. rewrite !En. apply (H5 p); assumption.
  - intros j b Hb. destruct (Nat.eq_dec j i) as [->|N].
    + rewrite (agent_set_agent_same _ _ _ _ Ha) in Hb. injection Hb as <-.
      destruct (H6 i a Ha) as (V1 & V2 & V3 & V4). repeat split; try assumption.
      * apply V1.
      * apply V1.
      * cbn in H. injection H as <-. lia.
      * cbn in H. injection H as <-. lia.
    + rewrite agent_set_agent_other in Hb by exact N. apply (H6 j b Hb).
Qed.

Lemma grid_action_some ca d : grid_action ca = Some d -> 0 <= ca <= 4.
Proof.
  unfold grid_action.
  destruct ca as [|p|p]; [lia| |discriminate].
  repeat (destruct p as [p|p|]; try discriminate); intros _; lia.
Qed.

Lemma move_drift_inv s i ca : ginv s ->
  match move_drift s i ca with MOk _ s' => ginv s' | _ => True end.
Proof.
  intros G. unfold move_drift. destruct (agent s i) as [a0|] eqn:Ha; [|exact I].
  destruct (a_orient a0) as [o0|]; [|exact I].
  destruct (ca =? 0) eqn:E0; [apply move_cross_inv, G|].
  pose proof (move_cross_inv s i ca G) as Hc.
  destruct (move_cross s i ca) as [[|] s1| | |] eqn:Em; try exact I.
  - destruct (agent s1 i) as [a1|] eqn:Ha1; [|exact I].
    apply set_orient_inv; [exact Hc|exact Ha1|].
    unfold move_cross in Em. destruct (grid_action ca) as [d|] eqn:Eg; [|discriminate].
    apply grid_action_some in Eg. apply Z.eqb_neq in E0. lia.
  - apply move_cross_inv, Hc.
Qed.

Definition state_after (s : gstate) (r : mres) : gstate :=
  match r with MOk _ s' => s' | _ => s end.

Theorem do_mop_inv s o : ginv s -> ginv (state_after s (do_mop s o)).
Proof.
  intros G. destruct o as [i d|i ca|i ca]; cbn [do_mop].
  - pose proof (move_by_inv s i d G) as H. unfold move_free. destruct (move_by s i d); cbn; auto.
  - pose proof (move_cross_inv s i ca G) as H. destruct (move_cross s i ca); cbn; auto.
  - pose proof (move_drift_inv s i ca G) as H. destruct (move_drift s i ca); cbn; auto.
Qed.

Theorem mops_inv ops : forall s, ginv s ->
  ginv (fold_left (fun st o => state_after st (do_mop st o)) ops s).
Proof. induction ops as [|o r IH]; intros s G; cbn; [exact G|]. apply IH, do_mop_inv, G. Qed.

(* ---- cross and drift against the specification ------------------------------------------------ *)
Theorem move_cross_spec s i a from ca d :
  ginv s -> agent s i = Some a -> a_active a = true -> a_pos a = Some from ->
  grid_action ca = Some d ->
  exists s', move_cross s i ca = MOk (can_move s i d) s' /\ ginv s' /\
    (can_move s i d = false -> s' = s) /\
    (can_move s i d = true -> dest from d = from -> s' = s) /\
    (can_move s i d = true -> dest from d <> from -> displaced s s' i a from (dest from d)).
Proof. intros G Ha Hact Hpos Eg. unfold move_cross. rewrite Eg. apply move_by_spec; assumption. Qed.

Lemma move_cross_reject s i ca : grid_action ca = None -> move_cross s i ca = MReject.
Proof. intros E. unfold move_cross. rewrite E. reflexivity. Qed.

(* the agent record of i after a successful cross move: only the position may differ *)
Lemma moved_agent s s' i a from d :
  ginv s -> agent s i = Some a -> a_pos a = Some from ->
  (dest from d = from -> s' = s) -> (dest from d <> from -> displaced s s' i a from (dest from d)) ->
  agent s' i = Some (with_pos a (Some (dest from d))).
Proof.
  intros G Ha Hpos H1 H2. destruct (cell_eqb (dest from d) from) eqn:E.
  - apply cell_eqb_eq in E. rewrite (H1 E), E, Ha. f_equal.
    destruct a; cbn in *; subst; reflexivity.
  - apply cell_eqb_neq in E. apply (H2 E).
Qed.

Theorem move_drift_spec s i a from o0 ca :
  ginv s -> agent s i = Some a -> a_active a = true -> a_pos a = Some from ->
  a_orient a = Some o0 ->
  match grid_action ca with
  | None => move_drift s i ca = MReject
  | Some d =>
      if negb (ca =? 0) && can_move s i d then
        (* turns and advances *)
        exists s1, move_cross s i ca = MOk true s1 /\
          move_drift s i ca =
            MOk true (set_agent s1 i (with_orient (with_pos a (Some (dest from d))) (Some ca)))
      else
        (* drifts along its current orientation, which it keeps *)
        move_drift s i ca = move_cross s i o0
  end.
Proof.
  intros G Ha Hact Hpos Ho. unfold move_drift. rewrite Ha, Ho.
  destruct (grid_action ca) as [d|] eqn:Eg.
  - destruct (ca =? 0) eqn:E0; cbn [negb andb]; [reflexivity|].
    destruct (move_cross_spec s i a from ca d G Ha Hact Hpos Eg) as (s1 & Em & G1 & F & T1 & T2).
    rewrite Em. destruct (can_move s i d) eqn:Ec.
    + exists s1. split; [reflexivity|].
      rewrite (moved_agent s s1 i a from d G Ha Hpos (T1 eq_refl) (T2 eq_refl)). reflexivity.
    + rewrite (F eq_refl). reflexivity.
  - destruct (ca =? 0) eqn:E0; [apply Z.eqb_eq in E0; subst; discriminate|].
    rewrite (move_cross_reject s i ca Eg). reflexivity.
Qed.

(* ---- the initial state ------------------------------------------------------------------------- *)
Lemma ginv_empty rows cols ov ags :
  ov_sym (ov_symmetrise ov) -> Forall vitals_ok ags -> Forall (fun a => a_pos a = None) ags ->
  ginv (empty_grid rows cols ov ags).
Proof.
  intros Hs Hv Hp. constructor; cbn.
  - exact Hs.
  - intros p i [].
  - intros p. constructor.
  - intros i a p _ Ha _ Hpos. unfold agent in Ha. cbn in Ha. apply nth_error_In in Ha.
    rewrite Forall_forall in Hp. rewrite (Hp a Ha) in Hpos. discriminate.
  - intros p i j [].
  - intros i a Ha. unfold agent in Ha. cbn in Ha. apply nth_error_In in Ha.
    rewrite Forall_forall in Hv. apply Hv, Ha.
Qed.

Lemma place_inv s i p : ginv s -> inside s p = true ->
  (forall a, agent s i = Some a -> a_pos a = None /\ a_active a = true) -> ginv (snd (place s i p)).
Proof.
  intros G Hin Hun. unfold place. destruct (agent s i) as [a|] eqn:Ha; [|exact G].
  destruct (query s i p) eqn:Hq; [|exact G].
  destruct (Hun a eq_refl) as [Hnone Hact].
  assert (Hno : forall q, ~ In i (cell_get (g_cells s) q)).
  { intros q Hi. destruct (gi_cell_agent _ _ G q i Hi) as (a' & Ha' & _ & Hp').
    rewrite Ha in Ha'. injection Ha' as <-. rewrite Hnone in Hp'. discriminate. }
  destruct (place_spec s i a p (ginv_weaken _ s G) Ha Hact Hno Hin Hq) as (s2 & P & G2 & _).
  unfold place in P. rewrite Ha, Hq in P. injection P as <-. exact G2.
Qed.

Lemma place_keeps s i p :
  g_rows (snd (place s i p)) = g_rows s /\ g_cols (snd (place s i p)) = g_cols s /\
  length (g_agents (snd (place s i p))) = length (g_agents s) /\
  forall j, j <> i -> agent (snd (place s i p)) j = agent s j.
Proof.
  unfold place. destruct (agent s i) as [a|]; [|auto]. destruct (query s i p); [|auto]. cbn.
  rewrite upd_nth_length. repeat split; auto. intros j N. unfold agent. cbn.
  apply nth_error_upd_other, N.
Qed.

(* placing the agents k, k+1, ... one after the other on their intended cells *)
Lemma place_all_inv ps : forall s k, ginv s ->
  (forall j a, (k <= j)%nat -> agent s j = Some a -> a_pos a = None /\ a_active a = true) ->
  Forall (fun p => match p with Some q => inside s q = true | None => True end) ps ->
  ginv (place_all s k ps).
Proof.
  induction ps as [|[q|] r IH]; intros s k G Hun Hin; cbn [place_all]; [exact G| |].
  - inversion Hin as [|? ? Hq Hr]; subst.
    destruct (place_keeps s k q) as (Er & Ec & _ & Hoth).
    apply IH.
    + apply place_inv; [exact G|exact Hq|]. intros a Ha. apply (Hun k a (le_n _) Ha).
    + intros j a Hle Ha. rewrite Hoth in Ha by lia. apply (Hun j a ltac:(lia) Ha).
    + eapply Forall_impl; [|exact Hr]. intros [p|]; [|auto]. unfold inside. rewrite Er, Ec. auto.
  - inversion Hin; subst. apply IH; [exact G| |assumption].
    intros j a Hle Ha. apply (Hun j a ltac:(lia) Ha).
Qed.

Theorem init_state_inv rows cols ov ags :
  ov_sym (ov_symmetrise ov) -> Forall vitals_ok ags -> Forall (fun a => a_active a = true) ags ->
  Forall (fun a => match a_pos a with
                   | Some q => (0 <=? fst q) && (fst q <? rows) && (0 <=? snd q) && (snd q <? cols) = true
                   | None => True end) ags ->
  ginv (init_state rows cols ov ags).
Proof.
  intros Hs Hv Hact Hin. unfold init_state. apply place_all_inv.
  - apply ginv_empty; [exact Hs| |].
    + rewrite Forall_forall in *. intros a Ha. apply in_map_iff in Ha as (b & <- & Hb).
      exact (Hv b Hb).
    + rewrite Forall_forall. intros a Ha. apply in_map_iff in Ha as (b & <- & Hb). reflexivity.
  - intros j a _ Ha. unfold agent in Ha. cbn in Ha. apply nth_error_In in Ha.
    apply in_map_iff in Ha as (b & <- & Hb). cbn. split; [reflexivity|].
    rewrite Forall_forall in Hact. apply Hact, Hb.
  - rewrite Forall_forall in *. intros p Hp. apply in_map_iff in Hp as (b & <- & Hb).
    specialize (Hin b Hb). destruct (a_pos b); [|exact I]. exact Hin.
Qed.

(* ---- frame: no operation touches another agent ------------------------------------------------ *)
Lemma move_by_frame s i d :
  match move_by s i d with
  | MOk _ s' => forall j, j <> i -> agent s' j = agent s j
  | _ => True
  end.
Proof.
  unfold move_by. destruct (agent s i) as [a|]; [|exact I]. destruct (a_pos a) as [from|]; [|exact I].
  destruct (inside s _); [|auto]. destruct (cell_eqb _ from); [auto|].
  destruct (query s i _); [|auto]. unfold remove.
  destruct (memn i (cell_get (g_cells s) from)); [|exact I].
  intros j N. destruct (place_keeps (set_cells s (cell_set (g_cells s) from
                          (dict_del (cell_get (g_cells s) from) i))) i
                          (fst from + fst d, snd from + snd d)) as (_ & _ & _ & H).
  rewrite H by exact N. reflexivity.
Qed.

Lemma move_cross_frame s i ca :
  match move_cross s i ca with
  | MOk _ s' => forall j, j <> i -> agent s' j = agent s j
  | _ => True
  end.
Proof. unfold move_cross. destruct (grid_action ca); [apply move_by_frame|exact I]. Qed.

Lemma move_drift_frame s i ca :
  match move_drift s i ca with
  | MOk _ s' => forall j, j <> i -> agent s' j = agent s j
  | _ => True
  end.
Proof.
  unfold move_drift. destruct (agent s i) as [a0|]; [|exact I].
  destruct (a_orient a0) as [o0|]; [|exact I].
  destruct (ca =? 0); [apply move_cross_frame|].
  pose proof (move_cross_frame s i ca) as H1.
  destruct (move_cross s i ca) as [[|] s1| | |]; try exact I.
  - destruct (agent s1 i) as [a1|]; [|exact I]. intros j N.
    rewrite agent_set_agent_other by exact N. apply H1, N.
  - pose proof (move_cross_frame s1 i o0) as H2.
    destruct (move_cross s1 i o0); try exact I. intros j N. rewrite H2 by exact N. apply H1, N.
Qed.

Theorem do_mop_frame s o j : j <> mop_agent o ->
  agent (state_after s (do_mop s o)) j = agent s j.
Proof.
  intros N. destruct o as [i d|i ca|i ca]; cbn [do_mop mop_agent] in *.
  - pose proof (move_by_frame s i d) as H. unfold move_free. destruct (move_by s i d); cbn; auto.
  - pose proof (move_cross_frame s i ca) as H. destruct (move_cross s i ca); cbn; auto.
  - pose proof (move_drift_frame s i ca) as H. destruct (move_drift s i ca); cbn; auto.
Qed.

Lemma cross_table :
  grid_action 0 = Some (0, 0) /\ grid_action 1 = Some (0, -1) /\ grid_action 2 = Some (1, 0) /\
  grid_action 3 = Some (0, 1) /\ grid_action 4 = Some (-1, 0) /\
  (forall ca d, grid_action ca = Some d -> 0 <= ca <= 4) /\
  (forall s i ca, grid_action ca = None -> move_cross s i ca = MReject).
Proof.
  split; [reflexivity|]. split; [reflexivity|]. split; [reflexivity|]. split; [reflexivity|].
  split; [reflexivity|]. split; [exact grid_action_some|exact move_cross_reject].
Qed.

(* boolean forms of the well-formedness hypotheses, for closed examples *)
Definition vitals_okb (a : arec) : bool :=
  (0 <=? a_health a) && (a_health a <=? HD) && Bool.eqb (a_active a) (0 <? a_health a)
  && match a_ammo a with Some m => 0 <=? m | None => true end
  && match a_orient a with Some o => (1 <=? o) && (o <=? 4) | None => true end.

Lemma vitals_okb_ok a : vitals_okb a = true -> vitals_ok a.
Proof.
  unfold vitals_okb, vitals_ok. rewrite !andb_true_iff. intros ((((H1 & H2) & H3) & H4) & H5).
  apply Z.leb_le in H1, H2. apply eqb_prop in H3. split; [lia|]. split; [exact H3|]. split.
  - intros m E. rewrite E in H4. apply Z.leb_le in H4. exact H4.
  - intros o E. rewrite E in H5. apply andb_true_iff in H5 as [A B].
    apply Z.leb_le in A, B. lia.
Qed.

Lemma forallb_Forall {X} (f : X -> bool) (P : X -> Prop) l :
  (forall x, f x = true -> P x) -> forallb f l = true -> Forall P l.
Proof.
  intros H E. rewrite forallb_forall in E. apply Forall_forall. intros x Hx. apply H, E, Hx.
Qed.
