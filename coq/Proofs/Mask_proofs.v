(* Proofs about Grid/Mask.v: the eight direction cases of create_grid_and_mask compute exactly
   the integer specification `hidden`; corollaries; the fold over agents; the eight
   symmetries; the checker accepts the model. *)
From Coq Require Import ZArith List Bool Lia ZifyBool QArith.
From Abm Require Import Base.Sx Grid.Mask.
Import ListNotations.
Open Scope Z_scope.

(* ------------------------------------------------------------------ small tools *)
Ltac bool_lia :=
  repeat match goal with
  | |- context [?a <=? ?b] => destruct (Z.leb_spec a b)
  | |- context [?a <? ?b] => destruct (Z.ltb_spec a b)
  end; cbn [negb]; try reflexivity; try lia.

Lemma sgn_eqb_pos : forall x, (Z.sgn x =? 1) = (0 <? x).
Proof. intros x. destruct x; reflexivity. Qed.
Lemma sgn_eqb_neg : forall x, (Z.sgn x =? -1) = (x <? 0).
Proof. intros x. destruct x; reflexivity. Qed.

(* decide every `if` whose condition follows from the context *)
Ltac decide_ifs :=
  repeat match goal with
  | |- context [if ?b then _ else _] =>
      first [ replace b with true by lia | replace b with false by lia ]; cbv iota
  end.

(* replace Z.sgn of everything whose sign follows from the context *)
Ltac kill_sgn :=
  repeat match goal with
  | |- context [Z.sgn ?x] =>
      first [ rewrite (Z.sgn_pos x) by lia | rewrite (Z.sgn_neg x) by lia
            | rewrite (Z.sgn_null x) by lia ]
  end.

Ltac sgn_tests :=
  change (- (1)) with (-1); change (- (-1)) with 1;
  rewrite ?sgn_eqb_pos, ?sgn_eqb_neg.

(* ------------------------------------------------------------------ rays over Q *)
Lemma ray_l : forall a s b s' t x, 2*b+s' <> 0 ->
  ltQ_l (rayQ (hfQ a s) (hfQ b s') t) x =
  if 0 <? 2*b+s' then (2*a+s)*t <? x*(2*b+s') else x*(2*b+s') <? (2*a+s)*t.
Proof.
  intros a s b s' t x HD.
  unfold ltQ_l, rayQ, hfQ, Qltb, Qle_bool, Qdiv, Qmult, Qinv, inject_Z.
  set (D := 2*b+s') in *. set (Nn := 2*a+s).
  cbn [Qnum Qden].
  destruct D as [|p|p] eqn:ED; [lia| |]; cbn [Qnum Qden];
    rewrite ?Pos2Z.inj_mul; bool_lia.
Qed.

Lemma ray_r : forall a s b s' t x, 2*b+s' <> 0 ->
  ltQ_r x (rayQ (hfQ a s) (hfQ b s') t) =
  if 0 <? 2*b+s' then x*(2*b+s') <? (2*a+s)*t else (2*a+s)*t <? x*(2*b+s').
Proof.
  intros a s b s' t x HD.
  unfold ltQ_r, rayQ, hfQ, Qltb, Qle_bool, Qdiv, Qmult, Qinv, inject_Z.
  set (D := 2*b+s') in *. set (Nn := 2*a+s).
  cbn [Qnum Qden].
  destruct D as [|p|p] eqn:ED; [lia| |]; cbn [Qnum Qden];
    rewrite ?Pos2Z.inj_mul; bool_lia.
Qed.

Lemma ray_prefix_l : forall a s b s' t x, 2*b+s' <> 0 ->
  ltQ_l (rayQ_prefix (hfQ a s) (hfQ b s') t) x =
  if 0 <? 2*b+s' then (2*a+s)*t <? x*(2*b+s') else x*(2*b+s') <? (2*a+s)*t.
Proof.
  intros a s b s' t x HD.
  unfold ltQ_l, rayQ_prefix, hfQ, Qltb, Qle_bool, Qdiv, Qmult, Qinv, inject_Z.
  set (D := 2*b+s') in *. set (Nn := 2*a+s).
  cbn [Qnum Qden].
  destruct D as [|p|p] eqn:ED; [lia| |]; cbn [Qnum Qden];
    rewrite ?Pos2Z.inj_mul; bool_lia.
Qed.

Lemma ray_prefix_r : forall a s b s' t x, 2*b+s' <> 0 ->
  ltQ_r x (rayQ_prefix (hfQ a s) (hfQ b s') t) =
  if 0 <? 2*b+s' then x*(2*b+s') <? (2*a+s)*t else (2*a+s)*t <? x*(2*b+s').
Proof.
  intros a s b s' t x HD.
  unfold ltQ_r, rayQ_prefix, hfQ, Qltb, Qle_bool, Qdiv, Qmult, Qinv, inject_Z.
  set (D := 2*b+s') in *. set (Nn := 2*a+s).
  cbn [Qnum Qden].
  destruct D as [|p|p] eqn:ED; [lia| |]; cbn [Qnum Qden];
    rewrite ?Pos2Z.inj_mul; bool_lia.
Qed.

(* ------------------------------------------------------------------ code case = spec
   For any evaluation of the ray functions that compares like the exact quotient. *)
Section CodeSpec.
  Variable ray : Q -> Q -> Z -> Q.
  Hypothesis ray_l' : forall a s b s' t x, 2*b+s' <> 0 ->
    ltQ_l (ray (hfQ a s) (hfQ b s') t) x =
    if 0 <? 2*b+s' then (2*a+s)*t <? x*(2*b+s') else x*(2*b+s') <? (2*a+s)*t.
  Hypothesis ray_r' : forall a s b s' t x, 2*b+s' <> 0 ->
    ltQ_r x (ray (hfQ a s) (hfQ b s') t) =
    if 0 <? 2*b+s' then x*(2*b+s') <? (2*a+s)*t else (2*a+s)*t <? x*(2*b+s').

  Let code := shadow hfQ ray ltQ_l ltQ_r.

  (* common script: the sign hypotheses on (rd, cd) are in the context *)
  Ltac case_script Hw :=
    unfold in_window in Hw; cbn [fst snd] in Hw;
    unfold code, shadow; decide_ifs;
    unfold btw; rewrite ray_l', ray_r' by lia; decide_ifs;
    unfold hidden, corners, behind, inner, cell_eqb; cbn [fst snd];
    kill_sgn; decide_ifs; cbn [fst snd]; unfold cross; cbn [fst snd];
    kill_sgn; decide_ifs; sgn_tests;
    unfold rng_up, rng_dn; lia.

  Lemma case_right : forall R cd r c, 0 < cd -> in_window R (r, c) = true ->
    code R (0, cd) (r, c) = hidden (0, cd) (r, c).
  Proof. intros R cd r c Hc Hw. case_script Hw. Qed.

  Lemma case_below_right : forall R rd cd r c, 0 < rd -> 0 < cd -> in_window R (r, c) = true ->
    code R (rd, cd) (r, c) = hidden (rd, cd) (r, c).
  Proof. intros R rd cd r c Hr Hc Hw. case_script Hw. Qed.

  Lemma case_below : forall R rd r c, 0 < rd -> in_window R (r, c) = true ->
    code R (rd, 0) (r, c) = hidden (rd, 0) (r, c).
  Proof. intros R rd r c Hr Hw. case_script Hw. Qed.

  Lemma case_below_left : forall R rd cd r c, 0 < rd -> cd < 0 -> in_window R (r, c) = true ->
    code R (rd, cd) (r, c) = hidden (rd, cd) (r, c).
  Proof. intros R rd cd r c Hr Hc Hw. case_script Hw. Qed.

  Lemma case_left : forall R cd r c, cd < 0 -> in_window R (r, c) = true ->
    code R (0, cd) (r, c) = hidden (0, cd) (r, c).
  Proof. intros R cd r c Hc Hw. case_script Hw. Qed.

  Lemma case_above_left : forall R rd cd r c, rd < 0 -> cd < 0 -> in_window R (r, c) = true ->
    code R (rd, cd) (r, c) = hidden (rd, cd) (r, c).
  Proof. intros R rd cd r c Hr Hc Hw. case_script Hw. Qed.

  Lemma case_above : forall R rd r c, rd < 0 -> in_window R (r, c) = true ->
    code R (rd, 0) (r, c) = hidden (rd, 0) (r, c).
  Proof. intros R rd r c Hr Hw. case_script Hw. Qed.

  Lemma case_above_right : forall R rd cd r c, rd < 0 -> 0 < cd -> in_window R (r, c) = true ->
    code R (rd, cd) (r, c) = hidden (rd, cd) (r, c).
  Proof. intros R rd cd r c Hr Hc Hw. case_script Hw. Qed.

  Lemma case_origin : forall R q, code R (0, 0) q = hidden (0, 0) q.
  Proof. intros R [r c]. reflexivity. Qed.

  Lemma code_meets_spec_gen : forall R b q, in_window R q = true -> code R b q = hidden b q.
  Proof.
    intros R [rd cd] [r c] Hw.
    destruct (Z.lt_trichotomy rd 0) as [Hr | [Hr | Hr]];
      destruct (Z.lt_trichotomy cd 0) as [Hc | [Hc | Hc]]; try subst rd; try subst cd.
    - apply case_above_left; assumption.
    - apply case_above; assumption.
    - apply case_above_right; assumption.
    - apply case_left; assumption.
    - apply case_origin.
    - apply case_right; assumption.
    - apply case_below_left; assumption.
    - apply case_below; assumption.
    - apply case_below_right; assumption.
  Qed.
End CodeSpec.

Theorem code_meets_spec : forall R b q, in_window R q = true -> mask_code R b q = hidden b q.
Proof. exact (code_meets_spec_gen rayQ ray_l ray_r). Qed.

Theorem code_prefix_meets_spec :
  forall R b q, in_window R q = true -> mask_code_prefix R b q = hidden b q.
Proof. exact (code_meets_spec_gen rayQ_prefix ray_prefix_l ray_prefix_r). Qed.

(* over exact rationals the two evaluation orders decide the same: F6 is purely a
   floating point defect *)
Theorem exact_order_irrelevant :
  forall R b q, in_window R q = true -> mask_code_prefix R b q = mask_code R b q.
Proof. intros. rewrite code_meets_spec, code_prefix_meets_spec by assumption. reflexivity. Qed.

(* ------------------------------------------------------------------ facts about every instance
   of the transcription (any number type): only the loop ranges matter *)
Section AnyArith.
  Context {T : Type}.
  Variable hf : Z -> Z -> T.
  Variable ray : T -> T -> Z -> T.
  Variable lt_l : T -> Z -> bool.
  Variable lt_r : Z -> T -> bool.

  (* the window size only bounds the loops *)
  Lemma shadow_mono : forall R N b q, R <= N -> in_window R q = true ->
    shadow hf ray lt_l lt_r R b q = shadow hf ray lt_l lt_r N b q.
  Proof.
    intros R N [rd cd] [r c] HRN Hw. unfold in_window in Hw; cbn [fst snd] in Hw.
    assert (W1 : rng_up (- R) (R + 1) c = rng_up (- N) (N + 1) c) by (unfold rng_up; lia).
    assert (W2 : rng_up (- R) (R + 1) r = rng_up (- N) (N + 1) r) by (unfold rng_up; lia).
    assert (U1 : forall a, rng_up a (R + 1) c = rng_up a (N + 1) c) by (intros; unfold rng_up; lia).
    assert (U2 : forall a, rng_up a (R + 1) r = rng_up a (N + 1) r) by (intros; unfold rng_up; lia).
    assert (D1 : forall a, rng_dn a (- R - 1) c = rng_dn a (- N - 1) c)
      by (intros; unfold rng_dn; lia).
    assert (D2 : forall a, rng_dn a (- R - 1) r = rng_dn a (- N - 1) r)
      by (intros; unfold rng_dn; lia).
    unfold shadow.
    repeat match goal with |- context [if ?b then _ else _] => destruct b end;
      rewrite ?W1, ?W2, ?U1, ?U2, ?D1, ?D2; reflexivity.
  Qed.

  (* a direction case only reaches cells behind the blocker, and never the blocker's cell *)
  Lemma shadow_behind : forall R b q,
    shadow hf ray lt_l lt_r R b q = true -> behind b q = true /\ cell_eqb q b = false.
  Proof.
    intros R [rd cd] [r c]. unfold shadow, behind, cell_eqb; cbn [fst snd].
    repeat match goal with |- context [if ?b then _ else _] => destruct b eqn:? end;
      try discriminate; unfold rng_up, rng_dn; intros H; split; kill_sgn; lia.
  Qed.
End AnyArith.

(* ------------------------------------------------------------------ corollaries of the spec *)
Lemma hidden_on_ray : forall b q,
  cross (fst (corners b)) q = 0 \/ cross (snd (corners b)) q = 0 -> hidden b q = false.
Proof.
  intros b q H. unfold hidden, inner.
  destruct (Z.sgn (cross (fst (corners b)) (snd (corners b))) =? 0) eqn:E0.
  - cbn [negb andb]. rewrite !andb_false_r. reflexivity.
  - destruct H as [H | H]; rewrite H; cbn [Z.sgn].
    + replace (0 =? Z.sgn (cross (fst (corners b)) (snd (corners b)))) with false by lia.
      rewrite !andb_false_r. reflexivity.
    + replace (0 =? - Z.sgn (cross (fst (corners b)) (snd (corners b)))) with false by lia.
      rewrite !andb_false_r. reflexivity.
Qed.

Lemma hidden_blocker_cell : forall b, hidden b b = false.
Proof.
  intros b. unfold hidden. replace (cell_eqb b b) with true by (unfold cell_eqb; lia).
  cbn [negb]. rewrite andb_false_r. reflexivity.
Qed.

Lemma hidden_origin : forall q, hidden (0, 0) q = false.
Proof. reflexivity. Qed.

Definition nearer (b q : cell) : Prop :=
  (0 < fst b /\ fst q < fst b) \/ (fst b < 0 /\ fst b < fst q) \/
  (0 < snd b /\ snd q < snd b) \/ (snd b < 0 /\ snd b < snd q).

Lemma hidden_nearer : forall b q, nearer b q -> hidden b q = false.
Proof.
  intros [br bc] [qr qc]. unfold nearer, hidden, behind; cbn [fst snd]. intros H.
  assert (E : (Z.sgn br * br <=? Z.sgn br * qr) && (Z.sgn bc * bc <=? Z.sgn bc * qc) = false).
  { destruct H as [[H1 H2] | [[H1 H2] | [[H1 H2] | [H1 H2]]]]; kill_sgn; lia. }
  rewrite E. rewrite andb_false_r. reflexivity.
Qed.

(* the viewer's own cell is never hidden *)
Lemma hidden_viewer_cell : forall b, hidden b (0, 0) = false.
Proof.
  intros b. apply hidden_on_ray. left. unfold cross; cbn [fst snd]. lia.
Qed.

(* the corners chosen by `corners` are corners of the blocker's cell and are outermost: the cone
   they span (from the viewer's centre) contains all four corners of the cell *)
Definition is_corner (b k : cell) : Prop :=
  (fst k = 2 * fst b + 1 \/ fst k = 2 * fst b - 1) /\ (snd k = 2 * snd b + 1 \/ snd k = 2 * snd b - 1).

Lemma corners_outermost : forall b, b <> (0, 0) ->
  let k1 := fst (corners b) in
  let k2 := snd (corners b) in
  let s := Z.sgn (cross k1 k2) in
  is_corner b k1 /\ is_corner b k2 /\ s <> 0 /\
  forall k, is_corner b k -> 0 <= s * cross k1 k /\ s * cross k2 k <= 0.
Proof.
  intros [br bc] Hb. unfold is_corner, corners; cbn [fst snd].
  assert (Hb' : br <> 0 \/ bc <> 0).
  { destruct (Z.eq_dec br 0) as [E1|E1]; [|left; exact E1].
    destruct (Z.eq_dec bc 0) as [E2|E2]; [|right; exact E2]. subst. exfalso. apply Hb. reflexivity. }
  destruct (Z.lt_trichotomy br 0) as [Hr | [Hr | Hr]];
    destruct (Z.lt_trichotomy bc 0) as [Hc | [Hc | Hc]]; try (exfalso; lia);
    kill_sgn; decide_ifs; cbn [fst snd]; unfold cross; cbn [fst snd]; kill_sgn;
    (split; [lia | split; [lia | split; [lia |]]]);
    intros [kr kc] [[H1 | H1] [H2 | H2]]; cbn [fst snd] in H1, H2; subst kr kc; cbn [fst snd]; lia.
Qed.

(* ------------------------------------------------------------------ ranges, tables *)
Lemma zrange_In : forall lo hi x, In x (zrange lo hi) <-> lo <= x <= hi.
Proof.
  unfold zrange; intros lo hi x. rewrite in_map_iff. split.
  - intros [i [E Hi]]. apply in_seq in Hi. lia.
  - intros H. exists (Z.to_nat (x - lo)). split; [lia|]. apply in_seq. lia.
Qed.

Lemma zrange_length : forall lo hi, length (zrange lo hi) = Z.to_nat (hi - lo + 1).
Proof. intros. unfold zrange. rewrite map_length, seq_length. reflexivity. Qed.

Lemma nth_map_zrange : forall {X} (g : Z -> X) lo hi x d, lo <= x <= hi ->
  nth (Z.to_nat (x - lo)) (map g (zrange lo hi)) d = g x.
Proof.
  intros X g lo hi x d H. unfold zrange. rewrite map_map.
  rewrite (nth_indep _ d (g (lo + Z.of_nat 0))) by (rewrite map_length, seq_length; lia).
  rewrite (map_nth (fun i => g (lo + Z.of_nat i))).
  rewrite seq_nth by lia. f_equal. lia.
Qed.

Lemma get_tab : forall R f q, in_window R q = true -> get R (tab R f) q = f q.
Proof.
  intros R f [r c] Hw. unfold in_window in Hw; cbn [fst snd] in Hw.
  unfold get, tab; cbn [fst snd].
  replace (r + R) with (r - - R) by lia. replace (c + R) with (c - - R) by lia.
  rewrite (nth_map_zrange (fun r0 => map (fun c0 => f (r0, c0)) (zrange (- R) R))) by lia.
  rewrite (nth_map_zrange (fun c0 => f (r, c0))) by lia. reflexivity.
Qed.

Lemma tab_ext : forall R f g, (forall q, in_window R q = true -> f q = g q) -> tab R f = tab R g.
Proof.
  intros R f g H. unfold tab. apply map_ext_in. intros r Hr. apply map_ext_in. intros c Hc.
  apply zrange_In in Hr. apply zrange_In in Hc. apply H. unfold in_window; cbn [fst snd]. lia.
Qed.

Lemma cells_In : forall R q, In q (cells R) <-> in_window R q = true.
Proof.
  intros R [r c]. unfold cells, in_window; cbn [fst snd]. rewrite in_flat_map. split.
  - intros [r' [Hr Hq]]. apply in_map_iff in Hq. destruct Hq as [c' [E Hc]].
    inversion E; subst. apply zrange_In in Hr. apply zrange_In in Hc. lia.
  - intros H. exists r. split; [apply zrange_In; lia|]. apply in_map_iff. exists c.
    split; [reflexivity | apply zrange_In; lia].
Qed.

Lemma existsb_ext_in : forall {X} (f g : X -> bool) l,
  (forall x, In x l -> f x = g x) -> existsb f l = existsb g l.
Proof.
  intros X f g l. induction l as [|x l IH]; intros H; [reflexivity|].
  cbn [existsb]. rewrite (H x) by (left; reflexivity). rewrite IH; [reflexivity|].
  intros y Hy. apply H. right. exact Hy.
Qed.

(* ------------------------------------------------------------------ the loop over agents *)
Section FoldFacts.
  Variable code : Z -> cell -> cell -> bool.

  Lemma get_zero_where : forall R f m q, in_window R q = true ->
    get R (zero_where R f m) q = if f q then false else get R m q.
  Proof. intros R f m q Hw. unfold zero_where. rewrite get_tab by assumption. reflexivity. Qed.

  Lemma get_step : forall R v m a q, in_window R q = true ->
    get R (mask_step code R v m a) q =
    get R m q && negb (relevant R v a && code R (off a v) q).
  Proof.
    intros R v m a q Hw. unfold mask_step, relevant.
    destruct (a_active a && a_blocking a); cbn [andb negb]; [|rewrite andb_true_r; reflexivity].
    destruct (in_window R (off a v)); cbn [andb negb]; [|rewrite andb_true_r; reflexivity].
    rewrite get_zero_where by assumption.
    destruct (code R (off a v) q); cbn [negb]; [rewrite andb_false_r | rewrite andb_true_r];
      reflexivity.
  Qed.

  Lemma get_fold_gen : forall R v q ags m, in_window R q = true ->
    get R (fold_left (mask_step code R v) ags m) q =
    get R m q && negb (existsb (fun a => relevant R v a && code R (off a v) q) ags).
  Proof.
    intros R v q ags. induction ags as [|a ags IH]; intros m Hw; cbn [fold_left existsb].
    - cbn [negb]. rewrite andb_true_r. reflexivity.
    - rewrite IH by assumption. rewrite get_step by assumption.
      rewrite negb_orb. rewrite andb_assoc. reflexivity.
  Qed.

  Lemma get_mask_fold : forall R v q ags, in_window R q = true ->
    get R (mask_fold code R v ags) q =
    negb (existsb (fun a => relevant R v a && code R (off a v) q) ags).
  Proof.
    intros R v q ags Hw. unfold mask_fold. rewrite get_fold_gen by assumption.
    rewrite get_tab by assumption. reflexivity.
  Qed.

  (* the result is always a full (2R+1) x (2R+1) table *)
  Lemma fold_is_tab : forall R v ags g, exists g',
    fold_left (mask_step code R v) ags (tab R g) = tab R g'.
  Proof.
    intros R v ags. induction ags as [|a ags IH]; intros g; cbn [fold_left].
    - exists g. reflexivity.
    - unfold mask_step at 2. destruct (a_active a && a_blocking a); [|apply IH].
      destruct (in_window R (off a v)); [|apply IH]. unfold zero_where. apply IH.
  Qed.

  (* an agent that is inactive, not blocking or outside the window changes nothing *)
  Lemma step_irrelevant : forall R v m a, relevant R v a = false -> mask_step code R v m a = m.
  Proof.
    intros R v m a H. unfold relevant in H. unfold mask_step.
    destruct (a_active a && a_blocking a); [|reflexivity].
    cbn [andb] in H. rewrite H. reflexivity.
  Qed.

  Lemma fold_irrelevant : forall R v l1 a l2, relevant R v a = false ->
    mask_fold code R v (l1 ++ a :: l2) = mask_fold code R v (l1 ++ l2).
  Proof.
    intros R v l1 a l2 H. unfold mask_fold. rewrite !fold_left_app. cbn [fold_left].
    rewrite step_irrelevant by assumption. reflexivity.
  Qed.
End FoldFacts.

Theorem mask_exact : forall R v ags q, in_window R q = true ->
  get R (mask_fold mask_code R v ags) q = spec_visible R v ags q.
Proof.
  intros R v ags q Hw. rewrite get_mask_fold by assumption. unfold spec_visible. f_equal.
  apply existsb_ext_in. intros a _. rewrite code_meets_spec by assumption. reflexivity.
Qed.

Theorem mask_hidden_iff : forall R v ags q, in_window R q = true ->
  (get R (mask_fold mask_code R v ags) q = false <->
   exists a, In a ags /\ a_active a = true /\ a_blocking a = true /\
             in_window R (off a v) = true /\ hidden (off a v) q = true).
Proof.
  intros R v ags q Hw. rewrite mask_exact by assumption. unfold spec_visible.
  rewrite negb_false_iff, existsb_exists. unfold relevant. split.
  - intros [a [Ha H]]. exists a. rewrite !andb_true_iff in H. tauto.
  - intros [a [Ha [H1 [H2 [H3 H4]]]]]. exists a. rewrite H1, H2, H3, H4. tauto.
Qed.

(* ------------------------------------------------------------------ symmetry of the spec *)
Ltac hidden_script :=
  unfold hidden, corners, behind, inner, cell_eqb; cbn [fst snd];
  kill_sgn; decide_ifs; cbn [fst snd]; unfold cross; cbn [fst snd];
  kill_sgn; decide_ifs; sgn_tests; lia.

Lemma hidden_refl_rows : forall br bc qr qc,
  hidden (- br, bc) (- qr, qc) = hidden (br, bc) (qr, qc).
Proof.
  intros br bc qr qc.
  destruct (Z.lt_trichotomy br 0) as [Hr | [Hr | Hr]];
    destruct (Z.lt_trichotomy bc 0) as [Hc | [Hc | Hc]]; try subst br; try subst bc;
    hidden_script.
Qed.

Lemma hidden_transp : forall br bc qr qc,
  hidden (bc, br) (qc, qr) = hidden (br, bc) (qr, qc).
Proof.
  intros br bc qr qc.
  destruct (Z.lt_trichotomy br 0) as [Hr | [Hr | Hr]];
    destruct (Z.lt_trichotomy bc 0) as [Hc | [Hc | Hc]]; try subst br; try subst bc;
    hidden_script.
Qed.

Lemma hidden_gen : forall g b q, g = refl_rows \/ g = transp ->
  hidden (act g b) (act g q) = hidden b q.
Proof.
  intros g [br bc] [qr qc] [E | E]; subst g; unfold act; cbn [d_t d_fr d_fc refl_rows transp fst snd].
  - apply hidden_refl_rows.
  - apply hidden_transp.
Qed.

(* every symmetry is a word in the two generators *)
Definition d4_word (s : d4) : list d4 :=
  match s with
  | mkD4 false false false => []
  | mkD4 true false false => [transp]
  | mkD4 false true false => [refl_rows]
  | mkD4 true true false => [refl_rows; transp]
  | mkD4 false false true => [transp; refl_rows; transp]
  | mkD4 true false true => [transp; refl_rows]
  | mkD4 false true true => [refl_rows; transp; refl_rows; transp]
  | mkD4 true true true => [refl_rows; transp; refl_rows]
  end.

Lemma d4_generated : forall s,
  Forall (fun g => g = refl_rows \/ g = transp) (d4_word s) /\
  forall p, act s p = fold_right act p (d4_word s).
Proof.
  intros [[|] [|] [|]]; cbn [d4_word];
    (split;
     [ repeat (apply Forall_cons; [first [left; reflexivity | right; reflexivity] |]);
       apply Forall_nil
     | intros [r c]; cbn [fold_right]; unfold act, refl_rows, transp;
       cbn [d_t d_fr d_fc fst snd]; f_equal; lia ]).
Qed.

Lemma hidden_word : forall w b q, Forall (fun g => g = refl_rows \/ g = transp) w ->
  hidden (fold_right act b w) (fold_right act q w) = hidden b q.
Proof.
  intros w b q. induction w as [|g w IH]; intros H; cbn [fold_right]; [reflexivity|].
  inversion H as [|g' w' Hg Hw]; subst. rewrite hidden_gen by assumption. apply IH. assumption.
Qed.

Theorem hidden_act : forall s b q, hidden (act s b) (act s q) = hidden b q.
Proof.
  intros s b q. destruct (d4_generated s) as [HF HE]. rewrite !HE. apply hidden_word. exact HF.
Qed.

Lemma act_comp : forall s u p, act (d4_comp s u) p = act s (act u p).
Proof.
  intros [[|] [|] [|]] [[|] [|] [|]] [r c]; unfold act, d4_comp;
    cbn [d_t d_fr d_fc xorb fst snd]; f_equal; lia.
Qed.

Lemma d4_all_complete : forall s, In s d4_all.
Proof. intros [[|] [|] [|]]; cbn; tauto. Qed.

Lemma in_window_act : forall R s p, in_window R (act s p) = in_window R p.
Proof.
  intros R [[|] [|] [|]] [r c]; unfold act, in_window; cbn [d_t d_fr d_fc fst snd]; lia.
Qed.

(* ------------------------------------------------------------------ symmetry of whole layouts *)
Lemma off_xf : forall s rows cols a v,
  off (xf_agent s rows cols a) (act_abs s rows cols v) = act s (off a v).
Proof.
  intros [[|] [|] [|]] rows cols a [vr vc]; unfold off, xf_agent, act_abs, act;
    cbn [d_t d_fr d_fc fst snd a_r a_c]; f_equal; lia.
Qed.

Lemma relevant_xf : forall R s rows cols a v,
  relevant R (act_abs s rows cols v) (xf_agent s rows cols a) = relevant R v a.
Proof.
  intros. unfold relevant. rewrite off_xf, in_window_act. reflexivity.
Qed.

Lemma existsb_map : forall {X Y} (f : Y -> bool) (g : X -> Y) l,
  existsb f (map g l) = existsb (fun x => f (g x)) l.
Proof. intros. induction l as [|x l IH]; cbn; [reflexivity | rewrite IH; reflexivity]. Qed.

Lemma spec_visible_xf : forall R s rows cols v ags q,
  spec_visible R (act_abs s rows cols v) (map (xf_agent s rows cols) ags) (act s q) =
  spec_visible R v ags q.
Proof.
  intros. unfold spec_visible. rewrite existsb_map. f_equal. apply existsb_ext_in.
  intros a _. rewrite relevant_xf, off_xf, hidden_act. reflexivity.
Qed.

Theorem mask_symmetry : forall R s rows cols v ags q, in_window R q = true ->
  get R (mask_fold mask_code R (act_abs s rows cols v) (map (xf_agent s rows cols) ags)) (act s q) =
  get R (mask_fold mask_code R v ags) q.
Proof.
  intros. rewrite !mask_exact by (rewrite ?in_window_act; assumption).
  apply spec_visible_xf.
Qed.

Lemma viewer_xf : forall s l,
  viewer (xf_layout s l) = option_map (act_abs s (l_rows l) (l_cols l)) (viewer l).
Proof.
  intros s l. unfold viewer, xf_layout; cbn [l_ags l_v]. rewrite nth_error_map.
  destruct (nth_error (l_ags l) (l_v l)) as [a|]; cbn [option_map]; [|reflexivity].
  unfold xf_agent; cbn [a_r a_c]. rewrite <- surjective_pairing. reflexivity.
Qed.

(* ------------------------------------------------------------------ the checker accepts the model *)
Definition model_mask (l : layout) (v0 : cell) (s : d4) : matrix :=
  mask_fold mask_code (l_R l) (act_abs s (l_rows l) (l_cols l) v0)
            (map (xf_agent s (l_rows l) (l_cols l)) (l_ags l)).

Lemma all_some_map : forall {X Y} (f : X -> option Y) (g : X -> Y) l,
  (forall x, In x l -> f x = Some (g x)) -> all_some (map f l) = Some (map g l).
Proof.
  intros X Y f g l. induction l as [|x l IH]; intros H; cbn [map all_some]; [reflexivity|].
  rewrite (H x) by (left; reflexivity). rewrite IH; [reflexivity|].
  intros y Hy. apply H. right. exact Hy.
Qed.

Lemma masks8_shape : forall l Ms, masks8 l = Some Ms ->
  exists v0, viewer l = Some v0 /\ Ms = map (model_mask l v0) d4_all.
Proof.
  intros l Ms H. unfold masks8, masks8_with in H. destruct (viewer l) as [v0|] eqn:Ev.
  - exists v0. split; [reflexivity|].
    rewrite (all_some_map _ (model_mask l v0)) in H; [congruence|].
    intros s _. unfold mask_of_with. rewrite viewer_xf, Ev. reflexivity.
  - exfalso. unfold d4_all in H. cbn [map] in H. unfold mask_of_with at 1 in H.
    rewrite viewer_xf, Ev in H. cbn in H. discriminate.
Qed.

Lemma to_of_matrix : forall m, to_matrix (of_matrix m) = m.
Proof.
  intros m. unfold to_matrix, of_matrix. rewrite map_map.
  rewrite <- (map_id m) at 2. apply map_ext. intros row. rewrite map_map.
  rewrite <- (map_id row) at 2. apply map_ext. intros [|]; reflexivity.
Qed.

Lemma shape_tab : forall R g, 0 <= R -> shape_ok R (of_matrix (tab R g)) = true.
Proof.
  intros R g HR. unfold shape_ok, of_matrix, tab. rewrite !map_length, zrange_length.
  apply andb_true_iff. split; [lia|]. apply forallb_forall. intros row Hrow.
  apply in_map_iff in Hrow. destruct Hrow as [row' [E Hrow']]. subst row.
  apply in_map_iff in Hrow'. destruct Hrow' as [r [E _]]. subst row'.
  rewrite !map_length, zrange_length. apply andb_true_iff. split; [lia|].
  apply forallb_forall. intros x Hx. apply in_map_iff in Hx. destruct Hx as [[|] [E _]]; subst x;
    reflexivity.
Qed.

Lemma forallb2_map_r : forall {X Y} (f : X -> Y -> bool) (g : X -> Y) l,
  forallb2 f l (map g l) = forallb (fun x => f x (g x)) l.
Proof. intros. induction l as [|x l IH]; cbn; [reflexivity | rewrite IH; reflexivity]. Qed.

Theorem chk_C10_model : forall l Ms, 0 <= l_R l -> masks8 l = Some Ms ->
  chk_C10 l (map of_matrix Ms) = 1.
Proof.
  intros l Ms HR H. destruct (masks8_shape l Ms H) as [v0 [Ev EM]]. subst Ms.
  unfold chk_C10. rewrite Ev.
  assert (Hshape : forallb (shape_ok (l_R l)) (map of_matrix (map (model_mask l v0) d4_all)) = true).
  { apply forallb_forall. intros x Hx. apply in_map_iff in Hx. destruct Hx as [m [E Hm]]. subst x.
    apply in_map_iff in Hm. destruct Hm as [s [E _]]. subst m. unfold model_mask, mask_fold.
    destruct (fold_is_tab mask_code (l_R l) (act_abs s (l_rows l) (l_cols l) v0)
                (map (xf_agent s (l_rows l) (l_cols l)) (l_ags l)) (fun _ => true)) as [g' Eg].
    rewrite Eg. apply shape_tab. exact HR. }
  rewrite Hshape. rewrite !map_length. cbn [length d4_all Nat.eqb andb negb].
  rewrite (map_map of_matrix to_matrix).
  rewrite (map_ext (fun x => to_matrix (of_matrix x)) (fun x => x) to_of_matrix), map_id.
  rewrite !forallb2_map_r.
  assert (C2 : forallb (fun s => match viewer (xf_layout s l) with
      | Some v => forallb (fun q => get (l_R l) (model_mask l v0 s) q
                                    || negb (spec_visible (l_R l) v (l_ags (xf_layout s l)) q))
                          (cells (l_R l))
      | None => false end) d4_all = true).
  { apply forallb_forall. intros s _. rewrite viewer_xf, Ev. cbn [option_map].
    apply forallb_forall. intros q Hq. apply cells_In in Hq. unfold model_mask.
    rewrite mask_exact by assumption. cbn [xf_layout l_ags]. apply orb_negb_r. }
  rewrite C2. cbn [negb].
  assert (C3 : forallb (fun s => match viewer (xf_layout s l) with
      | Some v => forallb (fun q => negb (get (l_R l) (model_mask l v0 s) q)
                                    || spec_visible (l_R l) v (l_ags (xf_layout s l)) q)
                          (cells (l_R l))
      | None => false end) d4_all = true).
  { apply forallb_forall. intros s _. rewrite viewer_xf, Ev. cbn [option_map].
    apply forallb_forall. intros q Hq. apply cells_In in Hq. unfold model_mask.
    rewrite mask_exact by assumption. cbn [xf_layout l_ags]. apply orb_negb_l. }
  rewrite C3. cbn [negb].
  assert (C4 : forallb (fun s => forallb (fun q =>
       Bool.eqb (get (l_R l) (model_mask l v0 s) (act s q))
                (get (l_R l) (hd [] (map (model_mask l v0) d4_all)) q)) (cells (l_R l))) d4_all = true).
  { apply forallb_forall. intros s _. apply forallb_forall. intros q Hq. apply cells_In in Hq.
    apply eqb_true_iff. cbn [d4_all map hd]. unfold model_mask.
    rewrite mask_symmetry by assumption.
    rewrite <- (mask_symmetry (l_R l) (mkD4 false false false) (l_rows l) (l_cols l) v0 (l_ags l) q)
      by assumption.
    destruct q as [r c]. reflexivity. }
  rewrite C4. reflexivity.
Qed.

(* the wire wrapper answers 1 on the model's own output *)
Lemma sxZZs_ofZZs : forall m, sxZZs (ofZZs m) = Some m.
Proof.
  intros m. unfold sxZZs, ofZZs. induction m as [|row m IH]; cbn [map all_some]; [reflexivity|].
  assert (E : sxZs (ofZs row) = Some row).
  { unfold sxZs, ofZs. induction row as [|x row IHr]; cbn [map all_some]; [reflexivity|].
    cbn [sxZ]. rewrite IHr. reflexivity. }
  rewrite E, IH. reflexivity.
Qed.

Theorem run_chk_C10_model : forall xi l, dec_layout xi = Some l ->
  run_chk_C10 (L [xi; run_mask xi]) = A 1.
Proof.
  intros xi l Hd. unfold run_mask, run_chk_C10. rewrite Hd.
  assert (HR : 0 <= l_R l).
  { unfold dec_layout in Hd.
    destruct xi as [|[|[R|] [|[rows|] [|[cols|] [|xv [|[|xs] [|]]]]]]]; try discriminate.
    destruct (sxNat xv); try discriminate.
    destruct (all_some (map dec_agent xs)); try discriminate.
    destruct ((0 <=? R) && (R <=? 64) && (0 <? rows) && (0 <? cols) && (n <? length l0)%nat) eqn:E;
      try discriminate.
    inversion Hd; subst; cbn [l_R]. lia. }
  destruct (masks8 l) as [Ms|] eqn:EM.
  - unfold enc_matrix.
    assert (E : all_some (map sxZZs (map (fun m => ofZZs (of_matrix m)) Ms)) = Some (map of_matrix Ms)).
    { rewrite map_map. apply all_some_map. intros m _. apply sxZZs_ofZZs. }
    rewrite E. rewrite (chk_C10_model l Ms HR EM). reflexivity.
  - exfalso. unfold masks8, masks8_with in EM.
    destruct (viewer l) as [v0|] eqn:Ev.
    + rewrite (all_some_map _ (model_mask l v0)) in EM; [discriminate|].
      intros s _. unfold mask_of_with. rewrite viewer_xf, Ev. reflexivity.
    + unfold viewer in Ev. unfold dec_layout in Hd.
      destruct xi as [|[|[R|] [|[rows|] [|[cols|] [|xv [|[|xs] [|]]]]]]]; try discriminate.
      destruct (sxNat xv); try discriminate.
      destruct (all_some (map dec_agent xs)); try discriminate.
      destruct ((0 <=? R) && (R <=? 64) && (0 <? rows) && (0 <? cols) && (n <? length l0)%nat) eqn:E;
        try discriminate.
      inversion Hd; subst; cbn [l_ags l_v] in Ev.
      destruct (nth_error l0 n) eqn:En; [discriminate|].
      apply nth_error_None in En. lia.
Qed.

(* ------------------------------------------------------------------ exhaustive agreement on a
   window is agreement for every range up to the window *)
Lemma behind_cells_In : forall N b q, in_window N q = true -> behind b q = true ->
  In q (behind_cells N b).
Proof.
  intros N [br bc] [qr qc] Hw Hb. unfold in_window in Hw. unfold behind in Hb.
  cbn [fst snd] in Hw, Hb. unfold behind_cells; cbn [fst snd]. apply in_flat_map.
  exists qr. split.
  - apply zrange_In. unfold lo_of, hi_of.
    destruct (Z.lt_trichotomy br 0) as [H | [H | H]]; revert Hb; kill_sgn; decide_ifs; lia.
  - apply in_map_iff. exists qc. split; [reflexivity|]. apply zrange_In. unfold lo_of, hi_of.
    destruct (Z.lt_trichotomy bc 0) as [H | [H | H]]; revert Hb; kill_sgn; decide_ifs; lia.
Qed.

Section Agree.
  Context {T : Type}.
  Variable hf : Z -> Z -> T.
  Variable ray : T -> T -> Z -> T.
  Variable lt_l : T -> Z -> bool.
  Variable lt_r : Z -> T -> bool.
  Let f := shadow hf ray lt_l lt_r.

  Lemma agree_all_sound : forall N, agree_all f N = true ->
    forall R b q, R <= N -> in_window R b = true -> in_window R q = true ->
    f R b q = hidden b q.
  Proof.
    intros N HA R b q HRN Hb Hq.
    assert (HbN : in_window N b = true) by (unfold in_window in *; lia).
    assert (HqN : in_window N q = true) by (unfold in_window in *; lia).
    unfold f. rewrite (shadow_mono hf ray lt_l lt_r R N b q HRN Hq).
    unfold agree_all in HA. rewrite forallb_forall in HA.
    specialize (HA b (proj2 (cells_In N b) HbN)). rewrite forallb_forall in HA.
    destruct (behind b q) eqn:EB.
    - apply eqb_prop. apply HA. apply behind_cells_In; assumption.
    - assert (E1 : shadow hf ray lt_l lt_r N b q = false).
      { destruct (shadow hf ray lt_l lt_r N b q) eqn:ES; [|reflexivity].
        apply shadow_behind in ES. destruct ES as [ES _]. congruence. }
      rewrite E1. unfold hidden. rewrite EB. rewrite andb_false_r. reflexivity.
  Qed.
End Agree.
