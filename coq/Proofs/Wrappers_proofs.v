(* Proofs about Ctl/Wrappers.v. *)
From Coq Require Import ZArith List Bool Lia Arith.
From Abm Require Import Base.Sx Spaces.Space Spaces.Ravel Spaces.Flatten Spaces.Excl
     Ctl.Managers Ctl.Wrappers
     Proofs.Sx_proofs Proofs.Ravel_proofs Proofs.Flatten_proofs Proofs.Excl_proofs.
Import ListNotations.
Open Scope Z_scope.

(* =====================================================================================
   1. Commutation, for every simulation, stack, state and action dictionary
   ===================================================================================== *)
Section AnySim.
  Context {St Info : Type}.
  Notation sim := (simulation St upoint Info upoint).

  Lemma decode_dict_cons k ks sp acts :
    decode_dict (k :: ks) sp acts =
    decode_dict ks sp (map (fun kv => (fst kv, dec_act k (level_spaces ks sp) (fst kv) (snd kv))) acts).
  Proof. unfold decode_dict. rewrite map_map. reflexivity. Qed.

  Lemma step_commutes ks sp (S : sim) st acts :
    sim_step (wrap_stack ks sp S) st acts = sim_step S st (decode_dict ks sp acts).
  Proof.
    revert acts. induction ks as [|k ks IH]; intros acts.
    - unfold decode_dict. cbn [wrap_stack decode_stack].
      rewrite (map_ext _ (fun kv => kv)) by (intros [a u]; reflexivity). rewrite map_id. reflexivity.
    - cbn [wrap_stack sar_wrap sim_step]. rewrite IH, decode_dict_cons. reflexivity.
  Qed.

  Lemma obs_commutes ks sp (S : sim) st a :
    sim_obs (wrap_stack ks sp S) st a =
    (encode_stack ks sp a (fst (sim_obs S st a)), snd (sim_obs S st a)).
  Proof.
    induction ks as [|k ks IH].
    - cbn [wrap_stack encode_stack]. apply surjective_pairing.
    - cbn [wrap_stack sar_wrap sim_obs encode_stack]. rewrite IH. reflexivity.
  Qed.

  (* everything else is forwarded untouched *)
  Lemma passthrough ks sp (S : sim) :
    sim_n (wrap_stack ks sp S) = sim_n S /\
    sim_learning (wrap_stack ks sp S) = sim_learning S /\
    sim_reset (wrap_stack ks sp S) = sim_reset S /\
    sim_reward (wrap_stack ks sp S) = sim_reward S /\
    sim_done (wrap_stack ks sp S) = sim_done S /\
    sim_all (wrap_stack ks sp S) = sim_all S /\
    sim_info (wrap_stack ks sp S) = sim_info S /\
    sim_next (wrap_stack ks sp S) = sim_next S.
  Proof.
    induction ks as [|k ks IH]; [repeat split; reflexivity|].
    cbn [wrap_stack sar_wrap sim_n sim_learning sim_reset sim_reward sim_done sim_all sim_info sim_next].
    exact IH.
  Qed.

  Definition encode_obs_list ks sp (obs : list (nat * upoint)) : list (nat * upoint) :=
    map (fun ao => (fst ao, encode_stack ks sp (fst ao) (snd ao))) obs.

  Lemma thread_commutes ks sp (S : sim) who : forall st,
    thread (sim_obs (wrap_stack ks sp S)) st who =
    (encode_obs_list ks sp (fst (thread (sim_obs S) st who)), snd (thread (sim_obs S) st who)).
  Proof.
    induction who as [|a who IH]; intros st; [reflexivity|].
    cbn [thread]. rewrite obs_commutes. destruct (sim_obs S st a) as [o st1]. cbn [fst snd].
    rewrite IH. destruct (thread (sim_obs S) st1 who) as [r st2]. reflexivity.
  Qed.

  (* every action sequence: same final state, observation trace = encoded trace *)
  Lemma run_commutes ks sp (S : sim) who hs : forall st,
    run_hist (wrap_stack ks sp S) who st hs =
    (map (encode_obs_list ks sp) (fst (run_hist S who st (map (decode_dict ks sp) hs))),
     snd (run_hist S who st (map (decode_dict ks sp) hs))).
  Proof.
    induction hs as [|acts hs IH]; intros st; [reflexivity|].
    cbn [run_hist map]. rewrite step_commutes, thread_commutes.
    destruct (thread (sim_obs S) (sim_step S st (decode_dict ks sp acts)) who) as [obs st2].
    cbn [fst snd]. rewrite IH.
    destruct (run_hist S who st2 (map (decode_dict ks sp) hs)) as [tr st3]. reflexivity.
  Qed.

  Lemma unwrapped_innermost k ks (S : sim) : unwrapped (mk (k :: ks) S) = Some (Bare S).
  Proof.
    revert k. induction ks as [|k' ks IH]; intros k; [reflexivity|].
    change (mk (k :: k' :: ks) S) with (Wrapper k (mk (k' :: ks) S)).
    cbn [unwrapped]. rewrite IH. reflexivity.
  Qed.

  Lemma unwrapped_bare (S : sim) : unwrapped (Bare S) = None.
  Proof. reflexivity. Qed.
End AnySim.

Section AnyActor.
  Context {G Res : Type}.
  Notation actor := (actor G Res).

  Lemma actor_supported ks fs (A : actor) : ac_supported (actor_stack ks fs A) = ac_supported A.
  Proof. induction ks as [|k ks IH]; [reflexivity|]. cbn [actor_stack actor_wrap ac_supported]. exact IH. Qed.

  Lemma actor_commutes ks fs (A : actor) g a u :
    ac_supported A a = true ->
    ac_proc (actor_stack ks fs A) g a u = ac_proc A g a (adecode_stack ks fs a u).
  Proof.
    intros Hs. revert u. induction ks as [|k ks IH]; intros u; [reflexivity|].
    cbn [actor_stack actor_wrap ac_proc adecode_stack]. rewrite actor_supported, Hs. apply IH.
  Qed.

  Lemma actor_unsupported k ks fs (A : actor) g a u :
    ac_supported A a = false -> ac_proc (actor_stack (k :: ks) fs A) g a u = (None, g).
  Proof.
    intros Hs. cbn [actor_stack actor_wrap ac_proc]. rewrite actor_supported, Hs. reflexivity.
  Qed.

  Lemma aunwrapped_innermost k ks (A : actor) : aunwrapped (amk (k :: ks) A) = Some (ABare A).
  Proof.
    revert k. induction ks as [|k' ks IH]; intros k; [reflexivity|].
    change (amk (k :: k' :: ks) A) with (AWrapper k (amk (k' :: ks) A)).
    cbn [aunwrapped]. rewrite IH. reflexivity.
  Qed.
End AnyActor.

(* =====================================================================================
   2. Values: points seen as kind-carrying values and back
   ===================================================================================== *)
Fixpoint u2p_list (ss : list space) (us : list upoint) : option (list point) :=
  match ss, us with
  | [], [] => Some []
  | s :: ss', u :: us' =>
      match u2p s u, u2p_list ss' us' with
      | Some p, Some ps => Some (p :: ps)
      | _, _ => None
      end
  | _, _ => None
  end.
Lemma u2p_Tuple ss us : u2p (Tuple ss) (UT us) = option_map PT (u2p_list ss us).
Proof. reflexivity. Qed.
Lemma u2p_Dict ss us : u2p (Dict ss) (UT us) = option_map PT (u2p_list ss us).
Proof. reflexivity. Qed.

Lemma list_eqb_eq l : forall m, list_eqb l m = true -> l = m.
Proof.
  induction l as [|a l IH]; intros [|b m] H; try discriminate; [reflexivity|].
  cbn in H. apply andb_true_iff in H as [H1 H2]. apply Z.eqb_eq in H1. subst b. f_equal. apply IH, H2.
Qed.

Lemma unscale_upcast v : unscale (upcast v) = Some v.
Proof.
  unfold unscale, upcast.
  assert (H : forallb (fun z => z mod TICK =? 0) (map (fun z => z * TICK) v) = true).
  { induction v as [|z v IH]; [reflexivity|]. cbn [map forallb]. rewrite IH, andb_true_r.
    apply Z.eqb_eq. apply Z.mod_mul. unfold TICK. lia. }
  rewrite H. f_equal. rewrite map_map. rewrite <- (map_id v) at 2. apply map_ext. intros z.
  apply Z.div_mul. unfold TICK. lia.
Qed.

(* a value with the same structure and values as a member point reads back as that point *)
Lemma sv_u2p s : forall p u, member s p = true -> same_values p u = true -> u2p s u = Some p.
Proof.
  induction s as [n|n|nv|bs|bs|ss IH|ss IH] using space_ind'; intros p u Hm Hsv.
  - destruct p as [z| | |]; try discriminate. destruct u as [z' f| | |]; try discriminate.
    cbn in Hsv. apply Z.eqb_eq in Hsv. subst z'. cbn [u2p]. destruct f; [|reflexivity].
    rewrite Z.mod_mul by (unfold TICK; lia). cbn [Z.eqb]. rewrite Z.div_mul by (unfold TICK; lia).
    reflexivity.
  - destruct p as [|v| |]; try discriminate. destruct u as [|w f| |]; try discriminate.
    cbn in Hsv. apply list_eqb_eq in Hsv. subst w. cbn [u2p]. destruct f; [|reflexivity].
    rewrite unscale_upcast. reflexivity.
  - destruct p as [|v| |]; try discriminate. destruct u as [|w f| |]; try discriminate.
    cbn in Hsv. apply list_eqb_eq in Hsv. subst w. cbn [u2p]. destruct f; [|reflexivity].
    rewrite unscale_upcast. reflexivity.
  - destruct p as [|v| |]; try discriminate. destruct u as [|w f| |]; try discriminate.
    cbn in Hsv. apply list_eqb_eq in Hsv. subst w. cbn [u2p]. destruct f; [|reflexivity].
    rewrite unscale_upcast. reflexivity.
  - destruct p as [| |v|]; try discriminate. destruct u as [|w f| |]; try discriminate.
    destruct f; try discriminate. cbn in Hsv. apply list_eqb_eq in Hsv. subst w. reflexivity.
  - destruct p as [| | |ps]; try discriminate. destruct u as [| |us|]; try discriminate.
    rewrite member_Tuple in Hm. rewrite same_values_PT in Hsv. rewrite u2p_Tuple.
    assert (G : u2p_list ss us = Some ps).
    { revert ps us Hm Hsv. induction IH as [|s ss Hs _ IHl]; intros [|p ps] [|u us] Hm Hsv;
        try discriminate; [reflexivity|].
      cbn in Hm, Hsv. apply andb_true_iff in Hm as [Hm1 Hm2]. apply andb_true_iff in Hsv as [Hs1 Hs2].
      cbn [u2p_list]. rewrite (Hs p u Hm1 Hs1), (IHl ps us Hm2 Hs2). reflexivity. }
    rewrite G. reflexivity.
  - destruct p as [| | |ps]; try discriminate. destruct u as [| |us|]; try discriminate.
    rewrite member_Dict in Hm. rewrite same_values_PT in Hsv. rewrite u2p_Dict.
    assert (G : u2p_list ss us = Some ps).
    { revert ps us Hm Hsv. induction IH as [|s ss Hs _ IHl]; intros [|p ps] [|u us] Hm Hsv;
        try discriminate; [reflexivity|].
      cbn in Hm, Hsv. apply andb_true_iff in Hm as [Hm1 Hm2]. apply andb_true_iff in Hsv as [Hs1 Hs2].
      cbn [u2p_list]. rewrite (Hs p u Hm1 Hs1), (IHl ps us Hm2 Hs2). reflexivity. }
    rewrite G. reflexivity.
Qed.

Lemma sv_p2u s : forall p, member s p = true -> same_values p (p2u p) = true.
Proof.
  induction s as [n|n|nv|bs|bs|ss IH|ss IH] using space_ind'; intros p Hm.
  - destruct p; try discriminate. cbn. apply Z.eqb_refl.
  - destruct p; try discriminate. cbn. apply list_eqb_refl.
  - destruct p; try discriminate. cbn. apply list_eqb_refl.
  - destruct p; try discriminate. cbn. apply list_eqb_refl.
  - destruct p; try discriminate. cbn. apply list_eqb_refl.
  - destruct p as [| | |ps]; try discriminate. rewrite member_Tuple in Hm.
    cbn [p2u]. rewrite same_values_PT. revert ps Hm.
    induction IH as [|s ss Hs _ IHl]; intros [|p ps] Hm; try discriminate; [reflexivity|].
    cbn in Hm. apply andb_true_iff in Hm as [Hm1 Hm2]. cbn [map same_values_list].
    rewrite (Hs p Hm1), (IHl ps Hm2). reflexivity.
  - destruct p as [| | |ps]; try discriminate. rewrite member_Dict in Hm.
    cbn [p2u]. rewrite same_values_PT. revert ps Hm.
    induction IH as [|s ss Hs _ IHl]; intros [|p ps] Hm; try discriminate; [reflexivity|].
    cbn in Hm. apply andb_true_iff in Hm as [Hm1 Hm2]. cbn [map same_values_list].
    rewrite (Hs p Hm1), (IHl ps Hm2). reflexivity.
Qed.

Lemma u2p_p2u s p : member s p = true -> u2p s (p2u p) = Some p.
Proof. intros Hm. apply sv_u2p; [exact Hm|apply (sv_p2u s), Hm]. Qed.

(* a value all of whose leaves have integer kind is the image of the point it reads as *)
Lemma to_point_p2u s : forall u p, to_point s u = Some p -> u = p2u p.
Proof.
  induction s as [n|n|nv|bs|bs|ss IH|ss IH] using space_ind'; intros u p H.
  - destruct u as [z [|]| | |]; try discriminate. cbn in H. injection H as <-. reflexivity.
  - destruct u as [|v [|]| |]; try discriminate. cbn in H. injection H as <-. reflexivity.
  - destruct u as [|v [|]| |]; try discriminate. cbn in H. injection H as <-. reflexivity.
  - destruct u as [|v [|]| |]; try discriminate. cbn in H. injection H as <-. reflexivity.
  - destruct u as [z [|]|v [|]| |]; discriminate.
  - destruct u as [| |us|]; try discriminate. rewrite to_point_Tuple in H.
    destruct (to_point_list ss us) as [ps|] eqn:E; [|discriminate]. cbn in H. injection H as <-.
    cbn [p2u]. f_equal. revert us ps E.
    induction IH as [|s ss Hs _ IHl]; intros [|u us] ps E; cbn in E; try discriminate.
    + injection E as <-. reflexivity.
    + destruct (to_point s u) as [p|] eqn:E1; [|discriminate].
      destruct (to_point_list ss us) as [ps'|] eqn:E2; [|discriminate]. injection E as <-.
      cbn [map]. rewrite (Hs u p E1), (IHl us ps' E2). reflexivity.
  - destruct u as [| |us|]; try discriminate.
    change (to_point (Dict ss) (UT us)) with (to_point (Tuple ss) (UT us)) in H.
    rewrite to_point_Tuple in H.
    destruct (to_point_list ss us) as [ps|] eqn:E; [|discriminate]. cbn in H. injection H as <-.
    cbn [p2u]. f_equal. revert us ps E.
    induction IH as [|s ss Hs _ IHl]; intros [|u us] ps E; cbn in E; try discriminate.
    + injection E as <-. reflexivity.
    + destruct (to_point s u) as [p|] eqn:E1; [|discriminate].
      destruct (to_point_list ss us) as [ps'|] eqn:E2; [|discriminate]. injection E as <-.
      cbn [map]. rewrite (Hs u p E1), (IHl us ps' E2). reflexivity.
Qed.

(* =====================================================================================
   3. One wrapper level
   ===================================================================================== *)
Definition bounds_ok (bs : list (Z * Z)) : bool := forallb (fun b => fst b <=? snd b) bs.
Definition fpoint (v : list Z * bool) : point := if snd v then PF (fst v) else PV (fst v).
Definition simple (s : space) : bool :=
  match s with Discrete _ | BoxI _ | BoxF _ => true | _ => false end.

Lemma p2u_fpoint v : p2u (fpoint v) = fvec v.
Proof. destruct v as [v [|]]; reflexivity. Qed.

Lemma bounds_ok_concat l : bounds_ok (concat l) = forallb bounds_ok l.
Proof.
  unfold bounds_ok. induction l as [|x l IH]; [reflexivity|].
  cbn [concat forallb]. rewrite forallb_app, IH. reflexivity.
Qed.

Lemma bounds_ok_scale bs : bounds_ok bs = true -> bounds_ok (scale_bounds bs) = true.
Proof.
  unfold bounds_ok, scale_bounds. induction bs as [|b bs IH]; [reflexivity|].
  cbn [map forallb fst snd]. intros H. apply andb_true_iff in H as [H1 H2].
  rewrite (IH H2), andb_true_r. apply Z.leb_le in H1. apply Z.leb_le. unfold TICK. lia.
Qed.

Lemma fspace_bounds_ok s : wf s = true -> bounds_ok (fst (flatten_space s)) = true.
Proof.
  induction s as [n|n|nv|bs|bs|ss IH|ss IH] using space_ind'; intros Hw.
  - cbn in *. apply Z.ltb_lt in Hw. rewrite andb_true_r. apply Z.leb_le. lia.
  - cbn. clear Hw. induction n as [|n IHn]; [reflexivity|]. cbn. exact IHn.
  - cbn in *. unfold bounds_ok. rewrite forallb_map. cbn [fst snd].
    induction nv as [|d nv IHn]; [reflexivity|]. cbn in *. apply andb_true_iff in Hw as [H1 H2].
    rewrite (IHn H2), andb_true_r. apply Z.ltb_lt in H1. apply Z.leb_le. lia.
  - exact Hw.
  - exact Hw.
  - rewrite wf_Tuple in Hw. apply andb_true_iff in Hw as [_ Hw]. rewrite fspace_Tuple.
    unfold concat_bounds. cbn [fst]. rewrite bounds_ok_concat, forallb_map.
    generalize (existsb snd (fspace_list ss)) as anyf. intros anyf.
    induction IH as [|s ss Hs _ IHl]; [reflexivity|].
    cbn in Hw. apply andb_true_iff in Hw as [H1 H2]. cbn [fspace_list forallb].
    rewrite (IHl H2), andb_true_r. destruct (anyf && negb (snd (flatten_space s))).
    + apply bounds_ok_scale, Hs, H1.
    + apply Hs, H1.
  - rewrite wf_Dict in Hw. apply andb_true_iff in Hw as [_ Hw].
    change (flatten_space (Dict ss)) with (flatten_space (Tuple ss)). rewrite fspace_Tuple.
    unfold concat_bounds. cbn [fst]. rewrite bounds_ok_concat, forallb_map.
    generalize (existsb snd (fspace_list ss)) as anyf. intros anyf.
    induction IH as [|s ss Hs _ IHl]; [reflexivity|].
    cbn in Hw. apply andb_true_iff in Hw as [H1 H2]. cbn [fspace_list forallb].
    rewrite (IHl H2), andb_true_r. destruct (anyf && negb (snd (flatten_space s))).
    + apply bounds_ok_scale, Hs, H1.
    + apply Hs, H1.
Qed.

Lemma fbox_wf s : wf s = true -> wf (fbox (flatten_space s)) = true.
Proof.
  intros Hw. pose proof (fspace_bounds_ok s Hw) as H. unfold fbox.
  destruct (snd (flatten_space s)); exact H.
Qed.

Lemma fbox_simple b : simple (fbox b) = true.
Proof. unfold fbox. destruct (snd b); reflexivity. Qed.

Lemma member_fbox s q :
  wf s = true -> member s q = true -> member (fbox (flatten_space s)) (fpoint (flatten s q)) = true.
Proof.
  intros Hw Hm. pose proof (flatten_in_box s q Hw Hm) as H. unfold box_member in H.
  apply andb_true_iff in H as [H1 H2]. unfold fbox, fpoint.
  destruct (snd (flatten_space s)), (snd (flatten s q)); try discriminate; exact H2.
Qed.

Lemma exact_simple s q :
  simple s = true -> member s q = true ->
  unflatten s (fst (flatten s q)) (snd (flatten s q)) = p2u q.
Proof.
  intros Hs Hm. destruct s; try discriminate; destruct q; try discriminate; reflexivity.
Qed.

(* ravel level *)
Lemma ravel_level s q :
  wf s = true -> ravel_ok s = true -> member s q = true ->
  ravel_enc s (p2u q) = p2u (PI (ravel s q)) /\
  member (ravel_space s) (PI (ravel s q)) = true /\
  ravel_dec s (p2u (PI (ravel s q))) = p2u q /\
  wf (ravel_space s) = true.
Proof.
  intros Hw Ho Hm. destruct (all_good s Hw Ho) as (Hpos & Hf & _).
  destruct (Hf q Hm) as (_ & Hr & Hu). unfold ravel_enc, ravel_dec. rewrite (u2p_p2u s q Hm).
  cbn [p2u]. rewrite Hu. repeat split.
  - cbn. apply in_range_spec. exact Hr.
  - cbn. apply Z.ltb_lt. exact Hpos.
Qed.

(* flatten level *)
Lemma flat_level s q :
  wf s = true -> member s q = true ->
  flat_enc s (p2u q) = p2u (fpoint (flatten s q)) /\
  member (fbox (flatten_space s)) (fpoint (flatten s q)) = true /\
  u2p s (flat_dec s (p2u (fpoint (flatten s q)))) = Some q /\
  (simple s = true -> flat_dec s (p2u (fpoint (flatten s q))) = p2u q) /\
  wf (fbox (flatten_space s)) = true /\
  (has_float s = false -> flat_dec s (p2u (fpoint (flatten s q))) = p2u q).
Proof.
  intros Hw Hm. unfold flat_enc. rewrite (u2p_p2u s q Hm), p2u_fpoint. unfold fvec, flat_dec.
  repeat split.
  - apply member_fbox; assumption.
  - apply sv_u2p; [exact Hm|apply flatten_roundtrip; assumption].
  - intros Hs. apply exact_simple; assumption.
  - apply fbox_wf, Hw.
  - intros Hf. apply (to_point_p2u s). apply flatten_roundtrip_int; assumption.
Qed.

(* ---------- bookkeeping of the per-agent space tables ---------------------------------------- *)
Definition wfs (sp : spaces) : Prop := forallb wf_asp sp = true.

Lemma asp_at_wrap k sp a : asp_at (wrap_spaces k sp) a = option_map (wrap_asp k) (asp_at sp a).
Proof.
  unfold asp_at, wrap_spaces. rewrite nth_error_map.
  destruct (nth_error sp a) as [[x|]|]; reflexivity.
Qed.

Lemma asp_at_In sp a x : asp_at sp a = Some x -> In (Some x) sp.
Proof.
  unfold asp_at. destruct (nth_error sp a) as [[y|]|] eqn:E; try discriminate.
  intros H. injection H as ->. eapply nth_error_In, E.
Qed.

Lemma wfs_at sp a x : wfs sp -> asp_at sp a = Some x -> wf (a_obs x) = true /\ wf (a_act x) = true.
Proof.
  intros Hw Ha. apply asp_at_In in Ha. unfold wfs in Hw. rewrite forallb_forall in Hw.
  specialize (Hw _ Ha). cbn in Hw. apply andb_true_iff in Hw. exact Hw.
Qed.

Lemma ctor_at k sp a x : ctor_ok k sp = true -> asp_at sp a = Some x -> wrap_ok k x = true.
Proof.
  intros Hc Ha. apply asp_at_In in Ha. unfold ctor_ok in Hc. rewrite forallb_forall in Hc.
  exact (Hc _ Ha).
Qed.

Lemma wf_wrap_asp k x :
  wf (a_obs x) = true -> wf (a_act x) = true -> wrap_ok k x = true ->
  wf (a_obs (wrap_asp k x)) = true /\ wf (a_act (wrap_asp k x)) = true.
Proof.
  intros Ho Ha Hk. destruct k; cbn [wrap_asp a_obs a_act].
  - cbn in Hk. apply andb_true_iff in Hk as [K1 K2]. split; cbn; apply Z.ltb_lt.
    + apply (all_good _ Ho K1). + apply (all_good _ Ha K2).
  - split; apply fbox_wf; assumption.
  - split; [exact Ho|apply fbox_wf; exact Ha].
Qed.

Lemma wfs_level ks : forall sp, wfs sp -> stack_ok ks sp = true -> wfs (level_spaces ks sp).
Proof.
  induction ks as [|k ks IH]; intros sp Hw Hs; [exact Hw|].
  cbn in Hs. apply andb_true_iff in Hs as [Hs Hc]. specialize (IH sp Hw Hs).
  cbn [level_spaces]. unfold wfs, wrap_spaces. rewrite forallb_map. apply forallb_forall.
  intros [x|] Hin; [|reflexivity]. unfold wfs in IH. rewrite forallb_forall in IH.
  pose proof (IH _ Hin) as Hx. cbn in Hx. apply andb_true_iff in Hx as [H1 H2].
  unfold ctor_ok in Hc. rewrite forallb_forall in Hc. pose proof (Hc _ Hin) as Hk.
  destruct (wf_wrap_asp k x H1 H2 Hk) as [W1 W2]. cbn. rewrite W1, W2. reflexivity.
Qed.

(* =====================================================================================
   4. Stacks: the encodings climb through member points of the level spaces, and the
      decodings come back down to the point one started from
   ===================================================================================== *)
Lemma act_chain ks : forall sp a x0 q,
  wfs sp -> stack_ok ks sp = true -> asp_at sp a = Some x0 -> member (a_act x0) q = true ->
  exists x q',
    asp_at (level_spaces ks sp) a = Some x /\ wf (a_act x) = true /\
    member (a_act x) q' = true /\
    reencode_act ks sp a (p2u q) = p2u q' /\
    (ks <> [] -> simple (a_act x) = true) /\
    u2p (a_act x0) (decode_stack ks sp a (p2u q')) = Some q /\
    (has_float (a_act x0) = false -> decode_stack ks sp a (p2u q') = p2u q).
Proof.
  induction ks as [|k ks IH]; intros sp a x0 q Hw Hs Ha Hm.
  - exists x0, q. split; [exact Ha|]. split; [apply (wfs_at sp a x0 Hw Ha)|]. split; [exact Hm|].
    split; [reflexivity|]. split; [intros E; contradiction|]. split; [apply u2p_p2u, Hm|].
    intros _. reflexivity.
  - cbn in Hs. apply andb_true_iff in Hs as [Hs Hc].
    destruct (IH sp a x0 q Hw Hs Ha Hm) as (x1 & q1 & A1 & W1 & M1 & R1 & S1 & D1 & X1).
    pose proof (ctor_at k _ a x1 Hc A1) as Hk.
    pose proof (wfs_at _ a x1 (wfs_level ks sp Hw Hs) A1) as [Wo1 _].
    exists (wrap_asp k x1).
    assert (AT : asp_at (level_spaces (k :: ks) sp) a = Some (wrap_asp k x1)).
    { cbn [level_spaces]. rewrite asp_at_wrap, A1. reflexivity. }
    cbn [reencode_act decode_stack]. unfold enc_act, dec_act. rewrite A1, R1.
    destruct k.
    + (* ravel *)
      cbn in Hk. apply andb_true_iff in Hk as [_ Hk].
      destruct (ravel_level (a_act x1) q1 W1 Hk M1) as (E1 & E2 & E3 & E4).
      exists (PI (ravel (a_act x1) q1)). cbn [wrap_asp a_act].
      split; [exact AT|]. split; [exact E4|]. split; [exact E2|]. split; [exact E1|].
      split; [intros _; reflexivity|]. rewrite E3. split; [exact D1|exact X1].
    + (* flatten *)
      destruct (flat_level (a_act x1) q1 W1 M1) as (E1 & E2 & E3 & E4 & E5 & E6).
      exists (fpoint (flatten (a_act x1) q1)). cbn [wrap_asp a_act].
      split; [exact AT|]. split; [exact E5|]. split; [exact E2|]. split; [exact E1|].
      split; [intros _; apply fbox_simple|].
      destruct ks as [|k' ks'].
      * cbn [level_spaces] in A1. rewrite Ha in A1. injection A1 as <-.
        cbn [reencode_act] in R1. cbn [decode_stack].
        assert (Eq : q1 = q).
        { pose proof (u2p_p2u _ _ Hm) as U. rewrite R1 in U. rewrite (u2p_p2u _ _ M1) in U.
          congruence. }
        subst q1. split; [exact E3|exact E6].
      * rewrite (E4 (S1 ltac:(discriminate))). split; [exact D1|exact X1].
    + (* flatten action *)
      destruct (flat_level (a_act x1) q1 W1 M1) as (E1 & E2 & E3 & E4 & E5 & E6).
      exists (fpoint (flatten (a_act x1) q1)). cbn [wrap_asp a_act].
      split; [exact AT|]. split; [exact E5|]. split; [exact E2|]. split; [exact E1|].
      split; [intros _; apply fbox_simple|].
      destruct ks as [|k' ks'].
      * cbn [level_spaces] in A1. rewrite Ha in A1. injection A1 as <-.
        cbn [reencode_act] in R1. cbn [decode_stack].
        assert (Eq : q1 = q).
        { pose proof (u2p_p2u _ _ Hm) as U. rewrite R1 in U. rewrite (u2p_p2u _ _ M1) in U.
          congruence. }
        subst q1. split; [exact E3|exact E6].
      * rewrite (E4 (S1 ltac:(discriminate))). split; [exact D1|exact X1].
Qed.

(* the innermost re-encoding step reads its argument only through u2p *)
Lemma reencode_dep ks sp a x0 w1 w2 :
  ks <> [] -> asp_at sp a = Some x0 -> u2p (a_act x0) w1 = u2p (a_act x0) w2 ->
  reencode_act ks sp a w1 = reencode_act ks sp a w2.
Proof.
  intros Hne Ha Hu. induction ks as [|k ks IH]; [contradiction|].
  cbn [reencode_act]. destruct ks as [|k' ks'].
  - cbn [reencode_act level_spaces]. unfold enc_act. rewrite Ha.
    destruct k; unfold ravel_enc, flat_enc; rewrite Hu; reflexivity.
  - rewrite IH by discriminate. reflexivity.
Qed.

Lemma act_roundtrip ks sp a x0 q :
  wfs sp -> stack_ok ks sp = true -> asp_at sp a = Some x0 -> member (a_act x0) q = true ->
  reencode_act ks sp a (decode_stack ks sp a (reencode_act ks sp a (p2u q))) =
  reencode_act ks sp a (p2u q).
Proof.
  intros Hw Hs Ha Hm. destruct ks as [|k ks]; [reflexivity|].
  destruct (act_chain (k :: ks) sp a x0 q Hw Hs Ha Hm) as (x & q' & _ & _ & _ & R & _ & D & _).
  rewrite <- R in D. apply (reencode_dep (k :: ks) sp a x0); [discriminate|exact Ha|].
  rewrite D. symmetry. apply u2p_p2u, Hm.
Qed.

Definition is_fa (k : wkind) : bool := match k with WFlattenAct => true | _ => false end.

Lemma obs_chain ks : forall sp a x0 q,
  wfs sp -> stack_ok ks sp = true -> asp_at sp a = Some x0 -> member (a_obs x0) q = true ->
  exists x q',
    asp_at (level_spaces ks sp) a = Some x /\ wf (a_obs x) = true /\
    member (a_obs x) q' = true /\
    encode_stack ks sp a (p2u q) = p2u q' /\
    (forallb is_fa ks = true ->
       a_obs x = a_obs x0 /\ q' = q /\ forall w, redecode_obs ks sp a w = w) /\
    (forallb is_fa ks = false -> simple (a_obs x) = true) /\
    u2p (a_obs x0) (redecode_obs ks sp a (p2u q')) = Some q.
Proof.
  induction ks as [|k ks IH]; intros sp a x0 q Hw Hs Ha Hm.
  - exists x0, q. split; [exact Ha|]. split; [apply (wfs_at sp a x0 Hw Ha)|]. split; [exact Hm|].
    split; [reflexivity|]. split; [intros _; repeat split|]. split; [discriminate|].
    apply u2p_p2u, Hm.
  - cbn in Hs. apply andb_true_iff in Hs as [Hs Hc].
    destruct (IH sp a x0 q Hw Hs Ha Hm) as (x1 & q1 & A1 & W1 & M1 & R1 & F1 & S1 & D1).
    pose proof (ctor_at k _ a x1 Hc A1) as Hk.
    exists (wrap_asp k x1).
    assert (AT : asp_at (level_spaces (k :: ks) sp) a = Some (wrap_asp k x1)).
    { cbn [level_spaces]. rewrite asp_at_wrap, A1. reflexivity. }
    cbn [encode_stack redecode_obs]. unfold enc_obs, dec_obs. rewrite A1, R1.
    destruct k.
    + (* ravel *)
      cbn in Hk. apply andb_true_iff in Hk as [Hk _].
      destruct (ravel_level (a_obs x1) q1 W1 Hk M1) as (E1 & E2 & E3 & E4).
      exists (PI (ravel (a_obs x1) q1)). cbn [wrap_asp a_obs forallb is_fa andb].
      split; [exact AT|]. split; [exact E4|]. split; [exact E2|]. split; [exact E1|].
      split; [discriminate|]. split; [intros _; reflexivity|]. rewrite E3. exact D1.
    + (* flatten *)
      destruct (flat_level (a_obs x1) q1 W1 M1) as (E1 & E2 & E3 & E4 & E5 & E6).
      exists (fpoint (flatten (a_obs x1) q1)). cbn [wrap_asp a_obs forallb is_fa andb].
      split; [exact AT|]. split; [exact E5|]. split; [exact E2|]. split; [exact E1|].
      split; [discriminate|]. split; [intros _; apply fbox_simple|].
      destruct (forallb is_fa ks) eqn:Efa.
      * destruct (F1 eq_refl) as (Eo & Eq & Eid). subst q1. rewrite Eid, <- Eo. exact E3.
      * rewrite (E4 (S1 eq_refl)). exact D1.
    + (* flatten action: observations pass through *)
      exists q1. cbn [wrap_asp a_obs forallb is_fa andb].
      split; [exact AT|]. split; [exact W1|]. split; [exact M1|]. split; [reflexivity|].
      split; [|split; [exact S1|exact D1]].
      intros Hfa. destruct (F1 Hfa) as (Eo & Eq & Eid). repeat split; try assumption.
Qed.

Lemma obs_member_stack ks sp a x0 q :
  wfs sp -> stack_ok ks sp = true -> asp_at sp a = Some x0 -> member (a_obs x0) q = true ->
  obs_member (level_spaces ks sp) a (encode_stack ks sp a (p2u q)) = true.
Proof.
  intros Hw Hs Ha Hm.
  destruct (obs_chain ks sp a x0 q Hw Hs Ha Hm) as (x & q' & A & _ & M & R & _).
  unfold obs_member. rewrite A, R, (u2p_p2u _ _ M). exact M.
Qed.

Lemma forallb_ext' {X} (f g : X -> bool) l : (forall x, f x = g x) -> forallb f l = forallb g l.
Proof. intros H. induction l as [|x l IH]; [reflexivity|]. cbn. rewrite H, IH. reflexivity. Qed.

(* check_space = "no float Box anywhere" *)
Lemma stack_ok_spec_eq ks sp : stack_ok_spec ks sp = stack_ok ks sp.
Proof.
  induction ks as [|k ks IH]; [reflexivity|].
  cbn [stack_ok_spec stack_ok]. rewrite IH. f_equal. unfold ctor_ok.
  destruct k; cbn [wrap_ok].
  - apply forallb_ext'. intros [x|]; [|reflexivity]. rewrite !ravel_ok_float. reflexivity.
  - symmetry. apply forallb_forall. intros [x|] _; reflexivity.
  - symmetry. apply forallb_forall. intros [x|] _; reflexivity.
Qed.

(* =====================================================================================
   5. The twin checker accepts the model's behaviour
   ===================================================================================== *)
Definition act_good (ks : list wkind) (sp : spaces) (kv : nat * upoint) : Prop :=
  exists x0 q, asp_at sp (fst kv) = Some x0 /\ member (a_act x0) q = true /\
               snd kv = reencode_act ks sp (fst kv) (p2u q).
Definition obs_good (sp : spaces) (kv : nat * upoint) : Prop :=
  exists x0 q, asp_at sp (fst kv) = Some x0 /\ member (a_obs x0) q = true /\ snd kv = p2u q.

(* well-formed twin input: well-formed spaces, a stack the constructors accept, every submitted
   action is the encoding of a point of the inner action space, every logged bare observation is
   a point of the inner observation space *)
Definition twin_good (i : twin_in) : Prop :=
  wfs (t_sp i) /\ stack_ok (t_ks i) (t_sp i) = true /\
  (forall d kv, In d (t_steps i) -> In kv d -> act_good (t_ks i) (t_sp i) kv) /\
  (forall d kv, In d (t_obs i) -> In kv d -> obs_good (t_sp i) kv).

Lemma upoint_eqb_refl u : upoint_eqb u u = true.
Proof. apply sx_eqb_refl. Qed.

Lemma agent_eqb_refl o : agent_eqb o o = true.
Proof. destruct o as [x|]; [|reflexivity]. cbn [agent_eqb]. unfold space_eqb. rewrite !sx_eqb_refl. reflexivity. Qed.

Lemma forall2b_refl {X} (f : X -> X -> bool) l : (forall x, f x x = true) -> forall2b f l l = true.
Proof. intros H. induction l as [|x l IH]; [reflexivity|]. cbn. rewrite H, IH. reflexivity. Qed.

Theorem chk_twin_model i :
  twin_good i ->
  chk_twin i (1, 1, 1) (level_spaces (t_ks i) (t_sp i)) (twin_decoded i) (twin_encoded i) = 1.
Proof.
  intros (Hw & Hs & Hact & Hobs). unfold chk_twin. cbv zeta.
  rewrite stack_ok_spec_eq, Hs. cbn [negb fst snd Z.eqb Pos.eqb].
  rewrite (forall2b_refl agent_eqb _ agent_eqb_refl). cbn [negb].
  assert (C6 : forall2b (forall2b (chk_act (t_ks i) (t_sp i))) (t_steps i) (twin_decoded i) = true).
  { unfold twin_decoded. rewrite forall2b_map_r. apply forallb_in. intros d Hd.
    unfold decode_dict. rewrite forall2b_map_r. apply forallb_in. intros kv Hkv.
    destruct (Hact d kv Hd Hkv) as (x0 & q & Ha & Hm & Eu).
    unfold chk_act. cbn [fst snd]. rewrite Nat.eqb_refl, Eu.
    rewrite (act_roundtrip _ _ _ x0 q Hw Hs Ha Hm). apply upoint_eqb_refl. }
  assert (C7 : forall2b (forall2b (chk_obs7 (t_ks i) (t_sp i))) (t_obs i) (twin_encoded i) = true).
  { unfold twin_encoded. rewrite forall2b_map_r. apply forallb_in. intros d Hd.
    rewrite forall2b_map_r. apply forallb_in. intros kv Hkv.
    destruct (Hobs d kv Hd Hkv) as (x0 & q & Ha & Hm & Eu).
    unfold chk_obs7. cbn [fst snd]. rewrite Nat.eqb_refl, Ha, Eu.
    destruct (obs_chain _ _ _ x0 q Hw Hs Ha Hm) as (x & q' & _ & _ & _ & R & _ & _ & D).
    rewrite R, D, (u2p_p2u _ _ Hm). cbn. apply sx_eqb_refl. }
  assert (C8 : forallb (forallb (chk_obs8 (level_spaces (t_ks i) (t_sp i)))) (twin_encoded i) = true).
  { unfold twin_encoded. rewrite forallb_map. apply forallb_in. intros d Hd.
    rewrite forallb_map. apply forallb_in. intros kv Hkv.
    destruct (Hobs d kv Hd Hkv) as (x0 & q & Ha & Hm & Eu).
    unfold chk_obs8. cbn [fst snd]. rewrite Eu.
    rewrite (obs_member_stack _ _ _ x0 q Hw Hs Ha Hm). reflexivity. }
  rewrite C6, C7, C8. reflexivity.
Qed.

(* =====================================================================================
   6. Actor wrappers: decoded actions are points of the channel, re-encoding inverts
   ===================================================================================== *)
Definition awfs (fs : chans) : Prop :=
  forallb (fun o => match o with Some s => wf s | None => true end) fs = true.

Lemma chan_at_map k fs a :
  chan_at (map (option_map (awrap_space k)) fs) a = option_map (awrap_space k) (chan_at fs a).
Proof.
  unfold chan_at. rewrite nth_error_map. destruct (nth_error fs a) as [[s|]|]; reflexivity.
Qed.

Lemma chan_at_In fs a s : chan_at fs a = Some s -> In (Some s) fs.
Proof.
  unfold chan_at. destruct (nth_error fs a) as [[y|]|] eqn:E; try discriminate.
  intros H. injection H as ->. eapply nth_error_In, E.
Qed.

Lemma excl_ok_Dict s : excl_ok s = true -> exists ss, s = Dict ss /\ ravel_ok (Dict ss) = true.
Proof. destruct s; try discriminate. intros H. eexists; split; [reflexivity|exact H]. Qed.

Lemma excl_size_pos ss :
  wf (Dict ss) = true -> ravel_ok (Dict ss) = true -> 0 < excl_size (map size ss).
Proof.
  intros Hw Ho. destruct (dict_parts ss Hw Ho) as [W O].
  pose proof (good_list_pos ss (all_good_list ss) W O) as Hp.
  pose proof (tot_nonneg _ Hp). rewrite excl_size_tot. lia.
Qed.

Lemma awrap_wf k s : wf s = true -> awrap_ok k s = true -> wf (awrap_space k s) = true.
Proof.
  intros Hw Ho. destruct k; cbn in Ho.
  - cbn. apply Z.ltb_lt. apply (all_good s Hw Ho).
  - destruct (excl_ok_Dict s Ho) as (ss & -> & Hr). cbn. apply Z.ltb_lt.
    apply excl_size_pos; assumption.
Qed.

Lemma awfs_level ks : forall fs, awfs fs -> astack_ok ks fs = true -> awfs (alevel ks fs).
Proof.
  induction ks as [|k ks IH]; intros fs Hw Hs; [exact Hw|].
  cbn in Hs. apply andb_true_iff in Hs as [Hs Hc]. specialize (IH fs Hw Hs).
  cbn [alevel]. unfold awfs. rewrite forallb_map. apply forallb_forall.
  intros [s|] Hin; [|reflexivity]. unfold awfs in IH. rewrite forallb_forall in IH, Hc.
  cbn. apply awrap_wf; [exact (IH _ Hin)|exact (Hc _ Hin)].
Qed.

Lemma actor_chain ks : forall fs a s0 st pt,
  awfs fs -> astack_ok ks fs = true -> chan_at fs a = Some s0 ->
  chan_at (alevel ks fs) a = Some st -> member st pt = true ->
  exists p0, adecode_stack ks fs a (p2u pt) = p2u p0 /\ member s0 p0 = true /\
             areencode ks fs a (p2u p0) = p2u pt.
Proof.
  induction ks as [|k ks IH]; intros fs a s0 st pt Hw Hs Ha Ht Hm.
  - cbn in Ht. rewrite Ha in Ht. injection Ht as <-. exists pt. repeat split. exact Hm.
  - cbn in Hs. apply andb_true_iff in Hs as [Hs Hc].
    cbn [alevel] in Ht. rewrite chan_at_map in Ht.
    destruct (chan_at (alevel ks fs) a) as [s1|] eqn:E1; [|discriminate]. cbn in Ht.
    injection Ht as <-.
    pose proof (awfs_level ks fs Hw Hs) as Hwl. unfold awfs in Hwl. rewrite forallb_forall in Hwl, Hc.
    pose proof (Hwl _ (chan_at_In _ _ _ E1)) as W1. pose proof (Hc _ (chan_at_In _ _ _ E1)) as O1.
    cbn in W1. cbn [adecode_stack areencode]. unfold adec, aenc. rewrite E1.
    destruct k; cbn in O1.
    + (* ravel *)
      destruct pt as [c| | |]; try discriminate. cbn in Hm. apply in_range_spec in Hm.
      destruct (all_good s1 W1 O1) as (_ & Hf & Hb). destruct (Hb c Hm) as (B1 & B2).
      destruct (IH fs a s0 s1 (unravel s1 c) Hw Hs Ha E1 B1) as (p0 & D & M & R).
      exists p0. cbn [awrap_point aunwrap_point p2u ravel_dec]. rewrite D, R.
      split; [reflexivity|]. split; [exact M|].
      unfold ravel_enc. rewrite (u2p_p2u _ _ B1), B2. reflexivity.
    + (* exclusive *)
      destruct (excl_ok_Dict s1 O1) as (ss & -> & Hr).
      destruct pt as [c| | |]; try discriminate. cbn in Hm. apply in_range_spec in Hm.
      destruct (excl_decode_ok ss c W1 Hr Hm) as (X1 & _ & X3 & _).
      destruct (IH fs a s0 (Dict ss) (excl_decode ss c) Hw Hs Ha E1 X1) as (p0 & D & M & R).
      exists p0. cbn [awrap_point aunwrap_point p2u excl_dec]. rewrite D, R.
      split; [reflexivity|]. split; [exact M|].
      unfold excl_enc. rewrite (u2p_p2u _ _ X1), X3. reflexivity.
Qed.

Lemma map2_map_r {X Y W} (g : X -> Y -> W) (f : X -> Y) l : map2 g l (map f l) = map (fun x => g x (f x)) l.
Proof. induction l as [|x l IH]; [reflexivity|]. cbn. rewrite IH. reflexivity. Qed.

Lemma first_bad_ok {X} (h : X -> Z) l : (forall x, In x l -> h x = 1) -> first_bad (map h l) = 1.
Proof.
  intros H. induction l as [|x l IH]; [reflexivity|]. cbn [map first_bad].
  rewrite (H x (or_introl eq_refl)). cbn. apply IH. intros y Hy. apply H. right. exact Hy.
Qed.

Lemma astack_ok_spec_eq ks fs : astack_ok_spec ks fs = astack_ok ks fs.
Proof.
  induction ks as [|k ks IH]; [reflexivity|].
  cbn [astack_ok_spec astack_ok]. rewrite IH. f_equal. apply forallb_ext'.
  intros [s|]; [|reflexivity]. destruct k; cbn [awrap_ok].
  - rewrite ravel_ok_float, andb_true_r. reflexivity.
  - unfold excl_ok. destruct s; rewrite ?andb_false_r; try reflexivity.
    rewrite ravel_ok_float, andb_true_r. reflexivity.
Qed.

Lemma sizes_spec ks fs :
  astack_ok ks fs = true -> map chan_size (alevel ks fs) = spec_sizes ks fs.
Proof.
  destruct ks as [|k ks]; [reflexivity|]. intros Hs. cbn in Hs. apply andb_true_iff in Hs as [_ Hc].
  cbn [alevel]. unfold spec_sizes. rewrite map_map. apply map_ext_in. intros [s|] Hin; [|reflexivity].
  rewrite forallb_forall in Hc. specialize (Hc _ Hin). cbn in Hc. cbn [option_map chan_size].
  destruct k; cbn in Hc.
  - cbn. destruct s; reflexivity.
  - destruct (excl_ok_Dict s Hc) as (ss & -> & _). cbn [awrap_space spec_wrapped_size].
    rewrite excl_space_size. reflexivity.
Qed.

(* well-formed actor input: well-formed channel spaces, a stack the constructors accept, every
   submitted integer is a point of the agent's wrapped (top-level) channel space *)
Definition actor_good (i : actor_in) : Prop :=
  awfs (ai_fs i) /\ astack_ok (ai_ks i) (ai_fs i) = true /\
  (forall c, In c (ai_calls i) ->
     match chan_at (alevel (ai_ks i) (ai_fs i)) (fst c) with
     | Some st => member st (PI (snd c)) = true
     | None => True
     end).

Lemma chan_level_some ks : forall fs a s0,
  chan_at fs a = Some s0 -> exists st, chan_at (alevel ks fs) a = Some st.
Proof.
  induction ks as [|k ks IH]; intros fs a s0 Ha; [exists s0; exact Ha|].
  destruct (IH fs a s0 Ha) as (s1 & E). cbn [alevel]. rewrite chan_at_map, E. eexists. reflexivity.
Qed.

Theorem chk_actor_model i :
  actor_good i ->
  chk_actor i 1 (map chan_size (alevel (ai_ks i) (ai_fs i))) (actor_results i) = 1.
Proof.
  intros (Hw & Hs & Hc). unfold chk_actor.
  rewrite astack_ok_spec_eq, Hs. cbn [negb Z.eqb Pos.eqb].
  rewrite (sizes_spec _ _ Hs). unfold sx_list_eqb. rewrite sx_eqb_refl. cbn [negb].
  unfold actor_results. rewrite map_length, Nat.eqb_refl. cbn [negb].
  rewrite map2_map_r. apply first_bad_ok. intros [a c] Hin. specialize (Hc _ Hin). cbn [fst snd] in Hc.
  unfold chk_call, actor_call. cbn [fst snd].
  destruct (chan_at (ai_fs i) a) as [s0|] eqn:Ea.
  - destruct (chan_level_some (ai_ks i) _ _ _ Ea) as (st & Et). rewrite Et in Hc.
    destruct (actor_chain (ai_ks i) (ai_fs i) a s0 st (PI c) Hw Hs Ea Et Hc) as (p0 & D & M & R).
    cbn [p2u] in D, R. cbn [fst snd negb]. rewrite D, (u2p_p2u _ _ M), M. cbn [negb].
    rewrite R, upoint_eqb_refl. cbn [negb].
    destruct (ai_ks i) as [|k [|k' ks']] eqn:Eks; try reflexivity.
    + destruct k; try reflexivity. destruct s0 as [| | | | | |ss]; try reflexivity.
      (* a single exclusive wrapper on a Dict channel *)
      cbn [astack_ok alevel andb] in Hs. rewrite forallb_forall in Hs.
      pose proof (Hs _ (chan_at_In _ _ _ Ea)) as Ho. cbn in Ho.
      unfold awfs in Hw. rewrite forallb_forall in Hw. pose proof (Hw _ (chan_at_In _ _ _ Ea)) as W0.
      cbn in W0. cbn [alevel] in Et. rewrite chan_at_map, Ea in Et. cbn in Et. injection Et as <-.
      cbn in Hc. apply in_range_spec in Hc.
      destruct (excl_decode_ok ss c W0 Ho Hc) as (X1 & X2 & _ & X4).
      cbn [adecode_stack alevel] in D. unfold adec in D. rewrite Ea in D. cbn [awrap_point excl_dec] in D.
      assert (Ep : p0 = excl_decode ss c).
      { pose proof (u2p_p2u _ _ X1) as U. rewrite D, (u2p_p2u _ _ M) in U. congruence. }
      subst p0. unfold one_channel in X2. apply Nat.leb_le in X2. rewrite X2, X4, Z.eqb_refl. reflexivity.
    + destruct k; reflexivity.
  - cbn [fst snd orb]. rewrite upoint_eqb_refl. reflexivity.
Qed.

(* decoded actions of the two actor wrappers are points of the recorded channel space *)
Lemma actor_decoded_member ks fs a s0 st c :
  awfs fs -> astack_ok ks fs = true -> chan_at fs a = Some s0 ->
  chan_at (alevel ks fs) a = Some st -> member st (PI c) = true ->
  exists p0, adecode_stack ks fs a (UI c false) = p2u p0 /\ member s0 p0 = true /\
             areencode ks fs a (p2u p0) = UI c false.
Proof. intros Hw Hs Ha Ht Hm. exact (actor_chain ks fs a s0 st (PI c) Hw Hs Ha Ht Hm). Qed.

(* =====================================================================================
   7. Statements in the form used by Props/P_C06.v
   ===================================================================================== *)
Section Statements.
  Context {St Info : Type}.
  Notation sim := (simulation St upoint Info upoint).

  Lemma obs_member_wrapped (S : sim) ks sp st a x0 q :
    wfs sp -> stack_ok ks sp = true -> asp_at sp a = Some x0 ->
    fst (sim_obs S st a) = p2u q -> member (a_obs x0) q = true ->
    exists x q', asp_at (level_spaces ks sp) a = Some x /\
                 fst (sim_obs (wrap_stack ks sp S) st a) = p2u q' /\
                 member (a_obs x) q' = true.
  Proof.
    intros Hw Hs Ha Ho Hm. rewrite obs_commutes. cbn [fst]. rewrite Ho.
    destruct (obs_chain ks sp a x0 q Hw Hs Ha Hm) as (x & q' & A & _ & M & R & _).
    exists x, q'. repeat split; assumption.
  Qed.
End Statements.

(* stepping with the encoding of an inner action q hands q (up to numpy kinds) to the inner sim *)
Lemma decode_of_encoding ks sp a x0 q :
  wfs sp -> stack_ok ks sp = true -> asp_at sp a = Some x0 -> member (a_act x0) q = true ->
  u2p (a_act x0) (decode_stack ks sp a (reencode_act ks sp a (p2u q))) = Some q.
Proof.
  intros Hw Hs Ha Hm.
  destruct (act_chain ks sp a x0 q Hw Hs Ha Hm) as (x & q' & _ & _ & _ & R & _ & D & _).
  rewrite R. exact D.
Qed.

(* ... and exactly q, kinds included, when the inner action space has no float Box *)
Lemma decode_of_encoding_int ks sp a x0 q :
  wfs sp -> stack_ok ks sp = true -> asp_at sp a = Some x0 -> member (a_act x0) q = true ->
  has_float (a_act x0) = false ->
  decode_stack ks sp a (reencode_act ks sp a (p2u q)) = p2u q.
Proof.
  intros Hw Hs Ha Hm Hf.
  destruct (act_chain ks sp a x0 q Hw Hs Ha Hm) as (x & q' & _ & _ & _ & R & _ & _ & X).
  rewrite R. exact (X Hf).
Qed.
