(* Proofs about Ctl/Comms.v: the two tables of the communication wrapper, for an arbitrary wrapped
   simulation (part 1) and the scripted instance against the checker chk_C20 (part 2). *)
From Coq Require Import ZArith List Bool Arith Lia.
From Abm Require Import Base.Sx Ctl.Managers Ctl.ScriptSim Ctl.MgrCheck Ctl.Super Ctl.Comms
     Proofs.Managers_proofs Proofs.Super_proofs.
Import ListNotations.

(* ---------------------------------------------------------------- keyed maps *)
Definition kmap {V : Type} (l : list nat) (g : nat -> V) : list (nat * V) := map (fun k => (k, g k)) l.

Lemma table_kmap n F : table n F = kmap (seq 0 n) (fun r => kmap (others n r) (F r)).
Proof. reflexivity. Qed.

Lemma kmap_keys {V} l (g : nat -> V) : map fst (kmap l g) = l.
Proof. unfold kmap. rewrite map_map. cbn [fst]. apply map_id. Qed.

Lemma alookup_kmap {V} l (g : nat -> V) k :
  alookup (kmap l g) k = if memb k l then Some (g k) else None.
Proof.
  induction l as [|x l IH]; [reflexivity|]. cbn [kmap map alookup]. unfold memb. cbn [existsb].
  destruct (Nat.eqb k x) eqn:E; [apply Nat.eqb_eq in E; subst; reflexivity|]. exact IH.
Qed.

Lemma aupd_kmap {V} l (g : nat -> V) k0 v :
  NoDup l -> In k0 l ->
  aupd (kmap l g) k0 v = kmap l (fun k => if Nat.eqb k k0 then v else g k).
Proof.
  induction l as [|x l IH]; intros ND Hin; [contradiction|].
  inversion ND as [|y m Hn ND']; subst. cbn [kmap map aupd].
  destruct (Nat.eqb k0 x) eqn:E.
  - apply Nat.eqb_eq in E. subst x. rewrite Nat.eqb_refl. f_equal.
    apply map_ext_in. intros k Hk. destruct (Nat.eqb k k0) eqn:E2; [|reflexivity].
    apply Nat.eqb_eq in E2. subst. contradiction.
  - rewrite Nat.eqb_sym, E. f_equal. destruct Hin as [->|Hin]; [rewrite Nat.eqb_refl in E; discriminate|].
    apply IH; assumption.
Qed.

Lemma kmap_ext {V} l (g g' : nat -> V) : (forall k, In k l -> g k = g' k) -> kmap l g = kmap l g'.
Proof. intros H. apply map_ext_in. intros k Hk. rewrite (H k Hk). reflexivity. Qed.

Lemma others_In n a b : In b (others n a) <-> (b < n)%nat /\ b <> a.
Proof.
  unfold others. rewrite filter_In, in_seq, negb_true_iff, Nat.eqb_neq. split; intros [H1 H2]; split; auto; lia.
Qed.

Lemma others_NoDup n a : NoDup (others n a).
Proof. unfold others. apply NoDup_filter, seq_NoDup. Qed.

Lemma table_ext n F G : (forall r s, F r s = G r s) -> table n F = table n G.
Proof.
  intros H. rewrite !table_kmap. apply kmap_ext. intros r _. apply kmap_ext. intros s _. apply H.
Qed.

Lemma alookup_table n F r :
  (r < n)%nat -> alookup (table n F) r = Some (kmap (others n r) (F r)).
Proof.
  intros H. rewrite table_kmap, alookup_kmap.
  assert (M : memb r (seq 0 n) = true) by (apply memb_In, in_seq; lia). rewrite M. reflexivity.
Qed.

Lemma alookup_table_none n F r : ~ (r < n)%nat -> alookup (table n F) r = None.
Proof.
  intros H. rewrite table_kmap, alookup_kmap.
  assert (M : memb r (seq 0 n) = false) by (apply memb_false_In; rewrite in_seq; lia). rewrite M. reflexivity.
Qed.

Lemma aupd_table_row n F r (f : nat -> bool) :
  (r < n)%nat ->
  aupd (table n F) r (kmap (others n r) f) = table n (fun r' s => if Nat.eqb r' r then f s else F r' s).
Proof.
  intros H. rewrite !table_kmap, aupd_kmap; [|apply seq_NoDup|apply in_seq; lia].
  apply kmap_ext. intros r' _. destruct (Nat.eqb r' r) eqn:E; [|reflexivity].
  apply Nat.eqb_eq in E. subst. reflexivity.
Qed.

Lemma all_some_map_some {X Y} (h : X -> Y) (f : X -> option Y) l :
  (forall x, In x l -> f x = Some (h x)) -> all_some (map f l) = Some (map h l).
Proof.
  induction l as [|x l IH]; intros H; [reflexivity|]. cbn [map all_some].
  rewrite (H x (or_introl eq_refl)), IH; [reflexivity|]. intros y Hy. apply H. right. exact Hy.
Qed.

Lemma incl_b_spec l m : incl_b l m = true <-> (forall x, In x l -> In x m).
Proof.
  unfold incl_b. rewrite forallb_forall. split; intros H x Hx; [apply memb_In|apply memb_In]; auto.
Qed.

Lemma alookup_In_keys {V} (l : list (nat * V)) k : In k (map fst l) -> exists v, alookup l k = Some v.
Proof.
  induction l as [|[k' v'] l IH]; [intros []|]. cbn [map fst alookup]. intros [->|H].
  - rewrite Nat.eqb_refl. eauto.
  - destruct (Nat.eqb k k'); eauto.
Qed.

Lemma alookup_not_In {V} (l : list (nat * V)) k : ~ In k (map fst l) -> alookup l k = None.
Proof.
  induction l as [|[k' v'] l IH]; [reflexivity|]. cbn [map fst alookup]. intros H.
  destruct (Nat.eqb k k') eqn:E; [apply Nat.eqb_eq in E; subst; exfalso; apply H; left; reflexivity|].
  apply IH. intros C. apply H. right. exact C.
Qed.

(* ================================================================ part 1: any simulation *)
Section P.
  Context {St Obs Info Act : Type}.
  Variable Sim : simulation St Obs Info Act.
  Variable s_fobs : St -> nat -> row -> Obs * St.
  Notation n := (sim_n Sim).
  Notation cstate := (cst St Act).
  Notation wf_act := (wf_act Sim).
  Notation wf_acts := (wf_acts Sim).
  Notation c_step := (c_step Sim).
  Notation c_call := (c_call Sim s_fobs).
  Notation c_exec := (c_exec Sim s_fobs).
  Notation c_reset := (c_reset Sim).

  Lemma wf_act_spec r (a : cact Act) :
    wf_act (r, a) = true ->
    (r < n)%nat /\ NoDup (map fst (ca_send a)) /\
    (forall x, In x (map fst (ca_send a)) -> In x (others n r)) /\
    (forall x, In x (others n r) -> In x (map fst (ca_recv a))).
  Proof.
    unfold Comms.wf_act. cbn [fst snd]. rewrite !andb_true_iff. intros [[[H1 H2] H3] H4].
    apply Nat.ltb_lt in H1. apply nodupb_NoDup in H2. rewrite incl_b_spec in H3, H4. auto.
  Qed.

  (* ---------------- receive phase ---------------- *)
  Lemma recv_row_shaped r (a : cact Act) (B R : nat -> bool) :
    (forall x, In x (others n r) -> In x (map fst (ca_recv a))) ->
    recv_row (kmap (others n r) B) (ca_recv a) (kmap (others n r) R)
    = Some (kmap (others n r) (fun s => B s && wants a s)).
  Proof.
    intros Hr. unfold recv_row, kmap at 2. rewrite map_map. cbn [fst].
    apply all_some_map_some. intros s Hs. rewrite alookup_kmap.
    assert (M : memb s (others n r) = true) by (apply memb_In, Hs). rewrite M.
    destruct (B s); cbn [andb]; [|reflexivity].
    destruct (alookup_In_keys (ca_recv a) s (Hr s Hs)) as (x & E). unfold wants. rewrite E. reflexivity.
  Qed.

  Lemma recv_phase_shaped B (acts : list (nat * cact Act)) : forall R,
    NoDup (map fst acts) -> forallb wf_act acts = true ->
    recv_phase (table n B) (table n R) acts
    = (table n (fun r s => match alookup acts r with
                           | Some a => B r s && wants a s
                           | None => R r s
                           end), true).
  Proof.
    induction acts as [|[r a] acts IH]; intros R ND W.
    - cbn. f_equal.
    - cbn [map fst] in ND. inversion ND as [|x l Hn ND']; subst.
      cbn [forallb] in W. apply andb_true_iff in W. destruct W as [W1 W].
      destruct (wf_act_spec r a W1) as (Hr & _ & _ & Hrc).
      cbn [recv_phase]. rewrite !(alookup_table n _ r Hr), (recv_row_shaped r a (B r) (R r) Hrc).
      rewrite aupd_table_row by exact Hr. rewrite (IH _ ND' W). f_equal.
      apply table_ext. intros r' s. cbn [alookup].
      destruct (Nat.eqb r' r) eqn:E; [|reflexivity].
      apply Nat.eqb_eq in E. subst r'. rewrite (alookup_not_In acts r Hn). reflexivity.
  Qed.

  (* ---------------- send phase ---------------- *)
  Lemma send_row_shaped s (sends : row) : forall F,
    (s < n)%nat -> NoDup (map fst sends) -> (forall x, In x (map fst sends) -> In x (others n s)) ->
    send_row (table n F) s sends
    = (table n (fun r s' => if Nat.eqb s' s
                            then match alookup sends r with Some m => m | None => F r s' end
                            else F r s'), true).
  Proof.
    induction sends as [|[r m] sends IH]; intros F Hs ND Hin.
    - cbn. f_equal. apply table_ext. intros r s'. destruct (Nat.eqb s' s); reflexivity.
    - cbn [map fst] in ND. inversion ND as [|x l Hn ND']; subst.
      assert (Hr : In r (others n s)) by (apply Hin; left; reflexivity).
      apply others_In in Hr. destruct Hr as [Hr Hrs].
      assert (Hso : In s (others n r)) by (apply others_In; split; [exact Hs|congruence]).
      cbn [send_row]. rewrite (alookup_table n F r Hr).
      rewrite (aupd_kmap (others n r) (F r) s m (others_NoDup n r) Hso).
      rewrite (aupd_table_row n F r _ Hr).
      rewrite IH; [|exact Hs|exact ND'|intros x Hx; apply Hin; right; exact Hx].
      f_equal. apply table_ext. intros r' s'. cbn [alookup].
      destruct (Nat.eqb s' s) eqn:Es.
      + destruct (Nat.eqb r' r) eqn:Er.
        * apply Nat.eqb_eq in Er. subst r'. rewrite (alookup_not_In sends r Hn). reflexivity.
        * reflexivity.
      + destruct (Nat.eqb r' r) eqn:Er; [|reflexivity].
        apply Nat.eqb_eq in Er. subst r'. reflexivity.
  Qed.

  Lemma send_phase_shaped (acts : list (nat * cact Act)) : forall F,
    NoDup (map fst acts) -> forallb wf_act acts = true ->
    send_phase (table n F) acts
    = (table n (fun r s => match alookup acts s with
                           | Some a => match alookup (ca_send a) r with Some m => m | None => F r s end
                           | None => F r s
                           end), true).
  Proof.
    induction acts as [|[s a] acts IH]; intros F ND W.
    - cbn. f_equal.
    - cbn [map fst] in ND. inversion ND as [|x l Hn ND']; subst.
      cbn [forallb] in W. apply andb_true_iff in W. destruct W as [W1 W].
      destruct (wf_act_spec s a W1) as (Hs & Hnd & Hsd & _).
      cbn [send_phase]. rewrite (send_row_shaped s (ca_send a) F Hs Hnd Hsd).
      rewrite (IH _ ND' W). f_equal. apply table_ext. intros r s'. cbn [alookup].
      destruct (Nat.eqb s' s) eqn:E; [|reflexivity].
      apply Nat.eqb_eq in E. subst s'. rewrite (alookup_not_In acts s Hn). reflexivity.
  Qed.

  (* ---------------- one step on shaped tables ---------------- *)
  Theorem step_shaped (c : cstate) acts B R :
    c_buf c = table n B -> c_rcv c = table n R -> wf_acts acts = true ->
    c_step c acts =
      (COk, {| c_sim := sim_step Sim (c_sim c) (sim_acts acts);
               c_buf := table n (fun r s => sent acts s r);
               c_rcv := table n (fun r s => match alookup acts r with
                                            | Some a => B r s && wants a s
                                            | None => R r s
                                            end);
               c_log := c_log c ++ [LStep (sim_acts acts)] |}).
  Proof.
    intros Eb Er W. unfold Comms.wf_acts in W. apply andb_true_iff in W. destruct W as [ND W].
    apply nodupb_NoDup in ND. unfold Comms.c_step. rewrite Eb, Er.
    rewrite (recv_phase_shaped B acts R ND W). cbn [negb].
    rewrite (send_phase_shaped acts (fun _ _ => false) ND W). reflexivity.
  Qed.

  (* ---------------- histories ---------------- *)
  Definition tables_are (c : cstate) (h : list (list (nat * cact Act))) : Prop :=
    c_buf c = table n (spec_buf h) /\ c_rcv c = table n (spec_rcv h).

  Lemma reset_tables (c : cstate) : tables_are (c_reset c) [].
  Proof. split; reflexivity. Qed.

  Lemma step_tables (c : cstate) h acts :
    tables_are c h -> wf_acts acts = true ->
    fst (c_step c acts) = COk /\ tables_are (snd (c_step c acts)) (acts :: h) /\
    c_sim (snd (c_step c acts)) = sim_step Sim (c_sim c) (sim_acts acts) /\
    c_log (snd (c_step c acts)) = c_log c ++ [LStep (sim_acts acts)].
  Proof.
    intros [Eb Er] W. rewrite (step_shaped c acts _ _ Eb Er W). cbn [fst snd c_buf c_rcv c_sim c_log].
    repeat split.
  Qed.

  (* the steps of an episode, most recent first; getter calls do not matter *)
  Fixpoint steps_of (qs : list (ccall Act)) (h : list (list (nat * cact Act)))
    : list (list (nat * cact Act)) :=
    match qs with
    | [] => h
    | QStep acts :: qs' => steps_of qs' (acts :: h)
    | _ :: qs' => steps_of qs' h
    end.

  Definition steps_wf (qs : list (ccall Act)) : Prop :=
    forall acts, In (QStep acts) qs -> wf_acts acts = true.
  Definition no_qreset (qs : list (ccall Act)) : Prop :=
    forall q, In q qs -> q <> QReset.

  Lemma getter_tables (c : cstate) q h :
    tables_are c h -> (forall acts, q <> QStep acts) -> q <> QReset ->
    tables_are (snd (c_call c q)) h.
  Proof.
    intros [Eb Er] Hs Hr. destruct q as [|acts|a|a|a|a|]; try congruence;
      try (exfalso; apply (Hs acts); reflexivity); cbn [Comms.c_call snd].
    - unfold c_obs. destruct (alookup (c_rcv c) a); [|split; assumption].
      destruct (s_fobs (c_sim c) a r). destruct (alookup (c_buf c) a); split; assumption.
    - unfold c_rew. destruct (sim_reward Sim (c_sim c) a). split; assumption.
    - split; assumption.
    - split; assumption.
    - split; assumption.
  Qed.

  Theorem exec_tables qs : forall (c : cstate) h,
    tables_are c h -> no_qreset qs -> steps_wf qs -> tables_are (c_exec c qs) (steps_of qs h).
  Proof.
    induction qs as [|q qs IH]; intros c h T Nr W; [exact T|].
    assert (Nr' : no_qreset qs) by (intros q' Hq'; apply Nr; right; exact Hq').
    assert (W' : steps_wf qs) by (intros a Ha; apply W; right; exact Ha).
    assert (Hq : q <> QReset) by (apply Nr; left; reflexivity).
    change (c_exec c (q :: qs)) with (c_exec (snd (c_call c q)) qs).
    destruct q as [|acts|a|a|a|a|]; try congruence; cbn [steps_of];
      try (apply IH; [apply getter_tables; [exact T|intros x; discriminate|discriminate]|exact Nr'|exact W']).
    apply IH; [|exact Nr'|exact W'].
    apply (step_tables c h acts T). apply W. left. reflexivity.
  Qed.

  (* ---------------- the rules, read off the tables ---------------- *)
  Definition entry (t : rows) (r s : nat) : option bool :=
    match alookup t r with Some rw => alookup rw s | None => None end.

  Lemma entry_table F r s : (r < n)%nat -> (s < n)%nat -> s <> r -> entry (table n F) r s = Some (F r s).
  Proof.
    intros Hr Hs Hne. unfold entry. rewrite (alookup_table n F r Hr), alookup_kmap.
    assert (M : memb s (others n r) = true) by (apply memb_In, others_In; auto). rewrite M. reflexivity.
  Qed.

  (* C20_buffer_rule / C20_receive_rule for an episode: any state c0 before the reset, any calls
     qs after it (no further reset, well-formed action dicts) *)
  Theorem episode_rules (c0 : cstate) qs r s :
    no_qreset qs -> steps_wf qs -> (r < n)%nat -> (s < n)%nat -> s <> r ->
    let c := c_exec (c_reset c0) qs in
    let h := steps_of qs [] in
    entry (c_buf c) r s = Some (spec_buf h r s) /\ entry (c_rcv c) r s = Some (spec_rcv h r s).
  Proof.
    intros Nr W Hr Hs Hne c h.
    destruct (exec_tables qs (c_reset c0) [] (reset_tables c0) Nr W) as [Eb Er].
    fold c h in Eb, Er. rewrite Eb, Er. split; apply entry_table; assumption.
  Qed.

  (* one step, entry-wise: the buffer shows exactly the sends of this step, the receive table
     changes only for acting agents *)
  Theorem step_rules (c : cstate) acts B R r s :
    c_buf c = table n B -> c_rcv c = table n R -> wf_acts acts = true ->
    (r < n)%nat -> (s < n)%nat -> s <> r ->
    let c' := snd (c_step c acts) in
    fst (c_step c acts) = COk /\
    entry (c_buf c') r s = Some (sent acts s r) /\
    entry (c_rcv c') r s = Some (match alookup acts r with
                                 | Some a => B r s && wants a s
                                 | None => R r s
                                 end) /\
    c_sim c' = sim_step Sim (c_sim c) (sim_acts acts) /\
    c_log c' = c_log c ++ [LStep (sim_acts acts)].
  Proof.
    intros Eb Er W Hr Hs Hne c'. unfold c'. rewrite (step_shaped c acts B R Eb Er W).
    cbn [fst snd c_buf c_rcv c_sim c_log]. rewrite !entry_table by assumption. repeat split.
  Qed.

  (* get_obs hands received_message[a] to the wrapped get_obs and returns message_buffer[a] *)
  Theorem obs_rule (c : cstate) h a :
    tables_are c h -> (a < n)%nat ->
    let fm := kmap (others n a) (spec_rcv h a) in
    c_call c (QObs a) =
      (CObs (fst (s_fobs (c_sim c) a fm)) (kmap (others n a) (spec_buf h a)),
       {| c_sim := snd (s_fobs (c_sim c) a fm); c_buf := c_buf c; c_rcv := c_rcv c;
          c_log := c_log c ++ [LObs a fm] |}).
  Proof.
    intros [Eb Er] Ha fm. cbn [Comms.c_call]. unfold c_obs.
    rewrite Er, (alookup_table n _ a Ha). fold fm. destruct (s_fobs (c_sim c) a fm) as [o s1].
    rewrite Eb, (alookup_table n _ a Ha). reflexivity.
  Qed.

  (* membership in the augmented observation space *)
  Lemma same_keys_refl l : NoDup l -> same_keys l l = true.
  Proof.
    intros ND. unfold same_keys. rewrite Nat.eqb_refl. cbn [andb].
    apply andb_true_iff. split; [apply nodupb_NoDup, ND|]. apply incl_b_spec. auto.
  Qed.

  Theorem obs_member (obs_in : nat -> Obs -> bool) (c : cstate) h a o b c' :
    tables_are c h -> (a < n)%nat ->
    (forall s m, obs_in a (fst (s_fobs s a m)) = true) ->
    c_call c (QObs a) = (CObs o b, c') ->
    cobs_member Sim obs_in a o b = true.
  Proof.
    intros T Ha Hin H. rewrite (obs_rule c h a T Ha) in H. injection H as <- <- _.
    unfold cobs_member. rewrite Hin, kmap_keys, same_keys_refl by apply others_NoDup. reflexivity.
  Qed.
End P.

(* ================================================================ part 2: the scripted instance *)
Lemma rows_eqb_refl (t : rows) : rows_eqb t t = true.
Proof.
  induction t as [|[a x] t IH]; [reflexivity|]. cbn [rows_eqb]. unfold row_eqb.
  rewrite Nat.eqb_refl, kbs_eqb_refl, IH. reflexivity.
Qed.

Lemma clogs_eqb_refl l : clogs_eqb l l = true.
Proof.
  induction l as [|x l IH]; [reflexivity|]. cbn [clogs_eqb]. rewrite IH, andb_true_r.
  destruct x; cbn; unfold row_eqb; rewrite ?Nat.eqb_refl, ?kvs_eqb_refl, ?kbs_eqb_refl; reflexivity.
Qed.

Section M.
  Variable sc : script.
  Notation Sim := (script_sim sc).
  Notation n := (sc_n sc).
  Notation C := (cst sst Z).

  Definition QInv (c : C) (g : qghost) : Prop :=
    qg_on g = true ->
    s_t (c_sim c) = qg_t g /\ s_pend (c_sim c) = qg_pend g /\ tables_are Sim c (qg_hist g).

  Notation qitem_of c q :=
    (let rc := c_call Sim ss_fobs c q in
     {| qi_resp := fst rc; qi_member := cmember_of sc (fst rc) q;
        qi_seg := skipn (length (c_log c)) (c_log (snd rc));
        qi_buf := c_buf (snd rc); qi_rcv := c_rcv (snd rc) |}).

  Lemma chk_qcall_model (c : C) (g : qghost) (q : ccall Z) :
    QInv c g ->
    exists g', chk_qcall sc g q (qitem_of c q) = (0%Z, g') /\ QInv (snd (c_call Sim ss_fobs c q)) g'.
  Proof.
    intros I. destruct q as [|acts|a|a|a|a|].
    - (* reset *)
      eexists. split.
      + cbn. rewrite skipn_app_exact. cbn. rewrite !rows_eqb_refl. reflexivity.
      + intros _. cbn. repeat split; reflexivity.
    - (* step *)
      unfold chk_qcall. destruct (qg_on g) eqn:On; cbn [negb].
      2:{ exists g. split; [reflexivity|]. intros C0. congruence. }
      destruct (I On) as (It & Ip & Tb).
      destruct (wf_acts Sim acts) eqn:W; cbn [negb].
      2:{ eexists. split; [reflexivity|]. intros C0. discriminate. }
      destruct Tb as [Eb Er].
      cbn [Comms.c_call]. rewrite (step_shaped Sim c acts _ _ Eb Er W).
      cbn [fst snd qi_resp qi_seg qi_buf qi_rcv qi_member c_log c_buf c_rcv].
      rewrite skipn_app_exact, clogs_eqb_refl. cbn [negb].
      change (table n (fun r s => sent acts s r)) with (table n (spec_buf (acts :: qg_hist g))).
      change (table n (fun r s => match alookup acts r with
                                  | Some a => spec_buf (qg_hist g) r s && wants a s
                                  | None => spec_rcv (qg_hist g) r s
                                  end)) with (table n (spec_rcv (acts :: qg_hist g))).
      rewrite !rows_eqb_refl. cbn [negb].
      eexists. split.
      + f_equal. cbn [cmember_of].
        change (fun kv : nat * cact Z => ss_learning sc (fst kv) && cact_member Sim (cs_act_in) kv)
          with (fun kv : nat * cact Z => nth (fst kv) (sc_learn sc) false && cact_member Sim (cs_act_in) kv).
        rewrite andb_negb_r. reflexivity.
      + intros _. cbn. rewrite <- It, <- Ip. repeat split; reflexivity.
    - (* get_obs *)
      unfold chk_qcall. destruct (qg_on g) eqn:On; cbn [negb].
      2:{ exists g. split; [reflexivity|]. intros C0. congruence. }
      destruct (I On) as (It & Ip & Tb).
      destruct (Nat.ltb a n) eqn:La; cbn [negb].
      2:{ exists g. split; [reflexivity|]. apply Nat.ltb_ge in La.
          cbn [Comms.c_call]. unfold c_obs. destruct Tb as [Eb Er].
          rewrite Er, (alookup_table_none n _ a) by lia. exact I. }
      apply Nat.ltb_lt in La.
      rewrite (obs_rule Sim ss_fobs c (qg_hist g) a Tb La).
      cbn [fst snd qi_resp qi_seg qi_buf qi_rcv qi_member c_log c_buf c_rcv ss_fobs].
      destruct Tb as [Eb Er]. rewrite Eb, Er, skipn_app_exact.
      unfold row_eqb at 1.
      change (map (fun s => (s, spec_buf (qg_hist g) a s)) (others n a))
        with (kmap (others n a) (spec_buf (qg_hist g) a)).
      change (map (fun s => (s, spec_rcv (qg_hist g) a s)) (others n a))
        with (kmap (others n a) (spec_rcv (qg_hist g) a)).
      rewrite kbs_eqb_refl, clogs_eqb_refl, !rows_eqb_refl, <- It. unfold q_own. rewrite Z.eqb_refl.
      cbn [negb andb].
      exists g. split; [|intros _; cbn; repeat split; auto].
      f_equal. cbn [cmember_of]. unfold ss_learning.
      destruct (nth a (sc_learn sc) false); cbn [andb]; [|reflexivity].
      unfold cobs_member. change (sim_n Sim) with n.
      rewrite kmap_keys, (same_keys_refl _ (others_NoDup n a)), andb_true_r.
      rewrite andb_negb_r. reflexivity.
    - (* get_reward *)
      unfold chk_qcall. destruct (qg_on g) eqn:On; cbn [negb].
      2:{ exists g. split; [reflexivity|]. intros C0. congruence. }
      destruct (I On) as (It & Ip & [Eb Er]).
      eexists. cbn. rewrite skipn_app_exact, Eb, Er, !rows_eqb_refl, <- Ip, Z.eqb_refl. cbn.
      rewrite Nat.eqb_refl. cbn. split; [reflexivity|]. intros _. cbn. repeat split; auto.
    - (* get_done *)
      unfold chk_qcall. destruct (qg_on g) eqn:On; cbn [negb].
      2:{ exists g. split; [reflexivity|]. intros C0. congruence. }
      destruct (I On) as (It & Ip & [Eb Er]).
      exists g. split; [|exact I]. cbn. rewrite skipn_all, Eb, Er, !rows_eqb_refl, <- It.
      unfold ss_done. rewrite eqb_reflx. reflexivity.
    - (* get_info *)
      unfold chk_qcall. destruct (qg_on g) eqn:On; cbn [negb].
      2:{ exists g. split; [reflexivity|]. intros C0. congruence. }
      destruct (I On) as (It & Ip & [Eb Er]).
      exists g. split; [|exact I]. cbn. rewrite skipn_all, Eb, Er, !rows_eqb_refl, <- It.
      unfold ss_info, q_own. rewrite Z.eqb_refl. reflexivity.
    - (* get_all_done *)
      unfold chk_qcall. destruct (qg_on g) eqn:On; cbn [negb].
      2:{ exists g. split; [reflexivity|]. intros C0. congruence. }
      destruct (I On) as (It & Ip & [Eb Er]).
      exists g. split; [|exact I]. cbn. rewrite skipn_all, Eb, Er, !rows_eqb_refl, <- It.
      unfold ss_all. rewrite eqb_reflx. reflexivity.
  Qed.

  Lemma chk_qcalls_model qs : forall (c : C) g,
    QInv c g -> chk_qcalls sc g qs (cs_items sc c qs) = 0%Z.
  Proof.
    induction qs as [|q qs IH]; intros c g I; [reflexivity|].
    cbn [cs_items chk_qcalls].
    destruct (chk_qcall_model c g q I) as (g' & E & I').
    destruct (c_call Sim ss_fobs c q) as [r c1] eqn:Ec. cbn [fst snd] in *.
    rewrite E. cbn. apply IH, I'.
  Qed.
End M.

Theorem chk_C20_model_thm sc qs : chk_C20 sc qs (comms_model sc qs) = 0%Z.
Proof. apply chk_qcalls_model. intros C0. discriminate. Qed.

(* ================================================================ statements used by Props/P_C20.v *)
Section Statements.
  Context {St Obs Info Act : Type}.
  Variable Sim : simulation St Obs Info Act.
  Variable s_fobs : St -> nat -> row -> Obs * St.
  Notation n := (sim_n Sim).

  Lemma C20_buffer_rule_l (c0 : cst St Act) qs r s :
    no_qreset qs -> steps_wf Sim qs -> (r < n)%nat -> (s < n)%nat -> s <> r ->
    entry (c_buf (c_exec Sim s_fobs (c_reset Sim c0) qs)) r s
    = Some (match steps_of qs [] with [] => false | acts :: _ => sent acts s r end).
  Proof. intros Nr W Hr Hs Hne. apply (episode_rules Sim s_fobs c0 qs r s Nr W Hr Hs Hne). Qed.

  Lemma C20_receive_rule_l (c0 : cst St Act) qs r s :
    no_qreset qs -> steps_wf Sim qs -> (r < n)%nat -> (s < n)%nat -> s <> r ->
    entry (c_rcv (c_exec Sim s_fobs (c_reset Sim c0) qs)) r s = Some (spec_rcv (steps_of qs []) r s).
  Proof. intros Nr W Hr Hs Hne. apply (episode_rules Sim s_fobs c0 qs r s Nr W Hr Hs Hne). Qed.

  Lemma C20_cleared_l (c : cst St Act) r s :
    (r < n)%nat -> (s < n)%nat -> s <> r ->
    entry (c_buf (c_reset Sim c)) r s = Some false /\ entry (c_rcv (c_reset Sim c)) r s = Some false /\
    (forall acts B R, c_buf c = table n B -> c_rcv c = table n R -> wf_acts Sim acts = true ->
       alookup acts s = None -> entry (c_buf (snd (c_step Sim c acts))) r s = Some false).
  Proof.
    intros Hr Hs Hne. split; [apply entry_table; assumption|]. split; [apply entry_table; assumption|].
    intros acts B R Eb Er W Hn.
    destruct (step_rules Sim c acts B R r s Eb Er W Hr Hs Hne) as (_ & E & _). rewrite E.
    unfold sent. rewrite Hn. reflexivity.
  Qed.

  (* whatever the state and the dict: the wrapped simulation is either not stepped at all (the
     receive phase raised) or stepped once with exactly the 'action' parts *)
  Lemma C20_inner_actions_l (c : cst St Act) acts :
    let c' := snd (c_step Sim c acts) in
    (fst (c_step Sim c acts) = COk ->
       c_sim c' = sim_step Sim (c_sim c) (sim_acts acts) /\
       c_log c' = c_log c ++ [LStep (sim_acts acts)]) /\
    ((c_sim c' = c_sim c /\ c_log c' = c_log c) \/
     (c_sim c' = sim_step Sim (c_sim c) (sim_acts acts) /\
      c_log c' = c_log c ++ [LStep (sim_acts acts)])).
  Proof.
    unfold c_step. destruct (recv_phase (c_buf c) (c_rcv c) acts) as [rcv1 ok1].
    destruct ok1; cbn [negb].
    - destruct (send_phase (table n (fun _ _ => false)) acts) as [buf1 ok2]. cbn. split; auto.
    - cbn. split; [discriminate|]. left. split; reflexivity.
  Qed.

  Lemma C20_all_act_l (acts prev : list (nat * cact Act)) older r s a :
    alookup acts r = Some a ->
    spec_rcv (acts :: prev :: older) r s = sent prev s r && wants a s /\
    spec_rcv [acts] r s = false.
  Proof. intros E. cbn. rewrite E. split; reflexivity. Qed.
End Statements.
