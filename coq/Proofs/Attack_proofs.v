(* Proofs about Grid/Attack.v: hits preserve the consistency invariant (C03), exact bookkeeping,
   and every agent an attack actor returns is eligible in the sense of Grid/AttackChk.v (C11). *)
From Coq Require Import ZArith List Bool Arith Lia.
From Abm Require Import Base.Sx Grid.Overlap Grid.Grid Grid.Move Grid.Attack Grid.Vis Grid.AttackRun
  Grid.AttackChk Proofs.Grid_proofs Proofs.Move_proofs.
Import ListNotations.
Open Scope Z_scope.

(* ---- ranges --------------------------------------------------------------------------------- *)
Lemma zrange_from_In lo n x : In x (zrange_from lo n) <-> lo <= x < lo + Z.of_nat n.
Proof.
  revert lo; induction n as [|n IH]; intros lo; cbn [zrange_from].
  - split; [intros []|lia].
  - cbn [In]. rewrite IH. lia.
Qed.

Lemma zrange_In lo hi x : In x (zrange lo hi) <-> lo <= x < hi.
Proof. unfold zrange. rewrite zrange_from_In. lia. Qed.

Lemma window_In R d : In d (window R) <-> - R <= fst d <= R /\ - R <= snd d <= R.
Proof.
  unfold window. rewrite in_flat_map. split.
  - intros (dr & Hr & Hd). apply in_map_iff in Hd as (dc & <- & Hc).
    apply zrange_In in Hr, Hc. cbn. lia.
  - intros [Hr Hc]. exists (fst d). split; [apply zrange_In; lia|].
    apply in_map_iff. exists (snd d). split; [destruct d; reflexivity|apply zrange_In; lia].
Qed.

(* ---- one hit --------------------------------------------------------------------------------- *)
Lemma with_health_vitals b h : vitals_ok b -> vitals_ok (with_health b h).
Proof.
  intros (V1 & V2 & V3 & V4). unfold vitals_ok, with_health.
  cbn [a_health a_active a_ammo a_orient]. unfold HD in *.
  split; [lia|]. split; [reflexivity|]. split; assumption.
Qed.

(* changing only health/active of a still-active agent *)
Lemma set_health_alive_inv s v b b' :
  ginv s -> agent s v = Some b -> a_active b = true ->
  a_enc b' = a_enc b -> a_pos b' = a_pos b -> a_active b' = true -> vitals_ok b' ->
  ginv (set_agent s v b').
Proof.
  intros [H1 H2 H3 H4 H5 H6] Hb Hact Ee Ep Ea Hv.
  assert (En : forall j, enc_of (set_agent s v b') j = enc_of s j)
    by (intros j; apply enc_of_set_agent with b; assumption).
  constructor; cbn [g_ov g_cells set_agent]; try assumption.
  - intros p j Hj. destruct (Nat.eq_dec j v) as [->|N].
    + rewrite (agent_set_agent_same _ _ _ _ Hb). destruct (H2 p v Hj) as (a' & Ha' & A & P).
      assert (a' = b) by congruence. subst a'. exists b'. rewrite Ep. auto.
    + rewrite agent_set_agent_other by exact N. apply H2, Hj.
  - intros j c p Nx Hc. destruct (Nat.eq_dec j v) as [->|N].
    + rewrite (agent_set_agent_same _ _ _ _ Hb) in Hc. injection Hc as <-. rewrite Ep.
      intros _ P. apply (H4 v b p Nx Hb Hact P).
    + rewrite agent_set_agent_other in Hc by exact N. apply (H4 j c p Nx Hc).
  - intros p j k Hj Hk N. rewrite !En. apply (H5 p); assumption.
  - intros j c Hc. destruct (Nat.eq_dec j v) as [->|N].
    + rewrite (agent_set_agent_same _ _ _ _ Hb) in Hc. injection Hc as <-. exact Hv.
    + rewrite agent_set_agent_other in Hc by exact N. apply (H6 j c Hc).
Qed.

(* an active agent dies: it becomes inactive and leaves its cell *)
Lemma kill_inv s v b b' q :
  ginv s -> agent s v = Some b -> a_active b = true -> a_pos b = Some q ->
  a_enc b' = a_enc b -> a_pos b' = a_pos b -> a_active b' = false -> vitals_ok b' ->
  exists s2, remove (set_agent s v b') v q = Some s2 /\ ginv s2 /\
    g_agents s2 = upd_nth (g_agents s) v b' /\
    (forall p, p <> q -> cell_get (g_cells s2) p = cell_get (g_cells s) p) /\
    cell_get (g_cells s2) q = dict_del (cell_get (g_cells s) q) v.
Proof.
  intros [H1 H2 H3 H4 H5 H6] Hb Hact Hpos Ee Ep Ea Hv.
  destruct (H4 v b q ltac:(discriminate) Hb Hact Hpos) as [Hin _].
  unfold remove. cbn [g_cells set_agent]. apply memn_In in Hin as Hm. rewrite Hm.
  eexists. split; [reflexivity|].
  set (s2 := set_cells _ _).
  assert (G : forall p, cell_get (g_cells s2) p =
                        if cell_eqb p q then dict_del (cell_get (g_cells s) q) v
                        else cell_get (g_cells s) p).
  { intros p. unfold s2. cbn. destruct (cell_eqb p q); reflexivity. }
  assert (Ag_o : forall j, j <> v -> agent s2 j = agent s j).
  { intros j N. unfold s2. rewrite agent_set_cells, agent_set_agent_other by exact N. reflexivity. }
  assert (Ag_v : agent s2 v = Some b').
  { unfold s2. rewrite agent_set_cells. apply agent_set_agent_same with b. exact Hb. }
  assert (En : forall j, enc_of s2 j = enc_of s j).
  { intros j. unfold s2. rewrite enc_of_set_cells. apply enc_of_set_agent with b; assumption. }
  assert (Sub : forall p j, In j (cell_get (g_cells s2) p) -> In j (cell_get (g_cells s) p) /\ j <> v).
  { intros p j. rewrite G. destruct (cell_eqb p q) eqn:E.
    - apply cell_eqb_eq in E. subst p. apply dict_del_In.
    - intros Hj. split; [exact Hj|]. intros ->. apply cell_eqb_neq in E. apply E.
      destruct (H2 p v Hj) as (a' & Ha' & _ & Hp'). congruence. }
  split; [|split; [reflexivity|split]].
  - constructor.
    + exact H1.
    + intros p j Hj. destruct (Sub p j Hj) as [Hj' N]. rewrite Ag_o by exact N. apply H2, Hj'.
    + intros p. rewrite G. destruct (cell_eqb p q); [apply dict_del_NoDup|]; apply H3.
    + intros j c p _ Hc Hcact Hcpos. destruct (Nat.eq_dec j v) as [->|N].
      * rewrite Ag_v in Hc. injection Hc as <-. congruence.
      * rewrite Ag_o in Hc by exact N.
        destruct (H4 j c p ltac:(discriminate) Hc Hcact Hcpos) as [Hjin Hjins]. split; [|exact Hjins].
        rewrite G. destruct (cell_eqb p q) eqn:E; [|exact Hjin].
        apply cell_eqb_eq in E. subst p. apply dict_del_In. split; assumption.
    + intros p j k Hj Hk N. rewrite !En. destruct (Sub p j Hj), (Sub p k Hk). apply (H5 p); assumption.
    + intros j c Hc. destruct (Nat.eq_dec j v) as [->|N].
      * rewrite Ag_v in Hc. injection Hc as <-. exact Hv.
      * rewrite Ag_o in Hc by exact N. apply (H6 j c Hc).
  - intros p N. rewrite G. apply cell_eqb_neq in N. rewrite N. reflexivity.
  - rewrite G, cell_eqb_refl. reflexivity.
Qed.

Theorem hit_inv s st v : ginv s -> ginv (hit s st v).
Proof.
  intros G. unfold hit. destruct (agent s v) as [b|] eqn:Hb; [|exact G].
  destruct (a_active b) eqn:Hact; cbn [negb]; [|exact G].
  set (b' := with_health b (a_health b - st)).
  assert (Hv : vitals_ok b') by (apply with_health_vitals, (gi_vitals _ _ G v b Hb)).
  destruct (a_active b') eqn:Hact'.
  - apply set_health_alive_inv with b; auto.
  - change (a_pos b') with (a_pos b). destruct (a_pos b) as [q|] eqn:Hpos.
    + destruct (kill_inv s v b b' q G Hb Hact Hpos eq_refl eq_refl Hact' Hv) as (s2 & -> & G2 & _).
      exact G2.
    + (* an active agent without a cell: it only becomes inactive *)
      destruct G as [H1 H2 H3 H4 H5 H6].
      assert (En : forall j, enc_of (set_agent s v b') j = enc_of s j)
        by (intros j; apply enc_of_set_agent with b; [exact Hb|reflexivity]).
      constructor; cbn [g_ov g_cells set_agent]; try assumption.
      * intros p j Hj. destruct (Nat.eq_dec j v) as [->|N].
        -- destruct (H2 p v Hj) as (a' & Ha' & _ & P). congruence.
        -- rewrite agent_set_agent_other by exact N. apply H2, Hj.
      * intros j c p Nx Hc. destruct (Nat.eq_dec j v) as [->|N].
        -- rewrite (agent_set_agent_same _ _ _ _ Hb) in Hc. injection Hc as <-. congruence.
        -- rewrite agent_set_agent_other in Hc by exact N. apply (H4 j c p Nx Hc).
      * intros p j k Hj Hk N. rewrite !En. apply (H5 p); assumption.
      * intros j c Hc. destruct (Nat.eq_dec j v) as [->|N].
        -- rewrite (agent_set_agent_same _ _ _ _ Hb) in Hc. injection Hc as <-. exact Hv.
        -- rewrite agent_set_agent_other in Hc by exact N. apply (H6 j c Hc).
Qed.

Theorem apply_hits_inv hits : forall s st, ginv s -> ginv (apply_hits s st hits).
Proof.
  unfold apply_hits. induction hits as [|v r IH]; intros s st G; cbn; [exact G|].
  apply IH, hit_inv, G.
Qed.

Lemma with_ammo_vitals a m : vitals_ok a -> 0 <= m -> vitals_ok (with_ammo a (Some m)).
Proof.
  intros (V1 & V2 & V3 & V4) Hm. unfold vitals_ok, with_ammo. cbn [a_health a_active a_ammo a_orient].
  split; [exact V1|]. split; [exact V2|]. split; [|exact V4].
  intros m' E. injection E as <-. exact Hm.
Qed.

Lemma set_ammo_inv s i a m : ginv s -> agent s i = Some a -> 0 <= m ->
  ginv (set_agent s i (with_ammo a (Some m))).
Proof.
  intros G Ha Hm. destruct (a_active a) eqn:Hact.
  - apply set_health_alive_inv with a; auto.
    apply with_ammo_vitals; [apply (gi_vitals _ _ G i a Ha)|exact Hm].
  - (* an inactive attacker: still only its ammunition changes *)
    destruct G as [H1 H2 H3 H4 H5 H6].
    assert (En : forall j, enc_of (set_agent s i (with_ammo a (Some m))) j = enc_of s j)
      by (intros j; apply enc_of_set_agent with a; [exact Ha|reflexivity]).
    constructor; cbn [g_ov g_cells set_agent]; try assumption.
    + intros p j Hj. destruct (Nat.eq_dec j i) as [->|N].
      * destruct (H2 p i Hj) as (a' & Ha' & A & _). congruence.
      * rewrite agent_set_agent_other by exact N. apply H2, Hj.
    + intros j c p Nx Hc. destruct (Nat.eq_dec j i) as [->|N].
      * rewrite (agent_set_agent_same _ _ _ _ Ha) in Hc. injection Hc as <-. cbn. congruence.
      * rewrite agent_set_agent_other in Hc by exact N. apply (H4 j c p Nx Hc).
    + intros p j k Hj Hk N. rewrite !En. apply (H5 p); assumption.
    + intros j c Hc. destruct (Nat.eq_dec j i) as [->|N].
      * rewrite (agent_set_agent_same _ _ _ _ Ha) in Hc. injection Hc as <-.
        apply with_ammo_vitals; [apply (H6 i a Ha)|exact Hm].
      * rewrite agent_set_agent_other in Hc by exact N. apply (H6 j c Hc).
Qed.

(* every attack, by any actor, with any action and any draws, keeps the invariant *)
Theorem process_attack_inv vis s cf att o act : ginv s ->
  match process_attack vis s cf att o act with
  | POk _ _ s' _ => ginv s'
  | _ => True
  end.
Proof.
  intros G. unfold process_attack. destruct (agent s att) as [a|] eqn:Ha; [|exact I].
  destruct (a_pos a); [|exact I].
  destruct (determine vis s cf att c o act) as [[status hits] o1|]; [|exact I].
  destruct (a_ammo a) as [am|].
  - destruct (am <? Z.of_nat (length hits)).
    + destruct (o_choice o1) as [|ch cs]; [exact I|].
      destruct ((Z.of_nat (length ch) =? am) && submultiset ch hits); [|exact I].
      apply apply_hits_inv, set_ammo_inv; [exact G|exact Ha|lia].
    + apply apply_hits_inv, set_ammo_inv; [exact G|exact Ha|lia].
  - apply apply_hits_inv, G.
Qed.

(* ---- every returned hit is eligible ------------------------------------------------------------ *)
Lemma basic_criteria_true s cf att o v o' :
  basic_criteria s cf att o v = AOk true o' ->
  v <> att /\ exists b, agent s v = Some b /\ a_active b = true /\ memZ (a_enc b) (c_mapping cf) = true.
Proof.
  unfold basic_criteria. destruct (Nat.eqb v att) eqn:E; [discriminate|]. apply Nat.eqb_neq in E.
  destruct (agent s v) as [b|]; [|discriminate].
  destruct (a_active b) eqn:Ea; cbn [negb]; [|discriminate].
  destruct (memZ (a_enc b) (c_mapping cf)) eqn:Em; cbn [negb]; [|discriminate].
  intros _. split; [exact E|]. exists b. auto.
Qed.

Definition crit (s : gstate) (cf : acfg) (att v : nat) : Prop :=
  v <> att /\ exists b, agent s v = Some b /\ a_active b = true /\ memZ (a_enc b) (c_mapping cf) = true.

Lemma filter_criteria_sound s cf att cands : forall o l o',
  filter_criteria s cf att o cands = AOk l o' -> forall v, In v l -> In v cands /\ crit s cf att v.
Proof.
  induction cands as [|c r IH]; intros o l o' H v Hv; cbn in H.
  - injection H as <- <-. destruct Hv.
  - destruct (basic_criteria s cf att o c) as [b o1|] eqn:Eb; [|discriminate].
    destruct (filter_criteria s cf att o1 r) as [l1 o2|] eqn:Ef; [|discriminate].
    injection H as <- <-. destruct b.
    + destruct Hv as [<-|Hv].
      * split; [left; reflexivity|]. apply (basic_criteria_true _ _ _ _ _ _ Eb).
      * destruct (IH _ _ _ Ef v Hv). split; [right|]; assumption.
    + destruct (IH _ _ _ Ef v Hv). split; [right|]; assumption.
Qed.

Lemma cands_at_In vis s cf att p d v : In v (cands_at vis s cf att p d) ->
  vis s att (c_range cf) d = true /\ inside s (fst p + fst d, snd p + snd d) = true /\
  In v (cell_get (g_cells s) (fst p + fst d, snd p + snd d)).
Proof.
  unfold cands_at. destruct (vis s att (c_range cf) d); cbn [andb]; [|intros []].
  destruct (inside s _); [|intros []]. auto.
Qed.

(* from a candidate on window cell d that passed the criteria to the checker's `eligible` *)
Lemma eligible_intro vis s cf att p d v :
  ginv s -> att_pos s att = Some p -> In d (window (c_range cf)) ->
  In v (cands_at vis s cf att p d) -> crit s cf att v ->
  eligible vis s cf att v = true /\ offset_of s att v = Some d.
Proof.
  intros G Hp Hd Hc (Nv & b & Hb & Hact & Hm).
  apply cands_at_In in Hc as (Hvis & Hin & Hcell).
  destruct (gi_cell_agent _ _ G _ _ Hcell) as (b' & Hb' & _ & Hpos). rewrite Hb in Hb'. injection Hb' as <-.
  assert (Eo : offset_of s att v = Some d).
  { unfold offset_of, apos. rewrite Hb, Hpos, Hp. cbn [fst snd]. f_equal. destruct d; cbn; f_equal; lia. }
  split; [|exact Eo]. unfold eligible. rewrite Hb, Eo, Hact, Hm.
  apply Nat.eqb_neq in Nv. rewrite Nv. cbn [negb andb].
  apply window_In in Hd. unfold in_window, R. rewrite Hvis.
  destruct Hd as [[A1 A2] [B1 B2]].
  apply Z.leb_le in A1, A2, B1, B2. rewrite A1, A2, B1, B2. reflexivity.
Qed.

Lemma scan_all_sound vis s cf att p ds : forall o l o',
  scan_all vis s cf att p o ds = AOk l o' ->
  forall v, In v l -> exists d, In d ds /\ In v (cands_at vis s cf att p d) /\ crit s cf att v.
Proof.
  induction ds as [|d r IH]; intros o l o' H v Hv; cbn in H.
  - injection H as <- <-. destruct Hv.
  - destruct (filter_criteria s cf att o (cands_at vis s cf att p d)) as [l1 o1|] eqn:Ef; [|discriminate].
    destruct (scan_all vis s cf att p o1 r) as [l2 o2|] eqn:Es; [|discriminate].
    injection H as <- <-. apply in_app_or in Hv as [Hv|Hv].
    + destruct (filter_criteria_sound _ _ _ _ _ _ _ Ef v Hv). exists d. split; [left; reflexivity|]. auto.
    + destruct (IH _ _ _ Es v Hv) as (d' & Hd' & Hc). exists d'. split; [right; exact Hd'|exact Hc].
Qed.

Lemma subset_sound cf o l n h o' : subset_attackables cf o l n = AOk h o' -> incl h l.
Proof.
  unfold subset_attackables. destruct (negb (c_stacked cf) && (Z.of_nat (length l) <? n)).
  - intros E. injection E as <- <-. apply incl_refl.
  - destruct (o_choice o) as [|ch cs]; [discriminate|].
    destruct (choice_ok l n (c_stacked cf) ch) eqn:Ec; [|discriminate].
    intros E. injection E as <- <-. unfold choice_ok in Ec.
    apply andb_true_iff in Ec as [Ec _]. apply andb_true_iff in Ec as [_ Ec].
    rewrite forallb_forall in Ec. intros x Hx. apply memn_In, Ec, Hx.
Qed.

Theorem det_binary_eligible vis s cf att p o n st hits o' :
  ginv s -> att_pos s att = Some p ->
  det_binary vis s cf att p o n = AOk (st, hits) o' ->
  forall v, In v hits -> eligible vis s cf att v = true.
Proof.
  intros G Hp. unfold det_binary. destruct (n =? 0); [intros E; injection E as <- <- <-; intros v []|].
  destruct (scan_all vis s cf att p o (window (c_range cf))) as [l o1|] eqn:Es; [|discriminate].
  assert (Hl : forall v, In v l -> eligible vis s cf att v = true).
  { intros v Hv. destruct (scan_all_sound _ _ _ _ _ _ _ _ _ Es v Hv) as (d & Hd & Hc & Hcr).
    apply (eligible_intro vis s cf att p d v G Hp Hd Hc Hcr). }
  destruct l as [|x l]; [intros E; injection E as <- <- <-; intros v []|].
  destruct (subset_attackables cf o1 (x :: l) n) as [h o2|] eqn:Eh; [|discriminate].
  intros E. injection E as <- <- <-. intros v Hv. apply Hl, (subset_sound _ _ _ _ _ _ Eh), Hv.
Qed.

Lemma enc_loop_sound s cf attackable attack : forall o h o',
  enc_loop s cf o attackable attack = AOk h o' -> incl h attackable.
Proof.
  induction attack as [|[e num] r IH]; intros o h o' H; cbn in H.
  - injection H as <- <-. intros x [].
  - destruct (filter (fun v => enc_of s v =? e) attackable) as [|b0 bs] eqn:Eb; [apply (IH _ _ _ H)|].
    destruct (subset_attackables cf o (b0 :: bs) num) as [h1 o1|] eqn:E1; [|discriminate].
    destruct (enc_loop s cf o1 attackable r) as [h2 o2|] eqn:E2; [|discriminate].
    injection H as <- <-. intros x Hx. apply in_app_or in Hx as [Hx|Hx].
    + apply (subset_sound _ _ _ _ _ _ E1) in Hx. rewrite <- Eb in Hx. apply filter_In in Hx. apply Hx.
    + apply (IH _ _ _ E2), Hx.
Qed.

Theorem det_encoding_eligible vis s cf att p o l st hits o' :
  ginv s -> att_pos s att = Some p ->
  det_encoding vis s cf att p o l = AOk (st, hits) o' ->
  forall v, In v hits -> eligible vis s cf att v = true.
Proof.
  intros G Hp. unfold det_encoding.
  destruct (forallb _ l); [intros E; injection E as <- <- <-; intros v []|].
  destruct (scan_all vis s cf att p o (window (c_range cf))) as [sc o1|] eqn:Es; [|discriminate].
  destruct (enc_loop s cf o1 sc l) as [h o2|] eqn:Eh; [|discriminate].
  intros E. injection E as <- <- <-. intros v Hv. apply (enc_loop_sound _ _ _ _ _ _ _ Eh) in Hv.
  destruct (scan_all_sound _ _ _ _ _ _ _ _ _ Es v Hv) as (d & Hd & Hc & Hcr).
  apply (eligible_intro vis s cf att p d v G Hp Hd Hc Hcr).
Qed.

(* selective: every hit stands on a window cell whose requested count is not zero *)
Lemma sel_loop_sound vis s cf att p ds : forall attack o h o',
  sel_loop vis s cf att p o ds attack = AOk h o' ->
  forall v, In v h -> exists d n, In (d, n) (combine ds attack) /\ n <> 0 /\
                                   In v (cands_at vis s cf att p d) /\ crit s cf att v.
Proof.
  induction ds as [|d r IH]; intros [|n ns] o h o' H v Hv; cbn in H;
    try (injection H as <- <-; destruct Hv).
  destruct (n =? 0) eqn:En.
  - destruct (IH _ _ _ _ H v Hv) as (d' & n' & Hin & Hc). exists d', n'. split; [right; exact Hin|exact Hc].
  - apply Z.eqb_neq in En.
    destruct (filter_criteria s cf att o (cands_at vis s cf att p d)) as [l o1|] eqn:Ef; [|discriminate].
    destruct l as [|x l].
    + destruct (IH _ _ _ _ H v Hv) as (d' & n' & Hin & Hc). exists d', n'. split; [right; exact Hin|exact Hc].
    + destruct (subset_attackables cf o1 (x :: l) n) as [h1 o2|] eqn:E1; [|discriminate].
      destruct (sel_loop vis s cf att p o2 r ns) as [h2 o3|] eqn:E2; [|discriminate].
      injection H as <- <-. apply in_app_or in Hv as [Hv|Hv].
      * apply (subset_sound _ _ _ _ _ _ E1) in Hv.
        destruct (filter_criteria_sound _ _ _ _ _ _ _ Ef v Hv) as [Hc Hcr].
        exists d, n. split; [left; reflexivity|]. auto.
      * destruct (IH _ _ _ _ E2 v Hv) as (d' & n' & Hin & Hc). exists d', n'. split; [right; exact Hin|exact Hc].
Qed.

Theorem det_selective_eligible vis s cf att p o l st hits o' :
  ginv s -> att_pos s att = Some p ->
  det_selective vis s cf att p o l = AOk (st, hits) o' ->
  forall v, In v hits ->
    eligible vis s cf att v = true /\
    exists d n, In (d, n) (combine (window (c_range cf)) l) /\ n <> 0 /\ offset_of s att v = Some d.
Proof.
  intros G Hp. unfold det_selective.
  destruct (forallb _ l); [intros E; injection E as <- <- <-; intros v []|].
  destruct (sel_loop vis s cf att p o (window (c_range cf)) l) as [h o1|] eqn:Eh; [|discriminate].
  intros E. injection E as <- <- <-. intros v Hv.
  destruct (sel_loop_sound _ _ _ _ _ _ _ _ _ _ Eh v Hv) as (d & n & Hin & Hn & Hc & Hcr).
  assert (Hd : In d (window (c_range cf))) by (apply in_combine_l in Hin; exact Hin).
  destruct (eligible_intro vis s cf att p d v G Hp Hd Hc Hcr) as [He Ho].
  split; [exact He|]. exists d, n. auto.
Qed.

(* ---- restricted selective ------------------------------------------------------------------------ *)
Lemma cell_of_id_window R cm k : 0 <= R -> 1 <= k <= (2 * R + 1) * (2 * R + 1) ->
  In (cell_of_id R cm k) (window R).
Proof.
  intros HR Hk. apply window_In. unfold cell_of_id.
  assert (Hw : 0 < 2 * R + 1) by lia.
  assert (Hq : 0 <= (k - 1) / (2 * R + 1) < 2 * R + 1).
  { split; [apply Z.div_pos; lia|]. apply Z.div_lt_upper_bound; lia. }
  pose proof (Z.mod_pos_bound (k - 1) (2 * R + 1) Hw) as Hm.
  destruct cm; cbn [fst snd]; lia.
Qed.

Lemma criteria_all_sound s cf att cands : forall o l o',
  criteria_all s cf att o cands = AOk l o' ->
  forall v, In (v, true) l -> In v cands /\ crit s cf att v.
Proof.
  induction cands as [|c r IH]; intros o l o' H v Hv; cbn in H.
  - injection H as <- <-. destruct Hv.
  - destruct (basic_criteria s cf att o c) as [b o1|] eqn:Eb; [|discriminate].
    destruct (criteria_all s cf att o1 r) as [l1 o2|] eqn:Ef; [|discriminate].
    injection H as <- <-. destruct Hv as [E|Hv].
    + injection E as <- ->. split; [left; reflexivity|]. apply (basic_criteria_true _ _ _ _ _ _ Eb).
    + destruct (IH _ _ _ Ef v Hv). split; [right|]; assumption.
Qed.

Lemma filter_fresh_In stacked hits l v :
  In v (filter_fresh stacked hits l) -> In (v, true) l /\ (stacked = false -> ~ In v hits).
Proof.
  induction l as [|[w ok] r IH]; cbn; [intros []|].
  destruct ok; cbn [negb].
  - destruct (memn w hits && negb stacked) eqn:E.
    + intros H. destruct (IH H). split; [right|]; assumption.
    + intros [<-|H].
      * split; [left; reflexivity|]. intros ->. cbn in E. rewrite andb_true_r in E.
        apply memn_false, E.
      * destruct (IH H). split; [right|]; assumption.
  - intros H. destruct (IH H). split; [right|]; assumption.
Qed.

Definition res_ok vis (s : gstate) cf att cm (attack : list Z) (v : nat) : Prop :=
  eligible vis s cf att v = true /\
  exists k, In k attack /\ k <> 0 /\ offset_of s att v = Some (cell_of_id (c_range cf) cm k).

Lemma res_loop_sound vis cm s cf att p :
  ginv s -> att_pos s att = Some p -> 0 <= c_range cf ->
  forall attack all_attack o hits h o',
  (forall k, In k attack -> In k all_attack) ->
  Forall (fun k => 0 <= k <= (2 * c_range cf + 1) * (2 * c_range cf + 1)) attack ->
  (forall v, In v hits -> res_ok vis s cf att cm all_attack v) ->
  (c_stacked cf = false -> NoDup hits) ->
  res_loop vis cm s cf att p o hits attack = AOk h o' ->
  (forall v, In v h -> res_ok vis s cf att cm all_attack v) /\ (c_stacked cf = false -> NoDup h) /\
  (length h <= length hits + length (filter (fun k => negb (k =? 0)%Z) attack))%nat.
Proof.
  intros G Hp HR. induction attack as [|k ks IH]; intros all_attack o hits h o' Hsub Hrng Hhits Hnd H;
    cbn [res_loop] in H.
  - injection H as <- <-. cbn. split; [exact Hhits|]. split; [exact Hnd|lia].
  - inversion Hrng as [|? ? Hk Hks]; subst.
    assert (Hsub' : forall k', In k' ks -> In k' all_attack) by (intros k' Hk'; apply Hsub; right; exact Hk').
    destruct (k =? 0) eqn:Ek.
    + cbn [filter negb]. rewrite Ek. cbn [negb]. apply (IH all_attack o hits h o' Hsub' Hks Hhits Hnd H).
    + apply Z.eqb_neq in Ek. cbn [filter]. apply Z.eqb_neq in Ek as Ek'. rewrite Ek'. cbn [negb length].
      set (d := cell_of_id (c_range cf) cm k) in *.
      destruct (criteria_all s cf att o (cands_at vis s cf att p d)) as [l o1|] eqn:Ec; [|discriminate].
      destruct (filter_fresh (c_stacked cf) hits l) as [|x xs] eqn:Ef.
      * destruct (IH all_attack o1 hits h o' Hsub' Hks Hhits Hnd H) as (A & B & C).
        split; [exact A|]. split; [exact B|lia].
      * destruct (o_choice o1) as [|[|v [|? ?]] cs]; try discriminate.
        destruct (memn v (x :: xs)) eqn:Em; [|discriminate]. apply memn_In in Em. rewrite <- Ef in Em.
        destruct (filter_fresh_In _ _ _ _ Em) as [Hl Hfresh].
        destruct (criteria_all_sound _ _ _ _ _ _ _ Ec v Hl) as [Hc Hcr].
        assert (Hd : In d (window (c_range cf))) by (apply cell_of_id_window; [exact HR|lia]).
        destruct (eligible_intro vis s cf att p d v G Hp Hd Hc Hcr) as [He Ho].
        assert (Hh' : forall w, In w (hits ++ [v]) -> res_ok vis s cf att cm all_attack w).
        { intros w Hw. apply in_app_or in Hw as [Hw|[<-|[]]]; [apply Hhits, Hw|].
          split; [exact He|]. exists k. split; [apply Hsub; left; reflexivity|]. split; [exact Ek|exact Ho]. }
        assert (Hnd' : c_stacked cf = false -> NoDup (hits ++ [v])).
        { intros Hs. apply NoDup_snoc; [apply Hnd, Hs|apply Hfresh, Hs]. }
        destruct (IH all_attack _ (hits ++ [v]) h o' Hsub' Hks Hh' Hnd' H) as (A & B & C).
        split; [exact A|]. split; [exact B|]. rewrite app_length in C. cbn in C. lia.
Qed.

Theorem det_restricted_eligible vis cm s cf att p o l st hits o' :
  ginv s -> att_pos s att = Some p -> 0 <= c_range cf ->
  Forall (fun k => 0 <= k <= (2 * c_range cf + 1) * (2 * c_range cf + 1)) l ->
  det_restricted vis cm s cf att p o l = AOk (st, hits) o' ->
  (forall v, In v hits -> res_ok vis s cf att cm l v) /\ (c_stacked cf = false -> NoDup hits) /\
  (length hits <= length (filter (fun k => negb (k =? 0)%Z) l))%nat.
Proof.
  intros G Hp HR Hrng. unfold det_restricted.
  destruct (forallb _ l).
  - intros E. injection E as <- <- <-. split; [intros v []|]. split; [constructor|cbn; lia].
  - destruct (res_loop vis cm s cf att p o [] l) as [h o1|] eqn:Eh; [|discriminate].
    intros E. injection E as <- <- <-.
    destruct (res_loop_sound vis cm s cf att p G Hp HR l l o [] h o1 (fun k H => H) Hrng) as (A & B & C);
      auto.
    + intros v [].
    + intros _. constructor.
Qed.

(* ---- exact bookkeeping of the hits ------------------------------------------------------------- *)
Lemma hit_agents s st v :
  g_agents (hit s st v) =
  match agent s v with
  | Some b => if a_active b then upd_nth (g_agents s) v (with_health b (a_health b - st)) else g_agents s
  | None => g_agents s
  end.
Proof.
  unfold hit. destruct (agent s v) as [b|]; [|reflexivity].
  destruct (a_active b); cbn [negb]; [|reflexivity].
  destruct (a_active (with_health b (a_health b - st))); [reflexivity|].
  destruct (a_pos (with_health b (a_health b - st))) as [q|]; [|reflexivity].
  unfold remove. destruct (memn v _); reflexivity.
Qed.

(* the state of agent j after the hits, field by field *)
Definition after_hits (b b' : arec) (st m : Z) : Prop :=
  a_enc b' = a_enc b /\ a_pos b' = a_pos b /\ a_ammo b' = a_ammo b /\ a_orient b' = a_orient b /\
  a_blocking b' = a_blocking b /\
  a_health b' = (if a_active b then Z.max 0 (a_health b - st * m) else a_health b) /\
  a_active b' = (if a_active b then 0 <? a_health b - st * m else false).

Theorem apply_hits_bookkeeping hits : forall s st j b,
  ginv s -> 0 <= st -> agent s j = Some b ->
  exists b', agent (apply_hits s st hits) j = Some b' /\
             after_hits b b' st (Z.of_nat (countn j hits)).
Proof.
  unfold apply_hits. induction hits as [|v r IH]; intros s st j b G Hst Hb.
  - exists b. split; [exact Hb|]. destruct (gi_vitals _ _ G j b Hb) as (V1 & V2 & _).
    unfold after_hits. cbn [countn Z.of_nat]. rewrite Z.mul_0_r, Z.sub_0_r.
    repeat split; destruct (a_active b); auto; try lia.
  - cbn [fold_left countn]. pose proof (hit_inv s st v G) as G1.
    assert (Hj : exists b1, agent (hit s st v) j = Some b1 /\
              (if Nat.eqb j v && a_active b then b1 = with_health b (a_health b - st) else b1 = b)).
    { unfold agent at 1. rewrite hit_agents. destruct (Nat.eqb j v) eqn:E.
      - apply Nat.eqb_eq in E. subst v. rewrite Hb. destruct (a_active b).
        + eexists. split; [apply nth_error_upd_same with b; exact Hb|reflexivity].
        + exists b. split; [exact Hb|reflexivity].
      - apply Nat.eqb_neq in E. exists b. split; [|reflexivity].
        destruct (agent s v) as [c|]; [|exact Hb]. destruct (a_active c); [|exact Hb].
        rewrite nth_error_upd_other by exact E. exact Hb. }
    destruct Hj as (b1 & Hb1 & Hrel).
    destruct (IH (hit s st v) st j b1 G1 Hst Hb1) as (b' & Hb' & A).
    exists b'. split; [exact Hb'|].
    destruct (gi_vitals _ _ G j b Hb) as (V1 & V2 & _).
    destruct A as (A1 & A2 & A3 & A4 & A5 & A6 & A7).
    set (m := Z.of_nat (countn j r)) in *.
    assert (Hm : 0 <= m) by (unfold m; lia).
    destruct (Nat.eqb j v) eqn:E; cbn [andb] in Hrel.
    + destruct (a_active b) eqn:Hact.
      * subst b1. cbn [with_health a_enc a_pos a_ammo a_orient a_blocking a_health a_active] in *.
        unfold after_hits. rewrite Hact.
        replace (Z.of_nat (1 + countn j r)) with (1 + m) by (unfold m; lia).
        repeat split; auto.
        -- rewrite A6. unfold HD in *.
           destruct (0 <? Z.min (Z.max (a_health b - st) 0) 1048576) eqn:E1; [apply Z.ltb_lt in E1|apply Z.ltb_ge in E1]; nia.
        -- rewrite A7. unfold HD in *.
           destruct (0 <? Z.min (Z.max (a_health b - st) 0) 1048576) eqn:E1;
             [apply Z.ltb_lt in E1|apply Z.ltb_ge in E1].
           ++ destruct (0 <? Z.min (Z.max (a_health b - st) 0) 1048576 - st * m) eqn:E2;
                [apply Z.ltb_lt in E2|apply Z.ltb_ge in E2]; symmetry;
                [apply Z.ltb_lt|apply Z.ltb_ge]; nia.
           ++ symmetry. apply Z.ltb_ge. nia.
      * subst b1. unfold after_hits in *. rewrite Hact in *. repeat split; auto.
    + subst b1. cbn [Nat.add]. fold m. unfold after_hits. repeat split; auto.
Qed.

Lemma cell_numbering R : 0 < R ->
  cell_of_id R false 1 = (- R, - R) /\ cell_of_id R false 2 = (- R, - R + 1)
  /\ cell_of_id R false (2 * R + 2) = (- R + 1, - R).
Proof.
  intros HR. unfold cell_of_id. cbn [fst snd].
  replace (1 - 1) with 0 by lia. rewrite Z.div_0_l, Z.mod_0_l by lia.
  split; [f_equal; lia|].
  replace (2 - 1) with 1 by lia.
  rewrite Z.div_small, Z.mod_small by lia.
  replace (2 * R + 2 - 1) with (0 + 1 * (2 * R + 1)) by lia.
  rewrite Z.div_add, Z.mod_add by lia. rewrite Z.div_0_l, Z.mod_0_l by lia.
  split; f_equal; lia.
Qed.
