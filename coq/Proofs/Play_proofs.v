(* The consistency invariant over arbitrary interleavings of moves and attacks (C03). *)
From Coq Require Import ZArith List Bool Arith Lia.
From Abm Require Import Base.Sx Grid.Overlap Grid.Grid Grid.Move Grid.Attack Grid.Vis Grid.AttackRun
  Grid.Play Proofs.Grid_proofs Proofs.Move_proofs Proofs.Attack_proofs.
Import ListNotations.
Open Scope Z_scope.

Theorem do_pop_inv vis s o : ginv s -> ginv (do_pop vis s o).
Proof.
  intros G. destruct o as [m|a]; cbn [do_pop].
  - pose proof (do_mop_inv s m G) as H. unfold state_after in H. exact H.
  - pose proof (process_attack_inv vis s (op_cfg a) (op_att a) (op_orc a) (op_act a) G) as H.
    destruct (process_attack vis s (op_cfg a) (op_att a) (op_orc a) (op_act a)); auto.
Qed.

Theorem play_inv vis ops : forall s, ginv s -> ginv (play vis s ops).
Proof.
  unfold play. induction ops as [|o r IH]; intros s G; cbn; [exact G|]. apply IH, do_pop_inv, G.
Qed.

(* what the invariant says, clause by clause *)
Theorem ginv_readable s : ginv s ->
  (* every active agent that has a position is stored in exactly one cell: its position, inside *)
  (forall i a p, agent s i = Some a -> a_active a = true -> a_pos a = Some p ->
     inside s p = true /\ In i (cell_get (g_cells s) p) /\ NoDup (cell_get (g_cells s) p) /\
     forall q, In i (cell_get (g_cells s) q) -> q = p) /\
  (* a cell holds only active agents positioned there: dead agents are absent from the grid *)
  (forall p i, In i (cell_get (g_cells s) p) ->
     exists a, agent s i = Some a /\ a_active a = true /\ a_pos a = Some p) /\
  (* no cell holds two agents whose encodings may not overlap *)
  (forall p i j, In i (cell_get (g_cells s) p) -> In j (cell_get (g_cells s) p) -> i <> j ->
     ov_allowed (g_ov s) (enc_of s i) (enc_of s j) = true) /\
  (* vitals: health in [0,1], active exactly when health is positive, ammunition and orientation *)
  (forall i a, agent s i = Some a ->
     0 <= a_health a <= HD /\ (a_health a = 0 -> a_active a = false) /\
     (a_active a = true <-> 0 < a_health a) /\
     (forall m, a_ammo a = Some m -> 0 <= m) /\ (forall o, a_orient a = Some o -> 1 <= o <= 4)).
Proof.
  intros [H1 H2 H3 H4 H5 H6]. split; [|split; [exact H2|split; [exact H5|]]].
  - intros i a p Ha Hact Hpos. destruct (H4 i a p ltac:(discriminate) Ha Hact Hpos) as [Hin Hins].
    split; [exact Hins|]. split; [exact Hin|]. split; [apply H3|].
    intros q Hq. destruct (H2 q i Hq) as (a' & Ha' & _ & Hp'). congruence.
  - intros i a Ha. destruct (H6 i a Ha) as (V1 & V2 & V3 & V4).
    split; [exact V1|]. split; [|split; [|split; assumption]].
    + intros E. rewrite V2, E. reflexivity.
    + rewrite V2. split; [intros E; apply Z.ltb_lt, E|intros E; apply Z.ltb_lt, E].
Qed.

(* under the invariant the removal of an agent that dies never raises KeyError *)
Theorem death_removal_succeeds s v b st q :
  ginv s -> agent s v = Some b -> a_active b = true -> a_pos b = Some q ->
  a_active (with_health b (a_health b - st)) = false ->
  exists s2, remove (set_agent s v (with_health b (a_health b - st))) v q = Some s2 /\ ginv s2.
Proof.
  intros G Hb Hact Hpos Hd.
  destruct (kill_inv s v b (with_health b (a_health b - st)) q G Hb Hact Hpos eq_refl eq_refl Hd)
    as (s2 & R & G2 & _).
  - apply with_health_vitals, (gi_vitals _ _ G v b Hb).
  - exists s2. split; assumption.
Qed.
