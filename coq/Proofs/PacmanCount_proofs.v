(* PacmanSimSimple: the step_count clauses (2612 / 2613 of the component's checker) at the level of the
   simulation's own transitions, for every configuration, state and action dictionary:
   reset sets step_count to 0; a step leaves it or adds exactly one; when a step that raised nothing
   leaves it, pacman was killed by that step (an overlap loop returned early) and is inactive in the
   resulting state; an overlap loop that runs to its end leaves pacman's vitals alone. *)
From Coq Require Import ZArith List Bool Arith Lia.
From Abm Require Import Base.Sx Grid.Overlap Grid.Grid Grid.Move Grid.Vis Grid.Observe Grid.Play
  Grid.BattleSim Grid.PacmanSim Ctl.Managers Proofs.Grid_proofs Proofs.Move_proofs
  Proofs.Managers_proofs Proofs.Managers_hist Proofs.PacmanSim_proofs.
Import ListNotations.
Open Scope Z_scope.

Lemma pm_reset_count cf st : ps_count (pm_reset cf st) = 0.
Proof. unfold pm_reset. destruct (ps_starts st); reflexivity. Qed.

Lemma pm_reset_rewards cf st : ps_rew (pm_reset cf st) = repeat 0 (length (pc_kinds cf)).
Proof. unfold pm_reset. destruct (ps_starts st); reflexivity. Qed.

Lemma pm_step_count_cases f cf st acts :
  ps_count (pm_step_gen f cf st acts) = ps_count st \/
  ps_count (pm_step_gen f cf st acts) = ps_count st + 1.
Proof.
  unfold pm_step_gen.
  repeat match goal with
         | |- context [match ?x with _ => _ end] => destruct x
         end; cbn; auto.
Qed.

(* remove changes cells only *)
Lemma remove_agents s i p s1 : remove s i p = Some s1 -> g_agents s1 = g_agents s.
Proof.
  unfold remove. destruct (memn i (cell_get (g_cells s) p)); [|discriminate].
  intro H; inversion H; reflexivity.
Qed.

Lemma pac_active_remove cf s i p s1 : remove s i p = Some s1 -> pac_active cf s1 = pac_active cf s.
Proof. intro H. unfold pac_active, agent. rewrite (remove_agents _ _ _ _ H). reflexivity. Qed.

Lemma with_health0_inactive' a : a_active (with_health a 0) = false.
Proof. reflexivity. Qed.

(* an overlap loop that returns early leaves pacman inactive *)
Lemma overlap_loop_dead_inactive cf eat cands : forall g r g' r',
  overlap_loop cf eat cands g r = LDead g' r' -> pac_active cf g' = false.
Proof.
  induction cands as [|j rest IH]; intros g r g' r' H; cbn [overlap_loop] in H; [discriminate|].
  destruct (Nat.eqb j (pc_pac cf)); [eapply IH; exact H|].
  destruct (eat && is_food (kind_of cf j)).
  - destruct (pac_pos cf g) as [q|]; [|discriminate].
    destruct (remove g j q) as [g1|]; [|discriminate].
    destruct (agent g1 j) as [a|]; [|discriminate].
    eapply IH; exact H.
  - destruct (is_baddie (kind_of cf j)); [|eapply IH; exact H].
    destruct (agent g (pc_pac cf)) as [a|] eqn:Ha; [|discriminate].
    destruct (a_pos a) as [q|]; [|discriminate].
    destruct (remove (set_agent g (pc_pac cf) (with_health a 0)) (pc_pac cf) q) as [g2|] eqn:Hr;
      [|discriminate].
    inversion H; subst g' r'.
    rewrite (pac_active_remove _ _ _ _ _ Hr).
    unfold pac_active. rewrite (agent_set_agent_same _ _ _ _ Ha). reflexivity.
Qed.

(* an overlap loop that runs to its end leaves pacman's record alone *)
Lemma overlap_loop_go_pacman cf eat cands : forall g r g' r',
  overlap_loop cf eat cands g r = LGo g' r' -> agent g' (pc_pac cf) = agent g (pc_pac cf).
Proof.
  induction cands as [|j rest IH]; intros g r g' r' H; cbn [overlap_loop] in H.
  - inversion H; reflexivity.
  - destruct (Nat.eqb j (pc_pac cf)) eqn:Hj; [eapply IH; exact H|].
    apply Nat.eqb_neq in Hj.
    destruct (eat && is_food (kind_of cf j)).
    + destruct (pac_pos cf g) as [q|]; [|discriminate].
      destruct (remove g j q) as [g1|] eqn:Hr; [|discriminate].
      destruct (agent g1 j) as [a|]; [|discriminate].
      rewrite (IH _ _ _ _ H).
      rewrite agent_set_agent_other by (intro E; apply Hj; symmetry; exact E).
      unfold agent. rewrite (remove_agents _ _ _ _ Hr). reflexivity.
    + destruct (is_baddie (kind_of cf j)); [|eapply IH; exact H].
      destruct (agent g (pc_pac cf)) as [a|]; [|discriminate].
      destruct (a_pos a) as [q|]; [|discriminate].
      destruct (remove (set_agent g (pc_pac cf) (with_health a 0)) (pc_pac cf) q); discriminate.
Qed.

Lemma overlap_loop_go_active cf eat cands g r g' r' :
  overlap_loop cf eat cands g r = LGo g' r' -> pac_active cf g' = pac_active cf g.
Proof. intro H. unfold pac_active. rewrite (overlap_loop_go_pacman _ _ _ _ _ _ _ H). reflexivity. Qed.

(* a step that raises nothing either counts, or killed pacman and did not count *)
Theorem pm_step_count_spec f cf st acts :
  ps_bad st = false -> ps_bad (pm_step_gen f cf st acts) = false ->
  ps_count (pm_step_gen f cf st acts) = ps_count st + 1 \/
  (ps_count (pm_step_gen f cf st acts) = ps_count st /\
   pac_active cf (ps_grid (pm_step_gen f cf st acts)) = false).
Proof.
  intros Hb. unfold pm_step_gen.
  destruct (assoc acts (pc_pac cf)) as [ca|]; [|cbn; discriminate].
  destruct (move_drift (ps_grid st) (pc_pac cf) ca) as [b g1| | |]; try (cbn; discriminate).
  destruct (teleport f g1 (pc_pac cf)) as [g2|g2]; [|cbn; discriminate].
  destruct (pac_cell cf g2) as [p|]; [|cbn; discriminate].
  destruct (overlap_loop cf true (cell_get (g_cells g2) p) g2 _) as [g3 r3|g3 r3|g3 r3] eqn:H1;
    [| intros _; right; split; [reflexivity|]; cbn;
       eapply overlap_loop_dead_inactive; exact H1
     | cbn; discriminate].
  destruct (script cf g3 (ps_count st)) as [moves|]; [|cbn; discriminate].
  destruct (baddies_loop f cf 0 moves g3) as [g4|g4]; [|cbn; discriminate].
  destruct (pac_cell cf g4) as [p'|]; [|cbn; discriminate].
  destruct (overlap_loop cf false (cell_get (g_cells g4) p') g4 r3) as [g5 r5|g5 r5|g5 r5] eqn:H2.
  - intros _; left; reflexivity.
  - intros _; right; split; [reflexivity|]. cbn. eapply overlap_loop_dead_inactive; exact H2.
  - cbn; discriminate.
Qed.

(* the final overlap loop of a counting step did not touch pacman: when step_count was incremented,
   pacman's record after the step is the one it had after the baddies moved *)
Theorem pm_step_counted_last_loop_frame f cf st acts :
  ps_bad st = false -> ps_bad (pm_step_gen f cf st acts) = false ->
  ps_count (pm_step_gen f cf st acts) = ps_count st + 1 ->
  exists g4 p' r3,
    overlap_loop cf false (cell_get (g_cells g4) p') g4 r3
      = LGo (ps_grid (pm_step_gen f cf st acts)) (ps_rew (pm_step_gen f cf st acts)) /\
    pac_cell cf g4 = Some p' /\
    agent (ps_grid (pm_step_gen f cf st acts)) (pc_pac cf) = agent g4 (pc_pac cf).
Proof.
  intros Hb. unfold pm_step_gen.
  destruct (assoc acts (pc_pac cf)) as [ca|]; [|cbn; discriminate].
  destruct (move_drift (ps_grid st) (pc_pac cf) ca) as [b g1| | |]; try (cbn; discriminate).
  destruct (teleport f g1 (pc_pac cf)) as [g2|g2]; [|cbn; discriminate].
  destruct (pac_cell cf g2) as [p|]; [|cbn; discriminate].
  destruct (overlap_loop cf true (cell_get (g_cells g2) p) g2 _) as [g3 r3|g3 r3|g3 r3] eqn:H1;
    [| cbn; intros _ E; lia | cbn; discriminate].
  destruct (script cf g3 (ps_count st)) as [moves|]; [|cbn; discriminate].
  destruct (baddies_loop f cf 0 moves g3) as [g4|g4]; [|cbn; discriminate].
  destruct (pac_cell cf g4) as [p'|] eqn:Hp; [|cbn; discriminate].
  destruct (overlap_loop cf false (cell_get (g_cells g4) p') g4 r3) as [g5 r5|g5 r5|g5 r5] eqn:H2.
  - intros _ _. exists g4, p', r3. cbn. split; [exact H2|]. split; [exact Hp|].
    eapply overlap_loop_go_pacman; exact H2.
  - cbn; intros _ E; lia.
  - cbn; discriminate.
Qed.

(* ---- the baddies' turn leaves pacman's record alone (when pacman is not listed as a baddie) ------- *)
Definition tgrid (t : tres) : gstate := match t with TOk g | TErr g => g end.

Lemma agent_remove s i p s1 j : remove s i p = Some s1 -> agent s1 j = agent s j.
Proof. intro H. unfold agent. rewrite (remove_agents _ _ _ _ H). reflexivity. Qed.

Lemma tele_frame (f : bool) g i from to j : j <> i ->
  agent (tgrid ((if f then tele_fixed else tele_found) g i from to)) j = agent g j.
Proof.
  intro N. destruct f.
  - unfold tele_fixed. destruct (inside g to); [|reflexivity].
    destruct (query g i to); [|reflexivity].
    destruct (remove g i from) as [g1|] eqn:R; [|reflexivity]. cbn [tgrid].
    destruct (place_keeps g1 i to) as (_ & _ & _ & H). rewrite H by exact N.
    eapply agent_remove; exact R.
  - unfold tele_found. destruct (remove g i from) as [g1|] eqn:R; [|reflexivity].
    destruct (inside g1 to); cbn [tgrid].
    + destruct (place_keeps g1 i to) as (_ & _ & _ & H). rewrite H by exact N.
      eapply agent_remove; exact R.
    + eapply agent_remove; exact R.
Qed.

Lemma teleport_frame f g i j : j <> i -> agent (tgrid (teleport f g i)) j = agent g j.
Proof.
  intro N. unfold teleport. destruct (agent g i) as [a|]; [|reflexivity].
  destruct (a_pos a) as [p|]; [|reflexivity].
  destruct (cell_eqb p tunnel_a); [apply tele_frame, N|].
  destruct (cell_eqb p tunnel_b); [apply tele_frame, N|reflexivity].
Qed.

Definition pac_not_baddie (cf : pcfg) : Prop :=
  forall k b, nth k (pc_bad cf) None = Some b -> b <> pc_pac cf.

Lemma baddies_loop_frame f cf moves : forall k g, pac_not_baddie cf ->
  agent (tgrid (baddies_loop f cf k moves g)) (pc_pac cf) = agent g (pc_pac cf).
Proof.
  induction moves as [|mv rest IH]; intros k g NB; cbn [baddies_loop]; [reflexivity|].
  destruct (nth k (pc_bad cf) None) as [b|] eqn:Hb; [|reflexivity].
  assert (N : pc_pac cf <> b) by (intro E; apply (NB k b Hb); symmetry; exact E).
  pose proof (move_drift_frame g b mv) as HF.
  destruct (move_drift g b mv) as [ok g1| | |]; try reflexivity.
  pose proof (teleport_frame f g1 b (pc_pac cf) N) as HT.
  destruct (teleport f g1 b) as [g2|g2]; cbn [tgrid] in HT |- *.
  - rewrite (IH (S k) g2 NB), HT. apply HF, N.
  - rewrite HT. apply HF, N.
Qed.

(* a counting step: pacman's record after the step is the one it had after its own move, teleport and
   meal -- the baddies' turn and the final overlap loop did not touch it *)
Theorem pm_step_counted_pacman_frame f cf st acts :
  pac_not_baddie cf ->
  ps_bad st = false -> ps_bad (pm_step_gen f cf st acts) = false ->
  ps_count (pm_step_gen f cf st acts) = ps_count st + 1 ->
  exists ca b g1 g2 p g3 r3,
    assoc acts (pc_pac cf) = Some ca /\
    move_drift (ps_grid st) (pc_pac cf) ca = MOk b g1 /\
    teleport f g1 (pc_pac cf) = TOk g2 /\ pac_cell cf g2 = Some p /\
    overlap_loop cf true (cell_get (g_cells g2) p) g2
      (radd (ps_rew st) (pc_pac cf) (if b then pc_entropy cf else pc_bad_move cf)) = LGo g3 r3 /\
    agent (ps_grid (pm_step_gen f cf st acts)) (pc_pac cf) = agent g2 (pc_pac cf).
Proof.
  intros NB Hb. unfold pm_step_gen.
  destruct (assoc acts (pc_pac cf)) as [ca|]; [|cbn; discriminate].
  destruct (move_drift (ps_grid st) (pc_pac cf) ca) as [b g1| | |] eqn:HM; try (cbn; discriminate).
  destruct (teleport f g1 (pc_pac cf)) as [g2|g2] eqn:HT; [|cbn; discriminate].
  destruct (pac_cell cf g2) as [p|] eqn:HP; [|cbn; discriminate].
  destruct (overlap_loop cf true (cell_get (g_cells g2) p) g2 _) as [g3 r3|g3 r3|g3 r3] eqn:H1;
    [| cbn; intros _ E; lia | cbn; discriminate].
  destruct (script cf g3 (ps_count st)) as [moves|]; [|cbn; discriminate].
  pose proof (baddies_loop_frame f cf moves 0%nat g3 NB) as HB.
  destruct (baddies_loop f cf 0 moves g3) as [g4|g4]; [|cbn; discriminate].
  cbn [tgrid] in HB.
  destruct (pac_cell cf g4) as [p'|]; [|cbn; discriminate].
  destruct (overlap_loop cf false (cell_get (g_cells g4) p') g4 r3) as [g5 r5|g5 r5|g5 r5] eqn:H2.
  - intros _ _. exists ca, b, g1, g2, p, g3, r3. cbn.
    repeat split; try reflexivity; try assumption.
    rewrite (overlap_loop_go_pacman _ _ _ _ _ _ _ H2), HB.
    eapply overlap_loop_go_pacman; exact H1.
  - cbn; intros _ E; lia.
  - cbn; discriminate.
Qed.

(* ---- the mover's own `active` flag: moves and teleports change position / orientation only ------- *)
Definition act (s : gstate) (i : nat) : option bool := option_map a_active (agent s i).

Lemma act_remove s i p s1 j : remove s i p = Some s1 -> act s1 j = act s j.
Proof. intro H. unfold act. rewrite (agent_remove _ _ _ _ j H). reflexivity. Qed.

Lemma act_place s i p j : act (snd (place s i p)) j = act s j.
Proof.
  destruct (Nat.eq_dec j i) as [E|N].
  - subst j. unfold place. destruct (agent s i) as [a|] eqn:Ha; [|reflexivity].
    destruct (query s i p); [|reflexivity]. cbn [snd]. unfold act.
    rewrite (agent_set_agent_same _ i _ a) by (rewrite agent_set_cells; exact Ha).
    rewrite Ha. reflexivity.
  - unfold act. destruct (place_keeps s i p) as (_ & _ & _ & H). rewrite H by exact N. reflexivity.
Qed.

Lemma move_by_act s i d j :
  match move_by s i d with MOk _ s' => act s' j = act s j | _ => True end.
Proof.
  unfold move_by. destruct (agent s i) as [a|]; [|exact I]. destruct (a_pos a) as [from|]; [|exact I].
  destruct (inside s _); [|reflexivity]. destruct (cell_eqb _ from); [reflexivity|].
  destruct (query s i _); [|reflexivity].
  destruct (remove s i from) as [s1|] eqn:R; [|exact I].
  rewrite act_place. eapply act_remove; exact R.
Qed.

Lemma move_cross_act s i ca j :
  match move_cross s i ca with MOk _ s' => act s' j = act s j | _ => True end.
Proof. unfold move_cross. destruct (grid_action ca); [apply move_by_act|exact I]. Qed.

Lemma move_drift_act s i ca j :
  match move_drift s i ca with MOk _ s' => act s' j = act s j | _ => True end.
Proof.
  unfold move_drift. destruct (agent s i) as [a0|]; [|exact I].
  destruct (a_orient a0) as [o0|]; [|exact I].
  destruct (ca =? 0); [apply move_cross_act|].
  pose proof (move_cross_act s i ca j) as H1.
  destruct (move_cross s i ca) as [[|] s1| | |]; try exact I.
  - destruct (agent s1 i) as [a1|] eqn:Ha; [|exact I]. rewrite <- H1.
    destruct (Nat.eq_dec j i) as [E|N].
    + subst j. unfold act. rewrite (agent_set_agent_same _ i _ a1 Ha), Ha. reflexivity.
    + unfold act. rewrite agent_set_agent_other by exact N. reflexivity.
  - pose proof (move_cross_act s1 i o0 j) as H2.
    destruct (move_cross s1 i o0); try exact I. rewrite H2. exact H1.
Qed.

Lemma tele_act (f : bool) g i from to j :
  act (tgrid ((if f then tele_fixed else tele_found) g i from to)) j = act g j.
Proof.
  destruct f.
  - unfold tele_fixed. destruct (inside g to); [|reflexivity].
    destruct (query g i to); [|reflexivity].
    destruct (remove g i from) as [g1|] eqn:R; [|reflexivity]. cbn [tgrid].
    rewrite act_place. eapply act_remove; exact R.
  - unfold tele_found. destruct (remove g i from) as [g1|] eqn:R; [|reflexivity].
    destruct (inside g1 to); cbn [tgrid]; [rewrite act_place|]; eapply act_remove; exact R.
Qed.

Lemma teleport_act f g i j : act (tgrid (teleport f g i)) j = act g j.
Proof.
  unfold teleport. destruct (agent g i) as [a|]; [|reflexivity].
  destruct (a_pos a) as [p|]; [|reflexivity].
  destruct (cell_eqb p tunnel_a); [apply tele_act|].
  destruct (cell_eqb p tunnel_b); [apply tele_act|reflexivity].
Qed.

Lemma pac_active_act cf g : pac_active cf g = match act g (pc_pac cf) with Some b => b | None => false end.
Proof. unfold pac_active, act. destruct (agent g (pc_pac cf)); reflexivity. Qed.

(* clause 2612, the "counted" half: a step that raised nothing and incremented step_count leaves
   pacman exactly as active as it was before the step (so: pacman started alive => still active) *)
Theorem pm_step_counted_active f cf st acts :
  pac_not_baddie cf ->
  ps_bad st = false -> ps_bad (pm_step_gen f cf st acts) = false ->
  ps_count (pm_step_gen f cf st acts) = ps_count st + 1 ->
  pac_active cf (ps_grid (pm_step_gen f cf st acts)) = pac_active cf (ps_grid st).
Proof.
  intros NB Hb Hb' Hc.
  destruct (pm_step_counted_pacman_frame f cf st acts NB Hb Hb' Hc)
    as (ca & b & g1 & g2 & p & g3 & r3 & _ & HM & HT & _ & _ & HA).
  rewrite !pac_active_act. unfold act at 1. rewrite HA. fold (act g2 (pc_pac cf)).
  pose proof (teleport_act f g1 (pc_pac cf) (pc_pac cf)) as H2. rewrite HT in H2. cbn [tgrid] in H2.
  pose proof (move_drift_act (ps_grid st) (pc_pac cf) ca (pc_pac cf)) as H1. rewrite HM in H1.
  rewrite H2, H1. reflexivity.
Qed.

(* clause 2612 in full at the transition level *)
Theorem pm_step_clause_2612 f cf st acts :
  pac_not_baddie cf ->
  ps_bad st = false -> ps_bad (pm_step_gen f cf st acts) = false ->
  pac_active cf (ps_grid st) = true ->
  ps_count (pm_step_gen f cf st acts)
    = if pac_active cf (ps_grid (pm_step_gen f cf st acts)) then ps_count st + 1 else ps_count st.
Proof.
  intros NB Hb Hb' Ha.
  destruct (pm_step_count_spec f cf st acts Hb Hb') as [Hc|[Hc Hd]].
  - rewrite (pm_step_counted_active f cf st acts NB Hb Hb' Hc), Ha. exact Hc.
  - rewrite Hd. exact Hc.
Qed.

(* ---- clause 2611: after a step pacman is never alive in a cell with a baddie ----------------------- *)
Lemma overlap_loop_false_go cf cands : forall g r g' r',
  overlap_loop cf false cands g r = LGo g' r' ->
  g' = g /\ r' = r /\
  existsb (fun j => negb (Nat.eqb j (pc_pac cf)) && is_baddie (kind_of cf j)) cands = false.
Proof.
  induction cands as [|j rest IH]; intros g r g' r' H; cbn [overlap_loop] in H.
  - inversion H. auto.
  - cbn [existsb]. destruct (Nat.eqb j (pc_pac cf)); cbn [negb andb orb].
    + eapply IH; exact H.
    + destruct (is_baddie (kind_of cf j)).
      * destruct (agent g (pc_pac cf)) as [a|]; [|discriminate].
        destruct (a_pos a) as [q|]; [|discriminate].
        destruct (remove (set_agent g (pc_pac cf) (with_health a 0)) (pc_pac cf) q); discriminate.
      * eapply IH; exact H.
Qed.

Lemma shares_b_inactive cf g : pac_active cf g = false -> shares_b cf g = false.
Proof. intro H. unfold shares_b. destruct (pac_cell cf g); [rewrite H|]; reflexivity. Qed.

Theorem pm_step_clause_2611 f cf st acts :
  ps_bad st = false -> ps_bad (pm_step_gen f cf st acts) = false ->
  shares_b cf (ps_grid (pm_step_gen f cf st acts)) = false.
Proof.
  intros Hb. unfold pm_step_gen.
  destruct (assoc acts (pc_pac cf)) as [ca|]; [|cbn; discriminate].
  destruct (move_drift (ps_grid st) (pc_pac cf) ca) as [b g1| | |]; try (cbn; discriminate).
  destruct (teleport f g1 (pc_pac cf)) as [g2|g2]; [|cbn; discriminate].
  destruct (pac_cell cf g2) as [p|]; [|cbn; discriminate].
  destruct (overlap_loop cf true (cell_get (g_cells g2) p) g2 _) as [g3 r3|g3 r3|g3 r3] eqn:H1;
    [| intros _; cbn; apply shares_b_inactive; eapply overlap_loop_dead_inactive; exact H1
     | cbn; discriminate].
  destruct (script cf g3 (ps_count st)) as [moves|]; [|cbn; discriminate].
  destruct (baddies_loop f cf 0 moves g3) as [g4|g4]; [|cbn; discriminate].
  destruct (pac_cell cf g4) as [p'|] eqn:HP; [|cbn; discriminate].
  destruct (overlap_loop cf false (cell_get (g_cells g4) p') g4 r3) as [g5 r5|g5 r5|g5 r5] eqn:H2.
  - intros _. cbn. destruct (overlap_loop_false_go _ _ _ _ _ _ H2) as (E & _ & HX). subst g5.
    unfold shares_b. rewrite HP, HX. apply andb_false_r.
  - intros _. cbn. apply shares_b_inactive. eapply overlap_loop_dead_inactive; exact H2.
  - cbn; discriminate.
Qed.

(* ---- the per-record checker accepts every transition of the model -------------------------------- *)
Theorem pm_step_chk_prec f cf st acts :
  pac_not_baddie cf ->
  ps_bad st = false -> ps_bad (pm_step_gen f cf st acts) = false ->
  ginvb (ps_grid (pm_step_gen f cf st acts)) = 0 ->
  chk_prec cf (Some (pac_active cf (ps_grid st), ps_count st)) 1
           (ps_grid (pm_step_gen f cf st acts)) (ps_count (pm_step_gen f cf st acts)) = 0.
Proof.
  intros NB Hb Hb' Hg. unfold chk_prec. rewrite Hg. cbn [Z.eqb negb].
  rewrite (pm_step_clause_2611 f cf st acts Hb Hb').
  destruct (pac_active cf (ps_grid st)) eqn:Ha; [|reflexivity].
  rewrite (pm_step_clause_2612 f cf st acts NB Hb Hb' Ha), Z.eqb_refl. reflexivity.
Qed.

Theorem pm_reset_chk_prec cf st prev :
  ginvb (ps_grid (pm_reset cf st)) = 0 ->
  chk_prec cf prev 0 (ps_grid (pm_reset cf st)) (ps_count (pm_reset cf st)) = 0.
Proof.
  intros Hg. unfold chk_prec. rewrite Hg, pm_reset_count. reflexivity.
Qed.

(* ---- lifted to one manager call (any manager kind, any call, in or out of protocol) -------------- *)
Lemma pm_obs_bad cf st i : ps_bad (snd (pm_obs cf st i)) = false -> ps_bad st = false.
Proof.
  unfold pm_obs. destruct (nth_error (pc_kinds cf) i) as [[| |v|v]|]; cbn; auto; try discriminate;
    destruct (obs_absolute _ _ _ _ _); cbn; auto; discriminate.
Qed.

Lemma pm_reward_bad cf st i : ps_bad (snd (pm_reward cf st i)) = false -> ps_bad st = false.
Proof.
  unfold pm_reward. destruct (p_learning cf i); [|cbn; discriminate].
  destruct (nth_error (ps_rew st) i); cbn; auto; discriminate.
Qed.

Lemma p_greach_bad f cf s s' :
  greach (pacman_sim_gen f cf) s s' -> ps_bad s' = false -> ps_bad s = false.
Proof.
  induction 1 as [s|s s' a _ IH|s s' a _ IH]; intro H; [exact H| |];
    cbn [pacman_sim_gen sim_obs sim_reward] in IH.
  - eapply pm_obs_bad, IH, H.
  - eapply pm_reward_bad, IH, H.
Qed.

Theorem pacman_call_clauses f cf k m c r m' :
  pac_not_baddie cf ->
  do_call (pacman_sim_gen f cf) k m c = (r, m') ->
  ps_bad (m_sim m) = false -> ps_bad (m_sim m') = false ->
  (ps_grid (m_sim m') = ps_grid (m_sim m) /\ ps_count (m_sim m') = ps_count (m_sim m)) \/
  (ps_grid (m_sim m') = ps_grid (pm_reset cf (m_sim m)) /\ ps_count (m_sim m') = 0) \/
  (exists l,
     ps_grid (m_sim m') = ps_grid (pm_step_gen f cf (m_sim m) l) /\
     shares_b cf (ps_grid (m_sim m')) = false /\
     (pac_active cf (ps_grid (m_sim m)) = true ->
      ps_count (m_sim m') = if pac_active cf (ps_grid (m_sim m')) then ps_count (m_sim m) + 1
                            else ps_count (m_sim m))).
Proof.
  intros NB E Hb Hb'.
  destruct (do_call_sim_reach (pacman_sim_gen f cf) k m c r m' E) as [Q|[Q|[l Q]]].
  - left. rewrite Q. auto.
  - right; left. cbn [pacman_sim_gen sim_reset] in Q.
    destruct (p_greach_frame f cf _ _ Q) as (E1 & _ & E3).
    rewrite E1, E3, pm_reset_count. auto.
  - right; right. exists l. cbn [pacman_sim_gen sim_step] in Q.
    destruct (p_greach_frame f cf _ _ Q) as (E1 & _ & E3).
    pose proof (p_greach_bad f cf _ _ Q Hb') as Hs.
    rewrite E1, E3. split; [reflexivity|]. split.
    + apply pm_step_clause_2611; assumption.
    + intro Ha. apply pm_step_clause_2612; assumption.
Qed.

(* ---- and to every record of a recorded run ---------------------------------------------------------- *)
Lemma pm_step_bad f cf st acts : ps_bad (pm_step_gen f cf st acts) = false -> ps_bad st = false.
Proof.
  unfold pm_step_gen.
  repeat match goal with
         | |- context [match ?x with _ => _ end] => destruct x
         end; cbn; auto; discriminate.
Qed.

Lemma pm_reset_bad cf st : ps_bad (pm_reset cf st) = false -> ps_bad st = false.
Proof. unfold pm_reset. destruct (ps_starts st); cbn; auto; discriminate. Qed.

Lemma p_do_call_bad f cf k m c r m' :
  do_call (pacman_sim_gen f cf) k m c = (r, m') -> ps_bad (m_sim m') = false -> ps_bad (m_sim m) = false.
Proof.
  intros E H. destruct (do_call_sim_reach (pacman_sim_gen f cf) k m c r m' E) as [Q|[Q|[l Q]]].
  - rewrite <- Q. exact H.
  - cbn [pacman_sim_gen sim_reset] in Q. eapply pm_reset_bad, p_greach_bad; [exact Q|exact H].
  - cbn [pacman_sim_gen sim_step] in Q. eapply pm_step_bad, p_greach_bad; [exact Q|exact H].
Qed.

Lemma prun_snap_bad f cf k cs : forall m,
  ps_bad (m_sim (snd (prun_snap (pacman_sim_gen f cf) k m cs))) = false -> ps_bad (m_sim m) = false.
Proof.
  induction cs as [|c cs IH]; intros m H; cbn [prun_snap] in H; [exact H|].
  destruct (do_call (pacman_sim_gen f cf) k m c) as [r m1] eqn:E.
  specialize (IH m1).
  destruct (prun_snap (pacman_sim_gen f cf) k m1 cs) as [rs m2]. cbn [snd] in *.
  eapply p_do_call_bad; [exact E|]. apply IH, H.
Qed.

Definition rec_ok (cf : pcfg) (x y : gstate * Z) : Prop :=
  (fst y = fst x /\ snd y = snd x) \/ snd y = 0 \/
  (shares_b cf (fst y) = false /\
   (pac_active cf (fst x) = true ->
    snd y = if pac_active cf (fst y) then snd x + 1 else snd x)).

Fixpoint chain {X} (R : X -> X -> Prop) (x : X) (l : list X) : Prop :=
  match l with [] => True | y :: l' => R x y /\ chain R y l' end.

Theorem prun_snap_chain f cf k cs : forall m,
  pac_not_baddie cf ->
  ps_bad (m_sim (snd (prun_snap (pacman_sim_gen f cf) k m cs))) = false ->
  chain (rec_ok cf) (ps_grid (m_sim m), ps_count (m_sim m))
        (map snd (fst (prun_snap (pacman_sim_gen f cf) k m cs))).
Proof.
  induction cs as [|c cs IH]; intros m NB H; cbn [prun_snap]; [exact I|].
  pose proof (prun_snap_bad f cf k (c :: cs) m H) as Hm. cbn [prun_snap] in H.
  destruct (do_call (pacman_sim_gen f cf) k m c) as [r m1] eqn:E.
  specialize (IH m1 NB). pose proof (prun_snap_bad f cf k cs m1) as H1.
  destruct (prun_snap (pacman_sim_gen f cf) k m1 cs) as [rs m2]. cbn [fst snd map chain] in *.
  specialize (H1 H). split; [|exact (IH H)].
  destruct (pacman_call_clauses f cf k m c r m1 NB E Hm H1) as [[A B]|[[A B]|[l (A & B & C)]]];
    unfold rec_ok; cbn [fst snd]; auto.
Qed.

(* along the managers' reachability relation of the simulation (steps, getters, resets):
   step_count never decreases between resets -- stated per transition above; here the reset clause for
   the packaged simulation record *)
Theorem pacman_sim_reset_count f cf st : ps_count (sim_reset (pacman_sim_gen f cf) st) = 0.
Proof. exact (pm_reset_count cf st). Qed.

Theorem pacman_sim_step_count f cf st acts :
  ps_bad st = false -> ps_bad (sim_step (pacman_sim_gen f cf) st acts) = false ->
  ps_count (sim_step (pacman_sim_gen f cf) st acts) = ps_count st + 1 \/
  (ps_count (sim_step (pacman_sim_gen f cf) st acts) = ps_count st /\
   pac_active cf (ps_grid (sim_step (pacman_sim_gen f cf) st acts)) = false).
Proof. exact (pm_step_count_spec f cf st acts). Qed.
