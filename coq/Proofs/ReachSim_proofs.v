(* The second end-to-end instance: Grid/ReachSim.v's reach_sim is a `simulation`.  A runner that
   reaches the target leaves the grid and becomes inactive with its health unchanged, so the
   invariant of this simulation is the C03 invariant with `active = (health > 0)` weakened to
   `health = 0 -> inactive` (rinv).  It is reduced to the C03 theorems by forgetting the health of
   the inactive agents (zh): every grid operation of the component models commutes with zh. *)
From Coq Require Import ZArith List Bool Arith Lia.
From Abm Require Import Base.Sx Grid.Overlap Grid.Grid Grid.Move Grid.Attack Grid.Vis Grid.AttackRun
  Grid.Observe Grid.Play Grid.BattleSim Grid.ReachSim Ctl.Managers Ctl.Trainer
  Proofs.Grid_proofs Proofs.Overlap_proofs Proofs.Move_proofs Proofs.Attack_proofs Proofs.Play_proofs
  Proofs.GridChk_proofs Proofs.PlayChk_proofs Proofs.Managers_proofs Proofs.Managers_hist
  Proofs.BattleSim_proofs.
From Abm Require Proofs.Trainer_proofs Proofs.Reset_proofs.
From Abm Require Grid.Done.
Import ListNotations.
Open Scope Z_scope.

(* ---- zha / zh: field by field --------------------------------------------------------------------- *)
Lemma zha_active a : a_active (zha a) = a_active a.
Proof. unfold zha. destruct (a_active a) eqn:E; [exact E|exact E]. Qed.
Lemma zha_pos a : a_pos (zha a) = a_pos a.
Proof. unfold zha. destruct (a_active a); reflexivity. Qed.
Lemma zha_enc a : a_enc (zha a) = a_enc a.
Proof. unfold zha. destruct (a_active a); reflexivity. Qed.
Lemma zha_ammo a : a_ammo (zha a) = a_ammo a.
Proof. unfold zha. destruct (a_active a); reflexivity. Qed.
Lemma zha_orient a : a_orient (zha a) = a_orient a.
Proof. unfold zha. destruct (a_active a); reflexivity. Qed.
Lemma zha_alive a : a_active a = true -> zha a = a.
Proof. intros H. unfold zha. rewrite H. reflexivity. Qed.
Lemma zha_with_pos a p : zha (with_pos a p) = with_pos (zha a) p.
Proof. unfold zha. cbn [with_pos a_active]. destruct (a_active a); reflexivity. Qed.
Lemma zha_with_ammo a m : zha (with_ammo a m) = with_ammo (zha a) m.
Proof. unfold zha. cbn [with_ammo a_active]. destruct (a_active a); reflexivity. Qed.

(* the health setter leaves nothing to forget *)
Lemma zha_with_health b h : zha (with_health b h) = with_health b h.
Proof.
  unfold zha. destruct (a_active (with_health b h)) eqn:E; [reflexivity|].
  unfold with_health in *. cbn [a_active] in E. apply Z.ltb_ge in E.
  unfold with_h0. cbn [a_enc a_pos a_health a_active a_ammo a_orient a_blocking].
  assert (Eh : Z.min (Z.max h 0) HD = 0) by (unfold HD in *; lia). rewrite Eh. reflexivity.
Qed.

Lemma map_upd_nth {X Y} (f : X -> Y) l : forall i x, map f (upd_nth l i x) = upd_nth (map f l) i (f x).
Proof. induction l as [|y l IH]; intros [|i] x; cbn; auto. rewrite IH. reflexivity. Qed.

Lemma zh_agent s i : agent (zh s) i = option_map zha (agent s i).
Proof. unfold agent, zh. cbn [g_agents]. rewrite nth_error_map. reflexivity. Qed.

Lemma zh_enc_of s i : enc_of (zh s) i = enc_of s i.
Proof. unfold enc_of. rewrite zh_agent. destruct (agent s i); cbn; [apply zha_enc|reflexivity]. Qed.

Lemma zh_set_agent s i a : zh (set_agent s i a) = set_agent (zh s) i (zha a).
Proof. unfold zh, set_agent. cbn. rewrite map_upd_nth. reflexivity. Qed.

Lemma zh_query s i p : Grid.query (zh s) i p = Grid.query s i p.
Proof.
  unfold Grid.query. cbn [zh g_ov g_cells]. rewrite zh_enc_of. f_equal.
  apply map_ext. intros j. apply zh_enc_of.
Qed.

Lemma zh_remove s i p : remove (zh s) i p = option_map zh (remove s i p).
Proof. unfold remove. cbn [zh g_cells]. destruct (memn i _); reflexivity. Qed.

Lemma zh_place s i p : place (zh s) i p = (fst (place s i p), zh (snd (place s i p))).
Proof.
  unfold place. rewrite zh_agent, zh_query. destruct (agent s i) as [a|]; cbn [option_map]; [|reflexivity].
  destruct (Grid.query s i p); [|reflexivity]. cbn [fst snd]. rewrite zh_set_agent, zha_with_pos. reflexivity.
Qed.

Definition mres_map (f : gstate -> gstate) (r : mres) : mres :=
  match r with MOk b s => MOk b (f s) | e => e end.

Lemma zh_move_by s i d : move_by (zh s) i d = mres_map zh (move_by s i d).
Proof.
  unfold move_by. rewrite zh_agent. destruct (agent s i) as [a|]; cbn [option_map]; [|reflexivity].
  rewrite zha_pos. destruct (a_pos a) as [from|]; [|reflexivity].
  change (inside (zh s)) with (inside s). destruct (inside s _); [|reflexivity].
  destruct (cell_eqb _ from); [reflexivity|]. rewrite zh_query. destruct (Grid.query s i _); [|reflexivity].
  rewrite zh_remove. destruct (remove s i from) as [s1|]; cbn [option_map mres_map]; [|reflexivity].
  rewrite zh_place. reflexivity.
Qed.

Lemma zh_hit s st v : hit (zh s) st v = zh (hit s st v).
Proof.
  unfold hit. rewrite zh_agent. destruct (agent s v) as [b|]; cbn [option_map]; [|reflexivity].
  rewrite zha_active. destruct (a_active b) eqn:Hact; cbn [negb]; [|reflexivity].
  rewrite (zha_alive b Hact).
  set (b' := with_health b (a_health b - st)).
  destruct (a_active b'); [rewrite zh_set_agent; unfold b'; rewrite zha_with_health; reflexivity|].
  destruct (a_pos b') as [q|].
  - replace (set_agent (zh s) v b') with (zh (set_agent s v b'))
      by (rewrite zh_set_agent; unfold b'; rewrite zha_with_health; reflexivity).
    rewrite zh_remove. destruct (remove (set_agent s v b') v q); reflexivity.
  - rewrite zh_set_agent. unfold b'. rewrite zha_with_health. reflexivity.
Qed.

Lemma zh_apply_hits hits : forall s st, apply_hits (zh s) st hits = zh (apply_hits s st hits).
Proof.
  unfold apply_hits. induction hits as [|v r IH]; intros s st; cbn [fold_left]; [reflexivity|].
  rewrite zh_hit. apply IH.
Qed.

(* ---- the relaxed invariant -------------------------------------------------------------------------- *)
Definition hb (a : arec) : Prop := 0 <= a_health a <= HD.
Definition rinv (s : gstate) : Prop := ginv (zh s) /\ Forall hb (g_agents s).

Lemma Forall_upd_nth {X} (P : X -> Prop) l : forall i x, Forall P l -> P x -> Forall P (upd_nth l i x).
Proof.
  induction l as [|y l IH]; intros [|i] x H Hx; cbn; auto; inversion H; subst; constructor; auto.
Qed.

Lemma hb_agent s i a : Forall hb (g_agents s) -> agent s i = Some a -> hb a.
Proof. intros H Ha. rewrite Forall_forall in H. apply H. apply nth_error_In with i. exact Ha. Qed.

Lemma hb_place s i p : Forall hb (g_agents s) -> Forall hb (g_agents (snd (place s i p))).
Proof.
  intros H. unfold place. destruct (agent s i) as [a|] eqn:Ha; [|exact H].
  destruct (Grid.query s i p); [|exact H]. cbn [snd set_agent set_cells g_agents].
  apply Forall_upd_nth; [exact H|]. apply (hb_agent s i a H Ha).
Qed.

Lemma hb_remove s i p s1 : remove s i p = Some s1 -> g_agents s1 = g_agents s.
Proof. unfold remove. destruct (memn i _); [|discriminate]. intros E. injection E as <-. reflexivity. Qed.

Lemma hb_move_by s i d : Forall hb (g_agents s) ->
  match move_by s i d with MOk _ s' => Forall hb (g_agents s') | _ => True end.
Proof.
  intros H. unfold move_by. destruct (agent s i) as [a|]; [|exact I]. destruct (a_pos a) as [from|]; [|exact I].
  destruct (inside s _); [|exact H]. destruct (cell_eqb _ from); [exact H|].
  destruct (Grid.query s i _); [|exact H]. destruct (remove s i from) as [s1|] eqn:R; [|exact I].
  apply hb_place. rewrite (hb_remove _ _ _ _ R). exact H.
Qed.

Lemma hb_with_health b h : hb (with_health b h).
Proof. unfold hb, with_health. cbn [a_health]. unfold HD. lia. Qed.

Lemma hb_hit s st v : Forall hb (g_agents s) -> Forall hb (g_agents (hit s st v)).
Proof.
  intros H. rewrite hit_agents. destruct (agent s v) as [b|]; [|exact H].
  destruct (a_active b); [|exact H]. apply Forall_upd_nth; [exact H|apply hb_with_health].
Qed.

Lemma hb_apply_hits hits : forall s st, Forall hb (g_agents s) -> Forall hb (g_agents (apply_hits s st hits)).
Proof.
  unfold apply_hits. induction hits as [|v r IH]; intros s st H; cbn [fold_left]; [exact H|].
  apply IH, hb_hit, H.
Qed.

(* every move keeps the relaxed invariant *)
Theorem rinv_move s i d : rinv s -> match move_by s i d with MOk _ s' => rinv s' | _ => True end.
Proof.
  intros [G H]. pose proof (move_by_inv (zh s) i d G) as G'. rewrite zh_move_by in G'.
  pose proof (hb_move_by s i d H) as H'.
  destruct (move_by s i d); cbn [mres_map] in G'; try exact I. split; assumption.
Qed.

Lemma rinv_apply_hits s st hits : rinv s -> rinv (apply_hits s st hits).
Proof.
  intros [G H]. split; [rewrite <- zh_apply_hits; apply apply_hits_inv, G|apply hb_apply_hits, H].
Qed.

Lemma rinv_set_ammo s i a m : rinv s -> agent s i = Some a -> 0 <= m ->
  rinv (set_agent s i (with_ammo a (Some m))).
Proof.
  intros [G H] Ha Hm. split.
  - rewrite zh_set_agent, zha_with_ammo. apply set_ammo_inv; [exact G| |exact Hm].
    rewrite zh_agent, Ha. reflexivity.
  - cbn [set_agent g_agents]. apply Forall_upd_nth; [exact H|]. apply (hb_agent s i a H Ha).
Qed.

(* every attack of every actor, any action, any draws *)
Theorem rinv_attack vis s cf att o act : rinv s ->
  match process_attack vis s cf att o act with POk _ _ s' _ => rinv s' | _ => True end.
Proof.
  intros G. unfold process_attack. destruct (agent s att) as [a|] eqn:Ha; [|exact I].
  destruct (a_pos a); [|exact I].
  destruct (determine vis s cf att c o act) as [[status hits] o1|]; [|exact I].
  destruct (a_ammo a) as [am|].
  - destruct (am <? Z.of_nat (length hits)).
    + destruct (o_choice o1) as [|ch cs]; [exact I|].
      destruct ((Z.of_nat (length ch) =? am) && submultiset ch hits); [|exact I].
      apply rinv_apply_hits, rinv_set_ammo; [exact G|exact Ha|lia].
    + apply rinv_apply_hits, rinv_set_ammo; [exact G|exact Ha|lia].
  - apply rinv_apply_hits, G.
Qed.

(* the runner that reached the target: removed from its cell, then set inactive *)
Lemma vitals_dead a : vitals_ok (zha a) -> vitals_ok (zha (with_active a false)).
Proof.
  intros (V1 & V2 & V3 & V4). rewrite zha_ammo in V3. rewrite zha_orient in V4.
  unfold vitals_ok, zha, with_active, with_h0. cbn.
  split; [unfold HD; lia|]. split; [reflexivity|]. split; assumption.
Qed.

Theorem rinv_leave s i a q : rinv s -> agent s i = Some a -> a_active a = true -> a_pos a = Some q ->
  exists g1, remove s i q = Some g1 /\ rinv (set_agent g1 i (with_active a false)) /\
    (forall p, ~ In i (cell_get (g_cells (set_agent g1 i (with_active a false))) p)).
Proof.
  intros [G H] Ha Hact Hpos.
  assert (Hz : agent (zh s) i = Some a) by (rewrite zh_agent, Ha; cbn; rewrite (zha_alive a Hact); reflexivity).
  assert (Hv : vitals_ok (zha (with_active a false))).
  { apply vitals_dead. rewrite (zha_alive a Hact). apply (gi_vitals _ _ G i a Hz). }
  destruct (kill_inv (zh s) i a (zha (with_active a false)) q G Hz Hact Hpos) as (s2 & R & G2 & _ & Hoth & Hq);
    try exact Hv; try (unfold zha, with_active; cbn; reflexivity).
  unfold remove in R. cbn [set_agent g_cells zh] in R.
  unfold remove. destruct (memn i (cell_get (g_cells s) q)) eqn:Em; [|discriminate].
  eexists. split; [reflexivity|]. injection R as R. split; [split|].
  - rewrite zh_set_agent. cbn [zh set_cells set_agent g_rows g_cols g_ov g_agents g_cells] in *.
    rewrite <- R in G2. exact G2.
  - cbn [set_agent set_cells g_agents]. apply Forall_upd_nth; [exact H|]. apply (hb_agent s i a H Ha).
  - intros p Hp. cbn [set_agent set_cells g_cells] in Hp.
    destruct (gi_cell_agent _ _ G2 p i) as (a' & Ha' & Hact' & _).
    { rewrite <- R. cbn [set_cells g_cells]. exact Hp. }
    rewrite <- R in Ha'. unfold agent in Ha'. cbn [set_cells set_agent g_agents zh] in Ha'.
    rewrite (nth_error_upd_same _ _ _ (zha a)) in Ha'.
    + injection Ha' as <-. unfold zha, with_active in Hact'. cbn in Hact'. discriminate.
    + rewrite nth_error_map. unfold agent in Ha. rewrite Ha. reflexivity.
Qed.

(* the rinv of the property text *)
Theorem rinv_readable s : rinv s ->
  ov_sym (g_ov s) /\
  (forall p i, In i (cell_get (g_cells s) p) ->
     exists a, agent s i = Some a /\ a_active a = true /\ a_pos a = Some p) /\
  (forall p, NoDup (cell_get (g_cells s) p)) /\
  (forall i a p, agent s i = Some a -> a_active a = true -> a_pos a = Some p ->
     In i (cell_get (g_cells s) p) /\ inside s p = true) /\
  (forall p i j, In i (cell_get (g_cells s) p) -> In j (cell_get (g_cells s) p) -> i <> j ->
     ov_allowed (g_ov s) (enc_of s i) (enc_of s j) = true) /\
  (forall i a, agent s i = Some a ->
     0 <= a_health a <= HD /\ (a_health a = 0 -> a_active a = false) /\
     (a_active a = true -> 0 < a_health a) /\
     (forall m, a_ammo a = Some m -> 0 <= m) /\ (forall o, a_orient a = Some o -> 1 <= o <= 4)).
Proof.
  intros [[H1 H2 H3 H4 H5 H6] H]. cbn [zh g_ov g_cells] in *.
  split; [exact H1|]. split; [|split; [exact H3|split; [|split]]].
  - intros p i Hi. destruct (H2 p i Hi) as (a' & Ha' & A & P). rewrite zh_agent in Ha'.
    destruct (agent s i) as [a|]; [|discriminate]. injection Ha' as <-.
    exists a. rewrite zha_active in A. rewrite zha_pos in P. auto.
  - intros i a p Ha A P. apply (H4 i (zha a) p); [discriminate|rewrite zh_agent, Ha; reflexivity| |].
    + rewrite zha_active. exact A.
    + rewrite zha_pos. exact P.
  - intros p i j Hi Hj N. rewrite <- (zh_enc_of s i), <- (zh_enc_of s j). apply (H5 p); assumption.
  - intros i a Ha. pose proof (hb_agent s i a H Ha) as Hb.
    assert (Hz : agent (zh s) i = Some (zha a)) by (rewrite zh_agent, Ha; reflexivity).
    destruct (H6 i (zha a) Hz) as (V1 & V2 & V3 & V4).
    rewrite zha_ammo in V3. rewrite zha_orient in V4. rewrite zha_active in V2.
    split; [exact Hb|]. unfold zha in V2. destruct (a_active a) eqn:E.
    + symmetry in V2. apply Z.ltb_lt in V2.
      split; [intros E0; exfalso; lia|]. split; [intros _; exact V2|]. split; assumption.
    + split; [reflexivity|]. split; [discriminate|]. split; assumption.
Qed.

(* ---- what the getters and the loops leave alone ---------------------------------------------------- *)
Lemma rs_obs_frame cf st i :
  bs_grid (snd (rs_obs cf st i)) = bs_grid st /\ bs_starts (snd (rs_obs cf st i)) = bs_starts st /\
  bs_rew (snd (rs_obs cf st i)) = bs_rew st /\ bs_orc (snd (rs_obs cf st i)) = bs_orc st.
Proof.
  unfold rs_obs. destruct (nth_error (rc_agents cf) i) as [b|]; [|cbn; auto].
  destruct (r_kind b); [cbn; auto| |]; destruct (obs_centered _ _ _ _ _ _); cbn; auto.
Qed.

Lemma rs_reward_frame cf st i :
  bs_grid (snd (rs_reward cf st i)) = bs_grid st /\ bs_starts (snd (rs_reward cf st i)) = bs_starts st /\
  bs_orc (snd (rs_reward cf st i)) = bs_orc st /\ bs_obsorc (snd (rs_reward cf st i)) = bs_obsorc st.
Proof. unfold rs_reward. destruct (is_learning cf i); [apply bs_reward_frame|cbn; auto]. Qed.

Lemma r_attack_one_starts cf st ia : bs_starts (r_attack_one cf st ia) = bs_starts st.
Proof.
  unfold r_attack_one. destruct (agent (bs_grid st) (fst ia)) as [a|]; [|reflexivity].
  destruct (kind_of cf (fst ia)) as [k|]; [|reflexivity].
  destruct (a_active a); [|reflexivity]. destruct k as [|att|]; try reflexivity.
  destruct (snd ia); [reflexivity|]. destruct (process_attack _ _ _ _ _ _); try reflexivity.
  cbv zeta. destruct (snd _); reflexivity.
Qed.

Lemma reach_one_starts cf st i : bs_starts (reach_one cf st i) = bs_starts st.
Proof.
  unfold reach_one. destruct (target_done cf (bs_grid st) i) as [[|]|]; try reflexivity.
  destruct (agent (bs_grid st) i) as [a|]; [|reflexivity]. destruct (a_pos a); [|reflexivity].
  destruct (Grid.remove _ _ _); reflexivity.
Qed.

Lemma r_try_move_starts st i x : bs_starts (r_try_move st i x) = bs_starts st.
Proof. unfold r_try_move. destruct x; [|reflexivity]. destruct (move_free _ _ _); reflexivity. Qed.

Lemma r_move_gen_starts b cf st ia : bs_starts (r_move_gen b cf st ia) = bs_starts st.
Proof.
  unfold r_move_gen. destruct (agent (bs_grid st) (fst ia)) as [a|]; [|reflexivity].
  destruct (kind_of cf (fst ia)) as [[|att|]|]; try reflexivity.
  destruct (a_active a); [rewrite reach_one_starts; apply r_try_move_starts|].
  destruct b; [apply reach_one_starts|reflexivity].
Qed.

Lemma r_entropy_one_starts cf st ia : bs_starts (r_entropy_one cf st ia) = bs_starts st.
Proof. unfold r_entropy_one. destruct (kind_of cf (fst ia)) as [[|att|]|]; reflexivity. Qed.

Lemma r_entropy_one_grid cf st ia : bs_grid (r_entropy_one cf st ia) = bs_grid st.
Proof. unfold r_entropy_one. destruct (kind_of cf (fst ia)) as [[|att|]|]; reflexivity. Qed.

Lemma rs_step_starts cf st acts : bs_starts (rs_step cf st acts) = bs_starts st.
Proof.
  unfold rs_step. rewrite (fold_frame (r_entropy_one cf) bs_starts) by apply r_entropy_one_starts.
  rewrite (fold_frame (r_move_one cf) bs_starts) by apply r_move_gen_starts.
  apply (fold_frame (r_attack_one cf) bs_starts), r_attack_one_starts.
Qed.

(* effects of the getters only: the grid and the start-state stream are the same *)
Lemma r_greach_frame cf s s' :
  greach (reach_sim cf) s s' -> bs_grid s' = bs_grid s /\ bs_starts s' = bs_starts s.
Proof.
  induction 1 as [s|s s' a _ IH|s s' a _ IH]; [auto| |]; cbn [reach_sim sim_obs sim_reward] in IH.
  - destruct (rs_obs_frame cf s a) as (E1 & E2 & _). destruct IH as [I1 I2]. split; congruence.
  - destruct (rs_reward_frame cf s a) as (E1 & E2 & _). destruct IH as [I1 I2]. split; congruence.
Qed.

(* get_done / get_all_done read the grid only *)
Theorem reach_done_stable cf : done_stable (reach_sim cf).
Proof.
  intros s s' a G. destruct (r_greach_frame cf s s' G) as [E _].
  cbn [reach_sim sim_done]. unfold rs_done. rewrite E. reflexivity.
Qed.

Lemma reach_all_stable cf s s' : greach (reach_sim cf) s s' -> rs_all cf s' = rs_all cf s.
Proof. intros G. destruct (r_greach_frame cf s s' G) as [E _]. unfold rs_all. rewrite E. reflexivity. Qed.

(* get_reward hands out the accrued amount and leaves zero; nobody else's entry changes *)
Theorem rs_reward_read_once cf st i x :
  is_learning cf i = true -> nth_error (bs_rew st) i = Some x ->
  fst (rs_reward cf st i) = x /\
  nth_error (bs_rew (snd (rs_reward cf st i))) i = Some 0 /\
  (forall j, j <> i -> nth_error (bs_rew (snd (rs_reward cf st i))) j = nth_error (bs_rew st) j) /\
  bs_bad (snd (rs_reward cf st i)) = bs_bad st.
Proof.
  intros Hl Hx. unfold rs_reward, bs_reward. rewrite Hl, Hx. cbn [fst snd with_rew bs_rew bs_bad].
  split; [reflexivity|]. split; [apply nth_error_upd_same with x; exact Hx|]. split; [|reflexivity].
  intros j N. apply nth_error_upd_other. exact N.
Qed.

(* ---- any property of the grid kept by the actor models and by leaving the grid is kept by the step *)
Lemma move_by_stays_active s i d a : agent s i = Some a -> a_active a = true ->
  match move_by s i d with
  | MOk _ s' => exists a', agent s' i = Some a' /\ a_active a' = true
  | _ => True
  end.
Proof.
  intros Ha Hact. unfold move_by. rewrite Ha. destruct (a_pos a) as [from|]; [|exact I].
  destruct (inside s _); [|eauto]. destruct (cell_eqb _ from); [eauto|].
  destruct (Grid.query s i _); [|eauto]. destruct (Grid.remove s i from) as [s1|] eqn:R; [|exact I].
  assert (Ha1 : agent s1 i = Some a) by (unfold agent; rewrite (hb_remove _ _ _ _ R); exact Ha).
  unfold place. rewrite Ha1. destruct (Grid.query s1 i _); cbn [snd]; [|eauto].
  eexists. split; [apply agent_set_agent_same with a; rewrite agent_set_cells; exact Ha1|exact Hact].
Qed.

Section PreservedR.
  Variable P : gstate -> Prop.
  Hypothesis P_attack : forall vis s cf att o act, P s ->
    match process_attack vis s cf att o act with POk _ _ s' _ => P s' | _ => True end.
  Hypothesis P_move : forall s i d, P s ->
    match move_by s i d with MOk _ s' => P s' | _ => True end.
  Hypothesis P_leave : forall s i a q g1, P s -> agent s i = Some a -> a_active a = true ->
    a_pos a = Some q -> Grid.remove s i q = Some g1 -> P (set_agent g1 i (with_active a false)).

  Lemma r_attack_one_P cf st ia : P (bs_grid st) -> P (bs_grid (r_attack_one cf st ia)).
  Proof.
    intros H. unfold r_attack_one. destruct (agent (bs_grid st) (fst ia)) as [a|]; [|exact H].
    destruct (kind_of cf (fst ia)) as [k|]; [|exact H].
    destruct (a_active a); [|exact H]. destruct k as [|att|]; try exact H.
    destruct (snd ia) as [d|l]; [exact H|].
    pose proof (P_attack vis_model (bs_grid st) att (fst ia) (bs_orc st) (ASelective l) H) as H1.
    destruct (process_attack _ _ _ _ _ _); [|exact H|exact H].
    cbv zeta. destruct (snd _); exact H1.
  Qed.

  Lemma reach_one_P cf st i a : P (bs_grid st) -> agent (bs_grid st) i = Some a -> a_active a = true ->
    P (bs_grid (reach_one cf st i)).
  Proof.
    intros H Ha Hact. unfold reach_one. destruct (target_done cf (bs_grid st) i) as [[|]|]; try exact H.
    rewrite Ha. destruct (a_pos a) as [q|] eqn:Hpos; [|exact H].
    destruct (Grid.remove (bs_grid st) i q) as [g1|] eqn:R; [|exact H].
    cbn [with_grid bs_grid]. apply (P_leave _ _ _ _ _ H Ha Hact Hpos R).
  Qed.

  Lemma r_move_one_P cf st ia : P (bs_grid st) -> P (bs_grid (r_move_one cf st ia)).
  Proof.
    intros H. unfold r_move_one, r_move_gen. destruct (agent (bs_grid st) (fst ia)) as [a|] eqn:Ha; [|exact H].
    destruct (kind_of cf (fst ia)) as [[|att|]|]; try exact H.
    destruct (a_active a) eqn:Hact; [|exact H].
    unfold r_try_move. destruct (snd ia) as [d|l]; [|apply (reach_one_P cf (mark_bad st) _ a H Ha Hact)].
    pose proof (P_move (bs_grid st) (fst ia) d H) as H1.
    pose proof (move_by_stays_active (bs_grid st) (fst ia) d a Ha Hact) as H2. unfold move_free.
    destruct (move_by (bs_grid st) (fst ia) d) as [ok g'| | |];
      try (apply (reach_one_P cf (mark_bad st) _ a H Ha Hact)).
    destruct H2 as (a' & Ha' & Hact'). apply (reach_one_P cf _ _ a'); assumption.
  Qed.

  (* ReachTheTargetSim.step, every action dictionary, every oracle *)
  Theorem rs_step_P cf st acts : P (bs_grid st) -> P (bs_grid (rs_step cf st acts)).
  Proof.
    intros H. unfold rs_step.
    apply (fold_P P (r_entropy_one cf)); [intros s x Hs; rewrite r_entropy_one_grid; exact Hs|].
    apply (fold_P P (r_move_one cf)); [apply r_move_one_P|].
    apply (fold_P P (r_attack_one cf)); [apply r_attack_one_P|exact H].
  Qed.
End PreservedR.

(* the relaxed invariant is kept by the step: every action list, every state *)
Lemma rinv_move_x s i d : rinv s -> match move_by s i d with MOk _ s' => rinv s' | _ => True end.
Proof. apply rinv_move. Qed.

Lemma rinv_leave_x s i a q g1 : rinv s -> agent s i = Some a -> a_active a = true ->
  a_pos a = Some q -> Grid.remove s i q = Some g1 -> rinv (set_agent g1 i (with_active a false)).
Proof.
  intros G Ha Hact Hpos R. destruct (rinv_leave s i a q G Ha Hact Hpos) as (g1' & R' & G' & _).
  assert (g1' = g1) by congruence. subst g1'. exact G'.
Qed.

Theorem rs_step_rinv cf st acts : rinv (bs_grid st) -> rinv (bs_grid (rs_step cf st acts)).
Proof. apply (rs_step_P rinv rinv_attack rinv_move_x rinv_leave_x). Qed.

(* ---- histories: a grid predicate kept by the step holds in every state any manager reaches ------- *)
Section Hist.
  Variable cf : rcfg.
  Variable P : gstate -> Prop.
  Hypothesis P_step : forall st acts, P (bs_grid st) -> P (bs_grid (rs_step cf st acts)).

  Definition rs_invP (st : rstate) : Prop := P (bs_grid st) /\ Forall P (bs_starts st).

  Lemma rs_step_invP st acts : rs_invP st -> rs_invP (rs_step cf st acts).
  Proof. intros [H1 H2]. split; [apply P_step, H1|rewrite rs_step_starts; exact H2]. Qed.

  Lemma rs_reset_invP st : rs_invP st -> rs_invP (rs_reset cf st).
  Proof.
    intros [H1 H2]. unfold rs_reset. destruct (bs_starts st) as [|g0 rest]; split; cbn; auto.
    - inversion H2; assumption.
    - inversion H2; assumption.
  Qed.

  Lemma r_greach_invP s s' : greach (reach_sim cf) s s' -> rs_invP s -> rs_invP s'.
  Proof. intros G [H1 H2]. destruct (r_greach_frame cf s s' G) as [E1 E2]. split; congruence. Qed.

  (* one manager call, any manager, any call, in or out of protocol *)
  Lemma r_do_call_invP k m c r m' :
    do_call (reach_sim cf) k m c = (r, m') -> rs_invP (m_sim m) -> rs_invP (m_sim m').
  Proof.
    intros E H. destruct (do_call_sim_reach (reach_sim cf) k m c r m' E) as [Q|[Q|[l Q]]].
    - rewrite Q. exact H.
    - apply (r_greach_invP _ _ Q). apply rs_reset_invP, H.
    - apply (r_greach_invP _ _ Q). apply rs_step_invP, H.
  Qed.

  Theorem r_run_invP k cs : forall m,
    rs_invP (m_sim m) -> rs_invP (m_sim (snd (run (reach_sim cf) k m cs))).
  Proof.
    induction cs as [|c cs IH]; intros m H; cbn [run]; [exact H|].
    destruct (do_call (reach_sim cf) k m c) as [r m1] eqn:E.
    specialize (IH m1 (r_do_call_invP k m c r m1 E H)).
    destruct (run (reach_sim cf) k m1 cs) as [rs m2]. exact IH.
  Qed.

  Theorem r_trace_invP k cs : forall m ph,
    rs_invP (m_sim m) ->
    forall e, In e (trace (reach_sim cf) k m ph cs) ->
      rs_invP (m_sim (te_pre e)) /\ rs_invP (m_sim (te_post e)).
  Proof.
    induction cs as [|c cs IH]; intros m ph H e He; cbn [trace] in He; [destruct He|].
    destruct (do_call (reach_sim cf) k m c) as [r m1] eqn:E.
    pose proof (r_do_call_invP k m c r m1 E H) as H1.
    destruct He as [<-|He]; [cbn; auto|]. exact (IH m1 _ H1 e He).
  Qed.

  Theorem rrun_snap_P k cs : forall m,
    rs_invP (m_sim m) -> Forall (fun rg => P (snd rg)) (fst (rrun_snap (reach_sim cf) k m cs)).
  Proof.
    induction cs as [|c cs IH]; intros m H; cbn [rrun_snap]; [constructor|].
    destruct (do_call (reach_sim cf) k m c) as [r m1] eqn:E.
    pose proof (r_do_call_invP k m c r m1 E H) as H1. specialize (IH m1 H1).
    destruct (rrun_snap (reach_sim cf) k m1 cs) as [rs m2]. cbn [fst snd] in *.
    constructor; [exact (proj1 H1)|exact IH].
  Qed.
End Hist.

(* rrun_snap is the managers' run, plus the snapshots *)
Lemma rrun_snap_run Sm k cs : forall m,
  map fst (fst (rrun_snap Sm k m cs)) = fst (run Sm k m cs) /\
  snd (rrun_snap Sm k m cs) = snd (run Sm k m cs).
Proof.
  induction cs as [|c cs IH]; intros m; cbn [rrun_snap run]; [auto|].
  destruct (do_call Sm k m c) as [r m1]. specialize (IH m1).
  destruct (rrun_snap Sm k m1 cs) as [rs m2]. destruct (run Sm k m1 cs) as [rs' m2'].
  cbn [fst snd map] in *. destruct IH as [-> ->]. auto.
Qed.

(* reachable simulation states, every manager kind, every call list *)
Theorem reach_rinv_reachable cf k s0 cs :
  rinv (bs_grid s0) -> Forall rinv (bs_starts s0) ->
  rinv (bs_grid (m_sim (snd (run (reach_sim cf) k (init s0) cs)))) /\
  forall e, In e (trace (reach_sim cf) k (init s0) Fresh cs) ->
    rinv (bs_grid (m_sim (te_pre e))) /\ rinv (bs_grid (m_sim (te_post e))).
Proof.
  intros H1 H2. assert (H : rs_invP rinv (m_sim (init s0))) by (split; assumption). split.
  - apply (r_run_invP cf rinv (rs_step_rinv cf) k cs (init s0) H).
  - intros e He.
    destruct (r_trace_invP cf rinv (rs_step_rinv cf) k cs (init s0) Fresh H e He) as [[A _] [B _]]. auto.
Qed.

(* ---- no runner arrives on the target's cell and stays active ------------------------------------- *)
Definition arrival (cf : rcfg) (g g' : gstate) : Prop :=
  forall i, is_runner cf i = true -> on_target cf g' i = true ->
    on_target cf g i = true /\ pos_of g i = pos_of g' i.

Lemma arrival_refl cf g : arrival cf g g.
Proof. intros i _ H. auto. Qed.

Lemma arrival_trans cf g1 g2 g3 : arrival cf g1 g2 -> arrival cf g2 g3 -> arrival cf g1 g3.
Proof.
  intros A B i Hr H3. destruct (B i Hr H3) as [H2 E2]. destruct (A i Hr H2) as [H1 E1].
  split; [exact H1|congruence].
Qed.

(* what an attack leaves of every agent: the position; nobody becomes active *)
Definition keeps_pos (s s' : gstate) : Prop :=
  forall j a', agent s' j = Some a' ->
    exists a, agent s j = Some a /\ a_pos a' = a_pos a /\ (a_active a' = true -> a_active a = true).

Lemma keeps_pos_refl s : keeps_pos s s.
Proof. intros j a H. exists a. auto. Qed.

Lemma keeps_pos_trans s1 s2 s3 : keeps_pos s1 s2 -> keeps_pos s2 s3 -> keeps_pos s1 s3.
Proof.
  intros A B j c Hc. destruct (B j c Hc) as (b & Hb & P2 & A2). destruct (A j b Hb) as (a & Ha & P1 & A1).
  exists a. split; [exact Ha|]. split; [congruence|auto].
Qed.

Lemma keeps_pos_set_agent s i a a' : agent s i = Some a -> a_pos a' = a_pos a ->
  (a_active a' = true -> a_active a = true) -> keeps_pos s (set_agent s i a').
Proof.
  intros Ha Ep Ea j c Hc. destruct (Nat.eq_dec j i) as [->|N].
  - rewrite (agent_set_agent_same _ _ _ _ Ha) in Hc. injection Hc as <-. exists a. auto.
  - rewrite agent_set_agent_other in Hc by exact N. exists c. auto.
Qed.

Lemma keeps_pos_hit s st v : keeps_pos s (hit s st v).
Proof.
  intros j a' Hj. unfold agent in Hj. rewrite hit_agents in Hj.
  destruct (agent s v) as [b|] eqn:Hb; [|exists a'; auto].
  destruct (a_active b) eqn:Hact; [|exists a'; auto].
  destruct (Nat.eq_dec j v) as [->|N].
  - rewrite (nth_error_upd_same _ _ _ b Hb) in Hj. injection Hj as <-. exists b. cbn. auto.
  - rewrite nth_error_upd_other in Hj by exact N. exists a'. auto.
Qed.

Lemma keeps_pos_apply_hits hits : forall s st, keeps_pos s (apply_hits s st hits).
Proof.
  unfold apply_hits. induction hits as [|v r IH]; intros s st; cbn [fold_left]; [apply keeps_pos_refl|].
  apply keeps_pos_trans with (hit s st v); [apply keeps_pos_hit|apply IH].
Qed.

Lemma keeps_pos_attack vis s cf att o act :
  match process_attack vis s cf att o act with POk _ _ s' _ => keeps_pos s s' | _ => True end.
Proof.
  unfold process_attack. destruct (agent s att) as [a|] eqn:Ha; [|exact I].
  destruct (a_pos a); [|exact I].
  destruct (determine vis s cf att c o act) as [[status hits] o1|]; [|exact I].
  destruct (a_ammo a) as [am|].
  - destruct (am <? Z.of_nat (length hits)).
    + destruct (o_choice o1) as [|ch cs]; [exact I|].
      destruct ((Z.of_nat (length ch) =? am) && submultiset ch hits); [|exact I].
      eapply keeps_pos_trans; [|apply keeps_pos_apply_hits].
      apply keeps_pos_set_agent with a; auto.
    + eapply keeps_pos_trans; [|apply keeps_pos_apply_hits].
      apply keeps_pos_set_agent with a; auto.
  - apply keeps_pos_apply_hits.
Qed.

Lemma keeps_pos_arrival cf s s' : keeps_pos s s' -> arrival cf s s'.
Proof.
  intros K i _ H. unfold on_target, pos_of in *.
  destruct (agent s' i) as [a'|] eqn:Ha'; [|discriminate].
  destruct (agent s' (rc_target cf)) as [t'|] eqn:Ht'; [|discriminate].
  destruct (K i a' Ha') as (a & Ha & Pa & Aa). destruct (K _ t' Ht') as (t & Ht & Pt & _).
  rewrite Ha, Ht. apply andb_true_iff in H as [H1 H2]. rewrite <- Pa, <- Pt, (Aa H1), H2. auto.
Qed.

Lemma r_attack_one_arrival cf st ia : arrival cf (bs_grid st) (bs_grid (r_attack_one cf st ia)).
Proof.
  unfold r_attack_one. destruct (agent (bs_grid st) (fst ia)) as [a|]; [|apply arrival_refl].
  destruct (kind_of cf (fst ia)) as [k|]; [|apply arrival_refl].
  destruct (a_active a); [|apply arrival_refl]. destruct k as [|att|]; try apply arrival_refl.
  destruct (snd ia) as [d|l]; [apply arrival_refl|].
  pose proof (keeps_pos_attack vis_model (bs_grid st) att (fst ia) (bs_orc st) (ASelective l)) as H1.
  destruct (process_attack _ _ _ _ _ _); try apply arrival_refl.
  cbv zeta. destruct (snd _); apply keeps_pos_arrival, H1.
Qed.

Lemma target_done_spec cf g i : i <> rc_target cf ->
  target_done cf g i =
  match agent g i, agent g (rc_target cf) with
  | Some a, Some t => Some (Done.pos_eqb (a_pos a) (a_pos t))
  | _, _ => None
  end.
Proof.
  intros N. unfold target_done. apply Nat.eqb_neq in N. rewrite N.
  cbn [Done.get_done]. unfold Done.overlap_done, Done.target_of. cbn [Amap.am_get].
  rewrite Nat.eqb_refl. unfold to_pop, agent. rewrite !nth_error_map.
  destruct (nth_error (g_agents g) i); [|reflexivity].
  destruct (nth_error (g_agents g) (rc_target cf)); reflexivity.
Qed.

(* the second half of the second loop body, for an active runner i: everybody else is untouched;
   afterwards i is not an active agent on the target's cell, unless nothing happened because i has
   no position at all *)
Lemma reach_one_cases cf st i a :
  rinv (bs_grid st) -> agent (bs_grid st) i = Some a -> a_active a = true -> i <> rc_target cf ->
  (forall j, j <> i -> agent (bs_grid (reach_one cf st i)) j = agent (bs_grid st) j) /\
  (on_target cf (bs_grid (reach_one cf st i)) i = true ->
   bs_grid (reach_one cf st i) = bs_grid st /\ a_pos a = None).
Proof.
  intros G Ha Hact N. unfold reach_one. rewrite (target_done_spec cf _ i N), Ha.
  destruct (agent (bs_grid st) (rc_target cf)) as [t|] eqn:Ht.
  2:{ cbn [mark_bad bs_grid]. split; [reflexivity|]. unfold on_target. rewrite Ha, Ht. discriminate. }
  destruct (Done.pos_eqb (a_pos a) (a_pos t)) eqn:Ep.
  2:{ split; [reflexivity|]. unfold on_target. rewrite Ha, Ht, Ep, andb_false_r. discriminate. }
  destruct (a_pos a) as [q|] eqn:Hpos; [|cbn [mark_bad with_rew bs_grid]; auto].
  destruct (rinv_leave _ i a q G Ha Hact Hpos) as (g1 & R & _ & _). rewrite R.
  cbn [with_grid bs_grid]. split.
  - intros j Nj. rewrite agent_set_agent_other by exact Nj. unfold agent. rewrite (hb_remove _ _ _ _ R). reflexivity.
  - intros Hon. exfalso. unfold on_target in Hon. rewrite (agent_set_agent_same _ _ _ a) in Hon.
    + cbn [with_active a_active andb] in Hon.
      destruct (agent (set_agent g1 i (with_active a false)) (rc_target cf)); discriminate.
    + unfold agent. rewrite (hb_remove _ _ _ _ R). exact Ha.
Qed.

Lemma move_by_has_pos s i d :
  match move_by s i d with
  | MOk _ s' => exists a', agent s' i = Some a' /\ a_pos a' <> None
  | _ => True
  end.
Proof.
  unfold move_by. destruct (agent s i) as [a|] eqn:Ha; [|exact I].
  destruct (a_pos a) as [from|] eqn:Hpos; [|exact I].
  assert (Hs : exists a', agent s i = Some a' /\ a_pos a' <> None) by (exists a; rewrite Hpos; split; [exact Ha|discriminate]).
  destruct (inside s _); [|exact Hs]. destruct (cell_eqb _ from); [exact Hs|].
  destruct (Grid.query s i _); [|exact Hs]. destruct (Grid.remove s i from) as [s1|] eqn:R; [|exact I].
  assert (Ha1 : agent s1 i = Some a) by (unfold agent; rewrite (hb_remove _ _ _ _ R); exact Ha).
  unfold place. rewrite Ha1. destruct (Grid.query s1 i _); cbn [snd].
  - eexists. split; [apply agent_set_agent_same with a; rewrite agent_set_cells; exact Ha1|]. cbn. discriminate.
  - exists a. rewrite Hpos. split; [exact Ha1|discriminate].
Qed.

Lemma r_move_one_arrival cf st ia :
  rinv (bs_grid st) -> is_runner cf (rc_target cf) = false ->
  arrival cf (bs_grid st) (bs_grid (r_move_one cf st ia)).
Proof.
  intros G Ht. unfold r_move_one, r_move_gen.
  destruct (agent (bs_grid st) (fst ia)) as [a|] eqn:Ha; [|apply arrival_refl].
  destruct (kind_of cf (fst ia)) as [[|att|]|] eqn:Hk; try apply arrival_refl.
  destruct (a_active a) eqn:Hact; [|apply arrival_refl].
  set (j := fst ia) in *.
  assert (Nj : j <> rc_target cf).
  { intros E. unfold is_runner in Ht. rewrite <- E, Hk in Ht. discriminate. }
  (* the state after the move attempt: agent j is there and active, the others are untouched *)
  assert (Hmid : exists a1, agent (bs_grid (r_try_move st j (snd ia))) j = Some a1 /\ a_active a1 = true /\
            rinv (bs_grid (r_try_move st j (snd ia))) /\
            (forall k, k <> j -> agent (bs_grid (r_try_move st j (snd ia))) k = agent (bs_grid st) k) /\
            (a_pos a1 = None -> bs_grid (r_try_move st j (snd ia)) = bs_grid st)).
  { unfold r_try_move. destruct (snd ia) as [d|l]; [|exists a; cbn; auto].
    unfold move_free.
    pose proof (rinv_move (bs_grid st) j d G) as M1.
    pose proof (move_by_stays_active (bs_grid st) j d a Ha Hact) as M2.
    pose proof (move_by_frame (bs_grid st) j d) as M3.
    pose proof (move_by_has_pos (bs_grid st) j d) as M4.
    destruct (move_by (bs_grid st) j d) as [ok g'| | |]; try (exists a; cbn; solve [auto]).
    destruct M2 as (a1 & Ha1 & Hact1). destruct M4 as (a2 & Ha2 & Hp2).
    exists a1. cbn [with_grid bs_grid]. split; [exact Ha1|]. split; [exact Hact1|]. split; [exact M1|].
    split; [exact M3|]. intros E. assert (a2 = a1) by congruence. subst a2. contradiction. }
  destruct Hmid as (a1 & Ha1 & Hact1 & G1 & Hoth & Hnone).
  destruct (reach_one_cases cf (r_try_move st j (snd ia)) j a1 G1 Ha1 Hact1 Nj) as [Foth Fj].
  intros i Hr Hon. destruct (Nat.eq_dec i j) as [->|Ni].
  - destruct (Fj Hon) as [E1 E2]. rewrite E1, (Hnone E2) in Hon. rewrite E1, (Hnone E2). auto.
  - assert (Et : agent (bs_grid (reach_one cf (r_try_move st j (snd ia)) j)) (rc_target cf) =
                 agent (bs_grid st) (rc_target cf)).
    { rewrite Foth by (intros E; apply Nj; symmetry; exact E). apply Hoth. intros E. apply Nj. symmetry. exact E. }
    assert (Ei : agent (bs_grid (reach_one cf (r_try_move st j (snd ia)) j)) i = agent (bs_grid st) i).
    { rewrite Foth by exact Ni. apply Hoth, Ni. }
    unfold on_target, pos_of in *. rewrite Et, Ei in Hon. rewrite Ei. auto.
Qed.

(* the whole step: every action list, every state with the invariant *)
Theorem rs_step_arrival cf st acts :
  rinv (bs_grid st) -> is_runner cf (rc_target cf) = false ->
  arrival cf (bs_grid st) (bs_grid (rs_step cf st acts)).
Proof.
  intros G Ht. unfold rs_step.
  rewrite (fold_frame (r_entropy_one cf) bs_grid) by apply r_entropy_one_grid.
  assert (F : forall (f : rstate -> nat * ract -> rstate),
            (forall s x, rinv (bs_grid s) -> rinv (bs_grid (f s x)) /\ arrival cf (bs_grid s) (bs_grid (f s x))) ->
            forall l s, rinv (bs_grid s) ->
              rinv (bs_grid (fold_left f l s)) /\ arrival cf (bs_grid s) (bs_grid (fold_left f l s))).
  { intros f Hf l. induction l as [|x l IH]; intros s Gs; cbn [fold_left]; [split; [exact Gs|apply arrival_refl]|].
    destruct (Hf s x Gs) as [G1 A1]. destruct (IH _ G1) as [G2 A2].
    split; [exact G2|apply arrival_trans with (bs_grid (f s x)); assumption]. }
  destruct (F (r_attack_one cf)) with (l := acts) (s := st) as [G1 A1]; [|exact G|].
  { intros s x Gs. split; [apply (r_attack_one_P rinv rinv_attack), Gs|apply r_attack_one_arrival]. }
  destruct (F (r_move_one cf)) with (l := acts) (s := fold_left (r_attack_one cf) acts st) as [G2 A2]; [|exact G1|].
  { intros s x Gs. split; [apply (r_move_one_P rinv rinv_move_x rinv_leave_x), Gs|apply r_move_one_arrival; assumption]. }
  apply arrival_trans with (bs_grid (fold_left (r_attack_one cf) acts st)); assumption.
Qed.

(* hence: no active runner stands on the target's cell, once that is so *)
Definition clear (cf : rcfg) (g : gstate) : Prop := forall i, is_runner cf i = true -> on_target cf g i = false.
Definition rclear (cf : rcfg) (g : gstate) : Prop := rinv g /\ clear cf g.

Lemma arrival_clear cf g g' : arrival cf g g' -> clear cf g -> clear cf g'.
Proof.
  intros A C i Hr. destruct (on_target cf g' i) eqn:E; [|reflexivity].
  destruct (A i Hr E) as [E1 _]. rewrite (C i Hr) in E1. discriminate.
Qed.

Theorem rs_step_rclear cf : is_runner cf (rc_target cf) = false ->
  forall st acts, rclear cf (bs_grid st) -> rclear cf (bs_grid (rs_step cf st acts)).
Proof.
  intros Ht st acts [G C]. split; [apply rs_step_rinv, G|].
  apply (arrival_clear cf (bs_grid st)); [apply rs_step_arrival; assumption|exact C].
Qed.

Theorem reach_rclear_reachable cf k s0 cs :
  is_runner cf (rc_target cf) = false ->
  rclear cf (bs_grid s0) -> Forall (rclear cf) (bs_starts s0) ->
  rclear cf (bs_grid (m_sim (snd (run (reach_sim cf) k (init s0) cs)))) /\
  forall e, In e (trace (reach_sim cf) k (init s0) Fresh cs) ->
    rclear cf (bs_grid (m_sim (te_pre e))) /\ rclear cf (bs_grid (m_sim (te_post e))).
Proof.
  intros Ht H1 H2. assert (H : rs_invP (rclear cf) (m_sim (init s0))) by (split; assumption). split.
  - apply (r_run_invP cf (rclear cf) (rs_step_rclear cf Ht) k cs (init s0) H).
  - intros e He.
    destruct (r_trace_invP cf (rclear cf) (rs_step_rclear cf Ht) k cs (init s0) Fresh H e He) as [[A _] [B _]].
    auto.
Qed.

(* ---- the generic manager / trainer theorems, instantiated ----------------------------------------- *)
(* the configuration names its target: the agent listed at rc_target is the TargetAgent *)
Definition target_ok (cf : rcfg) : Prop := exists att, kind_of cf (rc_target cf) = Some (KTarget att).

Lemma target_not_runner cf : target_ok cf -> is_runner cf (rc_target cf) = false.
Proof. intros (att & E). unfold is_runner. rewrite E. reflexivity. Qed.

Lemma target_learning cf : target_ok cf -> is_learning cf (rc_target cf) = true.
Proof. intros (att & E). unfold is_learning. rewrite E. reflexivity. Qed.

Lemma runner_not_target cf i : target_ok cf -> is_runner cf i = true -> i <> rc_target cf.
Proof. intros T H E. rewrite E, (target_not_runner cf T) in H. discriminate. Qed.

Lemma reach_order_nonempty cf : target_ok cf -> order (reach_sim cf) <> [].
Proof.
  intros T E. pose proof (target_learning cf T) as Hl.
  assert (Hin : In (rc_target cf) (order (reach_sim cf))).
  { apply order_In_iff. split; [|exact Hl]. apply agents_In. cbn [reach_sim sim_n].
    destruct T as (att & Ek). unfold kind_of in Ek.
    destruct (nth_error (rc_agents cf) (rc_target cf)) eqn:En; [|discriminate].
    apply nth_error_Some. congruence. }
  rewrite E in Hin. destruct Hin.
Qed.

Theorem reach_done_once_turn cf s0 cs :
  in_protocol (trace (reach_sim cf) MTurn (init s0) Fresh cs) ->
  NoDup (ep_dones (trace (reach_sim cf) MTurn (init s0) Fresh cs) []).
Proof. apply once_turn, reach_done_stable. Qed.

Theorem reach_trainer_ok cf k : target_ok cf -> k = MAll \/ k = MTurn ->
  Trainer_proofs.tk k /\ Trainer_proofs.sim_ok (reach_sim cf) k.
Proof.
  intros T Hk. split; [unfold Trainer_proofs.tk; tauto|]. unfold Trainer_proofs.sim_ok.
  split; [intros _; apply reach_done_stable|]. split.
  - intros ->. destruct Hk; discriminate.
  - intros _. apply reach_order_nonempty, T.
Qed.

(* C16 over the reach-the-target simulation *)
Theorem reach_trainer_never_fails PS cf pmap (pol_act : PS -> nat -> list (list Z) -> ract * PS)
        pol_reset shuf h k m ps :
  target_ok cf -> k = MAll \/ k = MTurn ->
  er_status (generate_episode (reach_sim cf) pmap pol_act pol_reset shuf h k m ps) = EOk /\
  exists obs, er_reset (generate_episode (reach_sim cf) pmap pol_act pol_reset shuf h k m ps) = RObs obs.
Proof.
  intros T Hk. destruct (reach_trainer_ok cf k T Hk) as [Tk S].
  apply Trainer_proofs.never_fails; assumption.
Qed.

(* C08 over the reach-the-target simulation: an episode after reset does not depend on the manager's
   past, for every later call list *)
Theorem reach_episode_indistinguishable cf k m1 m2 cs :
  target_ok cf -> k <> MTurnPrefix ->
  rs_reset cf (m_sim m1) = rs_reset cf (m_sim m2) ->
  fst (run (reach_sim cf) k m1 (CReset :: cs)) = fst (run (reach_sim cf) k m2 (CReset :: cs)).
Proof.
  intros T Hk E. apply Reset_proofs.episode_indistinguishable; [exact Hk| |exact E].
  intros _. apply reach_order_nonempty, T.
Qed.

Theorem reach_steps_turn cf s0 cs :
  in_protocol (trace (reach_sim cf) MTurn (init s0) Fresh cs) ->
  forall e acts sh, In e (trace (reach_sim cf) MTurn (init s0) Fresh cs) -> te_call e = CStep acts sh ->
    match te_resp e with
    | ROut o =>
        wfo o /\ NoDup (keys o) /\ (forall a, In a (keys o) -> ~ In a (m_done (te_pre e))) /\
        ~ submits_done (m_done (te_pre e)) acts /\ incl (m_done (te_pre e)) (m_done (te_post e)) /\
        greach (reach_sim cf) (rs_step cf (m_sim (te_pre e)) acts) (m_sim (te_post e)) /\
        o_all o = rs_all cf (rs_step cf (m_sim (te_pre e)) acts)
                  || all_in (reach_sim cf) (m_done (te_post e)) /\
        (o_all o = false -> forall a, In (a, true) (o_done o) -> In a (m_done (te_post e)))
    | RObs _ => False
    | _ => te_post e = te_pre e
    end.
Proof.
  intros Hp e acts sh He Hc. pose proof (steps_ok_turn (reach_sim cf) s0 cs Hp e acts sh He Hc) as H.
  destruct (te_resp e); auto. destruct H as (H1 & H2 & H3 & H4 & H5 & H6 & H7 & H8).
  split; [exact H1|]. split; [exact H2|]. split; [exact H3|]. split; [exact H4|].
  split; [exact H5|]. split; [exact H6|]. split; [exact H7|]. apply H8, reach_done_stable.
Qed.

Theorem reach_invariants_turn cf s0 cs :
  rinv (bs_grid s0) -> Forall rinv (bs_starts s0) ->
  in_protocol (trace (reach_sim cf) MTurn (init s0) Fresh cs) ->
  forall e, In e (trace (reach_sim cf) MTurn (init s0) Fresh cs) ->
    (te_ph e = Live -> tinv (reach_sim cf) (te_pre e)) /\
    rinv (bs_grid (m_sim (te_pre e))) /\ rinv (bs_grid (m_sim (te_post e))) /\
    do_call (reach_sim cf) MTurn (te_pre e) (te_call e) = (te_resp e, te_post e).
Proof.
  intros G Gs Hp e He.
  destruct (hist_inv_turn (reach_sim cf) s0 cs Hp e He) as (_ & _ & T & D).
  destruct (proj2 (reach_rinv_reachable cf MTurn s0 cs G Gs) e He) as [A B]. auto.
Qed.

Theorem reach_invariants_all cf s0 cs :
  rinv (bs_grid s0) -> Forall rinv (bs_starts s0) ->
  in_protocol (trace (reach_sim cf) MAll (init s0) Fresh cs) ->
  forall e, In e (trace (reach_sim cf) MAll (init s0) Fresh cs) ->
    (te_ph e <> Fresh -> incl (nonlearning (reach_sim cf)) (m_done (te_pre e))) /\
    rinv (bs_grid (m_sim (te_pre e))) /\ rinv (bs_grid (m_sim (te_post e))) /\
    do_call (reach_sim cf) MAll (te_pre e) (te_call e) = (te_resp e, te_post e) /\
    NoDup (ep_dones (trace (reach_sim cf) MAll (init s0) Fresh cs) []).
Proof.
  intros G Gs Hp e He.
  destruct (hist_inv_all (reach_sim cf) s0 cs Hp e He) as (N & D).
  destruct (proj2 (reach_rinv_reachable cf MAll s0 cs G Gs) e He) as [A B].
  split; [exact N|]. split; [exact A|]. split; [exact B|]. split; [exact D|]. apply once_all, Hp.
Qed.

(* ---- manager o simulation: what a done flag reported for a runner says about the grid ------------ *)
Lemma rs_done_runner cf st i a t :
  is_runner cf i = true -> i <> rc_target cf ->
  agent (bs_grid st) i = Some a -> agent (bs_grid st) (rc_target cf) = Some t ->
  rs_done cf st i = negb (a_active a) || Done.pos_eqb (a_pos a) (a_pos t).
Proof.
  intros Hr N Ha Ht. unfold rs_done. unfold is_runner in Hr.
  destruct (kind_of cf i) as [[|att|]|]; try discriminate.
  rewrite (target_done_spec cf _ i N), Ha, Ht. cbn [Done.get_done ob].
  unfold Done.active_done, to_pop. unfold agent in Ha. rewrite nth_error_map, Ha. reflexivity.
Qed.

Lemma done_runner_absent cf g i a t b :
  is_runner cf i = true -> agent g i = Some a -> agent g (rc_target cf) = Some t ->
  b = negb (a_active a) || Done.pos_eqb (a_pos a) (a_pos t) -> b = true -> rclear cf g ->
  a_active a = false /\ forall p, ~ In i (cell_get (g_cells g) p).
Proof.
  intros Hr Ha Ht Eb Hb [G C].
  assert (Hin : a_active a = false).
  { specialize (C i Hr). unfold on_target in C. rewrite Ha, Ht in C.
    destruct (a_active a); [|reflexivity]. cbn in Eb, C. congruence. }
  split; [exact Hin|]. intros p Hp.
  destruct (rinv_readable g G) as (_ & H2 & _). destruct (H2 p i Hp) as (a' & Ha' & A & _). congruence.
Qed.

(* AllStepManager: the done entry of a runner in an accepted step is `not active or on the target's
   cell` in the grid the step leaves; a reported-done runner is inactive and in no cell *)
Theorem reach_all_done_entries cf m acts sh o m' :
  all_step (reach_sim cf) m acts sh = (ROut o, m') ->
  forall a b rec t, In (a, b) (o_done o) -> is_runner cf a = true -> a <> rc_target cf ->
    agent (bs_grid (m_sim m')) a = Some rec -> agent (bs_grid (m_sim m')) (rc_target cf) = Some t ->
    b = negb (a_active rec) || Done.pos_eqb (a_pos rec) (a_pos t) /\
    (b = true -> rclear cf (bs_grid (m_sim m')) ->
     a_active rec = false /\ forall p, ~ In a (cell_get (g_cells (bs_grid (m_sim m'))) p)).
Proof.
  intros H a b rec t Hin Hr N Hrec Ht.
  destruct (existsb (fun kv => memb (fst kv) (m_done m)) acts) eqn:E.
  - rewrite (all_step_reject (reach_sim cf) m acts sh E) in H. discriminate.
  - destruct (all_step_accept (reach_sim cf) m acts sh E) as (o1 & m1 & E1 & _ & _ & _ & _ & _ & Hd).
    rewrite E1 in H. injection H as <- <-. rewrite Hd in Hin. apply in_map_iff in Hin.
    destruct Hin as (a' & Ea & _). injection Ea as <- <-.
    cbn [reach_sim sim_done]. pose proof (rs_done_runner cf _ _ rec t Hr N Hrec Ht) as Ed.
    split; [exact Ed|]. intros Hb C. apply (done_runner_absent cf _ _ rec t _ Hr Hrec Ht Ed Hb C).
Qed.

(* TurnBasedManager, simulation not finished: the same for every entry the turn search reports *)
Theorem reach_turn_done_entries cf m acts o m' :
  tinv (reach_sim cf) m -> turn_step (reach_sim cf) m acts = (ROut o, m') ->
  rs_all cf (rs_step cf (m_sim m) acts) = false ->
  forall a b rec t, In (a, b) (o_done o) -> is_runner cf a = true -> a <> rc_target cf ->
    agent (bs_grid (m_sim m')) a = Some rec -> agent (bs_grid (m_sim m')) (rc_target cf) = Some t ->
    b = negb (a_active rec) || Done.pos_eqb (a_pos rec) (a_pos t) /\
    (b = true -> rclear cf (bs_grid (m_sim m')) ->
     a_active rec = false /\ forall p, ~ In a (cell_get (g_cells (bs_grid (m_sim m'))) p)).
Proof.
  intros T H Hall a b rec t Hin Hr N Hrec Ht.
  destruct (turn_step_cases (reach_sim cf) m acts T) as [[_ E]|[[_ E]|(_ & _ & o1 & m1 & E & B & _)]];
    rewrite E in H; try discriminate. injection H as <- <-.
  assert (Hb : b = rs_done cf (m_sim m1) a).
  { destruct B as [Ha|ks Hs SP]; [cbn [reach_sim sim_all sim_step] in Ha; congruence|].
    destruct (sp_entries _ _ _ _ _ _ _ _ _ SP) as (dl & Ed & _ & Hv & _).
    cbn [empty_out o_done app] in Ed. rewrite Ed in Hin.
    rewrite (Hv (reach_done_stable cf) a b Hin).
    symmetry. apply (reach_done_stable cf _ _ a (sp_greach _ _ _ _ _ _ _ _ _ SP)). }
  rewrite (rs_done_runner cf _ _ rec t Hr N Hrec Ht) in Hb. split; [exact Hb|].
  intros Hb1 C. apply (done_runner_absent cf _ _ rec t _ Hr Hrec Ht Hb Hb1 C).
Qed.

(* ---- the checker accepts the model's records ------------------------------------------------------- *)
(* the relaxed invariant, every active agent placed, and the dimensions / table of the grid *)
Definition rgood (rows cols : Z) (ov : otable) (g : gstate) : Prop :=
  rinv g /\ all_placed g /\ dims rows cols ov g.

Lemma rgood_srel rows cols ov s s' : srel s s' -> rinv s' -> rgood rows cols ov s -> rgood rows cols ov s'.
Proof.
  intros R G' (_ & Pl & D1 & D2 & D3). split; [exact G'|]. split.
  - apply all_placed_posd. apply (posd_srel s s' R). apply all_placed_posd, Pl.
  - destruct R as (R1 & R2 & R3 & _). unfold dims. repeat split; congruence.
Qed.

Lemma rgood_attack rows cols ov vis s cf att o act : rgood rows cols ov s ->
  match process_attack vis s cf att o act with POk _ _ s' _ => rgood rows cols ov s' | _ => True end.
Proof.
  intros H. pose proof (rinv_attack vis s cf att o act (proj1 H)) as G.
  pose proof (srel_process_attack vis s cf att o act) as R.
  destruct (process_attack vis s cf att o act); [|exact I|exact I].
  apply (rgood_srel rows cols ov s s0 R G H).
Qed.

Lemma rgood_move rows cols ov s i d : rgood rows cols ov s ->
  match move_by s i d with MOk _ s' => rgood rows cols ov s' | _ => True end.
Proof.
  intros H. pose proof (rinv_move s i d (proj1 H)) as G. pose proof (srel_move_by s i d) as R.
  destruct (move_by s i d); [|exact I|exact I|exact I].
  apply (rgood_srel rows cols ov s s0 R G H).
Qed.

Lemma rgood_leave rows cols ov s i a q g1 : rgood rows cols ov s -> agent s i = Some a ->
  a_active a = true -> a_pos a = Some q -> Grid.remove s i q = Some g1 ->
  rgood rows cols ov (set_agent g1 i (with_active a false)).
Proof.
  intros H Ha Hact Hpos R. apply (rgood_srel rows cols ov s); [|apply (rinv_leave_x s i a q g1 (proj1 H) Ha Hact Hpos R)|exact H].
  apply srel_trans with g1; [apply (srel_remove _ _ _ _ R)|].
  apply srel_set_agent with a; [unfold agent; rewrite (hb_remove _ _ _ _ R); exact Ha|].
  unfold arel, with_active. cbn. repeat split; auto; try tauto; try discriminate.
Qed.

Theorem rs_step_rgood rows cols ov cf st acts :
  rgood rows cols ov (bs_grid st) -> rgood rows cols ov (bs_grid (rs_step cf st acts)).
Proof.
  apply (rs_step_P (rgood rows cols ov) (rgood_attack rows cols ov) (rgood_move rows cols ov)
                   (rgood_leave rows cols ov)).
Qed.

Lemma all_placed_zh s : all_placed s -> all_placed (zh s).
Proof.
  intros H a' Hin Hact. cbn [zh g_agents] in Hin. apply in_map_iff in Hin as (a & <- & Hin).
  rewrite zha_active in Hact. rewrite zha_pos. apply (H a Hin Hact).
Qed.

Theorem rinvb_complete s : rinv s -> all_placed s -> rinvb s = 0.
Proof.
  intros [G H] Pl. unfold rinvb.
  assert (E : forallb hb_b (g_agents s) = true).
  { apply forallb_forall. intros a Ha. rewrite Forall_forall in H. destruct (H a Ha) as [H1 H2].
    unfold hb_b. apply andb_true_iff. split; apply Z.leb_le; assumption. }
  rewrite E. cbn [negb]. apply ginvb_complete; [exact G|apply all_placed_zh, Pl].
Qed.

Lemma rinvb_sim s1 s2 : sim s1 s2 -> rinvb s1 = rinvb s2.
Proof.
  intros [(E1 & E2 & E3 & E4) Hc]. unfold rinvb. rewrite E4.
  destruct (negb (forallb hb_b (g_agents s2))); [reflexivity|]. apply ginvb_sim.
  split; [unfold hdr; cbn [zh g_rows g_cols g_ov g_agents]; rewrite E4; auto|].
  intros p Hp. cbn [zh g_cells]. apply Hc. exact Hp.
Qed.

Lemma on_target_agents cf g1 g2 i : g_agents g1 = g_agents g2 -> on_target cf g1 i = on_target cf g2 i.
Proof. intros E. unfold on_target, agent. rewrite E. reflexivity. Qed.

Lemma forallb_ext' {X} (f g : X -> bool) l : (forall x, f x = g x) -> forallb f l = forallb g l.
Proof. intros H. induction l as [|x l IH]; cbn; [reflexivity|]. rewrite H, IH. reflexivity. Qed.

Lemma arrival_okb_agents cf g1 g1' g2 g2' : g_agents g1 = g_agents g1' -> g_agents g2 = g_agents g2' ->
  arrival_okb cf g1 g2 = arrival_okb cf g1' g2'.
Proof.
  intros E1 E2. unfold arrival_okb. rewrite E2. apply forallb_ext'. intros i.
  rewrite (on_target_agents cf g2 g2' i E2), (on_target_agents cf g1 g1' i E1).
  unfold pos_of, agent. rewrite E1, E2. reflexivity.
Qed.

Lemma optcell_eqb_refl p : optcell_eqb p p = true.
Proof. destruct p as [q|]; [apply cell_eqb_refl|reflexivity]. Qed.

Lemma arrival_okb_complete cf g g' : arrival cf g g' -> arrival_okb cf g g' = true.
Proof.
  intros A. unfold arrival_okb. apply forallb_forall. intros i _.
  destruct (is_runner cf i) eqn:Hr; [|reflexivity]. destruct (on_target cf g' i) eqn:Hon; [|reflexivity].
  destruct (A i Hr Hon) as [H1 H2]. rewrite H1, H2, optcell_eqb_refl. reflexivity.
Qed.

(* a step call of the two managers of the wire: the simulation is left alone or stepped once *)
Lemma r_step_call_reach cf k m acts sh r m' : k = MAll \/ k = MTurn ->
  do_call (reach_sim cf) k m (CStep acts sh) = (r, m') ->
  m_sim m' = m_sim m \/ exists l, greach (reach_sim cf) (rs_step cf (m_sim m) l) (m_sim m').
Proof.
  intros [->| ->] H; cbn [do_call] in H.
  - destruct (existsb (fun kv => memb (fst kv) (m_done m)) acts) eqn:E.
    + rewrite (all_step_reject (reach_sim cf) m acts sh E) in H. injection H as <- <-. left. reflexivity.
    + destruct (all_step_accept (reach_sim cf) m acts sh E) as (o1 & m1 & E1 & _ & _ & G & _).
      rewrite E1 in H. injection H as <- <-. right. eexists. exact G.
  - unfold turn_step, turn_step_gen in H. destruct acts as [|[a0 v0] acts'].
    + injection H as <- <-. left. reflexivity.
    + destruct (existsb _ _); [injection H as <- <-; left; reflexivity|].
      destruct (sim_all _ _).
      * destruct (flush _ _ _ _ _) as [o s2] eqn:Ef.
        destruct (flush_branch _ _ _ _ _ Ef) as (_ & _ & _ & G).
        injection H as <- <-. right. eexists. exact G.
      * destruct (turn_search _ _ _ _ _ _) as [o s2 d p|] eqn:Es; injection H as <- <-.
        -- right. eexists. apply (turn_search_greach _ _ _ _ _ _ _ _ _ _ Es).
        -- left. reflexivity.
Qed.

Lemma r_step_call_arrival cf k m acts sh r m' : is_runner cf (rc_target cf) = false ->
  k = MAll \/ k = MTurn -> rinv (bs_grid (m_sim m)) ->
  do_call (reach_sim cf) k m (CStep acts sh) = (r, m') ->
  arrival cf (bs_grid (m_sim m)) (bs_grid (m_sim m')).
Proof.
  intros Ht Hk G H. destruct (r_step_call_reach cf k m acts sh r m' Hk H) as [E|[l Q]].
  - rewrite E. apply arrival_refl.
  - destruct (r_greach_frame cf _ _ Q) as [E _]. rewrite E. apply rs_step_arrival; assumption.
Qed.

Lemma chk_reach_recs_ok cf rows cols ov k : is_runner cf (rc_target cf) = false -> k = MAll \/ k = MTurn ->
  forall cs m prev, rs_invP (rgood rows cols ov) (m_sim m) -> g_agents prev = g_agents (bs_grid (m_sim m)) ->
  chk_reach_recs cf rows cols ov prev cs (map enc_record (fst (rrun_snap (reach_sim cf) k m cs))) = 0.
Proof.
  intros Ht Hk. induction cs as [|c cs IH]; intros m prev H Ep; cbn [rrun_snap]; [reflexivity|].
  destruct (do_call (reach_sim cf) k m c) as [r m1] eqn:E.
  pose proof (r_do_call_invP cf (rgood rows cols ov) (rs_step_rgood rows cols ov cf) k m c r m1 E H) as H1.
  specialize (IH m1). destruct (rrun_snap (reach_sim cf) k m1 cs) as [rs m2]. cbn [fst map enc_record snd] in *.
  cbn [chk_reach_recs]. unfold enc_record at 1. cbn [fst snd]. destruct H1 as [(G1 & Pl1 & D1) Hs1].
  destruct (dec_start_enc rows cols ov (bs_grid (m_sim m1)) D1) as (sh & -> & S).
  rewrite (rinvb_sim _ _ S), (rinvb_complete _ G1 Pl1). cbn [Z.eqb negb].
  assert (Ea : g_agents sh = g_agents (bs_grid (m_sim m1))) by (destruct S as [(_ & _ & _ & Ea) _]; exact Ea).
  assert (Hc : match c with CStep _ _ => negb (arrival_okb cf prev sh) | CReset => false end = false).
  { destruct c as [|acts shf]; [reflexivity|].
    rewrite (arrival_okb_agents cf prev (bs_grid (m_sim m)) sh (bs_grid (m_sim m1)) Ep Ea).
    rewrite arrival_okb_complete; [reflexivity|].
    apply (r_step_call_arrival cf k m acts shf r m1 Ht Hk (proj1 (proj1 H)) E). }
  rewrite Hc. apply IH; [split; [split; [exact G1|split; assumption]|exact Hs1]|exact Ea].
Qed.

Lemma rinv_empty rows cols ov : NoDup (map fst ov) -> rinv (empty_grid rows cols ov []).
Proof.
  intros Hnd. split; [|constructor].
  change (zh (empty_grid rows cols ov [])) with (empty_grid rows cols ov []).
  apply ginv_empty; [intros a b; apply overlap_symmetric, Hnd|constructor|constructor].
Qed.

(* the wire-level statement: on every decodable input whose table has distinct keys, whose
   configuration does not list the target as a runner, whose recorded start states satisfy the
   relaxed invariant with every active agent placed, and on which the oracle streams were
   admissible (flag not raised), the extracted checker answers 1 on the extracted model's own
   output *)
Theorem run_chk_reach_model xin i :
  dec_reach xin = Some i -> NoDup (map fst (ri_ov i)) ->
  is_runner (ri_cfg i) (rc_target (ri_cfg i)) = false ->
  Forall (fun g => rinv g /\ all_placed g) (bs_starts (ri_init i)) ->
  bs_bad (m_sim (snd (reach_records reach_sim i))) = false ->
  run_chk_reach (L [xin; run_reach xin]) = A 1.
Proof.
  intros E Hnd Ht Hst Hbad. unfold run_chk_reach, run_reach, run_reach_gen. rewrite E.
  assert (Hgood : rs_invP (rgood (ri_rows i) (ri_cols i) (ri_ov i)) (ri_init i) /\
                  (ri_kind i = MAll \/ ri_kind i = MTurn)).
  { unfold dec_reach in E.
    destruct xin as [z|l]; [discriminate|].
    destruct l as [|[rows|?] l]; try discriminate. destruct l as [|[cols|?] l]; try discriminate.
    destruct l as [|xov l]; try discriminate. destruct l as [|xcf l]; try discriminate.
    destruct l as [|[?|sts] l]; try discriminate. destruct l as [|us l]; try discriminate.
    destruct l as [|[?|chs] l]; try discriminate. destruct l as [|ocs l]; try discriminate.
    destruct l as [|[kind|?] l]; try discriminate. destruct l as [|[?|cs] l]; try discriminate.
    destruct l; [|discriminate].
    destruct (dec_ov xov) as [ov'|]; [|discriminate].
    destruct (dec_rcfg xcf) as [cf'|]; [|discriminate].
    destruct (all_some (map (dec_start rows cols ov') sts)) as [sts'|] eqn:Es; [|discriminate].
    destruct (sxZs us) as [us'|]; [|discriminate].
    destruct (all_some (map sxNats chs)) as [chs'|]; [|discriminate].
    destruct (sxZs ocs) as [ocs'|]; [|discriminate].
    destruct (all_some (map dec_rcall cs)) as [cs'|]; [|discriminate].
    destruct ((rows <=? 0) || (cols <=? 0) || negb ((kind =? 0) || (kind =? 1))); [discriminate|].
    injection E as <-. cbn [ri_rows ri_cols ri_ov ri_init ri_cfg ri_kind] in *.
    split; [|destruct (kind =? 0); auto].
    split; cbn [bs_init bs_grid bs_starts] in *.
    - split; [apply rinv_empty, Hnd|]. split; [intros a []|]. unfold dims. cbn. auto.
    - pose proof (all_some_Forall (dec_start rows cols ov') (dims rows cols ov')
                                  (dec_start_dims rows cols ov') sts sts' Es) as Hd.
      rewrite Forall_forall in *. intros g Hg.
      destruct (Hst g Hg) as [G Pl]. split; [exact G|]. split; [exact Pl|apply Hd, Hg]. }
  destruct Hgood as [Hgood Hk].
  pose proof (chk_reach_recs_ok (ri_cfg i) (ri_rows i) (ri_cols i) (ri_ov i) (ri_kind i) Ht Hk
                                (ri_calls i) (init (ri_init i)) (bs_grid (ri_init i)) Hgood eq_refl) as Hrs.
  unfold reach_records in *.
  destruct (rrun_snap (reach_sim (ri_cfg i)) (ri_kind i) (init (ri_init i)) (ri_calls i)) as [rs m].
  cbn [fst snd] in *. rewrite Hbad. cbn [ofB]. cbn [Z.eqb negb]. rewrite Hrs. reflexivity.
Qed.

(* ---- non-vacuity: 3x3, barrier (0,0), runners at (1,0), (2,2), (0,1), target at (1,1) --------------
   one all-step step: runner 1 steps onto the target (+1, removed, inactive, health 1), runner 2 is shot
   dead by the target (-1 / +1), runner 3 walks into the barrier (-0.1), every runner pays 0.01 *)
Definition r3_ag (e : Z) (p : cell) (bl : bool) : arec :=
  {| a_enc := e; a_pos := Some p; a_health := HD; a_active := true; a_ammo := None;
     a_orient := None; a_blocking := bl |}.
Definition r3_start : gstate :=
  init_state 3 3 [(2, [3])] [r3_ag 1 (0, 0) true; r3_ag 3 (1, 0) false; r3_ag 3 (2, 2) false;
                             r3_ag 3 (0, 1) false; r3_ag 2 (1, 1) false].
Definition r3_att : acfg :=
  {| c_range := 1; c_strength := HD; c_accuracy := HD; c_simul := 1; c_mapping := [3]; c_stacked := false |}.
Definition r3_cf : rcfg :=
  {| rc_agents := [{| r_kind := KBarrier; r_view := 0 |}; {| r_kind := KRunner; r_view := 0 |};
                   {| r_kind := KRunner; r_view := 0 |}; {| r_kind := KRunner; r_view := 0 |};
                   {| r_kind := KTarget r3_att; r_view := 1 |}];
     rc_target := 4; rc_self := true |}.
Definition r3_acts : list (nat * ract) :=
  [(1%nat, RMove (0, 1)); (2%nat, RMove (0, 0)); (3%nat, RMove (0, -1));
   (4%nat, RAttack [0; 0; 0; 0; 0; 0; 0; 0; 1])].
Definition r3_s0 : rstate :=
  bs_init 3 3 [(2, [3])] [r3_start] {| o_unif := [0]; o_choice := [[2%nat]] |}
          [3; 3; 3; 1; 3; 3; 2; 3; 2; 3; 1; 3; 2].

Definition r3_out : list bresp :=
  [RObs [(1%nat, [[3]]); (2%nat, [[3]]); (3%nat, [[3]]); (4%nat, [[1; 3; 0]; [3; 2; 0]; [0; 0; 3]])];
   ROut {| o_obs := [(1%nat, [[2]]); (2%nat, [[0]]); (3%nat, [[3]]); (4%nat, [[1; 3; 0]; [0; 2; 0]; [0; 0; 0]])];
           o_rew := [(1%nat, 99); (2%nat, -101); (3%nat, -11); (4%nat, 100)];
           o_done := [(1%nat, true); (2%nat, true); (3%nat, false); (4%nat, false)];
           o_info := [(1%nat, tt); (2%nat, tt); (3%nat, tt); (4%nat, tt)]; o_all := false |}].

Lemma ov23_nodup : NoDup (map fst [(2, [3])]).
Proof. cbn. constructor; [intros []|constructor]. Qed.

Lemma start_rgood ags : zh (init_state 3 3 [(2, [3])] ags) = init_state 3 3 [(2, [3])] ags ->
  forallb vitals_okb ags = true -> forallb a_active ags = true ->
  forallb (fun a => match a_pos a with
                    | Some q => (0 <=? fst q) && (fst q <? 3) && (0 <=? snd q) && (snd q <? 3)
                    | None => true end) ags = true ->
  forallb hb_b (g_agents (init_state 3 3 [(2, [3])] ags)) = true ->
  forallb (fun a => negb (a_active a) || match a_pos a with Some _ => true | None => false end)
          (g_agents (init_state 3 3 [(2, [3])] ags)) = true ->
  dims 3 3 [(2, [3])] (init_state 3 3 [(2, [3])] ags) ->
  rgood 3 3 [(2, [3])] (init_state 3 3 [(2, [3])] ags).
Proof.
  intros Ez Hv Ha Hp Hh Hpl Hd. split; [split|split].
  - rewrite Ez. apply init_state_inv.
    + intros a b. apply overlap_symmetric, ov23_nodup.
    + apply (forallb_Forall vitals_okb); [exact vitals_okb_ok|exact Hv].
    + apply (forallb_Forall a_active); [auto|exact Ha].
    + apply (forallb_Forall (fun a => match a_pos a with
                                      | Some q => (0 <=? fst q) && (fst q <? 3) && (0 <=? snd q) && (snd q <? 3)
                                      | None => true end)); [|exact Hp].
      intros x. destruct (a_pos x); auto.
  - apply (forallb_Forall hb_b); [|exact Hh]. intros a H. unfold hb_b in H.
    apply andb_true_iff in H as [H1 H2]. apply Z.leb_le in H1, H2. split; assumption.
  - apply all_placed_b. exact Hpl.
  - exact Hd.
Qed.

Lemma r3_start_rgood : rgood 3 3 [(2, [3])] r3_start.
Proof. apply start_rgood; try (vm_compute; reflexivity). unfold dims. repeat split; reflexivity. Qed.

Lemma r3_nonvacuous :
  rs_invP (rgood 3 3 [(2, [3])]) r3_s0 /\ target_ok r3_cf /\ clear r3_cf r3_start /\
  (let r := rrun_snap (reach_sim r3_cf) MAll (init r3_s0) [CReset; CStep r3_acts r3_acts] in
   in_protocol (trace (reach_sim r3_cf) MAll (init r3_s0) Fresh [CReset; CStep r3_acts r3_acts]) /\
   map fst (fst r) = r3_out /\ bs_bad (m_sim (snd r)) = false /\ m_done (snd r) = [0%nat; 1%nat; 2%nat] /\
   map (fun rg => rinvb (snd rg)) (fst r) = [0; 0] /\
   (* runner 1: inactive, health 1, in no cell; the target's cell holds the target only *)
   option_map (fun a => (a_active a, a_health a, a_pos a)) (agent (bs_grid (m_sim (snd r))) 1) =
     Some (false, HD, Some (1, 1)) /\
   cell_get (g_cells (bs_grid (m_sim (snd r)))) (1, 1) = [4%nat] /\
   (* runner 2: dead, in no cell *)
   option_map (fun a => (a_active a, a_health a)) (agent (bs_grid (m_sim (snd r))) 2) = Some (false, 0) /\
   cell_get (g_cells (bs_grid (m_sim (snd r)))) (2, 2) = [] /\
   (* runner 3: still where it was *)
   cell_get (g_cells (bs_grid (m_sim (snd r)))) (0, 1) = [3%nat]).
Proof.
  split; [|split; [|split]].
  - split; [|constructor; [exact r3_start_rgood|constructor]]. cbn [r3_s0 bs_init bs_grid].
    split; [apply rinv_empty, ov23_nodup|]. split; [intros a []|]. unfold dims. cbn. auto.
  - exists r3_att. reflexivity.
  - intros i Hr. do 5 (destruct i as [|i]; [vm_compute in Hr |- *; try reflexivity; discriminate|]).
    destruct i; vm_compute in Hr; discriminate.
  - cbv zeta. split; [apply in_protocolb_ok; vm_compute; reflexivity|]. vm_compute. repeat split; reflexivity.
Qed.

(* ---- the tree as found (findings/C02-reach-dead-runner): a runner on the target's cell, shot dead in
   the first loop, is handled as "reached the target" in the second: Grid.remove raises KeyError ------ *)
Definition f_start : gstate := init_state 3 3 [(2, [3])] [r3_ag 3 (1, 1) false; r3_ag 2 (1, 1) false].
Definition f_cf : rcfg :=
  {| rc_agents := [{| r_kind := KRunner; r_view := 0 |}; {| r_kind := KTarget r3_att; r_view := 1 |}];
     rc_target := 1; rc_self := true |}.
Definition f_acts : list (nat * ract) :=
  [(0%nat, RMove (0, 0)); (1%nat, RAttack [0; 0; 0; 0; 1; 0; 0; 0; 0])].
Definition f_s0 : rstate :=
  bs_init 3 3 [(2, [3])] [f_start] {| o_unif := [0]; o_choice := [[0%nat]] |} [3; 2; 2; 2].

Lemma f_start_rgood : rgood 3 3 [(2, [3])] f_start.
Proof. apply start_rgood; try (vm_compute; reflexivity). unfold dims. repeat split; reflexivity. Qed.

Theorem dead_runner_prefix_refuted :
  exists cf s0 acts,
    target_ok cf /\ rs_invP (rgood 3 3 [(2, [3])]) s0 /\ bs_bad s0 = false /\
    in_protocol (trace (reach_sim cf) MAll (init s0) Fresh [CReset; CStep acts acts]) /\
    (* under the all-step manager, first step after reset: the model of the code as found flags the
       step (the KeyError of Grid.remove) ... *)
    bs_bad (m_sim (snd (run (reach_sim_prefix cf) MAll (init s0) [CReset; CStep acts acts]))) = true /\
    (* ... the repaired step does not: the runner is dead (-1 -0.01), the target got its +1 *)
    bs_bad (m_sim (snd (run (reach_sim cf) MAll (init s0) [CReset; CStep acts acts]))) = false /\
    fst (run (reach_sim cf) MAll (init s0) [CReset; CStep acts acts]) =
      [RObs [(0%nat, [[3]]); (1%nat, [[0; 0; 0]; [0; 2; 0]; [0; 0; 0]])];
       ROut {| o_obs := [(0%nat, [[2]]); (1%nat, [[0; 0; 0]; [0; 2; 0]; [0; 0; 0]])];
               o_rew := [(0%nat, -101); (1%nat, 100)]; o_done := [(0%nat, true); (1%nat, true)];
               o_info := [(0%nat, tt); (1%nat, tt)]; o_all := true |}].
Proof.
  exists f_cf, f_s0, f_acts. split; [exists r3_att; reflexivity|]. split.
  { split; [|constructor; [exact f_start_rgood|constructor]]. cbn [f_s0 bs_init bs_grid].
    split; [apply rinv_empty, ov23_nodup|]. split; [intros a []|]. unfold dims. cbn. auto. }
  split; [reflexivity|]. split; [apply in_protocolb_ok; vm_compute; reflexivity|].
  vm_compute. repeat split; reflexivity.
Qed.
