(* Proofs about the shared overlap model (Grid/Overlap.v): what the symmetric closure built by
   the Grid.overlapping setter allows, and what Grid.query answers. *)
From Coq Require Import ZArith List Bool Lia.
From Abm Require Import Grid.Overlap.
Import ListNotations.
Open Scope Z_scope.

Lemma memZ_cons : forall x y l, memZ x (y :: l) = (x =? y) || memZ x l.
Proof. reflexivity. Qed.

Lemma memZ_app : forall x l m, memZ x (l ++ m) = memZ x l || memZ x m.
Proof. intros x l m. unfold memZ. apply existsb_app. Qed.

Lemma memZ_set_add : forall b v s, memZ b (set_add v s) = memZ b s || (b =? v).
Proof.
  intros b v s. unfold set_add. destruct (memZ v s) eqn:Hv.
  - destruct (Z.eqb_spec b v) as [->|Hne].
    + rewrite Hv. reflexivity.
    + rewrite orb_false_r. reflexivity.
  - rewrite memZ_app. simpl. rewrite orb_false_r. reflexivity.
Qed.

Lemma memZ_In : forall x l, memZ x l = true <-> In x l.
Proof.
  intros x l. unfold memZ. rewrite existsb_exists. split.
  - intros (y & Hy & He). apply Z.eqb_eq in He. subst. exact Hy.
  - intros H. exists x. split; [exact H | apply Z.eqb_refl].
Qed.

(* one edge added: exactly the pair (k, v) becomes allowed in addition *)
Lemma allowed_add_edge : forall t k v a b,
  ov_allowed (ov_add_edge t k v) a b = ov_allowed t a b || ((a =? k) && (b =? v)).
Proof.
  unfold ov_allowed. induction t as [|[k' s] t IH]; intros k v a b.
  - simpl. destruct (a =? k); simpl.
    + rewrite orb_false_r. reflexivity.
    + reflexivity.
  - simpl. destruct (Z.eqb_spec k k') as [->|Hkk'].
    + simpl. destruct (Z.eqb_spec a k') as [->|Hak'].
      * rewrite memZ_set_add. reflexivity.
      * simpl. rewrite orb_false_r. reflexivity.
    + simpl. destruct (Z.eqb_spec a k') as [->|Hak'].
      * destruct (Z.eqb_spec k' k) as [E|_]; [congruence|]. simpl.
        rewrite orb_false_r. reflexivity.
      * apply IH.
Qed.

Lemma allowed_inner : forall s sym k a b,
  ov_allowed (fold_left (fun sym' o => ov_add_edge sym' o k) s sym) a b
  = ov_allowed sym a b || (memZ a s && (b =? k)).
Proof.
  induction s as [|o s IH]; intros sym k a b.
  - simpl. rewrite orb_false_r. reflexivity.
  - simpl fold_left. rewrite IH, allowed_add_edge, memZ_cons.
    destruct (ov_allowed sym a b), (a =? o), (b =? k), (memZ a s); reflexivity.
Qed.

(* b's entry (some entry, in general) lists a *)
Definition rev_edge (t : otable) (a b : Z) : bool :=
  existsb (fun kv => memZ a (snd kv) && (b =? fst kv)) t.

Lemma allowed_outer : forall l sym a b,
  ov_allowed
    (fold_left (fun sym kv => fold_left (fun sym' o => ov_add_edge sym' o (fst kv)) (snd kv) sym)
               l sym) a b
  = ov_allowed sym a b || rev_edge l a b.
Proof.
  induction l as [|kv l IH]; intros sym a b.
  - simpl. rewrite orb_false_r. reflexivity.
  - simpl fold_left. rewrite IH, allowed_inner. unfold rev_edge. simpl.
    rewrite orb_assoc. reflexivity.
Qed.

(* what the symmetrised table allows, for every table *)
Lemma allowed_symmetrise_gen : forall t a b,
  ov_allowed (ov_symmetrise t) a b = ov_allowed t a b || rev_edge t a b.
Proof. intros. unfold ov_symmetrise. apply allowed_outer. Qed.

Lemma rev_edge_notin : forall t a b, ~ In b (map fst t) -> rev_edge t a b = false.
Proof.
  induction t as [|[k s] t IH]; intros a b Hn; [reflexivity|].
  unfold rev_edge. simpl. simpl in Hn.
  destruct (Z.eqb_spec b k) as [->|Hne].
  - exfalso. apply Hn. left. reflexivity.
  - rewrite andb_false_r. simpl. apply IH. intro H. apply Hn. right. exact H.
Qed.

(* a Python dict has distinct keys: then "some entry of b lists a" is "b's entry lists a" *)
Lemma rev_edge_allowed : forall t a b,
  NoDup (map fst t) -> rev_edge t a b = ov_allowed t b a.
Proof.
  induction t as [|[k s] t IH]; intros a b Hnd; [reflexivity|].
  simpl in Hnd. inversion Hnd as [|x l Hnin Hnd' E]; subst.
  unfold rev_edge, ov_allowed. simpl.
  destruct (Z.eqb_spec b k) as [->|Hne].
  - rewrite andb_true_r.
    fold (rev_edge t a k). rewrite (rev_edge_notin t a k Hnin), orb_false_r. reflexivity.
  - rewrite andb_false_r. simpl. apply IH. exact Hnd'.
Qed.

Lemma allowed_symmetrise : forall t a b,
  NoDup (map fst t) ->
  ov_allowed (ov_symmetrise t) a b = ov_allowed t a b || ov_allowed t b a.
Proof. intros t a b H. rewrite allowed_symmetrise_gen, rev_edge_allowed by exact H. reflexivity. Qed.

Lemma overlap_symmetric : forall t a b,
  NoDup (map fst t) ->
  ov_allowed (ov_symmetrise t) a b = ov_allowed (ov_symmetrise t) b a.
Proof. intros t a b H. rewrite !allowed_symmetrise by exact H. apply orb_comm. Qed.

Lemma symmetrise_extends : forall t a b,
  ov_allowed t a b = true -> ov_allowed (ov_symmetrise t) a b = true.
Proof. intros t a b H. rewrite allowed_symmetrise_gen, H. reflexivity. Qed.

Lemma symmetrise_minimal : forall t a b,
  NoDup (map fst t) ->
  ov_allowed (ov_symmetrise t) a b = true -> ov_allowed t a b = true \/ ov_allowed t b a = true.
Proof. intros t a b Hnd H. rewrite allowed_symmetrise in H by exact Hnd. apply orb_prop in H. exact H. Qed.

(* without the distinct-keys reading: only reverse edges of entries of the table are added *)
Lemma symmetrise_minimal_gen : forall t a b,
  ov_allowed (ov_symmetrise t) a b = true ->
  ov_allowed t a b = true \/ exists s, In (b, s) t /\ In a s.
Proof.
  intros t a b H. rewrite allowed_symmetrise_gen in H. apply orb_prop in H.
  destruct H as [H|H]; [left; exact H|right].
  unfold rev_edge in H. apply existsb_exists in H. destruct H as ([k s] & Hin & Hc).
  simpl in Hc. apply andb_prop in Hc. destruct Hc as [Hm He]. apply Z.eqb_eq in He. subst k.
  exists s. split; [exact Hin | apply memZ_In; exact Hm].
Qed.

(* the reverse edge of every entry is there *)
Lemma symmetrise_reverse : forall t a b s,
  In (b, s) t -> In a s -> ov_allowed (ov_symmetrise t) a b = true.
Proof.
  intros t a b s Hin Ha. rewrite allowed_symmetrise_gen. apply orb_true_iff. right.
  unfold rev_edge. apply existsb_exists. exists (b, s). split; [exact Hin|]. simpl.
  rewrite Z.eqb_refl, andb_true_r. apply memZ_In. exact Ha.
Qed.

(* ---- Grid.query ---- *)
Lemma query_forallb : forall t a occ, ov_query t a occ = forallb (ov_allowed t a) occ.
Proof. intros t a [|o occ]; reflexivity. Qed.

Lemma query_iff : forall t a occ,
  ov_query t a occ = true <-> (forall o, In o occ -> ov_allowed t a o = true).
Proof. intros. rewrite query_forallb. apply forallb_forall. Qed.

Lemma query_symmetric : forall t a b,
  NoDup (map fst t) ->
  ov_query (ov_symmetrise t) a [b] = ov_query (ov_symmetrise t) b [a].
Proof.
  intros t a b H. simpl. rewrite (overlap_symmetric t a b H). reflexivity.
Qed.

