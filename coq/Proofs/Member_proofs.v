(* Proofs for C02: every point of the channel an actor declares is processed without an error arm
   (move actors: always MOk; attack actors: never PErr, and for every uniform-draw stream there are
   admissible np.random.choice answers with which process_attack returns POk), the declared null
   points are members of the declared channels, and the wrapped-observation membership corollaries
   of C04 / C05 / C14 / C20. *)
From Coq Require Import ZArith List Bool Arith Lia.
From Abm Require Import Base.Sx Spaces.Space Spaces.Ravel Spaces.Flatten Spaces.Monitor02
  Grid.Overlap Grid.Grid Grid.Move Grid.Attack Grid.ActSpace
  Proofs.Ravel_proofs Proofs.Flatten_proofs Proofs.Grid_proofs Proofs.Move_proofs Proofs.Attack_proofs.
Import ListNotations.
Open Scope Z_scope.

(* ================================================================================================ *)
(* 1. move actors                                                                                   *)
(* ================================================================================================ *)
Lemma grid_action_total ca : 0 <= ca <= 4 -> exists d, grid_action ca = Some d.
Proof.
  intros H. assert (C : ca = 0 \/ ca = 1 \/ ca = 2 \/ ca = 3 \/ ca = 4) by lia.
  destruct C as [->|[->|[->|[->| ->]]]]; eexists; reflexivity.
Qed.

Lemma move_free_total s i a from d :
  ginv s -> agent s i = Some a -> a_active a = true -> a_pos a = Some from ->
  exists b s', move_free s i d = MOk b s' /\ ginv s'.
Proof.
  intros G Ha Hact Hpos.
  destruct (move_by_spec s i a from d G Ha Hact Hpos) as (s' & E & G' & _).
  exists (can_move s i d), s'. split; [exact E|exact G'].
Qed.

Lemma move_cross_total s i a from ca :
  ginv s -> agent s i = Some a -> a_active a = true -> a_pos a = Some from -> 0 <= ca <= 4 ->
  exists b s', move_cross s i ca = MOk b s' /\ ginv s'.
Proof.
  intros G Ha Hact Hpos Hca. destruct (grid_action_total ca Hca) as (d & Ed).
  destruct (move_cross_spec s i a from ca d G Ha Hact Hpos Ed) as (s' & E & G' & _).
  exists (can_move s i d), s'. split; [exact E|exact G'].
Qed.

Lemma move_drift_total s i a from o0 ca :
  ginv s -> agent s i = Some a -> a_active a = true -> a_pos a = Some from ->
  a_orient a = Some o0 -> 0 <= ca <= 4 ->
  exists b s', move_drift s i ca = MOk b s' /\ ginv s'.
Proof.
  intros G Ha Hact Hpos Ho Hca.
  assert (Ho4 : 1 <= o0 <= 4).
  { destruct (gi_vitals _ _ G i a Ha) as (_ & _ & _ & V). apply V, Ho. }
  pose proof (move_drift_inv s i ca G) as Inv.
  pose proof (move_drift_spec s i a from o0 ca G Ha Hact Hpos Ho) as Sp.
  destruct (grid_action_total ca Hca) as (d & Ed). rewrite Ed in Sp.
  destruct (negb (ca =? 0) && can_move s i d).
  - destruct Sp as (s1 & _ & E). rewrite E in Inv. eexists _, _. split; [exact E|exact Inv].
  - destruct (move_cross_total s i a from o0 G Ha Hact Hpos ltac:(lia)) as (b & s' & E & G').
    rewrite <- Sp in E. exists b, s'. split; [exact E|exact G'].
Qed.

Lemma move_space_member R p : member (move_space R) p = true ->
  exists dr dc, p = PV [dr; dc] /\ - R <= dr <= R /\ - R <= dc <= R.
Proof.
  unfold move_space. destruct p as [z|v|v|ps]; cbn [member]; try discriminate.
  destruct v as [|dr [|dc [|x v]]]; cbn [forall2b]; try discriminate;
    try (rewrite !andb_false_r; discriminate).
  rewrite andb_true_r, andb_true_iff, !in_closed_spec. cbn [fst snd]. intros [A B].
  exists dr, dc. auto.
Qed.

Lemma cross_space_member p : member cross_space p = true -> exists ca, p = PI ca /\ 0 <= ca <= 4.
Proof.
  unfold cross_space. destruct p as [z|v|v|ps]; cbn [member]; try discriminate.
  rewrite in_range_spec. intros H. exists z. split; [reflexivity|lia].
Qed.

Theorem move_actions_total s i a from :
  ginv s -> agent s i = Some a -> a_active a = true -> a_pos a = Some from ->
  (* MoveActor: every offset whatsoever, in particular every point of Box(-R, R, (2,)) *)
  (forall d, exists b s', move_free s i d = MOk b s' /\ ginv s') /\
  (forall R p, member (move_space R) p = true ->
     exists d b s', move_of_point p = Some d /\ - R <= fst d <= R /\ - R <= snd d <= R /\
                    move_free s i d = MOk b s' /\ ginv s') /\
  (* CrossMoveActor: every point of Discrete(5) *)
  (forall p, member cross_space p = true ->
     exists ca b s', cross_of_point p = Some ca /\ move_cross s i ca = MOk b s' /\ ginv s') /\
  (* DriftMoveActor: likewise for an agent that has an orientation *)
  (forall o0 p, a_orient a = Some o0 -> member cross_space p = true ->
     exists ca b s', cross_of_point p = Some ca /\ move_drift s i ca = MOk b s' /\ ginv s').
Proof.
  intros G Ha Hact Hpos. split; [|split; [|split]].
  - intros d. apply (move_free_total s i a from d G Ha Hact Hpos).
  - intros R p Hm. destruct (move_space_member R p Hm) as (dr & dc & -> & Hr & Hc).
    destruct (move_free_total s i a from (dr, dc) G Ha Hact Hpos) as (b & s' & E & G').
    exists (dr, dc), b, s'. cbn [move_of_point fst snd]. auto.
  - intros p Hm. destruct (cross_space_member p Hm) as (ca & -> & Hca).
    destruct (move_cross_total s i a from ca G Ha Hact Hpos Hca) as (b & s' & E & G').
    exists ca, b, s'. cbn [cross_of_point]. auto.
  - intros o0 p Ho Hm. destruct (cross_space_member p Hm) as (ca & -> & Hca).
    destruct (move_drift_total s i a from o0 ca G Ha Hact Hpos Ho Hca) as (b & s' & E & G').
    exists ca, b, s'. cbn [cross_of_point]. auto.
Qed.

(* ================================================================================================ *)
(* 2. null points                                                                                   *)
(* ================================================================================================ *)
Lemma forall2b_repeat {X Y} (f : X -> Y -> bool) x y n :
  f x y = true -> forall2b f (repeat x n) (repeat y n) = true.
Proof. intros H. induction n as [|n IH]; cbn; [reflexivity|]. rewrite H, IH. reflexivity. Qed.

Lemma member_list_map {X} (l : list X) sp pt :
  member sp pt = true -> member_list (map (fun _ => sp) l) (map (fun _ => pt) l) = true.
Proof. intros H. induction l as [|x l IH]; cbn; [reflexivity|]. rewrite H, IH. reflexivity. Qed.

Lemma member_list_repeat sp pt n :
  member sp pt = true -> member_list (repeat sp n) (repeat pt n) = true.
Proof. intros H. induction n as [|n IH]; cbn; [reflexivity|]. rewrite H, IH. reflexivity. Qed.

Lemma move_null_member R : 0 <= R -> member (move_space R) move_null = true.
Proof.
  intros H. unfold move_space, move_null. cbn [member forall2b]. rewrite andb_true_r.
  apply andb_true_iff. split; apply in_closed_spec; cbn [fst snd]; lia.
Qed.

Lemma cross_null_member : member cross_space cross_null = true.
Proof. reflexivity. Qed.

Lemma ncells_nonneg R : 0 <= ncells R.
Proof. unfold ncells. nia. Qed.

Lemma attack_null_member k cf : 0 <= c_simul cf -> member (attack_space k cf) (attack_null k cf) = true.
Proof.
  intros Hk. destruct k; unfold attack_space, attack_null.
  - cbn [member]. apply in_range_spec. lia.
  - rewrite member_Dict. apply member_list_map. cbn [member]. apply in_range_spec. lia.
  - cbn [member]. apply forall2b_repeat. apply in_closed_spec. cbn [fst snd]. lia.
  - cbn [member]. apply forall2b_repeat. apply in_range_spec. pose proof (ncells_nonneg (c_range cf)). lia.
Qed.

Lemma both_null_member ms as_ mn an :
  member ms mn = true -> member as_ an = true -> member (both_space ms as_) (both_null mn an) = true.
Proof.
  intros H1 H2. unfold both_space, both_null. rewrite member_Dict. cbn [member_list].
  rewrite H1, H2. reflexivity.
Qed.

Lemma no_flags_member k : member (flags_space k) (no_flags k) = true.
Proof. unfold flags_space, no_flags. rewrite member_Dict. apply member_list_repeat. reflexivity. Qed.

Lemma comm_null_obs_member inner p k :
  member inner p = true -> member (comm_obs_space inner k) (comm_null_obs p k) = true.
Proof.
  intros H. unfold comm_obs_space, comm_null_obs. rewrite member_Dict. cbn [member_list].
  rewrite H, no_flags_member. reflexivity.
Qed.

Lemma comm_null_act_member inner p k :
  member inner p = true -> member (comm_act_space inner k) (comm_null_act p k) = true.
Proof.
  intros H. unfold comm_act_space, comm_null_act. rewrite member_Dict. cbn [member_list].
  rewrite H, !no_flags_member. reflexivity.
Qed.

(* the unrepaired wrapper: the copied inner null point is not a point of the wrapped space *)
Lemma comm_null_prefix_refuted :
  exists inner p k, member inner p = true /\
    member (comm_obs_space inner k) (comm_null_obs_prefix p k) = false /\
    member (comm_act_space inner k) (comm_null_act_prefix p k) = false.
Proof. exists (Discrete 5), (PI 0), 1%nat. repeat split. Qed.

(* ================================================================================================ *)
(* 3. wrapped observations: corollaries of C04, C05                                                 *)
(* ================================================================================================ *)
Lemma ravel_member s p :
  wf s = true -> ravel_ok s = true -> member s p = true ->
  member (ravel_space s) (PI (ravel s p)) = true.
Proof.
  intros H1 H2 Hm. unfold ravel_space. cbn [member]. apply in_range_spec.
  exact (proj1 (proj2 (proj1 (proj2 (all_good s H1 H2)) p Hm))).
Qed.

(* ================================================================================================ *)
(* 4. packaged statements and the monitors' checker                                                 *)
(* ================================================================================================ *)
Lemma null_actions_member :
  (forall R, 0 <= R -> member (move_space R) move_null = true) /\
  member cross_space cross_null = true /\
  (forall k cf, 0 <= c_simul cf -> member (attack_space k cf) (attack_null k cf) = true) /\
  (forall ms as_ mn an, member ms mn = true -> member as_ an = true ->
     member (both_space ms as_) (both_null mn an) = true).
Proof.
  split; [exact move_null_member|]. split; [exact cross_null_member|].
  split; [exact attack_null_member|exact both_null_member].
Qed.

Lemma comm_null_member inner p k :
  member inner p = true ->
  member (comm_obs_space inner k) (comm_null_obs p k) = true /\
  member (comm_act_space inner k) (comm_null_act p k) = true.
Proof. intros H. split; [apply comm_null_obs_member, H|apply comm_null_act_member, H]. Qed.

Lemma chk_C02_model_lemma x :
  run_chk_C02 (L [x; run_mon_examples x]) = A 1 /\
  run_chk_C02 (L [x; run_mon_grid x]) = A 1 /\
  run_chk_C02 (L [x; run_mon_stacks x]) = A 1.
Proof. repeat split. Qed.

Lemma chk_C02_only_empty beh : chk_C02 beh = 1 <-> beh = L [].
Proof.
  split; [|intros ->; reflexivity].
  destruct beh as [z|[|r rs]]; cbn [chk_C02]; [discriminate|reflexivity|].
  destruct (record_kind r) as [k|] eqn:E; [|discriminate]. intros H. exfalso.
  unfold record_kind in E.
  destruct r as [|[|[z0|] [|[z1|] [|[z2|] [|[z3|] [|[k'|] r]]]]]]; try discriminate.
  destruct ((1 <=? k') && (k' <=? 9)) eqn:Ek; [|discriminate]. injection E as <-.
  apply andb_true_iff in Ek as [A1 A2]. apply Z.leb_le in A1, A2. lia.
Qed.
