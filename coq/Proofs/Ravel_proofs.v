(* Proofs about Spaces/Ravel.v: mixed-radix bijection, lifted to nested spaces. *)
From Coq Require Import ZArith List Bool Lia.
From Abm Require Import Base.Sx Spaces.Space Spaces.Ravel.
Import ListNotations.
Open Scope Z_scope.

(* ---------- induction principle for the nested inductive ---------------- *)
Section SpaceInd.
  Variable P : space -> Prop.
  Hypothesis HD : forall n, P (Discrete n).
  Hypothesis HMB : forall n, P (MultiBinary n).
  Hypothesis HMD : forall nv, P (MultiDiscrete nv).
  Hypothesis HBI : forall bs, P (BoxI bs).
  Hypothesis HBF : forall bs, P (BoxF bs).
  Hypothesis HT : forall ss, Forall P ss -> P (Tuple ss).
  Hypothesis HDi : forall ss, Forall P ss -> P (Dict ss).
  Fixpoint space_ind' (s : space) : P s :=
    match s with
    | Discrete n => HD n
    | MultiBinary n => HMB n
    | MultiDiscrete nv => HMD nv
    | BoxI bs => HBI bs
    | BoxF bs => HBF bs
    | Tuple ss =>
        HT ss ((fix go (ss : list space) : Forall P ss :=
                  match ss with
                  | [] => Forall_nil P
                  | s :: ss' => Forall_cons s (space_ind' s) (go ss')
                  end) ss)
    | Dict ss =>
        HDi ss ((fix go (ss : list space) : Forall P ss :=
                   match ss with
                   | [] => Forall_nil P
                   | s :: ss' => Forall_cons s (space_ind' s) (go ss')
                   end) ss)
    end.
End SpaceInd.

(* ---------- named versions of the local fixpoints ----------------------- *)
Fixpoint member_list (ss : list space) (ps : list point) : bool :=
  match ss, ps with
  | [], [] => true
  | s :: ss', p :: ps' => member s p && member_list ss' ps'
  | _, _ => false
  end.
Fixpoint wf_list (ss : list space) : bool :=
  match ss with [] => true | s :: ss' => wf s && wf_list ss' end.
Fixpoint ok_list (ss : list space) : bool :=
  match ss with [] => true | s :: ss' => ravel_ok s && ok_list ss' end.
Fixpoint ravel_list (ss : list space) (ps : list point) : list (Z * Z) :=
  match ss, ps with
  | s :: ss', p :: ps' => ravel_h s p :: ravel_list ss' ps'
  | _, _ => []
  end.
Fixpoint unravel_list (ss : list space) (ds : list Z) : list point :=
  match ss, ds with
  | s :: ss', d :: ds' => unravel s d :: unravel_list ss' ds'
  | _, _ => []
  end.

Lemma member_go ss ps :
  (fix go (ss : list space) (ps : list point) : bool :=
     match ss, ps with
     | [], [] => true
     | s :: ss', p :: ps' => member s p && go ss' ps'
     | _, _ => false
     end) ss ps = member_list ss ps.
Proof. reflexivity. Qed.
Lemma member_Tuple ss ps : member (Tuple ss) (PT ps) = member_list ss ps.
Proof. cbn [member]. apply member_go. Qed.
Lemma member_Dict ss ps : member (Dict ss) (PT ps) = member_list ss ps.
Proof. cbn [member]. apply member_go. Qed.
Lemma wf_go ss :
  (fix go (ss : list space) : bool :=
     match ss with [] => true | s :: ss' => wf s && go ss' end) ss = wf_list ss.
Proof. reflexivity. Qed.
Lemma ok_go ss :
  (fix go (ss : list space) : bool :=
     match ss with [] => true | s :: ss' => ravel_ok s && go ss' end) ss = ok_list ss.
Proof. reflexivity. Qed.
Lemma wf_Tuple ss : wf (Tuple ss) = negb (match ss with [] => true | _ => false end) && wf_list ss.
Proof. cbn [wf]. rewrite wf_go. destruct ss; reflexivity. Qed.
Lemma wf_Dict ss : wf (Dict ss) = negb (match ss with [] => true | _ => false end) && wf_list ss.
Proof. cbn [wf]. rewrite wf_go. destruct ss; reflexivity. Qed.
Lemma ok_Tuple ss : ravel_ok (Tuple ss) = ok_list ss.
Proof. cbn [ravel_ok]. apply ok_go. Qed.
Lemma ok_Dict ss : ravel_ok (Dict ss) = ok_list ss.
Proof. cbn [ravel_ok]. apply ok_go. Qed.
Lemma ravel_h_Tuple ss ps :
  ravel_h (Tuple ss) (PT ps) =
  (rmi (map fst (ravel_list ss ps)) (map snd (ravel_list ss ps)),
   prod (map snd (ravel_list ss ps))).
Proof.
  assert (E : forall ss ps,
    (fix go (ss : list space) (ps : list point) : list (Z * Z) :=
       match ss, ps with
       | s :: ss', p :: ps' => ravel_h s p :: go ss' ps'
       | _, _ => []
       end) ss ps = ravel_list ss ps).
  { reflexivity. }
  simpl. rewrite !E. reflexivity.
Qed.
Lemma ravel_h_Dict ss ps : ravel_h (Dict ss) (PT ps) = ravel_h (Tuple ss) (PT ps).
Proof. reflexivity. Qed.
Lemma unravel_Tuple ss k :
  unravel (Tuple ss) k = PT (unravel_list ss (uri k (map size ss))).
Proof.
  assert (E : forall ss ds,
    (fix go (ss : list space) (ds : list Z) : list point :=
       match ss, ds with
       | s :: ss', d :: ds' => unravel s d :: go ss' ds'
       | _, _ => []
       end) ss ds = unravel_list ss ds).
  { reflexivity. }
  simpl. rewrite E. reflexivity.
Qed.
Lemma unravel_Dict ss k : unravel (Dict ss) k = unravel (Tuple ss) k.
Proof. reflexivity. Qed.

(* ---------- mixed radix -------------------------------------------------- *)
Definition digits_ok (ds xs : list Z) : bool :=
  forall2b (fun d x => in_range 0 d x) ds xs.

Lemma in_range_spec lo hi x : in_range lo hi x = true <-> lo <= x < hi.
Proof. unfold in_range. rewrite andb_true_iff, Z.leb_le, Z.ltb_lt. tauto. Qed.

Lemma in_closed_spec b x : in_closed b x = true <-> fst b <= x <= snd b.
Proof. unfold in_closed. rewrite andb_true_iff, !Z.leb_le. tauto. Qed.

Lemma prod_pos ds : forallb (fun d => 0 <? d) ds = true -> 0 < prod ds.
Proof.
  induction ds as [|d ds IH]; simpl; intros H; [lia|].
  apply andb_true_iff in H as [Hd Hr]. apply Z.ltb_lt in Hd.
  specialize (IH Hr). apply Z.mul_pos_pos; assumption.
Qed.

Lemma digits_ok_pos ds xs : digits_ok ds xs = true -> forallb (fun d => 0 <? d) ds = true.
Proof.
  revert xs; induction ds as [|d ds IH]; intros [|x xs]; simpl; intros H; try discriminate;
    [reflexivity|].
  apply andb_true_iff in H as [Hx Hr]. apply in_range_spec in Hx.
  rewrite (IH _ Hr), andb_true_r. apply Z.ltb_lt. lia.
Qed.

Lemma rmi_range ds xs : digits_ok ds xs = true -> 0 <= rmi xs ds < prod ds.
Proof.
  revert xs; induction ds as [|d ds IH]; intros [|x xs]; simpl; intros H; try discriminate;
    [lia|].
  apply andb_true_iff in H as [Hx Hr]. apply in_range_spec in Hx.
  specialize (IH _ Hr). nia.
Qed.

Lemma uri_rmi ds xs : digits_ok ds xs = true -> uri (rmi xs ds) ds = xs.
Proof.
  revert xs; induction ds as [|d ds IH]; intros [|x xs]; simpl; intros H; try discriminate;
    [reflexivity|].
  apply andb_true_iff in H as [Hx Hr]. apply in_range_spec in Hx.
  pose proof (rmi_range _ _ Hr) as Hrange.
  assert (Hp : 0 < prod ds) by lia.
  assert (E1 : (x * prod ds + rmi xs ds) / prod ds = x).
  { rewrite Z.add_comm, Z.div_add by lia. rewrite Z.div_small by lia. lia. }
  assert (E2 : (x * prod ds + rmi xs ds) mod prod ds = rmi xs ds).
  { rewrite Z.add_comm, Z.mod_add by lia. apply Z.mod_small. lia. }
  rewrite E1, E2, (IH _ Hr). reflexivity.
Qed.

Lemma uri_ok ds k :
  forallb (fun d => 0 <? d) ds = true -> 0 <= k < prod ds ->
  digits_ok ds (uri k ds) = true /\ rmi (uri k ds) ds = k.
Proof.
  unfold digits_ok. revert k; induction ds as [|d ds IH]; simpl; intros k Hpos Hk.
  - split; [reflexivity|lia].
  - apply andb_true_iff in Hpos as [Hd Hr]. apply Z.ltb_lt in Hd.
    pose proof (prod_pos _ Hr) as Hp.
    assert (Hm : 0 <= k mod prod ds < prod ds) by (apply Z.mod_pos_bound; lia).
    destruct (IH (k mod prod ds) Hr Hm) as [IH1 IH2].
    rewrite IH1, IH2, andb_true_r. split.
    + apply in_range_spec. split.
      * apply Z.div_pos; lia.
      * apply Z.div_lt_upper_bound; [lia|]. nia.
    + pose proof (Z.div_mod k (prod ds)). lia.
Qed.

Lemma digits_ok_length ds xs : digits_ok ds xs = true -> length xs = length ds.
Proof.
  revert xs; induction ds as [|d ds IH]; intros [|x xs]; simpl; intros H; try discriminate;
    [reflexivity|]. apply andb_true_iff in H as [_ Hr]. f_equal. apply IH, Hr.
Qed.

(* ---------- leaves -------------------------------------------------------- *)
Lemma pow2_repeat n : prod (repeat 2 n) = 2 ^ Z.of_nat n.
Proof.
  induction n as [|n IH]; [reflexivity|].
  rewrite Nat2Z.inj_succ, Z.pow_succ_r by lia. rewrite <- IH. reflexivity.
Qed.
Lemma repeat2_pos n : forallb (fun d => 0 <? d) (repeat 2 n) = true.
Proof. induction n; simpl; auto. Qed.

Lemma box_shift_ok bs v :
  forall2b in_closed bs v = true ->
  digits_ok (box_dims bs) (map2 (fun x b => x - fst b) v bs) = true.
Proof.
  unfold digits_ok. revert v; induction bs as [|b bs IH]; intros [|x v]; simpl; intros H; try discriminate;
    [reflexivity|].
  apply andb_true_iff in H as [Hx Hr]. apply in_closed_spec in Hx.
  rewrite (IH _ Hr), andb_true_r. apply in_range_spec. lia.
Qed.
Lemma box_unshift bs v :
  forall2b in_closed bs v = true ->
  map2 (fun d b => d + fst b) (map2 (fun x b => x - fst b) v bs) bs = v.
Proof.
  revert v; induction bs as [|b bs IH]; intros [|x v]; simpl; intros H; try discriminate;
    [reflexivity|].
  apply andb_true_iff in H as [_ Hr]. rewrite (IH _ Hr). f_equal. lia.
Qed.
Lemma box_dims_pos bs :
  forallb (fun b => fst b <=? snd b) bs = true -> forallb (fun d => 0 <? d) (box_dims bs) = true.
Proof.
  induction bs as [|b bs IH]; simpl; intros H; [reflexivity|].
  apply andb_true_iff in H as [Hb Hr]. apply Z.leb_le in Hb.
  rewrite (IH Hr), andb_true_r. apply Z.ltb_lt. lia.
Qed.
Lemma box_unshift_member bs ds :
  digits_ok (box_dims bs) ds = true ->
  forall2b in_closed bs (map2 (fun d b => d + fst b) ds bs) = true /\
  map2 (fun x b => x - fst b) (map2 (fun d b => d + fst b) ds bs) bs = ds.
Proof.
  unfold digits_ok. revert ds; induction bs as [|b bs IH]; intros [|d ds]; simpl; intros H; try discriminate;
    [split; reflexivity|].
  apply andb_true_iff in H as [Hx Hr]. apply in_range_spec in Hx.
  destruct (IH _ Hr) as [I1 I2]. rewrite I1, I2, andb_true_r. split.
  - apply in_closed_spec. lia.
  - f_equal. lia.
Qed.

(* ---------- the main statement, by structural induction ------------------- *)
Definition good (s : space) : Prop :=
  wf s = true -> ravel_ok s = true ->
  0 < size s /\
  (forall p, member s p = true ->
     snd (ravel_h s p) = size s /\ 0 <= ravel s p < size s /\ unravel s (ravel s p) = p) /\
  (forall k, 0 <= k < size s ->
     member s (unravel s k) = true /\ ravel s (unravel s k) = k).

Lemma good_list_fwd ss :
  Forall good ss -> wf_list ss = true -> ok_list ss = true ->
  forall ps, member_list ss ps = true ->
    map snd (ravel_list ss ps) = map size ss /\
    digits_ok (map size ss) (map fst (ravel_list ss ps)) = true /\
    unravel_list ss (map fst (ravel_list ss ps)) = ps.
Proof.
  unfold digits_ok. induction 1 as [|s ss Hs _ IH]; intros Hwf Hok [|p ps] Hm; simpl in *; try discriminate.
  - repeat split; reflexivity.
  - apply andb_true_iff in Hwf as [Hw1 Hw2]. apply andb_true_iff in Hok as [Ho1 Ho2].
    apply andb_true_iff in Hm as [Hm1 Hm2].
    destruct (Hs Hw1 Ho1) as (_ & Hf & _). destruct (Hf p Hm1) as (E1 & E2 & E3).
    destruct (IH Hw2 Ho2 ps Hm2) as (I1 & I2 & I3).
    unfold ravel in *. rewrite E1, I1, I2, I3, E3, andb_true_r. repeat split.
    apply in_range_spec. exact E2.
Qed.

Lemma good_list_pos ss :
  Forall good ss -> wf_list ss = true -> ok_list ss = true ->
  forallb (fun d => 0 <? d) (map size ss) = true.
Proof.
  induction 1 as [|s ss Hs _ IH]; simpl; intros Hwf Hok; [reflexivity|].
  apply andb_true_iff in Hwf as [Hw1 Hw2]. apply andb_true_iff in Hok as [Ho1 Ho2].
  destruct (Hs Hw1 Ho1) as (Hp & _). rewrite (IH Hw2 Ho2), andb_true_r. apply Z.ltb_lt, Hp.
Qed.

Lemma good_list_bwd ss :
  Forall good ss -> wf_list ss = true -> ok_list ss = true ->
  forall ds, digits_ok (map size ss) ds = true ->
    member_list ss (unravel_list ss ds) = true /\
    map fst (ravel_list ss (unravel_list ss ds)) = ds /\
    map snd (ravel_list ss (unravel_list ss ds)) = map size ss.
Proof.
  unfold digits_ok. induction 1 as [|s ss Hs _ IH]; intros Hwf Hok [|d ds] Hd; simpl in *; try discriminate.
  - repeat split; reflexivity.
  - apply andb_true_iff in Hwf as [Hw1 Hw2]. apply andb_true_iff in Hok as [Ho1 Ho2].
    apply andb_true_iff in Hd as [Hd1 Hd2]. apply in_range_spec in Hd1.
    destruct (Hs Hw1 Ho1) as (_ & Hf & Hb). destruct (Hb d Hd1) as (B1 & B2).
    destruct (Hf _ B1) as (F1 & _).
    destruct (IH Hw2 Ho2 ds Hd2) as (I1 & I2 & I3).
    unfold ravel in *. rewrite B1, I1, I2, I3, B2, F1. repeat split.
Qed.

Lemma good_node ss :
  Forall good ss -> good (Tuple ss).
Proof.
  intros HF Hwf Hok. rewrite wf_Tuple in Hwf. apply andb_true_iff in Hwf as [_ Hwf].
  rewrite ok_Tuple in Hok.
  pose proof (good_list_pos ss HF Hwf Hok) as Hpos.
  assert (Hsz : size (Tuple ss) = prod (map size ss)) by reflexivity.
  split; [rewrite Hsz; apply prod_pos, Hpos|]. split.
  - intros [z|v|v|ps] Hm; try discriminate. rewrite member_Tuple in Hm.
    destruct (good_list_fwd ss HF Hwf Hok ps Hm) as (I1 & I2 & I3).
    unfold ravel. rewrite ravel_h_Tuple. cbn [fst snd]. rewrite Hsz, I1. split; [reflexivity|].
    split; [apply rmi_range, I2|].
    rewrite unravel_Tuple, uri_rmi by exact I2. rewrite I3. reflexivity.
  - intros k Hk. rewrite Hsz in Hk. destruct (uri_ok _ k Hpos Hk) as [U1 U2].
    destruct (good_list_bwd ss HF Hwf Hok _ U1) as (I1 & I2 & I3).
    rewrite unravel_Tuple, member_Tuple. split; [exact I1|].
    unfold ravel. rewrite ravel_h_Tuple. cbn [fst]. rewrite I2, I3. exact U2.
Qed.

Theorem all_good : forall s, good s.
Proof.
  induction s as [n|n|nv|bs|bs|ss IH|ss IH] using space_ind'.
  - (* Discrete *) intros Hwf _. simpl in Hwf. apply Z.ltb_lt in Hwf. split; [exact Hwf|]. split.
    + intros [z|v|v|ps] Hm; try discriminate. simpl in Hm. apply in_range_spec in Hm.
      unfold ravel; simpl. repeat split; lia.
    + intros k Hk. simpl in Hk. unfold ravel; simpl. split; [apply in_range_spec; lia|reflexivity].
  - (* MultiBinary *) intros _ _. pose proof (repeat2_pos n) as Hpos.
    assert (Hsz : size (MultiBinary n) = prod (repeat 2 n)) by (simpl; symmetry; apply pow2_repeat).
    split; [rewrite Hsz; apply prod_pos, Hpos|]. split.
    + intros [z|v|v|ps] Hm; try discriminate. simpl in Hm. fold (digits_ok (repeat 2 n) v) in Hm.
      unfold ravel; simpl. rewrite <- pow2_repeat. repeat split; try apply rmi_range, Hm.
      rewrite uri_rmi by exact Hm. reflexivity.
    + intros k Hk. rewrite Hsz in Hk. destruct (uri_ok _ k Hpos Hk) as [U1 U2].
      unfold ravel; simpl. split; assumption.
  - (* MultiDiscrete *) intros Hwf _. simpl in Hwf.
    split; [apply prod_pos, Hwf|]. split.
    + intros [z|v|v|ps] Hm; try discriminate. simpl in Hm. fold (digits_ok nv v) in Hm.
      unfold ravel; simpl. repeat split; try apply rmi_range, Hm.
      rewrite uri_rmi by exact Hm. reflexivity.
    + intros k Hk. simpl in Hk. destruct (uri_ok _ k Hwf Hk) as [U1 U2].
      unfold ravel; simpl. split; assumption.
  - (* BoxI *) intros Hwf _. simpl in Hwf. pose proof (box_dims_pos _ Hwf) as Hpos.
    split; [apply prod_pos, Hpos|]. split.
    + intros [z|v|v|ps] Hm; try discriminate. simpl in Hm.
      pose proof (box_shift_ok _ _ Hm) as Hd.
      unfold ravel; simpl. repeat split; try apply rmi_range, Hd.
      rewrite uri_rmi by exact Hd. rewrite box_unshift by exact Hm. reflexivity.
    + intros k Hk. simpl in Hk. destruct (uri_ok _ k Hpos Hk) as [U1 U2].
      destruct (box_unshift_member _ _ U1) as [M1 M2].
      unfold ravel; simpl. rewrite M1, M2. split; [reflexivity|exact U2].
  - (* BoxF *) intros _ Hok. discriminate.
  - apply good_node, IH.
  - (* Dict = Tuple *)
    intros Hwf Hok. rewrite wf_Dict, <- wf_Tuple in Hwf. rewrite ok_Dict, <- ok_Tuple in Hok.
    assert (EM : forall p, member (Dict ss) p = member (Tuple ss) p) by (intros []; reflexivity).
    assert (ER : forall p, ravel_h (Dict ss) p = ravel_h (Tuple ss) p) by (intros []; reflexivity).
    destruct (good_node ss IH Hwf Hok) as (G1 & G2 & G3).
    change (size (Dict ss)) with (size (Tuple ss)). unfold ravel in *.
    split; [exact G1|]. split.
    + intros p Hm. rewrite EM in Hm. rewrite ER, unravel_Dict. exact (G2 _ Hm).
    + intros k Hk. rewrite unravel_Dict, EM, ER. exact (G3 k Hk).
Qed.

(* ---------- corollaries ---------------------------------------------------- *)
Lemma ravel_injective s p q :
  wf s = true /\ ravel_ok s = true -> member s p = true -> member s q = true ->
  ravel s p = ravel s q -> p = q.
Proof.
  intros [H1 H2] Hp Hq E. destruct (all_good s H1 H2) as (_ & Hf & _).
  destruct (Hf p Hp) as (_ & _ & Ep). destruct (Hf q Hq) as (_ & _ & Eq).
  rewrite <- Ep, <- Eq, E. reflexivity.
Qed.

Lemma ravel_surjective s k :
  wf s = true /\ ravel_ok s = true -> 0 <= k < size s ->
  exists p, member s p = true /\ ravel s p = k.
Proof.
  intros [H1 H2] Hk. destruct (all_good s H1 H2) as (_ & _ & Hb).
  exists (unravel s k). exact (Hb k Hk).
Qed.

Lemma ravel_ok_float s : ravel_ok s = negb (has_float s).
Proof.
  induction s as [n|n|nv|bs|bs|ss IH|ss IH] using space_ind'; try reflexivity.
  - cbn [ravel_ok has_float]. induction IH as [|s ss Hs _ IHl]; [reflexivity|].
    rewrite Hs, IHl, negb_orb. reflexivity.
  - cbn [ravel_ok has_float]. induction IH as [|s ss Hs _ IHl]; [reflexivity|].
    rewrite Hs, IHl, negb_orb. reflexivity.
Qed.

From Abm Require Import Proofs.Sx_proofs.

Lemma chk_C04_model s p k :
  wf s = true /\ ravel_ok s = true -> member s p = true -> 0 <= k < size s ->
  chk_C04 s p k (ravel s p) (unravel s k) (ravel s (unravel s k))
          (unravel s (ravel s p)) (size s) = true.
Proof.
  intros [H1 H2] Hp Hk. destruct (all_good s H1 H2) as (_ & Hf & Hb).
  destruct (Hf p Hp) as (_ & Hr & Ep). destruct (Hb k Hk) as (Hm & Ek).
  unfold chk_C04. rewrite Z.eqb_refl, Hm, Ek, Z.eqb_refl, Ep, sx_eqb_refl.
  rewrite (proj2 (in_range_spec 0 (size s) (ravel s p)) Hr). reflexivity.
Qed.
