(* C08 at the manager layer: reset discards the manager's episode state.  For an arbitrary
   simulation: whatever happened before, the state after reset depends only on the simulation's
   own state after its reset; hence an episode played after reset on a used manager is
   indistinguishable from the same episode on a new one. *)
From Coq Require Import ZArith List Bool Arith Lia.
From Abm Require Import Ctl.Managers.
Import ListNotations.

Section R.
  Context {St Obs Info Act : Type}.
  Variable Sim : simulation St Obs Info Act.

  (* the part of the manager state an episode can depend on *)
  Definition uses_ptr (k : mgr) : bool := match k with MTurn | MTurnPrefix => true | _ => false end.
  Definition meq (k : mgr) (m1 m2 : mstate St) : Prop :=
    m_sim m1 = m_sim m2 /\ m_done m1 = m_done m2 /\ (uses_ptr k = true -> m_ptr m1 = m_ptr m2).

  Lemma meq_refl k m : meq k m m.
  Proof. repeat split. Qed.

  (* every call is a function of that part only *)
  Lemma do_call_congr k m1 m2 c : meq k m1 m2 ->
    fst (do_call Sim k m1 c) = fst (do_call Sim k m2 c) /\
    meq k (snd (do_call Sim k m1 c)) (snd (do_call Sim k m2 c)).
  Proof.
    intros (E1 & E2 & E3). destruct m1 as [s1 d1 p1], m2 as [s2 d2 p2]. cbn in *. subst s2 d2.
    destruct k; cbn [uses_ptr] in E3.
    - (* all-step *)
      destruct c as [|acts sh]; cbn [do_call].
      + unfold all_reset. cbn [m_sim m_ptr].
        destruct (thread _ _ _) as [obs s2]. cbn. repeat split; discriminate.
      + unfold all_step. cbn [m_sim m_done m_ptr].
        destruct (existsb _ acts); [cbn; repeat split; discriminate|].
        destruct (thread (sim_obs Sim) _ _) as [obs s2]. destruct (thread (sim_reward Sim) _ _) as [rew s3].
        cbn. repeat split; discriminate.
    - (* turn-based *)
      specialize (E3 eq_refl). subst p2. split; [reflexivity|apply meq_refl].
    - (* dynamic order *)
      destruct c as [|acts sh]; cbn [do_call].
      + unfold dyn_reset. cbn [m_sim m_ptr]. destruct (thread _ _ _) as [obs s2]. cbn.
        repeat split; discriminate.
      + unfold dyn_step. cbn [m_sim m_done m_ptr].
        destruct (existsb _ acts); [cbn; repeat split; discriminate|].
        destruct (sim_all Sim _).
        * destruct (flush _ _ _ _ _) as [o s2]. cbn. repeat split; discriminate.
        * destruct (dyn_loop _ _ _ _ _) as [[o s2] d]. cbn. repeat split; discriminate.
    - (* turn-based before the repair *)
      specialize (E3 eq_refl). subst p2. split; [reflexivity|apply meq_refl].
  Qed.

  Theorem run_congr k cs : forall m1 m2, meq k m1 m2 ->
    fst (run Sim k m1 cs) = fst (run Sim k m2 cs).
  Proof.
    induction cs as [|c r IH]; intros m1 m2 E; cbn [run]; [reflexivity|].
    destruct (do_call_congr k m1 m2 c E) as [Er Em].
    destruct (do_call Sim k m1 c) as [r1 n1], (do_call Sim k m2 c) as [r2 n2]. cbn [fst snd] in *.
    specialize (IH n1 n2 Em).
    destruct (run Sim k n1 r) as [rs1 f1], (run Sim k n2 r) as [rs2 f2]. cbn [fst] in *.
    congruence.
  Qed.

  (* reset forgets done_agents and (after the repair) the turn pointer *)
  Theorem reset_indep k m1 m2 :
    k <> MTurnPrefix -> (k = MTurn -> order Sim <> []) ->
    sim_reset Sim (m_sim m1) = sim_reset Sim (m_sim m2) ->
    fst (do_call Sim k m1 CReset) = fst (do_call Sim k m2 CReset) /\
    meq k (snd (do_call Sim k m1 CReset)) (snd (do_call Sim k m2 CReset)).
  Proof.
    intros Nk Ho E. destruct k; cbn [do_call]; try congruence.
    - unfold all_reset. rewrite E. destruct (thread _ _ _) as [obs s2]. cbn.
      repeat split; discriminate.
    - unfold turn_reset. destruct (order Sim) as [|a0 r] eqn:Eo; [destruct (Ho eq_refl eq_refl)|].
      rewrite E. destruct (sim_obs Sim _ _) as [ob s2]. cbn. repeat split.
    - unfold dyn_reset. rewrite E. destruct (thread _ _ _) as [obs s2]. cbn.
      repeat split; discriminate.
  Qed.

  (* an episode after reset does not depend on the manager's history *)
  Theorem episode_indistinguishable k m1 m2 cs :
    k <> MTurnPrefix -> (k = MTurn -> order Sim <> []) ->
    sim_reset Sim (m_sim m1) = sim_reset Sim (m_sim m2) ->
    fst (run Sim k m1 (CReset :: cs)) = fst (run Sim k m2 (CReset :: cs)).
  Proof.
    intros Nk Ho E. cbn [run]. destruct (reset_indep k m1 m2 Nk Ho E) as [Er Em].
    destruct (do_call Sim k m1 CReset) as [r1 n1], (do_call Sim k m2 CReset) as [r2 n2].
    cbn [fst snd] in *. pose proof (run_congr k cs n1 n2 Em) as H.
    destruct (run Sim k n1 cs) as [rs1 f1], (run Sim k n2 cs) as [rs2 f2]. cbn [fst] in *. congruence.
  Qed.

  (* in particular: a used manager (any history h) against a new one *)
  Corollary used_vs_fresh k s0 h cs :
    k <> MTurnPrefix -> (k = MTurn -> order Sim <> []) ->
    sim_reset Sim (m_sim (snd (run Sim k (init s0) h))) = sim_reset Sim s0 ->
    fst (run Sim k (snd (run Sim k (init s0) h)) (CReset :: cs)) =
    fst (run Sim k (init s0) (CReset :: cs)).
  Proof. intros Nk Ho E. apply episode_indistinguishable; assumption. Qed.

  (* after reset nobody but the non-learning entities is remembered as done, and the first turn
     goes to the first learning agent *)
  Theorem reset_state k m :
    k <> MTurnPrefix -> (k = MTurn -> order Sim <> []) ->
    m_done (snd (do_call Sim k m CReset)) = (match k with MDyn => [] | _ => nonlearning Sim end) /\
    (k = MTurn -> m_ptr (snd (do_call Sim k m CReset)) = 1 mod length (order Sim) /\
                  exists ob, fst (do_call Sim k m CReset) = RObs [(nth 0 (order Sim) 0, ob)]).
  Proof.
    intros Nk Ho. destruct k; cbn [do_call]; try congruence.
    - unfold all_reset. destruct (thread _ _ _) as [obs s2]. cbn. split; [reflexivity|discriminate].
    - unfold turn_reset. destruct (order Sim) as [|a0 r] eqn:Eo; [destruct (Ho eq_refl eq_refl)|].
      destruct (sim_obs Sim _ _) as [ob s2]. cbn. split; [reflexivity|]. intros _.
      split; [reflexivity|]. exists ob. reflexivity.
    - unfold dyn_reset. destruct (thread _ _ _) as [obs s2]. cbn. split; [reflexivity|discriminate].
  Qed.
End R.
