(* Proofs about Grid/FullReset.v: the reset of all state components overwrites every episode
   attribute of every agent and the whole grid, so its result is a function of configuration and
   draws only; a successful reset produces a state that satisfies the grid invariant, in which every
   agent is alive with its declared or drawn values and the cells hold exactly the agents. *)
From Coq Require Import ZArith List Bool Arith Lia.
From Abm Require Import Base.Sx Grid.Overlap Grid.Grid Grid.Move Grid.Play Grid.FullReset
  Proofs.Grid_proofs Proofs.Overlap_proofs Proofs.GridChk_proofs Proofs.PlayChk_proofs.
From Abm Require Grid.Place Proofs.Place_proofs.
Import ListNotations.
Open Scope Z_scope.

(* ---- lists -------------------------------------------------------------------------------------- *)
Lemma zipw_length {V} (f : arec -> V -> arec) : forall l v, length (zipw f l v) = length l.
Proof.
  induction l as [|a l IH]; intros [|x v]; cbn [zipw length]; try reflexivity. rewrite IH. reflexivity.
Qed.

Lemma nth_error_zipw {V} (f : arec -> V -> arec) : forall l v i a x,
  nth_error l i = Some a -> nth_error v i = Some x -> nth_error (zipw f l v) i = Some (f a x).
Proof.
  induction l as [|b l IH]; intros [|y v] [|i] a x Ha Hx; cbn in *; try discriminate.
  - injection Ha as <-. injection Hx as <-. reflexivity.
  - apply IH; assumption.
Qed.

Lemma nth_error_some_lt {X} (l : list X) i x : nth_error l i = Some x -> (i < length l)%nat.
Proof. intros H. apply nth_error_Some. congruence. Qed.

Lemma nth_error_lt_some {X} (l : list X) i : (i < length l)%nat -> exists x, nth_error l i = Some x.
Proof. intros H. destruct (nth_error l i) eqn:E; [eauto|]. apply nth_error_None in E. lia. Qed.

Lemma list_ext {X} : forall l m : list X, (forall i, nth_error l i = nth_error m i) -> l = m.
Proof.
  induction l as [|x l IH]; intros [|y m] H.
  - reflexivity.
  - specialize (H O). discriminate.
  - specialize (H O). discriminate.
  - pose proof (H O) as H0. cbn in H0. injection H0 as <-. f_equal. apply IH.
    intros i. exact (H (S i)).
Qed.

(* ---- the values the components assign ---------------------------------------------------------- *)
Definition the_log (cfg : fcfg) (orc : foracle) : Place.plog :=
  Place.ps_log (Place.res_state (placement cfg orc)).
Definition the_hs (cfg : fcfg) (orc : foracle) : list Z :=
  match health_values (fc_agents cfg) (fo_unif orc) with Some hs => hs | None => [] end.
Definition the_os (cfg : fcfg) (orc : foracle) : list (option Z) :=
  match orient_values (fc_agents cfg) (fo_randint orc) with Some os => os | None => [] end.

Definition clampH (h : Z) : Z := Z.min (Z.max h 0) HD.
Definition f_ammo (fa : fagent) (old : option Z) : option Z :=
  match fa_ammo fa with Some v => Some (if v <? 0 then 0 else v) | None => old end.
Definition f_orient (cfg : fcfg) (orc : foracle) (i : nat) (old : option Z) : option Z :=
  match nth i (the_os cfg orc) None with Some o => Some o | None => old end.

(* agent i after the components of the list cs have run, whatever their order *)
Definition upd (cfg : fcfg) (orc : foracle) (cs : list scomp) (i : nat) (fa : fagent) (a : arec) : arec :=
  {| a_enc := a_enc a;
     a_pos := if has SPos cs then Some (Place.pos_lookup i (the_log cfg orc)) else a_pos a;
     a_health := if has SHealth cs then clampH (nth i (the_hs cfg orc) 0) else a_health a;
     a_active := if has SHealth cs then 0 <? clampH (nth i (the_hs cfg orc) 0) else a_active a;
     a_ammo := if has SAmmo cs then f_ammo fa (a_ammo a) else a_ammo a;
     a_orient := if has SOrient cs then f_orient cfg orc i (a_orient a) else a_orient a;
     a_blocking := a_blocking a |}.

Lemma upd_nil cfg orc i fa a : upd cfg orc [] i fa a = a.
Proof. destruct a. reflexivity. Qed.

Lemma upd_cons cfg orc c r i fa a :
  upd cfg orc r i fa (upd cfg orc [c] i fa a) = upd cfg orc (c :: r) i fa a.
Proof.
  unfold upd, has. cbn [existsb a_enc a_pos a_health a_active a_ammo a_orient a_blocking].
  destruct c; cbn [scomp_eqb orb];
    destruct (existsb (scomp_eqb SPos) r), (existsb (scomp_eqb SHealth) r),
             (existsb (scomp_eqb SAmmo) r), (existsb (scomp_eqb SOrient) r); cbn [orb];
    try reflexivity;
    unfold f_ammo, f_orient; destruct (fa_ammo fa); destruct (nth i (the_os cfg orc) None); reflexivity.
Qed.

Lemma health_values_length : forall ags us hs, health_values ags us = Some hs -> length hs = length ags.
Proof.
  induction ags as [|fa r IH]; intros us hs H; cbn [health_values] in H.
  - injection H as <-. reflexivity.
  - destruct (fa_health fa) as [h|].
    + destruct (health_values r us) as [hs'|] eqn:E; [|discriminate]. injection H as <-.
      cbn [length]. rewrite (IH _ _ E). reflexivity.
    + destruct us as [|u us']; [discriminate|]. destruct ((0 <=? u) && (u <? HD)); [|discriminate].
      destruct (health_values r us') as [hs'|] eqn:E; [|discriminate]. injection H as <-.
      cbn [length]. rewrite (IH _ _ E). reflexivity.
Qed.

Lemma orient_values_length : forall ags ds os, orient_values ags ds = Some os -> length os = length ags.
Proof.
  induction ags as [|fa r IH]; intros ds os H; cbn [orient_values] in H.
  - injection H as <-. reflexivity.
  - destruct (fa_orient fa) as [io|].
    + destruct (match io with Some o => negb (o =? 0) | None => false end).
      * destruct (orient_values r ds) as [os'|] eqn:E; [|discriminate]. injection H as <-.
        cbn [length]. rewrite (IH _ _ E). reflexivity.
      * destruct ds as [|d ds']; [discriminate|]. destruct ((1 <=? d) && (d <=? 4)); [|discriminate].
        destruct (orient_values r ds') as [os'|] eqn:E; [|discriminate]. injection H as <-.
        cbn [length]. rewrite (IH _ _ E). reflexivity.
    + destruct (orient_values r ds) as [os'|] eqn:E; [|discriminate]. injection H as <-.
      cbn [length]. rewrite (IH _ _ E). reflexivity.
Qed.

Lemma positions_of_length cfg log :
  length (Place.positions_of (place_cfg cfg) log) = length (fc_agents cfg).
Proof. unfold Place.positions_of. rewrite map_length, seq_length. cbn. apply map_length. Qed.

Lemma nth_error_positions_of cfg log i : (i < length (fc_agents cfg))%nat ->
  nth_error (Place.positions_of (place_cfg cfg) log) i = Some (Place.pos_lookup i log).
Proof.
  intros H. unfold Place.positions_of. cbn [Place.c_agents place_cfg]. rewrite map_length.
  rewrite nth_error_map, nth_error_nth' with (d := O) by (rewrite seq_length; exact H).
  rewrite seq_nth by exact H. reflexivity.
Qed.

(* ---- one component ---------------------------------------------------------------------------- *)
(* whether a component raises depends on configuration and draws only *)
Definition comp_ok (cfg : fcfg) (orc : foracle) (c : scomp) : bool :=
  match c with
  | SPos => match placement cfg orc with Place.POk _ => true | Place.PErr _ _ => false end
  | SHealth => match health_values (fc_agents cfg) (fo_unif orc) with Some _ => true | None => false end
  | SAmmo => true
  | SOrient => match orient_values (fc_agents cfg) (fo_randint orc) with Some _ => true | None => false end
  end.

Lemma comp_reset_none cfg orc c g : comp_ok cfg orc c = false -> comp_reset cfg orc c g = None.
Proof.
  destruct c; cbn [comp_ok comp_reset]; unfold position_reset, health_reset, orient_reset.
  - destruct (placement cfg orc); [discriminate|reflexivity].
  - destruct (health_values _ _); [discriminate|reflexivity].
  - discriminate.
  - destruct (orient_values _ _); [discriminate|reflexivity].
Qed.

(* the frame of a state: what no component writes *)
Definition frame_eq (g g' : gstate) : Prop :=
  g_rows g' = g_rows g /\ g_cols g' = g_cols g /\ g_ov g' = g_ov g /\
  length (g_agents g') = length (g_agents g).

Definition after (cfg : fcfg) (orc : foracle) (cs : list scomp) (g g' : gstate) : Prop :=
  frame_eq g g' /\
  g_cells g' = (if has SPos cs then grid_of_log (place_cfg cfg) (the_log cfg orc) else g_cells g) /\
  forall i a fa, nth_error (g_agents g) i = Some a -> nth_error (fc_agents cfg) i = Some fa ->
    nth_error (g_agents g') i = Some (upd cfg orc cs i fa a).

Lemma comp_reset_after cfg orc c g :
  length (g_agents g) = length (fc_agents cfg) -> comp_ok cfg orc c = true ->
  exists g', comp_reset cfg orc c g = Some g' /\ after cfg orc [c] g g'.
Proof.
  intros Hlen Hok. destruct c; cbn [comp_ok comp_reset] in *.
  - (* PositionState *)
    unfold position_reset. destruct (placement cfg orc) as [s|k s] eqn:E; [|discriminate].
    assert (EL : the_log cfg orc = Place.ps_log s) by (unfold the_log; rewrite E; reflexivity).
    eexists. split; [reflexivity|]. split; [|split].
    + unfold frame_eq. cbn. rewrite zipw_length. auto.
    + cbn. rewrite EL. reflexivity.
    + intros i a fa Ha Hfa. cbn [g_agents].
      rewrite (nth_error_zipw _ _ _ i a (Place.pos_lookup i (Place.ps_log s)) Ha).
      * unfold upd. rewrite EL. cbn. destruct a; reflexivity.
      * apply nth_error_positions_of. apply (nth_error_some_lt _ _ _ Hfa).
  - (* HealthState *)
    unfold health_reset. destruct (health_values _ _) as [hs|] eqn:E; [|discriminate].
    assert (EL : the_hs cfg orc = hs) by (unfold the_hs; rewrite E; reflexivity).
    eexists. split; [reflexivity|]. split; [|split].
    + unfold frame_eq. cbn. rewrite zipw_length. auto.
    + reflexivity.
    + intros i a fa Ha Hfa. cbn [g_agents set_agents].
      pose proof (health_values_length _ _ _ E) as Hl.
      assert (Hi : (i < length hs)%nat) by (rewrite Hl; apply (nth_error_some_lt _ _ _ Hfa)).
      rewrite (nth_error_zipw _ _ _ i a (nth i hs 0) Ha) by (apply nth_error_nth'; exact Hi).
      unfold upd, with_health, clampH. rewrite EL. cbn. reflexivity.
  - (* AmmoState *)
    eexists. split; [reflexivity|]. split; [|split].
    + unfold frame_eq, ammo_reset. cbn. rewrite zipw_length. auto.
    + reflexivity.
    + intros i a fa Ha Hfa. unfold ammo_reset. cbn [g_agents set_agents].
      rewrite (nth_error_zipw _ _ _ i a (fa_ammo fa) Ha) by (rewrite nth_error_map, Hfa; reflexivity).
      unfold upd, ammo_set, f_ammo. cbn. destruct (fa_ammo fa); destruct a; reflexivity.
  - (* OrientationState *)
    unfold orient_reset. destruct (orient_values _ _) as [os|] eqn:E; [|discriminate].
    assert (EL : the_os cfg orc = os) by (unfold the_os; rewrite E; reflexivity).
    eexists. split; [reflexivity|]. split; [|split].
    + unfold frame_eq. cbn. rewrite zipw_length. auto.
    + reflexivity.
    + intros i a fa Ha Hfa. cbn [g_agents set_agents].
      pose proof (orient_values_length _ _ _ E) as Hl.
      assert (Hi : (i < length os)%nat) by (rewrite Hl; apply (nth_error_some_lt _ _ _ Hfa)).
      rewrite (nth_error_zipw _ _ _ i a (nth i os None) Ha) by (apply nth_error_nth'; exact Hi).
      unfold upd, orient_set, f_orient. rewrite EL. cbn.
      destruct (nth i os None); destruct a; reflexivity.
Qed.

(* ---- the loop over the component set ---------------------------------------------------------- *)
Lemma reset_comps_none cfg orc : forall cs g,
  length (g_agents g) = length (fc_agents cfg) ->
  forallb (comp_ok cfg orc) cs = false -> reset_comps cfg orc cs g = None.
Proof.
  induction cs as [|c r IH]; intros g Hlen H; cbn [forallb reset_comps] in *; [discriminate|].
  destruct (comp_ok cfg orc c) eqn:Ec.
  - destruct (comp_reset_after cfg orc c g Hlen Ec) as (g1 & E1 & A1). rewrite E1.
    apply IH; [|exact H]. destruct A1 as [F _]. destruct F as (_ & _ & _ & F). congruence.
  - rewrite (comp_reset_none cfg orc c g Ec). reflexivity.
Qed.

Lemma reset_comps_after cfg orc : forall cs g,
  length (g_agents g) = length (fc_agents cfg) ->
  forallb (comp_ok cfg orc) cs = true ->
  exists g', reset_comps cfg orc cs g = Some g' /\ after cfg orc cs g g'.
Proof.
  induction cs as [|c r IH]; intros g Hlen H; cbn [forallb reset_comps] in *.
  - exists g. split; [reflexivity|]. split; [unfold frame_eq; auto|]. split; [reflexivity|].
    intros i a fa Ha _. rewrite upd_nil. exact Ha.
  - apply andb_true_iff in H as [Hc Hr].
    destruct (comp_reset_after cfg orc c g Hlen Hc) as (g1 & E1 & AA). destruct AA as (F1 & C1 & A1).
    rewrite E1.
    assert (Hlen1 : length (g_agents g1) = length (fc_agents cfg)).
    { destruct F1 as (_ & _ & _ & F). congruence. }
    destruct (IH g1 Hlen1 Hr) as (g' & E' & AA). destruct AA as (F' & C' & A'). exists g'.
    split; [exact E'|].
    split; [|split].
    + destruct F1 as (R1 & R2 & R3 & R4), F' as (S1 & S2 & S3 & S4). unfold frame_eq.
      repeat split; congruence.
    + rewrite C', C1. unfold has. cbn [existsb]. destruct c; cbn [scomp_eqb orb]; try reflexivity.
      destruct (existsb (scomp_eqb SPos) r); reflexivity.
    + intros i a fa Ha Hfa. rewrite (A' i _ fa (A1 i a fa Ha Hfa) Hfa). rewrite upd_cons. reflexivity.
Qed.

(* ---- what a state shares with its configuration ---------------------------------------------- *)
Definition astatic (fa : fagent) (a : arec) : Prop :=
  a_enc a = fa_enc fa /\ a_blocking a = fa_blocking fa /\
  (fa_ammo fa = None -> a_ammo a = None) /\ (fa_orient fa = None -> a_orient a = None).

Definition statics (cfg : fcfg) (g : gstate) : Prop :=
  g_rows g = fc_rows cfg /\ g_cols g = fc_cols cfg /\ g_ov g = ov_symmetrise (fc_ov cfg) /\
  length (g_agents g) = length (fc_agents cfg) /\
  forall i a fa, nth_error (g_agents g) i = Some a -> nth_error (fc_agents cfg) i = Some fa ->
    astatic fa a.

Definition order_complete (cfg : fcfg) : bool :=
  forallb (fun c => has c (fc_order cfg)) [SPos; SHealth; SAmmo; SOrient].

Lemma order_complete_has cfg : order_complete cfg = true ->
  has SPos (fc_order cfg) = true /\ has SHealth (fc_order cfg) = true /\
  has SAmmo (fc_order cfg) = true /\ has SOrient (fc_order cfg) = true.
Proof.
  unfold order_complete. cbn [forallb]. rewrite !andb_true_iff. tauto.
Qed.

(* the orientation value list says None exactly for the agents without orientation *)
Lemma orient_values_nth : forall ags ds os i fa,
  orient_values ags ds = Some os -> nth_error ags i = Some fa ->
  exists v, nth_error os i = Some v /\
    match fa_orient fa with
    | None => v = None
    | Some io =>
        (forall o, io = Some o -> o <> 0 -> v = Some o) /\
        ((io = None \/ io = Some 0) -> exists d, v = Some d /\ In d ds /\ 1 <= d <= 4)
    end.
Proof.
  induction ags as [|fb r IH]; intros ds os i fa H Hi; [destruct i; discriminate|].
  cbn [orient_values] in H. destruct i as [|i]; cbn [nth_error] in Hi.
  - injection Hi as ->. destruct (fa_orient fa) as [io|].
    + destruct io as [o|].
      * destruct (o =? 0) eqn:Eo; cbn [negb] in H.
        -- destruct ds as [|d ds']; [discriminate|]. destruct ((1 <=? d) && (d <=? 4)) eqn:Ed; [|discriminate].
           destruct (orient_values r ds'); [|discriminate]. injection H as <-. exists (Some d).
           split; [reflexivity|]. split.
           ++ intros o' Ho' N. injection Ho' as <-. apply Z.eqb_eq in Eo. contradiction.
           ++ intros _. exists d. split; [reflexivity|]. split; [left; reflexivity|].
              apply andb_true_iff in Ed. lia.
        -- destruct (orient_values r ds); [|discriminate]. injection H as <-. exists (Some o).
           split; [reflexivity|]. split.
           ++ intros o' Ho' _. congruence.
           ++ intros [N|N]; [discriminate|]. injection N as ->. discriminate.
      * destruct ds as [|d ds']; [discriminate|]. destruct ((1 <=? d) && (d <=? 4)) eqn:Ed; [|discriminate].
        destruct (orient_values r ds'); [|discriminate]. injection H as <-. exists (Some d).
        split; [reflexivity|]. split.
        -- intros o' Ho'. discriminate.
        -- intros _. exists d. split; [reflexivity|]. split; [left; reflexivity|].
           apply andb_true_iff in Ed. lia.
    + destruct (orient_values r ds); [|discriminate]. injection H as <-. exists None. auto.
  - assert (Tail : forall ds' os', orient_values r ds' = Some os' -> (forall d, In d ds' -> In d ds) ->
              exists v, nth_error os' i = Some v /\
                match fa_orient fa with
                | None => v = None
                | Some io =>
                    (forall o, io = Some o -> o <> 0 -> v = Some o) /\
                    ((io = None \/ io = Some 0) -> exists d, v = Some d /\ In d ds /\ 1 <= d <= 4)
                end).
    { intros ds' os' E Sub. destruct (IH ds' os' i fa E Hi) as (v & Hv & Hm). exists v.
      split; [exact Hv|]. destruct (fa_orient fa) as [io|]; [|exact Hm].
      destruct Hm as [M1 M2]. split; [exact M1|]. intros Hio.
      destruct (M2 Hio) as (d & D1 & D2 & D3). exists d. auto. }
    destruct (fa_orient fb) as [io|].
    + destruct (match io with Some o => negb (o =? 0) | None => false end).
      * destruct (orient_values r ds) as [os'|] eqn:E; [|discriminate]. injection H as <-.
        cbn [nth_error]. apply (Tail ds os' E). auto.
      * destruct ds as [|d ds']; [discriminate|]. destruct ((1 <=? d) && (d <=? 4)); [|discriminate].
        destruct (orient_values r ds') as [os'|] eqn:E; [|discriminate]. injection H as <-.
        cbn [nth_error]. apply (Tail ds' os' E). intros x Hx. right. exact Hx.
    + destruct (orient_values r ds) as [os'|] eqn:E; [|discriminate]. injection H as <-.
      cbn [nth_error]. apply (Tail ds os' E). auto.
Qed.

(* the agent the complete reset leaves at index i: a function of configuration and draws *)
Definition fresh_arec (cfg : fcfg) (orc : foracle) (i : nat) (fa : fagent) : arec :=
  {| a_enc := fa_enc fa;
     a_pos := Some (Place.pos_lookup i (the_log cfg orc));
     a_health := clampH (nth i (the_hs cfg orc) 0);
     a_active := 0 <? clampH (nth i (the_hs cfg orc) 0);
     a_ammo := f_ammo fa None;
     a_orient := nth i (the_os cfg orc) None;
     a_blocking := fa_blocking fa |}.

Lemma upd_all_fresh cfg orc i fa a :
  order_complete cfg = true -> comp_ok cfg orc SOrient = true ->
  nth_error (fc_agents cfg) i = Some fa -> astatic fa a ->
  upd cfg orc (fc_order cfg) i fa a = fresh_arec cfg orc i fa.
Proof.
  intros Ho Hok Hfa (S1 & S2 & S3 & S4). destruct (order_complete_has cfg Ho) as (H1 & H2 & H3 & H4).
  unfold upd, fresh_arec. rewrite H1, H2, H3, H4, S1, S2. f_equal.
  - unfold f_ammo. destruct (fa_ammo fa); [reflexivity|]. apply S3. reflexivity.
  - unfold f_orient. destruct (nth i (the_os cfg orc) None) as [o|] eqn:En; [reflexivity|].
    apply S4. cbn [comp_ok] in Hok. unfold the_os in En.
    destruct (orient_values (fc_agents cfg) (fo_randint orc)) as [os|] eqn:E; [|discriminate].
    destruct (orient_values_nth _ _ _ i fa E Hfa) as (v & Hv & Hm).
    rewrite (nth_error_nth _ _ None Hv) in En. subst v.
    destruct (fa_orient fa) as [io|]; [|reflexivity]. destruct Hm as [M1 M2].
    destruct io as [o|].
    + destruct (Z.eq_dec o 0) as [->|N].
      * destruct (M2 (or_intror eq_refl)) as (d & D & _). discriminate.
      * specialize (M1 o eq_refl N). discriminate.
    + destruct (M2 (or_introl eq_refl)) as (d & D & _). discriminate.
Qed.

(* ---- C08_full_reset_indep ------------------------------------------------------------------- *)
Definition all_ok (cfg : fcfg) (orc : foracle) : bool := forallb (comp_ok cfg orc) (fc_order cfg).

Lemma full_reset_spec cfg orc g : order_complete cfg = true -> statics cfg g ->
  if all_ok cfg orc then
    exists s, full_reset cfg orc g = Some s /\
      g_rows s = fc_rows cfg /\ g_cols s = fc_cols cfg /\ g_ov s = ov_symmetrise (fc_ov cfg) /\
      length (g_agents s) = length (fc_agents cfg) /\
      g_cells s = grid_of_log (place_cfg cfg) (the_log cfg orc) /\
      forall i fa, nth_error (fc_agents cfg) i = Some fa ->
        nth_error (g_agents s) i = Some (fresh_arec cfg orc i fa)
  else full_reset cfg orc g = None.
Proof.
  intros Ho (S1 & S2 & S3 & S4 & S5). unfold all_ok, full_reset.
  destruct (forallb (comp_ok cfg orc) (fc_order cfg)) eqn:E.
  - destruct (reset_comps_after cfg orc (fc_order cfg) g S4 E) as (s & Es & AA).
    destruct AA as (FF & C & A). destruct FF as (F1 & F2 & F3 & F4).
    exists s. split; [exact Es|]. repeat split; try congruence.
    + rewrite C. destruct (order_complete_has cfg Ho) as (H1 & _). rewrite H1. reflexivity.
    + intros i fa Hfa.
      destruct (nth_error_lt_some (g_agents g) i) as (a & Ha).
      { rewrite S4. apply (nth_error_some_lt _ _ _ Hfa). }
      rewrite (A i a fa Ha Hfa). f_equal. apply upd_all_fresh; try assumption.
      * destruct (order_complete_has cfg Ho) as (_ & _ & _ & H4). unfold has in H4.
        apply existsb_exists in H4 as (c & Hc & Ec). destruct c; try discriminate.
        rewrite forallb_forall in E. apply E, Hc.
      * apply (S5 i a fa Ha Hfa).
  - apply reset_comps_none; assumption.
Qed.

Theorem full_reset_indep cfg orc g1 g2 :
  order_complete cfg = true -> statics cfg g1 -> statics cfg g2 ->
  full_reset cfg orc g1 = full_reset cfg orc g2.
Proof.
  intros Ho H1 H2. pose proof (full_reset_spec cfg orc g1 Ho H1) as P1.
  pose proof (full_reset_spec cfg orc g2 Ho H2) as P2. destruct (all_ok cfg orc).
  - destruct P1 as (s1 & E1 & A1 & A2 & A3 & A4 & A5 & A6).
    destruct P2 as (s2 & E2 & B1 & B2 & B3 & B4 & B5 & B6). rewrite E1, E2. f_equal.
    destruct s1 as [r1 c1 o1 ag1 ce1], s2 as [r2 c2 o2 ag2 ce2]. cbn in *. subst.
    f_equal. apply list_ext. intros i.
    destruct (nth_error (fc_agents cfg) i) as [fa|] eqn:Hfa.
    + rewrite (A6 i fa Hfa), (B6 i fa Hfa). reflexivity.
    + apply nth_error_None in Hfa.
      assert (N1 : nth_error ag1 i = None) by (apply nth_error_None; lia).
      assert (N2 : nth_error ag2 i = None) by (apply nth_error_None; lia). congruence.
  - congruence.
Qed.

(* ==== C08_full_reset_fresh ======================================================================= *)
Module P := Abm.Grid.Place.
Module PP := Abm.Proofs.Place_proofs.

(* the health value list: declared values and admissible draws *)
Lemma health_values_nth : forall ags us hs i fa,
  health_values ags us = Some hs -> nth_error ags i = Some fa ->
  exists h, nth_error hs i = Some h /\
    match fa_health fa with
    | Some h' => h = h'
    | None => In h us /\ 0 <= h < HD
    end.
Proof.
  induction ags as [|fb r IH]; intros us hs i fa H Hi; [destruct i; discriminate|].
  cbn [health_values] in H. destruct i as [|i]; cbn [nth_error] in Hi.
  - injection Hi as ->. destruct (fa_health fa) as [h'|].
    + destruct (health_values r us); [|discriminate]. injection H as <-. exists h'. auto.
    + destruct us as [|u us']; [discriminate|]. destruct ((0 <=? u) && (u <? HD)) eqn:Eu; [|discriminate].
      destruct (health_values r us'); [|discriminate]. injection H as <-. exists u.
      split; [reflexivity|]. split; [left; reflexivity|]. apply andb_true_iff in Eu. lia.
  - assert (Tail : forall us' hs', health_values r us' = Some hs' -> (forall u, In u us' -> In u us) ->
              exists h, nth_error hs' i = Some h /\
                match fa_health fa with Some h' => h = h' | None => In h us /\ 0 <= h < HD end).
    { intros us' hs' E Sub. destruct (IH us' hs' i fa E Hi) as (h & Hh & Hm). exists h.
      split; [exact Hh|]. destruct (fa_health fa); [exact Hm|]. destruct Hm. auto. }
    destruct (fa_health fb).
    + destruct (health_values r us) as [hs'|] eqn:E; [|discriminate]. injection H as <-.
      cbn [nth_error]. apply (Tail us hs' E). auto.
    + destruct us as [|u us']; [discriminate|]. destruct ((0 <=? u) && (u <? HD)); [|discriminate].
      destruct (health_values r us') as [hs'|] eqn:E; [|discriminate]. injection H as <-.
      cbn [nth_error]. apply (Tail us' hs' E). intros x Hx. right. exact Hx.
Qed.

Lemma NoDup_map_fst_filter {X Y} (f : X * Y -> bool) : forall l : list (X * Y),
  NoDup (map fst l) -> NoDup (map fst (filter f l)).
Proof.
  induction l as [|x l IH]; intros H; cbn [filter map]; [constructor|].
  cbn [map] in H. inversion H as [|? ? Hn Hd]; subst. destruct (f x); [|apply IH, Hd].
  cbn [map]. constructor; [|apply IH, Hd]. intros Hin. apply Hn.
  apply in_map_iff in Hin as (y & Ey & Hy). apply filter_In in Hy as [Hy _].
  apply in_map_iff. exists y. auto.
Qed.

Lemma singleton_list (l : list nat) i :
  NoDup l -> In i l -> (forall j, In j l -> j = i) -> l = [i].
Proof.
  intros Hnd Hi Hall. destruct l as [|x [|y t]]; [destruct Hi| |].
  - rewrite (Hall x (or_introl eq_refl)). reflexivity.
  - exfalso. pose proof (Hall x (or_introl eq_refl)). pose proof (Hall y (or_intror (or_introl eq_refl))).
    subst. inversion Hnd as [|? ? Hn _]. apply Hn. left. reflexivity.
Qed.

(* cell look-up in the association list built from the trace *)
Lemma cell_get_map_keys (f : Z -> cell) (h : cell -> list nat) : forall ks q,
  cell_get (map (fun k => (f k, h (f k))) ks) q =
  if existsb (fun k => cell_eqb q (f k)) ks then h q else [].
Proof.
  induction ks as [|k ks IH]; intros q; cbn [map cell_get existsb]; [reflexivity|].
  destruct (cell_eqb q (f k)) eqn:E; cbn [orb].
  - apply cell_eqb_eq in E. subst q. reflexivity.
  - apply IH.
Qed.

(* ---- the checker's list recursions, from pointwise facts ---------------------------------------- *)
Lemma Forall2_nth {X Y} (R : X -> Y -> Prop) : forall l m,
  length l = length m ->
  (forall i x y, nth_error l i = Some x -> nth_error m i = Some y -> R x y) -> Forall2 R l m.
Proof.
  induction l as [|x l IH]; intros [|y m] Hl H; try discriminate; constructor.
  - apply (H O); reflexivity.
  - apply IH; [cbn in Hl; lia|]. intros i x' y' Hx Hy. apply (H (S i)); assumption.
Qed.

Lemma chk_header_ok : forall ags rs,
  Forall2 (fun fa a => a_enc a = fa_enc fa /\ a_blocking a = fa_blocking fa) ags rs ->
  chk_header ags rs = true.
Proof.
  induction 1 as [|fa a ags rs [H1 H2] _ IH]; cbn [chk_header]; [reflexivity|].
  rewrite H1, H2, Z.eqb_refl, eqb_reflx, IH. reflexivity.
Qed.

Lemma chk_health_ok : forall ags us hs rs, health_values ags us = Some hs ->
  Forall2 (fun h a => a_health a = h) hs rs -> chk_health ags us rs = true.
Proof.
  induction ags as [|fa r IH]; intros us hs rs H F; cbn [health_values] in H.
  - injection H as <-. inversion F. reflexivity.
  - cbn [chk_health]. destruct (fa_health fa) as [h|].
    + destruct (health_values r us) as [hs'|] eqn:E; [|discriminate]. injection H as <-.
      inversion F as [|? a ? rs' Ha F']; subst. rewrite Z.eqb_refl. apply (IH us hs' rs' E F').
    + destruct us as [|u us']; [discriminate|]. destruct ((0 <=? u) && (u <? HD)); [|discriminate].
      destruct (health_values r us') as [hs'|] eqn:E; [|discriminate]. injection H as <-.
      inversion F as [|? a ? rs' Ha F']; subst. rewrite Z.eqb_refl. apply (IH us' hs' rs' E F').
Qed.

Lemma chk_ammo_ok : forall ags rs,
  Forall2 (fun fa a => a_ammo a = option_map (Z.max 0) (fa_ammo fa)) ags rs -> chk_ammo ags rs = true.
Proof.
  induction 1 as [|fa a ags rs H _ IH]; cbn [chk_ammo]; [reflexivity|].
  rewrite H, IH. destruct (fa_ammo fa) as [m|]; cbn [option_map optZ_eqb]; [|reflexivity].
  rewrite Z.max_comm, Z.eqb_refl. reflexivity.
Qed.

Lemma chk_orient_ok : forall ags ds os rs, orient_values ags ds = Some os ->
  Forall2 (fun v a => a_orient a = v) os rs -> chk_orient ags ds rs = true.
Proof.
  induction ags as [|fa r IH]; intros ds os rs H F; cbn [orient_values] in H.
  - injection H as <-. inversion F. reflexivity.
  - cbn [chk_orient]. destruct (fa_orient fa) as [[o|]|].
    + destruct (o =? 0) eqn:Eo; cbn [negb] in H.
      * destruct ds as [|d ds']; [discriminate|]. destruct ((1 <=? d) && (d <=? 4)) eqn:Ed; [|discriminate].
        destruct (orient_values r ds') as [os'|] eqn:E; [|discriminate]. injection H as <-.
        inversion F as [|? a ? rs' Ha F']; subst. rewrite Ha. cbn [optZ_eqb]. rewrite Z.eqb_refl.
        apply andb_true_iff in Ed as [E1 E2]. rewrite E1, E2. apply (IH ds' os' rs' E F').
      * destruct (orient_values r ds) as [os'|] eqn:E; [|discriminate]. injection H as <-.
        inversion F as [|? a ? rs' Ha F']; subst. rewrite Ha. cbn [optZ_eqb]. rewrite Z.eqb_refl.
        apply (IH ds os' rs' E F').
    + destruct ds as [|d ds']; [discriminate|]. destruct ((1 <=? d) && (d <=? 4)) eqn:Ed; [|discriminate].
      destruct (orient_values r ds') as [os'|] eqn:E; [|discriminate]. injection H as <-.
      inversion F as [|? a ? rs' Ha F']; subst. rewrite Ha. cbn [optZ_eqb]. rewrite Z.eqb_refl.
      apply andb_true_iff in Ed as [E1 E2]. rewrite E1, E2. apply (IH ds' os' rs' E F').
    + destruct (orient_values r ds) as [os'|] eqn:E; [|discriminate]. injection H as <-.
      inversion F as [|? a ? rs' Ha F']; subst. rewrite Ha. cbn [optZ_eqb]. apply (IH ds os' rs' E F').
Qed.

Lemma chk_pos_ok : forall ags rs,
  Forall2 (fun fa a => exists p, a_pos a = Some p /\ forall q, fa_pos fa = Some q -> p = q) ags rs ->
  chk_pos ags rs = true.
Proof.
  induction 1 as [|fa a ags rs (p & Hp & Hq) _ IH]; cbn [chk_pos]; [reflexivity|].
  rewrite Hp, IH. destruct (fa_pos fa) as [q|]; [|reflexivity].
  rewrite (Hq q eq_refl), cell_eqb_refl. reflexivity.
Qed.

Section Fresh.
  Variables (cfg : fcfg) (orc : foracle).
  Hypothesis Hwf : wf_fcfg cfg = true.
  Hypothesis Hpos : Forall (fun u => 0 < u) (fo_unif orc).
  Hypothesis Hok : all_ok cfg orc = true.

  Let pc := place_cfg cfg.
  Let dr := P.mkDraws [] None [] (fo_choice orc).
  Let rs := P.reset pc (listing cfg) dr.
  Let oc := P.outcome_of pc rs.
  Let log := the_log cfg orc.
  Let n := length (fc_agents cfg).

  Lemma wf_place : P.wf_config pc = true.
  Proof.
    unfold wf_fcfg in Hwf. apply andb_true_iff in Hwf as [H _]. apply andb_true_iff in H as [H _].
    exact H.
  Qed.

  Lemma wf_agents : forall fa, In fa (fc_agents cfg) -> wf_fagent fa = true.
  Proof.
    unfold wf_fcfg in Hwf. apply andb_true_iff in Hwf as [H _]. apply andb_true_iff in H as [_ H].
    apply forallb_forall. exact H.
  Qed.

  Lemma wf_order : order_complete cfg = true.
  Proof. unfold wf_fcfg in Hwf. apply andb_true_iff in Hwf as [_ H]. exact H. Qed.

  Lemma pc_len : length (P.c_agents pc) = n.
  Proof. unfold pc, place_cfg, n. cbn. apply map_length. Qed.

  Lemma listing_ok : PP.order_ok pc (listing cfg).
  Proof.
    split; [apply seq_NoDup|]. intros a. rewrite pc_len. unfold listing, n. rewrite in_seq. lia.
  Qed.

  Lemma comp_ok_of c : has c (fc_order cfg) = true -> comp_ok cfg orc c = true.
  Proof.
    intros H. unfold has in H. apply existsb_exists in H as (c' & Hc & Ec).
    unfold all_ok in Hok. rewrite forallb_forall in Hok.
    assert (c' = c) by (destruct c, c'; try discriminate; reflexivity). subst c'. apply Hok, Hc.
  Qed.

  Lemma placed_ok : P.o_kind oc = P.ROk.
  Proof.
    destruct (order_complete_has cfg wf_order) as (H1 & _). pose proof (comp_ok_of SPos H1) as H.
    cbn [comp_ok] in H. unfold oc, P.outcome_of. cbn [P.o_kind]. unfold rs.
    change (snd (P.reset pc (listing cfg) dr)) with (placement cfg orc).
    destruct (placement cfg orc); [reflexivity|discriminate].
  Qed.

  Lemma oc_log : P.o_log oc = log.
  Proof. reflexivity. Qed.

  Lemma log_legal : PP.legal pc dr oc.
  Proof. apply PP.model_legal; [exact wf_place|exact listing_ok|exact placed_ok]. Qed.

  Lemma log_in_grid a p : In (a, p) log -> P.in_grid pc p = true.
  Proof. destruct log_legal as (L1 & _). intros H. apply (L1 a p). rewrite oc_log. exact H. Qed.

  Lemma log_nodup : NoDup (map fst log).
  Proof. destruct log_legal as (_ & _ & _ & _ & _ & L6). apply (L6 placed_ok). Qed.

  Lemma log_total a : (a < n)%nat -> exists p, In (a, p) log.
  Proof.
    destruct log_legal as (_ & _ & _ & _ & _ & L6). destruct (L6 placed_ok) as (_ & T & _).
    intros H. apply T. rewrite pc_len. exact H.
  Qed.

  Lemma log_bound a p : In (a, p) log -> (a < n)%nat.
  Proof.
    intros H.
    assert (Hnb : P.o_kind oc <> P.RBad) by (rewrite placed_ok; discriminate).
    destruct (PP.model_error pc (listing cfg) dr wf_place listing_ok Hnb) as (_ & _ & E & _).
    destruct (E placed_ok) as [Esq _].
    destruct (PP.model_chk pc (listing cfg) dr wf_place listing_ok Hnb) as [_ Hord].
    assert (Hin : In a (map fst (P.o_log oc))).
    { rewrite oc_log. apply in_map_iff. exists (a, p). auto. }
    fold rs oc in Esq, Hord. rewrite Esq in Hin.
    apply (PP.seq_of_In pc _ a Hord) in Hin; [rewrite pc_len in Hin; exact Hin|].
    intros N. exfalso. apply N. reflexivity.
  Qed.

  Lemma pos_of a p : In (a, p) log -> P.pos_lookup a log = p.
  Proof. apply PP.pos_lookup_spec, log_nodup. Qed.

  Lemma agent_of_pc i fa : nth_error (fc_agents cfg) i = Some fa ->
    P.agent_of pc i = P.mkAgent (fa_enc fa) (fa_pos fa).
  Proof.
    intros H. unfold P.agent_of, pc, place_cfg. cbn [P.c_agents].
    apply nth_error_nth. rewrite nth_error_map, H. reflexivity.
  Qed.

  Lemma log_declared a p fa q : In (a, p) log -> nth_error (fc_agents cfg) a = Some fa ->
    fa_pos fa = Some q -> p = q.
  Proof.
    intros Hin Hfa Hq. destruct log_legal as (_ & L2 & _). apply (L2 a p q).
    - rewrite oc_log. exact Hin.
    - unfold P.prescribed, P.is_target. cbn [P.c_kind pc place_cfg]. rewrite (agent_of_pc a fa Hfa).
      exact Hq.
  Qed.

  Lemma cols_pos : 0 < fc_cols cfg /\ 0 < fc_rows cfg /\ NoDup (map fst (fc_ov cfg)).
  Proof. destruct (PP.wf_parts pc wf_place) as (H1 & H2 & _ & H4 & _). auto. Qed.

  Lemma cells_are_occupants q : cell_get (grid_of_log pc log) q = P.occupants log q.
  Proof.
    unfold grid_of_log. rewrite (cell_get_map_keys (P.unravel pc) (P.occupants log)).
    destruct (existsb _ _) eqn:E; [reflexivity|]. symmetry. apply PP.occupants_nil.
    intros [b p] Hin Hp. cbn [snd] in Hp. subst p.
    pose proof (log_in_grid b q Hin) as Hg.
    assert (Hex : existsb (fun k => cell_eqb q (P.unravel pc k)) (P.cells pc) = true).
    { apply existsb_exists. exists (P.ravel pc q). split.
      - apply PP.in_cells. apply PP.ravel_in_range. exact Hg.
      - rewrite PP.unravel_ravel; [apply cell_eqb_refl|].
        apply PP.in_grid_spec in Hg. tauto. }
    congruence.
  Qed.

  (* ---- the vitals the components assign ---- *)
  Lemma health_of i fa : nth_error (fc_agents cfg) i = Some fa ->
    let h := clampH (nth i (the_hs cfg orc) 0) in
    0 < h <= HD /\ (forall h', fa_health fa = Some h' -> h = h') /\
    (fa_health fa = None -> In h (fo_unif orc)).
  Proof.
    intros Hfa. destruct (order_complete_has cfg wf_order) as (_ & H2 & _).
    pose proof (comp_ok_of SHealth H2) as Hc. cbn [comp_ok] in Hc. unfold the_hs.
    destruct (health_values (fc_agents cfg) (fo_unif orc)) as [hs|] eqn:E; [|discriminate].
    destruct (health_values_nth _ _ _ i fa E Hfa) as (h0 & Hh & Hm).
    rewrite (nth_error_nth _ _ 0 Hh). cbn zeta.
    pose proof (wf_agents fa (nth_error_In _ _ Hfa)) as W. unfold wf_fagent in W.
    apply andb_true_iff in W as [W _]. unfold clampH, HD in *.
    destruct (fa_health fa) as [h'|].
    - subst h0. apply andb_true_iff in W. split; [lia|]. split; [|discriminate].
      intros h'' Eh. injection Eh as <-. lia.
    - destruct Hm as [Hin Hr]. rewrite Forall_forall in Hpos. pose proof (Hpos h0 Hin).
      replace (Z.min (Z.max h0 0) 1048576) with h0 by lia.
      split; [lia|]. split; [discriminate|]. intros _. exact Hin.
  Qed.

  Lemma orient_of i fa : nth_error (fc_agents cfg) i = Some fa ->
    match fa_orient fa with
    | None => nth i (the_os cfg orc) None = None
    | Some io => exists o, nth i (the_os cfg orc) None = Some o /\ 1 <= o <= 4 /\
                 (forall o', io = Some o' -> o = o') /\ (io = None -> In o (fo_randint orc))
    end.
  Proof.
    intros Hfa. destruct (order_complete_has cfg wf_order) as (_ & _ & _ & H4).
    pose proof (comp_ok_of SOrient H4) as Hc. cbn [comp_ok] in Hc. unfold the_os.
    destruct (orient_values (fc_agents cfg) (fo_randint orc)) as [os|] eqn:E; [|discriminate].
    destruct (orient_values_nth _ _ _ i fa E Hfa) as (v & Hv & Hm).
    rewrite (nth_error_nth _ _ None Hv).
    pose proof (wf_agents fa (nth_error_In _ _ Hfa)) as W. unfold wf_fagent in W.
    apply andb_true_iff in W as [_ W].
    destruct (fa_orient fa) as [io|]; [|exact Hm]. destruct Hm as [M1 M2]. destruct io as [o|].
    - apply andb_true_iff in W. assert (N : o <> 0) by lia. exists o.
      split; [apply (M1 o eq_refl N)|]. split; [lia|]. split; [congruence|discriminate].
    - destruct (M2 (or_introl eq_refl)) as (dd & D1 & D2 & D3). exists dd.
      split; [exact D1|]. split; [exact D3|]. split; [discriminate|]. intros _. exact D2.
  Qed.

  (* ---- the state described by full_reset_spec ---- *)
  Variable s : gstate.
  Hypothesis S_rows : g_rows s = fc_rows cfg.
  Hypothesis S_cols : g_cols s = fc_cols cfg.
  Hypothesis S_ov : g_ov s = ov_symmetrise (fc_ov cfg).
  Hypothesis S_len : length (g_agents s) = n.
  Hypothesis S_cells : g_cells s = grid_of_log pc log.
  Hypothesis S_agents : forall i fa, nth_error (fc_agents cfg) i = Some fa ->
    nth_error (g_agents s) i = Some (fresh_arec cfg orc i fa).

  Lemma s_cell q i : In i (cell_get (g_cells s) q) <-> In (i, q) log.
  Proof. rewrite S_cells, cells_are_occupants. apply PP.occupants_In_iff. Qed.

  Lemma s_agent i a : agent s i = Some a ->
    exists fa, nth_error (fc_agents cfg) i = Some fa /\ a = fresh_arec cfg orc i fa.
  Proof.
    intros Ha. unfold agent in Ha. pose proof (nth_error_some_lt _ _ _ Ha) as Hi. rewrite S_len in Hi.
    destruct (nth_error_lt_some (fc_agents cfg) i Hi) as (fa & Hfa). exists fa. split; [exact Hfa|].
    rewrite (S_agents i fa Hfa) in Ha. congruence.
  Qed.

  Lemma s_inside p : P.in_grid pc p = true -> inside s p = true.
  Proof.
    unfold P.in_grid, inside. rewrite S_rows, S_cols. cbn [pc place_cfg P.c_rows P.c_cols]. auto.
  Qed.

  Lemma s_enc i fa : nth_error (fc_agents cfg) i = Some fa -> enc_of s i = P.enc pc i.
  Proof.
    intros Hfa. unfold enc_of, agent. rewrite (S_agents i fa Hfa). unfold P.enc.
    rewrite (agent_of_pc i fa Hfa). reflexivity.
  Qed.

  Lemma s_active i fa : nth_error (fc_agents cfg) i = Some fa -> a_active (fresh_arec cfg orc i fa) = true.
  Proof. intros Hfa. cbn [fresh_arec a_active]. destruct (health_of i fa Hfa) as (H & _). apply Z.ltb_lt. lia. Qed.

  Lemma s_vitals i fa : nth_error (fc_agents cfg) i = Some fa -> vitals_ok (fresh_arec cfg orc i fa).
  Proof.
    intros Hfa. destruct (health_of i fa Hfa) as (H & _). unfold vitals_ok. cbn [fresh_arec a_health a_active a_ammo a_orient].
    split; [lia|]. split; [reflexivity|]. split.
    - intros m. unfold f_ammo. destruct (fa_ammo fa) as [v|]; [|discriminate]. intros E. injection E as <-.
      destruct (v <? 0) eqn:Ev; [lia|]. apply Z.ltb_ge in Ev. exact Ev.
    - intros o Eo. pose proof (orient_of i fa Hfa) as Ho. destruct (fa_orient fa).
      + destruct Ho as (o' & E' & R & _). congruence.
      + congruence.
  Qed.

  Theorem s_ginv : ginv s.
  Proof.
    constructor.
    - intros a b. rewrite S_ov. apply overlap_symmetric. apply cols_pos.
    - intros p i Hi. apply s_cell in Hi. pose proof (log_bound i p Hi) as Hb.
      destruct (nth_error_lt_some (fc_agents cfg) i Hb) as (fa & Hfa).
      exists (fresh_arec cfg orc i fa). split; [unfold agent; apply (S_agents i fa Hfa)|].
      split; [apply (s_active i fa Hfa)|]. cbn [fresh_arec a_pos]. fold log. rewrite (pos_of i p Hi). reflexivity.
    - intros p. rewrite S_cells, cells_are_occupants. unfold P.occupants.
      apply NoDup_map_fst_filter, log_nodup.
    - intros i a p _ Ha _ Hp. destruct (s_agent i a Ha) as (fa & Hfa & ->).
      cbn [fresh_arec a_pos] in Hp. fold log in Hp. injection Hp as Hp.
      destruct (log_total i (nth_error_some_lt _ _ _ Hfa)) as (p' & Hin).
      rewrite (pos_of i p' Hin) in Hp. subst p'. split; [apply s_cell, Hin|].
      apply s_inside, (log_in_grid i p Hin).
    - intros p i j Hi Hj N. apply s_cell in Hi. apply s_cell in Hj.
      destruct (nth_error_lt_some (fc_agents cfg) i (log_bound i p Hi)) as (fi & Hfi).
      destruct (nth_error_lt_some (fc_agents cfg) j (log_bound j p Hj)) as (fj & Hfj).
      rewrite (s_enc i fi Hfi), (s_enc j fj Hfj), S_ov.
      destruct log_legal as (_ & _ & L3 & _).
      assert (M : P.may_share pc i j = true) by (apply (L3 i j p); [rewrite oc_log| rewrite oc_log|]; assumption).
      unfold P.may_share in M. apply andb_true_iff in M as [M _]. exact M.
    - intros i a Ha. destruct (s_agent i a Ha) as (fa & Hfa & ->). apply (s_vitals i fa Hfa).
  Qed.

  Lemma s_all_placed : all_placed s.
  Proof.
    intros a Ha _. apply In_nth_error in Ha as (i & Hi). destruct (s_agent i a Hi) as (fa & _ & ->).
    eexists. reflexivity.
  Qed.

  Lemma s_statics : statics cfg s.
  Proof.
    split; [exact S_rows|]. split; [exact S_cols|]. split; [exact S_ov|]. split; [exact S_len|].
    intros i a fa Ha Hfa. rewrite (S_agents i fa Hfa) in Ha. injection Ha as <-.
    unfold astatic. cbn [fresh_arec a_enc a_blocking a_ammo a_orient]. split; [reflexivity|].
    split; [reflexivity|]. split.
    - intros E. unfold f_ammo. rewrite E. reflexivity.
    - intros E. pose proof (orient_of i fa Hfa) as Ho. rewrite E in Ho. exact Ho.
  Qed.

  (* the readable clause list of C08 for one agent *)
  Lemma s_agent_clauses i fa : nth_error (fc_agents cfg) i = Some fa ->
    exists a p, agent s i = Some a /\ a_active a = true /\ 0 < a_health a <= HD /\
      (forall h, fa_health fa = Some h -> a_health a = h) /\
      (fa_health fa = None -> In (a_health a) (fo_unif orc)) /\
      a_ammo a = option_map (Z.max 0) (fa_ammo fa) /\
      match fa_orient fa with
      | None => a_orient a = None
      | Some io => exists o, a_orient a = Some o /\ 1 <= o <= 4 /\
                   (forall o', io = Some o' -> o = o') /\ (io = None -> In o (fo_randint orc))
      end /\
      a_pos a = Some p /\ inside s p = true /\ (forall q, fa_pos fa = Some q -> p = q) /\
      (forall q, In i (cell_get (g_cells s) q) <-> q = p) /\
      (fc_noov cfg = true -> fa_pos fa = None -> cell_get (g_cells s) p = [i]).
  Proof.
    intros Hfa. destruct (log_total i (nth_error_some_lt _ _ _ Hfa)) as (p & Hin).
    exists (fresh_arec cfg orc i fa), p. destruct (health_of i fa Hfa) as (H1 & H2 & H3).
    split; [unfold agent; apply (S_agents i fa Hfa)|]. split; [apply (s_active i fa Hfa)|].
    cbn [fresh_arec a_health a_ammo a_orient a_pos]. split; [exact H1|]. split; [exact H2|].
    split; [exact H3|]. split; [|split; [exact (orient_of i fa Hfa)|]].
    { unfold f_ammo. destruct (fa_ammo fa) as [v|]; [|reflexivity]. cbn [option_map]. f_equal.
      destruct (v <? 0) eqn:Ev; [apply Z.ltb_lt in Ev|apply Z.ltb_ge in Ev]; lia. }
    fold log. rewrite (pos_of i p Hin). split; [reflexivity|].
    split; [apply s_inside, (log_in_grid i p Hin)|]. split; [intros q Hq; apply (log_declared i p fa q Hin Hfa Hq)|].
    split.
    - intros q. rewrite s_cell. split.
      + intros Hq. apply (PP.NoDup_fst_unique log i q p log_nodup Hq Hin).
      + intros ->. exact Hin.
    - intros Hno Hnone. apply singleton_list.
      + apply (gi_nodup _ _ s_ginv).
      + apply s_cell, Hin.
      + intros j Hj. apply s_cell in Hj. destruct log_legal as (_ & _ & _ & L4 & _).
        assert (Hnv : P.c_noov pc = true) by exact Hno.
        destruct (L4 Hnv i p j) as [A _]; [rewrite oc_log; exact Hin|rewrite oc_log; exact Hj|].
        apply A. unfold P.prescribed, P.is_target. cbn [P.c_kind pc place_cfg].
        rewrite (agent_of_pc i fa Hfa). exact Hnone.
  Qed.
  (* ---- the checker accepts this state ---- *)
  Lemma s_chk : chk_full_reset cfg orc (Some s) = true.
  Proof.
    assert (Hl : length (fc_agents cfg) = length (g_agents s)) by (rewrite S_len; reflexivity).
    destruct (order_complete_has cfg wf_order) as (_ & O2 & _ & O4).
    pose proof (comp_ok_of SHealth O2) as C2. pose proof (comp_ok_of SOrient O4) as C4.
    cbn [comp_ok] in C2, C4.
    destruct (health_values (fc_agents cfg) (fo_unif orc)) as [hs|] eqn:Eh; [|discriminate].
    destruct (orient_values (fc_agents cfg) (fo_randint orc)) as [os|] eqn:Eo; [|discriminate].
    assert (Ths : the_hs cfg orc = hs) by (unfold the_hs; rewrite Eh; reflexivity).
    assert (Tos : the_os cfg orc = os) by (unfold the_os; rewrite Eo; reflexivity).
    unfold chk_full_reset, chk_full_reset_code.
    rewrite S_rows, S_cols, !Z.eqb_refl. cbn [andb].
    rewrite chk_header_ok; cycle 1.
    { apply Forall2_nth; [exact Hl|]. intros i fa a Hfa Ha. rewrite (S_agents i fa Hfa) in Ha.
      injection Ha as <-. auto. }
    cbn [negb]. rewrite (ginvb_complete s s_ginv s_all_placed). cbn [Z.eqb negb].
    rewrite (proj2 (forallb_forall _ _)); cycle 1.
    { intros a Ha. apply In_nth_error in Ha as (i & Hi). destruct (s_agent i a Hi) as (fa & Hfa & ->).
      rewrite (s_active i fa Hfa). destruct (health_of i fa Hfa) as (H & _).
      cbn [fresh_arec a_health andb].
      apply andb_true_iff. split; [apply Z.ltb_lt|apply Z.leb_le]; lia. }
    cbn [negb]. rewrite (chk_health_ok _ _ hs _ Eh); cycle 1.
    { apply Forall2_nth; [rewrite (health_values_length _ _ _ Eh); exact Hl|].
      intros i h a Hh Ha. destruct (nth_error_lt_some (fc_agents cfg) i) as (fa & Hfa).
      { rewrite <- (health_values_length _ _ _ Eh). apply (nth_error_some_lt _ _ _ Hh). }
      rewrite (S_agents i fa Hfa) in Ha. injection Ha as <-. cbn [fresh_arec a_health].
      rewrite Ths, (nth_error_nth _ _ 0 Hh).
      destruct (health_values_nth _ _ _ i fa Eh Hfa) as (h0 & Hh0 & Hm). rewrite Hh in Hh0.
      injection Hh0 as <-. pose proof (wf_agents fa (nth_error_In _ _ Hfa)) as W. unfold wf_fagent in W.
      apply andb_true_iff in W as [W _]. unfold clampH, HD in *. destruct (fa_health fa) as [h'|].
      - subst h'. apply andb_true_iff in W. lia.
      - lia. }
    cbn [negb]. rewrite chk_ammo_ok; cycle 1.
    { apply Forall2_nth; [exact Hl|]. intros i fa a Hfa Ha. rewrite (S_agents i fa Hfa) in Ha.
      injection Ha as <-. cbn [fresh_arec a_ammo]. unfold f_ammo.
      destruct (fa_ammo fa) as [v|]; [|reflexivity]. cbn [option_map]. f_equal.
      destruct (v <? 0) eqn:Ev; [apply Z.ltb_lt in Ev|apply Z.ltb_ge in Ev]; lia. }
    cbn [negb]. rewrite (chk_orient_ok _ _ os _ Eo); cycle 1.
    { apply Forall2_nth; [rewrite (orient_values_length _ _ _ Eo); exact Hl|].
      intros i v a Hv Ha. destruct (nth_error_lt_some (fc_agents cfg) i) as (fa & Hfa).
      { rewrite <- (orient_values_length _ _ _ Eo). apply (nth_error_some_lt _ _ _ Hv). }
      rewrite (S_agents i fa Hfa) in Ha. injection Ha as <-. cbn [fresh_arec a_orient].
      rewrite Tos. apply (nth_error_nth _ _ None Hv). }
    cbn [negb]. rewrite chk_pos_ok; [reflexivity|].
    apply Forall2_nth; [exact Hl|]. intros i fa a Hfa Ha.
    destruct (s_agent_clauses i fa Hfa) as (a' & p & A1 & _ & _ & _ & _ & _ & _ & A8 & _ & A10 & _).
    unfold agent in A1. rewrite A1 in Ha. injection Ha as <-. exists p. auto.
  Qed.
End Fresh.

Lemma full_reset_some cfg orc g s : order_complete cfg = true -> statics cfg g ->
  full_reset cfg orc g = Some s ->
  all_ok cfg orc = true /\
  g_rows s = fc_rows cfg /\ g_cols s = fc_cols cfg /\ g_ov s = ov_symmetrise (fc_ov cfg) /\
  length (g_agents s) = length (fc_agents cfg) /\
  g_cells s = grid_of_log (place_cfg cfg) (the_log cfg orc) /\
  forall i fa, nth_error (fc_agents cfg) i = Some fa ->
    nth_error (g_agents s) i = Some (fresh_arec cfg orc i fa).
Proof.
  intros Ho Hs E. pose proof (full_reset_spec cfg orc g Ho Hs) as Sp.
  destruct (all_ok cfg orc); [|congruence]. destruct Sp as (s' & E' & R). rewrite E in E'.
  injection E' as <-. split; [reflexivity|exact R].
Qed.

Lemma wf_order_complete cfg : wf_fcfg cfg = true -> order_complete cfg = true.
Proof. intros H. unfold wf_fcfg in H. apply andb_true_iff in H as [_ H]. exact H. Qed.

Theorem full_reset_fresh cfg orc g s :
  wf_fcfg cfg = true -> statics cfg g -> Forall (fun u => 0 < u) (fo_unif orc) ->
  full_reset cfg orc g = Some s ->
  ginv s /\ statics cfg s /\
  (forall i fa, nth_error (fc_agents cfg) i = Some fa ->
     exists a p, agent s i = Some a /\ a_active a = true /\ 0 < a_health a <= HD /\
       (forall h, fa_health fa = Some h -> a_health a = h) /\
       (fa_health fa = None -> In (a_health a) (fo_unif orc)) /\
       a_ammo a = option_map (Z.max 0) (fa_ammo fa) /\
       match fa_orient fa with
       | None => a_orient a = None
       | Some io => exists o, a_orient a = Some o /\ 1 <= o <= 4 /\
                    (forall o', io = Some o' -> o = o') /\ (io = None -> In o (fo_randint orc))
       end /\
       a_pos a = Some p /\ inside s p = true /\ (forall q, fa_pos fa = Some q -> p = q) /\
       (forall q, In i (cell_get (g_cells s) q) <-> q = p) /\
       (fc_noov cfg = true -> fa_pos fa = None -> cell_get (g_cells s) p = [i])) /\
  (forall q i, In i (cell_get (g_cells s) q) -> (i < length (fc_agents cfg))%nat) /\
  (forall q, NoDup (cell_get (g_cells s) q)).
Proof.
  intros Hwf Hs Hpos E.
  destruct (full_reset_some cfg orc g s (wf_order_complete cfg Hwf) Hs E)
    as (Hok & R1 & R2 & R3 & R4 & R5 & R6).
  pose proof (s_ginv cfg orc Hwf Hpos Hok s R1 R2 R3 R4 R5 R6) as G.
  split; [exact G|]. split; [apply (s_statics cfg orc Hwf Hok s R1 R2 R3 R4 R6)|].
  split; [intros i fa Hfa; apply (s_agent_clauses cfg orc Hwf Hpos Hok s R1 R2 R3 R4 R5 R6 i fa Hfa)|].
  split.
  - intros q i Hi. apply (s_cell cfg orc Hwf Hok s R5) in Hi. apply (log_bound cfg orc Hwf Hok i q Hi).
  - intros q. apply (gi_nodup _ _ G).
Qed.

Theorem chk_full_reset_model cfg orc g :
  wf_fcfg cfg = true -> statics cfg g -> Forall (fun u => 0 < u) (fo_unif orc) ->
  chk_full_reset cfg orc (full_reset cfg orc g) = true.
Proof.
  intros Hwf Hs Hpos. destruct (full_reset cfg orc g) as [s|] eqn:E; [|reflexivity].
  destruct (full_reset_some cfg orc g s (wf_order_complete cfg Hwf) Hs E)
    as (Hok & R1 & R2 & R3 & R4 & R5 & R6).
  apply (s_chk cfg orc Hwf Hpos Hok s R1 R2 R3 R4 R5 R6).
Qed.

(* the object before its first reset is one of the states the theorems speak about *)
Lemma blank_statics cfg : statics cfg (blank cfg).
Proof.
  unfold blank, empty_grid. split; [reflexivity|]. split; [reflexivity|]. split; [reflexivity|].
  cbn [g_agents]. split; [apply map_length|]. intros i a fa Ha Hfa.
  rewrite nth_error_map, Hfa in Ha. injection Ha as <-. unfold astatic, blank_agent. cbn. auto.
Qed.
