(* Proofs about Ctl/Adapters.v (C15) and the manager-level facts shared with
   Proofs/Trainer_proofs.v (C16), for an arbitrary simulation. *)
From Coq Require Import ZArith List Bool Arith Lia.
From Abm Require Import Base.Sx Ctl.Managers Ctl.ScriptSim Ctl.MgrCheck Ctl.Adapters
     Proofs.Managers_proofs.
Import ListNotations.
Close Scope Z_scope.

(* ------------------------------------------------------------------ small facts *)
Lemma nodupb_NoDup l : nodupb l = true <-> NoDup l.
Proof.
  induction l as [|a l IH]; simpl.
  - split; [constructor|reflexivity].
  - rewrite andb_true_iff, negb_true_iff, IH, memb_false_In. split.
    + intros [H1 H2]. constructor; assumption.
    + intros H. inversion H; subst. split; assumption.
Qed.

Lemma alookup_In {X} a (l : list (nat * X)) x : alookup a l = Some x -> In (a, x) l.
Proof.
  induction l as [|[b y] l IH]; simpl; [discriminate|].
  destruct (Nat.eqb a b) eqn:E.
  - apply Nat.eqb_eq in E. subst. intros H. injection H as ->. left. reflexivity.
  - intros H. right. apply IH, H.
Qed.

Lemma alookup_None {X} a (l : list (nat * X)) : alookup a l = None <-> ~ In a (map fst l).
Proof.
  induction l as [|[b y] l IH]; simpl; [tauto|].
  destruct (Nat.eqb a b) eqn:E.
  - apply Nat.eqb_eq in E. subst. split; [discriminate|]. intros H. exfalso. apply H. left. reflexivity.
  - apply Nat.eqb_neq in E. rewrite IH. split.
    + intros H [C|C]; [congruence|contradiction].
    + intros H C. apply H. right. exact C.
Qed.

Lemma alookup_NoDup {X} a (l : list (nat * X)) x :
  NoDup (map fst l) -> In (a, x) l -> alookup a l = Some x.
Proof.
  induction l as [|[b y] l IH]; simpl; intros ND H; [contradiction|].
  inversion ND as [|? ? Hn ND']; subst.
  destruct H as [H|H].
  - injection H as -> ->. rewrite Nat.eqb_refl. reflexivity.
  - destruct (Nat.eqb a b) eqn:E.
    + apply Nat.eqb_eq in E. subst. exfalso. apply Hn.
      change b with (fst (b, x)). apply in_map, H.
    + apply IH; assumption.
Qed.

Lemma NoDup_filter {X} (f : X -> bool) l : NoDup l -> NoDup (filter f l).
Proof.
  induction 1 as [|a l Hn ND IH]; simpl; [constructor|].
  destruct (f a); [|exact IH]. constructor; [|exact IH].
  intros C. apply filter_In in C. apply Hn, C.
Qed.

Lemma NoDup_app {X} (l m : list X) :
  NoDup l -> NoDup m -> (forall x, In x l -> ~ In x m) -> NoDup (l ++ m).
Proof.
  induction 1 as [|a l Hn ND IH]; simpl; intros Hm Hd; [exact Hm|].
  constructor.
  - intros C. apply in_app_or in C as [C|C]; [contradiction|]. apply (Hd a); [left; reflexivity|exact C].
  - apply IH; [exact Hm|]. intros x Hx. apply Hd. right. exact Hx.
Qed.

Section M.
  Context {St Obs Info Act : Type}.
  Variable Sim : simulation St Obs Info Act.
  Notation n := (sim_n Sim).
  Notation learning := (sim_learning Sim).
  Notation s_step := (sim_step Sim).
  Notation s_obs := (sim_obs Sim).
  Notation s_done := (sim_done Sim).
  Notation s_all := (sim_all Sim).
  Notation s_next := (sim_next Sim).
  Notation agents := (agents Sim).
  Notation order := (order Sim).
  Notation nonlearning := (nonlearning Sim).
  Notation all_in := (all_in Sim).
  Notation done_stable := (done_stable Sim).
  Notation L := (length order).

  Lemma agents_NoDup : NoDup agents.
  Proof. apply seq_NoDup. Qed.

  Lemma order_NoDup : NoDup order.
  Proof. apply NoDup_filter, agents_NoDup. Qed.

  Lemma order_spec a : In a order <-> In a agents /\ learning a = true.
  Proof. unfold Managers.order. apply filter_In. Qed.

  Lemma nonlearning_spec a : In a nonlearning <-> In a agents /\ learning a = false.
  Proof. unfold Managers.nonlearning. rewrite filter_In, negb_true_iff. tauto. Qed.

  Lemma live_nonlearning : live Sim nonlearning = order.
  Proof.
    unfold live, Managers.order. apply filter_ext_in. intros a Ha.
    destruct (learning a) eqn:E.
    - apply negb_true_iff, memb_false_In. rewrite nonlearning_spec. intros [_ C]. congruence.
    - apply negb_false_iff, memb_In, nonlearning_spec. split; assumption.
  Qed.

  (* an agent outside a done set that contains the non-learning entities is a learning agent *)
  Lemma outside_is_order d a :
    incl nonlearning d -> In a agents -> ~ In a d -> In a order.
  Proof.
    intros Hn Ha Hd. apply order_spec. split; [exact Ha|].
    destruct (learning a) eqn:E; [reflexivity|]. exfalso. apply Hd, Hn, nonlearning_spec.
    split; assumption.
  Qed.

  Lemma not_all_in_witness d :
    incl nonlearning d -> all_in d = false -> exists a, In a order /\ ~ In a d.
  Proof.
    intros Hn H. unfold Managers.all_in in H.
    assert (E : exists a, In a agents /\ memb a d = false).
    { clear Hn. induction agents as [|a l IH]; simpl in H; [discriminate|].
      destruct (memb a d) eqn:Em.
      - destruct (IH H) as (x & Hx & Hm). exists x. split; [right; exact Hx|exact Hm].
      - exists a. split; [left; reflexivity|exact Em]. }
    destruct E as (a & Ha & Hm). apply memb_false_In in Hm. exists a.
    split; [apply (outside_is_order d); assumption|exact Hm].
  Qed.

  (* -------------------------------------------------------------- what a step establishes *)
  Record step_post (m : mstate St) (o : out Obs Info) (m' : mstate St) : Prop := {
    st_wfo : wfo o;
    st_nodup : NoDup (keys o);
    st_fresh : forall a, In a (keys o) -> ~ In a (m_done m) /\ In a agents;
    st_mono : incl (m_done m) (m_done m');
    st_new : forall a, In a (m_done m') -> In a (m_done m) \/ In a (keys o);
    st_flag : done_stable -> o_all o = false ->
              forall a, In (a, true) (o_done o) -> In a (m_done m');
    st_unflag : done_stable -> o_all o = false ->
                forall a, In (a, false) (o_done o) -> ~ In a (m_done m')
  }.

  Lemma step_post_done_iff m o m' :
    step_post m o m' -> done_stable -> o_all o = false ->
    forall a, In a (m_done m') <-> In a (m_done m) \/ In (a, true) (o_done o).
  Proof.
    intros [W ND Fr Mo Nw Fl Un] St0 Ha a. split.
    - intros H. destruct (Nw a H) as [H1|H1]; [left; exact H1|]. right.
      destruct W as (_ & W2 & _). rewrite <- W2 in H1.
      apply in_map_iff in H1 as ([a' b] & E & Hin). simpl in E. subst a'.
      destruct b; [exact Hin|]. exfalso. apply (Un St0 Ha a Hin), H.
    - intros [H|H]; [apply Mo, H|apply (Fl St0 Ha), H].
  Qed.

  Lemma wfo_done_key (o : out Obs Info) a b : wfo o -> In (a, b) (o_done o) -> In a (keys o).
  Proof.
    intros (_ & W2 & _) H. rewrite <- W2. change a with (fst (a, b)). apply in_map, H.
  Qed.

  (* ---- all-step ---- *)
  Lemma all_step_post m acts sh :
    existsb (fun kv => memb (fst kv) (m_done m)) acts = false ->
    exists o m', all_step Sim m acts sh = (ROut o, m') /\ step_post m o m' /\
      keys o = live Sim (m_done m) /\
      m_done m' = m_done m ++ map fst (filter snd (o_done o)) /\
      o_all o = s_all (m_sim m') || all_in (m_done m') /\ m_ptr m' = m_ptr m.
  Proof.
    intros H. destruct (all_step_accept Sim m acts sh H) as (o & m' & E & K & W & G & D & Al & Dn).
    exists o, m'. split; [exact E|].
    assert (Hp : m_ptr m' = m_ptr m).
    { unfold all_step in E. rewrite H in E.
      destruct (thread s_obs _ _) as [? ?]. destruct (thread (sim_reward Sim) _ _) as [? ?].
      injection E as _ <-. reflexivity. }
    split; [|repeat split; assumption].
    assert (Hk : forall a b, In (a, b) (o_done o) -> In a (keys o)) by (intros; eapply wfo_done_key; eauto).
    constructor.
    - exact W.
    - rewrite K. apply NoDup_filter, agents_NoDup.
    - intros a Ha. rewrite K in Ha. apply filter_In in Ha as [Ha Hm].
      split; [apply memb_false_In, negb_true_iff, Hm|exact Ha].
    - rewrite D. apply incl_appl, incl_refl.
    - intros a Ha. rewrite D in Ha. apply in_app_or in Ha as [Ha|Ha]; [left; exact Ha|right].
      apply in_map_iff in Ha as ([a' b] & E1 & Hin). apply filter_In in Hin as [Hin _].
      simpl in E1. subst. eapply Hk, Hin.
    - intros _ _ a Ha. rewrite D. apply in_or_app. right.
      change a with (fst (a, true)). apply in_map. apply filter_In. split; [exact Ha|reflexivity].
    - intros _ _ a Ha C. rewrite D in C. apply in_app_or in C as [C|C].
      + assert (Hka : In a (keys o)) by (eapply Hk, Ha). rewrite K in Hka.
        apply filter_In in Hka as [_ Hm]. apply negb_true_iff, memb_false_In in Hm. contradiction.
      + apply in_map_iff in C as ([a' b] & E1 & Hin). apply filter_In in Hin as [Hin Hb].
        simpl in E1, Hb. subst.
        (* the dict of done flags has one entry per agent *)
        rewrite Dn in Ha, Hin.
        apply in_map_iff in Ha as (x & Ex & _). apply in_map_iff in Hin as (y & Ey & _).
        injection Ex as <- Ex. injection Ey as Ey1 Ey2. subst y. congruence.
  Qed.

  (* ---- the flush of a finished simulation (turn-based and dynamic-order) ---- *)
  Lemma flush_post m s1 o s2 :
    flush Sim s1 (m_done m) agents (empty_out true) = (o, s2) ->
    step_post m o {| m_sim := s2; m_done := m_done m; m_ptr := m_ptr m |} /\
    keys o = live Sim (m_done m) /\ o_all o = true.
  Proof.
    intros E. pose proof (flush_spec Sim (m_done m) agents s1 (empty_out true)) as F.
    rewrite E in F. cbn [fst snd] in F. destruct F as (K & W & Al & _).
    cbn in K. split; [|split; [exact K|exact Al]].
    constructor; cbn [m_done].
    - apply W, wfo_empty.
    - rewrite K. apply NoDup_filter, agents_NoDup.
    - intros a Ha. rewrite K in Ha. apply filter_In in Ha as [Ha Hm].
      split; [apply memb_false_In, negb_true_iff, Hm|exact Ha].
    - apply incl_refl.
    - intros a Ha. left. exact Ha.
    - intros _ C. rewrite Al in C. discriminate.
    - intros _ C. rewrite Al in C. discriminate.
  Qed.

  Lemma search_step_post pool m s1 o s2 d ks p :
    (forall a, In a pool -> In a agents) ->
    search_post Sim pool s1 (m_done m) (empty_out false) o s2 d ks ->
    step_post m o {| m_sim := s2; m_done := d; m_ptr := p |} /\ keys o = ks.
  Proof.
    intros Hpool [P1 P2 P3 P4 P5 P6 P7 P8]. cbn in P1.
    split; [|exact P1]. constructor; cbn [m_done].
    - apply P2, wfo_empty.
    - rewrite P1. exact P5.
    - intros a Ha. rewrite P1 in Ha. destruct (P4 a Ha) as [N1 N2]. split; [exact N1|apply Hpool, N2].
    - destruct P6 as (nd & -> & _). apply incl_appl, incl_refl.
    - intros a Ha. destruct P6 as (nd & -> & Hnd). apply in_app_or in Ha as [Ha|Ha]; [left; exact Ha|].
      right. rewrite P1. apply Hnd, Ha.
    - intros St0 _ a Ha. destruct P7 as (dl & E1 & _ & _ & E4 & _). cbn in E1. rewrite E1 in Ha.
      apply (E4 St0), Ha.
    - intros St0 _ a Ha. destruct P7 as (dl & E1 & _ & _ & _ & E5). cbn in E1. rewrite E1 in Ha.
      apply (E5 St0), Ha.
  Qed.

  Lemma all_in_false_of_witness d : (exists a, In a order /\ ~ In a d) -> all_in d = false.
  Proof.
    intros (a & Ha & Hn). destruct (all_in d) eqn:E; [|reflexivity].
    exfalso. apply Hn. apply (proj1 (all_in_spec Sim d) E). apply order_In, Ha.
  Qed.

  (* ---- turn-based ---- *)
  Lemma turn_step_post m acts :
    acts <> [] ->
    existsb (fun kv => memb (fst kv) (m_done m)) acts = false ->
    L <> 0 -> m_ptr m < L -> incl nonlearning (m_done m) ->
    (exists a, In a order /\ ~ In a (m_done m)) ->
    exists o m', turn_step Sim m acts = (ROut o, m') /\ step_post m o m' /\
      (o_all o = false ->
         m_ptr m' < L /\ all_in (m_done m') = false /\
         (done_stable -> exists front last,
              o_done o = map (fun a => (a, true)) front ++ [(last, false)])).
  Proof.
    intros Hne Hex HL Hp Hnl Hw. unfold turn_step, turn_step_gen.
    destruct acts as [|[a0 x0] acts']; [contradiction|]. rewrite Hex.
    set (s1 := s_step (m_sim m) ((a0, x0) :: acts')).
    destruct (s_all s1) eqn:Eall.
    - destruct (flush Sim s1 (m_done m) agents (empty_out true)) as [o s2] eqn:Ef.
      destruct (flush_post m s1 o s2 Ef) as (SP & _ & Al).
      eexists. eexists. split; [reflexivity|]. split; [exact SP|].
      intros C. rewrite Al in C. discriminate.
    - destruct (turn_search Sim (S L) s1 (m_done m) (m_ptr m) (empty_out false)) as [o s2 d p|] eqn:Es.
      + destruct (turn_search_post Sim _ _ _ _ _ _ _ _ _ HL Hp Es) as (Hp' & ks & SP).
        destruct (search_step_post order m s1 o s2 d ks p (order_In Sim) SP) as (PP & K).
        eexists. eexists. split; [reflexivity|]. split; [exact PP|].
        intros Ho. cbn [m_ptr m_done]. split; [exact Hp'|]. split.
        * destruct SP as [_ _ _ _ _ _ _ P8]. rewrite <- P8; [exact Ho|reflexivity|].
          apply all_in_false_of_witness, Hw.
        * intros St0.
          destruct (turn_search_shape Sim (S L) St0 _ _ _ _ _ _ _ _ Es) as (front & last & b & E1 & E2 & _).
          cbn in E1. exists front, last. destruct b; [|exact E1].
          rewrite (E2 eq_refl) in Ho. discriminate.
      + exfalso. apply (turn_search_terminates Sim s1 (m_done m) (m_ptr m) (empty_out false) HL Hp Hnl Hw Es).
  Qed.

  (* ---- dynamic-order ---- *)
  Definition next_ok : Prop := forall s, NoDup (s_next s) /\ incl (s_next s) agents.

  Lemma dyn_step_post m acts :
    next_ok ->
    existsb (fun kv => memb (fst kv) (m_done m)) acts = false ->
    exists o m', dyn_step Sim m acts = (ROut o, m') /\ step_post m o m'.
  Proof.
    intros Hn Hex. unfold dyn_step. rewrite Hex.
    set (s1 := s_step (m_sim m) acts).
    destruct (s_all s1) eqn:Eall.
    - destruct (flush Sim s1 (m_done m) agents (empty_out true)) as [o s2] eqn:Ef.
      destruct (flush_post m s1 o s2 Ef) as (SP & _ & _).
      eexists. eexists. split; [reflexivity|exact SP].
    - destruct (dyn_loop Sim s1 (m_done m) (s_next s1) (empty_out false)) as [[o s2] d] eqn:Ed.
      destruct (Hn s1) as [ND Hin].
      pose proof (dyn_loop_post Sim _ _ _ _ _ _ _ ND Hin Ed) as SP.
      destruct (search_step_post _ m s1 o s2 d _ (m_ptr m) Hin SP) as (PP & _).
      eexists. eexists. split; [reflexivity|exact PP].
  Qed.

  (* ---- resets ---- *)
  Lemma all_reset_spec m :
    exists obs m', all_reset Sim m = (RObs obs, m') /\ map fst obs = order /\
                   m_done m' = nonlearning /\ m_ptr m' = m_ptr m.
  Proof.
    unfold all_reset. fold (live Sim nonlearning). rewrite live_nonlearning.
    pose proof (thread_keys s_obs (sim_reset Sim (m_sim m)) order) as K.
    destruct (thread s_obs (sim_reset Sim (m_sim m)) order) as [obs s2]. cbn [fst] in K.
    eexists. eexists. split; [reflexivity|]. cbn. repeat split. exact K.
  Qed.

  Lemma turn_reset_spec m :
    L <> 0 ->
    exists a ob m', turn_reset Sim m = (RObs [(a, ob)], m') /\ In a order /\
                    m_done m' = nonlearning /\ m_ptr m' < L.
  Proof.
    intros HL. unfold turn_reset. destruct order as [|a0 l] eqn:Eo; [contradiction|].
    cbn [nth]. destruct (s_obs (sim_reset Sim (m_sim m)) a0) as [ob s2].
    exists a0, ob. eexists. split; [reflexivity|]. cbn [m_done m_ptr].
    split; [left; reflexivity|]. split; [reflexivity|]. apply Nat.mod_upper_bound. exact HL.
  Qed.

  Lemma dyn_reset_spec m :
    exists obs m', dyn_reset Sim m = (RObs obs, m') /\
                   map fst obs = s_next (sim_reset Sim (m_sim m)) /\ m_done m' = [].
  Proof.
    unfold dyn_reset.
    pose proof (thread_keys s_obs (sim_reset Sim (m_sim m)) (s_next (sim_reset Sim (m_sim m)))) as K.
    destruct (thread s_obs (sim_reset Sim (m_sim m)) (s_next (sim_reset Sim (m_sim m)))) as [obs s2].
    cbn [fst] in K. eexists. eexists. split; [reflexivity|]. split; [exact K|reflexivity].
  Qed.
End M.

(* ================================================================== the OpenSpiel adapter *)
Lemma pick_live_some ks dn a :
  pick_live ks dn = PSome a -> In a ks /\ alookup a dn = Some false.
Proof.
  induction ks as [|b ks IH]; simpl; [discriminate|].
  destruct (alookup b dn) as [[|]|] eqn:E; try discriminate.
  - intros H. destruct (IH H). split; [right|]; assumption.
  - intros H. injection H as <-. split; [left; reflexivity|exact E].
Qed.

Lemma pick_live_total ks dn :
  (forall a, In a ks -> alookup a dn <> None) ->
  pick_live ks dn <> PKeyErr.
Proof.
  induction ks as [|b ks IH]; simpl; intros H; [discriminate|].
  destruct (alookup b dn) as [[|]|] eqn:E.
  - apply IH. intros a Ha. apply H. right. exact Ha.
  - discriminate.
  - exfalso. apply (H b); [left; reflexivity|exact E].
Qed.

Lemma pick_live_finds ks dn a :
  In a ks -> alookup a dn = Some false ->
  (forall b, In b ks -> alookup b dn <> None) ->
  exists a', pick_live ks dn = PSome a'.
Proof.
  induction ks as [|b ks IH]; simpl; intros Ha E H; [contradiction|].
  destruct (alookup b dn) as [[|]|] eqn:Eb.
  - destruct Ha as [->|Ha]; [congruence|]. apply IH; [exact Ha|exact E|].
    intros c Hc. apply H. right. exact Hc.
  - eexists. reflexivity.
  - exfalso. apply (H b); [left; reflexivity|exact Eb].
Qed.

Lemma combine_In_fst {X} (l : list nat) (al : list X) a :
  length al = length l -> In a l -> exists x, In (a, x) (combine l al).
Proof.
  revert al. induction l as [|b l IH]; intros al Hl Ha; [contradiction|].
  destruct al as [|x al]; [discriminate|]. simpl in Hl. injection Hl as Hl.
  destruct Ha as [->|Ha].
  - exists x. left. reflexivity.
  - destruct (IH al Hl Ha) as (y & Hy). exists y. right. exact Hy.
Qed.

Lemma combine_fst_In {X} (l : list nat) (al : list X) a x : In (a, x) (combine l al) -> In a l.
Proof. intros H. apply in_combine_l in H. exact H. Qed.

Section A.
  Context {St Obs Info Act : Type}.
  Variable Sim : simulation St Obs Info Act.
  Variable nact : nat -> nat.
  Variable disc : nat -> Z.
  Notation agents := (agents Sim).
  Notation order := (order Sim).
  Notation nonlearning := (nonlearning Sim).
  Notation all_in := (all_in Sim).
  Notation done_stable := (done_stable Sim).
  Notation L := (length order).
  Notation os_reset := (os_reset Sim nact).
  Notation os_step := (os_step Sim nact disc).
  Notation os_call := (os_call Sim nact disc).
  Notation append_obs := (append_obs Sim).
  Notation append_rew := (append_rew Sim).
  Notation legal_all := (legal_all Sim nact).
  Notation discounts := (discounts Sim disc).

  Definition applicable (k : mgr) : Prop := k = MAll \/ k = MTurn.

  (* the adapter's invariant while an episode is running *)
  Record oinv (k : mgr) (st : ostate St) : Prop := {
    oi_nl : incl nonlearning (m_done (os_m st));
    oi_live : exists a, In a order /\ ~ In a (m_done (os_m st));
    oi_turn : k = MTurn ->
              m_ptr (os_m st) < L /\
              exists c, os_cur st = Some c /\ In c order /\ ~ In c (m_done (os_m st))
  }.

  Definition ostate_ok (k : mgr) (st : ostate St) : Prop := os_sr st = false -> oinv k st.

  Definition same_agents (l m : list nat) : Prop := NoDup l /\ forall a, In a l <-> In a m.

  (* ---- _append_obs / _append_reward ---- *)
  Definition missing (ks : list nat) : list nat := filter (fun a => negb (memb a ks)) order.

  Lemma append_obs_keys s obs :
    map fst (fst (append_obs s obs)) = map fst obs ++ missing (map fst obs).
  Proof.
    unfold Adapters.append_obs. fold (missing (map fst obs)).
    pose proof (thread_keys (sim_obs Sim) s (missing (map fst obs))) as K.
    destruct (thread (sim_obs Sim) s (missing (map fst obs))) as [extra s']. cbn [fst] in *.
    rewrite map_app, K. reflexivity.
  Qed.

  Lemma append_obs_prefix s obs : exists extra, fst (append_obs s obs) = obs ++ extra.
  Proof.
    unfold Adapters.append_obs.
    destruct (thread (sim_obs Sim) s _) as [extra s']. exists extra. reflexivity.
  Qed.

  Lemma append_rew_keys rew : map fst (append_rew rew) = map fst rew ++ missing (map fst rew).
  Proof.
    unfold Adapters.append_rew. fold (missing (map fst rew)).
    rewrite map_app, map_map. cbn. rewrite map_id. reflexivity.
  Qed.

  Lemma completed_same ks :
    NoDup ks -> incl ks order -> same_agents (ks ++ missing ks) order.
  Proof.
    intros ND Hin. split.
    - apply NoDup_app; [exact ND|apply NoDup_filter, order_NoDup|].
      intros a Ha C. apply filter_In in C as [_ C]. apply negb_true_iff, memb_false_In in C.
      contradiction.
    - intros a. split.
      + intros H. apply in_app_or in H as [H|H]; [apply Hin, H|]. apply filter_In in H as [H _]. exact H.
      + intros H. apply in_or_app. destruct (memb a ks) eqn:E.
        * left. apply memb_In, E.
        * right. apply filter_In. split; [exact H|]. rewrite E. reflexivity.
  Qed.

  Lemma legal_keys : map fst legal_all = order.
  Proof. unfold Adapters.legal_all. rewrite map_map. cbn. apply map_id. Qed.
  Lemma disc_keys : map fst discounts = order.
  Proof. unfold Adapters.discounts. rewrite map_map. cbn. apply map_id. Qed.
  Lemma order_same : same_agents order order.
  Proof. split; [apply order_NoDup|]. intros a. split; intros H; exact H. Qed.

  (* ---- what a resetting call does ---- *)
  Definition reset_post (k : mgr) (st : ostate St) (ev : oevent Obs Info Act) (st' : ostate St) : Prop :=
    exists obs m1 ts,
      do_call Sim k (os_m st) CReset = (RObs obs, m1) /\
      ev = mk_ev (ATime ts) [(CReset, RObs obs)] false /\
      ts_type ts = FIRST /\ ts_rew ts = None /\ ts_disc ts = None /\ ts_legal ts = legal_all /\
      ts_obs ts = fst (append_obs (m_sim m1) obs) /\
      NoDup (map fst obs) /\ incl (map fst obs) order /\
      In (ts_cur ts) (map fst obs) /\
      m_done m1 = nonlearning /\
      st' = {| os_m := with_sim m1 (snd (append_obs (m_sim m1) obs)); os_sr := false;
               os_cur := Some (ts_cur ts) |} /\
      oinv k st'.

  Hypothesis has_learner : order <> [].

  Lemma L_pos : L <> 0.
  Proof. destruct order; [contradiction|discriminate]. Qed.

  Lemma learner_outside_nonlearning : exists a, In a order /\ ~ In a nonlearning.
  Proof.
    destruct order as [|a l] eqn:E; [contradiction|]. exists a.
    assert (Ha : In a order) by (rewrite E; left; reflexivity). rewrite <- E.
    split; [exact Ha|]. intros C. apply order_spec in Ha. apply nonlearning_spec in C.
    destruct Ha, C. congruence.
  Qed.

  Lemma os_reset_post k st :
    applicable k -> reset_post k st (fst (os_reset k st)) (snd (os_reset k st)).
  Proof.
    intros [-> | ->]; unfold Adapters.os_reset, do_call.
    - destruct (all_reset_spec Sim (os_m st)) as (obs & m1 & E & K & D & P). rewrite E.
      destruct obs as [|[a ob] obs'] eqn:Eobs.
      { exfalso. simpl in K. apply has_learner. symmetry. exact K. }
      assert (Ha : In a order) by (rewrite <- K; left; reflexivity).
      assert (Hm : memb a order = true) by (apply memb_In, Ha). rewrite Hm.
      destruct (append_obs (m_sim m1) ((a, ob) :: obs')) as [obs2 s2] eqn:Ea.
      cbn [fst snd]. exists ((a, ob) :: obs'), m1. eexists. split; [unfold do_call; exact E|].
      split; [reflexivity|]. cbn [ts_type ts_rew ts_disc ts_legal ts_obs ts_cur].
      rewrite Ea. cbn [fst snd]. repeat split; try reflexivity.
      + rewrite K. apply order_NoDup.
      + rewrite K. apply incl_refl.
      + left. reflexivity.
      + exact D.
      + cbn. rewrite D. apply incl_refl.
      + cbn. rewrite D. apply learner_outside_nonlearning.
      + discriminate.
      + discriminate.
    - destruct (turn_reset_spec Sim (os_m st) L_pos) as (a & ob & m1 & E & Ha & D & P). rewrite E.
      assert (Hm : memb a order = true) by (apply memb_In, Ha). rewrite Hm.
      destruct (append_obs (m_sim m1) [(a, ob)]) as [obs2 s2] eqn:Ea.
      cbn [fst snd]. exists [(a, ob)], m1. eexists. split; [unfold do_call; exact E|].
      split; [reflexivity|]. cbn [ts_type ts_rew ts_disc ts_legal ts_obs ts_cur].
      rewrite Ea. cbn [fst snd].
      assert (Hnd : ~ In a nonlearning).
      { intros C. apply order_spec in Ha. apply nonlearning_spec in C. destruct Ha, C. congruence. }
      repeat split; try reflexivity.
      + cbn. repeat constructor. intros [].
      + intros x [<-|[]]. exact Ha.
      + left. reflexivity.
      + exact D.
      + cbn. rewrite D. apply incl_refl.
      + cbn. rewrite D. apply learner_outside_nonlearning.
      + cbn. exact P.
      + cbn. exists a. rewrite D. repeat split; assumption.
  Qed.

  (* ---- what an in-episode step with a well-formed action list does ---- *)
  Definition wf_al (k : mgr) (al : list Act) : Prop :=
    if is_turn k then al <> [] else length al = length order.

  Definition exp_dict (k : mgr) (st : ostate St) (al : list Act) : list (nat * Act) :=
    if is_turn k then
      match os_cur st, al with Some c, x :: _ => [(c, x)] | _, _ => [] end
    else filter (fun kv => negb (memb (fst kv) (m_done (os_m st)))) (combine order al).

  Definition stepped (k : mgr) (st : ostate St) (al : list Act) (sh : option (list (nat * Act)))
             (ev : oevent Obs Info Act) (st' : ostate St) : Prop :=
    exists acts o m1 ts,
      acts = exp_dict k st al /\ acts <> [] /\
      (forall a, In a (map fst acts) -> ~ In a (m_done (os_m st))) /\
      do_call Sim k (os_m st) (CStep acts (match sh with Some l => l | None => acts end))
        = (ROut o, m1) /\
      step_post Sim (os_m st) o m1 /\
      ev = mk_ev (ATime ts)
                 [(CStep acts (match sh with Some l => l | None => acts end), ROut o)] false /\
      ts_type ts = (if o_all o then LAST else MID) /\
      ts_rew ts = Some (append_rew (o_rew o)) /\ ts_disc ts = Some discounts /\
      ts_legal ts = legal_all /\
      ts_obs ts = fst (append_obs (m_sim m1) (o_obs o)) /\
      incl (keys o) order /\ In (ts_cur ts) (keys o) /\
      st' = {| os_m := with_sim m1 (snd (append_obs (m_sim m1) (o_obs o))); os_sr := o_all o;
               os_cur := Some (ts_cur ts) |} /\
      (o_all o = false ->
       oinv k st' /\
       (k = MTurn -> In (ts_cur ts, false) (o_done o) /\ ~ In (ts_cur ts) (m_done m1))).

  Lemma keys_in_order (m : mstate St) (o : out Obs Info) m1 :
    incl nonlearning (m_done m) -> step_post Sim m o m1 -> incl (keys o) order.
  Proof.
    intros Hn SP a Ha. destruct (st_fresh Sim _ _ _ SP a Ha) as [N1 N2].
    apply (outside_is_order Sim (m_done m)); assumption.
  Qed.

  Lemma wfo_lookup_done (o : out Obs Info) a : wfo o -> In a (keys o) -> alookup a (o_done o) <> None.
  Proof. intros (_ & W2 & _) Ha C. apply alookup_None in C. apply C. rewrite W2. exact Ha. Qed.

  (* the common tail of a step: from the manager's answer to the time step *)
  Lemma step_tail k st (acts shl : list (nat * Act)) (o : out Obs Info) m1 :
    applicable k ->
    os_sr st = false -> oinv k st ->
    step_post Sim (os_m st) o m1 -> keys o <> [] ->
    (o_all o = false ->
       incl nonlearning (m_done m1) /\ (exists a, In a order /\ ~ In a (m_done m1)) /\
       (k = MTurn -> m_ptr m1 < L /\
          (done_stable -> exists front last,
               o_done o = map (fun a => (a, true)) front ++ [(last, false)]))) ->
    (k = MTurn -> done_stable) ->
    exists ts st',
      (match next_player true o with
       | PSome a =>
           if memb a order then
             let ty := if o_all o then LAST else MID in
             let (obs', s') := append_obs (m_sim m1) (o_obs o) in
             (mk_ev (ATime {| ts_type := ty; ts_obs := obs'; ts_legal := legal_all;
                              ts_cur := a; ts_rew := Some (append_rew (o_rew o));
                              ts_disc := Some discounts |}) [(CStep acts shl, ROut o)] false,
              {| os_m := with_sim m1 s'; os_sr := o_all o; os_cur := Some a |})
           else (mk_ev AReject [(CStep acts shl, ROut o)] false,
                 {| os_m := m1; os_sr := os_sr st; os_cur := os_cur st |})
       | _ => (mk_ev AError [(CStep acts shl, ROut o)] false,
               {| os_m := m1; os_sr := os_sr st; os_cur := os_cur st |})
       end) = (mk_ev (ATime ts) [(CStep acts shl, ROut o)] false, st') /\
      ts_type ts = (if o_all o then LAST else MID) /\
      ts_rew ts = Some (append_rew (o_rew o)) /\ ts_disc ts = Some discounts /\
      ts_legal ts = legal_all /\
      ts_obs ts = fst (append_obs (m_sim m1) (o_obs o)) /\
      incl (keys o) order /\ In (ts_cur ts) (keys o) /\
      st' = {| os_m := with_sim m1 (snd (append_obs (m_sim m1) (o_obs o))); os_sr := o_all o;
               os_cur := Some (ts_cur ts) |} /\
      (o_all o = false ->
       oinv k st' /\
       (k = MTurn -> In (ts_cur ts, false) (o_done o) /\ ~ In (ts_cur ts) (m_done m1))).
  Proof.
    intros Hk Hsr Inv SP Hne Hnext Hst.
    pose proof (keys_in_order _ _ _ (oi_nl _ _ Inv) SP) as Hord.
    pose proof (st_wfo Sim _ _ _ SP) as W.
    pose proof (st_nodup Sim _ _ _ SP) as ND.
    (* the player named *)
    assert (Hpl : exists a, next_player true o = PSome a /\ In a (keys o) /\
                  (o_all o = false -> k = MTurn ->
                   In (a, false) (o_done o) /\ ~ In a (m_done m1))).
    { unfold next_player. unfold keys in Hne, Hord, ND |- *.
      destruct (o_obs o) as [|[a0 ob0] rest] eqn:Eo; [contradiction|].
      rewrite <- Eo in *. fold (keys o) in *.
      assert (Htot : forall b, In b (keys o) -> alookup b (o_done o) <> None)
        by (intros b Hb; apply wfo_lookup_done; assumption).
      destruct (pick_live (keys o) (o_done o)) as [a| |] eqn:Ep.
      - destruct (pick_live_some _ _ _ Ep) as [Ha El]. exists a. split; [reflexivity|].
        split; [exact Ha|]. intros Hall Hkt. apply alookup_In in El. split; [exact El|].
        apply (st_unflag Sim _ _ _ SP (Hst Hkt) Hall a El).
      - exists a0. split; [reflexivity|]. split; [unfold keys; rewrite Eo; left; reflexivity|].
        intros Hall Hkt. exfalso.
        destruct (Hnext Hall) as (_ & _ & Ht). destruct (Ht Hkt) as (_ & Hshape).
        destruct (Hshape (Hst Hkt)) as (front & last & Esh).
        assert (Hin : In (last, false) (o_done o)) by (rewrite Esh; apply in_or_app; right; left; reflexivity).
        assert (Hkl : In last (keys o)) by (eapply wfo_done_key; eauto).
        assert (El : alookup last (o_done o) = Some false).
        { apply alookup_NoDup; [|exact Hin]. destruct W as (_ & W2 & _). rewrite W2. exact ND. }
        destruct (pick_live_finds _ _ _ Hkl El Htot) as (a' & Ea'). congruence.
      - exfalso. apply (pick_live_total _ _ Htot Ep). }
    destruct Hpl as (a & Ea & Hak & Hturn). rewrite Ea.
    assert (Hm : memb a order = true) by (apply memb_In, Hord, Hak). rewrite Hm.
    destruct (append_obs (m_sim m1) (o_obs o)) as [obs' s'] eqn:Eapp.
    eexists. eexists. split; [reflexivity|]. cbn [ts_type ts_rew ts_disc ts_legal ts_obs ts_cur fst snd].
    repeat (split; [reflexivity|]). split; [exact Hord|]. split; [exact Hak|].
    split; [reflexivity|]. intros Hall. destruct (Hnext Hall) as (N1 & N2 & N3). split.
    - constructor; cbn [os_m os_sr os_cur with_sim m_done m_ptr].
      + exact N1.
      + exact N2.
      + intros Hkt. split; [apply (N3 Hkt)|].
        exists a. split; [reflexivity|]. split; [apply Hord, Hak|]. apply (Hturn Hall Hkt).
    - intros Hkt. apply (Hturn Hall Hkt).
  Qed.

  Lemma filter_existsb_false (d : list nat) (l : list (nat * Act)) :
    existsb (fun kv => memb (fst kv) d) (filter (fun kv => negb (memb (fst kv) d)) l) = false.
  Proof.
    induction l as [|kv l IH]; simpl; [reflexivity|].
    destruct (memb (fst kv) d) eqn:E; simpl; [exact IH|]. rewrite E. exact IH.
  Qed.

  Lemma os_step_stepped k st al sh :
    applicable k -> (k = MTurn -> done_stable) ->
    os_sr st = false -> oinv k st -> wf_al k al ->
    stepped k st al sh (fst (os_step k st al sh)) (snd (os_step k st al sh)).
  Proof.
    intros Hk Hst Hsr Inv Hwf. pose proof Hk as Hk0. destruct Hk as [-> | ->].
    - (* simultaneous *)
      unfold wf_al in Hwf. cbn [is_turn] in Hwf.
      set (m := os_m st) in *.
      remember (filter (fun kv : nat * Act => negb (memb (fst kv) (m_done m))) (combine order al)) as d1 eqn:Ed1.
      assert (Hne : d1 <> []).
      { destruct (oi_live _ _ Inv) as (a & Ha & Hn). destruct (combine_In_fst order al a Hwf Ha) as (x & Hx).
        intros C. assert (Hin : In (a, x) d1).
        { rewrite Ed1. apply filter_In. split; [exact Hx|]. cbn [fst].
          apply negb_true_iff, memb_false_In, Hn. }
        rewrite C in Hin. exact Hin. }
      assert (Hex : existsb (fun kv => memb (fst kv) (m_done m)) d1 = false)
        by (rewrite Ed1; apply filter_existsb_false).
      set (shl := match sh with Some l => l | None => d1 end).
      destruct (all_step_post Sim m d1 shl Hex) as (o & m1 & E & SP & K & D & Al & P).
      assert (Hkne : keys o <> []).
      { destruct (oi_live _ _ Inv) as (a & Ha & Hn). rewrite K. intros C.
        assert (Hin : In a (live Sim (m_done m))).
        { apply filter_In. split; [apply order_In, Ha|]. apply negb_true_iff, memb_false_In, Hn. }
        rewrite C in Hin. exact Hin. }
      assert (Hnext : o_all o = false ->
                incl nonlearning (m_done m1) /\ (exists a, In a order /\ ~ In a (m_done m1)) /\
                (MAll = MTurn -> m_ptr m1 < L /\
                   (done_stable -> exists front last,
                        o_done o = map (fun a => (a, true)) front ++ [(last, false)]))).
      { intros Hall. assert (Hnl : incl nonlearning (m_done m1)).
        { intros a Ha. apply (st_mono Sim _ _ _ SP), (oi_nl _ _ Inv), Ha. }
        split; [exact Hnl|]. split; [|discriminate].
        apply not_all_in_witness; [exact Hnl|]. rewrite Al in Hall.
        apply orb_false_iff in Hall. apply Hall. }
      destruct (step_tail MAll st d1 shl o m1 Hk0 Hsr Inv SP Hkne Hnext Hst)
        as (ts & st' & Etail & T1 & T2 & T3 & T4 & T5 & T6 & T7 & T8 & T9).
      assert (Estep : os_step MAll st al sh = (mk_ev (ATime ts) [(CStep d1 shl, ROut o)] false, st')).
      { unfold Adapters.os_step, os_step_gen. rewrite Hsr. cbn [is_turn].
        rewrite Hwf, Nat.eqb_refl. fold m. rewrite <- Ed1.
        destruct d1 as [|kv rest]; [contradiction|].
        fold shl. unfold do_call. rewrite E. rewrite Hsr in Etail. exact Etail. }
      rewrite Estep. cbn [fst snd]. exists d1, o, m1, ts.
      split; [unfold exp_dict; cbn [is_turn]; exact Ed1|]. split; [exact Hne|].
      split.
      { intros a Ha C. apply in_map_iff in Ha as ([a' x] & Ea & Hin). cbn in Ea. subst a'.
        rewrite Ed1 in Hin. apply filter_In in Hin as [_ Hf]. cbn [fst] in Hf.
        apply negb_true_iff, memb_false_In in Hf. contradiction. }
      split; [unfold do_call; exact E|]. split; [exact SP|]. split; [reflexivity|].
      repeat (split; [assumption|]). exact T9.
    - (* turn-based *)
      unfold wf_al in Hwf. cbn [is_turn] in Hwf.
      destruct (oi_turn _ _ Inv eq_refl) as (Hp & c & Ec & Hc & Hnc).
      destruct al as [|x al']; [contradiction|].
      set (m := os_m st) in *.
      set (d1 := [(c, x)]).
      assert (Hmc : memb c (m_done m) = false) by (apply memb_false_In, Hnc).
      assert (Hex : existsb (fun kv => memb (fst kv) (m_done m)) d1 = false)
        by (cbn; rewrite Hmc; reflexivity).
      set (shl := match sh with Some l => l | None => d1 end).
      assert (Hd1 : d1 <> []) by discriminate.
      destruct (turn_step_post Sim m d1 Hd1 Hex L_pos Hp (oi_nl _ _ Inv) (oi_live _ _ Inv))
        as (o & m1 & E & SP & Hcont).
      assert (Hkne : keys o <> []).
      { (* the step answers for somebody: the acting agent's next observation or the flush *)
        intros C.
        unfold turn_step, turn_step_gen in E. cbn [d1] in E. fold d1 in E. rewrite Hex in E.
        destruct (sim_all Sim (sim_step Sim (m_sim m) d1)) eqn:Eall.
        - destruct (flush Sim _ (m_done m) agents (empty_out true)) as [o' s2] eqn:Ef.
          injection E as <- <-. destruct (flush_post Sim m _ _ _ Ef) as (_ & K & _).
          destruct (oi_live _ _ Inv) as (a & Ha & Hn).
          assert (Hin : In a (live Sim (m_done m))).
          { apply filter_In. split; [apply order_In, Ha|]. apply negb_true_iff, memb_false_In, Hn. }
          rewrite <- K, C in Hin. exact Hin.
        - destruct (turn_search Sim (S L) _ (m_done m) (m_ptr m) (empty_out false)) as [o' s2 d p|] eqn:Es;
            [|discriminate].
          injection E as <- <-.
          destruct (turn_search_visits Sim _ _ _ _ _ _ _ _ _ L_pos Hp Es) as (j & _ & _ & _ & Hin & _).
          rewrite C in Hin. exact Hin. }
      assert (Hnext : o_all o = false ->
                incl nonlearning (m_done m1) /\ (exists a, In a order /\ ~ In a (m_done m1)) /\
                (MTurn = MTurn -> m_ptr m1 < L /\
                   (done_stable -> exists front last,
                        o_done o = map (fun a => (a, true)) front ++ [(last, false)]))).
      { intros Hall. destruct (Hcont Hall) as (Hp' & Hai & Hshape).
        assert (Hnl : incl nonlearning (m_done m1)).
        { intros a Ha. apply (st_mono Sim _ _ _ SP), (oi_nl _ _ Inv), Ha. }
        split; [exact Hnl|]. split; [apply not_all_in_witness; assumption|].
        intros _. split; assumption. }
      destruct (step_tail MTurn st d1 shl o m1 Hk0 Hsr Inv SP Hkne Hnext Hst)
        as (ts & st' & Etail & T1 & T2 & T3 & T4 & T5 & T6 & T7 & T8 & T9).
      assert (Estep : os_step MTurn st (x :: al') sh
                      = (mk_ev (ATime ts) [(CStep d1 shl, ROut o)] false, st')).
      { unfold Adapters.os_step, os_step_gen. rewrite Hsr. cbn [is_turn]. rewrite Ec.
        fold m. cbn [filter fst]. rewrite Hmc. cbn [negb]. fold d1. fold shl.
        unfold do_call. rewrite E. rewrite Hsr in Etail. rewrite Ec in Etail. exact Etail. }
      rewrite Estep. cbn [fst snd]. exists d1, o, m1, ts.
      split; [unfold exp_dict; cbn [is_turn]; rewrite Ec; reflexivity|]. split; [exact Hd1|].
      split; [intros a [<-|[]]; exact Hnc|].
      split; [unfold do_call; exact E|]. split; [exact SP|]. split; [reflexivity|].
      repeat (split; [assumption|]). exact T9.
  Qed.

  (* ---- a malformed action list is refused before anything happens ---- *)
  Lemma wf_al_dec k al : applicable k -> {wf_al k al} + {~ wf_al k al}.
  Proof.
    intros Hk. unfold wf_al. destruct (is_turn k).
    - destruct al; [right; intros C; apply C; reflexivity|left; discriminate].
    - apply Nat.eq_dec.
  Qed.

  Lemma os_step_refused k st al sh :
    applicable k -> os_sr st = false -> ~ wf_al k al ->
    os_step k st al sh = (mk_ev (if is_turn k then AError else AReject) [] false, st).
  Proof.
    intros [-> | ->] Hsr Hwf; unfold wf_al in Hwf; cbn [is_turn] in Hwf;
      unfold Adapters.os_step, os_step_gen; rewrite Hsr; cbn [is_turn].
    - apply Nat.eqb_neq in Hwf. rewrite Hwf. reflexivity.
    - destruct al as [|x al']; [|exfalso; apply Hwf; discriminate].
      destruct (os_cur st); reflexivity.
  Qed.

  (* ---- every call of the adapter is one of three things ---- *)
  Inductive call_case (k : mgr) (st : ostate St) (c : ocall Act)
            (ev : oevent Obs Info Act) (st' : ostate St) : Prop :=
  | cc_reset : c = OReset \/ os_sr st = true -> reset_post k st ev st' -> call_case k st c ev st'
  | cc_step al sh : c = OStep al sh -> os_sr st = false -> wf_al k al ->
                    stepped k st al sh ev st' -> call_case k st c ev st'
  | cc_refused al sh : c = OStep al sh -> os_sr st = false -> ~ wf_al k al -> st' = st ->
                       ev = mk_ev (if is_turn k then AError else AReject) [] false ->
                       call_case k st c ev st'.

  Lemma os_call_cases k st c :
    applicable k -> (k = MTurn -> done_stable) -> ostate_ok k st ->
    call_case k st c (fst (os_call k st c)) (snd (os_call k st c)).
  Proof.
    intros Hk Hst Hok. destruct c as [|al sh].
    - apply cc_reset; [left; reflexivity|]. apply os_reset_post, Hk.
    - unfold Adapters.os_call, os_call_gen. fold (os_step k st al sh).
      destruct (os_sr st) eqn:Hsr.
      + apply cc_reset; [right; exact Hsr|].
        assert (E : os_step k st al sh = os_reset k st)
          by (unfold Adapters.os_step, os_step_gen; rewrite Hsr; reflexivity).
        rewrite E. apply os_reset_post, Hk.
      + destruct (wf_al_dec k al Hk) as [Hwf|Hwf].
        * eapply cc_step; [reflexivity|exact Hsr|exact Hwf|].
          apply os_step_stepped; auto.
        * rewrite (os_step_refused k st al sh Hk Hsr Hwf).
          eapply cc_refused; [reflexivity|exact Hsr|exact Hwf|reflexivity|reflexivity].
  Qed.

  Lemma call_case_ok k st c ev st' :
    ostate_ok k st -> call_case k st c ev st' -> ostate_ok k st'.
  Proof.
    intros Hok [_ RP|al sh _ _ _ SP|al sh _ _ _ -> _]; [| |exact Hok].
    - destruct RP as (obs & m1 & ts & _ & _ & _ & _ & _ & _ & _ & _ & _ & _ & _ & _ & Inv).
      intros _. exact Inv.
    - destruct SP as (acts & o & m1 & ts & _ & _ & _ & _ & _ & _ & _ & _ & _ & _ & _ & _ & _ & -> & T9).
      intros Hsr. cbn in Hsr. apply (T9 Hsr).
  Qed.

  (* the states an adapter can be in: built new, then used in any way *)
  Inductive oreach (k : mgr) : ostate St -> Prop :=
  | or_init s : oreach k (os_init s)
  | or_call st c : oreach k st -> oreach k (snd (os_call k st c)).

  Lemma oreach_ok k st :
    applicable k -> (k = MTurn -> done_stable) -> oreach k st -> ostate_ok k st.
  Proof.
    intros Hk Hst. induction 1 as [s|st c _ IH].
    - intros C. discriminate.
    - eapply call_case_ok; [exact IH|]. apply os_call_cases; assumption.
  Qed.

  (* ================================================================ the clauses of C15 *)
  Definition is_last (ev : oevent Obs Info Act) : bool :=
    match ev_resp ev with ATime ts => match ts_type ts with LAST => true | _ => false end
                     | _ => false end.

  (* (2) every learning agent, and nobody else, appears in observations, legal actions,
     rewards and discounts of every time step *)
  Lemma all_agents_present k st c ts :
    applicable k -> (k = MTurn -> done_stable) -> oreach k st ->
    ev_resp (fst (os_call k st c)) = ATime ts ->
    same_agents (map fst (ts_obs ts)) order /\ same_agents (map fst (ts_legal ts)) order /\
    (forall r, ts_rew ts = Some r -> same_agents (map fst r) order) /\
    (forall d, ts_disc ts = Some d -> same_agents (map fst d) order).
  Proof.
    intros Hk Hst Hr E. pose proof (oreach_ok k st Hk Hst Hr) as Hok.
    destruct (os_call_cases k st c Hk Hst Hok) as [_ RP|al sh _ _ _ SP|al sh _ _ _ _ Eev].
    - destruct RP as (obs & m1 & ts' & _ & Eev & _ & R2 & R3 & R4 & R5 & ND & Hin & _).
      rewrite Eev in E. cbn in E. injection E as <-.
      rewrite R5, append_obs_keys, R4, legal_keys, R2, R3.
      split; [apply completed_same; assumption|]. split; [apply order_same|].
      split; intros ? C; discriminate.
    - destruct SP as (acts & o & m1 & ts' & _ & _ & _ & _ & SP & Eev & _ & R2 & R3 & R4 & R5 & Hin & _).
      rewrite Eev in E. cbn in E. injection E as <-.
      pose proof (st_nodup Sim _ _ _ SP) as ND. pose proof (st_wfo Sim _ _ _ SP) as (W1 & _).
      rewrite R5, append_obs_keys, R4, legal_keys, R2, R3.
      split; [apply completed_same; assumption|]. split; [apply order_same|]. split.
      + intros r Er. injection Er as <-. rewrite append_rew_keys, W1. apply completed_same; assumption.
      + intros d Ed. injection Ed as <-. rewrite disc_keys. apply order_same.
    - rewrite Eev in E. cbn in E. destruct (is_turn k); discriminate.
  Qed.

  (* (4) LAST exactly when the manager reports __all__; FIRST exactly on a reset *)
  Lemma last_iff_all k st c ts :
    applicable k -> (k = MTurn -> done_stable) -> oreach k st ->
    ev_resp (fst (os_call k st c)) = ATime ts ->
    (ts_type ts = LAST <->
       exists acts sh o, ev_calls (fst (os_call k st c)) = [(CStep acts sh, ROut o)] /\ o_all o = true) /\
    (ts_type ts = FIRST <->
       exists obs, ev_calls (fst (os_call k st c)) = [(CReset, RObs obs)]).
  Proof.
    intros Hk Hst Hr E. pose proof (oreach_ok k st Hk Hst Hr) as Hok.
    destruct (os_call_cases k st c Hk Hst Hok) as [_ RP|al sh _ _ _ SP|al sh _ _ _ _ Eev].
    - destruct RP as (obs & m1 & ts' & _ & Eev & R1 & _).
      rewrite Eev in E |- *. cbn in E |- *. injection E as <-. rewrite R1. split; split.
      + discriminate.
      + intros (? & ? & ? & C & _). discriminate.
      + intros _. exists obs. reflexivity.
      + reflexivity.
    - destruct SP as (acts & o & m1 & ts' & _ & _ & _ & _ & _ & Eev & R1 & _).
      rewrite Eev in E |- *. cbn in E |- *. injection E as <-. rewrite R1. split; split.
      + intros H. exists acts, (match sh with Some l => l | None => acts end), o.
        split; [reflexivity|]. destruct (o_all o); [reflexivity|discriminate].
      + intros (? & ? & o' & C & Ho). injection C as _ _ <-. rewrite Ho. reflexivity.
      + destruct (o_all o); discriminate.
      + intros (? & C). discriminate.
    - rewrite Eev in E. cbn in E. destruct (is_turn k); discriminate.
  Qed.

  (* (5) after LAST the adapter resets: _should_reset is set exactly by LAST, and the next
     step() is a reset (one manager reset, no manager step, FIRST) whatever it is given *)
  Lemma reset_after_last k st c :
    applicable k -> (k = MTurn -> done_stable) -> oreach k st ->
    (forall ts, ev_resp (fst (os_call k st c)) = ATime ts ->
                (os_sr (snd (os_call k st c)) = true <-> ts_type ts = LAST)) /\
    (os_sr st = true -> forall al sh,
        os_step k st al sh = os_reset k st /\ reset_post k st (fst (os_reset k st)) (snd (os_reset k st))).
  Proof.
    intros Hk Hst Hr. pose proof (oreach_ok k st Hk Hst Hr) as Hok. split.
    - intros ts E.
      destruct (os_call_cases k st c Hk Hst Hok) as [_ RP|al sh _ _ _ SP|al sh _ _ _ _ Eev].
      + destruct RP as (obs & m1 & ts' & _ & Eev & R1 & _ & _ & _ & _ & _ & _ & _ & _ & Est & _).
        rewrite Eev in E. cbn in E. injection E as <-. rewrite Est, R1. cbn. split; discriminate.
      + destruct SP as (acts & o & m1 & ts' & _ & _ & _ & _ & _ & Eev & R1 & _ & _ & _ & _ & _ & _ & Est & _).
        rewrite Eev in E. cbn in E. injection E as <-. rewrite Est, R1. cbn.
        destruct (o_all o); split; try reflexivity; discriminate.
      + rewrite Eev in E. cbn in E. destruct (is_turn k); discriminate.
    - intros Hsr al sh. split; [|apply os_reset_post, Hk].
      unfold Adapters.os_step, os_step_gen. rewrite Hsr. reflexivity.
  Qed.

  (* (6) turn-based play: the player named by a time step that is not LAST can act *)
  Lemma current_can_act st c ts :
    done_stable -> oreach MTurn st ->
    ev_resp (fst (os_call MTurn st c)) = ATime ts -> ts_type ts <> LAST ->
    let st' := snd (os_call MTurn st c) in
    os_cur st' = Some (ts_cur ts) /\ In (ts_cur ts) order /\
    ~ In (ts_cur ts) (m_done (os_m st')) /\
    ((exists obs, ev_calls (fst (os_call MTurn st c)) = [(CReset, RObs obs)] /\
                  In (ts_cur ts) (map fst obs)) \/
     (exists acts sh o, ev_calls (fst (os_call MTurn st c)) = [(CStep acts sh, ROut o)] /\
                        In (ts_cur ts, false) (o_done o))).
  Proof.
    intros St0 Hr E Hty. assert (Hk : applicable MTurn) by (right; reflexivity).
    assert (Hst : MTurn = MTurn -> done_stable) by (intros _; exact St0).
    pose proof (oreach_ok MTurn st Hk Hst Hr) as Hok.
    destruct (os_call_cases MTurn st c Hk Hst Hok) as [_ RP|al sh _ _ _ SP|al sh _ _ _ _ Eev].
    - destruct RP as (obs & m1 & ts' & _ & Eev & _ & _ & _ & _ & _ & _ & Hin & Hc & D & Est & Inv).
      rewrite Eev in E |- *. cbn in E |- *. injection E as <-. rewrite Est. cbn.
      split; [reflexivity|]. split; [apply Hin, Hc|]. split.
      + rewrite D. intros C. apply Hin in Hc. apply order_spec in Hc. apply nonlearning_spec in C.
        destruct Hc, C. congruence.
      + left. exists obs. split; [reflexivity|exact Hc].
    - destruct SP as (acts & o & m1 & ts' & _ & _ & _ & _ & _ & Eev & R1 & _ & _ & _ & _ & Hin & Hc & Est & T9).
      rewrite Eev in E |- *. cbn in E |- *. injection E as <-. rewrite Est. cbn.
      rewrite R1 in Hty. destruct (o_all o) eqn:Hall; [exfalso; apply Hty; reflexivity|].
      destruct (T9 eq_refl) as (_ & Ht). destruct (Ht eq_refl) as (Hf & Hn).
      split; [reflexivity|]. split; [apply Hin, Hc|]. split; [exact Hn|].
      right. exists acts, (match sh with Some l => l | None => acts end), o. split; [reflexivity|exact Hf].
    - rewrite Eev in E. cbn in E. discriminate.
  Qed.

  (* (7) no fake step is ever taken *)
  Lemma no_fake_step k st c :
    applicable k -> (k = MTurn -> done_stable) -> oreach k st ->
    ev_fake (fst (os_call k st c)) = false.
  Proof.
    intros Hk Hst Hr. pose proof (oreach_ok k st Hk Hst Hr) as Hok.
    destruct (os_call_cases k st c Hk Hst Hok) as [_ RP|al sh _ _ _ SP|al sh _ _ _ _ Eev].
    - destruct RP as (obs & m1 & ts' & _ & Eev & _). rewrite Eev. reflexivity.
    - destruct SP as (acts & o & m1 & ts' & _ & _ & _ & _ & _ & Eev & _). rewrite Eev. reflexivity.
    - rewrite Eev. reflexivity.
  Qed.

  (* (8) progress: a step of a running episode with a well-formed action list performs exactly
     one manager step, with a non-empty dict, which the manager accepts; the adapter continues
     from the manager's new state; the time step is LAST exactly when that step reports __all__ *)
  Lemma progress_step k st al sh :
    applicable k -> (k = MTurn -> done_stable) -> oreach k st ->
    os_sr st = false -> wf_al k al ->
    stepped k st al sh (fst (os_step k st al sh)) (snd (os_step k st al sh)).
  Proof.
    intros Hk Hst Hr Hsr Hwf. apply os_step_stepped; auto.
    apply (oreach_ok k st Hk Hst Hr Hsr).
  Qed.

  (* a play-through: steps until LAST *)
  Fixpoint play (k : mgr) (st : ostate St) (als : list (list Act * option (list (nat * Act))))
    : list (oevent Obs Info Act) :=
    match als with
    | [] => []
    | (al, sh) :: r =>
        let (ev, st') := os_step k st al sh in
        ev :: (if is_last ev then [] else play k st' r)
    end.

  Definition one_manager_step (ev : oevent Obs Info Act) : Prop :=
    exists acts sh o, ev_calls ev = [(CStep acts sh, ROut o)] /\ acts <> [] /\
                      ev_fake ev = false /\ (is_last ev = true <-> o_all o = true).

  Lemma progress_play k als : forall st,
    applicable k -> (k = MTurn -> done_stable) -> oreach k st -> os_sr st = false ->
    Forall (fun p => wf_al k (fst p)) als ->
    Forall one_manager_step (play k st als).
  Proof.
    induction als as [|[al sh] r IH]; intros st Hk Hst Hr Hsr Hwf; [constructor|].
    inversion Hwf as [|? ? Hw Hwr]; subst. cbn [fst] in Hw. cbn [play].
    pose proof (progress_step k st al sh Hk Hst Hr Hsr Hw) as SP.
    assert (Hr' : oreach k (snd (os_step k st al sh))) by (apply (or_call k st (OStep al sh)), Hr).
    destruct (os_step k st al sh) as [ev st'] eqn:E. cbn [fst snd] in *.
    destruct SP as (acts & o & m1 & ts & _ & Hne & _ & _ & _ & Eev & R1 & _ & _ & _ & _ & _ & _ & Est & _).
    assert (Hlast : is_last ev = o_all o).
    { rewrite Eev. unfold is_last. cbn. rewrite R1. destruct (o_all o); reflexivity. }
    constructor.
    - exists acts, (match sh with Some l => l | None => acts end), o.
      split; [rewrite Eev; reflexivity|]. split; [exact Hne|].
      split; [rewrite Eev; reflexivity|]. rewrite Hlast. tauto.
    - destruct (is_last ev) eqn:El; [constructor|]. apply IH; auto.
      rewrite Est. cbn. congruence.
  Qed.
End A.


(* ------------------------------------------------------------------ no action for a done agent *)
Section B.
  Context {St Obs Info Act : Type}.
  Variable Sim : simulation St Obs Info Act.
  Variable nact : nat -> nat.
  Variable disc : nat -> Z.

  Ltac split_matches :=
    repeat match goal with
           | |- context [let (_, _) := ?x in _] => destruct x
           | |- context [match ?x with _ => _ end] => destruct x
           end.

  Lemma os_reset_calls k (st : ostate St) :
    exists r, ev_calls (fst (os_reset Sim nact k st)) = [(@CReset Act, r)].
  Proof.
    unfold os_reset. split_matches; cbn; eexists; reflexivity.
  Qed.

  Lemma os_fake_calls (st : ostate St) :
    ev_calls (fst (os_fake Sim nact disc st)) = @nil (call Act * resp Obs Info).
  Proof. unfold os_fake. split_matches; reflexivity. Qed.

  (* (3) whatever the state and whatever OpenSpiel sends: a dict that reaches the manager has
     no key in done_agents.  Holds for the code before the repair of F4 as well. *)
  Lemma no_done_action fixd k (st : ostate St) c acts shl r :
    In (CStep acts shl, r) (ev_calls (fst (os_call_gen Sim nact disc fixd k st c))) ->
    forall a, In a (map fst acts) -> ~ In a (m_done (os_m st)).
  Proof.
    assert (Hreset : In (CStep acts shl, r) (ev_calls (fst (os_reset Sim nact k st))) -> False).
    { destruct (os_reset_calls k st) as (r0 & E). rewrite E. intros [C|[]]. discriminate. }
    destruct c as [|al sh]; cbn [os_call_gen]; [intros H; destruct (Hreset H)|].
    unfold os_step_gen. destruct (os_sr st); [intros H; destruct (Hreset H)|].
    set (d := m_done (os_m st)).
    assert (Hfilter : forall d0 : list (nat * Act),
              forall a, In a (map fst (filter (fun kv => negb (memb (fst kv) d)) d0)) -> ~ In a d).
    { intros d0 a Ha. apply in_map_iff in Ha as ([a' x] & Ea & Hin). cbn in Ea. subst a'.
      apply filter_In in Hin as [_ Hf]. cbn in Hf. apply memb_false_In, negb_true_iff, Hf. }
    match goal with
    | |- context [match ?dict with inl _ => _ | inr _ => _ end] => destruct dict as [d0|e]
    end; [|cbn; intros []].
    pose proof (Hfilter d0) as Hf.
    destruct (filter (fun kv : nat * Act => negb (memb (fst kv) d)) d0) as [|kv rest] eqn:Ed1.
    - rewrite os_fake_calls. intros [].
    - intros H a Ha. apply Hf.
      assert (E : acts = kv :: rest); [|rewrite <- E; exact Ha].
      revert H. split_matches; cbn; intros [C|[]]; injection C as <- _ _; reflexivity.
  Qed.
End B.


(* ================================================================== the gym adapter *)
Section G.
  Context {St Obs Info Act : Type}.
  Variable Sim : simulation St Obs Info Act.

  (* the single agent's entries of the manager's answer to a gym call *)
  Definition gym_project (a : nat) (c : @gcall Act) (r : resp Obs Info) : @gresp Obs Info :=
    match c, r with
    | GCReset, RObs obs => match alookup a obs with Some ob => GObs ob | None => GError end
    | GCStep _ _, ROut o =>
        match alookup a (o_obs o), alookup a (o_rew o), alookup a (o_done o), alookup a (o_info o) with
        | Some ob, Some rw, Some dn, Some inf => GStep ob rw dn false inf
        | _, _, _, _ => GError
        end
    | _, RReject => GReject
    | _, _ => GError
    end.

  (* the manager call a gym call stands for *)
  Definition gym_to_call (a : nat) (c : @gcall Act) : call Act :=
    match c with
    | GCReset => CReset
    | GCStep x sh => CStep [(a, x)] (match sh with Some l => l | None => [(a, x)] end)
    end.

  (* (1) over any history the gym adapter is the manager itself, called with {agent: action},
     seen through the projection on the agent: same answers, same final manager state *)
  Lemma gym_projection k a cs : forall m,
    map fst (fst (gym_run Sim k a m cs))
      = map (fun cr => gym_project a (fst cr) (snd cr))
            (combine cs (fst (run Sim k m (map (gym_to_call a) cs)))) /\
    map snd (fst (gym_run Sim k a m cs))
      = map (fun cr => [cr]) (combine (map (gym_to_call a) cs) (fst (run Sim k m (map (gym_to_call a) cs)))) /\
    snd (gym_run Sim k a m cs) = snd (run Sim k m (map (gym_to_call a) cs)).
  Proof.
    induction cs as [|c cs IH]; intros m; [repeat split|].
    cbn [gym_run map run].
    destruct c as [|x sh]; cbn [gym_to_call].
    - unfold gym_reset. destruct (do_call Sim k m CReset) as [r m1].
      specialize (IH m1). destruct (gym_run Sim k a m1 cs) as [rs m2].
      destruct (run Sim k m1 (map (gym_to_call a) cs)) as [rs' m2']. cbn [fst snd] in *.
      destruct IH as (I1 & I2 & I3). cbn [map fst snd combine]. rewrite I1, I2, I3.
      repeat split; try (destruct r; reflexivity).
    - unfold gym_step. destruct (do_call Sim k m _) as [r m1].
      specialize (IH m1). destruct (gym_run Sim k a m1 cs) as [rs m2].
      destruct (run Sim k m1 (map (gym_to_call a) cs)) as [rs' m2']. cbn [fst snd] in *.
      destruct IH as (I1 & I2 & I3). cbn [map fst snd combine]. rewrite I1, I2, I3.
      repeat split; try (destruct r; reflexivity).
  Qed.
End G.

(* ================================================================== GymABS *)
Section GA.
  Context {E Obs Info Act : Type}.
  Variable G : genv E Obs Info Act.

  (* after reset() the cache is that of a new object after reset(): nothing of the previous
     episode is left (repair of F5) *)
  Lemma gymabs_reset_fresh e (c : gcache Obs Info) :
    snd (gabs_reset G e c) = snd (gabs_reset G e gabs_fresh).
  Proof.
    unfold gabs_reset, gabs_reset_gen. destruct (ge_reset G e) as [[ob inf] e']. reflexivity.
  Qed.

  Lemma gymabs_reset_getters e (c : gcache Obs Info) :
    let c' := snd (gabs_reset G e c) in
    gabs_get_reward c' = None /\ gabs_get_done c' = None /\ gabs_get_all_done c' = None /\
    gabs_get_obs c' = Some (fst (fst (ge_reset G e))) /\
    gabs_get_info c' = Some (snd (fst (ge_reset G e))).
  Proof.
    unfold gabs_reset, gabs_reset_gen. destruct (ge_reset G e) as [[ob inf] e']. repeat split.
  Qed.
End GA.

Lemma z_opt_eqb_refl o : z_opt_eqb o o = true.
Proof. destruct o; cbn; [apply Z.eqb_refl|reflexivity]. Qed.

Lemma chk_gymabs_hist_model gs : forall cs e c,
  chk_gymabs_hist gs cs (gabs_run true gs e c cs) = 0%Z.
Proof.
  induction cs as [|[|acts] cs IH]; intros e c; [reflexivity| |].
  - cbn [gabs_run]. unfold gabs_reset_gen. cbn [script_genv ge_reset].
    cbn [chk_gymabs_hist andb]. unfold snap_eqb, snap, fresh_reset_snap,
      gabs_get_obs, gabs_get_reward, gabs_get_done, gabs_get_all_done, gabs_get_info.
    cbn. rewrite !Z.eqb_refl. cbn. apply IH.
  - cbn [gabs_run]. destruct (gabs_step (script_genv gs) e c acts) as [[e' c']|]; cbn; apply IH.
Qed.

Lemma chk_gymabs_model_lemma i : chk_gymabs i (gabs_model true i) = true.
Proof.
  unfold chk_gymabs, gabs_model. rewrite chk_gymabs_hist_model. reflexivity.
Qed.


(* ================================================================== the scripted simulation *)
Lemma script_greach_t sc s s' : greach (script_sim sc) s s' -> s_t s' = s_t s.
Proof. induction 1 as [s|s s' a _ IH|s s' a _ IH]; [reflexivity|exact IH|exact IH]. Qed.

Lemma script_done_stable sc : done_stable (script_sim sc).
Proof.
  intros s s' a H. cbn. unfold ss_done. rewrite (script_greach_t sc s s' H). reflexivity.
Qed.

Lemma script_order sc : order (script_sim sc) = corder sc.
Proof. reflexivity. Qed.
Lemma script_nonlearning sc : nonlearning (script_sim sc) = c_nonlearn sc.
Proof. reflexivity. Qed.

Lemma kv_eqb_refl x : kv_eqb x x = true.
Proof. unfold kv_eqb. rewrite Nat.eqb_refl, Z.eqb_refl. reflexivity. Qed.
Lemma kvs_eqb_refl l : kvs_eqb l l = true.
Proof. induction l as [|x l IH]; [reflexivity|]. cbn. rewrite kv_eqb_refl. exact IH. Qed.
Lemma zs_eqb_refl l : zs_eqb l l = true.
Proof. induction l as [|x l IH]; [reflexivity|]. cbn. rewrite Z.eqb_refl. exact IH. Qed.
Lemma prefix_kvs_app p x : prefix_kvs p (p ++ x) = true.
Proof. induction p as [|y p IH]; [reflexivity|]. cbn. rewrite kv_eqb_refl. exact IH. Qed.
Lemma skipn_app_exact {X} (p x : list X) : skipn (length p) (p ++ x) = x.
Proof. induction p; [reflexivity|assumption]. Qed.

Lemma memb_ext_In l m : (forall a, In a l <-> In a m) -> forall a, memb a l = memb a m.
Proof.
  intros H a. destruct (memb a l) eqn:E1, (memb a m) eqn:E2; try reflexivity.
  - apply memb_In, H, memb_In in E1. congruence.
  - apply memb_In, H, memb_In in E2. congruence.
Qed.
Lemma memb_ext_iff l m : (forall a, memb a l = memb a m) -> forall a, In a l <-> In a m.
Proof. intros H a. rewrite <- !memb_In, H. tauto. Qed.

Section S.
  Variable i : oinput.
  Notation sc := (oi_sc i).
  Notation k := (oi_k i).
  Notation Sim := (script_sim sc).
  Notation nactf := (fun a => nth a (oi_nact i) O).
  Notation discf := (fun a => nth a (oi_disc i) 0%Z).

  (* well-formed input: an applicable manager and at least one learning agent *)
  Definition owf : Prop := applicable k /\ corder sc <> [].
  Hypothesis Hwf : owf.

  Let Hk : applicable k := proj1 Hwf.
  Let Hl : order Sim <> [] := proj2 Hwf.
  Let Hst : k = MTurn -> done_stable Sim := fun _ => script_done_stable sc.

  Lemma present_same {X} (l : list (nat * X)) :
    same_agents (map fst l) (order Sim) -> present sc l = true.
  Proof.
    intros [ND H]. unfold present. rewrite !andb_true_iff. repeat split.
    - apply nodupb_NoDup, ND.
    - apply forallb_forall. intros a Ha. apply memb_In. apply H, Ha.
    - apply forallb_forall. intros a Ha. apply memb_In. apply H, Ha.
  Qed.

  Lemma legal_ok_all : legal_ok (oi_nact i) (legal_all Sim nactf) = true.
  Proof.
    unfold legal_ok, legal_all. apply forallb_forall. intros al Hal.
    apply in_map_iff in Hal as (a & <- & _). cbn. apply zs_eqb_refl.
  Qed.

  Lemma disc_ok_all : disc_ok (oi_disc i) (discounts Sim discf) = true.
  Proof.
    unfold disc_ok, discounts. apply forallb_forall. intros kv Hkv.
    apply in_map_iff in Hkv as (a & <- & _). cbn. apply Z.eqb_refl.
  Qed.

  Definition orel (st : ostate sst) (g : oghost) : Prop :=
    og_sr g = os_sr st /\
    (os_sr st = false ->
     (forall a, memb a (og_D g) = memb a (m_done (os_m st))) /\
     (is_turn k = true -> og_cur g = os_cur st)).

  Lemma chk_reset_sound st g ev st' :
    reset_post Sim nactf k st ev st' ->
    exists g', chk_reset_ev sc k (oi_nact i) g ev = (0%Z, g') /\ orel st' g'.
  Proof.
    intros (obs & m1 & ts & _ & -> & R1 & R2 & R3 & R4 & R5 & ND & Hin & Hc & D & -> & Inv).
    unfold chk_reset_ev. cbn [ev_calls ev_resp ev_fake mk_ev].
    eexists. split.
    - f_equal. rewrite R1, R2, R3. cbn [stype_eqb is_none andb negb].
      assert (P1 : present sc (ts_obs ts) = true).
      { apply present_same. rewrite R5, append_obs_keys. apply completed_same; assumption. }
      assert (P2 : present sc (ts_legal ts) = true).
      { apply present_same. rewrite R4, legal_keys. apply order_same. }
      rewrite P1, P2, R4, legal_ok_all. cbn [andb negb].
      destruct (append_obs_prefix Sim (m_sim m1) obs) as (extra & Ee). rewrite R5, Ee, prefix_kvs_app.
      cbn [negb].
      assert (C1 : memb (ts_cur ts) (map fst obs) = true) by (apply memb_In, Hc).
      assert (C2 : memb (ts_cur ts) (c_order sc) = true) by (apply memb_In, Hin, Hc).
      assert (C3 : memb (ts_cur ts) (c_nonlearn sc) = false).
      { apply memb_false_In. intros C. apply Hin in Hc. apply order_spec in Hc.
        apply (nonlearning_spec Sim) in C. destruct Hc, C. congruence. }
      rewrite C1, C2, C3. cbn. destruct (is_turn k); reflexivity.
    - split; [reflexivity|]. intros _. cbn. split.
      + intros a. rewrite D. reflexivity.
      + reflexivity.
  Qed.

  Lemma chk_step_sound st g al sh ev st' :
    orel st g -> os_sr st = false -> wf_al Sim k al ->
    stepped Sim nactf discf k st al sh ev st' ->
    exists g', chk_step_ev sc k (oi_nact i) (oi_disc i) g al ev = (0%Z, g') /\ orel st' g'.
  Proof.
    intros [Rs Rr] Hsr Hw (acts & o & m1 & ts & Ea & Hne & Hnd & Ecall & SP & -> & R1 & R2 & R3 & R4 & R5 & Hin & Hc & -> & T9).
    destruct (Rr Hsr) as [RD Rc].
    assert (Eexp : expected_dict sc k g al = Some acts).
    { unfold expected_dict. rewrite Ea. unfold exp_dict, wf_al in *.
      destruct (is_turn k) eqn:Et.
      - rewrite (Rc eq_refl). destruct (os_cur st) as [c|]; [|contradiction].
        destruct al as [|x al']; [contradiction|reflexivity].
      - change (c_order sc) with (order Sim). rewrite Hw, Nat.eqb_refl. f_equal.
        apply filter_ext. intros kv. rewrite RD. reflexivity. }
    unfold chk_step_ev. rewrite Eexp. cbn [ev_calls ev_resp ev_fake mk_ev].
    set (D' := og_D g ++ map fst (filter snd (o_done o))).
    assert (HD' : o_all o = false -> forall a, memb a D' = memb a (m_done m1)).
    { intros Hall. apply memb_ext_In. intros a. unfold D'. rewrite in_app_iff.
      rewrite (step_post_done_iff Sim _ _ _ SP (script_done_stable sc) Hall a).
      rewrite (memb_ext_iff _ _ RD a). apply or_iff_compat_l.
      rewrite in_map_iff. split.
      - intros ([a' b] & E & Hf). apply filter_In in Hf as [Hf Hb]. cbn in E, Hb. subst. exact Hf.
      - intros H. exists (a, true). split; [reflexivity|]. apply filter_In. split; [exact H|reflexivity]. }
    eexists. split.
    - f_equal.
      assert (C2 : existsb (fun kv => memb (fst kv) (og_D g)) acts = false).
      { destruct (existsb _ acts) eqn:E; [|reflexivity]. apply existsb_exists in E as ([a x] & Hx & Hm).
        cbn in Hm. rewrite RD in Hm. apply memb_In in Hm. exfalso.
        apply (Hnd a); [|exact Hm]. change a with (fst (a, x)). apply in_map, Hx. }
      rewrite C2. destruct acts as [|kv0 rest] eqn:Eacts; [contradiction|]. rewrite <- Eacts in *.
      rewrite kvs_eqb_refl. cbn [negb].
      rewrite R1. assert (Ety : stype_eqb (if o_all o then LAST else MID) (if o_all o then LAST else MID) = true)
        by (destruct (o_all o); reflexivity). rewrite Ety. cbn [negb].
      pose proof (st_nodup Sim _ _ _ SP) as ND. pose proof (st_wfo Sim _ _ _ SP) as (W1 & _).
      assert (P1 : present sc (ts_obs ts) = true).
      { apply present_same. rewrite R5, append_obs_keys. apply completed_same; assumption. }
      assert (P2 : present sc (ts_legal ts) = true).
      { apply present_same. rewrite R4, legal_keys. apply order_same. }
      assert (P3 : present sc (append_rew Sim (o_rew o)) = true).
      { apply present_same. rewrite append_rew_keys, W1. apply completed_same; assumption. }
      assert (P4 : present sc (discounts Sim discf) = true).
      { apply present_same. rewrite disc_keys. apply order_same. }
      rewrite P1, P2, R4, legal_ok_all, R2, P3, R3, P4, disc_ok_all. cbn [andb negb].
      destruct (append_obs_prefix Sim (m_sim m1) (o_obs o)) as (extra & Ee).
      rewrite R5, Ee, prefix_kvs_app. unfold rew_ok, append_rew. rewrite prefix_kvs_app, skipn_app_exact.
      assert (Ez : forallb (fun kv : nat * Z => (snd kv =? 0)%Z)
                     (map (fun a : nat => (a, 0%Z))
                        (filter (fun a : nat => negb (memb a (map fst (o_rew o)))) (order Sim))) = true).
      { apply forallb_forall. intros kv Hkv. apply in_map_iff in Hkv as (a & <- & _). reflexivity. }
      rewrite Ez. cbn [andb negb].
      destruct (is_turn k) eqn:Et; [|reflexivity]. cbn [andb].
      destruct (o_all o) eqn:Hall; [reflexivity|]. cbn [negb andb].
      assert (Hkt : k = MTurn).
      { destruct Hk as [E|E]; rewrite E in Et |- *; [discriminate|reflexivity]. }
      destruct (T9 eq_refl) as (_ & Ht). destruct (Ht Hkt) as (Hf & Hn).
      rewrite (HD' eq_refl). assert (N1 : memb (ts_cur ts) (m_done m1) = false) by (apply memb_false_In, Hn).
      assert (N2 : memb (ts_cur ts) (c_order sc) = true) by (apply memb_In, Hin, Hc).
      assert (N3 : existsb (fun kb : nat * bool => Nat.eqb (fst kb) (ts_cur ts) && negb (snd kb)) (o_done o) = true).
      { apply existsb_exists. exists (ts_cur ts, false). split; [exact Hf|]. cbn. rewrite Nat.eqb_refl. reflexivity. }
      rewrite N1, N2, N3. reflexivity.
    - split; [reflexivity|]. cbn [os_sr os_m os_cur with_sim m_done og_sr og_D og_cur].
      intros Hall. split; [apply (HD' Hall)|reflexivity].
  Qed.

  Lemma chk_call_sound st g c :
    ostate_ok Sim k st -> orel st g ->
    exists g',
      (match c with
       | OReset => chk_reset_ev sc k (oi_nact i) g (fst (os_call Sim nactf discf k st c))
       | OStep al _ => if og_sr g then chk_reset_ev sc k (oi_nact i) g (fst (os_call Sim nactf discf k st c))
                       else chk_step_ev sc k (oi_nact i) (oi_disc i) g al (fst (os_call Sim nactf discf k st c))
       end) = (0%Z, g') /\
      orel (snd (os_call Sim nactf discf k st c)) g' /\
      ostate_ok Sim k (snd (os_call Sim nactf discf k st c)).
  Proof.
    intros Hok Hrel.
    pose proof (os_call_cases Sim nactf discf Hl k st c Hk Hst Hok) as CC.
    pose proof (call_case_ok Sim nactf discf k st c _ _ Hok CC) as Hok'.
    destruct CC as [Hc RP|al sh -> Hsr Hw SP|al sh -> Hsr Hw Est Eev].
    - destruct (chk_reset_sound st g _ _ RP) as (g' & E & R). exists g'.
      split; [|split; assumption].
      destruct c as [|al sh]; [exact E|]. destruct Hc as [C|C]; [discriminate|].
      destruct Hrel as [Rs _]. rewrite Rs, C. exact E.
    - destruct (chk_step_sound st g al sh _ _ Hrel Hsr Hw SP) as (g' & E & R). exists g'.
      split; [|split; assumption]. destruct Hrel as [Rs _]. rewrite Rs, Hsr. exact E.
    - exists g. rewrite Est. split; [|split; [exact Hrel|rewrite Est in Hok'; exact Hok']].
      destruct Hrel as [Rs Rr]. rewrite Rs, Hsr, Eev. unfold chk_step_ev.
      assert (En : expected_dict sc k g al = None).
      { unfold expected_dict, wf_al in *. destruct (is_turn k) eqn:Et.
        - destruct al; [|exfalso; apply Hw; discriminate]. destruct (og_cur g); reflexivity.
        - change (c_order sc) with (order Sim). apply Nat.eqb_neq in Hw. rewrite Hw. reflexivity. }
      rewrite En. cbn. destruct (is_turn k); reflexivity.
  Qed.

  Lemma chk_osp_sound cs : forall st g,
    ostate_ok Sim k st -> orel st g ->
    chk_osp sc k (oi_nact i) (oi_disc i) g cs (fst (os_run Sim nactf discf k st cs)) = 0%Z.
  Proof.
    induction cs as [|c cs IH]; intros st g Hok Hrel; [reflexivity|].
    cbn [os_run os_run_gen]. fold (os_call Sim nactf discf k st c).
    destruct (chk_call_sound st g c Hok Hrel) as (g' & E & R & Hok').
    destruct (os_call Sim nactf discf k st c) as [ev st1] eqn:Ec. cbn [fst snd] in *.
    fold (os_run Sim nactf discf k st1 cs).
    specialize (IH st1 g' Hok' R).
    destruct (os_run Sim nactf discf k st1 cs) as [es st2]. cbn [fst] in *.
    cbn [chk_osp].
    destruct c as [|al sh]; rewrite E; cbn; exact IH.
  Qed.

  Lemma chk_C15_model_lemma : chk_C15 i (osp_model true i) false = true.
  Proof.
    unfold chk_C15, chk_C15_code, osp_model.
    fold (os_run Sim nactf discf k (os_init (ss_init sc)) (oi_calls i)).
    rewrite chk_osp_sound; [reflexivity| |].
    - intros C. discriminate.
    - split; [reflexivity|]. intros C. discriminate.
  Qed.
End S.


(* ------------------------------------------------------------------ chk_C15_gym on the model *)
Section GS.
  Context {St Obs Info Act : Type}.
  Variable Sim : simulation St Obs Info Act.

  Lemma reset_resp_shape k (m : mstate St) :
    match fst (do_call Sim k m CReset) with RObs _ | RError => True | _ => False end.
  Proof.
    destruct k; cbn [do_call].
    - unfold all_reset. destruct (thread _ _ _). exact I.
    - unfold turn_reset. destruct (order Sim); [exact I|]. destruct (sim_obs Sim _ _). exact I.
    - unfold dyn_reset. destruct (thread _ _ _). exact I.
    - unfold turn_reset_prefix. destruct (order Sim); [exact I|]. destruct (sim_obs Sim _ _). exact I.
  Qed.

  Lemma step_resp_shape k (m : mstate St) acts sh :
    match fst (do_call Sim k m (CStep acts sh)) with RObs _ => False | _ => True end.
  Proof.
    assert (Ht : forall b, match fst (turn_step_gen Sim b m acts) with RObs _ => False | _ => True end).
    { intros b. unfold turn_step_gen. destruct acts as [|[a0 x0] r]; [exact I|].
      destruct (if b then _ else _); [exact I|]. destruct (sim_all Sim _).
      - destruct (flush _ _ _ _ _). exact I.
      - destruct (turn_search _ _ _ _ _ _); exact I. }
    destruct k; cbn [do_call].
    - unfold all_step. destruct (existsb _ _); [exact I|].
      destruct (thread _ _ _). destruct (thread _ _ _). exact I.
    - apply Ht.
    - unfold dyn_step. destruct (existsb _ _); [exact I|]. destruct (sim_all Sim _).
      + destruct (flush _ _ _ _ _). exact I.
      + destruct (dyn_loop _ _ _ _ _) as [[? ?] ?]. exact I.
    - apply Ht.
  Qed.
End GS.

Lemma chk_gym_hist_model sc k a cs : forall m,
  chk_gym_hist a cs (fst (gym_run (script_sim sc) k a m cs)) = 0%Z.
Proof.
  induction cs as [|c cs IH]; intros m; [reflexivity|].
  cbn [gym_run]. destruct c as [|x sh].
  - unfold gym_reset. pose proof (reset_resp_shape (script_sim sc) k m) as Hs.
    destruct (do_call (script_sim sc) k m CReset) as [r m1]. cbn [fst] in Hs.
    specialize (IH m1). destruct (gym_run (script_sim sc) k a m1 cs) as [rs m2]. cbn [fst] in *.
    cbn [chk_gym_hist].
    assert (E : chk_gym_ev a GCReset
                  match r with
                  | RObs obs => match alookup a obs with Some ob => GObs ob | None => GError end
                  | RReject => GReject
                  | _ => GError
                  end [(CReset, r)] = 0%Z).
    { destruct r as [obs|o| | |]; try contradiction; cbn; [|reflexivity].
      destruct (alookup a obs) eqn:El; cbn; rewrite ?El; cbn; [rewrite Z.eqb_refl|]; reflexivity. }
    rewrite E. exact IH.
  - unfold gym_step.
    pose proof (step_resp_shape (script_sim sc) k m [(a, x)] (match sh with Some l => l | None => [(a, x)] end)) as Hs.
    destruct (do_call (script_sim sc) k m _) as [r m1]. cbn [fst] in Hs.
    specialize (IH m1). destruct (gym_run (script_sim sc) k a m1 cs) as [rs m2]. cbn [fst] in *.
    cbn [chk_gym_hist].
    match goal with |- (if (chk_gym_ev a ?c ?g ?l =? 0)%Z then _ else _) = _ =>
      assert (E : chk_gym_ev a c g l = 0%Z) end.
    { unfold chk_gym_ev. rewrite kvs_eqb_refl. cbn [negb].
      destruct r as [obs|o| | |]; try contradiction; try reflexivity.
      destruct (alookup a (o_obs o)) eqn:E1; [|reflexivity].
      destruct (alookup a (o_rew o)) eqn:E2; [|cbn; rewrite ?orb_true_r; reflexivity].
      destruct (alookup a (o_done o)) eqn:E3; [|cbn; rewrite ?orb_true_r; reflexivity].
      destruct (alookup a (o_info o)) eqn:E4; [|cbn; rewrite ?orb_true_r; reflexivity].
      cbn. rewrite !Z.eqb_refl, eqb_reflx. reflexivity. }
    rewrite E. exact IH.
Qed.

Lemma chk_C15_gym_model_lemma i : chk_C15_gym i (gym_model i) = true.
Proof.
  unfold chk_C15_gym, chk_C15_gym_code, gym_model, gym_agent.
  rewrite script_order. destruct (corder (gi_sc i)) as [|a [|b r]]; try reflexivity.
  rewrite chk_gym_hist_model. reflexivity.
Qed.

(* ================================================================== the code before the repairs *)
(* F4: two learning agents in turn-based play, a0 finishes by its own first action.  The
   unrepaired adapter names a0 as the current player although a0 is done. *)
Definition f4_script : script :=
  {| sc_n := 2; sc_learn := [true; true];
     sc_rows := [ {| r_done := [false; false]; r_all := false; r_next := []; r_acc := [0; 0]%Z |};
                  {| r_done := [true; false]; r_all := false; r_next := []; r_acc := [1; 1]%Z |};
                  {| r_done := [true; false]; r_all := false; r_next := []; r_acc := [1; 1]%Z |};
                  {| r_done := [true; true]; r_all := false; r_next := []; r_acc := [1; 1]%Z |} ] |}.

Definition f4_input (nsteps : nat) : oinput :=
  {| oi_k := MTurn; oi_sc := f4_script; oi_nact := [2; 2]; oi_disc := [1; 1]%Z;
     oi_calls := OReset :: repeat (OStep [0%Z] None) nsteps |}.

Lemma current_can_act_refuted :
  exists i, owf i /\ chk_C15 i (osp_model false i) false = false.
Proof.
  exists (f4_input 2). split; [split; [right; reflexivity|discriminate]|]. vm_compute. reflexivity.
Qed.

(* ... while the repaired adapter plays the same episode to its end in three steps *)
Lemma f4_repaired_ends :
  map (@is_last Z Z Z) (osp_model true (f4_input 3)) = [false; false; false; true].
Proof. vm_compute. reflexivity. Qed.

Lemma os_run_gen_app {St Obs Info Act} (Sim : simulation St Obs Info Act) nact disc fixd k cs1 :
  forall st cs2,
    os_run_gen Sim nact disc fixd k st (cs1 ++ cs2)
    = (fst (os_run_gen Sim nact disc fixd k st cs1)
         ++ fst (os_run_gen Sim nact disc fixd k (snd (os_run_gen Sim nact disc fixd k st cs1)) cs2),
       snd (os_run_gen Sim nact disc fixd k (snd (os_run_gen Sim nact disc fixd k st cs1)) cs2)).
Proof.
  induction cs1 as [|c cs1 IH]; intros st cs2; cbn [app os_run_gen].
  - cbn [fst snd app]. destruct (os_run_gen Sim nact disc fixd k st cs2). reflexivity.
  - destruct (os_call_gen Sim nact disc fixd k st c) as [e st1]. rewrite IH.
    destruct (os_run_gen Sim nact disc fixd k st1 cs1) as [es st2]. cbn [fst snd].
    destruct (os_run_gen Sim nact disc fixd k st2 cs2). reflexivity.
Qed.

(* progress fails for the code before the repair: however long OpenSpiel keeps playing, after
   the second step every step is a fake step that reaches no manager, the player named is the
   finished agent a0, and LAST never comes (a live-lock) *)
Lemma progress_refuted :
  exists sc nact disc,
    forall n,
      let evs := fst (os_run_gen (script_sim sc) nact disc false MTurn (os_init (ss_init sc))
                                 (OReset :: repeat (OStep [0%Z] None) (2 + n))) in
      length evs = 3 + n /\
      Forall (fun ev => is_last ev = false) evs /\
      Forall (fun ev => ev_fake ev = true /\ ev_calls ev = []) (skipn 3 evs).
Proof.
  exists f4_script, (fun a => nth a [2; 2] O), (fun a => nth a [1; 1]%Z 0%Z).
  set (Sim := script_sim f4_script). set (na := fun a => nth a [2; 2] O).
  set (di := fun a => nth a [1; 1]%Z 0%Z).
  set (st2 := snd (os_run_gen Sim na di false MTurn (os_init (ss_init f4_script))
                              [OReset; OStep [0%Z] None; OStep [0%Z] None])).
  assert (Hfix : snd (os_step_gen Sim na di false MTurn st2 [0%Z] None) = st2)
    by (vm_compute; reflexivity).
  assert (Hfake : ev_fake (fst (os_step_gen Sim na di false MTurn st2 [0%Z] None)) = true /\
                  ev_calls (fst (os_step_gen Sim na di false MTurn st2 [0%Z] None)) = [] /\
                  is_last (fst (os_step_gen Sim na di false MTurn st2 [0%Z] None)) = false)
    by (vm_compute; repeat split).
  assert (Hrep : forall n,
            let r := os_run_gen Sim na di false MTurn st2 (repeat (OStep [0%Z] None) n) in
            snd r = st2 /\ length (fst r) = n /\
            Forall (fun ev => is_last ev = false /\ ev_fake ev = true /\ ev_calls ev = []) (fst r)).
  { induction n as [|n IH]; [cbn; repeat split; constructor|].
    cbn [repeat os_run_gen os_call_gen].
    destruct (os_step_gen Sim na di false MTurn st2 [0%Z] None) as [e st3] eqn:E. cbn [fst snd] in *.
    subst st3. destruct IH as (I1 & I2 & I3).
    destruct (os_run_gen Sim na di false MTurn st2 (repeat (OStep [0%Z] None) n)) as [es st4].
    cbn [fst snd] in *. split; [exact I1|]. split; [cbn; rewrite I2; reflexivity|].
    constructor; [|exact I3]. tauto. }
  intros n.
  change (OReset :: repeat (OStep [0%Z] None) (2 + n))
    with ([OReset; OStep [0%Z] None; OStep [0%Z] None] ++ repeat (OStep [0%Z] None) n).
  cbv zeta. rewrite os_run_gen_app. cbn [fst]. fold st2.
  destruct (Hrep n) as (_ & Hlen & Hall).
  set (pre := fst (os_run_gen Sim na di false MTurn (os_init (ss_init f4_script))
                              [OReset; OStep [0%Z] None; OStep [0%Z] None])).
  assert (Hpre : length pre = 3 /\ Forall (fun ev => is_last ev = false) pre)
    by (vm_compute; split; [reflexivity|repeat constructor]).
  destruct Hpre as (Hp1 & Hp2).
  split; [rewrite app_length, Hp1, Hlen; reflexivity|]. split.
  - apply Forall_app. split; [exact Hp2|]. eapply Forall_impl; [|exact Hall]. cbn. tauto.
  - replace 3 with (length pre + 0) by (rewrite Hp1; reflexivity).
    rewrite skipn_app, Nat.add_0_r, skipn_all, Nat.sub_diag. cbn [skipn app].
    eapply Forall_impl; [|exact Hall]. cbn. tauto.
Qed.

(* F5: GymABS.reset before the repair keeps the reward and done flag of the previous episode *)
Lemma gymabs_reset_fresh_refuted :
  exists i, chk_gymabs i (gabs_model false i) = false.
Proof.
  exists {| ga_gs := {| gs_obs0 := 0; gs_info0 := 0;
                         gs_rows := [ {| gw_obs := 1; gw_rew := 3; gw_term := true; gw_trunc := false;
                                         gw_info := 0 |} ] |};
            ga_calls := [GAReset; GAStep [(O, 1%Z)]; GAReset] |}.
  vm_compute. reflexivity.
Qed.
