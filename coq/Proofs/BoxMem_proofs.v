(* Proofs about Spaces/BoxMem.v: the repaired Box.contains accepts exactly the points of the
   Box (shape, kind, bounds); the code as found differs from it exactly on the F7 input class. *)
From Coq Require Import ZArith QArith List Bool Lia.
From Abm Require Import Base.Sx Spaces.PyVal Spaces.BoxMem.
Import ListNotations.
Open Scope Z_scope.

(* ---- rationals ------------------------------------------------------------------------ *)
Lemma Zeq_bool_eqb : forall a b, Zeq_bool a b = (a =? b).
Proof.
  intros a b. destruct (Z.eqb_spec a b) as [->|Hne].
  - apply Zeq_is_eq_bool. reflexivity.
  - destruct (Zeq_bool a b) eqn:E; [|reflexivity]. apply Zeq_bool_eq in E. contradiction.
Qed.

Lemma Qle_bool_inject : forall a b, Qle_bool (inject_Z a) (inject_Z b) = (a <=? b).
Proof. intros a b. unfold Qle_bool. simpl. rewrite !Z.mul_1_r. reflexivity. Qed.

Lemma Qeq_bool_inject : forall a b, Qeq_bool (inject_Z a) (inject_Z b) = (a =? b).
Proof. intros a b. unfold Qeq_bool. simpl. rewrite !Z.mul_1_r. apply Zeq_bool_eqb. Qed.

Lemma Qle_bool_compat : forall x x' y y',
  (x == x')%Q -> (y == y')%Q -> Qle_bool x y = Qle_bool x' y'.
Proof. intros x x' y y' Hx Hy. apply Qleb_comp; assumption. Qed.

Lemma Qintegral_eq : forall q, Qintegral q = true -> (inject_Z (Qtrunc q) == q)%Q.
Proof. intros q H. apply Qeq_bool_iff. exact H. Qed.

Lemma Qintegral_inject : forall z, Qintegral (inject_Z z) = true.
Proof.
  intros z. unfold Qintegral, Qtrunc. simpl. rewrite Z.quot_1_r. apply Qeq_bool_iff. reflexivity.
Qed.

(* q equals the integer e exactly when q is integral and its truncation is e *)
Lemma Qeq_bool_int : forall q e,
  Qeq_bool q (inject_Z e) = Qintegral q && (Qtrunc q =? e).
Proof.
  intros [n d] e. unfold Qintegral, Qeq_bool, Qtrunc. simpl. rewrite !Z.mul_1_r, !Zeq_bool_eqb.
  assert (Hd : Z.pos d <> 0) by discriminate.
  destruct (Z.eqb_spec n (e * Z.pos d)) as [->|Hne].
  - rewrite Z.quot_mul by exact Hd. rewrite !Z.eqb_refl. reflexivity.
  - destruct (Z.eqb_spec (n ÷ Z.pos d * Z.pos d) n) as [E1|]; [|reflexivity].
    destruct (Z.eqb_spec (n ÷ Z.pos d) e) as [E2|]; [|reflexivity].
    exfalso. apply Hne. rewrite <- E2. symmetry. exact E1.
Qed.

Lemma zlist_eqb_eq : forall a b, zlist_eqb a b = true <-> a = b.
Proof.
  induction a as [|x a IH]; intros [|y b]; simpl; split; intro H; try reflexivity; try discriminate.
  - apply andb_prop in H. destruct H as [H1 H2]. apply Z.eqb_eq in H1. apply IH in H2. congruence.
  - inversion H; subst. rewrite Z.eqb_refl. simpl. apply IH. reflexivity.
Qed.

Lemma zlist_eqb_refl : forall a, zlist_eqb a a = true.
Proof. intros. apply zlist_eqb_eq. reflexivity. Qed.

Lemma can_cast_refl : forall d, can_cast d d = true.
Proof. destruct d; simpl; try reflexivity; apply Z.leb_refl. Qed.

(* ---- induction over nested Python values ------------------------------------------- *)
Definition is_seq (x : pyval) : bool :=
  match x with PList _ | PTuple _ => true | _ => false end.

Section PyInd.
  Variable P : pyval -> Prop.
  Hypothesis Hleaf : forall x, is_seq x = false -> P x.
  Hypothesis Hlist : forall l, Forall P l -> P (PList l).
  Hypothesis Htuple : forall l, Forall P l -> P (PTuple l).

  Fixpoint pyval_seq_ind (x : pyval) : P x :=
    match x as x0 return P x0 with
    | PList l =>
        Hlist l ((fix go (l : list pyval) : Forall P l :=
                    match l with
                    | [] => Forall_nil P
                    | y :: l' => Forall_cons y (pyval_seq_ind y) (go l')
                    end) l)
    | PTuple l =>
        Htuple l ((fix go (l : list pyval) : Forall P l :=
                     match l with
                     | [] => Forall_nil P
                     | y :: l' => Forall_cons y (pyval_seq_ind y) (go l')
                     end) l)
    | PNone => Hleaf PNone eq_refl
    | PBool b => Hleaf (PBool b) eq_refl
    | PInt z => Hleaf (PInt z) eq_refl
    | PFloat q => Hleaf (PFloat q) eq_refl
    | PFloatX s => Hleaf (PFloatX s) eq_refl
    | PStr c => Hleaf (PStr c) eq_refl
    | PNpInt z => Hleaf (PNpInt z) eq_refl
    | PNpFloat q => Hleaf (PNpFloat q) eq_refl
    | PNpBool b => Hleaf (PNpBool b) eq_refl
    | PArr d s v => Hleaf (PArr d s v) eq_refl
    | PSet l => Hleaf (PSet l) eq_refl
    | PDict l => Hleaf (PDict l) eq_refl
    | PAgent i => Hleaf (PAgent i) eq_refl
    end.
End PyInd.

(* ---- the point a candidate denotes = shape discovery + all leaves are numbers ------------ *)
Fixpoint nums (ls : list leaf) : option (list Q) :=
  match ls with
  | [] => Some []
  | LNum q :: r => match nums r with Some vs => Some (q :: vs) | None => None end
  | _ => None
  end.

Lemma nums_app : forall a b,
  nums (a ++ b) = match nums a, nums b with Some x, Some y => Some (x ++ y) | _, _ => None end.
Proof.
  induction a as [|e a IH]; intros b.
  - simpl. destruct (nums b); reflexivity.
  - destruct e; simpl; try reflexivity. rewrite IH.
    destruct (nums a), (nums b); reflexivity.
Qed.

Lemma nums_map : forall vs, nums (map LNum vs) = Some vs.
Proof. induction vs as [|v vs IH]; simpl; [reflexivity | rewrite IH; reflexivity]. Qed.

Definition go_shape (s : list Z) : list pyval -> bool :=
  fix go (r : list pyval) : bool :=
    match r with
    | [] => true
    | z :: r' => match arr_shape z with Some s' => zlist_eqb s s' | None => false end && go r'
    end.

Definition go_leaves : list pyval -> list leaf :=
  fix go (l : list pyval) : list leaf :=
    match l with [] => [] | y :: l' => leaves y ++ go l' end.

Definition go_point (s : list Z) : list pyval -> option (list Q) :=
  fix go (r : list pyval) : option (list Q) :=
    match r with
    | [] => Some []
    | z :: r' =>
        match point_of z, go r' with
        | Some (s', vz), Some rest => if zlist_eqb s s' then Some (vz ++ rest) else None
        | _, _ => None
        end
    end.

Definition point_rhs (x : pyval) : option (list Z * list Q) :=
  match arr_shape x, nums (leaves x) with
  | Some sh, Some vs => Some (sh, vs)
  | _, _ => None
  end.

Lemma go_point_eq : forall s r,
  Forall (fun x => point_of x = point_rhs x) r ->
  go_point s r = if go_shape s r then nums (go_leaves r) else None.
Proof.
  intros s r H. induction H as [|z r Hz Hr IH]; [reflexivity|].
  simpl. rewrite Hz, IH. unfold point_rhs. rewrite nums_app.
  destruct (arr_shape z) as [s'|]; [|reflexivity].
  destruct (nums (leaves z)) as [vz|].
  - destruct (go_shape s r).
    + destruct (nums (go_leaves r)); destruct (zlist_eqb s s'); reflexivity.
    + destruct (zlist_eqb s s'); reflexivity.
  - destruct (zlist_eqb s s'); simpl; [|reflexivity].
    destruct (go_shape s r); reflexivity.
Qed.

Lemma seq_case : forall l,
  Forall (fun x => point_of x = point_rhs x) l ->
  (point_of (PList l) = point_rhs (PList l)) /\ (point_of (PTuple l) = point_rhs (PTuple l)).
Proof.
  intros l H. destruct l as [|y r]; [split; reflexivity|].
  inversion H as [|y' r' Hy Hr]; subst.
  assert (E : match point_of y with
              | None => None
              | Some (s, vs) => match go_point s r with
                                | Some rest => Some (Z.of_nat (length (y :: r)) :: s, vs ++ rest)
                                | None => None
                                end
              end
              = match (match arr_shape y with
                       | None => None
                       | Some s => if go_shape s r then Some (Z.of_nat (length (y :: r)) :: s) else None
                       end), nums (leaves y ++ go_leaves r) with
                | Some sh, Some vs => Some (sh, vs)
                | _, _ => None
                end).
  { rewrite Hy. unfold point_rhs. rewrite nums_app.
    destruct (arr_shape y) as [s|]; [|reflexivity].
    destruct (nums (leaves y)) as [vs|].
    - rewrite (go_point_eq s r Hr). destruct (go_shape s r); [|reflexivity].
      destruct (nums (go_leaves r)); reflexivity.
    - destruct (go_shape s r); reflexivity. }
  split; exact E.
Qed.

Lemma point_of_eq : forall x, point_of x = point_rhs x.
Proof.
  apply pyval_seq_ind.
  - intros x Hx. destruct x; try discriminate; try reflexivity.
    + destruct s; reflexivity.
    + unfold point_rhs. simpl. rewrite nums_map. reflexivity.
  - intros l H. apply (seq_case l H).
  - intros l H. apply (seq_case l H).
Qed.

(* ---- conversion ----------------------------------------------------------------------- *)
Definition conv (isint : bool) (q : Q) : Q := if isint then inject_Z (Qtrunc q) else q.

Lemma convert_nums : forall isint ls vs,
  nums ls = Some vs -> convert isint ls = inr (map (fun q => Some (conv isint q)) vs).
Proof.
  induction ls as [|e ls IH]; intros vs H.
  - inversion H. reflexivity.
  - destruct e; try discriminate. simpl in H.
    destruct (nums ls) as [vs'|] eqn:E; [|discriminate]. inversion H; subst.
    simpl. rewrite (IH vs' eq_refl). reflexivity.
Qed.

Lemma convert_none : forall isint ls ws,
  nums ls = None -> convert isint ls = inr ws -> isint = false /\ In None ws.
Proof.
  induction ls as [|e ls IH]; intros ws Hn Hc; [discriminate|].
  destruct e; simpl in Hn, Hc.
  - destruct (nums ls) eqn:E; [discriminate|].
    destruct (convert isint ls) as [o|ws'] eqn:Ec; [discriminate|]. inversion Hc; subst.
    destruct (IH ws' eq_refl eq_refl) as [H1 H2]. split; [exact H1 | right; exact H2].
  - destruct isint; [discriminate|].
    destruct (convert false ls) as [o|ws'] eqn:Ec; [discriminate|]. inversion Hc; subst.
    split; [reflexivity | left; reflexivity].
  - destruct isint; [discriminate|].
    destruct (convert false ls) as [o|ws'] eqn:Ec; [discriminate|]. inversion Hc; subst.
    split; [reflexivity | left; reflexivity].
  - destruct isint; [discriminate|].
    destruct (convert false ls) as [o|ws'] eqn:Ec; [discriminate|]. inversion Hc; subst.
    split; [reflexivity | left; reflexivity].
  - discriminate.
  - discriminate.
Qed.

Lemma all_ge_none : forall ws lo, In None ws -> all_ge ws lo = false.
Proof.
  induction ws as [|w ws IH]; intros lo H; [contradiction|].
  destruct H as [->|H].
  - destruct lo; reflexivity.
  - destruct w as [v|]; destruct lo as [|l lo]; try reflexivity.
    simpl. rewrite (IH lo H). apply andb_false_r.
Qed.

Lemma lossless_nums : forall ls vs, nums ls = Some vs -> lossless ls = forallb Qintegral vs.
Proof.
  induction ls as [|e ls IH]; intros vs H.
  - inversion H. reflexivity.
  - destruct e; try discriminate. simpl in H.
    destruct (nums ls) as [vs'|] eqn:E; [|discriminate]. inversion H; subst.
    simpl. rewrite (IH vs' eq_refl). reflexivity.
Qed.

Lemma bounds_within : forall vs lo hi,
  all_ge (map Some vs) lo && all_le (map Some vs) hi = within vs lo hi.
Proof.
  induction vs as [|v vs IH]; intros lo hi.
  - destruct lo, hi; reflexivity.
  - destruct lo as [|l lo], hi as [|h hi]; simpl; try reflexivity.
    + apply andb_false_r.
    + rewrite <- IH.
      destruct (Qle_bool l v), (Qle_bool v h), (all_ge (map Some vs) lo),
        (all_le (map Some vs) hi); reflexivity.
Qed.

Lemma finish_some : forall B dt sh vs,
  finish B dt sh (map Some vs)
  = can_cast dt (b_dt B) && zlist_eqb sh (b_shape B) && within vs (b_low B) (b_high B).
Proof.
  intros. unfold finish. rewrite <- bounds_within.
  destruct (can_cast dt (b_dt B)), (zlist_eqb sh (b_shape B)),
    (all_ge (map Some vs) (b_low B)); reflexivity.
Qed.

Lemma finish_none : forall B dt sh ws, In None ws -> finish B dt sh ws = false.
Proof.
  intros. unfold finish. rewrite (all_ge_none ws _ H).
  destruct (can_cast dt (b_dt B)), (zlist_eqb sh (b_shape B)); reflexivity.
Qed.

Lemma within_trunc : forall vs lo hi,
  forallb Qintegral vs = true ->
  within (map (fun q => inject_Z (Qtrunc q)) vs) lo hi = within vs lo hi.
Proof.
  induction vs as [|v vs IH]; intros lo hi H; [reflexivity|].
  simpl in H. apply andb_prop in H. destruct H as [Hv Hvs].
  destruct lo as [|l lo], hi as [|h hi]; try reflexivity.
  simpl. rewrite (IH lo hi Hvs).
  pose proof (Qintegral_eq v Hv) as E.
  rewrite (Qle_bool_compat l l (inject_Z (Qtrunc v)) v (Qeq_refl l) E).
  rewrite (Qle_bool_compat (inject_Z (Qtrunc v)) v h h E (Qeq_refl h)).
  reflexivity.
Qed.

(* ---- the candidates that go through np.asarray(x, dtype=self.dtype) ------------------- *)
Definition direct (x : pyval) : bool :=
  match x with PInt _ | PFloat _ | PFloatX _ | PArr _ _ _ => true | _ => false end.

Definition accepted_b (r : bres) : bool := match r with BOk b => b | BRaise _ => false end.

Lemma contains_other : forall B x, direct x = false ->
  box_contains B x =
  match as_array (b_dt B) x with
  | inl o => BRaise o
  | inr (sh, vs) =>
      if is_int_dtype (b_dt B) && negb (lossless (leaves x)) then BOk false
      else BOk (finish B (b_dt B) sh vs)
  end.
Proof. intros B x H. destruct x; try discriminate; reflexivity. Qed.

Lemma prefix_other : forall B x, direct x = false ->
  box_contains_prefix B x =
  match as_array (b_dt B) x with
  | inl o => BRaise o
  | inr (sh, vs) => BOk (finish B (b_dt B) sh vs)
  end.
Proof. intros B x H. destruct x; try discriminate; reflexivity. Qed.

Lemma spec_other : forall B x, direct x = false ->
  box_spec B x =
  match point_of x with
  | Some (sh, vs) =>
      zlist_eqb sh (b_shape B) && (negb (is_int_dtype (b_dt B)) || forallb Qintegral vs)
      && within vs (b_low B) (b_high B)
  | None => false
  end.
Proof. intros B x H. destruct x; try discriminate; reflexivity. Qed.

Lemma f7_other : forall B x, direct x = false ->
  f7_class B x =
  is_int_dtype (b_dt B) &&
  match point_of x with
  | Some (sh, vs) =>
      negb (forallb Qintegral vs) && zlist_eqb sh (b_shape B) &&
      within (map (fun q => inject_Z (Qtrunc q)) vs) (b_low B) (b_high B)
  | None => false
  end.
Proof. intros B x H. destruct x; try discriminate; reflexivity. Qed.

Lemma f7_direct : forall B x, direct x = true -> f7_class B x = false.
Proof. intros B x H. destruct x; try discriminate; reflexivity. Qed.

Lemma prefix_direct : forall B x, direct x = true -> box_contains_prefix B x = box_contains B x.
Proof. intros B x H. destruct x; try discriminate; reflexivity. Qed.

Lemma map_conv_int : forall vs,
  map (fun q => Some (conv true q)) vs = map Some (map (fun q => inject_Z (Qtrunc q)) vs).
Proof. intros. rewrite map_map. reflexivity. Qed.

Lemma map_conv_float : forall vs, map (fun q => Some (conv false q)) vs = map Some vs.
Proof. intros. reflexivity. Qed.

(* the repaired code answers True exactly on the points of the Box *)
Lemma box_contains_spec : forall B x, accepted_b (box_contains B x) = box_spec B x.
Proof.
  intros B x. destruct (direct x) eqn:Hd.
  - destruct x; try discriminate.
    + (* Python int *) cbn [box_contains accepted_b].
      change [Some (inject_Z z)] with (map Some [inject_Z z]).
      rewrite finish_some. unfold box_spec. cbn [candidate_point kind_ok].
      destruct (can_cast (DInt 64) (b_dt B)), (zlist_eqb [1] (b_shape B)); reflexivity.
    + (* Python float *) cbn [box_contains accepted_b]. change [Some q] with (map Some [q]).
      rewrite finish_some. unfold box_spec. cbn [candidate_point kind_ok].
      destruct (can_cast (DFloat 64) (b_dt B)), (zlist_eqb [1] (b_shape B)); reflexivity.
    + (* nan / inf *) cbn [box_contains accepted_b].
      rewrite finish_none by (left; reflexivity). reflexivity.
    + (* ndarray *) cbn [box_contains accepted_b]. rewrite finish_some. unfold box_spec.
      cbn [candidate_point point_of kind_ok].
      destruct (can_cast dt (b_dt B)), (zlist_eqb shape (b_shape B)); reflexivity.
  - rewrite (contains_other B x Hd), (spec_other B x Hd), point_of_eq.
    unfold as_array, point_rhs.
    destruct (arr_shape x) as [sh|]; [|reflexivity].
    destruct (nums (leaves x)) as [vs|] eqn:En.
    + rewrite (convert_nums _ _ _ En), (lossless_nums _ _ En).
      destruct (is_int_dtype (b_dt B)) eqn:Hi; simpl.
      * destruct (forallb Qintegral vs) eqn:Hl; simpl.
        -- rewrite map_conv_int, finish_some, can_cast_refl, (within_trunc _ _ _ Hl).
           simpl. rewrite andb_true_r. reflexivity.
        -- rewrite andb_false_r. reflexivity.
      * rewrite map_conv_float, finish_some, can_cast_refl. simpl.
        rewrite andb_true_r. reflexivity.
    + destruct (convert (is_int_dtype (b_dt B)) (leaves x)) as [o|ws] eqn:Ec; [reflexivity|].
      destruct (convert_none _ _ _ En Ec) as [Hi Hin]. rewrite Hi. simpl.
      apply finish_none. exact Hin.
Qed.

(* off the F7 input class the code as found and the repaired code agree *)
Lemma prefix_agrees : forall B x, f7_class B x = false -> box_contains_prefix B x = box_contains B x.
Proof.
  intros B x Hf. destruct (direct x) eqn:Hd; [apply prefix_direct; exact Hd|].
  rewrite (prefix_other B x Hd), (contains_other B x Hd).
  rewrite (f7_other B x Hd), point_of_eq in Hf. unfold point_rhs in Hf.
  unfold as_array. destruct (arr_shape x) as [sh|]; [|reflexivity].
  destruct (nums (leaves x)) as [vs|] eqn:En.
  - rewrite (convert_nums _ _ _ En), (lossless_nums _ _ En).
    destruct (is_int_dtype (b_dt B)) eqn:Hi; simpl; [|reflexivity].
    destruct (forallb Qintegral vs) eqn:Hl; simpl; [reflexivity|].
    simpl in Hf. rewrite map_conv_int, finish_some, can_cast_refl. simpl. rewrite Hf. reflexivity.
  - destruct (convert (is_int_dtype (b_dt B)) (leaves x)) as [o|ws] eqn:Ec; [reflexivity|].
    destruct (convert_none _ _ _ En Ec) as [Hi Hin]. rewrite Hi. reflexivity.
Qed.

(* on the F7 input class the code as found says True although the candidate is no point of
   the Box *)
Lemma prefix_f7 : forall B x, f7_class B x = true ->
  box_contains_prefix B x = BOk true /\ box_spec B x = false.
Proof.
  intros B x Hf. destruct (direct x) eqn:Hd.
  - rewrite (f7_direct B x Hd) in Hf. discriminate.
  - rewrite (prefix_other B x Hd), (spec_other B x Hd).
    rewrite (f7_other B x Hd), point_of_eq in Hf. rewrite point_of_eq. unfold point_rhs in *.
    unfold as_array. destruct (arr_shape x) as [sh|]; [|rewrite andb_false_r in Hf; discriminate].
    destruct (nums (leaves x)) as [vs|] eqn:En; [|rewrite andb_false_r in Hf; discriminate].
    apply andb_prop in Hf. destruct Hf as [Hi Hf]. apply andb_prop in Hf. destruct Hf as [Hf Hw].
    apply andb_prop in Hf. destruct Hf as [Hl Hs].
    rewrite (convert_nums _ _ _ En), Hi, map_conv_int, finish_some, can_cast_refl, Hs, Hw.
    split; [reflexivity|]. simpl. apply negb_true_iff in Hl. rewrite Hl. reflexivity.
Qed.

(* ---- readable form of the bounds test ---------------------------------------------- *)
Inductive Within : list Q -> list Q -> list Q -> Prop :=
| Within_nil : Within [] [] []
| Within_cons : forall v l h vs lo hi,
    (l <= v)%Q -> (v <= h)%Q -> Within vs lo hi -> Within (v :: vs) (l :: lo) (h :: hi).

Lemma within_Within : forall vs lo hi, within vs lo hi = true <-> Within vs lo hi.
Proof.
  induction vs as [|v vs IH]; intros lo hi; split; intro H.
  - destruct lo, hi; try discriminate. constructor.
  - inversion H. reflexivity.
  - destruct lo as [|l lo], hi as [|h hi]; try discriminate. simpl in H.
    apply andb_prop in H. destruct H as [H H3]. apply andb_prop in H. destruct H as [H1 H2].
    constructor; [apply Qle_bool_iff; exact H1 | apply Qle_bool_iff; exact H2 | apply IH; exact H3].
  - inversion H as [|v' l h vs' lo' hi' Hl Hh Hw]; subst. simpl.
    rewrite (proj2 (Qle_bool_iff _ _) Hl), (proj2 (Qle_bool_iff _ _) Hh). simpl.
    apply IH. exact Hw.
Qed.

Lemma box_contains_iff : forall B x,
  box_contains B x = BOk true <->
  exists sh vs, candidate_point x = Some (sh, vs) /\ sh = b_shape B /\
                kind_ok B x vs = true /\ Within vs (b_low B) (b_high B).
Proof.
  intros B x. pose proof (box_contains_spec B x) as E. split.
  - intro H. rewrite H in E. simpl in E. symmetry in E. unfold box_spec in E.
    destruct (candidate_point x) as [[sh vs]|]; [|discriminate].
    apply andb_prop in E. destruct E as [E E3]. apply andb_prop in E. destruct E as [E1 E2].
    exists sh, vs. repeat split; [apply zlist_eqb_eq; exact E1 | exact E2 | apply within_Within; exact E3].
  - intros (sh & vs & Hc & Hs & Hk & Hw). unfold box_spec in E. rewrite Hc, Hs, Hk in E.
    rewrite zlist_eqb_refl, (proj2 (within_Within _ _ _) Hw) in E. simpl in E.
    destruct (box_contains B x) as [b|o]; simpl in E; [subst; reflexivity | discriminate].
Qed.

Lemma chk_box_model : forall B x, chk_C19_box B x (box_contains B x) = true.
Proof.
  intros. unfold chk_C19_box. fold (accepted_b (box_contains B x)).
  rewrite box_contains_spec. apply eqb_reflx.
Qed.

(* the witness of finding F7: Box(0, 5, (1,), int64).contains([5.5]) on the code as found *)
Definition f7_box : box :=
  {| b_dt := DInt 64; b_shape := [1]; b_low := [0%Q]; b_high := [5%Q] |}.
Definition f7_x : pyval := PList [PFloat (11 # 2)].

Lemma box_prefix_refuted :
  exists B x, box_wf B = true /\ chk_C19_box B x (box_contains_prefix B x) = false.
Proof. exists f7_box, f7_x. split; vm_compute; reflexivity. Qed.

(* the code as found satisfies the membership statement exactly off the F7 input class *)
Lemma box_prefix_iff : forall B x, f7_class B x = false ->
  (box_contains_prefix B x = BOk true <->
   exists sh vs, candidate_point x = Some (sh, vs) /\ sh = b_shape B /\
                 kind_ok B x vs = true /\ Within vs (b_low B) (b_high B)).
Proof. intros B x H. rewrite (prefix_agrees B x H). apply box_contains_iff. Qed.

(* "sequence components offered to an integer Box are integral" is enough *)
Lemma f7_integral : forall B x,
  (forall sh vs, point_of x = Some (sh, vs) -> forallb Qintegral vs = true) ->
  f7_class B x = false.
Proof.
  intros B x H. destruct (direct x) eqn:Hd; [apply f7_direct; exact Hd|].
  rewrite (f7_other B x Hd). destruct (point_of x) as [[sh vs]|]; [|apply andb_false_r].
  rewrite (H sh vs eq_refl). simpl. apply andb_false_r.
Qed.

Lemma f7_float_box : forall B x, is_int_dtype (b_dt B) = false -> f7_class B x = false.
Proof.
  intros B x H. destruct (direct x) eqn:Hd; [apply f7_direct; exact Hd|].
  rewrite (f7_other B x Hd), H. reflexivity.
Qed.
