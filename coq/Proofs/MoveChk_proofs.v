(* chk_C12_model: the executable checker of C12 (Grid/Move.v: chk_mop / chk_mops / run_chk_C12)
   accepts the records the move model produces itself, for every well-formed initial state and
   every list of move operations - through the snapshot codec. *)
From Coq Require Import ZArith List Bool Arith Lia.
From Abm Require Import Base.Sx Grid.Overlap Grid.Grid Grid.Move Grid.Attack
  Proofs.Sx_proofs Proofs.Grid_proofs Proofs.Move_proofs Proofs.Attack_proofs Proofs.GridChk_proofs.
Import ListNotations.
Open Scope Z_scope.

(* ---- equality tests ------------------------------------------------------------------------------ *)
Lemma optcell_eqb_refl p : optcell_eqb p p = true.
Proof. destruct p; cbn; [apply cell_eqb_refl|reflexivity]. Qed.

Lemma optZ_eqb_refl p : optZ_eqb p p = true.
Proof. destruct p; cbn; [apply Z.eqb_refl|reflexivity]. Qed.

Lemma arec_eqb_refl a : arec_eqb a a = true.
Proof.
  unfold arec_eqb. rewrite !Z.eqb_refl, optcell_eqb_refl, !optZ_eqb_refl, !eqb_reflx. reflexivity.
Qed.

Lemma arecs_eqb_refl l : arecs_eqb l l = true.
Proof. induction l as [|a l IH]; cbn; [reflexivity|]. rewrite arec_eqb_refl, IH. reflexivity. Qed.

Lemma optcell_eqb_eq p q : optcell_eqb p q = true -> p = q.
Proof.
  destruct p, q; cbn; try discriminate; [|reflexivity]. intros H. apply cell_eqb_eq in H. congruence.
Qed.

Lemma optZ_eqb_eq p q : optZ_eqb p q = true -> p = q.
Proof.
  destruct p, q; cbn; try discriminate; [|reflexivity]. intros H. apply Z.eqb_eq in H. congruence.
Qed.

Lemma arec_eqb_eq a b : arec_eqb a b = true -> a = b.
Proof.
  unfold arec_eqb. rewrite !andb_true_iff. intros ((((((H1 & H2) & H3) & H4) & H5) & H6) & H7).
  apply Z.eqb_eq in H1, H3. apply optcell_eqb_eq in H2. apply optZ_eqb_eq in H5, H6.
  apply eqb_prop in H4, H7. destruct a, b; cbn in *; congruence.
Qed.

(* the agent comparison of the checker is exact: it accepts equal lists only *)
Lemma arecs_eqb_eq l : forall m, arecs_eqb l m = true <-> l = m.
Proof.
  induction l as [|a l IH]; intros [|b m]; cbn; try (split; [discriminate|congruence]).
  - split; reflexivity.
  - rewrite andb_true_iff, IH. split.
    + intros [A B]. apply arec_eqb_eq in A. congruence.
    + intros E. injection E as -> ->. split; [apply arec_eqb_refl|reflexivity].
Qed.

(* ---- list update ---------------------------------------------------------------------------------- *)
Lemma upd_nth_same {X} (l : list X) : forall i x, nth_error l i = Some x -> upd_nth l i x = l.
Proof.
  induction l as [|y l IH]; intros [|i] x H; cbn in *; try discriminate.
  - injection H as ->. reflexivity.
  - rewrite (IH i x H). reflexivity.
Qed.

Lemma upd_nth_twice {X} (l : list X) : forall i x y, upd_nth (upd_nth l i x) i y = upd_nth l i y.
Proof.
  induction l as [|z l IH]; intros [|i] x y; cbn; try reflexivity. rewrite IH. reflexivity.
Qed.

Lemma with_pos_same a p : a_pos a = p -> with_pos a p = a.
Proof. intros <-. destruct a; reflexivity. Qed.

(* ---- the agents after a move are the ones the checker expects ------------------------------------- *)
Lemma moved_unfold s i a from d o' : agent s i = Some a -> a_pos a = Some from ->
  moved s i d o' =
  upd_nth (g_agents s) i (match o' with
                          | Some o => with_orient (with_pos a (Some (dest from d))) (Some o)
                          | None => with_pos a (Some (dest from d)) end).
Proof. intros Ha Hp. unfold moved. rewrite Ha, Hp. reflexivity. Qed.

(* `moved` is the agent list that `displaced` describes (and the unchanged one for a move onto
   the own cell) *)
Lemma moved_displaced s s' i a from d :
  agent s i = Some a -> a_pos a = Some from ->
  (dest from d = from -> s' = s) -> (dest from d <> from -> displaced s s' i a from (dest from d)) ->
  g_agents s' = moved s i d None.
Proof.
  intros Ha Hp H1 H2. rewrite (moved_unfold s i a from d None Ha Hp).
  destruct (cell_eqb (dest from d) from) eqn:E.
  - apply cell_eqb_eq in E. rewrite (H1 E), E, (with_pos_same a (Some from) Hp).
    symmetry. apply upd_nth_same. exact Ha.
  - apply cell_eqb_neq in E. apply (H2 E).
Qed.

Lemma move_by_outcome s i a from d :
  ginv s -> agent s i = Some a -> a_active a = true -> a_pos a = Some from ->
  exists s', move_by s i d = MOk (can_move s i d) s' /\ ginv s' /\
    g_agents s' = if can_move s i d then moved s i d None else g_agents s.
Proof.
  intros G Ha Hact Hp.
  destruct (move_by_spec s i a from d G Ha Hact Hp) as (s' & E & G' & F & T1 & T2).
  exists s'. split; [exact E|]. split; [exact G'|].
  destruct (can_move s i d).
  - apply (moved_displaced s s' i a from d Ha Hp (T1 eq_refl) (T2 eq_refl)).
  - rewrite (F eq_refl). reflexivity.
Qed.

Lemma grid_action_orient o : 1 <= o <= 4 -> exists d, grid_action o = Some d.
Proof.
  intros H. assert (C : o = 1 \/ o = 2 \/ o = 3 \/ o = 4) by lia.
  destruct C as [ -> | [ -> | [ -> | -> ] ] ]; eexists; reflexivity.
Qed.

(* ---- one operation ---------------------------------------------------------------------------------- *)
Lemma expect_ok s' b ags :
  g_agents s' = ags -> cells_consistent s' = true ->
  match sxB (ofB b) with
  | None => 1205
  | Some b' =>
      if negb (Bool.eqb b b') then 1201
      else if negb (arecs_eqb (g_agents s') ags) then 1202
      else if negb (cells_consistent s') then 1203
      else 0
  end = 0.
Proof. intros -> ->. rewrite sxB_ofB, eqb_reflx, arecs_eqb_refl. reflexivity. Qed.

Lemma placed_inv s i : placed s i = true ->
  exists a from, agent s i = Some a /\ a_pos a = Some from /\ a_active a = true.
Proof.
  unfold placed. destruct (agent s i) as [a|]; [|discriminate].
  destruct (a_pos a) as [from|] eqn:E; [|discriminate]. intros H. exists a, from. auto.
Qed.

Definition drift_ok (s : gstate) (o : mop) : Prop :=
  match o with
  | ODrift i _ => forall a, agent s i = Some a -> a_orient a <> None
  | _ => True
  end.

(* the common shape of the free and cross cases *)
Lemma chk_by_ok s i a from d :
  ginv s -> agent s i = Some a -> a_active a = true -> a_pos a = Some from ->
  let res := move_by s i d in
  let s' := state_after s res in
  (if can_move s i d
   then match sxB (enc_mres res) with
        | None => 1205
        | Some b' => if negb (Bool.eqb true b') then 1201
                     else if negb (arecs_eqb (g_agents s') (moved s i d None)) then 1202
                     else if negb (cells_consistent s') then 1203 else 0 end
   else match sxB (enc_mres res) with
        | None => 1205
        | Some b' => if negb (Bool.eqb false b') then 1201
                     else if negb (arecs_eqb (g_agents s') (g_agents s)) then 1202
                     else if negb (cells_consistent s') then 1203 else 0 end) = 0.
Proof.
  intros G Ha Hact Hp. cbv zeta.
  destruct (move_by_outcome s i a from d G Ha Hact Hp) as (s' & E & G' & Eag).
  rewrite E. cbn [state_after enc_mres].
  destruct (can_move s i d); apply expect_ok; auto using ginv_cells_consistent.
Qed.

Theorem chk_mop_model s o :
  ginv s -> drift_ok s o ->
  chk_mop s (state_after s (do_mop s o)) o (enc_mres (do_mop s o)) = 0.
Proof.
  intros G W. unfold chk_mop. destruct (placed s (mop_agent o)) eqn:Hpl; [|reflexivity].
  cbn [negb]. apply placed_inv in Hpl as (a & from & Ha & Hp & Hact).
  destruct o as [i d|i ca|i ca]; cbn [mop_agent do_mop] in *.
  - unfold move_free. apply (chk_by_ok s i a from d G Ha Hact Hp).
  - destruct (grid_action ca) as [d|] eqn:Eg.
    + unfold move_cross. rewrite Eg. apply (chk_by_ok s i a from d G Ha Hact Hp).
    + rewrite (move_cross_reject s i ca Eg). cbn [enc_mres state_after].
      rewrite arecs_eqb_refl. reflexivity.
  - cbn [drift_ok] in W. specialize (W a Ha).
    destruct (a_orient a) as [o0|] eqn:Ho; [clear W|congruence].
    pose proof (move_drift_spec s i a from o0 ca G Ha Hact Hp Ho) as Sp.
    pose proof (move_drift_inv s i ca G) as Gd.
    destruct (grid_action ca) as [d|] eqn:Eg.
    + rewrite Ha, Ho.
      destruct (negb (ca =? 0) && can_move s i d) eqn:Et.
      * destruct Sp as (s1 & Ec & Ed). rewrite Ed in *. cbn [state_after enc_mres].
        apply andb_true_iff in Et as [_ Ecm].
        apply (expect_ok _ true); [|apply ginv_cells_consistent, Gd].
        cbn [g_agents set_agent].
        destruct (move_by_outcome s i a from d G Ha Hact Hp) as (s1' & E1 & _ & Eag).
        unfold move_cross in Ec. rewrite Eg, E1, Ecm in Ec. injection Ec as <-.
        rewrite Ecm in Eag. rewrite Eag, !(moved_unfold s i a from d _ Ha Hp).
        apply upd_nth_twice.
      * rewrite Sp.
        destruct (gi_vitals _ _ G i a Ha) as (_ & _ & _ & V4).
        destruct (grid_action_orient o0 (V4 o0 Ho)) as (d0 & Eg0). rewrite Eg0.
        unfold move_cross. rewrite Eg0. apply (chk_by_ok s i a from d0 G Ha Hact Hp).
    + rewrite Sp. cbn [enc_mres state_after]. rewrite arecs_eqb_refl. reflexivity.
Qed.

(* the checker reads of its two states only what hdr / sim preserve *)
Lemma chk_mop_sim sh s sh' s' o r : hdr sh s -> sim sh' s' -> chk_mop sh sh' o r = chk_mop s s' o r.
Proof.
  intros Hh Hs. pose proof (cells_consistent_sim _ _ Hs) as Ecc.
  destruct Hs as [(_ & _ & _ & Eag) _].
  unfold chk_mop. rewrite Ecc, Eag. clear Ecc Eag.
  destruct sh, s. unfold hdr in Hh. cbn in Hh. destruct Hh as (-> & -> & -> & ->). reflexivity.
Qed.

(* ---- every sequence --------------------------------------------------------------------------------- *)
Definition drift_wf (s : gstate) (ops : list mop) : Prop :=
  forall i ca a, In (ODrift i ca) ops -> agent s i = Some a -> a_orient a <> None.

Lemma drift_wf_step s o r : drift_wf s (o :: r) ->
  drift_ok s o /\ drift_wf (state_after s (do_mop s o)) r.
Proof.
  intros W. split.
  - destruct o as [| |i ca]; cbn; auto. intros a Ha. apply (W i ca a (or_introl eq_refl) Ha).
  - intros i ca a' Hin Ha'. destruct (srel_do_mop s o) as (_ & _ & _ & _ & Hr).
    destruct (Hr i a' Ha') as (a & Ha & (_ & _ & Ro & _)).
    intros E. apply Ro in E. apply (W i ca a (or_intror Hin) Ha E).
Qed.

(* the model run, on decoded data: (result, state after) per operation *)
Fixpoint mops_trace (s : gstate) (ops : list mop) : list (mres * gstate) :=
  match ops with
  | [] => []
  | o :: r => let res := do_mop s o in
              (res, state_after s res) :: mops_trace (state_after s res) r
  end.

(* the checker loop taking the states directly *)
Fixpoint chk_mops_st (s : gstate) (ops : list mop) (recs : list (mres * gstate)) : Z :=
  match ops, recs with
  | [], [] => 0
  | o :: ops', (res, s') :: recs' =>
      let c := chk_mop s s' o (enc_mres res) in
      if c =? 0 then chk_mops_st s' ops' recs' else c
  | _, _ => 1204
  end.

Theorem chk_mops_st_model ops : forall s, ginv s -> drift_wf s ops ->
  chk_mops_st s ops (mops_trace s ops) = 0.
Proof.
  induction ops as [|o r IH]; intros s G W; [reflexivity|].
  cbn [mops_trace chk_mops_st]. destruct (drift_wf_step s o r W) as [W1 W2].
  rewrite (chk_mop_model s o G W1). cbn [Z.eqb]. apply IH; [apply do_mop_inv, G|exact W2].
Qed.

(* through the codec: the records are the s-expressions run_mops emits, the checker decodes each
   snapshot relative to the dimensions of s0 *)
Theorem chk_mops_model ops : forall s0 s sh,
  ginv s -> hdr sh s -> srel s0 s -> drift_wf s ops ->
  chk_mops s0 sh ops (run_mops s ops) = 0.
Proof.
  induction ops as [|o r IH]; intros s0 s sh G Hh Hr W; [reflexivity|].
  cbn [run_mops chk_mops].
  change (match do_mop s o with MOk _ s1 => s1 | _ => s end) with (state_after s (do_mop s o)).
  set (s' := state_after s (do_mop s o)).
  assert (Hr' : srel s0 s') by (apply srel_trans with s; [exact Hr|apply srel_do_mop]).
  destruct Hr' as (Er & Ec & Eo & El & Hag).
  destruct (dec_enc_snapshot s0 s' Er Ec Eo El) as (sh' & Ed & Hs). rewrite Ed.
  rewrite (chk_mop_sim sh s sh' s' o _ Hh Hs).
  destruct (drift_wf_step s o r W) as [W1 W2].
  unfold s'. rewrite (chk_mop_model s o G W1). cbn [Z.eqb]. fold s'.
  apply IH; [apply do_mop_inv, G|apply Hs| |exact W2].
  unfold srel. auto.
Qed.

(* the wire-level statement: run_chk_C12 applied to the output of run_moves answers 1 *)
Theorem run_chk_C12_model xin s0 xops ops :
  dec_grid_input xin = Some (s0, xops) -> all_some (map dec_mop xops) = Some ops ->
  ginv s0 -> drift_wf s0 ops ->
  run_chk_C12 (L [xin; run_moves xin]) = A 1.
Proof.
  intros E1 E2 G W. unfold run_chk_C12, run_moves. rewrite E1, E2.
  destruct (dec_enc_snapshot s0 s0 eq_refl eq_refl eq_refl eq_refl) as (sh & Ed & Hs). rewrite Ed.
  rewrite (cells_consistent_sim _ _ Hs), (ginv_cells_consistent s0 G). cbn [negb].
  rewrite (chk_mops_model ops s0 s0 sh G (proj1 Hs) (srel_refl s0) W). reflexivity.
Qed.

Corollary chk_C12_model s0 ops : ginv s0 -> drift_wf s0 ops ->
  chk_mops s0 s0 ops (run_mops s0 ops) = 0.
Proof. intros G W. apply chk_mops_model; auto using hdr_refl, srel_refl. Qed.

Lemma drift_wf_all s ops :
  forallb (fun a => match a_orient a with Some _ => true | None => false end) (g_agents s) = true ->
  drift_wf s ops.
Proof.
  intros H i ca a _ Ha. rewrite forallb_forall in H. unfold agent in Ha. apply nth_error_In in Ha.
  specialize (H a Ha). destruct (a_orient a); [discriminate|discriminate].
Qed.
