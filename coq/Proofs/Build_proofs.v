(* Proofs about Grid/Build.v: build_sim_from_array = the per-occurrence specification;
   build_sim_from_file = build_sim_from_array on the file's entries; build_sim_from_grid = the
   direct build; priority of layout agents over extra agents; reset positions; the checker
   accepts the model; the unrepaired reserved-character test is refuted. *)
From Coq Require Import ZArith List Bool Lia Arith.
From Abm Require Import Base.Sx Grid.Amap Grid.Build Proofs.Sx_proofs Proofs.Amap_proofs.
Import ListNotations.
Open Scope Z_scope.

(* ---- equality on array entries ------------------------------------------------------------- *)
Lemma zlist_eqb_ok : forall a b, zlist_eqb a b = true <-> a = b.
Proof.
  induction a as [|x a IH]; intros [|y b]; cbn; split; intros H; try discriminate; try reflexivity.
  - apply andb_true_iff in H. destruct H as [H1 H2]. apply Z.eqb_eq in H1. apply IH in H2.
    subst. reflexivity.
  - inversion H. subst. rewrite Z.eqb_refl. cbn. apply IH. reflexivity.
Qed.

Lemma cellv_eqb_ok : forall a b, cellv_eqb a b = true <-> a = b.
Proof.
  intros [x|s] [y|t]; cbn; split; intros H; try discriminate.
  - apply Z.eqb_eq in H. subst. reflexivity.
  - inversion H. apply Z.eqb_refl.
  - apply zlist_eqb_ok in H. subst. reflexivity.
  - inversion H. apply zlist_eqb_ok. reflexivity.
Qed.

Lemma cellv_eqb_refl : forall a, cellv_eqb a a = true.
Proof. intros a. apply cellv_eqb_ok. reflexivity. Qed.

Lemma cellv_eqb_neq : forall a b, a <> b -> cellv_eqb a b = false.
Proof.
  intros a b H. destruct (cellv_eqb a b) eqn:E; [|reflexivity].
  apply cellv_eqb_ok in E. contradiction.
Qed.

Lemma registered_get : forall reg ch, registered reg ch = am_get cellv_eqb reg ch.
Proof.
  unfold registered. induction reg as [|[k f] r IH]; intros ch; cbn; [reflexivity|].
  destruct (cellv_eqb ch k); [reflexivity|apply IH].
Qed.

Lemma zeqb_ok : forall a b : Z, (a =? b) = true <-> a = b.
Proof. intros. apply Z.eqb_eq. Qed.

(* ---- the scan as a fold over the cells in reading order --------------------------------------- *)
Definition cell_step (reg : oreg) (st : bstate) (x : nat * nat * cellv) : bstate :=
  scan_cell reg st (fst (fst x)) (snd (fst x)) (snd x).

Lemma scan_row_fold : forall reg row st r c,
    scan_row reg st r c row = fold_left (cell_step reg) (row_cells r c row) st.
Proof.
  intros reg. induction row as [|ch rest IH]; intros st r c; cbn; [reflexivity|].
  rewrite IH. reflexivity.
Qed.

Lemma scan_rows_fold : forall reg rows st r,
    scan_rows reg st r rows = fold_left (cell_step reg) (arr_cells r rows) st.
Proof.
  intros reg. induction rows as [|row rest IH]; intros st r; cbn; [reflexivity|].
  rewrite IH, fold_left_app, scan_row_fold. reflexivity.
Qed.

(* the layout's agents, by recursion over the cells still to come ([pre] = the cells before) *)
Fixpoint layout_rec (reg : oreg) (pre suf : list (nat * nat * cellv)) : list bagent :=
  match suf with
  | [] => []
  | (r, c, ch) :: rest =>
      match registered reg ch with
      | Some f => [set_ipos (f (count_ch ch pre)) r c]
      | None => []
      end ++ layout_rec reg (pre ++ [(r, c, ch)]) rest
  end.

Definition ndx_ok (reg : oreg) (ndx : list (cellv * nat)) (pre : list (nat * nat * cellv)) : Prop :=
  forall ch f, am_get cellv_eqb reg ch = Some f ->
               match am_get cellv_eqb ndx ch with Some n => n | None => O end = count_ch ch pre.

Lemma count_ch_snoc : forall ch pre r c ch',
    count_ch ch (pre ++ [(r, c, ch')]) =
    (count_ch ch pre + if cellv_eqb ch ch' then 1 else 0)%nat.
Proof.
  intros. unfold count_ch. rewrite filter_app, app_length. cbn.
  destruct (cellv_eqb ch ch'); reflexivity.
Qed.

Lemma scan_fold_spec : forall reg suf pre ags ndx, ndx_ok reg ndx pre ->
    fst (fold_left (cell_step reg) suf (ags, ndx)) =
    am_update Z.eqb ags (keyed (layout_rec reg pre suf)).
Proof.
  intros reg. induction suf as [|[[r c] ch] rest IH]; intros pre ags ndx Hok; cbn [fold_left layout_rec].
  - reflexivity.
  - unfold cell_step at 2. cbn [fst snd]. unfold scan_cell. cbn [fst snd].
    rewrite registered_get.
    destruct (am_get cellv_eqb reg ch) as [f|] eqn:R.
    + rewrite (Hok ch f R).
      rewrite (IH (pre ++ [(r, c, ch)])).
      * cbn [app keyed map]. rewrite am_update_cons. reflexivity.
      * intros ch' f' R'. rewrite count_ch_snoc.
        destruct (cellv_eqb ch' ch) eqn:E.
        -- apply cellv_eqb_ok in E. subst ch'.
           rewrite (am_get_set_same cellv_eqb cellv_eqb_ok). lia.
        -- rewrite (am_get_set_other cellv_eqb cellv_eqb_ok).
           ++ rewrite (Hok ch' f' R'). lia.
           ++ intros H. subst. rewrite cellv_eqb_refl in E. discriminate.
    + cbn [app]. apply IH.
      intros ch' f' R'. rewrite count_ch_snoc.
      rewrite cellv_eqb_neq; [rewrite (Hok ch' f' R'); lia|].
      intros H. subst. rewrite R in R'. discriminate.
Qed.

Definition layout_at (reg : oreg) (cells : list (nat * nat * cellv)) (j : nat) : list bagent :=
  match nth_error cells j with
  | Some (r, c, ch) =>
      match registered reg ch with
      | Some f => [set_ipos (f (rank cells j ch)) r c]
      | None => []
      end
  | None => []
  end.

Lemma firstn_app_exact {T} : forall (a b : list T), firstn (length a) (a ++ b) = a.
Proof.
  intros a b. rewrite firstn_app, Nat.sub_diag, firstn_all. cbn. apply app_nil_r.
Qed.

Lemma layout_rec_index : forall reg suf pre,
    layout_rec reg pre suf =
    flat_map (layout_at reg (pre ++ suf)) (seq (length pre) (length suf)).
Proof.
  intros reg. induction suf as [|[[r c] ch] rest IH]; intros pre; cbn [layout_rec length seq flat_map].
  - reflexivity.
  - f_equal.
    + unfold layout_at. rewrite nth_error_app2, Nat.sub_diag; [|lia]. cbn [nth_error].
      unfold rank. rewrite firstn_app_exact. reflexivity.
    + rewrite (IH (pre ++ [(r, c, ch)])). rewrite <- app_assoc. cbn [app].
      rewrite app_length. cbn [length]. rewrite Nat.add_1_r. reflexivity.
Qed.

Lemma layout_rec_spec : forall reg cells, layout_rec reg [] cells = layout_spec reg cells.
Proof. intros reg cells. rewrite layout_rec_index. reflexivity. Qed.

Lemma existsb_ext_b {T} : forall (f g : T -> bool) l, (forall x, f x = g x) -> existsb f l = existsb g l.
Proof. intros f g l H. induction l as [|x r IH]; cbn; [reflexivity|rewrite H, IH; reflexivity]. Qed.

Lemma has_reserved_markers : forall reg, has_reserved reserved reg = markers_registered reg.
Proof.
  intros reg. unfold has_reserved, markers_registered, reserved, markers.
  apply existsb_ext_b. intros k. apply am_mem_existsb.
Qed.

Lemma scan_array_spec : forall reg arr ags,
    fst (scan_rows reg (ags, []) 0 arr) =
    am_update Z.eqb ags (keyed (layout_spec reg (arr_cells 0 arr))).
Proof.
  intros reg arr ags. rewrite scan_rows_fold, (scan_fold_spec reg _ []).
  - rewrite layout_rec_spec. reflexivity.
  - intros ch f _. reflexivity.
Qed.

Lemma build_core_spec : forall arr reg extra,
    markers_registered reg = false ->
    build_core (length arr) (ncols arr)
               (am_update Z.eqb (start extra) (keyed (layout_spec reg (arr_cells 0 arr)))) =
    spec_build arr reg extra.
Proof. intros arr reg extra H. unfold spec_build, build_core. rewrite H. reflexivity. Qed.

Lemma array_spec_lemma : forall arr reg extra,
    build_array arr reg extra = spec_build arr reg extra.
Proof.
  intros arr reg extra. unfold build_array, build_array_with.
  rewrite has_reserved_markers. destruct (markers_registered reg) eqn:M.
  - unfold spec_build. rewrite M. reflexivity.
  - rewrite scan_array_spec. apply build_core_spec. exact M.
Qed.

(* ---- text files -------------------------------------------------------------------------------- *)
Lemma forallb_map_b {S T} : forall (f : T -> bool) (g : S -> T) l,
    forallb f (map g l) = forallb (fun x => f (g x)) l.
Proof. intros f g l. induction l as [|x r IH]; cbn; [reflexivity|rewrite IH; reflexivity]. Qed.

Lemma file_rows_spec : forall reg lines st r cols,
    file_rows reg st r cols lines =
    if forallb (fun l => Nat.eqb (length (tokens l)) cols) lines
    then Some (scan_rows reg st r (map tokens lines)) else None.
Proof.
  intros reg. induction lines as [|l ls IH]; intros st r cols; cbn; [reflexivity|].
  destruct (Nat.eqb (length (tokens l)) cols); cbn; [apply IH|reflexivity].
Qed.

Lemma build_file_general : forall text reg extra,
    build_file text reg extra =
    if markers_registered reg then BErr 1
    else match parse_file text with
         | [] => BErr 3
         | _ => if rectangular (parse_file text)
                then build_array (parse_file text) reg extra else BErr 1
         end.
Proof.
  intros text reg extra. unfold build_file, build_file_with, build_array, build_array_with, parse_file.
  rewrite has_reserved_markers. destruct (markers_registered reg); [reflexivity|].
  destruct (splitlines text) as [|l0 ls] eqn:E; [reflexivity|].
  rewrite file_rows_spec. unfold rectangular. rewrite forallb_map_b.
  assert (Hc : ncols (map tokens (l0 :: ls)) = length (split_on 32 l0)).
  { cbn. unfold tokens. apply map_length. }
  rewrite Hc, map_length. cbn [map].
  destruct (forallb _ (l0 :: ls)); reflexivity.
Qed.

Lemma split_on_nosep : forall sep s, ~ In sep s -> split_on sep s = [s].
Proof.
  intros sep. induction s as [|ch r IH]; intros H; cbn; [reflexivity|].
  destruct (ch =? sep) eqn:E.
  - apply Z.eqb_eq in E. subst. exfalso. apply H. left. reflexivity.
  - rewrite IH; [reflexivity|]. intros H1. apply H. right. exact H1.
Qed.

Lemma split_on_app_sep : forall sep s rest, ~ In sep s ->
    split_on sep (s ++ sep :: rest) = s :: split_on sep rest.
Proof.
  intros sep. induction s as [|ch r IH]; intros rest H; cbn.
  - rewrite Z.eqb_refl. reflexivity.
  - destruct (ch =? sep) eqn:E.
    + apply Z.eqb_eq in E. subst. exfalso. apply H. left. reflexivity.
    + rewrite IH; [reflexivity|]. intros H1. apply H. right. exact H1.
Qed.

Lemma split_join : forall row, row <> [] -> (forall s, In s row -> ~ In 32 s) ->
    split_on 32 (join_sp row) = row.
Proof.
  induction row as [|s rest IH]; intros Hne Hc; [contradiction|].
  destruct rest as [|s2 rest'].
  - cbn. apply split_on_nosep. apply Hc. left. reflexivity.
  - change (join_sp (s :: s2 :: rest')) with (s ++ 32 :: join_sp (s2 :: rest')).
    rewrite split_on_app_sep; [|apply Hc; left; reflexivity].
    rewrite IH; [reflexivity|discriminate|]. intros t Ht. apply Hc. right. exact Ht.
Qed.

Lemma join_no10 : forall row, (forall s, In s row -> ~ In 10 s) -> ~ In 10 (join_sp row).
Proof.
  induction row as [|s rest IH]; intros Hc; [intros []|].
  destruct rest as [|s2 rest'].
  - cbn. apply Hc. left. reflexivity.
  - change (join_sp (s :: s2 :: rest')) with (s ++ 32 :: join_sp (s2 :: rest')).
    intros H. apply in_app_or in H. destruct H as [H|[H|H]].
    + apply (Hc s (or_introl eq_refl)). exact H.
    + discriminate.
    + apply IH in H; [exact H|]. intros t Ht. apply Hc. right. exact Ht.
Qed.

Lemma split_lines_terminated : forall lines, (forall l, In l lines -> ~ In 10 l) ->
    split_on 10 (concat (map (fun l => l ++ [10]) lines)) = lines ++ [[]].
Proof.
  induction lines as [|l ls IH]; intros Hc; cbn [map concat app]; [reflexivity|].
  rewrite <- app_assoc. cbn [app].
  rewrite split_on_app_sep; [|apply Hc; left; reflexivity].
  rewrite IH; [reflexivity|]. intros t Ht. apply Hc. right. exact Ht.
Qed.

Lemma drop_last_empty_snoc : forall l, drop_last_empty (l ++ [[]]) = l.
Proof.
  induction l as [|x r IH]; [reflexivity|].
  cbn [app]. destruct x as [|y x'].
  - destruct r as [|x2 r']; cbn [app] in *.
    + cbn. reflexivity.
    + cbn [drop_last_empty]. f_equal. exact IH.
  - cbn [drop_last_empty]. f_equal. exact IH.
Qed.

Definition clean_str (s : list Z) : Prop := ~ In 32 s /\ ~ In 10 s.

Lemma parse_unparse : forall strs,
    (forall row, In row strs -> row <> [] /\ forall s, In s row -> clean_str s) ->
    parse_file (unparse strs) = map (map CS) strs.
Proof.
  intros strs H. unfold parse_file, unparse, splitlines.
  rewrite <- (map_map join_sp (fun l => l ++ [10])).
  rewrite split_lines_terminated.
  - rewrite drop_last_empty_snoc, map_map. apply map_ext_in. intros row Hr.
    unfold tokens. destruct (H row Hr) as [Hne Hc].
    rewrite split_join; [reflexivity|exact Hne|]. intros s Hs. apply (Hc s Hs).
  - intros l Hl. apply in_map_iff in Hl. destruct Hl as [row [E Hr]]. subst l.
    apply join_no10. intros s Hs. apply (proj2 (H row Hr) s Hs).
Qed.

Lemma clean_token_CS : forall ch, clean_token ch = true -> CS (str_of ch) = ch /\ clean_str (str_of ch).
Proof.
  intros [z|s]; cbn; intros H; [discriminate|]. split; [reflexivity|].
  rewrite forallb_forall in H. split; intros Hin; specialize (H _ Hin); cbn in H; discriminate.
Qed.

Lemma file_able_parse : forall arr, file_able arr = true ->
    parse_file (unparse (map (map str_of) arr)) = arr /\ arr <> [].
Proof.
  intros arr H. unfold file_able in H. apply andb_true_iff in H. destruct H as [H0 H].
  rewrite forallb_forall in H. split.
  - rewrite parse_unparse.
    + rewrite map_map. rewrite <- (map_id arr) at 2. apply map_ext_in. intros row Hr.
      rewrite map_map. rewrite <- (map_id row) at 2. apply map_ext_in. intros ch Hch.
      specialize (H row Hr). apply andb_true_iff in H. destruct H as [H1 _].
      rewrite forallb_forall in H1. apply (proj1 (clean_token_CS ch (H1 ch Hch))).
    + intros row' Hr'. apply in_map_iff in Hr'. destruct Hr' as [row [E Hr]]. subst row'.
      specialize (H row Hr). apply andb_true_iff in H. destruct H as [H1 H2]. split.
      * destruct row; [discriminate|discriminate].
      * intros s Hs. apply in_map_iff in Hs. destruct Hs as [ch [E Hch]]. subst s.
        rewrite forallb_forall in H1. apply (proj2 (clean_token_CS ch (H1 ch Hch))).
  - destruct arr; [discriminate|discriminate].
Qed.

Lemma file_eq_array_lemma : forall arr reg extra,
    file_able arr = true -> rectangular arr = true ->
    build_file (unparse (map (map str_of) arr)) reg extra = build_array arr reg extra.
Proof.
  intros arr reg extra Hf Hr. rewrite build_file_general.
  destruct (file_able_parse arr Hf) as [Hp Hne]. rewrite Hp, Hr.
  destruct (markers_registered reg) eqn:M.
  - rewrite array_spec_lemma. unfold spec_build. rewrite M. reflexivity.
  - destruct arr; [contradiction|reflexivity].
Qed.

(* every text: no line -> IndexError; ragged -> refused; otherwise the array of its entries *)
Lemma file_text_lemma : forall text reg extra,
    parse_file text <> [] -> rectangular (parse_file text) = true ->
    build_file text reg extra = build_array (parse_file text) reg extra.
Proof.
  intros text reg extra Hne Hr. rewrite build_file_general, Hr.
  destruct (markers_registered reg) eqn:M.
  - rewrite array_spec_lemma. unfold spec_build. rewrite M. reflexivity.
  - destruct (parse_file text); [contradiction|reflexivity].
Qed.

(* ---- grids ------------------------------------------------------------------------------------ *)
Definition cell_items (cell : gcell) : agents := match cell with Some d => d | None => [] end.
Definition row_items (row : list gcell) : agents := concat (map cell_items row).

Lemma grid_items_cons : forall row g, grid_items (row :: g) = row_items row ++ grid_items g.
Proof. reflexivity. Qed.

Lemma grid_row_spec : forall row st r c,
    grid_row st r c row =
    if grid_pos_ok_row r c row then Some (am_update Z.eqb st (row_items row)) else None.
Proof.
  induction row as [|cell rest IH]; intros st r c; cbn [grid_row grid_pos_ok_row]; [reflexivity|].
  unfold grid_cell. destruct cell as [d|].
  - destruct (forallb (fun kv => ipos_is (snd kv) r c) d); cbn [andb]; [|reflexivity].
    rewrite IH. destruct (grid_pos_ok_row r (S c) rest); [|reflexivity].
    unfold row_items. cbn [map concat cell_items]. rewrite (am_update_app Z.eqb). reflexivity.
  - cbn [andb]. rewrite IH. reflexivity.
Qed.

Lemma grid_rows_spec : forall g st r,
    grid_rows st r g =
    if grid_pos_ok r g then Some (am_update Z.eqb st (grid_items g)) else None.
Proof.
  induction g as [|row rest IH]; intros st r; cbn [grid_rows grid_pos_ok]; [reflexivity|].
  rewrite grid_row_spec. destruct (grid_pos_ok_row r 0 row); cbn [andb]; [|reflexivity].
  rewrite IH. destruct (grid_pos_ok (S r) rest); [|reflexivity].
  rewrite grid_items_cons, (am_update_app Z.eqb). reflexivity.
Qed.

Lemma grid_eq_direct_lemma : forall g extra, build_grid g extra = spec_grid g extra.
Proof.
  intros g extra. unfold build_grid, spec_grid. rewrite grid_rows_spec.
  destruct (grid_pos_ok 0 g); reflexivity.
Qed.

(* the grid made from an array *)
Lemma grid_of_row_spec : forall reg row pre r c,
    grid_pos_ok_row r c (grid_of_row reg pre r c row) = true /\
    row_items (grid_of_row reg pre r c row) = keyed (layout_rec reg pre (row_cells r c row)) /\
    length (grid_of_row reg pre r c row) = length row.
Proof.
  intros reg. induction row as [|ch rest IH]; intros pre r c; cbn [grid_of_row row_cells layout_rec].
  - repeat split.
  - destruct (IH (pre ++ [(r, c, ch)]) r (S c)) as [H1 [H2 H3]].
    cbn [grid_pos_ok_row length]. rewrite H1, H3. unfold row_items in *. cbn [map concat].
    rewrite H2. destruct (registered reg ch) as [f|].
    + cbn [cell_items keyed map app forallb snd]. unfold ipos_is, set_ipos. cbn [b_ipos].
      rewrite !Z.eqb_refl. repeat split.
    + cbn [cell_items app]. repeat split.
Qed.

Lemma layout_rec_app : forall reg a b pre,
    layout_rec reg pre (a ++ b) = layout_rec reg pre a ++ layout_rec reg (pre ++ a) b.
Proof.
  intros reg. induction a as [|[[r c] ch] rest IH]; intros b pre; cbn [app layout_rec].
  - rewrite app_nil_r. reflexivity.
  - rewrite IH, <- !app_assoc. reflexivity.
Qed.

Lemma grid_of_rows_spec : forall reg rows pre r,
    grid_pos_ok r (grid_of_rows reg pre r rows) = true /\
    grid_items (grid_of_rows reg pre r rows) = keyed (layout_rec reg pre (arr_cells r rows)) /\
    length (grid_of_rows reg pre r rows) = length rows.
Proof.
  intros reg. induction rows as [|row rest IH]; intros pre r; cbn [grid_of_rows arr_cells].
  - repeat split.
  - destruct (IH (pre ++ row_cells r 0 row) (S r)) as [H1 [H2 H3]].
    destruct (grid_of_row_spec reg row pre r 0) as [G1 [G2 G3]].
    cbn [grid_pos_ok length]. rewrite G1, H1, H3, grid_items_cons, G2, H2, layout_rec_app.
    unfold keyed. rewrite map_app. repeat split.
Qed.

Lemma ncols_grid_of_array : forall arr reg, ncols (grid_of_array arr reg) = ncols arr.
Proof.
  intros [|row rest] reg; [reflexivity|]. unfold grid_of_array. cbn [grid_of_rows ncols].
  apply (grid_of_row_spec reg row [] 0 0).
Qed.

Lemma grid_of_array_build : forall arr reg extra,
    build_grid (grid_of_array arr reg) extra =
    build_direct (length arr) (ncols arr)
                 (am_update Z.eqb (start extra) (layout_agents arr reg)).
Proof.
  intros arr reg extra. rewrite grid_eq_direct_lemma. unfold spec_grid, grid_of_array.
  destruct (grid_of_rows_spec reg arr [] 0) as [H1 [H2 H3]].
  rewrite H1, H2, H3, layout_rec_spec.
  change (grid_of_rows reg [] 0 arr) with (grid_of_array arr reg).
  rewrite ncols_grid_of_array. reflexivity.
Qed.

Lemma direct_spec : forall arr reg extra, markers_registered reg = false ->
    build_direct (length arr) (ncols arr) (am_update Z.eqb (start extra) (layout_agents arr reg)) =
    spec_build arr reg extra.
Proof. intros arr reg extra M. unfold build_direct, layout_agents. apply build_core_spec. exact M. Qed.

Lemma grid_eq_array_lemma : forall arr reg extra, markers_registered reg = false ->
    build_grid (grid_of_array arr reg) extra = build_array arr reg extra.
Proof.
  intros arr reg extra M. rewrite grid_of_array_build, direct_spec, array_spec_lemma; [reflexivity|exact M].
Qed.

(* ---- reset ------------------------------------------------------------------------------------- *)
Definition hit (placed : list (Z * Z)) (l : list bagent) : bool :=
  existsb (fun a => match b_ipos a with
                    | Some cell => existsb (pair_eqb cell) placed
                    | None => false end) l.

Definition at_cell (cell : Z * Z) (b : bagent) : bool :=
  match b_ipos b with Some cell' => pair_eqb cell' cell | None => false end.

Lemma hit_cons : forall cell placed l,
    hit (cell :: placed) l = existsb (at_cell cell) l || hit placed l.
Proof.
  intros cell placed l. induction l as [|a r IH]; [reflexivity|].
  change (hit (cell :: placed) (a :: r))
    with ((match b_ipos a with
           | Some c' => existsb (pair_eqb c') (cell :: placed) | None => false end)
          || hit (cell :: placed) r).
  change (hit placed (a :: r))
    with ((match b_ipos a with Some c' => existsb (pair_eqb c') placed | None => false end)
          || hit placed r).
  change (existsb (at_cell cell) (a :: r)) with (at_cell cell a || existsb (at_cell cell) r).
  rewrite IH. clear IH.
  assert (Ha : at_cell cell a = match b_ipos a with Some c' => pair_eqb c' cell | None => false end)
    by reflexivity.
  rewrite Ha. clear Ha. destruct (b_ipos a) as [c'|].
  - cbn [existsb].
    destruct (pair_eqb c' cell); destruct (existsb (pair_eqb c') placed);
      destruct (existsb (at_cell cell) r); destruct (hit placed r); reflexivity.
  - reflexivity.
Qed.

Lemma place18_spec : forall l placed,
    place18 placed l = negb (hit placed l) && negb (clash_spec l).
Proof.
  induction l as [|a r IH]; intros placed; [reflexivity|].
  cbn [place18 clash_spec]. unfold hit. cbn [existsb]. fold (hit placed r).
  destruct (b_ipos a) as [cell|].
  - destruct (existsb (pair_eqb cell) placed) eqn:E; cbn [orb negb andb]; [reflexivity|].
    rewrite IH, hit_cons.
    change (existsb (fun b => match b_ipos b with Some cell' => pair_eqb cell' cell | None => false end) r)
      with (existsb (at_cell cell) r).
    destruct (existsb (at_cell cell) r), (hit placed r), (clash_spec r); reflexivity.
  - cbn [orb]. apply IH.
Qed.

Lemma reset18_spec : forall ags, reset18 ags = spec_reset ags.
Proof.
  intros [|kv rest]; [reflexivity|]. unfold reset18, spec_reset.
  rewrite place18_spec. cbn [hit]. unfold hit.
  replace (existsb _ (map snd (kv :: rest))) with false.
  - cbn [negb andb]. destruct (clash_spec (map snd (kv :: rest))); reflexivity.
  - symmetry. apply not_true_is_false. intros H. apply existsb_exists in H.
    destruct H as [a [_ Ha]]. destruct (b_ipos a); discriminate.
Qed.

Lemma reset_positions_lemma : forall ags ps, reset18 ags = inl (Some ps) ->
    length ps = length ags /\
    forall j k a, nth_error ags j = Some (k, a) -> nth_error ps j = Some (b_ipos a).
Proof.
  intros ags ps H. unfold reset18 in H. destruct ags as [|kv rest]; [discriminate|].
  destruct (place18 [] (map snd (kv :: rest))); [|discriminate]. inversion H. subst ps. clear H.
  split; [cbn [length]; rewrite map_length; reflexivity|]. intros j k a Hn.
  apply (map_nth_error (fun kv => b_ipos (snd kv)) j (kv :: rest) Hn).
Qed.

Lemma enc_bres_reset : forall b, enc_bres reset18 b = enc_bres spec_reset b.
Proof. intros [rows cols ags|c]; cbn; [rewrite reset18_spec; reflexivity|reflexivity]. Qed.

(* ---- extra agents ------------------------------------------------------------------------------ *)
Lemma am_last_keyed : forall l k a, am_last Z.eqb k (keyed l) = Some a -> In a l /\ b_id a = k.
Proof.
  intros l k a H. apply (am_last_In Z.eqb zeqb_ok) in H. unfold keyed in H.
  apply in_map_iff in H. destruct H as [b [E Hb]]. inversion E. subst. split; [exact Hb|reflexivity].
Qed.

Lemma extra_priority_lemma : forall (extra : agents) (layout : list bagent),
    let final := am_update Z.eqb extra (keyed layout) in
    (* an extra agent survives when no layout agent has its id *)
    (forall k a, am_get Z.eqb extra k = Some a -> (forall b, In b layout -> b_id b <> k) ->
                 am_get Z.eqb final k = Some a) /\
    (* every layout agent's id is taken by a layout agent (the last one carrying that id) *)
    (forall b, In b layout -> exists b', am_get Z.eqb final (b_id b) = Some b' /\
                                         In b' layout /\ b_id b' = b_id b) /\
    (* the extra agents keep their places at the front, layout agents are appended *)
    (exists tail, map fst final = map fst extra ++ tail) /\
    (* nothing else is in the simulation *)
    (forall k a, am_get Z.eqb final k = Some a ->
                 am_get Z.eqb extra k = Some a \/ (In a layout /\ b_id a = k)).
Proof.
  intros extra layout final. unfold final. split; [|split; [|split]].
  - intros k a He Hn. rewrite (am_update_get Z.eqb zeqb_ok).
    destruct (am_last Z.eqb k (keyed layout)) as [b|] eqn:E; [|exact He].
    apply am_last_keyed in E. destruct E as [Hb Hk]. exfalso. exact (Hn b Hb Hk).
  - intros b Hb. rewrite (am_update_get Z.eqb zeqb_ok).
    destruct (am_last Z.eqb (b_id b) (keyed layout)) as [b'|] eqn:E.
    + exists b'. split; [reflexivity|]. apply am_last_keyed. exact E.
    + exfalso. apply (am_last_None Z.eqb zeqb_ok) in E. apply E.
      unfold keyed. rewrite map_map. cbn. apply in_map_iff. exists b. split; [reflexivity|exact Hb].
  - apply (am_update_keys_prefix Z.eqb).
  - intros k a H. rewrite (am_update_get Z.eqb zeqb_ok) in H.
    destruct (am_last Z.eqb k (keyed layout)) as [b|] eqn:E.
    + inversion H. subst. right. apply am_last_keyed. exact E.
    + left. exact H.
Qed.

(* ---- the checkers accept the model --------------------------------------------------------------- *)
Lemma chk_C18_model_lemma : forall arr reg extra, rectangular arr = true ->
    chk_C18 arr reg extra (four_builders reserved arr reg extra) = 1.
Proof.
  intros arr reg extra Hr. unfold chk_C18, four_builders.
  fold (build_array arr reg extra).
  rewrite enc_bres_reset, array_spec_lemma, sx_eqb_refl. cbn [negb].
  destruct (file_able arr) eqn:F.
  - fold (build_file (unparse (map (map str_of) arr)) reg extra).
    rewrite (file_eq_array_lemma arr reg extra F Hr), enc_bres_reset, array_spec_lemma, sx_eqb_refl.
    cbn [negb]. destruct (markers_registered reg) eqn:M.
    + rewrite !sx_eqb_refl. reflexivity.
    + rewrite (grid_eq_array_lemma arr reg extra M), (direct_spec arr reg extra M).
      rewrite !enc_bres_reset, array_spec_lemma, !sx_eqb_refl. reflexivity.
  - rewrite sx_eqb_refl. cbn [negb]. destruct (markers_registered reg) eqn:M.
    + rewrite !sx_eqb_refl. reflexivity.
    + rewrite (grid_eq_array_lemma arr reg extra M), (direct_spec arr reg extra M).
      rewrite !enc_bres_reset, array_spec_lemma, !sx_eqb_refl. reflexivity.
Qed.

Lemma chk_C18_file_model_lemma : forall text reg extra,
    chk_C18_file text reg extra (enc_bres reset18 (build_file text reg extra)) = 1.
Proof.
  intros text reg extra. unfold chk_C18_file. rewrite build_file_general.
  destruct (markers_registered reg); [rewrite sx_eqb_refl; reflexivity|].
  destruct (parse_file text) as [|row rest] eqn:P; [rewrite sx_eqb_refl; reflexivity|].
  cbn [length Nat.eqb]. destruct (rectangular (row :: rest)); cbn [negb].
  - rewrite enc_bres_reset, array_spec_lemma, sx_eqb_refl. reflexivity.
  - rewrite sx_eqb_refl. reflexivity.
Qed.

Lemma chk_C18_grid_model_lemma : forall g extra,
    chk_C18_grid g extra (enc_bres reset18 (build_grid g extra)) = 1.
Proof.
  intros g extra. unfold chk_C18_grid.
  rewrite enc_bres_reset, grid_eq_direct_lemma, sx_eqb_refl. reflexivity.
Qed.

(* ---- the current test for reserved characters lets '0' through ------------------------------------ *)
Lemma reserved_zero_refuted_lemma :
  exists arr reg extra, rectangular arr = true /\
    chk_C18 arr reg extra (four_builders reserved_prefix arr reg extra) = -1.
Proof.
  exists [[CS [48]]], [(CS [48], mk_regfun 0 3 1 0)], None. split; vm_compute; reflexivity.
Qed.

(* ---- reading the specification -------------------------------------------------------------------- *)
Lemma layout_members : forall reg cells a,
    In a (layout_spec reg cells) <->
    exists j r c ch f, nth_error cells j = Some (r, c, ch) /\ registered reg ch = Some f /\
                       a = set_ipos (f (rank cells j ch)) r c.
Proof.
  intros reg cells a. unfold layout_spec. rewrite in_flat_map. split.
  - intros [j [Hj Ha]]. destruct (nth_error cells j) as [[[r c] ch]|] eqn:N; [|contradiction].
    destruct (registered reg ch) as [f|] eqn:R; [|contradiction].
    destruct Ha as [Ha|[]]. exists j, r, c, ch, f. split; [exact N|]. split; [exact R|symmetry; exact Ha].
  - intros [j [r [c [ch [f [N [R Ha]]]]]]]. exists j. split.
    + apply in_seq. split; [lia|]. cbn. apply nth_error_Some. rewrite N. discriminate.
    + rewrite N, R. left. symmetry. exact Ha.
Qed.

Lemma row_cells_nth : forall row r c j,
    nth_error (row_cells r c row) j = option_map (fun ch => (r, (c + j)%nat, ch)) (nth_error row j).
Proof.
  induction row as [|ch rest IH]; intros r c j; cbn.
  - destruct j; reflexivity.
  - destruct j; cbn.
    + rewrite Nat.add_0_r. reflexivity.
    + rewrite IH. replace (S c + j)%nat with (c + S j)%nat by lia. reflexivity.
Qed.

Lemma row_cells_length : forall row r c, length (row_cells r c row) = length row.
Proof. induction row as [|ch rest IH]; intros r c; cbn; [reflexivity|rewrite IH; reflexivity]. Qed.

(* cell (i, c) of the array sits at index i*w + c of the reading order when all rows have w entries *)
Lemma arr_cells_nth : forall arr r0 w i c row ch,
    (forall rw, In rw arr -> length rw = w) ->
    nth_error arr i = Some row -> nth_error row c = Some ch ->
    nth_error (arr_cells r0 arr) (i * w + c) = Some ((r0 + i)%nat, c, ch).
Proof.
  induction arr as [|rw rest IH]; intros r0 w i c row ch Hw Hi Hc; [destruct i; discriminate|].
  cbn [arr_cells]. destruct i as [|i'].
  - cbn in Hi. inversion Hi. subst rw. cbn [Nat.mul Nat.add].
    rewrite nth_error_app1.
    + rewrite row_cells_nth, Hc. cbn. rewrite Nat.add_0_r. reflexivity.
    + rewrite row_cells_length. apply nth_error_Some. rewrite Hc. discriminate.
  - cbn in Hi. rewrite nth_error_app2; rewrite row_cells_length, (Hw rw (or_introl eq_refl)); [|lia].
    replace (S i' * w + c - w)%nat with (i' * w + c)%nat by lia.
    rewrite (IH (S r0) w i' c row ch); [|intros x Hx; apply Hw; right; exact Hx|exact Hi|exact Hc].
    replace (S r0 + i')%nat with (r0 + S i')%nat by lia. reflexivity.
Qed.
