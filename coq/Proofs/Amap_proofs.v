(* Lemmas about the association-list model of Python dicts (Grid/Amap.v). *)
From Coq Require Import List Bool Arith Lia.
From Abm Require Import Grid.Amap.
Import ListNotations.

Lemma NoDup_snoc {T} : forall (l : list T) x, NoDup l -> ~ In x l -> NoDup (l ++ [x]).
Proof.
  induction l as [|y r IH]; intros x Hnd Hni; cbn.
  - constructor; [intros []|constructor].
  - inversion Hnd as [|y' r' Hy Hr]. subst. constructor.
    + rewrite in_app_iff. intros [H|[H|[]]]; [contradiction|]. subst. apply Hni. left. reflexivity.
    + apply IH; [exact Hr|]. intros H. apply Hni. right. exact H.
Qed.

Section AmapProofs.
  Context {K V : Type} (eqb : K -> K -> bool).
  Context (eqb_ok : forall a b, eqb a b = true <-> a = b).

  Lemma eqb_refl' : forall a, eqb a a = true.
  Proof. intro a. apply eqb_ok. reflexivity. Qed.

  Lemma eqb_neq : forall a b, a <> b -> eqb a b = false.
  Proof.
    intros a b H. destruct (eqb a b) eqn:E; [|reflexivity].
    apply eqb_ok in E. contradiction.
  Qed.

  Lemma eqb_false_neq : forall a b, eqb a b = false -> a <> b.
  Proof. intros a b E H. subst. rewrite eqb_refl' in E. discriminate. Qed.

  Lemma am_get_set_same : forall (m : list (K * V)) k v, am_get eqb (am_set eqb m k v) k = Some v.
  Proof.
    induction m as [|[k' v'] r IH]; intros k v; cbn.
    - rewrite eqb_refl'. reflexivity.
    - destruct (eqb k k') eqn:E; cbn; rewrite E; [reflexivity|apply IH].
  Qed.

  Lemma am_get_set_other : forall (m : list (K * V)) k v k2, k2 <> k ->
      am_get eqb (am_set eqb m k v) k2 = am_get eqb m k2.
  Proof.
    induction m as [|[k' v'] r IH]; intros k v k2 Hne; cbn.
    - rewrite (eqb_neq _ _ Hne). reflexivity.
    - destruct (eqb k k') eqn:E; cbn.
      + apply eqb_ok in E. subst k'. rewrite (eqb_neq _ _ Hne). reflexivity.
      + destruct (eqb k2 k'); [reflexivity|]. apply IH. exact Hne.
  Qed.

  Lemma am_get_In : forall (m : list (K * V)) k v, am_get eqb m k = Some v -> In (k, v) m.
  Proof.
    induction m as [|[k' v'] r IH]; intros k v H; cbn in *; [discriminate|].
    destruct (eqb k k') eqn:E.
    - apply eqb_ok in E. inversion H. subst. left. reflexivity.
    - right. apply IH. exact H.
  Qed.

  Lemma am_get_None : forall (m : list (K * V)) k, am_get eqb m k = None <-> ~ In k (map fst m).
  Proof.
    induction m as [|[k' v'] r IH]; intros k; cbn.
    - split; [intros _ []|reflexivity].
    - destruct (eqb k k') eqn:E.
      + apply eqb_ok in E. subst. split; [discriminate|]. intros H. exfalso. apply H. left. reflexivity.
      + rewrite IH. apply eqb_false_neq in E. split.
        * intros H [H1|H1]; [subst; apply E; reflexivity|contradiction].
        * intros H H1. apply H. right. exact H1.
  Qed.

  Lemma In_am_get : forall (m : list (K * V)) k v, NoDup (map fst m) -> In (k, v) m ->
      am_get eqb m k = Some v.
  Proof.
    induction m as [|[k' v'] r IH]; intros k v Hnd Hin; cbn in *; [contradiction|].
    inversion Hnd as [|x l Hni Hnd']. subst.
    destruct Hin as [H|H].
    - inversion H. subst. rewrite eqb_refl'. reflexivity.
    - destruct (eqb k k') eqn:E.
      + apply eqb_ok in E. subst. exfalso. apply Hni. apply (in_map fst) in H. exact H.
      + apply IH; assumption.
  Qed.

  (* key list after an assignment: unchanged when present, appended otherwise *)
  Lemma am_set_keys : forall (m : list (K * V)) k v,
      map fst (am_set eqb m k v) =
      if am_mem eqb m k then map fst m else map fst m ++ [k].
  Proof.
    unfold am_mem. induction m as [|[k' v'] r IH]; intros k v; cbn; [reflexivity|].
    destruct (eqb k k') eqn:E; cbn; [reflexivity|].
    rewrite IH. destruct (am_get eqb r k); reflexivity.
  Qed.

  Lemma am_set_NoDup : forall (m : list (K * V)) k v,
      NoDup (map fst m) -> NoDup (map fst (am_set eqb m k v)).
  Proof.
    intros m k v H. rewrite am_set_keys. unfold am_mem.
    destruct (am_get eqb m k) eqn:E; [exact H|].
    apply am_get_None in E.
    apply NoDup_snoc; assumption.
  Qed.
End AmapProofs.
