(* Lemmas about the association-list model of Python dicts (Grid/Amap.v). *)
From Coq Require Import List Bool Arith Lia.
From Abm Require Import Grid.Amap.
Import ListNotations.

Lemma NoDup_snoc {T} : forall (l : list T) x, NoDup l -> ~ In x l -> NoDup (l ++ [x]).
Proof.
  induction l as [|y r IH]; intros x Hnd Hni; cbn.
  - constructor; [intros []|constructor].
  - inversion Hnd as [|y' r' Hy Hr]. subst. constructor.
    + rewrite in_app_iff. intros [H|[H|[]]]; [contradiction|]. subst. apply Hni. left. reflexivity.
    + apply IH; [exact Hr|]. intros H. apply Hni. right. exact H.
Qed.

Section AmapProofs.
  Context {K V : Type} (eqb : K -> K -> bool).
  Context (eqb_ok : forall a b, eqb a b = true <-> a = b).

  Lemma eqb_refl' : forall a, eqb a a = true.
  Proof. intro a. apply eqb_ok. reflexivity. Qed.

  Lemma eqb_neq : forall a b, a <> b -> eqb a b = false.
  Proof.
    intros a b H. destruct (eqb a b) eqn:E; [|reflexivity].
    apply eqb_ok in E. contradiction.
  Qed.

  Lemma eqb_false_neq : forall a b, eqb a b = false -> a <> b.
  Proof. intros a b E H. subst. rewrite eqb_refl' in E. discriminate. Qed.

  Lemma am_get_set_same : forall (m : list (K * V)) k v, am_get eqb (am_set eqb m k v) k = Some v.
  Proof.
    induction m as [|[k' v'] r IH]; intros k v; cbn.
    - rewrite eqb_refl'. reflexivity.
    - destruct (eqb k k') eqn:E; cbn; rewrite E; [reflexivity|apply IH].
  Qed.

  Lemma am_get_set_other : forall (m : list (K * V)) k v k2, k2 <> k ->
      am_get eqb (am_set eqb m k v) k2 = am_get eqb m k2.
  Proof.
    induction m as [|[k' v'] r IH]; intros k v k2 Hne; cbn.
    - rewrite (eqb_neq _ _ Hne). reflexivity.
    - destruct (eqb k k') eqn:E; cbn.
      + apply eqb_ok in E. subst k'. rewrite (eqb_neq _ _ Hne). reflexivity.
      + destruct (eqb k2 k'); [reflexivity|]. apply IH. exact Hne.
  Qed.

  Lemma am_get_In : forall (m : list (K * V)) k v, am_get eqb m k = Some v -> In (k, v) m.
  Proof.
    induction m as [|[k' v'] r IH]; intros k v H; cbn in *; [discriminate|].
    destruct (eqb k k') eqn:E.
    - apply eqb_ok in E. inversion H. subst. left. reflexivity.
    - right. apply IH. exact H.
  Qed.

  Lemma am_get_None : forall (m : list (K * V)) k, am_get eqb m k = None <-> ~ In k (map fst m).
  Proof.
    induction m as [|[k' v'] r IH]; intros k; cbn.
    - split; [intros _ []|reflexivity].
    - destruct (eqb k k') eqn:E.
      + apply eqb_ok in E. subst. split; [discriminate|]. intros H. exfalso. apply H. left. reflexivity.
      + rewrite IH. apply eqb_false_neq in E. split.
        * intros H [H1|H1]; [subst; apply E; reflexivity|contradiction].
        * intros H H1. apply H. right. exact H1.
  Qed.

  Lemma In_am_get : forall (m : list (K * V)) k v, NoDup (map fst m) -> In (k, v) m ->
      am_get eqb m k = Some v.
  Proof.
    induction m as [|[k' v'] r IH]; intros k v Hnd Hin; cbn in *; [contradiction|].
    inversion Hnd as [|x l Hni Hnd']. subst.
    destruct Hin as [H|H].
    - inversion H. subst. rewrite eqb_refl'. reflexivity.
    - destruct (eqb k k') eqn:E.
      + apply eqb_ok in E. subst. exfalso. apply Hni. apply (in_map fst) in H. exact H.
      + apply IH; assumption.
  Qed.

  (* key list after an assignment: unchanged when present, appended otherwise *)
  Lemma am_set_keys : forall (m : list (K * V)) k v,
      map fst (am_set eqb m k v) =
      if am_mem eqb m k then map fst m else map fst m ++ [k].
  Proof.
    unfold am_mem. induction m as [|[k' v'] r IH]; intros k v; cbn; [reflexivity|].
    destruct (eqb k k') eqn:E; cbn; [reflexivity|].
    rewrite IH. destruct (am_get eqb r k); reflexivity.
  Qed.

  Lemma am_set_NoDup : forall (m : list (K * V)) k v,
      NoDup (map fst m) -> NoDup (map fst (am_set eqb m k v)).
  Proof.
    intros m k v H. rewrite am_set_keys. unfold am_mem.
    destruct (am_get eqb m k) eqn:E; [exact H|].
    apply am_get_None in E.
    apply NoDup_snoc; assumption.
  Qed.
  Lemma am_mem_existsb : forall (m : list (K * V)) k,
      am_mem eqb m k = existsb (fun kv => eqb k (fst kv)) m.
  Proof.
    unfold am_mem. induction m as [|[k' v] r IH]; intros k; cbn; [reflexivity|].
    destruct (eqb k k'); [reflexivity|apply IH].
  Qed.

  Lemma am_update_app : forall (m a b : list (K * V)),
      am_update eqb m (a ++ b) = am_update eqb (am_update eqb m a) b.
  Proof. intros m a b. unfold am_update. apply fold_left_app. Qed.

  Lemma am_update_cons : forall (m : list (K * V)) k v e,
      am_update eqb m ((k, v) :: e) = am_update eqb (am_set eqb m k v) e.
  Proof. reflexivity. Qed.

  (* lookup after an update: the last item of the update with that key, else the old value *)
  Lemma am_update_get : forall (e m : list (K * V)) k,
      am_get eqb (am_update eqb m e) k =
      match am_last eqb k e with Some v => Some v | None => am_get eqb m k end.
  Proof.
    induction e as [|[k' v] r IH]; intros m k; cbn [am_last]; [reflexivity|].
    rewrite am_update_cons, IH. destruct (am_last eqb k r); [reflexivity|].
    destruct (eqb k k') eqn:E.
    - apply eqb_ok in E. subst. apply am_get_set_same.
    - apply am_get_set_other. apply eqb_false_neq. exact E.
  Qed.

  (* the old keys keep their places; new keys are appended *)
  Lemma am_update_keys_prefix : forall (e m : list (K * V)),
      exists tail, map fst (am_update eqb m e) = map fst m ++ tail.
  Proof.
    induction e as [|[k v] r IH]; intros m.
    - exists []. cbn. rewrite app_nil_r. reflexivity.
    - rewrite am_update_cons. destruct (IH (am_set eqb m k v)) as [t Ht].
      rewrite Ht, am_set_keys. destruct (am_mem eqb m k).
      + exists t. reflexivity.
      + exists (k :: t). rewrite <- app_assoc. reflexivity.
  Qed.

  Lemma am_last_In : forall (l : list (K * V)) k v, am_last eqb k l = Some v -> In (k, v) l.
  Proof.
    induction l as [|[k' v'] r IH]; intros k v H; cbn in H; [discriminate|].
    destruct (am_last eqb k r) eqn:E.
    - inversion H. subst. right. apply IH. exact E.
    - destruct (eqb k k') eqn:E2; [|discriminate]. apply eqb_ok in E2. inversion H. subst.
      left. reflexivity.
  Qed.

  Lemma am_last_None : forall (l : list (K * V)) k, am_last eqb k l = None <-> ~ In k (map fst l).
  Proof.
    induction l as [|[k' v] r IH]; intros k; cbn.
    - split; [intros _ []|reflexivity].
    - destruct (am_last eqb k r) eqn:E.
      + split; [discriminate|]. intros H. exfalso.
        assert (Hn : ~ In k (map fst r)) by (intros H1; apply H; right; exact H1).
        apply IH in Hn. rewrite Hn in E. discriminate.
      + destruct (eqb k k') eqn:E2.
        * apply eqb_ok in E2. subst. split; [discriminate|]. intros H. exfalso. apply H. left. reflexivity.
        * split; [|reflexivity]. intros _ [H|H].
          -- subst. rewrite eqb_refl' in E2. discriminate.
          -- apply (proj1 (IH k) E). exact H.
  Qed.
End AmapProofs.
