(* Proofs about Ctl/Super.v: for an arbitrary wrapped simulation (part 1) and for the scripted
   instance against the executable checker chk_C14 (part 2). *)
From Coq Require Import ZArith List Bool Arith Lia.
From Abm Require Import Base.Sx Ctl.Managers Ctl.ScriptSim Ctl.MgrCheck Ctl.Super
     Proofs.Managers_proofs.
Import ListNotations.

(* ---------------------------------------------------------------- small list facts *)
Lemma nodupb_NoDup l : nodupb l = true <-> NoDup l.
Proof.
  induction l as [|a l IH]; simpl.
  - split; [constructor|reflexivity].
  - rewrite andb_true_iff, negb_true_iff, IH, memb_false_In. split.
    + intros [H1 H2]. constructor; assumption.
    + intros H. inversion H; subst. split; assumption.
Qed.

Lemma NoDup_app_l {T} (l m : list T) : NoDup (l ++ m) -> NoDup l.
Proof.
  induction l as [|a l IH]; simpl; intros H; [constructor|].
  inversion H; subst. constructor; [|apply IH; assumption].
  intros C. apply H2. apply in_or_app. left. exact C.
Qed.

Lemma NoDup_app_r {T} (l m : list T) : NoDup (l ++ m) -> NoDup m.
Proof. induction l as [|a l IH]; simpl; intros H; [exact H|]. inversion H; subst. auto. Qed.

Lemma NoDup_concat_nth (m : list (list nat)) j cv :
  NoDup (concat m) -> nth_error m j = Some cv -> NoDup cv.
Proof.
  revert j. induction m as [|x m IH]; intros j ND E.
  - destruct j; discriminate.
  - simpl in ND. destruct j as [|j]; simpl in E.
    + injection E as ->. apply NoDup_app_l in ND. exact ND.
    + apply NoDup_app_r in ND. apply (IH j ND E).
Qed.

Lemma In_concat_nth (m : list (list nat)) j cv c :
  nth_error m j = Some cv -> In c cv -> In c (concat m).
Proof.
  intros E H. apply in_concat. exists cv. split; [|exact H]. apply nth_error_In with j. exact E.
Qed.

Lemma memb_single a c : memb a [c] = Nat.eqb a c.
Proof. unfold memb. simpl. apply orb_false_r. Qed.

Lemma snoc_split {T} (cs : list T) x pre y post :
  cs ++ [x] = pre ++ y :: post ->
  (post = [] /\ cs = pre /\ x = y) \/ (exists post', post = post' ++ [x] /\ cs = pre ++ y :: post').
Proof.
  intros E. destruct (rev post) as [|z rp] eqn:Er.
  - left. apply (f_equal (@rev T)) in Er. rewrite rev_involutive in Er. simpl in Er. subst post.
    apply app_inj_tail in E. destruct E as [-> ->]. auto.
  - right. apply (f_equal (@rev T)) in Er. rewrite rev_involutive in Er. simpl in Er. subst post.
    rewrite app_comm_cons, app_assoc in E. apply app_inj_tail in E. destruct E as [-> ->].
    exists (rev rp). split; reflexivity.
Qed.

Lemma skipn_app_exact {T} (l m : list T) : skipn (length l) (l ++ m) = m.
Proof. induction l; simpl; auto. Qed.

Lemma aupd_fresh {V} (l : list (nat * V)) k v : ~ In k (map fst l) -> aupd l k v = l ++ [(k, v)].
Proof.
  induction l as [|[k' v'] l IH]; simpl; intros H; [reflexivity|].
  destruct (Nat.eqb k k') eqn:E.
  - apply Nat.eqb_eq in E. subst. exfalso. apply H. left. reflexivity.
  - rewrite IH; [reflexivity|]. intros C. apply H. right. exact C.
Qed.

(* ================================================================ part 1: any simulation *)
Section P.
  Context {St Obs Info Act : Type}.
  Variable Sim : simulation St Obs Info Act.
  Variable mapping : list (list nat).
  Variable null_obs : nat -> option Obs.
  Notation s_reset := (sim_reset Sim).
  Notation s_step := (sim_step Sim).
  Notation s_obs := (sim_obs Sim).
  Notation s_reward := (sim_reward Sim).
  Notation s_done := (sim_done Sim).
  Notation s_all := (sim_all Sim).
  Notation s_info := (sim_info Sim).
  Notation wstate := (wst St Act).
  Notation greach := (greach Sim).
  Notation done_stable := (done_stable Sim).
  Notation cov_obs := (cov_obs Sim null_obs).
  Notation cov_rew := (cov_rew Sim).
  Notation w_call := (w_call Sim mapping null_obs).
  Notation w_exec := (w_exec Sim mapping null_obs).
  Notation w_obs := (w_obs Sim mapping null_obs).
  Notation w_rew := (w_rew Sim mapping).
  Notation w_step := (w_step Sim mapping).
  Notation w_reset := (w_reset Sim).
  Notation covered := (covered mapping).
  Notation valid := (valid_mapping Sim mapping = true).

  Lemma valid_nodup j cv : valid -> nth_error mapping j = Some cv -> NoDup cv.
  Proof.
    unfold valid_mapping. rewrite andb_true_iff. intros [_ H] E.
    apply nodupb_NoDup in H. apply (NoDup_concat_nth _ _ _ H E).
  Qed.

  Lemma valid_covered j cv c : nth_error mapping j = Some cv -> In c cv -> covered c = true.
  Proof. intros E H. apply memb_In. apply (In_concat_nth _ _ _ _ E H). Qed.

  Lemma valid_learning c :
    valid -> covered c = true -> (c < sim_n Sim)%nat /\ sim_learning Sim c = true.
  Proof.
    unfold valid_mapping. rewrite andb_true_iff. intros [H _] Hc.
    rewrite forallb_forall in H. apply memb_In in Hc. specialize (H c Hc).
    apply andb_true_iff in H. destruct H as [H1 H2]. apply Nat.ltb_lt in H1. auto.
  Qed.

  (* the agent's own observation, taken at a state reached from s0 by getter effects only *)
  Definition own_obs (s0 : St) (c : nat) (o : Obs) : Prop :=
    exists s, greach s0 s /\ o = fst (s_obs s c).

  (* the specification of one entry of a super agent's observation *)
  Definition entry_spec (s0 : St) (rep0 : list nat) (c : nat) (o : Obs) : Prop :=
    if s_done s0 c && memb c rep0
    then match null_obs c with Some v => o = v | None => own_obs s0 c o end
    else own_obs s0 c o.

  Definition newly_done (s0 : St) (rep0 cv : list nat) : list nat :=
    filter (fun c => s_done s0 c && negb (memb c rep0)) cv.
  Definition obs_read_list (s0 : St) (rep0 cv : list nat) : list nat :=
    filter (fun c => negb (s_done s0 c && memb c rep0 &&
                           match null_obs c with Some _ => true | None => false end)) cv.
  Definition rew_read_list (s0 : St) (rep0 cv : list nat) : list nat :=
    filter (fun c => negb (s_done s0 c && memb c rep0)) cv.

  Lemma greach_obs s a : greach s (snd (s_obs s a)).
  Proof. apply gr_obs with a. constructor. Qed.
  Lemma greach_rew s a : greach s (snd (s_reward s a)).
  Proof. apply gr_rew with a. constructor. Qed.

  (* ---------------- the observation loop ---------------- *)
  Lemma cov_obs_thread cv : forall (w : wstate) s0 rep0 res w',
    done_stable -> greach s0 (w_sim w) -> NoDup cv ->
    (forall c, In c cv -> memb c (w_orep w) = memb c rep0) ->
    thread cov_obs w cv = (res, w') ->
    map fst res = cv /\ greach s0 (w_sim w') /\ w_rrep w' = w_rrep w /\
    w_orep w' = w_orep w ++ newly_done s0 rep0 cv /\
    w_log w' = w_log w ++ map IObs (obs_read_list s0 rep0 cv) /\
    (forall c o b, In (c, (o, b)) res -> b = negb (s_done s0 c) /\ entry_spec s0 rep0 c o).
  Proof.
    induction cv as [|c cv IH]; intros w s0 rep0 res w' St0 G ND Ag H.
    - simpl in H. injection H as <- <-. simpl. rewrite !app_nil_r.
      split; [reflexivity|]. split; [exact G|]. split; [reflexivity|]. split; [reflexivity|].
      split; [reflexivity|]. intros c o b [].
    - inversion ND as [|x l Hnin ND']; subst.
      simpl in H. destruct (cov_obs w c) as [ob w1] eqn:E1.
      destruct (thread cov_obs w1 cv) as [r w2] eqn:E2. injection H as <- <-.
      assert (Ed : s_done (w_sim w) c = s_done s0 c) by (apply St0, G).
      assert (Em : memb c (w_orep w) = memb c rep0) by (apply Ag; left; reflexivity).
      (* what one iteration does *)
      assert (Step : greach s0 (w_sim w1) /\ w_rrep w1 = w_rrep w /\
                     w_orep w1 = w_orep w ++ (if s_done s0 c && negb (memb c rep0) then [c] else []) /\
                     w_log w1 = w_log w ++ (if negb (s_done s0 c && memb c rep0 &&
                          match null_obs c with Some _ => true | None => false end)
                                            then [IObs c] else []) /\
                     snd ob = negb (s_done s0 c) /\ entry_spec s0 rep0 c (fst ob)).
      { unfold Super.cov_obs in E1. unfold entry_spec. rewrite Ed, Em in E1.
        destruct (s_done s0 c) eqn:Dc; [destruct (memb c rep0) eqn:Mc|]; cbn [andb negb].
        - destruct (null_obs c) as [v|] eqn:Nc.
          + injection E1 as <- <-. cbn. rewrite !app_nil_r. repeat split; auto.
          + destruct (s_obs (w_sim w) c) as [o s1] eqn:Eo. injection E1 as <- <-. cbn.
            rewrite app_nil_r. repeat split; auto.
            * eapply greach_trans; [exact G|]. replace s1 with (snd (s_obs (w_sim w) c)) by (rewrite Eo; reflexivity).
              apply greach_obs.
            * exists (w_sim w). split; [exact G|]. rewrite Eo. reflexivity.
        - destruct (s_obs (w_sim w) c) as [o s1] eqn:Eo. injection E1 as <- <-. cbn.
          repeat split; auto.
          + eapply greach_trans; [exact G|]. replace s1 with (snd (s_obs (w_sim w) c)) by (rewrite Eo; reflexivity).
            apply greach_obs.
          + exists (w_sim w). split; [exact G|]. rewrite Eo. reflexivity.
        - destruct (s_obs (w_sim w) c) as [o s1] eqn:Eo. injection E1 as <- <-. cbn.
          rewrite app_nil_r. repeat split; auto.
          + eapply greach_trans; [exact G|]. replace s1 with (snd (s_obs (w_sim w) c)) by (rewrite Eo; reflexivity).
            apply greach_obs.
          + exists (w_sim w). split; [exact G|]. rewrite Eo. reflexivity. }
      destruct Step as (G1 & R1 & O1 & L1 & B1 & S1).
      assert (Ag1 : forall c', In c' cv -> memb c' (w_orep w1) = memb c' rep0).
      { intros c' Hc'. rewrite O1, memb_app, (Ag c' (or_intror Hc')).
        destruct (s_done s0 c && negb (memb c rep0)); [|apply orb_false_r].
        rewrite memb_single. destruct (Nat.eqb c' c) eqn:E; [|apply orb_false_r].
        apply Nat.eqb_eq in E. subst. contradiction. }
      destruct (IH w1 s0 rep0 r w2 St0 G1 ND' Ag1 E2) as (K & G2 & R2 & O2 & L2 & P2).
      cbn [map fst]. rewrite K. split; [reflexivity|]. split; [exact G2|].
      split; [congruence|]. split; [|split].
      + rewrite O2, O1, <- app_assoc. unfold newly_done. cbn [filter].
        destruct (s_done s0 c && negb (memb c rep0)); reflexivity.
      + rewrite L2, L1, <- app_assoc. unfold obs_read_list. cbn [filter].
        destruct (negb (s_done s0 c && memb c rep0 &&
                        match null_obs c with Some _ => true | None => false end)); reflexivity.
      + intros c' o b [E|Hin]; [|apply (P2 _ _ _ Hin)].
        injection E as <- Eob. destruct ob as [o' b']. injection Eob as <- <-.
        split; assumption.
  Qed.

  (* ---------------- the reward loop ---------------- *)
  Lemma cov_rew_thread cv : forall (w : wstate) s0 rep0 res w',
    done_stable -> greach s0 (w_sim w) -> NoDup cv ->
    (forall c, In c cv -> memb c (w_rrep w) = memb c rep0) ->
    thread cov_rew w cv = (res, w') ->
    let reads := rew_read_list s0 rep0 cv in
    map fst res = cv /\
    sumZ (map snd res) = sumZ (map snd (fst (thread s_reward (w_sim w) reads))) /\
    w_sim w' = snd (thread s_reward (w_sim w) reads) /\
    w_orep w' = w_orep w /\
    w_rrep w' = w_rrep w ++ newly_done s0 rep0 cv /\
    w_log w' = w_log w ++ map IRew reads.
  Proof.
    induction cv as [|c cv IH]; intros w s0 rep0 res w' St0 G ND Ag H.
    - simpl in H. injection H as <- <-. simpl. rewrite !app_nil_r. repeat split; auto.
    - inversion ND as [|x l Hnin ND']; subst.
      simpl in H. destruct (cov_rew w c) as [rv w1] eqn:E1.
      destruct (thread cov_rew w1 cv) as [r w2] eqn:E2. injection H as <- <-.
      assert (Ed : s_done (w_sim w) c = s_done s0 c) by (apply St0, G).
      assert (Em : memb c (w_rrep w) = memb c rep0) by (apply Ag; left; reflexivity).
      unfold rew_read_list, newly_done. cbn [filter].
      unfold Super.cov_rew in E1. rewrite Ed, Em in E1.
      destruct (s_done s0 c) eqn:Dc; [destruct (memb c rep0) eqn:Mc|]; cbn [andb negb];
        fold (rew_read_list s0 rep0 cv); fold (newly_done s0 rep0 cv).
      + (* done and already reported: skipped *)
        injection E1 as <- <-.
        destruct (IH w s0 rep0 r w2 St0 G ND' (fun c' Hc' => Ag c' (or_intror Hc')) E2)
          as (K & Su & Si & Oo & Rr & Lg).
        cbn [map fst snd]. rewrite K. split; [reflexivity|].
        split; [cbn [sumZ fold_right]; fold (sumZ (map snd r)); rewrite Su; reflexivity|].
        repeat split; assumption.
      + (* done, final reward not yet handed out: read once, flag set *)
        destruct (s_reward (w_sim w) c) as [rr s1] eqn:Er. injection E1 as <- <-.
        set (w1 := {| w_sim := s1; w_orep := w_orep w; w_rrep := w_rrep w ++ [c];
                      w_log := w_log w ++ [IRew c] |}) in *.
        assert (G1 : greach s0 (w_sim w1)).
        { eapply greach_trans; [exact G|]. cbn. replace s1 with (snd (s_reward (w_sim w) c)) by (rewrite Er; reflexivity).
          apply greach_rew. }
        assert (Ag1 : forall c', In c' cv -> memb c' (w_rrep w1) = memb c' rep0).
        { intros c' Hc'. unfold w1. cbn [w_rrep]. rewrite memb_app, (Ag c' (or_intror Hc')), memb_single.
          destruct (Nat.eqb c' c) eqn:E; [|apply orb_false_r].
          apply Nat.eqb_eq in E. subst. contradiction. }
        destruct (IH w1 s0 rep0 r w2 St0 G1 ND' Ag1 E2) as (K & Su & Si & Oo & Rr & Lg).
        cbn [map fst snd thread]. rewrite Er.
        cbn [w_sim w1] in Su, Si.
        destruct (thread s_reward s1 (rew_read_list s0 rep0 cv)) as [vals s'] eqn:Et.
        cbn [fst snd map] in *. rewrite K. split; [reflexivity|].
        split; [cbn [sumZ fold_right] in *; fold (sumZ (map snd r)); fold (sumZ (map snd vals)); rewrite Su; reflexivity|].
        split; [exact Si|]. split; [exact Oo|].
        split; [rewrite Rr; cbn; rewrite <- app_assoc; reflexivity|].
        rewrite Lg. cbn. rewrite <- app_assoc. reflexivity.
      + (* not done: read *)
        destruct (s_reward (w_sim w) c) as [rr s1] eqn:Er. injection E1 as <- <-.
        set (w1 := with_sim w s1 [IRew c]) in *.
        assert (G1 : greach s0 (w_sim w1)).
        { eapply greach_trans; [exact G|]. cbn. replace s1 with (snd (s_reward (w_sim w) c)) by (rewrite Er; reflexivity).
          apply greach_rew. }
        destruct (IH w1 s0 rep0 r w2 St0 G1 ND' (fun c' Hc' => Ag c' (or_intror Hc')) E2)
          as (K & Su & Si & Oo & Rr & Lg).
        cbn [map fst snd thread]. rewrite Er.
        cbn [w_sim w1 with_sim] in Su, Si.
        destruct (thread s_reward s1 (rew_read_list s0 rep0 cv)) as [vals s'] eqn:Et.
        cbn [fst snd map] in *. rewrite K. split; [reflexivity|].
        split; [cbn [sumZ fold_right] in *; fold (sumZ (map snd r)); fold (sumZ (map snd vals)); rewrite Su; reflexivity|].
        split; [exact Si|]. split; [exact Oo|].
        split; [exact Rr|].
        rewrite Lg. cbn. rewrite <- app_assoc. reflexivity.
  Qed.

  (* ---------------- what one call does ---------------- *)
  Lemma map_by_key {X Y} (f : nat -> Y) (g : X -> Y) (res : list (nat * X)) :
    (forall c x, In (c, x) res -> g x = f c) ->
    map (fun e => (fst e, g (snd e))) res = map (fun c => (c, f c)) (map fst res).
  Proof.
    induction res as [|[c x] res IH]; intros H; [reflexivity|]. cbn [map fst snd].
    rewrite (H c x (or_introl eq_refl)), IH; [reflexivity|].
    intros c' x' Hin. apply H. right. exact Hin.
  Qed.

  Theorem super_obs_spec (w : wstate) j cv :
    done_stable -> valid -> nth_error mapping j = Some cv ->
    exists ents w',
      w_obs w (WSuper j) = (WSupObs ents (map (fun c => (c, negb (s_done (w_sim w) c))) cv), w') /\
      map fst ents = cv /\
      (forall c o, In (c, o) ents -> entry_spec (w_sim w) (w_orep w) c o) /\
      w_orep w' = w_orep w ++ newly_done (w_sim w) (w_orep w) cv /\
      w_rrep w' = w_rrep w /\
      greach (w_sim w) (w_sim w') /\
      w_log w' = w_log w ++ map IObs (obs_read_list (w_sim w) (w_orep w) cv).
  Proof.
    intros St0 V E. unfold Super.w_obs. rewrite E.
    destruct (thread cov_obs w cv) as [res w'] eqn:Et.
    destruct (cov_obs_thread cv w (w_sim w) (w_orep w) res w' St0 (gr_refl Sim _)
                (valid_nodup j cv V E) (fun c _ => eq_refl) Et) as (K & G & R & O & Lg & P).
    exists (map (fun e => (fst e, fst (snd e))) res), w'. split; [|split; [|split]].
    - f_equal. f_equal. rewrite <- K.
      apply (map_by_key (fun c => negb (s_done (w_sim w) c)) snd res).
      intros c [o b] Hin. apply (P c o b Hin).
    - rewrite map_map. cbn [fst]. exact K.
    - intros c o Hin. apply in_map_iff in Hin. destruct Hin as ([c' [o' b']] & Ee & Hin).
      cbn [fst snd] in Ee. injection Ee as <- <-. apply (P c' o' b' Hin).
    - auto.
  Qed.

  Theorem super_rew_spec (w : wstate) j cv :
    done_stable -> valid -> nth_error mapping j = Some cv ->
    let reads := rew_read_list (w_sim w) (w_rrep w) cv in
    exists w',
      w_rew w (WSuper j) = (WRew (sumZ (map snd (fst (thread s_reward (w_sim w) reads)))), w') /\
      w_sim w' = snd (thread s_reward (w_sim w) reads) /\
      w_orep w' = w_orep w /\
      w_rrep w' = w_rrep w ++ newly_done (w_sim w) (w_rrep w) cv /\
      w_log w' = w_log w ++ map IRew reads.
  Proof.
    intros St0 V E reads. unfold Super.w_rew. rewrite E.
    destruct (thread cov_rew w cv) as [res w'] eqn:Et.
    destruct (cov_rew_thread cv w (w_sim w) (w_rrep w) res w' St0 (gr_refl Sim _)
                (valid_nodup j cv V E) (fun c _ => eq_refl) Et) as (K & Su & Si & O & R & Lg).
    exists w'. rewrite Su. auto.
  Qed.

  (* ---------------- step: which actions reach the wrapped simulation ---------------- *)
  Definition flat_acts (s : St) (es : list (wentry Act)) : list (nat * Act) :=
    flat_map (fun e => match e with
                       | ESuper _ acts => filter (fun kv => negb (s_done s (fst kv))) acts
                       | EPlain a x => [(a, x)]
                       end) es.
  Definition entry_keys (es : list (wentry Act)) : list nat :=
    flat_map (fun e => match e with ESuper _ acts => map fst acts | EPlain a _ => [a] end) es.
  Definition names_cov (es : list (wentry Act)) : bool :=
    existsb (fun e => match e with EPlain a _ => covered a | ESuper _ _ => false end) es.
  Definition supers_ok (es : list (wentry Act)) : bool :=
    forallb (fun e => match e with ESuper j _ => Nat.ltb j (length mapping) | EPlain _ _ => true end) es.

  Lemma fold_put_live s acts : forall acc,
    NoDup (map fst acc ++ map fst acts) ->
    fold_left (put_live Sim s) acts acc = acc ++ filter (fun kv => negb (s_done s (fst kv))) acts.
  Proof.
    induction acts as [|[k v] acts IH]; intros acc ND; simpl; [symmetry; apply app_nil_r|].
    unfold put_live at 2. cbn [fst snd].
    assert (Hk : ~ In k (map fst acc)).
    { intros C. simpl in ND. apply NoDup_remove_2 in ND. apply ND. apply in_or_app. left. exact C. }
    destruct (s_done s k); cbn [negb].
    - apply IH. simpl in ND. apply NoDup_remove_1 in ND. exact ND.
    - rewrite (aupd_fresh acc k v Hk), IH.
      + rewrite <- app_assoc. reflexivity.
      + rewrite map_app. cbn [map fst]. rewrite <- app_assoc. exact ND.
  Qed.

  Lemma nth_error_known {T} (l : list T) j : Nat.ltb j (length l) = true -> exists x, nth_error l j = Some x.
  Proof.
    intros H. apply Nat.ltb_lt in H. destruct (nth_error l j) eqn:E; [eauto|].
    apply nth_error_None in E. lia.
  Qed.

  Lemma NoDup_app_mid {T} (a b c : list T) : NoDup (a ++ b ++ c) -> NoDup (a ++ b).
  Proof. rewrite app_assoc. apply NoDup_app_l. Qed.

  Lemma filter_keys_incl s (acts : list (nat * Act)) k :
    In k (map fst (filter (fun kv => negb (s_done s (fst kv))) acts)) -> In k (map fst acts).
  Proof.
    intros H. apply in_map_iff in H. destruct H as (kv & <- & Hin). apply filter_In in Hin.
    apply in_map, Hin.
  Qed.

  Lemma NoDup_app_sub {T} (a b b' c : list T) :
    NoDup b' -> (forall x, In x b' -> In x b) -> NoDup (a ++ b ++ c) -> NoDup ((a ++ b') ++ c).
  Proof.
    intros Nb Hsub ND. rewrite <- app_assoc.
    induction a as [|x a IH]; simpl in *.
    - induction b' as [|y b' IHb]; simpl.
      + apply NoDup_app_r in ND. exact ND.
      + inversion Nb; subst. constructor.
        * intros C. apply in_app_or in C. destruct C as [C|C]; [contradiction|].
          assert (Hy : In y b) by (apply Hsub; left; reflexivity).
          clear -ND Hy C. induction b as [|z b IHb]; [contradiction|]. simpl in ND.
          inversion ND; subst. destruct Hy as [->|Hy].
          -- apply H1. apply in_or_app. right. exact C.
          -- apply IHb; assumption.
        * apply IHb; [assumption|]. intros z Hz. apply Hsub. right. exact Hz.
    - inversion ND; subst. constructor.
      + intros C. apply H1. apply in_app_or in C. apply in_or_app. destruct C as [C|C]; [left; exact C|].
        right. apply in_app_or in C. apply in_or_app. destruct C as [C|C]; [left; apply Hsub, C|right; exact C].
      + apply IH. exact H2.
  Qed.

  Lemma filter_NoDup_keys s (acts : list (nat * Act)) :
    NoDup (map fst acts) -> NoDup (map fst (filter (fun kv => negb (s_done s (fst kv))) acts)).
  Proof.
    induction acts as [|[k v] acts IH]; simpl; intros H; [constructor|].
    inversion H; subst. destruct (negb (s_done s k)); simpl; [|apply IH; assumption].
    constructor; [|apply IH; assumption]. intros C. apply H2. apply (filter_keys_incl s acts k C).
  Qed.

  Lemma unravel_ok s es : forall acc,
    supers_ok es = true -> names_cov es = false -> NoDup (map fst acc ++ entry_keys es) ->
    unravel Sim mapping s es acc = UOk (acc ++ flat_acts s es).
  Proof.
    induction es as [|e es IH]; intros acc So Nc ND; simpl; [rewrite app_nil_r; reflexivity|].
    simpl in So, Nc. apply andb_true_iff in So. destruct So as [So1 So]. apply orb_false_iff in Nc.
    destruct Nc as [Nc1 Nc]. destruct e as [j acts|a x].
    - destruct (nth_error_known _ _ So1) as (cv & ->).
      simpl in ND.
      rewrite fold_put_live by (apply (NoDup_app_mid _ _ _ ND)).
      rewrite IH; [rewrite <- app_assoc; reflexivity|exact So|exact Nc|].
      rewrite map_app. apply NoDup_app_sub with (b := map fst acts); [|apply filter_keys_incl|exact ND].
      apply filter_NoDup_keys. apply NoDup_app_mid in ND. apply NoDup_app_r in ND. exact ND.
    - rewrite Nc1. simpl in ND.
      assert (Hk : ~ In a (map fst acc)).
      { intros C. apply NoDup_remove_2 in ND. apply ND. apply in_or_app. left. exact C. }
      rewrite (aupd_fresh acc a x Hk), IH; [rewrite <- app_assoc; reflexivity|exact So|exact Nc|].
      rewrite map_app. cbn [map fst]. rewrite <- app_assoc. exact ND.
  Qed.

  Lemma unravel_rej s es : forall acc,
    supers_ok es = true -> names_cov es = true -> unravel Sim mapping s es acc = URej.
  Proof.
    induction es as [|e es IH]; intros acc So Nc; simpl in *; [discriminate|].
    apply andb_true_iff in So. destruct So as [So1 So]. destruct e as [j acts|a x].
    - destruct (nth_error_known _ _ So1) as (cv & ->). apply IH; assumption.
    - destruct (covered a); [reflexivity|]. apply IH; assumption.
  Qed.

  Theorem step_filter_spec (w : wstate) es :
    supers_ok es = true -> names_cov es = false -> NoDup (entry_keys es) ->
    w_step w es = (WOk, with_sim w (s_step (w_sim w) (flat_acts (w_sim w) es))
                                 [IStep (flat_acts (w_sim w) es)]).
  Proof.
    intros So Nc ND. unfold Super.w_step. rewrite (unravel_ok (w_sim w) es [] So Nc ND). reflexivity.
  Qed.

  Theorem step_reject_spec (w : wstate) es :
    supers_ok es = true -> names_cov es = true -> w_step w es = (WReject, w).
  Proof. intros So Nc. unfold Super.w_step. rewrite (unravel_rej _ es [] So Nc). reflexivity. Qed.

  (* a dict that only names uncovered agents passes through unchanged *)
  Theorem step_plain_spec (w : wstate) (acts : list (nat * Act)) :
    NoDup (map fst acts) -> (forall a, In a (map fst acts) -> covered a = false) ->
    w_step w (map (fun kv => EPlain (fst kv) (snd kv)) acts)
    = (WOk, with_sim w (s_step (w_sim w) acts) [IStep acts]).
  Proof.
    intros ND Hc.
    assert (F : flat_acts (w_sim w) (map (fun kv => EPlain (fst kv) (snd kv)) acts) = acts).
    { clear. induction acts as [|[k v] acts IH]; simpl; [reflexivity|]. rewrite IH. reflexivity. }
    rewrite <- F at 2 3. apply step_filter_spec.
    - clear. induction acts; simpl; auto.
    - clear -Hc. induction acts as [|[k v] acts IH]; simpl; [reflexivity|].
      rewrite (Hc k (or_introl eq_refl)). apply IH. intros a Ha. apply Hc. right. exact Ha.
    - replace (entry_keys (map (fun kv => EPlain (fst kv) (snd kv)) acts)) with (map fst acts); [exact ND|].
      clear. induction acts as [|[k v] acts IH]; simpl; [reflexivity|]. rewrite <- IH. reflexivity.
  Qed.

  (* ---------------- the other calls ---------------- *)
  Theorem super_done_spec (w : wstate) j cv :
    nth_error mapping j = Some cv ->
    w_call w (KDone (WSuper j)) = (WDone (forallb (s_done (w_sim w)) cv), w).
  Proof. intros E. cbn. rewrite E. reflexivity. Qed.

  Theorem plain_transparent (w : wstate) a :
    covered a = false ->
    w_call w (KObs (WPlain a))
      = (WPlainObs (fst (s_obs (w_sim w) a)), with_sim w (snd (s_obs (w_sim w) a)) [IObs a]) /\
    w_call w (KRew (WPlain a))
      = (WRew (fst (s_reward (w_sim w) a)), with_sim w (snd (s_reward (w_sim w) a)) [IRew a]) /\
    w_call w (KDone (WPlain a)) = (WDone (s_done (w_sim w) a), w) /\
    w_call w (KInfo (WPlain a)) = (WPlainInfo (s_info (w_sim w) a), w) /\
    w_call w KAll = (WAll (s_all (w_sim w)), w).
  Proof.
    intros H. cbn. rewrite H. destruct (s_obs (w_sim w) a). destruct (s_reward (w_sim w) a).
    repeat split; reflexivity.
  Qed.

  Theorem covered_rejected (w : wstate) a :
    covered a = true ->
    w_call w (KObs (WPlain a)) = (WReject, w) /\ w_call w (KRew (WPlain a)) = (WReject, w) /\
    w_call w (KDone (WPlain a)) = (WReject, w) /\ w_call w (KInfo (WPlain a)) = (WReject, w).
  Proof. intros H. cbn. rewrite H. repeat split; reflexivity. Qed.

  Theorem reset_spec (w : wstate) :
    w_call w KReset = (WOk, {| w_sim := s_reset (w_sim w); w_orep := []; w_rrep := [];
                              w_log := w_log w ++ [IReset] |}).
  Proof. reflexivity. Qed.

  Lemma nats_eqb_refl l : nats_eqb l l = true.
  Proof. induction l; simpl; [reflexivity|]. rewrite Nat.eqb_refl. exact IHl. Qed.

  Theorem super_obs_member (obs_in : nat -> Obs -> bool) (w : wstate) j cv ents mask w' :
    done_stable -> valid -> nth_error mapping j = Some cv ->
    (forall s c, In c cv -> obs_in c (fst (s_obs s c)) = true) ->
    (forall c v, In c cv -> null_obs c = Some v -> obs_in c v = true) ->
    w_obs w (WSuper j) = (WSupObs ents mask, w') ->
    sup_member obs_in cv ents mask = true.
  Proof.
    intros St0 V E Hown Hnull H.
    destruct (super_obs_spec w j cv St0 V E) as (ents' & w2 & H2 & K & P & _).
    rewrite H2 in H. injection H as <- <- <-.
    unfold sup_member. rewrite K, map_map. cbn [fst]. rewrite map_id, !nats_eqb_refl. cbn [andb].
    apply forallb_forall. intros [c o] Hin. cbn [fst snd].
    assert (Hc : In c cv) by (rewrite <- K; apply (in_map fst _ _ Hin)).
    specialize (P c o Hin). unfold entry_spec in P.
    assert (Own : own_obs (w_sim w) c o -> obs_in c o = true).
    { intros (s & _ & ->). apply Hown, Hc. }
    destruct (s_done (w_sim w) c && memb c (w_orep w)); [|apply Own, P].
    destruct (null_obs c) as [v|] eqn:En; [|apply Own, P]. subst o. apply (Hnull c v Hc En).
  Qed.

  (* ---------------- histories: what the two flags mean ---------------- *)
  Definition is_reset (c : wcall Act) : bool := match c with KReset => true | _ => false end.
  Definition no_reset (cs : list (wcall Act)) : Prop :=
    forallb (fun c => negb (is_reset c)) cs = true.

  Lemma no_reset_snoc cs x : no_reset (cs ++ [x]) <-> no_reset cs /\ is_reset x = false.
  Proof.
    unfold no_reset. rewrite forallb_app. cbn [forallb]. rewrite andb_true_r, andb_true_iff, negb_true_iff.
    reflexivity.
  Qed.

  Lemma w_exec_snoc (w : wstate) cs x : w_exec w (cs ++ [x]) = snd (w_call (w_exec w cs) x).
  Proof. unfold Super.w_exec. rewrite fold_left_app. reflexivity. Qed.

  Lemma step_flags (w : wstate) es :
    w_orep (snd (w_step w es)) = w_orep w /\ w_rrep (snd (w_step w es)) = w_rrep w.
  Proof. unfold Super.w_step. destruct (unravel Sim mapping (w_sim w) es []); split; reflexivity. Qed.

  Section Flag.
    (* flag = _last_obs_reported with K = get_obs, or _last_reward_reported with K = get_reward *)
    Variable flag : wstate -> list nat.
    Variable K : wid -> wcall Act.
    Variable cv_of : wcall Act -> option (list nat).
    Hypothesis K_not_reset : forall i, is_reset (K i) = false.
    Hypothesis cv_of_K : forall j, cv_of (K (WSuper j)) = nth_error mapping j.
    Hypothesis cv_of_inv : forall x cv, cv_of x = Some cv ->
      exists j, x = K (WSuper j) /\ nth_error mapping j = Some cv.
    Hypothesis eff_reset : forall w, flag (snd (w_call w KReset)) = [].
    Hypothesis eff_report : forall w j cv, nth_error mapping j = Some cv ->
      flag (snd (w_call w (K (WSuper j)))) = flag w ++ newly_done (w_sim w) (flag w) cv.
    Hypothesis eff_other : forall w x, is_reset x = false -> cv_of x = None ->
      flag (snd (w_call w x)) = flag w.

    (* c was done at an earlier K-call of its super agent, and no reset happened since *)
    Definition reported_before (w : wstate) (cs : list (wcall Act)) (c : nat) : Prop :=
      exists pre j cv post, cs = pre ++ K (WSuper j) :: post /\ no_reset post /\
        nth_error mapping j = Some cv /\ In c cv /\ s_done (w_sim (w_exec w pre)) c = true.

    Lemma reported_before_snoc w cs x c :
      is_reset x = false -> reported_before w cs c -> reported_before w (cs ++ [x]) c.
    Proof.
      intros Hx (pre & j & cv & post & -> & Nr & E & Hc & Hd).
      exists pre, j, cv, (post ++ [x]). split; [rewrite <- app_assoc; reflexivity|].
      split; [apply no_reset_snoc; split; assumption|]. auto.
    Qed.

    Lemma flag_meaning cs : forall (w : wstate) c,
      In c (flag (w_exec w cs)) <-> (no_reset cs /\ In c (flag w)) \/ reported_before w cs c.
    Proof.
      induction cs as [|x cs IH] using rev_ind; intros w c.
      - cbn. split.
        + intros H. left. split; [reflexivity|exact H].
        + intros [[_ H]|(pre & j & cv & post & E & _)]; [exact H|].
          destruct pre; discriminate.
      - rewrite w_exec_snoc. set (wc := w_exec w cs) in *.
        destruct (is_reset x) eqn:Rx.
        + (* reset: the flag is cleared, and nothing earlier counts *)
          destruct x; try discriminate. rewrite eff_reset. split; [intros []|].
          intros [[Nr _]|(pre & j & cv & post & E & Nr & _)].
          * apply no_reset_snoc in Nr. destruct Nr as [_ Nr]. discriminate.
          * apply snoc_split in E. destruct E as [(_ & _ & E)|(post' & -> & _)].
            -- pose proof (K_not_reset (WSuper j)) as Kn. rewrite <- E in Kn. discriminate.
            -- apply no_reset_snoc in Nr. destruct Nr as [_ Nr]. discriminate.
        + assert (Ext : In c (flag wc) -> (no_reset (cs ++ [x]) /\ In c (flag w)) \/
                                          reported_before w (cs ++ [x]) c).
          { intros H. apply IH in H. destruct H as [[Nr H]|H].
            - left. split; [apply no_reset_snoc; split; assumption|exact H].
            - right. apply reported_before_snoc; assumption. }
          assert (Back : forall pre j cv post, cs ++ [x] = pre ++ K (WSuper j) :: post ->
                           no_reset post -> nth_error mapping j = Some cv -> In c cv ->
                           s_done (w_sim (w_exec w pre)) c = true ->
                           (cs = pre /\ x = K (WSuper j)) \/ In c (flag wc)).
          { intros pre j cv post E Nr Ej Hc Hd. apply snoc_split in E.
            destruct E as [(_ & E1 & E2)|(post' & -> & ->)]; [left; split; assumption|right].
            apply IH. right. apply no_reset_snoc in Nr. destruct Nr as [Nr _].
            exists pre, j, cv, post'. auto. }
          destruct (cv_of x) as [cv|] eqn:Cx.
          * (* a report for super agent j *)
            destruct (cv_of_inv x cv Cx) as (j & Ex & Ej). subst x.
            rewrite (eff_report wc j cv Ej). split.
            -- intros H. apply in_app_or in H. destruct H as [H|H]; [apply Ext, H|].
               unfold newly_done in H. apply filter_In in H. destruct H as [Hc H].
               apply andb_true_iff in H. destruct H as [Hd _].
               right. exists cs, j, cv, []. repeat split; auto.
            -- intros [[Nr H]|(pre & j' & cv' & post & E & Nr & Ej' & Hc & Hd)].
               ++ apply in_or_app. left. apply IH. left. apply no_reset_snoc in Nr. tauto.
               ++ destruct (Back pre j' cv' post E Nr Ej' Hc Hd) as [[E1 E2]|H];
                    [|apply in_or_app; left; exact H].
                  assert (cv' = cv).
                  { rewrite E2, cv_of_K, Ej' in Cx. congruence. }
                  subst cv' pre. fold wc in Hd.
                  apply in_or_app. destruct (memb c (flag wc)) eqn:Em.
                  ** left. apply memb_In, Em.
                  ** right. unfold newly_done. apply filter_In. split; [exact Hc|].
                     rewrite Hd, Em. reflexivity.
          * rewrite (eff_other wc x Rx Cx). split; [exact Ext|].
            intros [[Nr H]|(pre & j' & cv' & post & E & Nr & Ej' & Hc & Hd)].
            -- apply IH. left. apply no_reset_snoc in Nr. tauto.
            -- destruct (Back pre j' cv' post E Nr Ej' Hc Hd) as [[E1 E2]|H]; [|exact H].
               rewrite E2, cv_of_K, Ej' in Cx. discriminate.
    Qed.
  End Flag.

  Definition obs_cv (x : wcall Act) : option (list nat) :=
    match x with KObs (WSuper j) => nth_error mapping j | _ => None end.
  Definition rew_cv (x : wcall Act) : option (list nat) :=
    match x with KRew (WSuper j) => nth_error mapping j | _ => None end.

  Definition obs_reported_before := reported_before KObs.
  Definition rew_reported_before := reported_before KRew.

  Lemma plain_flags (w : wstate) a :
    w_orep (snd (w_obs w (WPlain a))) = w_orep w /\ w_rrep (snd (w_obs w (WPlain a))) = w_rrep w /\
    w_orep (snd (w_rew w (WPlain a))) = w_orep w /\ w_rrep (snd (w_rew w (WPlain a))) = w_rrep w.
  Proof.
    cbn. destruct (covered a); [repeat split; reflexivity|].
    destruct (s_obs (w_sim w) a). destruct (s_reward (w_sim w) a). repeat split; reflexivity.
  Qed.

  Theorem orep_meaning : done_stable -> valid -> forall cs (w : wstate) c,
    In c (w_orep (w_exec w cs)) <-> (no_reset cs /\ In c (w_orep w)) \/ obs_reported_before w cs c.
  Proof.
    intros St0 V. apply (flag_meaning w_orep KObs obs_cv).
    - reflexivity.
    - reflexivity.
    - intros x cv H. destruct x as [|es|[j|a]|i|i|i|]; try discriminate. exists j. auto.
    - reflexivity.
    - intros w j cv E. destruct (super_obs_spec w j cv St0 V E) as (ents & w' & H & _ & _ & O & _).
      cbn [Super.w_call]. rewrite H. exact O.
    - intros w x Rx Cx. destruct x as [|es|[j|a]|[j|a]|i|i|]; try discriminate; try reflexivity.
      + apply step_flags.
      + cbn in *. rewrite Cx. reflexivity.
      + apply plain_flags.
      + cbn [Super.w_call]. destruct (nth_error mapping j) as [cv|] eqn:E.
        * destruct (super_rew_spec w j cv St0 V E) as (w' & H & _ & O & _). rewrite H. exact O.
        * cbn. rewrite E. reflexivity.
      + apply plain_flags.
  Qed.

  Theorem rrep_meaning : done_stable -> valid -> forall cs (w : wstate) c,
    In c (w_rrep (w_exec w cs)) <-> (no_reset cs /\ In c (w_rrep w)) \/ rew_reported_before w cs c.
  Proof.
    intros St0 V. apply (flag_meaning w_rrep KRew rew_cv).
    - reflexivity.
    - reflexivity.
    - intros x cv H. destruct x as [|es|i|[j|a]|i|i|]; try discriminate. exists j. auto.
    - reflexivity.
    - intros w j cv E. destruct (super_rew_spec w j cv St0 V E) as (w' & H & _ & _ & R & _).
      cbn [Super.w_call]. rewrite H. exact R.
    - intros w x Rx Cx. destruct x as [|es|[j|a]|[j|a]|i|i|]; try discriminate; try reflexivity.
      + apply step_flags.
      + cbn [Super.w_call]. destruct (nth_error mapping j) as [cv|] eqn:E.
        * destruct (super_obs_spec w j cv St0 V E) as (ents & w' & H & _ & _ & _ & R & _).
          rewrite H. exact R.
        * cbn. rewrite E. reflexivity.
      + apply plain_flags.
      + cbn in *. rewrite Cx. reflexivity.
      + apply plain_flags.
  Qed.

  (* the temporal reading of the observation clause: within one episode (calls cs after a reset,
     no further reset) a covered agent's entry is its own observation while it is not done and
     at the first super observation at which it is done; it is the declared null observation at
     every later super observation at which it is done *)
  Theorem obs_history : done_stable -> valid ->
    forall (w0 : wstate) cs j cv ents mask w' c o,
    no_reset cs -> nth_error mapping j = Some cv ->
    w_obs (w_exec (w_reset w0) cs) (WSuper j) = (WSupObs ents mask, w') -> In (c, o) ents ->
    let w := w_exec (w_reset w0) cs in
    let before := obs_reported_before (w_reset w0) cs c in
    In c cv /\
    (s_done (w_sim w) c = false -> own_obs (w_sim w) c o) /\
    (s_done (w_sim w) c = true -> ~ before -> own_obs (w_sim w) c o) /\
    (s_done (w_sim w) c = true -> before ->
       match null_obs c with Some v => o = v | None => own_obs (w_sim w) c o end).
  Proof.
    intros St0 V w0 cs j cv ents mask w' c o Nr E H Hin w before.
    destruct (super_obs_spec w j cv St0 V E) as (ents' & w2 & H2 & K & P & _).
    fold w in H. rewrite H2 in H. injection H as <- _ _.
    specialize (P c o Hin). unfold entry_spec in P.
    assert (Fl : memb c (w_orep w) = true <-> before).
    { rewrite memb_In. unfold w. rewrite (orep_meaning St0 V cs (w_reset w0) c). cbn [w_orep Super.w_reset].
      split; [intros [[_ []]|B]; exact B|intros B; right; exact B]. }
    split; [rewrite <- K; apply (in_map fst _ _ Hin)|].
    split; [intros Hd; rewrite Hd in P; exact P|]. split.
    - intros Hd Nb. rewrite Hd in P. destruct (memb c (w_orep w)) eqn:Em; [|exact P].
      exfalso. apply Nb, Fl. reflexivity.
    - intros Hd B. apply Fl in B. rewrite Hd, B in P. exact P.
  Qed.

  (* the temporal reading of the reward clause: the reward is the sum of the rewards read from
     exactly those covered agents that are not (done now and already done at an earlier super
     reward call of this episode); only these are read *)
  Theorem rew_history : done_stable -> valid ->
    forall (w0 : wstate) cs j cv,
    no_reset cs -> nth_error mapping j = Some cv ->
    let w := w_exec (w_reset w0) cs in
    exists reads w',
      w_rew w (WSuper j) = (WRew (sumZ (map snd (fst (thread s_reward (w_sim w) reads)))), w') /\
      w_sim w' = snd (thread s_reward (w_sim w) reads) /\
      w_log w' = w_log w ++ map IRew reads /\
      (forall c, In c reads <->
         In c cv /\ ~ (s_done (w_sim w) c = true /\ rew_reported_before (w_reset w0) cs c)).
  Proof.
    intros St0 V w0 cs j cv Nr E w.
    destruct (super_rew_spec w j cv St0 V E) as (w' & H & Si & _ & _ & Lg).
    exists (rew_read_list (w_sim w) (w_rrep w) cv), w'. split; [exact H|]. split; [exact Si|].
    split; [exact Lg|]. intros c. unfold rew_read_list. rewrite filter_In.
    assert (Fl : memb c (w_rrep w) = true <-> rew_reported_before (w_reset w0) cs c).
    { rewrite memb_In. unfold w. rewrite (rrep_meaning St0 V cs (w_reset w0) c). cbn [w_rrep Super.w_reset].
      split; [intros [[_ []]|B]; exact B|intros B; right; exact B]. }
    split; intros [Hc Hn]; (split; [exact Hc|]).
    - intros [Hd B]. apply Fl in B. rewrite Hd, B in Hn. discriminate.
    - destruct (s_done (w_sim w) c) eqn:Hd; [|reflexivity].
      destruct (memb c (w_rrep w)) eqn:Em; [|reflexivity].
      exfalso. apply Hn. split; [reflexivity|]. apply Fl. reflexivity.
  Qed.
End P.

(* ================================================================ part 2: the scripted instance *)
Lemma kv_eqb_refl x : kv_eqb x x = true.
Proof. unfold kv_eqb. rewrite Nat.eqb_refl, Z.eqb_refl. reflexivity. Qed.
Lemma kvs_eqb_refl l : kvs_eqb l l = true.
Proof. induction l; simpl; [reflexivity|]. rewrite kv_eqb_refl. exact IHl. Qed.
Lemma kbs_eqb_refl l : kbs_eqb l l = true.
Proof.
  induction l as [|[a b] l IH]; simpl; [reflexivity|]. unfold kb_eqb. cbn [fst snd].
  rewrite Nat.eqb_refl, eqb_reflx. exact IH.
Qed.
Lemma ilogs_eqb_refl l : ilogs_eqb l l = true.
Proof.
  induction l as [|x l IH]; simpl; [reflexivity|]. rewrite IH, andb_true_r.
  destruct x; simpl; auto using kvs_eqb_refl, Nat.eqb_refl.
Qed.

Lemma forallb_map' {X Y} (f : Y -> bool) (g : X -> Y) l :
  forallb f (map g l) = forallb (fun x => f (g x)) l.
Proof. induction l; simpl; [reflexivity|]. rewrite IHl. reflexivity. Qed.

Lemma nth_set_nth_other (p : list Z) c c' v d : c' <> c -> nth c' (set_nth p c v) d = nth c' p d.
Proof.
  revert c c'. induction p as [|x p IH]; intros c c' H; destruct c, c'; simpl; auto; try congruence.
Qed.

Lemma sum_filter (f : nat -> Z) (rd : nat -> bool) cv :
  sumZ (map snd (map (fun c => (c, if rd c then f c else 0%Z)) cv)) = sumZ (map f (filter rd cv)).
Proof.
  induction cv as [|c cv IH]; simpl; [reflexivity|]. fold (sumZ (map snd (map (fun c => (c, if rd c then f c else 0%Z)) cv))).
  rewrite IH. destruct (rd c); simpl; [reflexivity|]. fold (sumZ (map f (filter rd cv))). lia.
Qed.

Section M.
  Variable sc : script.
  Variable mapping : list (list nat).
  Variable nulls : list (option Z).
  Notation Sim := (script_sim sc).
  Notation nf := (nulls_fn nulls).
  Notation W := (wst sst Z).
  Notation c_done := (c_done sc).
  Notation exp_entry := (exp_entry sc nulls).
  Notation newly := (newly sc).
  Notation obs_reads := (obs_reads sc nulls).
  Notation rew_reads := (rew_reads sc).

  Lemma ss_cov_obs_thread cv : forall (w : W) rep0,
    NoDup cv -> (forall c, In c cv -> memb c (w_orep w) = memb c rep0) ->
    thread (cov_obs Sim nf) w cv =
      (map (fun c => (c, (exp_entry (s_t (w_sim w)) rep0 c, negb (c_done (s_t (w_sim w)) c)))) cv,
       {| w_sim := w_sim w; w_orep := w_orep w ++ newly (s_t (w_sim w)) rep0 cv; w_rrep := w_rrep w;
          w_log := w_log w ++ map IObs (obs_reads (s_t (w_sim w)) rep0 cv) |}).
  Proof.
    induction cv as [|c cv IH]; intros w rep0 ND Ag.
    - destruct w. simpl. rewrite !app_nil_r. reflexivity.
    - inversion ND as [|x l Hnin ND']; subst.
      assert (Em : memb c (w_orep w) = memb c rep0) by (apply Ag; left; reflexivity).
      cbn [thread map]. unfold Super.cov_obs at 1.
      change (sim_done Sim (w_sim w) c) with (c_done (s_t (w_sim w)) c).
      change (sim_obs Sim (w_sim w) c) with (Super.c_own (s_t (w_sim w)) c, w_sim w).
      rewrite Em. unfold Super.newly, Super.obs_reads, Super.exp_entry, has_null. cbn [filter].
      fold (newly (s_t (w_sim w)) rep0 cv). fold (obs_reads (s_t (w_sim w)) rep0 cv).
      change (nf c) with (nth c nulls None).
      set (t := s_t (w_sim w)).
      assert (Next : forall w1 : W, w_sim w1 = w_sim w -> 
                (forall c', In c' cv -> memb c' (w_orep w1) = memb c' rep0) ->
                thread (cov_obs Sim nf) w1 cv =
                (map (fun c0 => (c0, (exp_entry t rep0 c0, negb (c_done t c0)))) cv,
                 {| w_sim := w_sim w; w_orep := w_orep w1 ++ newly t rep0 cv; w_rrep := w_rrep w1;
                    w_log := w_log w1 ++ map IObs (obs_reads t rep0 cv) |})).
      { intros w1 Es Ag1. rewrite (IH w1 rep0 ND' Ag1), Es. reflexivity. }
      assert (AgT : forall c', In c' cv -> memb c' (w_orep w) = memb c' rep0)
        by (intros c' Hc'; apply Ag; right; exact Hc').
      assert (AgS : forall c', In c' cv -> memb c' (w_orep w ++ [c]) = memb c' rep0).
      { intros c' Hc'. rewrite memb_app, (AgT c' Hc'), memb_single.
        destruct (Nat.eqb c' c) eqn:E; [|apply orb_false_r].
        apply Nat.eqb_eq in E. subst. contradiction. }
      destruct (c_done t c) eqn:Dc; [destruct (memb c rep0) eqn:Mc|]; cbn [andb negb].
      + destruct (nth c nulls None) as [v|] eqn:Nc; cbn [andb negb].
        * rewrite (Next w eq_refl AgT). reflexivity.
        * rewrite (Next (with_sim w (w_sim w) [IObs c]) eq_refl AgT). cbn [with_sim w_orep w_rrep w_log].
          rewrite <- app_assoc. reflexivity.
      + rewrite (Next {| w_sim := w_sim w; w_orep := w_orep w ++ [c]; w_rrep := w_rrep w;
                         w_log := w_log w ++ [IObs c] |} eq_refl AgS).
        cbn [w_orep w_rrep w_log]. rewrite <- !app_assoc. reflexivity.
      + rewrite (Next (with_sim w (w_sim w) [IObs c]) eq_refl AgT). cbn [with_sim w_orep w_rrep w_log].
        rewrite <- app_assoc. reflexivity.
  Qed.

  Definition zero_reads (reads : list nat) (p : list Z) : list Z :=
    fold_left (fun p c => set_nth p c 0%Z) reads p.

  Lemma ss_cov_rew_thread cv : forall (w : W) rep0,
    NoDup cv -> (forall c, In c cv -> memb c (w_rrep w) = memb c rep0) ->
    let t := s_t (w_sim w) in
    let reads := rew_reads t rep0 cv in
    thread (cov_rew Sim) w cv =
      (map (fun c => (c, if negb (c_done t c && memb c rep0) then nth c (s_pend (w_sim w)) 0%Z else 0%Z)) cv,
       {| w_sim := {| s_t := t; s_pend := zero_reads reads (s_pend (w_sim w));
                      s_steps := s_steps (w_sim w); s_reads := s_reads (w_sim w) ++ reads |};
          w_orep := w_orep w; w_rrep := w_rrep w ++ newly t rep0 cv;
          w_log := w_log w ++ map IRew reads |}).
  Proof.
    induction cv as [|c cv IH]; intros w rep0 ND Ag t reads.
    - destruct w as [[]]. simpl. rewrite !app_nil_r. reflexivity.
    - inversion ND as [|x l Hnin ND']; subst.
      assert (Em : memb c (w_rrep w) = memb c rep0) by (apply Ag; left; reflexivity).
      cbn [thread map]. unfold Super.cov_rew at 1.
      change (sim_done Sim (w_sim w) c) with (c_done t c).
      change (sim_reward Sim (w_sim w) c) with
        (nth c (s_pend (w_sim w)) 0%Z,
         {| s_t := t; s_pend := set_nth (s_pend (w_sim w)) c 0%Z; s_steps := s_steps (w_sim w);
            s_reads := s_reads (w_sim w) ++ [c] |}).
      rewrite Em. subst reads. unfold Super.newly, Super.rew_reads. cbn [filter].
      fold (newly t rep0 cv). fold (rew_reads t rep0 cv).
      assert (AgT : forall c', In c' cv -> memb c' (w_rrep w) = memb c' rep0)
        by (intros c' Hc'; apply Ag; right; exact Hc').
      assert (AgS : forall c', In c' cv -> memb c' (w_rrep w ++ [c]) = memb c' rep0).
      { intros c' Hc'. rewrite memb_app, (AgT c' Hc'), memb_single.
        destruct (Nat.eqb c' c) eqn:E; [|apply orb_false_r].
        apply Nat.eqb_eq in E. subst. contradiction. }
      assert (Vals : forall p', (forall c', In c' cv -> nth c' p' 0%Z = nth c' (s_pend (w_sim w)) 0%Z) ->
                map (fun c0 => (c0, if negb (c_done t c0 && memb c0 rep0) then nth c0 p' 0%Z else 0%Z)) cv =
                map (fun c0 => (c0, if negb (c_done t c0 && memb c0 rep0)
                                    then nth c0 (s_pend (w_sim w)) 0%Z else 0%Z)) cv).
      { intros p' Hp. apply map_ext_in. intros c' Hc'. rewrite (Hp c' Hc'). reflexivity. }
      assert (Oth : forall c', In c' cv ->
                nth c' (set_nth (s_pend (w_sim w)) c 0%Z) 0%Z = nth c' (s_pend (w_sim w)) 0%Z).
      { intros c' Hc'. apply nth_set_nth_other. intros ->. contradiction. }
      destruct (c_done t c) eqn:Dc; [destruct (memb c rep0) eqn:Mc|]; cbn [andb negb].
      + rewrite (IH w rep0 ND' AgT). reflexivity.
      + rewrite (IH {| w_sim := {| s_t := t; s_pend := set_nth (s_pend (w_sim w)) c 0%Z;
                                   s_steps := s_steps (w_sim w); s_reads := s_reads (w_sim w) ++ [c] |};
                       w_orep := w_orep w; w_rrep := w_rrep w ++ [c]; w_log := w_log w ++ [IRew c] |}
                    rep0 ND' AgS). cbn [w_sim s_t s_pend s_steps s_reads w_orep w_rrep w_log].
        rewrite (Vals _ Oth), <- !app_assoc. reflexivity.
      + rewrite (IH (with_sim w _ [IRew c]) rep0 ND' AgT).
        cbn [with_sim w_sim s_t s_pend s_steps s_reads w_orep w_rrep w_log].
        rewrite (Vals _ Oth), <- !app_assoc. reflexivity.
  Qed.

  (* ---------------- the invariant between the model state and the checker's ghost ---------------- *)
  Definition Inv (w : W) (g : cghost) : Prop :=
    cg_on g = true ->
    s_t (w_sim w) = cg_t g /\ s_pend (w_sim w) = cg_pend g /\
    w_orep w = cg_orep g /\ w_rrep w = cg_rrep g.

  Notation item w c :=
    (let rw := w_call Sim mapping nf w c in
     {| ri_resp := fst rw; ri_member := member_of sc mapping (fst rw) (call_id c);
        ri_seg := skipn (length (w_log w)) (w_log (snd rw)) |}).

  Hypothesis V : c_valid sc mapping = true.

  Lemma V_nodup j cv : nth_error mapping j = Some cv -> NoDup cv.
  Proof. apply (valid_nodup Sim mapping j cv V). Qed.

  Lemma unravel_total s es : forall acc,
    supers_ok mapping es = true -> names_cov mapping es = false ->
    exists acts, unravel Sim mapping s es acc = UOk acts.
  Proof.
    induction es as [|e es IH]; intros acc So Nc; simpl in *; [eauto|].
    apply andb_true_iff in So. destruct So as [So1 So]. apply orb_false_iff in Nc.
    destruct Nc as [Nc1 Nc]. destruct e as [j acts|a x].
    - destruct (nth_error_known _ _ So1) as (cv & ->). apply IH; assumption.
    - rewrite Nc1. apply IH; assumption.
  Qed.

  Lemma unravel_unknown s es : forall acc,
    supers_ok mapping es = false ->
    unravel Sim mapping s es acc = URej \/ unravel Sim mapping s es acc = UErr.
  Proof.
    induction es as [|e es IH]; intros acc So; simpl in *; [discriminate|].
    destruct e as [j acts|a x].
    - destruct (nth_error mapping j) eqn:E; [|right; reflexivity].
      apply IH. destruct (Nat.ltb j (length mapping)) eqn:El; [exact So|].
      apply Nat.ltb_ge in El. apply nth_error_None in El. congruence.
    - destruct (covered mapping a); [left; reflexivity|]. apply IH. exact So.
  Qed.

  Lemma chk_call_model (w : W) (g : cghost) (c : wcall Z) :
    Inv w g ->
    exists g', chk_call sc mapping nulls g c (item w c) = (0%Z, g') /\
               Inv (snd (w_call Sim mapping nf w c)) g'.
  Proof.
    intros I. destruct c as [|es|i|i|i|i|].
    - (* reset *)
      eexists. split.
      + cbn. rewrite skipn_app_exact. reflexivity.
      + intros _. cbn. repeat split; reflexivity.
    - (* step *)
      unfold chk_call. destruct (cg_on g) eqn:On; cbn [negb].
      2:{ exists g. split; [reflexivity|]. intros C. congruence. }
      destruct (I On) as (It & Ip & Io & Ir).
      change (Super.supers_known mapping es) with (supers_ok mapping es).
      change (Super.names_covered mapping es) with (names_cov mapping es).
      destruct (supers_ok mapping es) eqn:So; cbn [negb].
      2:{ exists g. split; [reflexivity|]. cbn [Super.w_call]. unfold Super.w_step.
          destruct (unravel_unknown (w_sim w) es [] So) as [-> | ->]; exact I. }
      destruct (names_cov mapping es) eqn:Nc.
      + exists g. cbn [Super.w_call]. rewrite (step_reject_spec Sim mapping w es So Nc).
        cbn [fst snd ri_resp ri_seg]. rewrite skipn_all. split; [reflexivity|exact I].
      + destruct (unravel_total (w_sim w) es [] So Nc) as (acts & Eu).
        cbn [Super.w_call]. unfold Super.w_step. rewrite Eu.
        cbn [fst snd ri_resp ri_seg with_sim w_log]. rewrite skipn_app_exact.
        eexists. split.
        * f_equal. change (all_keys es) with (entry_keys es).
          destruct (nodupb (entry_keys es)) eqn:Nd; [|reflexivity].
          apply nodupb_NoDup in Nd. rewrite (unravel_ok Sim mapping (w_sim w) es [] So Nc Nd) in Eu.
          injection Eu as <-. cbn [app]. rewrite <- It.
          change (exp_acts sc (s_t (w_sim w)) es) with (flat_acts Sim (w_sim w) es).
          rewrite kvs_eqb_refl. reflexivity.
        * intros _. cbn. rewrite <- It, <- Ip. repeat split; assumption.
    - (* get_obs *)
      unfold chk_call. destruct (cg_on g) eqn:On; cbn [negb].
      2:{ exists g. split; [reflexivity|]. intros C. congruence. }
      destruct (I On) as (It & Ip & Io & Ir).
      destruct i as [j|a].
      + cbn [Super.w_call Super.w_obs]. destruct (nth_error mapping j) as [cv|] eqn:E.
        2:{ exists g. split; [reflexivity|exact I]. }
        rewrite (ss_cov_obs_thread cv w (w_orep w) (V_nodup j cv E) (fun c _ => eq_refl)).
        cbn [fst snd ri_resp ri_seg ri_member w_log]. rewrite skipn_app_exact, !map_map. cbn [fst snd].
        rewrite <- It, <- Io. rewrite kbs_eqb_refl, kvs_eqb_refl, ilogs_eqb_refl. cbn [negb andb].
        eexists. split.
        * f_equal. cbn [member_of call_id]. rewrite E. unfold sup_member.
          rewrite !map_map. cbn [fst]. rewrite map_id, !nats_eqb_refl. cbn [andb].
          rewrite forallb_map'. cbn [fst snd].
          change (sobs_in sc) with (c_obs_in sc).
          destruct (forallb _ cv); reflexivity.
        * intros _. cbn. repeat split; auto.
      + change (c_covered mapping a) with (covered mapping a).
        cbn [Super.w_call Super.w_obs]. destruct (covered mapping a) eqn:Ca.
        * exists g. cbn [fst snd ri_resp ri_seg]. rewrite skipn_all. split; [reflexivity|exact I].
        * exists g. cbn. rewrite skipn_app_exact. cbn. rewrite <- It, Z.eqb_refl, Nat.eqb_refl. cbn.
          split; [|exact I]. f_equal.
          unfold sobs_in, c_obs_in, ss_learning.
          destruct (nth a (sc_learn sc) false); cbn; [|reflexivity].
          rewrite andb_negb_r. reflexivity.
    - (* get_reward *)
      unfold chk_call. destruct (cg_on g) eqn:On; cbn [negb].
      2:{ exists g. split; [reflexivity|]. intros C. congruence. }
      destruct (I On) as (It & Ip & Io & Ir).
      destruct i as [j|a].
      + cbn [Super.w_call Super.w_rew]. destruct (nth_error mapping j) as [cv|] eqn:E.
        2:{ exists g. split; [reflexivity|exact I]. }
        rewrite (ss_cov_rew_thread cv w (w_rrep w) (V_nodup j cv E) (fun c _ => eq_refl)).
        cbn [fst snd ri_resp ri_seg ri_member w_log]. rewrite skipn_app_exact.
        rewrite (sum_filter (fun c => nth c (s_pend (w_sim w)) 0%Z)
                            (fun c => negb (c_done (s_t (w_sim w)) c && memb c (w_rrep w))) cv).
        fold (rew_reads (s_t (w_sim w)) (w_rrep w) cv).
        rewrite <- It, <- Ir, <- Ip. rewrite Z.eqb_refl, ilogs_eqb_refl. cbn [andb].
        eexists. split; [reflexivity|]. intros _. cbn. repeat split; auto.
      + change (c_covered mapping a) with (covered mapping a).
        cbn [Super.w_call Super.w_rew]. destruct (covered mapping a) eqn:Ca.
        * exists g. cbn [fst snd ri_resp ri_seg]. rewrite skipn_all. split; [reflexivity|exact I].
        * eexists. cbn. rewrite skipn_app_exact. cbn. rewrite <- Ip, Z.eqb_refl, Nat.eqb_refl. cbn.
          split; [reflexivity|]. intros _. cbn. repeat split; auto.
    - (* get_done *)
      unfold chk_call. destruct (cg_on g) eqn:On; cbn [negb].
      2:{ exists g. split; [reflexivity|]. intros C. congruence. }
      destruct (I On) as (It & Ip & Io & Ir).
      exists g. split; [|exact I]. destruct i as [j|a].
      + cbn. destruct (nth_error mapping j) as [cv|] eqn:E; [|reflexivity].
        cbn. rewrite skipn_all, <- It. 
        change (forallb (sim_done Sim (w_sim w)) cv) with (forallb (c_done (s_t (w_sim w))) cv).
        rewrite eqb_reflx. reflexivity.
      + change (c_covered mapping a) with (covered mapping a). cbn.
        destruct (covered mapping a); cbn; rewrite skipn_all; [reflexivity|].
        rewrite <- It. change (ss_done sc (w_sim w) a) with (c_done (s_t (w_sim w)) a).
        rewrite eqb_reflx. reflexivity.
    - (* get_info *)
      unfold chk_call. destruct (cg_on g) eqn:On; cbn [negb].
      2:{ exists g. split; [reflexivity|]. intros C. congruence. }
      destruct (I On) as (It & Ip & Io & Ir).
      exists g. split; [|exact I]. destruct i as [j|a].
      + cbn. destruct (nth_error mapping j) as [cv|] eqn:E; [|reflexivity].
        cbn. rewrite skipn_all, <- It.
        change (map (fun c => (c, ss_info (w_sim w) c)) cv)
          with (map (fun c => (c, (- Super.c_own (s_t (w_sim w)) c)%Z)) cv).
        rewrite kvs_eqb_refl. reflexivity.
      + change (c_covered mapping a) with (covered mapping a). cbn.
        destruct (covered mapping a); cbn; rewrite skipn_all; [reflexivity|].
        rewrite <- It. change (ss_info (w_sim w) a) with (- Super.c_own (s_t (w_sim w)) a)%Z.
        rewrite Z.eqb_refl. reflexivity.
    - (* get_all_done *)
      unfold chk_call. destruct (cg_on g) eqn:On; cbn [negb].
      2:{ exists g. split; [reflexivity|]. intros C. congruence. }
      destruct (I On) as (It & Ip & Io & Ir).
      exists g. split; [|exact I]. cbn. rewrite skipn_all, <- It.
      change (ss_all sc (w_sim w)) with (r_all (row_at sc (s_t (w_sim w)))).
      rewrite eqb_reflx. reflexivity.
  Qed.

  Lemma chk_calls_model cs : forall (w : W) g,
    Inv w g -> chk_calls sc mapping nulls g cs (ss_items sc mapping nulls w cs) = 0%Z.
  Proof.
    induction cs as [|c cs IH]; intros w g I; [reflexivity|].
    cbn [ss_items chk_calls].
    destruct (chk_call_model w g c I) as (g' & E & I').
    destruct (w_call Sim mapping nf w c) as [r w1] eqn:Ec. cbn [fst snd] in *.
    rewrite E. cbn. apply IH, I'.
  Qed.
End M.

Theorem chk_C14_model_thm sc mapping nulls cs :
  chk_C14 sc mapping nulls cs (fst (super_model sc mapping nulls cs))
          (snd (super_model sc mapping nulls cs)) = 0%Z.
Proof.
  unfold super_model, chk_C14. change (ss_valid sc mapping) with (c_valid sc mapping).
  destruct (c_valid sc mapping) eqn:V; cbn [fst snd]; [|reflexivity].
  apply chk_calls_model; [exact V|]. intros C. discriminate.
Qed.

(* the scripted simulation satisfies the purity hypothesis of part 1 *)
Lemma script_greach_t sc s s' : greach (script_sim sc) s s' -> s_t s' = s_t s.
Proof. induction 1 as [s|s s' a _ IH|s s' a _ IH]; [reflexivity|exact IH|exact IH]. Qed.

Lemma script_done_stable sc : done_stable (script_sim sc).
Proof.
  intros s s' a G. cbn. unfold ss_done. rewrite (script_greach_t sc s s' G). reflexivity.
Qed.

(* ================================================================ statements used by Props/P_C14.v *)
Section Statements.
  Context {St Obs Info Act : Type}.
  Variable Sim : simulation St Obs Info Act.
  Variable mapping : list (list nat).
  Variable null_obs : nat -> option Obs.

  Lemma C14_mask_l (w : wst St Act) j cv ents mask w' :
    done_stable Sim -> valid_mapping Sim mapping = true -> nth_error mapping j = Some cv ->
    w_obs Sim mapping null_obs w (WSuper j) = (WSupObs ents mask, w') ->
    mask = map (fun c => (c, negb (sim_done Sim (w_sim w) c))) cv.
  Proof.
    intros St0 V E H. destruct (super_obs_spec Sim mapping null_obs w j cv St0 V E) as (e & w2 & H2 & _).
    rewrite H2 in H. injection H as _ <- _. reflexivity.
  Qed.

  Lemma C14_obs_entry_l (w : wst St Act) j cv ents mask w' :
    done_stable Sim -> valid_mapping Sim mapping = true -> nth_error mapping j = Some cv ->
    w_obs Sim mapping null_obs w (WSuper j) = (WSupObs ents mask, w') ->
    map fst ents = cv /\
    (forall c o, In (c, o) ents -> entry_spec Sim null_obs (w_sim w) (w_orep w) c o) /\
    w_orep w' = w_orep w ++ filter (fun c => sim_done Sim (w_sim w) c && negb (memb c (w_orep w))) cv /\
    w_rrep w' = w_rrep w /\
    greach Sim (w_sim w) (w_sim w').
  Proof.
    intros St0 V E H. destruct (super_obs_spec Sim mapping null_obs w j cv St0 V E)
      as (e & w2 & H2 & K & P & O & R & G & _).
    rewrite H2 in H. injection H as <- _ <-. auto.
  Qed.

  Lemma C14_obs_total_l (w : wst St Act) j cv :
    done_stable Sim -> valid_mapping Sim mapping = true -> nth_error mapping j = Some cv ->
    exists ents mask w', w_obs Sim mapping null_obs w (WSuper j) = (WSupObs ents mask, w').
  Proof.
    intros St0 V E. destruct (super_obs_spec Sim mapping null_obs w j cv St0 V E) as (e & w2 & H2 & _).
    eauto.
  Qed.
End Statements.
