(* Binary64 layer of C10, primitive floats (Grid/MaskFloat.v).  The agreement statements are
   finite and are decided by vm_compute; their only assumptions are Coq's primitive float and
   63-bit integer operations (kernel primitives), which `Print Assumptions` lists by name. *)
From Coq Require Import ZArith List Bool Lia PrimFloat Uint63.
From Abm Require Import Base.Sx Grid.Mask Grid.MaskFloat Proofs.Mask_proofs.
Import ListNotations.
Open Scope Z_scope.

(* repaired order: 1.4 * 10^7 (blocker, cell) pairs of the window [-40,40]^2, 2.7 * 10^6 decided
   by binary64 arithmetic *)
Lemma float_agree_all_40 : agree_all mask_float 40 = true.
Proof. vm_cast_no_check (eq_refl true). Qed.

(* order of the unrepaired code *)
Lemma float_prefix_agree_all_14 : agree_all mask_float_prefix 14 = true.
Proof. vm_cast_no_check (eq_refl true). Qed.

Theorem float_agrees_upto_40 : forall R b q, R <= 40 ->
  in_window R b = true -> in_window R q = true -> mask_float R b q = mask_code R b q.
Proof.
  intros R b q HR Hb Hq. rewrite code_meets_spec by assumption.
  exact (agree_all_sound hfF rayF ltF_l ltF_r 40 float_agree_all_40 R b q HR Hb Hq).
Qed.

Theorem float_prefix_agrees_upto_14 : forall R b q, R <= 14 ->
  in_window R b = true -> in_window R q = true -> mask_float_prefix R b q = mask_code R b q.
Proof.
  intros R b q HR Hb Hq. rewrite code_meets_spec by assumption.
  exact (agree_all_sound hfF rayF_prefix ltF_l ltF_r 14 float_prefix_agree_all_14 R b q HR Hb Hq).
Qed.

(* F6: all disagreements of the unrepaired order on the window of range 15 *)
Theorem float_prefix_disagreements_15 :
  disagreements mask_float_prefix 15 =
  [((-8, -6), (-15, -13)); ((-8, -5), (-15, -11)); ((-8, 5), (-15, 11)); ((-8, 6), (-15, 13));
   ((8, -6), (15, -13)); ((8, -5), (15, -11)); ((8, 5), (15, 11)); ((8, 6), (15, 13))].
Proof. vm_compute. reflexivity. Qed.

Theorem float_refuted_15 : exists b q,
  in_window 15 b = true /\ in_window 15 q = true /\
  cross (snd (corners b)) q = 0 /\
  mask_float_prefix 15 b q = true /\ mask_code 15 b q = false /\ mask_float 15 b q = false.
Proof.
  exists (-8, -6), (-15, -13). vm_compute. repeat split; reflexivity.
Qed.

(* in checker form: the masks the unrepaired order produces for f6_layout fail clause 2 *)
Theorem float_refuted_15_chk : exists Ms,
  masks8_with mask_float_prefix f6_layout = Some Ms /\ chk_C10 f6_layout (map of_matrix Ms) = -2.
Proof. eexists. split; [vm_compute; reflexivity | vm_compute; reflexivity]. Qed.
