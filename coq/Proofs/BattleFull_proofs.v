(* battle_full_sim (Grid/BattleFull.v): the end-to-end simulation whose reset is computed by the
   state components.  What the configuration fixes of a grid state (`statics`) survives every
   step, reset and getter, hence every manager history; the reset of a used state equals the reset
   of the new object once the draw streams are the same; C08's manager theorem then gives
   used = fresh for every follow-up call list. *)
From Coq Require Import ZArith List Bool Arith Lia.
From Abm Require Import Base.Sx Grid.Overlap Grid.Grid Grid.Move Grid.Attack Grid.Vis Grid.BattleSim
  Grid.FullReset Grid.BattleFull Ctl.Managers
  Proofs.Grid_proofs Proofs.GridChk_proofs Proofs.Managers_proofs Proofs.Managers_hist
  Proofs.Reset_proofs Proofs.BattleSim_proofs Proofs.FullReset_proofs.
Import ListNotations.
Open Scope Z_scope.

(* ---- statics is kept by everything that keeps srel --------------------------------------------- *)
Lemma statics_srel cfg s s' : srel s s' -> statics cfg s -> statics cfg s'.
Proof.
  intros (R1 & R2 & R3 & R4 & R5) (S1 & S2 & S3 & S4 & S5).
  split; [congruence|]. split; [congruence|]. split; [congruence|]. split; [congruence|].
  intros i a' fa Ha' Hfa. destruct (R5 i a' Ha') as (a & Ha & E1 & E2 & E3 & E4 & _).
  destruct (S5 i a fa Ha Hfa) as (T1 & T2 & T3 & T4). unfold astatic.
  split; [congruence|]. split; [congruence|]. split.
  - intros N. apply E4, T3, N.
  - intros N. apply E3, T4, N.
Qed.

Lemma statics_attack cfg vis s cf att o act : statics cfg s ->
  match process_attack vis s cf att o act with POk _ _ s' _ => statics cfg s' | _ => True end.
Proof.
  intros H. pose proof (srel_process_attack vis s cf att o act) as R.
  destruct (process_attack vis s cf att o act); [|exact I|exact I]. apply (statics_srel cfg s s0 R H).
Qed.

Lemma statics_move cfg s i d : statics cfg s ->
  match move_by s i d with MOk _ s' => statics cfg s' | _ => True end.
Proof.
  intros H. pose proof (srel_move_by s i d) as R.
  destruct (move_by s i d); [|exact I|exact I|exact I]. apply (statics_srel cfg s s0 R H).
Qed.

(* a successful complete reset produces a state of the same configuration (no well-formedness
   needed) *)
Lemma full_reset_statics cfg orc g s : order_complete cfg = true -> statics cfg g ->
  full_reset cfg orc g = Some s -> statics cfg s.
Proof.
  intros Ho Hs E. destruct (full_reset_some cfg orc g s Ho Hs E) as (Hok & R1 & R2 & R3 & R4 & _ & R6).
  split; [exact R1|]. split; [exact R2|]. split; [exact R3|]. split; [exact R4|].
  intros i a fa Ha Hfa. rewrite (R6 i fa Hfa) in Ha. injection Ha as <-.
  unfold astatic. cbn [fresh_arec a_enc a_blocking a_ammo a_orient].
  split; [reflexivity|]. split; [reflexivity|]. split.
  - intros N. unfold f_ammo. rewrite N. reflexivity.
  - intros N. unfold the_os.
    destruct (orient_values (fc_agents cfg) (fo_randint orc)) as [os|] eqn:Eo; [|destruct i; reflexivity].
    destruct (orient_values_nth _ _ _ i fa Eo Hfa) as (v & Hv & Hm). rewrite N in Hm. subst v.
    apply (nth_error_nth _ _ None Hv).
Qed.

(* ---- the invariant along every manager history ------------------------------------------------- *)
Section Inv.
  Variable cf : bfcfg.
  Hypothesis Ho : order_complete (bf_states cf) = true.

  Definition bf_inv (st : bfstate) : Prop := statics (bf_states cf) (bs_grid (bf_core st)).

  Lemma bf_step_inv st acts : bf_inv st -> bf_inv (bf_step cf st acts).
  Proof.
    unfold bf_inv, bf_step. cbn [with_core bf_core].
    apply (bs_step_P (statics (bf_states cf)) (statics_attack (bf_states cf))
                     (statics_move (bf_states cf))).
  Qed.

  Lemma bf_reset_inv st : bf_inv st -> bf_inv (bf_reset cf st).
  Proof.
    unfold bf_inv, bf_reset. intros H. destruct (bf_resets st) as [|o rest]; [exact H|].
    destruct (full_reset (bf_states cf) o (bs_grid (bf_core st))) as [g|] eqn:E; [|exact H].
    cbn [bf_core bs_grid]. apply (full_reset_statics _ o _ g Ho H E).
  Qed.

  Lemma bf_greach_grid s s' : greach (battle_full_sim cf) s s' ->
    bs_grid (bf_core s') = bs_grid (bf_core s).
  Proof.
    induction 1 as [s|s s' a _ IH|s s' a _ IH]; [reflexivity| |];
      cbn [battle_full_sim sim_obs sim_reward bf_obs bf_reward with_core bf_core snd] in IH.
    - destruct (bs_obs_frame (bf_battle cf) (bf_core s) a) as (E1 & _). congruence.
    - destruct (bs_reward_frame (bf_core s) a) as (E1 & _). congruence.
  Qed.

  Lemma bf_do_call_inv k m c r m' :
    do_call (battle_full_sim cf) k m c = (r, m') -> bf_inv (m_sim m) -> bf_inv (m_sim m').
  Proof.
    intros E H. destruct (do_call_sim_reach (battle_full_sim cf) k m c r m' E) as [Q|[Q|[l Q]]].
    - rewrite Q. exact H.
    - unfold bf_inv. rewrite (bf_greach_grid _ _ Q). apply bf_reset_inv, H.
    - unfold bf_inv. rewrite (bf_greach_grid _ _ Q). apply bf_step_inv, H.
  Qed.

  Theorem bf_run_inv k cs : forall m,
    bf_inv (m_sim m) -> bf_inv (m_sim (snd (run (battle_full_sim cf) k m cs))).
  Proof.
    induction cs as [|c cs IH]; intros m H; cbn [run]; [exact H|].
    destruct (do_call (battle_full_sim cf) k m c) as [r m1] eqn:E.
    specialize (IH m1 (bf_do_call_inv k m c r m1 E H)).
    destruct (run (battle_full_sim cf) k m1 cs) as [rs m2]. exact IH.
  Qed.

  (* the reset of ANY two states of this configuration with the same draw streams and flag *)
  Lemma bf_reset_reseed st src :
    bf_inv st -> bf_inv src -> next_reset_ok cf src = true ->
    bs_bad (bf_core st) = bs_bad (bf_core src) ->
    bf_reset cf (reseed st src) = bf_reset cf src.
  Proof.
    intros Hst Hsrc Hn Hb. unfold next_reset_ok in Hn. unfold bf_reset, reseed.
    cbn [bf_resets bf_core bs_grid bs_starts bs_orc bs_obsorc bs_bad].
    destruct (bf_resets src) as [|o rest]; [discriminate|].
    rewrite (full_reset_indep (bf_states cf) o (bs_grid (bf_core st)) (bs_grid (bf_core src)) Ho Hst Hsrc).
    destruct (full_reset (bf_states cf) o (bs_grid (bf_core src))); [|discriminate].
    rewrite Hb. reflexivity.
  Qed.
End Inv.

Lemma battle_full_order cf :
  order (battle_full_sim cf) = seq 0 (length (bc_agents (bf_battle cf))).
Proof.
  unfold order, Managers.agents. cbn [battle_full_sim sim_n sim_learning].
  induction (seq 0 (length (bc_agents (bf_battle cf)))) as [|x l IH]; [reflexivity|].
  cbn. rewrite IH. reflexivity.
Qed.

(* ---- C08_battle_used_vs_fresh ------------------------------------------------------------------ *)
Theorem battle_used_vs_fresh cf k s0 h cs :
  k = MAll \/ k = MTurn -> bc_agents (bf_battle cf) <> [] ->
  order_complete (bf_states cf) = true ->
  statics (bf_states cf) (bs_grid (bf_core s0)) -> next_reset_ok cf s0 = true ->
  let used := snd (run (battle_full_sim cf) k (init s0) h) in
  bs_bad (bf_core (m_sim used)) = bs_bad (bf_core s0) ->
  fst (run (battle_full_sim cf) k (reseed_m used s0) (CReset :: cs)) =
  fst (run (battle_full_sim cf) k (init s0) (CReset :: cs)).
Proof.
  intros Hk Hne Ho Hs Hn used Hb.
  apply episode_indistinguishable.
  - destruct Hk as [-> | ->]; discriminate.
  - intros _ E. rewrite battle_full_order in E. destruct (bc_agents (bf_battle cf)); [auto|discriminate].
  - cbn [reseed_m m_sim init battle_full_sim sim_reset].
    apply (bf_reset_reseed cf Ho); try assumption.
    apply (bf_run_inv cf Ho k h (init s0)). exact Hs.
Qed.
