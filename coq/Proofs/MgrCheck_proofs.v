(* The scripted simulation under the managers: purity facts, witnesses (refutations of the
   pre-fix models, non-vacuity), and the proof that the executable checker of Ctl/MgrCheck.v
   accepts the model's own behaviour. *)
From Coq Require Import ZArith List Bool Arith Lia.
From Abm Require Import Base.Sx Ctl.Managers Ctl.ScriptSim Ctl.MgrCheck
     Proofs.Managers_proofs Proofs.Managers_hist.
Import ListNotations.
Open Scope Z_scope.

(* the checker applied to the model's own history *)
Definition chk_run (sc : script) (k : mgr) (fam : Z) (cs : list (call Z)) : Z :=
  let r := ss_run sc k (init (ss_init sc)) cs in
  chk_hist sc k fam ghost0 cs (fst r) (s_steps (m_sim (snd r))) (s_reads (m_sim (snd r))).

(* ---------------- getters of the scripted simulation ---------------- *)
Lemma ss_greach_t sc s s' : greach (script_sim sc) s s' -> s_t s' = s_t s.
Proof. induction 1 as [s|s s' a _ IH|s s' a _ IH]; [reflexivity|exact IH|exact IH]. Qed.

Lemma ss_done_stable sc : done_stable (script_sim sc).
Proof.
  intros s s' a G. cbn. unfold ss_done. rewrite (ss_greach_t sc s s' G). reflexivity.
Qed.

(* ---------------- witnesses ---------------- *)
Definition mkrow d a nx acc := {| r_done := d; r_all := a; r_next := nx; r_acc := acc |}.
Definition st1 (a : nat) (v : Z) : call Z := CStep [(a, v)] [(a, v)].

(* F2: a0 is a non-learning entity (in done_agents from reset on); the submission
   {a1: 2, a0: 2} passes the pre-fix check of the first key only *)
Definition f2_sc : script :=
  {| sc_n := 2; sc_learn := [false; true];
     sc_rows := [mkrow [false; false] false [0%nat] [0; 1]] |}.
Definition f2_cs : list (call Z) :=
  [CReset; st1 1 5; CStep [(1%nat, 2); (0%nat, 2)] [(1%nat, 2); (0%nat, 2)]].

Lemma f2_refuted :
  chk_run f2_sc MTurnPrefix 1 f2_cs = 101 /\ chk_run f2_sc MTurn 1 f2_cs = 0 /\
  exists m acts o m',
    submits_done (m_done m) acts /\
    turn_step_prefix (script_sim f2_sc) m acts = (ROut o, m').
Proof.
  split; [vm_compute; reflexivity|]. split; [vm_compute; reflexivity|].
  exists (snd (run (script_sim f2_sc) MTurnPrefix (init (ss_init f2_sc)) [CReset; st1 1 5])).
  exists [(1%nat, 2); (0%nat, 2)]. eexists. eexists. split.
  - exists (0%nat, 2). split; [right; left; reflexivity|]. vm_compute. left. reflexivity.
  - vm_compute. reflexivity.
Qed.

(* F1: the pre-fix reset keeps the cycle position of the previous episode *)
Definition f1_sc : script :=
  {| sc_n := 3; sc_learn := [true; true; true];
     sc_rows := [mkrow [false; false; false] false [0%nat] [0; 1; 2]] |}.
Definition f1_cs : list (call Z) := [CReset; st1 0 5; CReset].

Lemma f1_refuted :
  chk_run f1_sc MTurnPrefix 7 f1_cs = 711 /\ chk_run f1_sc MTurn 7 f1_cs = 0 /\
  fst (run (script_sim f1_sc) MTurnPrefix (init (ss_init f1_sc)) f1_cs)
  = [RObs [(0%nat, 0)];
     ROut {| o_obs := [(1%nat, 101)]; o_rew := [(1%nat, 1)]; o_done := [(1%nat, false)];
             o_info := [(1%nat, -101)]; o_all := false |};
     RObs [(2%nat, 2)]].
Proof. repeat split; vm_compute; reflexivity. Qed.

(* non-vacuity: three learning agents, a1 finishes at t = 1 while a0 holds the turn, the
   simulation finishes at t = 5.  The history meets an empty submission (error), a submission
   with a done agent (reject), the three arms of the turn search (a1 newly done and reported
   on the way to a2; a1 skipped later; a live agent) and the flush branch. *)
Definition nv_sc : script :=
  {| sc_n := 3; sc_learn := [true; true; true];
     sc_rows := [mkrow [false; false; false] false [0%nat] [0; 0; 0];
                 mkrow [false; true; false] false [0%nat] [1; 2; 3];
                 mkrow [false; true; false] false [0%nat] [1; 2; 3];
                 mkrow [false; true; false] false [0%nat] [1; 2; 3];
                 mkrow [false; true; false] false [0%nat] [1; 2; 3];
                 mkrow [false; true; false] true [0%nat] [1; 2; 3]] |}.
Definition nv_cs : list (call Z) :=
  [CReset; st1 0 1; CStep [] []; CStep [(2%nat, 1); (1%nat, 1)] [(2%nat, 1); (1%nat, 1)];
   st1 2 1; st1 0 1; st1 2 1; st1 0 1; CReset].

Definition mkout ob rw dn inf al : out Z Z :=
  {| o_obs := ob; o_rew := rw; o_done := dn; o_info := inf; o_all := al |}.

Definition nv_expected : list (resp Z Z) :=
  [RObs [(0%nat, 0)];
   ROut (mkout [(1%nat, 101); (2%nat, 102)] [(1%nat, 2); (2%nat, 3)]
               [(1%nat, true); (2%nat, false)] [(1%nat, -101); (2%nat, -102)] false);
   RError; RReject;
   ROut (mkout [(0%nat, 200)] [(0%nat, 2)] [(0%nat, false)] [(0%nat, -200)] false);
   ROut (mkout [(2%nat, 302)] [(2%nat, 6)] [(2%nat, false)] [(2%nat, -302)] false);
   ROut (mkout [(0%nat, 400)] [(0%nat, 2)] [(0%nat, false)] [(0%nat, -400)] false);
   ROut (mkout [(0%nat, 500); (2%nat, 502)] [(0%nat, 1); (2%nat, 6)]
               [(0%nat, false); (2%nat, false)] [(0%nat, -500); (2%nat, -502)] true);
   RObs [(0%nat, 0)]].

Lemma nv_turn :
  let t := trace (script_sim nv_sc) MTurn (init (ss_init nv_sc)) Fresh nv_cs in
  in_protocol t /\ done_stable (script_sim nv_sc) /\
  map te_resp t = nv_expected /\
  (forall e, In e t -> te_ph e = Live -> tinv (script_sim nv_sc) (te_pre e)) /\
  chk_run nv_sc MTurn 1 nv_cs = 0 /\ chk_run nv_sc MTurn 7 nv_cs = 0.
Proof.
  cbv zeta. split; [apply in_protocolb_ok; vm_compute; reflexivity|].
  split; [apply ss_done_stable|]. split; [vm_compute; reflexivity|].
  split; [|split; vm_compute; reflexivity].
  assert (H : forallb (fun e => match te_ph e with
                                | Live => tinvb (script_sim nv_sc) (te_pre e) | _ => true end)
                      (trace (script_sim nv_sc) MTurn (init (ss_init nv_sc)) Fresh nv_cs) = true)
    by (vm_compute; reflexivity).
  rewrite forallb_forall in H. intros e He El. specialize (H e He). rewrite El in H.
  apply tinvb_ok, H.
Qed.

(* the remaining arm: the last agents finish together, the search itself reports __all__ *)
Definition nv2_sc : script :=
  {| sc_n := 2; sc_learn := [true; true];
     sc_rows := [mkrow [false; false] false [0%nat] [0; 0];
                 mkrow [true; true] false [0%nat] [4; 5]] |}.

Lemma nv_turn_all_done :
  fst (run (script_sim nv2_sc) MTurn (init (ss_init nv2_sc)) [CReset; st1 0 1])
  = [RObs [(0%nat, 0)];
     ROut (mkout [(1%nat, 101); (0%nat, 100)] [(1%nat, 5); (0%nat, 4)]
                 [(1%nat, true); (0%nat, true)] [(1%nat, -101); (0%nat, -100)] true)] /\
  chk_run nv2_sc MTurn 1 [CReset; st1 0 1] = 0 /\ chk_run nv2_sc MTurn 7 [CReset; st1 0 1] = 0.
Proof. repeat split; vm_compute; reflexivity. Qed.

(* ====================================================================================
   The checker accepts the model's own behaviour
   ==================================================================================== *)
Open Scope nat_scope.

(* ---------------- lists ---------------- *)
Lemma nats_eqb_refl l : nats_eqb l l = true.
Proof. induction l as [|a l IH]; [reflexivity|]. simpl. rewrite Nat.eqb_refl. exact IH. Qed.

Lemma kv_eqb_refl x : kv_eqb x x = true.
Proof. unfold kv_eqb. rewrite Nat.eqb_refl, Z.eqb_refl. reflexivity. Qed.

Lemma kvs_eqb_refl l : kvs_eqb l l = true.
Proof. induction l as [|a l IH]; [reflexivity|]. simpl. rewrite kv_eqb_refl. exact IH. Qed.

Lemma kvs_eqb_eq l : forall m, kvs_eqb l m = true -> l = m.
Proof.
  induction l as [|[a v] l IH]; intros [|[b w] m] H; try discriminate; [reflexivity|].
  simpl in H. apply andb_true_iff in H as [H1 H2]. unfold kv_eqb in H1. cbn in H1.
  apply andb_true_iff in H1 as [H1 H3]. apply Nat.eqb_eq in H1. apply Z.eqb_eq in H3.
  subst. f_equal. apply IH, H2.
Qed.

Lemma nodupb_NoDup l : NoDup l -> nodupb l = true.
Proof.
  induction 1 as [|a l Hn _ IH]; [reflexivity|]. simpl. rewrite IH, andb_true_r.
  apply negb_true_iff, memb_false_In, Hn.
Qed.

Lemma length_set_nth l : forall i v, length (set_nth l i v) = length l.
Proof. induction l as [|x l IH]; intros [|i] v; simpl; try reflexivity. rewrite IH. reflexivity. Qed.

Lemma nth_set_nth l : forall i j v, (i < length l)%nat ->
  nth j (set_nth l i v) 0%Z = if Nat.eqb j i then v else nth j l 0%Z.
Proof.
  induction l as [|x l IH]; intros i j v Hi; [simpl in Hi; lia|].
  destruct i as [|i]; destruct j as [|j]; simpl; try reflexivity.
  apply IH. simpl in Hi. lia.
Qed.

Lemma length_add_lists l : forall m, length (add_lists l m) = length l.
Proof.
  induction l as [|x l IH]; intros [|y m]; simpl; try reflexivity. rewrite IH. reflexivity.
Qed.

Lemma nth_add_lists l : forall m j, (j < length l)%nat ->
  nth j (add_lists l m) 0%Z = (nth j l 0 + nth j m 0)%Z.
Proof.
  induction l as [|x l IH]; intros m j Hj; [simpl in Hj; lia|].
  destruct m as [|y m]; simpl.
  - destruct j; lia.
  - destruct j as [|j]; [reflexivity|]. apply IH. simpl in Hj. lia.
Qed.

Lemma nth_firstn_lt {A} (l : list A) : forall k j d, (j < k)%nat -> nth j (firstn k l) d = nth j l d.
Proof.
  induction l as [|x l IH]; intros k j d Hj; [rewrite firstn_nil; reflexivity|].
  destruct k as [|k]; [lia|]. destruct j as [|j]; [reflexivity|]. simpl. apply IH. lia.
Qed.

Lemma length_zeros k : length (zeros k) = k.
Proof. induction k as [|k IH]; [reflexivity|]. simpl. rewrite IH. reflexivity. Qed.

Lemma nth_zeros k j : nth j (zeros k) 0%Z = 0%Z.
Proof. revert j. induction k as [|k IH]; intros [|j]; simpl; try reflexivity. apply IH. Qed.

Lemma map_fst_filter_snd {A} (f : A -> bool) (l : list A) :
  map fst (filter snd (map (fun a => (a, f a)) l)) = filter f l.
Proof.
  induction l as [|a l IH]; [reflexivity|]. simpl. destruct (f a); simpl; rewrite IH; reflexivity.
Qed.

Definition extends {A} (l full : list A) : Prop := exists x, full = l ++ x.

Lemma extends_refl {A} (l : list A) : extends l l.
Proof. exists []. symmetry. apply app_nil_r. Qed.

Lemma extends_trans {A} (a b c : list A) : extends a b -> extends b c -> extends a c.
Proof. intros (x & ->) (y & ->). exists (x ++ y). rewrite app_assoc. reflexivity. Qed.

Lemma extends_app {A} (a x : list A) : extends a (a ++ x).
Proof. exists x. reflexivity. Qed.

Lemma nth_error_extends {A} (l : list A) x full :
  extends (l ++ [x]) full -> nth_error full (length l) = Some x.
Proof.
  intros (y & ->). rewrite <- app_assoc. rewrite nth_error_app2 by lia.
  rewrite Nat.sub_diag. reflexivity.
Qed.

Lemma segment_extends {A} (l ks full : list A) :
  extends (l ++ ks) full -> segment full (length l) (length ks) = ks.
Proof.
  intros (y & ->). unfold segment. rewrite <- app_assoc.
  rewrite skipn_app, skipn_all, Nat.sub_diag. cbn [app skipn].
  rewrite firstn_app, firstn_all, Nat.sub_diag. cbn. apply app_nil_r.
Qed.

(* ---------------- the scripted simulation under the model ---------------- *)
Section ScriptModel.
  Variable sc : script.
  Notation SS := (script_sim sc).
  Notation n := (sc_n sc).

  Definition obsv (t a : nat) : Z := (Z.of_nat t * 100 + Z.of_nat a)%Z.

  (* pending rewards after the accumulators of ks were read *)
  Definition zero_at (p : list Z) (ks : list nat) : list Z :=
    fold_left (fun p a => set_nth p a 0%Z) ks p.

  (* the values those reads return *)
  Fixpoint rews (p : list Z) (ks : list nat) : list (nat * Z) :=
    match ks with
    | [] => []
    | a :: ks' => (a, nth a p 0%Z) :: rews (set_nth p a 0%Z) ks'
    end.

  (* s' is s after get_obs/get_reward/get_done/get_info for the agents ks, in this order *)
  Definition rdrel (s : sst) (ks : list nat) (s' : sst) : Prop :=
    s_t s' = s_t s /\ s_pend s' = zero_at (s_pend s) ks /\ s_steps s' = s_steps s /\
    s_reads s' = s_reads s ++ ks.

  (* o' is o extended by the reports of ks at time t with pending rewards p *)
  Definition outrel (t : nat) (p : list Z) (o : out Z Z) (ks : list nat) (o' : out Z Z) : Prop :=
    o_obs o' = o_obs o ++ map (fun a => (a, obsv t a)) ks /\
    o_rew o' = o_rew o ++ rews p ks /\
    o_done o' = o_done o ++ map (fun a => (a, rdone sc t a)) ks /\
    o_info o' = o_info o ++ map (fun a => (a, (- obsv t a)%Z)) ks.

  Lemma rdrel_refl s : rdrel s [] s.
  Proof. unfold rdrel. cbn. rewrite app_nil_r. tauto. Qed.

  Lemma outrel_refl t p o : outrel t p o [] o.
  Proof. unfold outrel. cbn. rewrite !app_nil_r. tauto. Qed.

  Lemma zero_at_app p k1 k2 : zero_at p (k1 ++ k2) = zero_at (zero_at p k1) k2.
  Proof. unfold zero_at. apply fold_left_app. Qed.

  Lemma rews_app k1 : forall p k2, rews p (k1 ++ k2) = rews p k1 ++ rews (zero_at p k1) k2.
  Proof.
    induction k1 as [|a k1 IH]; intros p k2; [reflexivity|]. cbn. rewrite IH. reflexivity.
  Qed.

  Lemma rdrel_trans s k1 s1 k2 s2 : rdrel s k1 s1 -> rdrel s1 k2 s2 -> rdrel s (k1 ++ k2) s2.
  Proof.
    intros (A1 & A2 & A3 & A4) (B1 & B2 & B3 & B4). unfold rdrel.
    rewrite B1, B2, B3, B4, A1, A2, A3, A4, zero_at_app, app_assoc. tauto.
  Qed.

  Lemma outrel_trans t p o k1 o1 k2 o2 :
    outrel t p o k1 o1 -> outrel t (zero_at p k1) o1 k2 o2 -> outrel t p o (k1 ++ k2) o2.
  Proof.
    intros (A1 & A2 & A3 & A4) (B1 & B2 & B3 & B4). unfold outrel.
    rewrite B1, B2, B3, B4, A1, A2, A3, A4, rews_app, !map_app, <- !app_assoc. tauto.
  Qed.

  Lemma length_zero_at ks : forall p, length (zero_at p ks) = length p.
  Proof.
    induction ks as [|a ks IH]; intros p; [reflexivity|].
    change (length (zero_at (set_nth p a 0%Z) ks) = length p). rewrite IH. apply length_set_nth.
  Qed.

  (* distinct agents: each read returns what was pending before the output *)
  Lemma rews_nodup ks : forall p, NoDup ks -> (forall a, In a ks -> a < length p) ->
    rews p ks = map (fun a => (a, nth a p 0%Z)) ks.
  Proof.
    induction ks as [|a ks IH]; intros p ND Hlt; [reflexivity|]. cbn.
    inversion ND as [|x l Hn ND']; subst. f_equal. rewrite IH.
    - apply map_ext_in. intros b Hb. f_equal. rewrite nth_set_nth by (apply Hlt; left; reflexivity).
      destruct (Nat.eqb b a) eqn:E; [|reflexivity]. apply Nat.eqb_eq in E. subst. contradiction.
    - exact ND'.
    - intros b Hb. rewrite length_set_nth. apply Hlt. right. exact Hb.
  Qed.

  (* ---- the definitions of the model instance and of the checker coincide ---- *)
  Lemma order_script : order SS = corder sc.
  Proof. reflexivity. Qed.
  Lemma agents_script : agents SS = cagents sc.
  Proof. reflexivity. Qed.
  Lemma all_in_script d : all_in SS d = call_in sc d.
  Proof. reflexivity. Qed.
  Lemma done_script s a : sim_done SS s a = rdone sc (s_t s) a.
  Proof. reflexivity. Qed.

  Lemma ss_add_report s a o o1 s1 : add_report SS s a o = (o1, s1) ->
    outrel (s_t s) (s_pend s) o [a] o1 /\ rdrel s [a] s1 /\ o_all o1 = o_all o.
  Proof.
    unfold add_report. cbn. intros H. injection H as <- <-. unfold outrel, rdrel. cbn.
    repeat split.
  Qed.

  Lemma outrel_cons t p o a o1 ks o2 s s1 :
    outrel t p o [a] o1 -> rdrel s [a] s1 -> s_pend s = p ->
    outrel t (s_pend s1) o1 ks o2 -> outrel t p o (a :: ks) o2.
  Proof.
    intros A (_ & B & _) <- C. apply (outrel_trans _ _ _ [a] o1 ks o2 A). rewrite <- B. exact C.
  Qed.

  Lemma ss_flush d l : forall s o o' s', flush SS s d l o = (o', s') ->
    outrel (s_t s) (s_pend s) o (filter (fun a => negb (memb a d)) l) o' /\
    rdrel s (filter (fun a => negb (memb a d)) l) s' /\ o_all o' = o_all o.
  Proof.
    induction l as [|a l IH]; intros s o o' s' H; cbn [flush] in H; cbn [filter].
    - injection H as <- <-. split; [apply outrel_refl|]. split; [apply rdrel_refl|reflexivity].
    - destruct (memb a d); cbn [negb]; [apply IH, H|].
      destruct (add_report SS s a o) as [o1 s1] eqn:Ea.
      destruct (ss_add_report _ _ _ _ _ Ea) as (A1 & A2 & A3).
      destruct (IH _ _ _ _ H) as (B1 & B2 & B3). pose proof A2 as (T & _).
      rewrite T in B1. split; [|split; [|congruence]].
      + apply (outrel_cons _ _ _ _ _ _ _ _ _ A1 A2 eq_refl B1).
      + apply (rdrel_trans _ [a] _ _ _ A2 B2).
  Qed.

  Lemma ss_thread_obs l s :
    thread (sim_obs SS) s l = (map (fun a => (a, obsv (s_t s) a)) l, s).
  Proof. induction l as [|a l IH]; [reflexivity|]. cbn. cbn in IH. rewrite IH. reflexivity. Qed.

  Lemma ss_thread_rew l : forall s r s', thread (sim_reward SS) s l = (r, s') ->
    r = rews (s_pend s) l /\ rdrel s l s'.
  Proof.
    induction l as [|a l IH]; intros s r s' H.
    - cbn in H. injection H as <- <-. split; [reflexivity|apply rdrel_refl].
    - cbn in H. destruct (thread ss_reward _ l) as [r1 s2] eqn:E. injection H as <- <-.
      destruct (IH _ _ _ E) as (A & B). cbn in A. split; [cbn; rewrite A; reflexivity|].
      eapply (rdrel_trans s [a] _ l s2). 2: exact B. unfold rdrel. cbn. tauto.
  Qed.

  (* ---- the turn search of the model walks exactly like the checker's reference walk ---- *)
  Lemma turn_search_unf f s d p o : turn_search SS (S f) s d p o =
    if memb (nth p (corder sc) 0) d then turn_search SS f s d (S p mod length (corder sc)) o
    else if rdone sc (s_t s) (nth p (corder sc) 0) then
           let (o1, s1) := add_report SS s (nth p (corder sc) 0) o in
           if call_in sc (d ++ [nth p (corder sc) 0])
           then SOk (set_all o1 true) s1 (d ++ [nth p (corder sc) 0]) (S p mod length (corder sc))
           else turn_search SS f s1 (d ++ [nth p (corder sc) 0]) (S p mod length (corder sc)) o1
         else let (o1, s1) := add_report SS s (nth p (corder sc) 0) o in
              SOk o1 s1 d (S p mod length (corder sc)).
  Proof. reflexivity. Qed.

  Lemma turn_walk_unf f t d p : turn_walk sc (S f) t d p =
    if memb (nth p (corder sc) 0) d then turn_walk sc f t d (S p mod length (corder sc))
    else if rdone sc t (nth p (corder sc) 0) then
           if call_in sc (d ++ [nth p (corder sc) 0])
           then ([nth p (corder sc) 0], S p mod length (corder sc))
           else let (r, q) := turn_walk sc f t (d ++ [nth p (corder sc) 0])
                                        (S p mod length (corder sc)) in
                (nth p (corder sc) 0 :: r, q)
         else ([nth p (corder sc) 0], S p mod length (corder sc)).
  Proof. reflexivity. Qed.

  Lemma set_all_outrel t p o ks o1 b : outrel t p o ks o1 -> outrel t p o ks (set_all o1 b).
  Proof. intros H. exact H. Qed.

  Lemma ss_turn_search fuel : forall s d p o o' s' d' p',
    turn_search SS fuel s d p o = SOk o' s' d' p' ->
    outrel (s_t s) (s_pend s) o (fst (turn_walk sc fuel (s_t s) d p)) o' /\
    rdrel s (fst (turn_walk sc fuel (s_t s) d p)) s' /\
    p' = snd (turn_walk sc fuel (s_t s) d p) /\
    d' = d ++ filter (rdone sc (s_t s)) (fst (turn_walk sc fuel (s_t s) d p)).
  Proof.
    induction fuel as [|f IH]; intros s d p o o' s' d' p' H; [discriminate|].
    rewrite turn_search_unf in H. rewrite turn_walk_unf.
    set (a := nth p (corder sc) 0) in *. set (q := S p mod length (corder sc)) in *.
    destruct (memb a d); [apply IH, H|].
    destruct (add_report SS s a o) as [o1 s1] eqn:Ea.
    destruct (ss_add_report _ _ _ _ _ Ea) as (A1 & A2 & A3). pose proof A2 as (T & _).
    destruct (rdone sc (s_t s) a) eqn:Ed; [destruct (call_in sc (d ++ [a]))|].
    - injection H as <- <- <- <-. cbn [fst snd filter]. rewrite Ed.
      split; [exact A1|]. split; [exact A2|]. split; reflexivity.
    - destruct (IH _ _ _ _ _ _ _ _ H) as (B1 & B2 & B3 & B4). rewrite T in *.
      destruct (turn_walk sc f (s_t s) (d ++ [a]) q) as [r q']. cbn [fst snd filter] in *.
      rewrite Ed. split; [apply (outrel_cons _ _ _ _ _ _ _ _ _ A1 A2 eq_refl B1)|].
      split; [apply (rdrel_trans _ [a] _ _ _ A2 B2)|]. split; [exact B3|].
      rewrite B4, <- app_assoc. reflexivity.
    - injection H as <- <- <- <-. cbn [fst snd filter]. rewrite Ed, app_nil_r.
      split; [exact A1|]. split; [exact A2|]. split; reflexivity.
  Qed.

  Lemma dyn_loop_unf s d a l o : dyn_loop SS s d (a :: l) o =
    if memb a d then dyn_loop SS s d l o
    else if rdone sc (s_t s) a then
           let (o1, s1) := add_report SS s a o in
           if call_in sc (d ++ [a]) then (set_all o1 true, s1, d ++ [a])
           else dyn_loop SS s1 (d ++ [a]) l o1
         else let (o1, s1) := add_report SS s a o in dyn_loop SS s1 d l o1.
  Proof. reflexivity. Qed.

  Lemma ss_dyn_loop l : forall s d o o' s' d',
    dyn_loop SS s d l o = (o', s', d') ->
    outrel (s_t s) (s_pend s) o (dyn_walk sc (s_t s) d l) o' /\
    rdrel s (dyn_walk sc (s_t s) d l) s' /\
    d' = d ++ filter (rdone sc (s_t s)) (dyn_walk sc (s_t s) d l).
  Proof.
    induction l as [|a l IH]; intros s d o o' s' d' H.
    - cbn in H. injection H as <- <- <-. cbn. rewrite app_nil_r.
      split; [apply outrel_refl|]. split; [apply rdrel_refl|reflexivity].
    - rewrite dyn_loop_unf in H. cbn [dyn_walk].
      destruct (memb a d); [apply IH, H|].
      destruct (add_report SS s a o) as [o1 s1] eqn:Ea.
      destruct (ss_add_report _ _ _ _ _ Ea) as (A1 & A2 & A3). pose proof A2 as (T & _).
      destruct (rdone sc (s_t s) a) eqn:Ed; [destruct (call_in sc (d ++ [a]))|].
      + injection H as <- <- <-. cbn [filter]. rewrite Ed.
        split; [exact A1|]. split; [exact A2|reflexivity].
      + destruct (IH _ _ _ _ _ _ H) as (B1 & B2 & B4). rewrite T in *.
        cbn [filter]. rewrite Ed.
        split; [apply (outrel_cons _ _ _ _ _ _ _ _ _ A1 A2 eq_refl B1)|].
        split; [apply (rdrel_trans _ [a] _ _ _ A2 B2)|].
        rewrite B4, <- app_assoc. reflexivity.
      + destruct (IH _ _ _ _ _ _ H) as (B1 & B2 & B4). rewrite T in *.
        cbn [filter]. rewrite Ed.
        split; [apply (outrel_cons _ _ _ _ _ _ _ _ _ A1 A2 eq_refl B1)|].
        split; [apply (rdrel_trans _ [a] _ _ _ A2 B2)|exact B4].
  Qed.

  (* ---- one accepted step of the model over the scripted simulation, in closed form ---- *)
  Definition out_is (t : nat) (p : list Z) (ks : list nat) (o : out Z Z) : Prop :=
    o_obs o = map (fun a => (a, obsv t a)) ks /\ o_rew o = rews p ks /\
    o_done o = map (fun a => (a, rdone sc t a)) ks /\
    o_info o = map (fun a => (a, (- obsv t a)%Z)) ks.

  Lemma outrel_empty t p b ks o : outrel t p (empty_out b) ks o -> out_is t p ks o.
  Proof. intros H. exact H. Qed.

  Definition exp_keys (k : mgr) (t : nat) (d : list nat) (ptr : nat) : list nat :=
    if r_all (row_at sc t) then filter (fun a => negb (memb a d)) (cagents sc)
    else match k with
         | MAll => filter (fun a => negb (memb a d)) (cagents sc)
         | MTurn | MTurnPrefix => fst (turn_walk sc (S (length (corder sc))) t d ptr)
         | MDyn => dyn_walk sc t d (r_next (row_at sc t))
         end.

  Definition exp_ptr (k : mgr) (t : nat) (d : list nat) (ptr : nat) : nat :=
    match k with
    | MTurn | MTurnPrefix =>
        if r_all (row_at sc t) then ptr
        else snd (turn_walk sc (S (length (corder sc))) t d ptr)
    | _ => ptr
    end.

  Lemma model_step k m acts sh o m' : k <> MTurnPrefix ->
    ss_do_call sc k m (CStep acts sh) = (ROut o, m') ->
    let s1 := ss_step sc (m_sim m) (match k with MAll => sh | _ => acts end) in
    let t := S (s_t (m_sim m)) in
    let ks := exp_keys k t (m_done m) (m_ptr m) in
    existsb (fun kv => memb (fst kv) (m_done m)) acts = false /\
    out_is t (s_pend s1) ks o /\ rdrel s1 ks (m_sim m') /\
    (r_all (row_at sc t) = false -> m_done m' = m_done m ++ filter (rdone sc t) ks) /\
    (r_all (row_at sc t) = true -> o_all o = true) /\
    m_ptr m' = exp_ptr k t (m_done m) (m_ptr m).
  Proof.
    intros Hk H. cbv zeta. unfold ss_do_call in H. destruct k; [| | |contradiction]; cbn [do_call] in H.
    - (* all-step *)
      unfold all_step in H.
      destruct (existsb (fun kv => memb (fst kv) (m_done m)) acts); [discriminate|].
      set (s1 := sim_step SS (m_sim m) sh) in *.
      set (lv := filter (fun a => negb (memb a (m_done m))) (agents SS)) in *.
      rewrite ss_thread_obs in H.
      destruct (thread (sim_reward SS) s1 lv) as [rew s3] eqn:Er.
      destruct (ss_thread_rew _ _ _ _ Er) as (R1 & R2). pose proof R2 as (T & _).
      injection H as <- <-. cbn [m_sim m_done m_ptr o_obs o_rew o_done o_info o_all].
      assert (Ek : exp_keys MAll (S (s_t (m_sim m))) (m_done m) (m_ptr m) = lv)
        by (unfold exp_keys; destruct (r_all _); reflexivity).
      rewrite Ek. change (s_t s1) with (S (s_t (m_sim m))) in *.
      assert (Ed : map (fun a => (a, ss_done sc s3 a)) lv
                   = map (fun a => (a, rdone sc (S (s_t (m_sim m))) a)) lv)
        by (apply map_ext; intros a; unfold ss_done, rdone; rewrite T; reflexivity).
      rewrite Ed. split; [reflexivity|]. split; [|split; [exact R2|split; [|split]]].
      + unfold out_is. cbn [o_obs o_rew o_done o_info]. split; [reflexivity|].
        split; [exact R1|]. split; [reflexivity|]. apply map_ext. intros a.
        change (ss_info s3 a) with (- obsv (s_t s3) a)%Z. rewrite T. reflexivity.
      + intros _. rewrite map_fst_filter_snd. reflexivity.
      + intros E. unfold ss_all. rewrite T, E. reflexivity.
      + reflexivity.
    - (* turn-based *)
      unfold turn_step, turn_step_gen in H. destruct acts as [|[a0 v0] acts']; [discriminate|].
      set (acts := (a0, v0) :: acts') in *.
      destruct (existsb (fun kv => memb (fst kv) (m_done m)) acts); [discriminate|].
      split; [reflexivity|]. set (s1 := sim_step SS (m_sim m) acts) in *.
      change (sim_all SS s1) with (r_all (row_at sc (S (s_t (m_sim m))))) in H.
      unfold exp_keys, exp_ptr. destruct (r_all (row_at sc (S (s_t (m_sim m))))) eqn:Ea.
      + destruct (flush SS s1 (m_done m) (agents SS) (empty_out true)) as [o1 s2] eqn:Ef.
        destruct (ss_flush _ _ _ _ _ _ Ef) as (F1 & F2 & F3). injection H as <- <-.
        cbn [m_sim m_done m_ptr]. split; [apply (outrel_empty _ _ _ _ _ F1)|].
        split; [exact F2|]. split; [discriminate|]. split; [intros _; exact F3|reflexivity].
      + destruct (turn_search SS (S (length (order SS))) s1 (m_done m) (m_ptr m) (empty_out false))
          as [o1 s2 d p|] eqn:Es; [|discriminate].
        destruct (ss_turn_search _ _ _ _ _ _ _ _ _ Es) as (F1 & F2 & F3 & F4).
        injection H as <- <-. cbn [m_sim m_done m_ptr].
        change (s_t s1) with (S (s_t (m_sim m))) in *. change (order SS) with (corder sc) in *.
        split; [apply (outrel_empty _ _ _ _ _ F1)|]. split; [exact F2|].
        split; [intros _; exact F4|]. split; [discriminate|exact F3].
    - (* dynamic order *)
      unfold dyn_step in H.
      destruct (existsb (fun kv => memb (fst kv) (m_done m)) acts); [discriminate|].
      split; [reflexivity|]. set (s1 := sim_step SS (m_sim m) acts) in *.
      change (sim_all SS s1) with (r_all (row_at sc (S (s_t (m_sim m))))) in H.
      unfold exp_keys, exp_ptr. destruct (r_all (row_at sc (S (s_t (m_sim m))))) eqn:Ea.
      + destruct (flush SS s1 (m_done m) (agents SS) (empty_out true)) as [o1 s2] eqn:Ef.
        destruct (ss_flush _ _ _ _ _ _ Ef) as (F1 & F2 & F3). injection H as <- <-.
        cbn [m_sim m_done m_ptr]. split; [apply (outrel_empty _ _ _ _ _ F1)|].
        split; [exact F2|]. split; [discriminate|]. split; [intros _; exact F3|reflexivity].
      + destruct (dyn_loop SS s1 (m_done m) (sim_next SS s1) (empty_out false))
          as [[o1 s2] d] eqn:Ed.
        destruct (ss_dyn_loop _ _ _ _ _ _ _ Ed) as (F1 & F2 & F4).
        injection H as <- <-. cbn [m_sim m_done m_ptr].
        change (s_t s1) with (S (s_t (m_sim m))) in *.
        change (sim_next SS s1) with (r_next (row_at sc (S (s_t (m_sim m))))) in *.
        split; [apply (outrel_empty _ _ _ _ _ F1)|]. split; [exact F2|].
        split; [intros _; exact F4|]. split; [discriminate|reflexivity].
  Qed.
End ScriptModel.

(* ---------------- well-formed inputs ---------------- *)
Definition wf_script (k : mgr) (sc : script) : bool :=
  match k with
  | MDyn => negb (Nat.eqb (sc_n sc) 0)
            && forallb (fun r => nodupb (r_next r)
                                 && forallb (fun a => Nat.ltb a (sc_n sc)) (r_next r)) (sc_rows sc)
  | MTurnPrefix => false
  | _ => true
  end.

(* the shuffled list the oracle supplies is a permutation of the submission (all-step) or the
   submission itself *)
Definition wf_call (k : mgr) (c : call Z) : bool :=
  match c with
  | CReset => true
  | CStep acts sh => match k with MAll => perm_kvs acts sh | _ => kvs_eqb acts sh end
  end.

Lemma nodupb_true l : nodupb l = true -> NoDup l.
Proof.
  induction l as [|a l IH]; intros H; [constructor|]. simpl in H.
  apply andb_true_iff in H as [H1 H2]. constructor; [|apply IH, H2].
  apply memb_false_In, negb_true_iff, H1.
Qed.

Lemma existsb_false {A} (f : A -> bool) l : (forall x, In x l -> f x = false) -> existsb f l = false.
Proof.
  induction l as [|a l IH]; intros H; [reflexivity|]. simpl. rewrite (H a (or_introl eq_refl)).
  apply IH. intros x Hx. apply H. right. exact Hx.
Qed.

Lemma forallb_map_true {A B} (g : A -> B) (f : B -> bool) l :
  (forall a, In a l -> f (g a) = true) -> forallb f (map g l) = true.
Proof.
  intros H. apply forallb_forall. intros y Hy. apply in_map_iff in Hy as (a & <- & Ha). apply H, Ha.
Qed.

Lemma mgr_eq_turn k : {k = MTurn} + {k <> MTurn}.
Proof. destruct k; (left; reflexivity) || (right; discriminate). Qed.
Lemma mgr_eq_dyn k : {k = MDyn} + {k <> MDyn}.
Proof. destruct k; (left; reflexivity) || (right; discriminate). Qed.

Section ChkModel.
  Variable sc : script.
  Variable k : mgr.
  Hypothesis Hwf : wf_script k sc = true.
  Notation SS := (script_sim sc).
  Notation n := (sc_n sc).

  Lemma wf_k : k <> MTurnPrefix.
  Proof. intros E. rewrite E in Hwf. discriminate. Qed.

  Lemma wf_sim_ok : sim_ok SS k.
  Proof.
    destruct k; cbn [sim_ok]; try exact I; [|discriminate]. unfold wf_script in Hwf.
    apply andb_true_iff in Hwf as [H1 H2]. split.
    - apply negb_true_iff, Nat.eqb_neq in H1. exact H1.
    - intros s. unfold nom_ok. change (sim_next SS s) with (r_next (row_at sc (s_t s))). unfold row_at.
      destruct (nth_in_or_default (Nat.min (s_t s) (length (sc_rows sc) - 1)) (sc_rows sc) empty_row)
        as [Hin| ->]; [|split; [constructor|intros a []]].
      rewrite forallb_forall in H2. specialize (H2 _ Hin). apply andb_true_iff in H2 as [N1 N2].
      split; [apply nodupb_true, N1|]. intros a Ha. rewrite forallb_forall in N2.
      apply (agents_In SS). change (sim_n SS) with n. apply Nat.ltb_lt, N2, Ha.
  Qed.

  Lemma wf_stable_ok : stable_ok SS k.
  Proof. destruct k; cbn; try exact I; apply ss_done_stable. Qed.

  (* ---------------- ghost of the checker vs state of the model ---------------- *)
  Record liverel (g : ghost) (m : mstate sst) : Prop := {
    l_done : g_done g = m_done m;
    l_t : g_t g = s_t (m_sim m);
    l_la : length (g_accr g) = n;
    l_ld : length (g_deliv g) = n;
    l_lp : length (s_pend (m_sim m)) = n;
    l_rew : forall a, a < n ->
            (nth a (g_accr g) 0 - nth a (g_deliv g) 0 = nth a (s_pend (m_sim m)) 0)%Z;
    l_ptr : k = MTurn -> g_last g = m_ptr m;
    l_inv : hinv SS k Live m }.

  Record rel (g : ghost) (m : mstate sst) : Prop := {
    r_oop : g_oop g = false;
    r_ns : g_nsteps g = length (s_steps (m_sim m));
    r_nr : g_nreads g = length (s_reads (m_sim m));
    r_live : g_started g = true -> g_ended g = false -> liverel g m }.

  (* ---------------- rewards: delivered + pending = accrued ---------------- *)
  Lemma rew_value accr deliv pend racc a :
    length accr = n -> length pend = n ->
    (forall a, a < n -> (nth a accr 0 - nth a deliv 0 = nth a pend 0)%Z) -> a < n ->
    (nth a (add_lists pend racc) 0
     = nth a (add_lists accr (firstn n racc)) 0 - nth a deliv 0)%Z.
  Proof.
    intros La Lp H Ha. rewrite !nth_add_lists by lia. rewrite nth_firstn_lt by exact Ha.
    specialize (H a Ha). lia.
  Qed.

  Lemma rew_after accr ks : forall deliv p,
    length deliv = n -> length p = n ->
    (forall a, a < n -> (nth a accr 0 - nth a deliv 0 = nth a p 0)%Z) ->
    (forall a, In a ks -> a < n) ->
    length (fold_left (fun dl a => set_nth dl a (nth a accr 0%Z)) ks deliv) = n /\
    forall a, a < n ->
      (nth a accr 0 - nth a (fold_left (fun dl a => set_nth dl a (nth a accr 0%Z)) ks deliv) 0
       = nth a (zero_at p ks) 0)%Z.
  Proof.
    induction ks as [|b ks IH]; intros deliv p Ld Lp H Hlt; [split; assumption|].
    cbn [fold_left]. change (zero_at p (b :: ks)) with (zero_at (set_nth p b 0%Z) ks).
    assert (Hb : b < n) by (apply Hlt; left; reflexivity).
    apply IH.
    - rewrite length_set_nth. exact Ld.
    - rewrite length_set_nth. exact Lp.
    - intros a Ha. rewrite !nth_set_nth by lia. destruct (Nat.eqb a b) eqn:E; [apply Nat.eqb_eq in E; subst; lia|apply H, Ha].
    - intros a Ha. apply Hlt. right. exact Ha.
  Qed.

  Lemma exp_keys_ptr t d p p' : k <> MTurn -> exp_keys sc k t d p = exp_keys sc k t d p'.
  Proof.
    intros Hk. pose proof wf_k as Hk'. unfold exp_keys. destruct (r_all _); [reflexivity|].
    destruct k; try reflexivity; contradiction.
  Qed.

  (* ---------------- an accepted step: every clause holds, the relation is kept ---------------- *)
  Lemma chk_out_model fam g m acts sh o m' SL RL :
    rel g m -> g_started g = true -> g_ended g = false ->
    wf_call k (CStep acts sh) = true ->
    ss_do_call sc k m (CStep acts sh) = (ROut o, m') ->
    extends (s_steps (m_sim m')) SL -> extends (s_reads (m_sim m')) RL ->
    fst (chk_out sc k fam g acts sh o (length (s_steps (m_sim m')))
                 (length (s_reads (m_sim m'))) SL RL) = 0%Z /\
    rel (out_ghost sc k g o (length (s_steps (m_sim m'))) (length (s_reads (m_sim m')))) m'.
  Proof.
    intros R Hst Hen Hwc H ESL ERL.
    pose proof wf_k as Hk. pose proof wf_sim_ok as Hs. pose proof wf_stable_ok as Hsb.
    destruct R as [Roop Rns Rnr Rlive]. destruct (Rlive Hst Hen) as [Ld Lt La Ldl Lp Lrew Lptr Linv].
    (* the model, in closed form *)
    pose proof (model_step sc k m acts sh o m' Hk H) as MS. cbv zeta in MS.
    rewrite <- Lt, <- Ld in MS.
    set (stepped := match k with MAll => sh | _ => acts end) in *.
    set (t := S (g_t g)) in *.
    set (ks := exp_keys sc k t (g_done g) (m_ptr m)) in *.
    set (p1 := s_pend (ss_step sc (m_sim m) stepped)) in *.
    destruct MS as (Ebad & (Oobs & Orew & Odn & Oinf) & (Tt & Tp & Tst & Trd) & Dn & Alt & Ptr).
    assert (Ep1 : p1 = add_lists (s_pend (m_sim m)) (r_acc (row_at sc t)))
      by (unfold p1, t; rewrite Lt; reflexivity).
    assert (Lp1 : length p1 = n) by (rewrite Ep1, length_add_lists; exact Lp).
    change (s_t (ss_step sc (m_sim m) stepped)) with (S (s_t (m_sim m))) in Tt.
    rewrite <- Lt in Tt. fold t in Tt.
    change (s_steps (ss_step sc (m_sim m) stepped)) with (s_steps (m_sim m) ++ [stepped]) in Tst.
    change (s_reads (ss_step sc (m_sim m) stepped)) with (s_reads (m_sim m)) in Trd.
    assert (Hkeys : okeys o = ks).
    { unfold okeys. rewrite Oobs, map_map. cbn. apply map_id. }
    (* what holds for every simulation *)
    unfold ss_do_call in H.
    destruct (step_summary SS k m acts sh o m' Hs Linv H) as (W & ND & Fr & _ & _ & _ & Alf & _).
    pose proof (step_keys_agents SS k m acts sh o m' Hs Linv H) as KA.
    destruct W as (W1 & W2 & W3).
    change (keys o) with (okeys o) in *. rewrite Hkeys in *.
    assert (Klt : forall a, In a ks -> a < n).
    { intros a Ha. apply (agents_In SS). apply KA, Ha. }
    assert (Erew : o_rew o = map (fun a => (a, nth a p1 0%Z)) ks).
    { rewrite Orew. apply rews_nodup; [exact ND|]. intros a Ha. rewrite Lp1. apply Klt, Ha. }
    assert (Enew : newly o = filter (rdone sc t) ks).
    { unfold newly. rewrite Odn. apply map_fst_filter_snd. }
    assert (Eall : o_all o = r_all (g_row sc g) || call_in sc (g_done' g o)).
    { unfold g_row, g_done'. fold t. rewrite Enew.
      destruct (r_all (row_at sc t)) eqn:Er; [apply Alt; reflexivity|].
      rewrite Alf, (Dn eq_refl), Ld.
      assert (Es : sim_all SS (match k with MAll => m_sim m' | _ => sim_step SS (m_sim m) acts end)
                   = false).
      { destruct k; try contradiction.
        - change (sim_all SS (m_sim m')) with (r_all (row_at sc (s_t (m_sim m')))). rewrite Tt. exact Er.
        - change (r_all (row_at sc (S (s_t (m_sim m)))) = false). rewrite <- Lt. exact Er.
        - change (r_all (row_at sc (S (s_t (m_sim m)))) = false). rewrite <- Lt. exact Er. }
      rewrite Es. reflexivity. }
    assert (Erall : o_all o = false -> r_all (row_at sc t) = false).
    { intros Ho. rewrite Eall in Ho. apply orb_false_iff in Ho as [Ho _]. exact Ho. }
    assert (Edone' : o_all o = false -> m_done m' = g_done' g o).
    { intros Ho. unfold g_done'. rewrite Enew, (Dn (Erall Ho)). reflexivity. }
    assert (Ekeys : ks = exp_keys sc k t (g_done g) (g_last g)).
    { destruct (mgr_eq_turn k) as [E|E]; [rewrite (Lptr E); reflexivity|].
      apply exp_keys_ptr, E. }
    split.
    - (* the clauses *)
      assert (C01 : chk_c01 sc k g acts sh o (length (s_steps (m_sim m')))
                            (length (s_reads (m_sim m'))) SL RL = 0%Z).
      { unfold chk_c01. cbv zeta. rewrite Hkeys. rewrite Ebad.
        (* 102 *)
        rewrite Tst, app_length, Rns. cbn [length]. rewrite Nat.add_1_r, Nat.eqb_refl. cbn [negb].
        (* 103 *)
        assert (E103 : nth_error SL (length (s_steps (m_sim m))) = Some stepped)
          by (apply nth_error_extends; rewrite <- Tst; exact ESL).
        rewrite E103.
        assert (E103b : kvs_eqb stepped sh = true).
        { unfold stepped. cbn in Hwc. destruct k; try apply kvs_eqb_refl; exact Hwc. }
        rewrite E103b. cbn [negb]. cbn [wf_call] in Hwc. rewrite Hwc. cbn [negb].
        (* 104 - 107 *)
        rewrite W1, W2, W3, !nats_eqb_refl. cbn [negb andb].
        rewrite (nodupb_NoDup _ ND). cbn [negb].
        rewrite (existsb_false (fun a => memb a (g_done g)) ks)
          by (intros a Ha; apply memb_false_In; rewrite Ld; apply Fr, Ha).
        assert (E107 : forallb (fun a => a <? n) ks = true)
          by (apply forallb_forall; intros a Ha; apply Nat.ltb_lt, Klt, Ha).
        rewrite E107. cbn [negb].
        (* 108, 109 *)
        rewrite Odn, Oobs, Oinf.
        rewrite (forallb_map_true (fun a => (a, rdone sc t a))
                   (fun kb => Bool.eqb (snd kb) (rdone sc (S (g_t g)) (fst kb))))
          by (intros a _; apply eqb_reflx).
        rewrite (forallb_map_true (fun a => (a, obsv t a))
                   (fun kv => (snd kv =? Z.of_nat (S (g_t g)) * 100 + Z.of_nat (fst kv))%Z))
          by (intros a _; apply Z.eqb_refl).
        rewrite (forallb_map_true (fun a => (a, (- obsv t a)%Z))
                   (fun kv => (snd kv =? - (Z.of_nat (S (g_t g)) * 100 + Z.of_nat (fst kv)))%Z))
          by (intros a _; apply Z.eqb_refl).
        cbn [negb andb].
        (* 110 *)
        rewrite Erew.
        rewrite (forallb_map_true (fun a => (a, nth a p1 0%Z))
                   (fun kv => (snd kv =? nth (fst kv) (g_accr' sc g) 0 - nth (fst kv) (g_deliv g) 0)%Z)).
        2:{ intros a Ha. cbn [fst snd]. apply Z.eqb_eq. rewrite Ep1. unfold g_accr', g_row. fold t.
            apply rew_value; [exact La|exact Lp|exact Lrew|apply Klt, Ha]. }
        cbn [negb].
        (* 111 *)
        rewrite Trd, app_length, Rnr, Nat.eqb_refl.
        rewrite (segment_extends (s_reads (m_sim m)) ks RL) by (rewrite <- Trd; exact ERL).
        rewrite nats_eqb_refl. cbn [negb andb].
        (* 112 *)
        rewrite <- Eall, eqb_reflx. reflexivity. }
      assert (C07 : chk_c07 sc k g o = 0%Z).
      { unfold chk_c07. cbv zeta. rewrite Hkeys. unfold g_row. fold t.
        pose proof Ekeys as Ek. unfold exp_keys in Ek.
        destruct (r_all (row_at sc t)); [rewrite <- Ek, nats_eqb_refl; reflexivity|].
        destruct k; try (exfalso; apply Hk; reflexivity);
          rewrite <- Ek, nats_eqb_refl; reflexivity. }
      assert (C07b : chk_c07b sc k g o = 0%Z).
      { unfold chk_c07b. cbv zeta. destruct (o_all o) eqn:Ho; [reflexivity|].
        pose proof (Edone' eq_refl) as Ed'. pose proof (Erall eq_refl) as Er.
        assert (Prog : (exists a, In (a, false) (o_done o) /\ ~ In a (m_done m')) ->
                  existsb (fun kb => negb (snd kb) && negb (memb (fst kb) (g_done' g o)))
                          (o_done o) = true).
        { intros (a & Ha & Hn). apply existsb_exists. exists (a, false). split; [exact Ha|].
          cbn. rewrite <- Ed'. apply negb_true_iff, memb_false_In, Hn. }
        destruct (existsb (fun kb => negb (snd kb) && negb (memb (fst kb) (g_done' g o)))
                          (o_done o)) eqn:Ex; [reflexivity|].
        assert (Pg := step_progress SS k m acts sh o m' Hs Hsb Linv H Ho).
        destruct (mgr_eq_dyn k) as [E|E].
        - rewrite E. rewrite E in Pg.
          destruct (existsb (fun a => negb (memb a (g_done g)) && negb (rdone sc (S (g_t g)) a))
                            (r_next (g_row sc g))) eqn:Ex2; [|reflexivity].
          exfalso. apply existsb_exists in Ex2 as (a & Ha & Hc).
          apply andb_true_iff in Hc as [Hc1 Hc2].
          apply negb_true_iff in Hc1, Hc2. apply memb_false_In in Hc1.
          assert (Hex : exists a, In (a, false) (o_done o) /\ ~ In a (m_done m'));
            [|pose proof (Prog Hex) as Ex'; congruence].
          apply Pg. intros _. exists a.
          change (sim_next SS (sim_step SS (m_sim m) acts))
            with (r_next (row_at sc (S (s_t (m_sim m))))).
          change (sim_done SS (sim_step SS (m_sim m) acts) a)
            with (rdone sc (S (s_t (m_sim m))) a).
          rewrite <- Lt, <- Ld. unfold g_row in Ha. tauto.
        - assert (Hex : exists a, In (a, false) (o_done o) /\ ~ In a (m_done m'))
            by (apply Pg; intros C; contradiction).
          pose proof (Prog Hex) as Ex'. congruence. }
      unfold chk_out. cbn [fst]. destruct (fam =? 1)%Z; [exact C01|].
      rewrite C07. cbn. exact C07b.
    - (* the relation after the call *)
      unfold out_ghost. constructor; cbn; try reflexivity.
      intros _ Ho.
      destruct (rew_after (g_accr' sc g) ks (g_deliv g) p1 Ldl Lp1) as (Ldl' & Lrew').
      { intros a Ha. symmetry. rewrite Ep1. unfold g_accr', g_row. fold t.
        apply rew_value; [exact La|exact Lp|exact Lrew|exact Ha]. }
      { exact Klt. }
      constructor; cbn.
      + symmetry. apply Edone', Ho.
      + symmetry. exact Tt.
      + unfold g_accr'. rewrite length_add_lists. exact La.
      + unfold g_deliv'. rewrite Hkeys. exact Ldl'.
      + rewrite Tp. rewrite length_zero_at. exact Lp1.
      + intros a Ha. unfold g_deliv'. rewrite Hkeys, Tp. apply Lrew', Ha.
      + intros E. rewrite Ptr. unfold g_last', exp_ptr. rewrite E. unfold g_row. fold t.
        rewrite (Lptr E). reflexivity.
      + assert (Hi := hinv_step SS k Live m (CStep acts sh) (ROut o) m' Hs Linv eq_refl H).
        cbn [next_phase] in Hi. rewrite Ho in Hi. exact Hi.
  Qed.

  (* ---------------- a reset ---------------- *)
  Definition reset_keys : list nat :=
    match k with
    | MAll => corder sc
    | MTurn | MTurnPrefix => firstn 1 (corder sc)
    | MDyn => r_next (row_at sc 0)
    end.

  Lemma model_reset m obs m' :
    ss_do_call sc k m CReset = (RObs obs, m') ->
    obs = map (fun a => (a, obsv 0 a)) reset_keys /\
    m_sim m' = ss_reset sc (m_sim m) /\ m_done m' = pre_done sc k /\
    (k = MTurn -> m_ptr m' = 1 mod length (corder sc)).
  Proof.
    intros H. pose proof wf_k as Hk. unfold ss_do_call in H. unfold reset_keys.
    destruct k; [| | |contradiction]; cbn [do_call] in H.
    - unfold all_reset in H. rewrite ss_thread_obs in H. injection H as <- <-.
      change (filter (fun a => negb (memb a (nonlearning SS))) (agents SS))
        with (live SS (nonlearning SS)).
      rewrite (live_nonlearning SS). cbn [m_sim m_done]. split; [reflexivity|].
      split; [reflexivity|]. split; [reflexivity|discriminate].
    - unfold turn_reset in H. change (order SS) with (corder sc) in H.
      destruct (corder sc) as [|a0 rest]; [discriminate|]. cbn in H. injection H as <- <-.
      cbn. split; [reflexivity|]. split; [reflexivity|]. split; [reflexivity|]. reflexivity.
    - unfold dyn_reset in H. rewrite ss_thread_obs in H. injection H as <- <-.
      cbn [m_sim m_done]. split; [reflexivity|]. split; [reflexivity|].
      split; [reflexivity|discriminate].
  Qed.

  Lemma reset_keys_fresh a : In a reset_keys -> memb a (pre_done sc k) = false.
  Proof.
    pose proof wf_k as Hk. unfold reset_keys, pre_done. intros Ha.
    assert (Hord : In a (corder sc) ->
                   memb a (filter (fun a => negb (clearn sc a)) (cagents sc)) = false).
    { intros Ho. apply memb_false_In. intros C. apply filter_In in C as [_ C].
      apply filter_In in Ho as [_ Ho]. rewrite Ho in C. discriminate. }
    destruct k; [apply Hord, Ha| |reflexivity|contradiction].
    apply Hord. destruct (corder sc) as [|a0 rest]; [destruct Ha|].
    cbn in Ha. destruct Ha as [<-|[]]. left. reflexivity.
  Qed.

  Lemma chk_reset_model fam g m obs m' :
    rel g m -> ss_do_call sc k m CReset = (RObs obs, m') ->
    fst (chk_reset sc k fam g obs (length (s_steps (m_sim m'))) (length (s_reads (m_sim m'))))
    = 0%Z /\
    rel (reset_ghost sc k g (length (s_steps (m_sim m'))) (length (s_reads (m_sim m')))) m'.
  Proof.
    intros [Roop Rns Rnr _] H. pose proof wf_k as Hk.
    pose proof (hinv_after_reset SS k m obs m' wf_sim_ok H) as Hi.
    destruct (model_reset _ _ _ H) as (Eo & Es & Ed & Ep). split.
    - unfold chk_reset. cbn [fst]. destruct (fam =? 1)%Z.
      + unfold chk_r01. rewrite Es. cbn [ss_reset s_steps s_reads].
        rewrite Rns, Rnr, !Nat.eqb_refl. cbn [negb andb]. rewrite Eo.
        rewrite (forallb_map_true (fun a => (a, obsv 0 a))
                   (fun kv => (snd kv =? Z.of_nat (fst kv))%Z))
          by (intros a _; apply Z.eqb_refl).
        cbn [negb]. rewrite map_map. cbn [fst]. rewrite map_id.
        rewrite existsb_false by (apply reset_keys_fresh). reflexivity.
      + unfold chk_r07. rewrite Eo, map_map. cbn [fst]. rewrite map_id.
        unfold reset_keys. destruct k; try (exfalso; apply Hk; reflexivity);
          rewrite nats_eqb_refl; reflexivity.
    - unfold reset_ghost. constructor; cbn; try reflexivity. intros _ _.
      constructor; cbn.
      + symmetry. exact Ed.
      + rewrite Es. reflexivity.
      + apply length_zeros.
      + apply length_zeros.
      + rewrite Es. cbn. apply length_zeros.
      + intros a _. rewrite Es. cbn. rewrite !nth_zeros. reflexivity.
      + intros E. rewrite (Ep E), E. reflexivity.
      + exact Hi.
  Qed.

  (* ---------------- the logs only grow ---------------- *)
  Lemma ss_greach_logs s s' : greach SS s s' ->
    s_steps s' = s_steps s /\ extends (s_reads s) (s_reads s').
  Proof.
    induction 1 as [s|s s' a _ IH|s s' a _ IH].
    - split; [reflexivity|apply extends_refl].
    - exact IH.
    - destruct IH as (I1 & I2). split; [exact I1|].
      eapply extends_trans; [|exact I2]. cbn. apply extends_app.
  Qed.

  Lemma ss_do_call_logs m c r m' : ss_do_call sc k m c = (r, m') ->
    extends (s_steps (m_sim m)) (s_steps (m_sim m')) /\
    extends (s_reads (m_sim m)) (s_reads (m_sim m')).
  Proof.
    intros H. destruct (do_call_sim_reach SS k m c r m' H) as [E|[G|(l & G)]].
    - rewrite E. split; apply extends_refl.
    - destruct (ss_greach_logs _ _ G) as (G1 & G2). rewrite G1. split; [apply extends_refl|exact G2].
    - destruct (ss_greach_logs _ _ G) as (G1 & G2). rewrite G1. split; [apply extends_app|exact G2].
  Qed.

  Lemma ss_run_logs cs : forall m,
    extends (s_steps (m_sim m)) (s_steps (m_sim (snd (ss_run sc k m cs)))) /\
    extends (s_reads (m_sim m)) (s_reads (m_sim (snd (ss_run sc k m cs)))).
  Proof.
    induction cs as [|c cs IH]; intros m; [split; apply extends_refl|].
    cbn [ss_run]. destruct (ss_do_call sc k m c) as [r m1] eqn:E.
    destruct (ss_do_call_logs _ _ _ _ E) as (A1 & A2). specialize (IH m1).
    destruct (ss_run sc k m1 cs) as [rs m2]. cbn [snd] in *. destruct IH as (B1 & B2).
    split; eapply extends_trans; eassumption.
  Qed.

  (* ---------------- the whole history ---------------- *)
  Lemma chk_hist_model fam cs : forall m g SL RL,
    forallb (wf_call k) cs = true -> rel g m ->
    extends (s_steps (m_sim (snd (ss_run sc k m cs)))) SL ->
    extends (s_reads (m_sim (snd (ss_run sc k m cs)))) RL ->
    chk_hist sc k fam g cs (fst (ss_run sc k m cs)) SL RL = 0%Z.
  Proof.
    pose proof wf_k as Hk.
    induction cs as [|c cs IH]; intros m g SL RL Hwc R ESL ERL; [reflexivity|].
    cbn [forallb] in Hwc. apply andb_true_iff in Hwc as [Hwc Hwcs].
    cbn [ss_run] in *. destruct (ss_do_call sc k m c) as [r m1] eqn:E.
    pose proof (ss_run_logs cs m1) as (M1 & M2).
    destruct (ss_run sc k m1 cs) as [rs m2] eqn:Erun. cbn [fst snd] in *.
    assert (ESL1 : extends (s_steps (m_sim m1)) SL) by (eapply extends_trans; eassumption).
    assert (ERL1 : extends (s_reads (m_sim m1)) RL) by (eapply extends_trans; eassumption).
    assert (IH' : forall g1, rel g1 m1 -> chk_hist sc k fam g1 cs rs SL RL = 0%Z).
    { intros g1 R1. specialize (IH m1 g1 SL RL Hwcs R1). rewrite Erun in IH. apply IH; assumption. }
    cbn [chk_hist]. rewrite (r_oop _ _ R).
    pose proof (do_call_shape SS k m c r m1 Hk E) as Sh.
    destruct c as [|acts sh].
    - (* reset *)
      destruct r as [obs|o| | |]; try contradiction.
      + destruct (chk_reset_model fam g m obs m1 R E) as (C & R1).
        destruct (chk_reset sc k fam g obs _ _) as [code g1] eqn:Ec. cbn [fst] in C. subst code.
        cbn. apply IH'.
        assert (Eg : g1 = reset_ghost sc k g (length (s_steps (m_sim m1))) (length (s_reads (m_sim m1))))
          by (unfold chk_reset in Ec; injection Ec as _ <-; reflexivity).
        rewrite Eg. exact R1.
      + (* a turn-based manager without learning agents *)
        unfold ss_do_call in E. destruct k; try (exfalso; apply Hk; reflexivity); cbn [do_call] in E.
        * destruct (all_reset_reports_learning SS m) as (? & ? & E' & _). rewrite E' in E. discriminate.
        * destruct (turn_reset_first_turn SS m) as [(Eo & _)|(? & ? & ? & ? & _ & E' & _)];
            [|rewrite E' in E; discriminate].
          change (order SS) with (corder sc) in Eo. rewrite Eo. reflexivity.
        * destruct (dyn_reset_reports_nominated SS m) as (? & ? & E' & _). rewrite E' in E. discriminate.
    - (* step *)
      destruct (negb (g_started g) || g_ended g) eqn:Eph; [reflexivity|].
      apply orb_false_iff in Eph as [Est Een]. apply negb_false_iff in Est.
      pose proof (r_live _ _ R Est Een) as LR.
      pose proof (l_inv _ _ LR) as Linv. pose proof (l_done _ _ LR) as Ldone.
      pose proof wf_sim_ok as Hs.
      assert (Ebad : existsb (fun kv => memb (fst kv) (g_done g)) acts = true \/ r <> RReject).
      { destruct r; try (right; discriminate). left. rewrite Ldone.
        destruct (existsb (fun kv => memb (fst kv) (m_done m)) acts) eqn:Ex; [reflexivity|].
        exfalso. apply submits_done_false in Ex. unfold ss_do_call in E.
        destruct k; try (apply Hk; reflexivity); cbn [do_call] in E.
        - destruct (all_actions_unchanged SS m acts sh Ex) as (? & ? & E' & _).
          rewrite E' in E. discriminate.
        - pose proof (hinv_tinv SS m Linv) as Ht.
          destruct (turn_step_cases SS m acts Ht) as [(_ & E')|[(C & _)|(_ & _ & ? & ? & E' & _)]];
            [rewrite E' in E; discriminate|contradiction|rewrite E' in E; discriminate].
        - destruct Hs as (_ & Hnom).
          destruct (dyn_actions_unchanged SS m acts (Hnom _) Ex) as (? & ? & E' & _).
          rewrite E' in E. discriminate. }
      destruct r as [obs|o| | |]; try contradiction.
      + (* output *)
        destruct (chk_out_model fam g m acts sh o m1 SL RL R Est Een Hwc E ESL1 ERL1) as (C & R1).
        destruct (chk_out sc k fam g acts sh o _ _ SL RL) as [code g1] eqn:Ec.
        cbn [fst] in C. subst code. cbn. apply IH'.
        assert (Eg : g1 = out_ghost sc k g o (length (s_steps (m_sim m1))) (length (s_reads (m_sim m1))))
          by (unfold chk_out in Ec; injection Ec as _ <-; reflexivity).
        rewrite Eg. exact R1.
      + (* rejected *)
        subst m1. destruct Ebad as [Eb|C]; [|contradiction]. rewrite Eb.
        rewrite (r_ns _ _ R), (r_nr _ _ R), !Nat.eqb_refl. cbn [negb andb].
        destruct (fam =? 1)%Z; apply IH', R.
      + (* error: only the turn-based manager, on an empty submission *)
        subst m1. rewrite (r_ns _ _ R), (r_nr _ _ R), !Nat.eqb_refl. cbn [negb andb].
        unfold ss_do_call in E. destruct k; try (exfalso; apply Hk; reflexivity); cbn [do_call] in E.
        * exfalso. unfold all_step in E. destruct (existsb _ acts); [discriminate|].
          destruct (thread _ _ _) as [? ?]. destruct (thread _ _ _) as [? ?]. discriminate.
        * pose proof (hinv_tinv SS m Linv) as Ht.
          destruct (turn_step_cases SS m acts Ht) as [(Ea & _)|[(_ & E')|(_ & _ & ? & ? & E' & _)]];
            [|rewrite E' in E; discriminate|rewrite E' in E; discriminate].
          subst acts. apply IH', R.
        * exfalso. unfold dyn_step in E. destruct (existsb _ acts); [discriminate|].
          destruct (sim_all _ _); [destruct (flush _ _ _ _ _); discriminate|].
          destruct (dyn_loop _ _ _ _ _) as [[? ?] ?]. discriminate.
      + (* out of fuel: excluded by the invariant *)
        exfalso. unfold ss_do_call in E.
        destruct k; try (apply Hk; reflexivity); cbn [do_call] in E.
        * unfold all_step in E. destruct (existsb _ acts); [discriminate|].
          destruct (thread _ _ _) as [? ?]. destruct (thread _ _ _) as [? ?]. discriminate.
        * pose proof (hinv_tinv SS m Linv) as Ht.
          apply (turn_search_no_fuel_error SS m acts Ht). rewrite E. reflexivity.
        * unfold dyn_step in E. destruct (existsb _ acts); [discriminate|].
          destruct (sim_all _ _); [destruct (flush _ _ _ _ _); discriminate|].
          destruct (dyn_loop _ _ _ _ _) as [[? ?] ?]. discriminate.
  Qed.

  Lemma rel_init : rel (ghost0) (init (ss_init sc)).
  Proof. constructor; cbn; try reflexivity. discriminate. Qed.

  Theorem chk_model fam cs : forallb (wf_call k) cs = true -> chk_run sc k fam cs = 0%Z.
  Proof.
    intros Hwc. unfold chk_run. cbv zeta.
    apply (chk_hist_model fam cs _ _ _ _ Hwc rel_init); apply extends_refl.
  Qed.
End ChkModel.

(* ---------------- the two instances quoted by the property files ---------------- *)
Theorem chk_C01_model_all sc k cs :
  wf_script k sc = true -> forallb (wf_call k) cs = true -> chk_run sc k 1 cs = 0%Z.
Proof. intros H1 H2. apply (chk_model sc k H1 1%Z cs H2). Qed.

Theorem chk_C07_model_all sc k cs :
  wf_script k sc = true -> forallb (wf_call k) cs = true -> chk_run sc k 7 cs = 0%Z.
Proof. intros H1 H2. apply (chk_model sc k H1 7%Z cs H2). Qed.

(* ---------------- reward conservation, one step, readable form ----------------
   Accumulate-and-reset: [s_pend] holds per agent what accrued since its accumulator was last
   read.  An accepted step adds the step's accruals, then every reported agent receives exactly
   what is pending for it, its accumulator is read exactly once (the read log grows by the
   reported keys, in order) and is zero afterwards; nothing is read for anybody else, whose
   pending amount is kept.  Hence delivered + pending = accrued is an invariant (the checker
   keeps the two running totals as ghost state: clauses 110/111). *)
Lemma nth_set_nth_other l : forall i j v, j <> i -> nth j (set_nth l i v) 0%Z = nth j l 0%Z.
Proof.
  induction l as [|x l IH]; intros i j v Hne; [reflexivity|].
  destruct i as [|i]; destruct j as [|j]; simpl; try reflexivity; [lia|]. apply IH. lia.
Qed.

Lemma nth_zero_at_notin a ks : forall q, ~ In a ks -> nth a (zero_at q ks) 0%Z = nth a q 0%Z.
Proof.
  induction ks as [|c ks IH]; intros q Hn; [reflexivity|].
  change (zero_at q (c :: ks)) with (zero_at (set_nth q c 0%Z) ks).
  rewrite IH by (intros C; apply Hn; right; exact C).
  apply nth_set_nth_other. intros E. apply Hn. left. symmetry. exact E.
Qed.

Lemma nth_zero_at_in a ks : forall q, In a ks -> a < length q -> nth a (zero_at q ks) 0%Z = 0%Z.
Proof.
  induction ks as [|c ks IH]; intros q Ha Hl; [destruct Ha|].
  change (zero_at q (c :: ks)) with (zero_at (set_nth q c 0%Z) ks).
  destruct (in_dec Nat.eq_dec a ks) as [Hin|Hn].
  - apply IH; [exact Hin|]. rewrite length_set_nth. exact Hl.
  - destruct Ha as [->|Ha]; [|contradiction]. rewrite (nth_zero_at_notin a ks _ Hn).
    rewrite nth_set_nth by exact Hl. rewrite Nat.eqb_refl. reflexivity.
Qed.

Theorem reward_conservation_step sc k m acts sh o m' :
  k <> MTurnPrefix -> ss_do_call sc k m (CStep acts sh) = (ROut o, m') ->
  NoDup (keys o) -> (forall a, In a (keys o) -> a < length (s_pend (m_sim m))) ->
  let p1 := add_lists (s_pend (m_sim m)) (r_acc (row_at sc (S (s_t (m_sim m))))) in
  o_rew o = map (fun a => (a, nth a p1 0%Z)) (keys o) /\
  (forall a, In a (keys o) -> nth a (s_pend (m_sim m')) 0%Z = 0%Z) /\
  (forall a, ~ In a (keys o) -> nth a (s_pend (m_sim m')) 0%Z = nth a p1 0%Z) /\
  s_reads (m_sim m') = s_reads (m_sim m) ++ keys o.
Proof.
  intros Hk H ND Hlt. cbv zeta.
  pose proof (model_step sc k m acts sh o m' Hk H) as MS. cbv zeta in MS.
  destruct MS as (_ & (Oobs & Orew & _ & _) & (_ & Tp & _ & Trd) & _).
  set (ks := exp_keys sc k (S (s_t (m_sim m))) (m_done m) (m_ptr m)) in *.
  assert (Hkeys : keys o = ks).
  { unfold keys. rewrite Oobs, map_map. cbn. apply map_id. }
  rewrite Hkeys in *.
  change (s_pend (ss_step sc (m_sim m) match k with MAll => sh | _ => acts end))
    with (add_lists (s_pend (m_sim m)) (r_acc (row_at sc (S (s_t (m_sim m)))))) in *.
  change (s_reads (ss_step sc (m_sim m) match k with MAll => sh | _ => acts end))
    with (s_reads (m_sim m)) in Trd.
  set (p1 := add_lists (s_pend (m_sim m)) (r_acc (row_at sc (S (s_t (m_sim m)))))) in *.
  assert (Lp1 : length p1 = length (s_pend (m_sim m))) by apply length_add_lists.
  split; [rewrite Orew; apply rews_nodup; [exact ND|rewrite Lp1; exact Hlt]|].
  split; [|split; [|exact Trd]].
  - intros a Ha. rewrite Tp. apply nth_zero_at_in; [exact Ha|]. rewrite Lp1. apply Hlt, Ha.
  - intros a Hn. rewrite Tp. apply nth_zero_at_notin, Hn.
Qed.
