(* The scripted simulation under the managers: purity facts, witnesses (refutations of the
   pre-fix models, non-vacuity), and the proof that the executable checker of Ctl/MgrCheck.v
   accepts the model's own behaviour. *)
From Coq Require Import ZArith List Bool Arith Lia.
From Abm Require Import Base.Sx Ctl.Managers Ctl.ScriptSim Ctl.MgrCheck
     Proofs.Managers_proofs Proofs.Managers_hist.
Import ListNotations.
Open Scope Z_scope.

(* the checker applied to the model's own history *)
Definition chk_run (sc : script) (k : mgr) (fam : Z) (cs : list (call Z)) : Z :=
  let r := ss_run sc k (init (ss_init sc)) cs in
  chk_hist sc k fam ghost0 cs (fst r) (s_steps (m_sim (snd r))) (s_reads (m_sim (snd r))).

(* ---------------- getters of the scripted simulation ---------------- *)
Lemma ss_greach_t sc s s' : greach (script_sim sc) s s' -> s_t s' = s_t s.
Proof. induction 1 as [s|s s' a _ IH|s s' a _ IH]; [reflexivity|exact IH|exact IH]. Qed.

Lemma ss_done_stable sc : done_stable (script_sim sc).
Proof.
  intros s s' a G. cbn. unfold ss_done. rewrite (ss_greach_t sc s s' G). reflexivity.
Qed.

(* ---------------- witnesses ---------------- *)
Definition mkrow d a nx acc := {| r_done := d; r_all := a; r_next := nx; r_acc := acc |}.
Definition st1 (a : nat) (v : Z) : call Z := CStep [(a, v)] [(a, v)].

(* F2: a0 is a non-learning entity (in done_agents from reset on); the submission
   {a1: 2, a0: 2} passes the pre-fix check of the first key only *)
Definition f2_sc : script :=
  {| sc_n := 2; sc_learn := [false; true];
     sc_rows := [mkrow [false; false] false [0%nat] [0; 1]] |}.
Definition f2_cs : list (call Z) :=
  [CReset; st1 1 5; CStep [(1%nat, 2); (0%nat, 2)] [(1%nat, 2); (0%nat, 2)]].

Lemma f2_refuted :
  chk_run f2_sc MTurnPrefix 1 f2_cs = 101 /\ chk_run f2_sc MTurn 1 f2_cs = 0 /\
  exists m acts o m',
    submits_done (m_done m) acts /\
    turn_step_prefix (script_sim f2_sc) m acts = (ROut o, m').
Proof.
  split; [vm_compute; reflexivity|]. split; [vm_compute; reflexivity|].
  exists (snd (run (script_sim f2_sc) MTurnPrefix (init (ss_init f2_sc)) [CReset; st1 1 5])).
  exists [(1%nat, 2); (0%nat, 2)]. eexists. eexists. split.
  - exists (0%nat, 2). split; [right; left; reflexivity|]. vm_compute. left. reflexivity.
  - vm_compute. reflexivity.
Qed.

(* F1: the pre-fix reset keeps the cycle position of the previous episode *)
Definition f1_sc : script :=
  {| sc_n := 3; sc_learn := [true; true; true];
     sc_rows := [mkrow [false; false; false] false [0%nat] [0; 1; 2]] |}.
Definition f1_cs : list (call Z) := [CReset; st1 0 5; CReset].

Lemma f1_refuted :
  chk_run f1_sc MTurnPrefix 7 f1_cs = 711 /\ chk_run f1_sc MTurn 7 f1_cs = 0 /\
  fst (run (script_sim f1_sc) MTurnPrefix (init (ss_init f1_sc)) f1_cs)
  = [RObs [(0%nat, 0)];
     ROut {| o_obs := [(1%nat, 101)]; o_rew := [(1%nat, 1)]; o_done := [(1%nat, false)];
             o_info := [(1%nat, -101)]; o_all := false |};
     RObs [(2%nat, 2)]].
Proof. repeat split; vm_compute; reflexivity. Qed.

(* non-vacuity: three learning agents, a1 finishes at t = 1 while a0 holds the turn, the
   simulation finishes at t = 5.  The history meets an empty submission (error), a submission
   with a done agent (reject), the three arms of the turn search (a1 newly done and reported
   on the way to a2; a1 skipped later; a live agent) and the flush branch. *)
Definition nv_sc : script :=
  {| sc_n := 3; sc_learn := [true; true; true];
     sc_rows := [mkrow [false; false; false] false [0%nat] [0; 0; 0];
                 mkrow [false; true; false] false [0%nat] [1; 2; 3];
                 mkrow [false; true; false] false [0%nat] [1; 2; 3];
                 mkrow [false; true; false] false [0%nat] [1; 2; 3];
                 mkrow [false; true; false] false [0%nat] [1; 2; 3];
                 mkrow [false; true; false] true [0%nat] [1; 2; 3]] |}.
Definition nv_cs : list (call Z) :=
  [CReset; st1 0 1; CStep [] []; CStep [(2%nat, 1); (1%nat, 1)] [(2%nat, 1); (1%nat, 1)];
   st1 2 1; st1 0 1; st1 2 1; st1 0 1; CReset].

Definition mkout ob rw dn inf al : out Z Z :=
  {| o_obs := ob; o_rew := rw; o_done := dn; o_info := inf; o_all := al |}.

Definition nv_expected : list (resp Z Z) :=
  [RObs [(0%nat, 0)];
   ROut (mkout [(1%nat, 101); (2%nat, 102)] [(1%nat, 2); (2%nat, 3)]
               [(1%nat, true); (2%nat, false)] [(1%nat, -101); (2%nat, -102)] false);
   RError; RReject;
   ROut (mkout [(0%nat, 200)] [(0%nat, 2)] [(0%nat, false)] [(0%nat, -200)] false);
   ROut (mkout [(2%nat, 302)] [(2%nat, 6)] [(2%nat, false)] [(2%nat, -302)] false);
   ROut (mkout [(0%nat, 400)] [(0%nat, 2)] [(0%nat, false)] [(0%nat, -400)] false);
   ROut (mkout [(0%nat, 500); (2%nat, 502)] [(0%nat, 1); (2%nat, 6)]
               [(0%nat, false); (2%nat, false)] [(0%nat, -500); (2%nat, -502)] true);
   RObs [(0%nat, 0)]].

Lemma nv_turn :
  let t := trace (script_sim nv_sc) MTurn (init (ss_init nv_sc)) Fresh nv_cs in
  in_protocol t /\ done_stable (script_sim nv_sc) /\
  map te_resp t = nv_expected /\
  (forall e, In e t -> te_ph e = Live -> tinv (script_sim nv_sc) (te_pre e)) /\
  chk_run nv_sc MTurn 1 nv_cs = 0 /\ chk_run nv_sc MTurn 7 nv_cs = 0.
Proof.
  cbv zeta. split; [apply in_protocolb_ok; vm_compute; reflexivity|].
  split; [apply ss_done_stable|]. split; [vm_compute; reflexivity|].
  split; [|split; vm_compute; reflexivity].
  assert (H : forallb (fun e => match te_ph e with
                                | Live => tinvb (script_sim nv_sc) (te_pre e) | _ => true end)
                      (trace (script_sim nv_sc) MTurn (init (ss_init nv_sc)) Fresh nv_cs) = true)
    by (vm_compute; reflexivity).
  rewrite forallb_forall in H. intros e He El. specialize (H e He). rewrite El in H.
  apply tinvb_ok, H.
Qed.

(* the remaining arm: the last agents finish together, the search itself reports __all__ *)
Definition nv2_sc : script :=
  {| sc_n := 2; sc_learn := [true; true];
     sc_rows := [mkrow [false; false] false [0%nat] [0; 0];
                 mkrow [true; true] false [0%nat] [4; 5]] |}.

Lemma nv_turn_all_done :
  fst (run (script_sim nv2_sc) MTurn (init (ss_init nv2_sc)) [CReset; st1 0 1])
  = [RObs [(0%nat, 0)];
     ROut (mkout [(1%nat, 101); (0%nat, 100)] [(1%nat, 5); (0%nat, 4)]
                 [(1%nat, true); (0%nat, true)] [(1%nat, -101); (0%nat, -100)] true)] /\
  chk_run nv2_sc MTurn 1 [CReset; st1 0 1] = 0 /\ chk_run nv2_sc MTurn 7 [CReset; st1 0 1] = 0.
Proof. repeat split; vm_compute; reflexivity. Qed.
