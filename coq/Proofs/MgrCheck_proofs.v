(* The scripted simulation under the managers: purity facts, witnesses (refutations of the
   pre-fix models, non-vacuity), and the proof that the executable checker of Ctl/MgrCheck.v
   accepts the model's own behaviour. *)
From Coq Require Import ZArith List Bool Arith Lia.
From Abm Require Import Base.Sx Ctl.Managers Ctl.ScriptSim Ctl.MgrCheck
     Proofs.Managers_proofs Proofs.Managers_hist.
Import ListNotations.
Open Scope Z_scope.

(* the checker applied to the model's own history *)
Definition chk_run (sc : script) (k : mgr) (fam : Z) (cs : list (call Z)) : Z :=
  let r := ss_run sc k (init (ss_init sc)) cs in
  chk_hist sc k fam ghost0 cs (fst r) (s_steps (m_sim (snd r))) (s_reads (m_sim (snd r))).

(* ---------------- getters of the scripted simulation ---------------- *)
Lemma ss_greach_t sc s s' : greach (script_sim sc) s s' -> s_t s' = s_t s.
Proof. induction 1 as [s|s s' a _ IH|s s' a _ IH]; [reflexivity|exact IH|exact IH]. Qed.

Lemma ss_done_stable sc : done_stable (script_sim sc).
Proof.
  intros s s' a G. cbn. unfold ss_done. rewrite (ss_greach_t sc s s' G). reflexivity.
Qed.

(* ---------------- witnesses ---------------- *)
Definition mkrow d a nx acc := {| r_done := d; r_all := a; r_next := nx; r_acc := acc |}.
Definition st1 (a : nat) (v : Z) : call Z := CStep [(a, v)] [(a, v)].

(* F2: a0 is a non-learning entity (in done_agents from reset on); the submission
   {a1: 2, a0: 2} passes the pre-fix check of the first key only *)
Definition f2_sc : script :=
  {| sc_n := 2; sc_learn := [false; true];
     sc_rows := [mkrow [false; false] false [0%nat] [0; 1]] |}.
Definition f2_cs : list (call Z) :=
  [CReset; st1 1 5; CStep [(1%nat, 2); (0%nat, 2)] [(1%nat, 2); (0%nat, 2)]].

Lemma f2_refuted :
  chk_run f2_sc MTurnPrefix 1 f2_cs = 101 /\ chk_run f2_sc MTurn 1 f2_cs = 0 /\
  exists m acts o m',
    submits_done (m_done m) acts /\
    turn_step_prefix (script_sim f2_sc) m acts = (ROut o, m').
Proof.
  split; [vm_compute; reflexivity|]. split; [vm_compute; reflexivity|].
  exists (snd (run (script_sim f2_sc) MTurnPrefix (init (ss_init f2_sc)) [CReset; st1 1 5])).
  exists [(1%nat, 2); (0%nat, 2)]. eexists. eexists. split.
  - exists (0%nat, 2). split; [right; left; reflexivity|]. vm_compute. left. reflexivity.
  - vm_compute. reflexivity.
Qed.

(* F1: the pre-fix reset keeps the cycle position of the previous episode *)
Definition f1_sc : script :=
  {| sc_n := 3; sc_learn := [true; true; true];
     sc_rows := [mkrow [false; false; false] false [0%nat] [0; 1; 2]] |}.
Definition f1_cs : list (call Z) := [CReset; st1 0 5; CReset].

Lemma f1_refuted :
  chk_run f1_sc MTurnPrefix 7 f1_cs = 711 /\ chk_run f1_sc MTurn 7 f1_cs = 0 /\
  fst (run (script_sim f1_sc) MTurnPrefix (init (ss_init f1_sc)) f1_cs)
  = [RObs [(0%nat, 0)];
     ROut {| o_obs := [(1%nat, 101)]; o_rew := [(1%nat, 1)]; o_done := [(1%nat, false)];
             o_info := [(1%nat, -101)]; o_all := false |};
     RObs [(2%nat, 2)]].
Proof. repeat split; vm_compute; reflexivity. Qed.

(* non-vacuity: three learning agents, a1 finishes at t = 1 while a0 holds the turn, the
   simulation finishes at t = 5.  The history meets an empty submission (error), a submission
   with a done agent (reject), the three arms of the turn search (a1 newly done and reported
   on the way to a2; a1 skipped later; a live agent) and the flush branch. *)
Definition nv_sc : script :=
  {| sc_n := 3; sc_learn := [true; true; true];
     sc_rows := [mkrow [false; false; false] false [0%nat] [0; 0; 0];
                 mkrow [false; true; false] false [0%nat] [1; 2; 3];
                 mkrow [false; true; false] false [0%nat] [1; 2; 3];
                 mkrow [false; true; false] false [0%nat] [1; 2; 3];
                 mkrow [false; true; false] false [0%nat] [1; 2; 3];
                 mkrow [false; true; false] true [0%nat] [1; 2; 3]] |}.
Definition nv_cs : list (call Z) :=
  [CReset; st1 0 1; CStep [] []; CStep [(2%nat, 1); (1%nat, 1)] [(2%nat, 1); (1%nat, 1)];
   st1 2 1; st1 0 1; st1 2 1; st1 0 1; CReset].

Definition mkout ob rw dn inf al : out Z Z :=
  {| o_obs := ob; o_rew := rw; o_done := dn; o_info := inf; o_all := al |}.

Definition nv_expected : list (resp Z Z) :=
  [RObs [(0%nat, 0)];
   ROut (mkout [(1%nat, 101); (2%nat, 102)] [(1%nat, 2); (2%nat, 3)]
               [(1%nat, true); (2%nat, false)] [(1%nat, -101); (2%nat, -102)] false);
   RError; RReject;
   ROut (mkout [(0%nat, 200)] [(0%nat, 2)] [(0%nat, false)] [(0%nat, -200)] false);
   ROut (mkout [(2%nat, 302)] [(2%nat, 6)] [(2%nat, false)] [(2%nat, -302)] false);
   ROut (mkout [(0%nat, 400)] [(0%nat, 2)] [(0%nat, false)] [(0%nat, -400)] false);
   ROut (mkout [(0%nat, 500); (2%nat, 502)] [(0%nat, 1); (2%nat, 6)]
               [(0%nat, false); (2%nat, false)] [(0%nat, -500); (2%nat, -502)] true);
   RObs [(0%nat, 0)]].

Lemma nv_turn :
  let t := trace (script_sim nv_sc) MTurn (init (ss_init nv_sc)) Fresh nv_cs in
  in_protocol t /\ done_stable (script_sim nv_sc) /\
  map te_resp t = nv_expected /\
  (forall e, In e t -> te_ph e = Live -> tinv (script_sim nv_sc) (te_pre e)) /\
  chk_run nv_sc MTurn 1 nv_cs = 0 /\ chk_run nv_sc MTurn 7 nv_cs = 0.
Proof.
  cbv zeta. split; [apply in_protocolb_ok; vm_compute; reflexivity|].
  split; [apply ss_done_stable|]. split; [vm_compute; reflexivity|].
  split; [|split; vm_compute; reflexivity].
  assert (H : forallb (fun e => match te_ph e with
                                | Live => tinvb (script_sim nv_sc) (te_pre e) | _ => true end)
                      (trace (script_sim nv_sc) MTurn (init (ss_init nv_sc)) Fresh nv_cs) = true)
    by (vm_compute; reflexivity).
  rewrite forallb_forall in H. intros e He El. specialize (H e He). rewrite El in H.
  apply tinvb_ok, H.
Qed.

(* the remaining arm: the last agents finish together, the search itself reports __all__ *)
Definition nv2_sc : script :=
  {| sc_n := 2; sc_learn := [true; true];
     sc_rows := [mkrow [false; false] false [0%nat] [0; 0];
                 mkrow [true; true] false [0%nat] [4; 5]] |}.

Lemma nv_turn_all_done :
  fst (run (script_sim nv2_sc) MTurn (init (ss_init nv2_sc)) [CReset; st1 0 1])
  = [RObs [(0%nat, 0)];
     ROut (mkout [(1%nat, 101); (0%nat, 100)] [(1%nat, 5); (0%nat, 4)]
                 [(1%nat, true); (0%nat, true)] [(1%nat, -101); (0%nat, -100)] true)] /\
  chk_run nv2_sc MTurn 1 [CReset; st1 0 1] = 0 /\ chk_run nv2_sc MTurn 7 [CReset; st1 0 1] = 0.
Proof. repeat split; vm_compute; reflexivity. Qed.

(* ====================================================================================
   The checker accepts the model's own behaviour
   ==================================================================================== *)
Open Scope nat_scope.

(* ---------------- lists ---------------- *)
Lemma nats_eqb_refl l : nats_eqb l l = true.
Proof. induction l as [|a l IH]; [reflexivity|]. simpl. rewrite Nat.eqb_refl. exact IH. Qed.

Lemma kv_eqb_refl x : kv_eqb x x = true.
Proof. unfold kv_eqb. rewrite Nat.eqb_refl, Z.eqb_refl. reflexivity. Qed.

Lemma kvs_eqb_refl l : kvs_eqb l l = true.
Proof. induction l as [|a l IH]; [reflexivity|]. simpl. rewrite kv_eqb_refl. exact IH. Qed.

Lemma kvs_eqb_eq l : forall m, kvs_eqb l m = true -> l = m.
Proof.
  induction l as [|[a v] l IH]; intros [|[b w] m] H; try discriminate; [reflexivity|].
  simpl in H. apply andb_true_iff in H as [H1 H2]. unfold kv_eqb in H1. cbn in H1.
  apply andb_true_iff in H1 as [H1 H3]. apply Nat.eqb_eq in H1. apply Z.eqb_eq in H3.
  subst. f_equal. apply IH, H2.
Qed.

Lemma nodupb_NoDup l : NoDup l -> nodupb l = true.
Proof.
  induction 1 as [|a l Hn _ IH]; [reflexivity|]. simpl. rewrite IH, andb_true_r.
  apply negb_true_iff, memb_false_In, Hn.
Qed.

Lemma length_set_nth l : forall i v, length (set_nth l i v) = length l.
Proof. induction l as [|x l IH]; intros [|i] v; simpl; try reflexivity. rewrite IH. reflexivity. Qed.

Lemma nth_set_nth l : forall i j v, (i < length l)%nat ->
  nth j (set_nth l i v) 0%Z = if Nat.eqb j i then v else nth j l 0%Z.
Proof.
  induction l as [|x l IH]; intros i j v Hi; [simpl in Hi; lia|].
  destruct i as [|i]; destruct j as [|j]; simpl; try reflexivity.
  apply IH. simpl in Hi. lia.
Qed.

Lemma length_add_lists l : forall m, length (add_lists l m) = length l.
Proof.
  induction l as [|x l IH]; intros [|y m]; simpl; try reflexivity. rewrite IH. reflexivity.
Qed.

Lemma nth_add_lists l : forall m j, (j < length l)%nat ->
  nth j (add_lists l m) 0%Z = (nth j l 0 + nth j m 0)%Z.
Proof.
  induction l as [|x l IH]; intros m j Hj; [simpl in Hj; lia|].
  destruct m as [|y m]; simpl.
  - destruct j; lia.
  - destruct j as [|j]; [reflexivity|]. apply IH. simpl in Hj. lia.
Qed.

Lemma nth_firstn_lt {A} (l : list A) : forall k j d, (j < k)%nat -> nth j (firstn k l) d = nth j l d.
Proof.
  induction l as [|x l IH]; intros k j d Hj; [rewrite firstn_nil; reflexivity|].
  destruct k as [|k]; [lia|]. destruct j as [|j]; [reflexivity|]. simpl. apply IH. lia.
Qed.

Lemma length_zeros k : length (zeros k) = k.
Proof. induction k as [|k IH]; [reflexivity|]. simpl. rewrite IH. reflexivity. Qed.

Lemma nth_zeros k j : nth j (zeros k) 0%Z = 0%Z.
Proof. revert j. induction k as [|k IH]; intros [|j]; simpl; try reflexivity. apply IH. Qed.

Lemma map_fst_filter_snd {A} (f : A -> bool) (l : list A) :
  map fst (filter snd (map (fun a => (a, f a)) l)) = filter f l.
Proof.
  induction l as [|a l IH]; [reflexivity|]. simpl. destruct (f a); simpl; rewrite IH; reflexivity.
Qed.

Definition extends {A} (l full : list A) : Prop := exists x, full = l ++ x.

Lemma extends_refl {A} (l : list A) : extends l l.
Proof. exists []. symmetry. apply app_nil_r. Qed.

Lemma extends_trans {A} (a b c : list A) : extends a b -> extends b c -> extends a c.
Proof. intros (x & ->) (y & ->). exists (x ++ y). rewrite app_assoc. reflexivity. Qed.

Lemma extends_app {A} (a x : list A) : extends a (a ++ x).
Proof. exists x. reflexivity. Qed.

Lemma nth_error_extends {A} (l : list A) x full :
  extends (l ++ [x]) full -> nth_error full (length l) = Some x.
Proof.
  intros (y & ->). rewrite <- app_assoc. rewrite nth_error_app2 by lia.
  rewrite Nat.sub_diag. reflexivity.
Qed.

Lemma segment_extends {A} (l ks full : list A) :
  extends (l ++ ks) full -> segment full (length l) (length ks) = ks.
Proof.
  intros (y & ->). unfold segment. rewrite <- app_assoc.
  rewrite skipn_app, skipn_all, Nat.sub_diag. cbn [app skipn].
  rewrite firstn_app, firstn_all, Nat.sub_diag. cbn. apply app_nil_r.
Qed.

(* ---------------- the scripted simulation under the model ---------------- *)
Section ScriptModel.
  Variable sc : script.
  Notation SS := (script_sim sc).
  Notation n := (sc_n sc).

  Definition obsv (t a : nat) : Z := (Z.of_nat t * 100 + Z.of_nat a)%Z.

  (* pending rewards after the accumulators of ks were read *)
  Definition zero_at (p : list Z) (ks : list nat) : list Z :=
    fold_left (fun p a => set_nth p a 0%Z) ks p.

  (* the values those reads return *)
  Fixpoint rews (p : list Z) (ks : list nat) : list (nat * Z) :=
    match ks with
    | [] => []
    | a :: ks' => (a, nth a p 0%Z) :: rews (set_nth p a 0%Z) ks'
    end.

  (* s' is s after get_obs/get_reward/get_done/get_info for the agents ks, in this order *)
  Definition rdrel (s : sst) (ks : list nat) (s' : sst) : Prop :=
    s_t s' = s_t s /\ s_pend s' = zero_at (s_pend s) ks /\ s_steps s' = s_steps s /\
    s_reads s' = s_reads s ++ ks.

  (* o' is o extended by the reports of ks at time t with pending rewards p *)
  Definition outrel (t : nat) (p : list Z) (o : out Z Z) (ks : list nat) (o' : out Z Z) : Prop :=
    o_obs o' = o_obs o ++ map (fun a => (a, obsv t a)) ks /\
    o_rew o' = o_rew o ++ rews p ks /\
    o_done o' = o_done o ++ map (fun a => (a, rdone sc t a)) ks /\
    o_info o' = o_info o ++ map (fun a => (a, (- obsv t a)%Z)) ks.

  Lemma rdrel_refl s : rdrel s [] s.
  Proof. unfold rdrel. cbn. rewrite app_nil_r. tauto. Qed.

  Lemma outrel_refl t p o : outrel t p o [] o.
  Proof. unfold outrel. cbn. rewrite !app_nil_r. tauto. Qed.

  Lemma zero_at_app p k1 k2 : zero_at p (k1 ++ k2) = zero_at (zero_at p k1) k2.
  Proof. unfold zero_at. apply fold_left_app. Qed.

  Lemma rews_app k1 : forall p k2, rews p (k1 ++ k2) = rews p k1 ++ rews (zero_at p k1) k2.
  Proof.
    induction k1 as [|a k1 IH]; intros p k2; [reflexivity|]. cbn. rewrite IH. reflexivity.
  Qed.

  Lemma rdrel_trans s k1 s1 k2 s2 : rdrel s k1 s1 -> rdrel s1 k2 s2 -> rdrel s (k1 ++ k2) s2.
  Proof.
    intros (A1 & A2 & A3 & A4) (B1 & B2 & B3 & B4). unfold rdrel.
    rewrite B1, B2, B3, B4, A1, A2, A3, A4, zero_at_app, app_assoc. tauto.
  Qed.

  Lemma outrel_trans t p o k1 o1 k2 o2 :
    outrel t p o k1 o1 -> outrel t (zero_at p k1) o1 k2 o2 -> outrel t p o (k1 ++ k2) o2.
  Proof.
    intros (A1 & A2 & A3 & A4) (B1 & B2 & B3 & B4). unfold outrel.
    rewrite B1, B2, B3, B4, A1, A2, A3, A4, rews_app, !map_app, <- !app_assoc. tauto.
  Qed.

  Lemma length_zero_at ks : forall p, length (zero_at p ks) = length p.
  Proof.
    induction ks as [|a ks IH]; intros p; [reflexivity|].
    change (length (zero_at (set_nth p a 0%Z) ks) = length p). rewrite IH. apply length_set_nth.
  Qed.

  (* distinct agents: each read returns what was pending before the output *)
  Lemma rews_nodup ks : forall p, NoDup ks -> (forall a, In a ks -> a < length p) ->
    rews p ks = map (fun a => (a, nth a p 0%Z)) ks.
  Proof.
    induction ks as [|a ks IH]; intros p ND Hlt; [reflexivity|]. cbn.
    inversion ND as [|x l Hn ND']; subst. f_equal. rewrite IH.
    - apply map_ext_in. intros b Hb. f_equal. rewrite nth_set_nth by (apply Hlt; left; reflexivity).
      destruct (Nat.eqb b a) eqn:E; [|reflexivity]. apply Nat.eqb_eq in E. subst. contradiction.
    - exact ND'.
    - intros b Hb. rewrite length_set_nth. apply Hlt. right. exact Hb.
  Qed.

  (* ---- the definitions of the model instance and of the checker coincide ---- *)
  Lemma order_script : order SS = corder sc.
  Proof. reflexivity. Qed.
  Lemma agents_script : agents SS = cagents sc.
  Proof. reflexivity. Qed.
  Lemma all_in_script d : all_in SS d = call_in sc d.
  Proof. reflexivity. Qed.
  Lemma done_script s a : sim_done SS s a = rdone sc (s_t s) a.
  Proof. reflexivity. Qed.

  Lemma ss_add_report s a o o1 s1 : add_report SS s a o = (o1, s1) ->
    outrel (s_t s) (s_pend s) o [a] o1 /\ rdrel s [a] s1 /\ o_all o1 = o_all o.
  Proof.
    unfold add_report. cbn. intros H. injection H as <- <-. unfold outrel, rdrel. cbn.
    repeat split.
  Qed.

  Lemma outrel_cons t p o a o1 ks o2 s s1 :
    outrel t p o [a] o1 -> rdrel s [a] s1 -> s_pend s = p ->
    outrel t (s_pend s1) o1 ks o2 -> outrel t p o (a :: ks) o2.
  Proof.
    intros A (_ & B & _) <- C. apply (outrel_trans _ _ _ [a] o1 ks o2 A). rewrite <- B. exact C.
  Qed.

  Lemma ss_flush d l : forall s o o' s', flush SS s d l o = (o', s') ->
    outrel (s_t s) (s_pend s) o (filter (fun a => negb (memb a d)) l) o' /\
    rdrel s (filter (fun a => negb (memb a d)) l) s' /\ o_all o' = o_all o.
  Proof.
    induction l as [|a l IH]; intros s o o' s' H; cbn [flush] in H; cbn [filter].
    - injection H as <- <-. split; [apply outrel_refl|]. split; [apply rdrel_refl|reflexivity].
    - destruct (memb a d); cbn [negb]; [apply IH, H|].
      destruct (add_report SS s a o) as [o1 s1] eqn:Ea.
      destruct (ss_add_report _ _ _ _ _ Ea) as (A1 & A2 & A3).
      destruct (IH _ _ _ _ H) as (B1 & B2 & B3). pose proof A2 as (T & _).
      rewrite T in B1. split; [|split; [|congruence]].
      + apply (outrel_cons _ _ _ _ _ _ _ _ _ A1 A2 eq_refl B1).
      + apply (rdrel_trans _ [a] _ _ _ A2 B2).
  Qed.

  Lemma ss_thread_obs l s :
    thread (sim_obs SS) s l = (map (fun a => (a, obsv (s_t s) a)) l, s).
  Proof. induction l as [|a l IH]; [reflexivity|]. cbn. cbn in IH. rewrite IH. reflexivity. Qed.

  Lemma ss_thread_rew l : forall s r s', thread (sim_reward SS) s l = (r, s') ->
    r = rews (s_pend s) l /\ rdrel s l s'.
  Proof.
    induction l as [|a l IH]; intros s r s' H.
    - cbn in H. injection H as <- <-. split; [reflexivity|apply rdrel_refl].
    - cbn in H. destruct (thread ss_reward _ l) as [r1 s2] eqn:E. injection H as <- <-.
      destruct (IH _ _ _ E) as (A & B). cbn in A. split; [cbn; rewrite A; reflexivity|].
      eapply (rdrel_trans s [a] _ l s2). 2: exact B. unfold rdrel. cbn. tauto.
  Qed.

  (* ---- the turn search of the model walks exactly like the checker's reference walk ---- *)
  Lemma turn_search_unf f s d p o : turn_search SS (S f) s d p o =
    if memb (nth p (corder sc) 0) d then turn_search SS f s d (S p mod length (corder sc)) o
    else if rdone sc (s_t s) (nth p (corder sc) 0) then
           let (o1, s1) := add_report SS s (nth p (corder sc) 0) o in
           if call_in sc (d ++ [nth p (corder sc) 0])
           then SOk (set_all o1 true) s1 (d ++ [nth p (corder sc) 0]) (S p mod length (corder sc))
           else turn_search SS f s1 (d ++ [nth p (corder sc) 0]) (S p mod length (corder sc)) o1
         else let (o1, s1) := add_report SS s (nth p (corder sc) 0) o in
              SOk o1 s1 d (S p mod length (corder sc)).
  Proof. reflexivity. Qed.

  Lemma turn_walk_unf f t d p : turn_walk sc (S f) t d p =
    if memb (nth p (corder sc) 0) d then turn_walk sc f t d (S p mod length (corder sc))
    else if rdone sc t (nth p (corder sc) 0) then
           if call_in sc (d ++ [nth p (corder sc) 0])
           then ([nth p (corder sc) 0], S p mod length (corder sc))
           else let (r, q) := turn_walk sc f t (d ++ [nth p (corder sc) 0])
                                        (S p mod length (corder sc)) in
                (nth p (corder sc) 0 :: r, q)
         else ([nth p (corder sc) 0], S p mod length (corder sc)).
  Proof. reflexivity. Qed.

  Lemma set_all_outrel t p o ks o1 b : outrel t p o ks o1 -> outrel t p o ks (set_all o1 b).
  Proof. intros H. exact H. Qed.

  Lemma ss_turn_search fuel : forall s d p o o' s' d' p',
    turn_search SS fuel s d p o = SOk o' s' d' p' ->
    outrel (s_t s) (s_pend s) o (fst (turn_walk sc fuel (s_t s) d p)) o' /\
    rdrel s (fst (turn_walk sc fuel (s_t s) d p)) s' /\
    p' = snd (turn_walk sc fuel (s_t s) d p) /\
    d' = d ++ filter (rdone sc (s_t s)) (fst (turn_walk sc fuel (s_t s) d p)).
  Proof.
    induction fuel as [|f IH]; intros s d p o o' s' d' p' H; [discriminate|].
    rewrite turn_search_unf in H. rewrite turn_walk_unf.
    set (a := nth p (corder sc) 0) in *. set (q := S p mod length (corder sc)) in *.
    destruct (memb a d); [apply IH, H|].
    destruct (add_report SS s a o) as [o1 s1] eqn:Ea.
    destruct (ss_add_report _ _ _ _ _ Ea) as (A1 & A2 & A3). pose proof A2 as (T & _).
    destruct (rdone sc (s_t s) a) eqn:Ed; [destruct (call_in sc (d ++ [a]))|].
    - injection H as <- <- <- <-. cbn [fst snd filter]. rewrite Ed.
      split; [exact A1|]. split; [exact A2|]. split; reflexivity.
    - destruct (IH _ _ _ _ _ _ _ _ H) as (B1 & B2 & B3 & B4). rewrite T in *.
      destruct (turn_walk sc f (s_t s) (d ++ [a]) q) as [r q']. cbn [fst snd filter] in *.
      rewrite Ed. split; [apply (outrel_cons _ _ _ _ _ _ _ _ _ A1 A2 eq_refl B1)|].
      split; [apply (rdrel_trans _ [a] _ _ _ A2 B2)|]. split; [exact B3|].
      rewrite B4, <- app_assoc. reflexivity.
    - injection H as <- <- <- <-. cbn [fst snd filter]. rewrite Ed, app_nil_r.
      split; [exact A1|]. split; [exact A2|]. split; reflexivity.
  Qed.

  Lemma dyn_loop_unf s d a l o : dyn_loop SS s d (a :: l) o =
    if memb a d then dyn_loop SS s d l o
    else if rdone sc (s_t s) a then
           let (o1, s1) := add_report SS s a o in
           if call_in sc (d ++ [a]) then (set_all o1 true, s1, d ++ [a])
           else dyn_loop SS s1 (d ++ [a]) l o1
         else let (o1, s1) := add_report SS s a o in dyn_loop SS s1 d l o1.
  Proof. reflexivity. Qed.

  Lemma ss_dyn_loop l : forall s d o o' s' d',
    dyn_loop SS s d l o = (o', s', d') ->
    outrel (s_t s) (s_pend s) o (dyn_walk sc (s_t s) d l) o' /\
    rdrel s (dyn_walk sc (s_t s) d l) s' /\
    d' = d ++ filter (rdone sc (s_t s)) (dyn_walk sc (s_t s) d l).
  Proof.
    induction l as [|a l IH]; intros s d o o' s' d' H.
    - cbn in H. injection H as <- <- <-. cbn. rewrite app_nil_r.
      split; [apply outrel_refl|]. split; [apply rdrel_refl|reflexivity].
    - rewrite dyn_loop_unf in H. cbn [dyn_walk].
      destruct (memb a d); [apply IH, H|].
      destruct (add_report SS s a o) as [o1 s1] eqn:Ea.
      destruct (ss_add_report _ _ _ _ _ Ea) as (A1 & A2 & A3). pose proof A2 as (T & _).
      destruct (rdone sc (s_t s) a) eqn:Ed; [destruct (call_in sc (d ++ [a]))|].
      + injection H as <- <- <-. cbn [filter]. rewrite Ed.
        split; [exact A1|]. split; [exact A2|reflexivity].
      + destruct (IH _ _ _ _ _ _ H) as (B1 & B2 & B4). rewrite T in *.
        cbn [filter]. rewrite Ed.
        split; [apply (outrel_cons _ _ _ _ _ _ _ _ _ A1 A2 eq_refl B1)|].
        split; [apply (rdrel_trans _ [a] _ _ _ A2 B2)|].
        rewrite B4, <- app_assoc. reflexivity.
      + destruct (IH _ _ _ _ _ _ H) as (B1 & B2 & B4). rewrite T in *.
        cbn [filter]. rewrite Ed.
        split; [apply (outrel_cons _ _ _ _ _ _ _ _ _ A1 A2 eq_refl B1)|].
        split; [apply (rdrel_trans _ [a] _ _ _ A2 B2)|exact B4].
  Qed.

  (* ---- one accepted step of the model over the scripted simulation, in closed form ---- *)
  Definition out_is (t : nat) (p : list Z) (ks : list nat) (o : out Z Z) : Prop :=
    o_obs o = map (fun a => (a, obsv t a)) ks /\ o_rew o = rews p ks /\
    o_done o = map (fun a => (a, rdone sc t a)) ks /\
    o_info o = map (fun a => (a, (- obsv t a)%Z)) ks.

  Lemma outrel_empty t p b ks o : outrel t p (empty_out b) ks o -> out_is t p ks o.
  Proof. intros H. exact H. Qed.

  Definition exp_keys (k : mgr) (t : nat) (d : list nat) (ptr : nat) : list nat :=
    if r_all (row_at sc t) then filter (fun a => negb (memb a d)) (cagents sc)
    else match k with
         | MAll => filter (fun a => negb (memb a d)) (cagents sc)
         | MTurn | MTurnPrefix => fst (turn_walk sc (S (length (corder sc))) t d ptr)
         | MDyn => dyn_walk sc t d (r_next (row_at sc t))
         end.

  Definition exp_ptr (k : mgr) (t : nat) (d : list nat) (ptr : nat) : nat :=
    match k with
    | MTurn | MTurnPrefix =>
        if r_all (row_at sc t) then ptr
        else snd (turn_walk sc (S (length (corder sc))) t d ptr)
    | _ => ptr
    end.

  Lemma model_step k m acts sh o m' : k <> MTurnPrefix ->
    ss_do_call sc k m (CStep acts sh) = (ROut o, m') ->
    let s1 := ss_step sc (m_sim m) (match k with MAll => sh | _ => acts end) in
    let t := S (s_t (m_sim m)) in
    let ks := exp_keys k t (m_done m) (m_ptr m) in
    existsb (fun kv => memb (fst kv) (m_done m)) acts = false /\
    out_is t (s_pend s1) ks o /\ rdrel s1 ks (m_sim m') /\
    (r_all (row_at sc t) = false -> m_done m' = m_done m ++ filter (rdone sc t) ks) /\
    (r_all (row_at sc t) = true -> o_all o = true) /\
    m_ptr m' = exp_ptr k t (m_done m) (m_ptr m).
  Proof.
    intros Hk H. cbv zeta. unfold ss_do_call in H. destruct k; [| | |contradiction]; cbn [do_call] in H.
    - (* all-step *)
      unfold all_step in H.
      destruct (existsb (fun kv => memb (fst kv) (m_done m)) acts); [discriminate|].
      set (s1 := sim_step SS (m_sim m) sh) in *.
      set (lv := filter (fun a => negb (memb a (m_done m))) (agents SS)) in *.
      rewrite ss_thread_obs in H.
      destruct (thread (sim_reward SS) s1 lv) as [rew s3] eqn:Er.
      destruct (ss_thread_rew _ _ _ _ Er) as (R1 & R2). pose proof R2 as (T & _).
      injection H as <- <-. cbn [m_sim m_done m_ptr o_obs o_rew o_done o_info o_all].
      assert (Ek : exp_keys MAll (S (s_t (m_sim m))) (m_done m) (m_ptr m) = lv)
        by (unfold exp_keys; destruct (r_all _); reflexivity).
      rewrite Ek. change (s_t s1) with (S (s_t (m_sim m))) in *.
      assert (Ed : map (fun a => (a, ss_done sc s3 a)) lv
                   = map (fun a => (a, rdone sc (S (s_t (m_sim m))) a)) lv)
        by (apply map_ext; intros a; unfold ss_done, rdone; rewrite T; reflexivity).
      rewrite Ed. split; [reflexivity|]. split; [|split; [exact R2|split; [|split]]].
      + unfold out_is. cbn [o_obs o_rew o_done o_info]. split; [reflexivity|].
        split; [exact R1|]. split; [reflexivity|]. apply map_ext. intros a.
        change (ss_info s3 a) with (- obsv (s_t s3) a)%Z. rewrite T. reflexivity.
      + intros _. rewrite map_fst_filter_snd. reflexivity.
      + intros E. unfold ss_all. rewrite T, E. reflexivity.
      + reflexivity.
    - (* turn-based *)
      unfold turn_step, turn_step_gen in H. destruct acts as [|[a0 v0] acts']; [discriminate|].
      set (acts := (a0, v0) :: acts') in *.
      destruct (existsb (fun kv => memb (fst kv) (m_done m)) acts); [discriminate|].
      split; [reflexivity|]. set (s1 := sim_step SS (m_sim m) acts) in *.
      change (sim_all SS s1) with (r_all (row_at sc (S (s_t (m_sim m))))) in H.
      unfold exp_keys, exp_ptr. destruct (r_all (row_at sc (S (s_t (m_sim m))))) eqn:Ea.
      + destruct (flush SS s1 (m_done m) (agents SS) (empty_out true)) as [o1 s2] eqn:Ef.
        destruct (ss_flush _ _ _ _ _ _ Ef) as (F1 & F2 & F3). injection H as <- <-.
        cbn [m_sim m_done m_ptr]. split; [apply (outrel_empty _ _ _ _ _ F1)|].
        split; [exact F2|]. split; [discriminate|]. split; [intros _; exact F3|reflexivity].
      + destruct (turn_search SS (S (length (order SS))) s1 (m_done m) (m_ptr m) (empty_out false))
          as [o1 s2 d p|] eqn:Es; [|discriminate].
        destruct (ss_turn_search _ _ _ _ _ _ _ _ _ Es) as (F1 & F2 & F3 & F4).
        injection H as <- <-. cbn [m_sim m_done m_ptr].
        change (s_t s1) with (S (s_t (m_sim m))) in *. change (order SS) with (corder sc) in *.
        split; [apply (outrel_empty _ _ _ _ _ F1)|]. split; [exact F2|].
        split; [intros _; exact F4|]. split; [discriminate|exact F3].
    - (* dynamic order *)
      unfold dyn_step in H.
      destruct (existsb (fun kv => memb (fst kv) (m_done m)) acts); [discriminate|].
      split; [reflexivity|]. set (s1 := sim_step SS (m_sim m) acts) in *.
      change (sim_all SS s1) with (r_all (row_at sc (S (s_t (m_sim m))))) in H.
      unfold exp_keys, exp_ptr. destruct (r_all (row_at sc (S (s_t (m_sim m))))) eqn:Ea.
      + destruct (flush SS s1 (m_done m) (agents SS) (empty_out true)) as [o1 s2] eqn:Ef.
        destruct (ss_flush _ _ _ _ _ _ Ef) as (F1 & F2 & F3). injection H as <- <-.
        cbn [m_sim m_done m_ptr]. split; [apply (outrel_empty _ _ _ _ _ F1)|].
        split; [exact F2|]. split; [discriminate|]. split; [intros _; exact F3|reflexivity].
      + destruct (dyn_loop SS s1 (m_done m) (sim_next SS s1) (empty_out false))
          as [[o1 s2] d] eqn:Ed.
        destruct (ss_dyn_loop _ _ _ _ _ _ _ Ed) as (F1 & F2 & F4).
        injection H as <- <-. cbn [m_sim m_done m_ptr].
        change (s_t s1) with (S (s_t (m_sim m))) in *.
        change (sim_next SS s1) with (r_next (row_at sc (S (s_t (m_sim m))))) in *.
        split; [apply (outrel_empty _ _ _ _ _ F1)|]. split; [exact F2|].
        split; [intros _; exact F4|]. split; [discriminate|reflexivity].
  Qed.
End ScriptModel.
